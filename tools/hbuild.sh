#!/bin/bash
# builds the harness against /repo the way check.py does (debug and release)
export CARGO_NET_OFFLINE=true CARGO_TARGET_DIR=/verif/.cache/target RUSTFLAGS='--cfg griddle_verif'
cd /verif/harness && cargo build --offline --features par,ser 2>&1 | grep -E "^(error|warning: unused)" -A6 | head -40
cargo build --offline --release --features par,ser 2>&1 | grep -E "^error" -A6 | head -20
