#!/bin/bash
# all_seeds.sh: applies every seeded change in turn, runs the quick check of the property it
# breaks, restores /repo; one line per seed.  (Never run while anything else uses /repo.)
cd /verif
for d in seeded/*/; do
  id=$(basename $d); prop=${id%%-*}
  git -C /repo apply "/verif/$d/patch.diff" 2>/dev/null || { echo "$id patch does not apply"; git -C /repo checkout -- .; continue; }
  out=$(timeout 3000 python3 check.py $prop --tier quick 2>&1 | grep -E "^VIOLATION|held on" | head -1 | cut -c1-160)
  git -C /repo checkout -- .
  echo "$id $out"
done
git -C /repo status --short | head -3
