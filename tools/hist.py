#!/usr/bin/env python3
"""Extract one history (by id) from a trace file: hist.py TRACE ID [> out]"""
import sys
tr, hid = sys.argv[1], sys.argv[2]
on = False
for line in open(tr):
    if line.startswith('H '):
        on = line.split()[-1] == hid
    if on:
        sys.stdout.write(line)
