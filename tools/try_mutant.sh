#!/bin/bash
# try_mutant.sh <seed-dir> <property>...   applies the patch to /repo, runs the checks, restores /repo
set -u
d=$1; shift
cd /repo && git apply "$d/patch.diff" || { echo "patch does not apply"; exit 2; }
cd /verif
for p in "$@"; do
  echo "--- $p on $(basename $d)"
  timeout 3000 python3 check.py $p --tier quick 2>&1 | tail -4 | cut -c1-700
done
git -C /repo checkout -- . 
git -C /repo status --short | head -3
