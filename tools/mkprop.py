#!/usr/bin/env python3
"""mkprop.py Cxx "title" T_name=C_name[:comment] ...  -> writes coq/Prop_Cxx.v restating the lemmas of Theorems.v
as Theorems closed by `exact`."""
import re, sys
pid, title = sys.argv[1], sys.argv[2]
src = open('/verif/coq/Theorems.v').read()
out = [f"(* {pid} — {title}", "   Statements only: each theorem restates a lemma of Theorems.v and is closed by [exact]. *)",
       "From stdpp Require Import gmap list.", "From Coq Require Import NArith.",
       "From G Require Import Arith Monad Types Inv Raw RawProofs Map MapProofs IterProofs CloneProofs Cost EntryProofs EntryCost Ledger SetProofs Conserve EntryLedger Fill WorldProofs WorldLedger Theorems.",
       "Local Open Scope N_scope.", ""]
names = []
for spec in sys.argv[3:]:
    tname, cname = spec.split('=')
    m = re.search(r'Lemma ' + re.escape(tname) + r'\b', src)
    if not m:
        sys.exit(f'lemma {tname} not found')
    # comment immediately above
    before = src[:m.start()].rstrip()
    comment = ''
    if before.endswith('*)'):
        comment = before[before.rindex('(*'):]
    i = m.end(); depth = 0
    while True:
        ch = src[i]
        if ch == '(' : depth += 1
        elif ch == ')': depth -= 1
        elif ch == ':' and depth == 0 and src[i+1] != '=': break
        i += 1
    binders = src[m.end():i].strip()
    j = src.index('\nProof.', i)
    stmt = src[i+1:j].strip()
    assert stmt.endswith('.'), stmt[-40:]
    stmt = stmt[:-1]
    if comment:
        out.append(comment)
    head = f"Theorem {cname} : forall {binders},\n  " if binders else f"Theorem {cname} :\n  "
    out.append(head + stmt + f".\nProof. exact {tname}. Qed.\n")
    names.append(cname)
for n in names:
    out.append(f"Print Assumptions {n}.")
open(f'/verif/coq/Prop_{pid}.v', 'w').write('\n'.join(out) + '\n')
print('wrote', pid, names)
