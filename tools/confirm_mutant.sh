#!/bin/bash
# confirm_mutant.sh <ID> [extra cargo flags]: re-verifies a sub-agent's mutant in its scratch worktree /tmp/mut/<ID>
id=$1; shift
cd /tmp/mut/$id || exit 2
export CARGO_TARGET_DIR=/tmp/mut/$id/target CARGO_NET_OFFLINE=true
echo "== diff"; git diff --stat -- src
mv tests/mutant_demo.rs /tmp/mut/$id.demo.rs
echo "== suite with change"; cargo test --offline --no-fail-fast "$@" 2>&1 | grep -E "^test result|FAILED|panicked" | sort | uniq -c
mv /tmp/mut/$id.demo.rs tests/mutant_demo.rs
echo "== demo with change (expect failure)"; cargo test --offline --test mutant_demo "$@" 2>&1 | grep -E "^test |test result" | head
git diff -- src > /tmp/mut/$id.current.diff; git apply -R /tmp/mut/$id.current.diff
echo "== demo without change (expect ok)"; cargo test --offline --test mutant_demo "$@" 2>&1 | grep -E "^test |test result" | head
git apply /tmp/mut/$id.current.diff
git diff --stat -- src | tail -1
rm -rf /tmp/mut/$id/target
