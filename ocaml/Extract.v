(* Extract.v — the model as OCaml, for the correspondence check.  ExtrOcamlBasic only: its
   Extract Inductive directives map bool, option, unit, list, prod, sumbool, sumor, comparison to the OCaml
   types of the same shape.  No Extract Constant.  N and positive stay the extracted data types. *)
From Coq Require Import Extraction ExtrOcamlBasic NArith.
From G Require Import Arith Monad Types Raw Map.
Extraction Blacklist List String Int.
Extraction "model.ml" step step_caught world0 summary dump slot_of set_world_fuse w_maps w_log w_fuse W
  l_hash l_move l_alloc l_free l_cb l_dk l_dv T Cfg
  N.add N.mul N.div_eucl N.eqb N.of_nat N.to_nat N.compare.
