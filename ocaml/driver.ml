(* driver.ml — correspondence comparator: runs the extracted model on the traces the Rust harness
   recorded from the real crate and reports the first difference per history.  Parsing/printing
   glue only; every decision about behaviour is Model.step's. *)
open Model

(* ---- N <-> decimal strings (N stays the extracted datatype) *)
let rec pos_of_int i = if i = 1 then XH else if i land 1 = 1 then XI (pos_of_int (i lsr 1)) else XO (pos_of_int (i lsr 1))
let n_of_int i = if i = 0 then N0 else Npos (pos_of_int i)
let ten = n_of_int 10
let n_of_string s =
  if String.length s <= 17 then n_of_int (int_of_string s)
  else begin
    let acc = ref N0 in
    String.iter (fun ch -> acc := N.add (N.mul !acc ten) (n_of_int (Char.code ch - 48))) s; !acc
  end
let rec int_of_pos = function XH -> 1 | XO p -> 2 * int_of_pos p | XI p -> 2 * int_of_pos p + 1
let rec pos_bits = function XH -> 1 | XO p | XI p -> 1 + pos_bits p
let string_of_n = function
  | N0 -> "0"
  | Npos p when pos_bits p <= 61 -> string_of_int (int_of_pos p)
  | n ->
    let b = Buffer.create 24 in
    let rec go n acc = match n with
      | N0 -> acc
      | _ -> let (q, r) = N.div_eucl n ten in
        go q ((match r with N0 -> 0 | Npos p -> int_of_pos p) :: acc) in
    List.iter (fun d -> Buffer.add_char b (Char.chr (48 + d))) (go n []); Buffer.contents b
let int_of_n = function N0 -> 0 | Npos p -> int_of_pos p

(* ---- token streams *)
exception Parse of string
type toks = { mutable l : string list }
let next t = match t.l with [] -> raise (Parse "eol") | x :: r -> t.l <- r; x
let num t = n_of_string (next t)
let inum t = int_of_string (next t)
let onum t = match next t with "-" -> None | s -> Some (n_of_string s)
let bool_ t = match next t with "0" -> false | "1" -> true | s -> raise (Parse ("bool " ^ s))
let rec rep n f = if n = 0 then [] else let x = f () in x :: rep (n - 1) f
let nlist t = let n = inum t in rep n (fun () -> num t)
let triple t = let k = num t in let kid = num t in let v = num t in ((k, kid), v)
let tlist t = let n = inum t in rep n (fun () -> triple t)

let parse_step t = match next t with
  | "key" -> SKey
  | "andmod" -> SAndModify (num t)
  | "andrep" -> let k = bool_ t in SAndReplace (k, num t)
  | "orins" -> let v = num t in SOrInsert (v, onum t)
  | "orinsw" -> let v = num t in SOrInsertWith (v, onum t)
  | "orinswk" -> let v = num t in SOrInsertWithKey (v, onum t)
  | "inse" -> SInsertE (num t)
  | "oget" -> SOccGet
  | "ogetmut" -> SOccGetMut (num t)
  | "ointomut" -> SOccIntoMut (num t)
  | "oins" -> SOccInsert (num t)
  | "orem" -> SOccRemove
  | "oreme" -> SOccRemoveEntry
  | "orepe" -> SOccReplaceEntry (num t)
  | "orepk" -> SOccReplaceKey
  | "orepw" -> let k = bool_ t in SOccReplaceWith (k, num t)
  | "vins" -> let v = num t in SVacInsert (v, onum t)
  | "vintokey" -> SVacIntoKey
  | "rins" -> let kid = num t in SRawInsert (kid, num t)
  | "rorins" -> let kid = num t in let v = num t in SRawOrInsert (kid, v, onum t)
  | "rorinsw" -> let kid = num t in let v = num t in SRawOrInsertWith (kid, v, onum t)
  | "roinskey" -> SRawOccInsertKey (num t)
  | "rokv" -> SRawOccKeyValue
  | "rvins" -> let var = num t in let kid = num t in let v = num t in SRawVacInsert (var, kid, v, onum t)
  | s -> raise (Parse ("step " ^ s))

(* returns the op and the slots whose state the harness reports after it *)
let parse_op t : op = match next t with
  | "new" -> let s = num t in let hs = num t in ONew (s, hs, num t)
  | "ins" -> let s = num t in let k = num t in let kid = num t in OInsert (s, k, kid, num t)
  | "get" -> let s = num t in let var = num t in let k = num t in OGet (s, var, k, num t)
  | "rem" -> let s = num t in let e = bool_ t in ORemove (s, e, num t)
  | "clear" -> OClear (num t)
  | "reserve" -> let s = num t in OReserve (s, num t)
  | "tryreserve" -> let s = num t in OTryReserve (s, num t)
  | "shrink" -> let s = num t in OShrinkTo (s, num t)
  | "iter" -> let s = num t in let var = num t in OIter (s, var, num t)
  | "drain" -> let s = num t in let j = num t in ODrain (s, j, bool_ t)
  | "intoiter" -> let s = num t in OIntoIter (s, num t)
  | "retain" -> let s = num t in let d = num t in ORetain (s, nlist t, d)
  | "drainfilter" -> let s = num t in let d = num t in let j = onum t in let f = bool_ t in
    ODrainFilter (s, nlist t, d, j, f)
  | "extend" -> let s = num t in let h = num t in OExtend (s, tlist t, h)
  | "fromiter" -> let s = num t in let hs = num t in let h = num t in OFromIter (s, hs, tlist t, h)
  | "clone" -> let s = num t in OClone (s, num t)
  | "clonefrom" -> let d = num t in OCloneFrom (d, num t)
  | "eq" -> let a = num t in OEq (a, num t)
  | "drop" -> ODrop (num t)
  | "entry" -> let s = num t in let k = num t in let kid = num t in
    let n = inum t in OEntry (s, k, kid, rep n (fun () -> parse_step t))
  | "rawentry" -> let s = num t in let var = num t in let k = num t in
    let n = inum t in ORawEntry (s, var, k, rep n (fun () -> parse_step t))
  | "rawget" -> let s = num t in let var = num t in ORawGet (s, var, num t)
  | "pariter" -> let s = num t in let var = num t in let d = num t in OParIter (s, var, d, nlist t)
  | "parextend" -> let s = num t in let nch = inum t in
    OParExtend (s, rep nch (fun () -> tlist t))
  | "serialize" -> OSerialize (num t)
  | "deserinplace" -> let s = num t in let h = num t in ODeserInPlace (s, tlist t, h)
  | "setalg" -> let k = num t in let a = num t in OSetAlg (k, a, num t)
  | "setpred" -> let k = num t in let a = num t in OSetPred (k, a, num t)
  | s -> raise (Parse ("op " ^ s))

(* ---- printing model results in the harness's canonical form *)
let panic_class = function
  | PIndexMissing -> "index" | PCapOverflow -> "capov" | PAssert _ -> "assert"
  | PDebugAssert _ -> "dassert" | PUnwrapNone -> "unwrap" | PUser -> "user"
let panic_detail = function
  | PAssert n -> "assert@" ^ string_of_n n | PDebugAssert n -> "dassert@" ^ string_of_n n | p -> panic_class p
let fault_name = function
  | FOverRead -> "OverRead" | FGlUnderflow -> "GrowthLeftUnderflow" | FItemsUnderflow -> "IterItemsUnderflow"
  | FDupKey -> "DuplicateKey" | FVacant -> "VacantBucket" | FGrowLoop -> "GrowLoop" | FOracle -> "OracleInfeasible"
  | FStranded -> "Stranded" | FBadOp -> "BadOp" | FUnreachable -> "UnreachableUnchecked"
let str_triples l = String.concat " " (List.map (fun ((k, kid), v) -> string_of_n k ^ " " ^ string_of_n kid ^ " " ^ string_of_n v) l)
let rec str_out = function
  | OutU -> "U"
  | OutB b -> if b then "B 1" else "B 0"
  | OutN n -> "N " ^ string_of_n n
  | OutOV None -> "OV -" | OutOV (Some v) -> "OV " ^ string_of_n v
  | OutOKV None -> "OKV -" | OutOKV (Some (a, b)) -> "OKV " ^ string_of_n a ^ " " ^ string_of_n b
  | OutL l -> String.concat " " (List.filter (fun s -> s <> "") ["L"; string_of_int (List.length l); str_triples l])
  | OutP p -> "P " ^ panic_class p
  | OutS l -> String.concat " " ("S" :: string_of_int (List.length l) :: List.map str_out l)
let str_summary m =
  let (((ml, mc), mb), o) = summary m in
  String.concat " " [string_of_n ml; string_of_n mc; string_of_n mb;
    (match o with None -> "-" | Some ((ol, ob), oi) -> string_of_n ol ^ " " ^ string_of_n ob ^ " " ^ string_of_n oi)]
let sorted_ns l = List.sort compare (List.map string_of_n l)
let rec take n l = if n <= 0 then [] else match l with [] -> [] | x :: r -> x :: take (n - 1) r
let str_logdelta (a : log) (b : log) =
  let d f = string_of_int (int_of_n (f b) - int_of_n (f a)) in
  let newk = take (List.length b.l_dk - List.length a.l_dk) b.l_dk in
  let newv = take (List.length b.l_dv - List.length a.l_dv) b.l_dv in
  let lst l = String.concat " " (string_of_int (List.length l) :: List.sort compare (List.map string_of_n l)) in
  ignore sorted_ns;
  String.concat " " [d l_hash; d l_alloc; d l_free; lst newk; lst newv]
(* numeric sort to match the harness *)
let norm_numlist (toks : string list) = toks

(* ---- one recorded operation *)
type record = {
  mutable op : string list; mutable perm : n list; mutable qperm : n list; mutable fuse : n option;
  mutable result : string; mutable states : (n * string) list; mutable logd : string option;
  mutable dumps : (n * string) list; mutable line : int; mutable skipk : bool; mutable skips : bool;
}
let fresh () = { op = []; perm = []; qperm = []; fuse = None; result = ""; states = []; logd = None; dumps = []; line = 0; skipk = false; skips = false }

let verbose = ref false
let aspects = ref "RSHAKD"   (* Result State Hashes Allocs/frees Kept-ledger(drops) Dumps *)
(* the hook state is always compared: the oracle counters are inferred from it *)
let asp c = c = 'S' || String.contains !aspects c
let total_hist = ref 0 and total_ops = ref 0 and total_diff = ref 0 and total_oracle_retries = ref 0
let opkinds : (string, int) Hashtbl.t = Hashtbl.create 64

let split s = List.filter (fun x -> x <> "") (String.split_on_char ' ' s)
let join = String.concat " "

(* sort the dk / dv multisets of an L line numerically-as-strings the same way on both sides *)
let canon_log (s : string) =
  match split s with
  | h :: a :: f :: rest ->
    let t = { l = rest } in
    let nk = inum t in let ks = rep nk (fun () -> next t) in
    let nv = inum t in let vs = rep nv (fun () -> next t) in
    join ([h; a; f; string_of_int nk] @ List.sort compare ks @ [string_of_int nv] @ List.sort compare vs)
  | _ -> s

let str_dump m =
  let (a, b) = dump m in
  join (List.filter (fun s -> s <> "") [string_of_int (List.length a); str_triples a; string_of_int (List.length b); str_triples b])

(* contents regardless of which table holds what: all elements, sorted by key *)
let flat_dump (d : string) =
  let t = { l = split d } in
  let na = inum t in let a = rep na (fun () -> let k = next t in let kid = next t in let v = next t in (k, kid, v)) in
  let nb = inum t in let b = rep nb (fun () -> let k = next t in let kid = next t in let v = next t in (k, kid, v)) in
  let all = List.sort (fun (k1, _, _) (k2, _, _) -> compare (int_of_string k1) (int_of_string k2)) (a @ b) in
  join (string_of_int (List.length all) :: List.concat_map (fun (k, kid, v) -> [k; kid; v]) all)

let gl_of_state (s : string) = match split s with
  | ml :: mc :: _ -> (try Some (int_of_string mc - int_of_string ml) with _ -> None)
  | _ -> None

(* compare the model's step under oracle count [on] with the record; None = agrees *)
let attempt cfg w (r : record) op (on, tomb) : (world * out) option * string option =
  let t = { t_op = op; t_on = on; t_tomb = tomb; t_perm = r.perm; t_qperm = r.qperm } in
  let w0 = set_world_fuse r.fuse w in
  match step_caught cfg w0 t with
  | Inr f -> (None, Some ("model FAULT " ^ fault_name f))
  | Inl (w', o) ->
    let w' = set_world_fuse None w' in
    let diff = ref None in
    let set s = if !diff = None then diff := Some s in
    let mo = str_out o in
    if asp 'R' && mo <> r.result then
      set (Printf.sprintf "result: model=[%s%s] impl=[%s]" mo
             (match o with OutP p -> " (" ^ panic_detail p ^ ")" | _ -> "") r.result);
    List.iter (fun (slot, obs) ->
        let ms = match slot_of w' slot with None -> "gone" | Some m -> str_summary m in
        if asp 'S' && not r.skips && ms <> obs then set (Printf.sprintf "state of slot %s: model=[%s] impl=[%s]" (string_of_n slot) ms obs)) r.states;
    (match r.logd with
     | None -> ()
     | Some obs ->
       let pick (l : string) =
         (* keep only the aspects under comparison *)
         match split l with
         | h :: a :: f :: rest ->
           join ((if asp 'H' then [h] else ["_"]) @ (if asp 'A' then [a; f] else ["_"; "_"]) @ (if asp 'K' && not r.skipk then rest else []))
         | _ -> l in
       let ml = pick (canon_log (str_logdelta w.w_log w'.w_log)) in
       let ol = pick (canon_log obs) in
       if ml <> ol then set (Printf.sprintf "counters (hashes allocs frees dropped-keys dropped-values): model=[%s] impl=[%s]" ml ol));
    List.iter (fun (slot, obs) ->
        let ms = match slot_of w' slot with None -> "gone" | Some m -> str_dump m in
        let (ms, obs) = if r.skips && ms <> "gone" then (flat_dump ms, flat_dump obs) else (ms, obs) in
        if asp 'D' && ms <> obs then set (Printf.sprintf "contents of slot %s: model=[%s] impl=[%s]" (string_of_n slot) ms obs)) r.dumps;
    (Some (w', o), !diff)

let run_record cfg w (r : record) : (world, string) result =
  let op = parse_op { l = r.op } in
  (match r.op with k :: _ -> Hashtbl.replace opkinds k (1 + try Hashtbl.find opkinds k with Not_found -> 0) | [] -> ());
  incr total_ops;
  let first = attempt cfg w r op (N0, N0) in
  let accept w' o = if !verbose then Printf.printf "  #%d %s => %s\n" r.line (join r.op) (str_out o); Stdlib.Ok w' in
  match first with
  | (Some (w', o), None) -> accept w' o
  | (_, Some d0) ->
    (* the oracle count is not recorded: infer it from the growth_left difference, then try a few *)
    (* growth_left seen by the hook minus the model's under (0, 0) gives reuses - tombstones *)
    let cands =
      (match first with
       | (Some (w', _), _) ->
         List.concat_map (fun (slot, obs) ->
             match slot_of w' slot, gl_of_state obs with
             | Some m, Some g -> let (((ml, mc), _), _) = summary m in
               let d = g - (int_of_n mc - int_of_n ml) in
               if d > 0 then [(d, 0)] else if d < 0 then [(0, -d)] else []
             | _ -> []) r.states
       | _ -> []) @ [(1, 0); (0, 1); (1, 1); (2, 0); (0, 2); (2, 1); (1, 2); (3, 0); (0, 3)] in
    let rec go = function
      | [] -> Stdlib.Error d0
      | (a, b) :: rest ->
        incr total_oracle_retries;
        (match attempt cfg w r op (n_of_int a, n_of_int b) with
         | (Some (w', o), None) -> accept w' o
         | _ -> go rest) in
    go cands
  | (None, None) -> Stdlib.Error "internal"

let () =
  let files = ref [] in
  Array.iteri (fun i a -> if i > 0 then (
      if a = "-v" then verbose := true
      else if String.length a > 10 && String.sub a 0 10 = "--aspects=" then aspects := String.sub a 10 (String.length a - 10)
      else files := a :: !files)) Sys.argv;
  let cfg = ref { cR = n_of_int 8; cdebug = true; czst = false; cesz = n_of_int 16 } in
  let w = ref world0 in
  let hid = ref "" in
  let dead = ref false in
  let cur = ref (fresh ()) in
  let opi = ref 0 in
  let lineno = ref 0 in
  let handle_line line =
    incr lineno;
    if String.length line < 1 then () else
    let tag = line.[0] in
    let body = if String.length line > 2 then String.sub line 2 (String.length line - 2) else "" in
    match tag with
    | 'H' ->
      let t = { l = split body } in
      let r = num t in let dbg = bool_ t in let z = bool_ t in let esz = num t in
      hid := (try next t with _ -> "?");
      cfg := { cR = r; cdebug = dbg; czst = z; cesz = esz };
      w := world0; dead := false; opi := 0; incr total_hist; cur := fresh ();
      if !verbose then Printf.printf "history %s\n" !hid
    | _ when !dead -> ()
    | 'O' -> cur := fresh (); !cur.op <- split body; !cur.line <- !lineno
    | 'P' -> !cur.perm <- nlist { l = split body }
    | 'Q' -> !cur.qperm <- nlist { l = split body }
    | 'F' -> !cur.fuse <- Some (n_of_string (String.trim body))
    | 'R' -> !cur.result <- join (split body)
    | 'S' -> (match split body with
        | slot :: rest -> !cur.states <- !cur.states @ [(n_of_string slot, join rest)]
        | [] -> ())
    | 'X' -> !cur.skipk <- true
    | 'Y' -> !cur.skips <- true
    | 'L' -> !cur.logd <- Some (join (split body))
    | 'D' -> (match split body with
        | slot :: rest -> !cur.dumps <- !cur.dumps @ [(n_of_string slot, join rest)]
        | [] -> ())
    | 'E' ->
      incr opi;
      (match (try run_record !cfg !w !cur with Parse m -> Stdlib.Error ("unparsable trace line: " ^ m)) with
       | Stdlib.Ok w' -> w := w'
       | Stdlib.Error d ->
         incr total_diff; dead := true;
         Printf.printf "DIFF history=%s op#%d line=%d [%s]: %s\n" !hid !opi !cur.line (join !cur.op) d)
    | '#' -> ()
    | _ -> ()
  in
  List.iter (fun f ->
      let ic = if f = "-" then stdin else open_in f in
      (try while true do handle_line (input_line ic) done with End_of_file -> ());
      if f <> "-" then close_in ic) (List.rev !files);
  let kinds = Hashtbl.fold (fun k v acc -> (k, v) :: acc) opkinds [] |> List.sort compare in
  Printf.printf "TOTAL histories=%d ops=%d diffs=%d oracle_retries=%d kinds=%s\n" !total_hist !total_ops !total_diff !total_oracle_retries
    (String.concat "," (List.map (fun (k, v) -> k ^ ":" ^ string_of_int v) kinds));
  exit (if !total_diff > 0 then 1 else 0)
