(* C07 — A panic in user code never corrupts the map
   Statements only: each theorem restates a lemma of Theorems.v and is closed by [exact]. *)
From stdpp Require Import gmap list.
From Coq Require Import NArith.
From G Require Import Arith Monad Types Inv Raw RawProofs Map MapProofs IterProofs CloneProofs Cost EntryProofs EntryCost Ledger SetProofs Fill WorldProofs Theorems.
Local Open Scope N_scope.

(* Whatever user callback panics (a fuse may be armed at any callback count, or none), and in
   whatever call: when the panic is caught every map still satisfies the invariant - hence all
   of C03/C04/C05 - and every later history behaves like the reference run from the contents
   the panic left (T_C07_later_calls). *)
Theorem C07_invariant_survives : forall c w t p w',
  0 < cR c -> WInv c w -> core_op (t_op t) -> step c w t = Unwind p w' -> WInv c w'.
Proof. exact T_C07_invariant_survives. Qed.

Theorem C07_later_calls_behave_normally : forall c ts w acc,
  0 < cR c -> WInv c w -> Forall core_op (map t_op ts) ->
  match run c w ts acc with
  | inl (w', outs) => WInv c w' /\ exists rs, outs = acc ++ rs /\ spec_runs (wabs w) (map t_op ts) rs (wabs w')
  | inr f => benign f
  end.
Proof. exact T_C07_later_calls. Qed.

(* self-consistency of any state satisfying the invariant: len() is the number of iterated
   entries, each entry is iterated once, and each is found by a lookup of its key, in the
   table where it is stored *)
Theorem C07_self_consistent : forall c r,
  Inv (cR c) (cesz c) r ->
  N.of_nat (length (iter_elems r)) = rt_len r /\ NoDup (map ek (iter_elems r)) /\
  (forall e, e ∈ iter_elems r -> exists im, rt_find_pure r (ek e) = Some (im, e)).
Proof. exact T_C07_self_consistent. Qed.

(* what may be lost.  insert: whatever is in the map afterwards under another key was there
   before, with the same key object and value (a panicking Hash may drop elements being moved;
   nothing is invented or altered) *)
Theorem C07_insert_loses_nothing_else : forall c k kid v s p s',
  Inv (cR c) (cesz c) (s_rt s) -> map_insert c k kid v s = Unwind p s' ->
  Inv (cR c) (cesz c) (s_rt s') /\
  (forall j e, rt_abs (s_rt s') !! j = Some e -> j <> k -> rt_abs (s_rt s) !! j = Some e).
Proof. exact T_C07_insert_loss. Qed.

(* reserve / try_reserve (which re-hash every element still to be moved): the contents
   afterwards are a sub-map of the contents before *)
Theorem C07_reserve_only_loses : forall c fallible n s p s',
  Inv (cR c) (cesz c) (s_rt s) -> n <= usize_max -> rt_reserve c fallible n s = Unwind p s' ->
  Inv (cR c) (cesz c) (s_rt s') /\ rt_abs (s_rt s') ⊆ rt_abs (s_rt s).
Proof. exact T_C07_reserve_loss. Qed.

(* clone: a panicking Clone or Hash leaves the source exactly as it was (the new table was a
   local and is gone) *)
Theorem C07_clone_source_untouched : forall c s p s',
  Inv (cR c) (cesz c) (s_rt s) -> rt_clone c s = Unwind p s' -> s_rt s' = s_rt s.
Proof. exact T_C07_clone_source_untouched. Qed.

(* clone_from: interrupted, the destination still satisfies the invariant (its contents are
   unspecified, as documented) *)
Theorem C07_clone_from_interrupted : forall c src s p s',
  Inv (cR c) (cesz c) (s_rt s) -> Inv (cR c) (cesz c) src -> rt_clone_from c src s = Unwind p s' ->
  Inv (cR c) (cesz c) (s_rt s').
Proof. exact T_C07_clone_from_interrupted. Qed.

(* entry / raw-entry steps (and_modify, or_insert_with*, replace_entry_with closures, Hash):
   the invariant survives, and a step that unwrap-panics (finding D6) changed nothing *)
Theorem C07_entry_step_keeps_invariant : forall c raw e st0 s p s',
  Inv (cR c) (cesz c) (s_rt s) -> ent_ok (s_rt s) e -> entry_step c raw e st0 s = Unwind p s' ->
  Inv (cR c) (cesz c) (s_rt s').
Proof. exact T_C07_entry_step. Qed.

Print Assumptions C07_invariant_survives.
Print Assumptions C07_later_calls_behave_normally.
Print Assumptions C07_self_consistent.
Print Assumptions C07_insert_loses_nothing_else.
Print Assumptions C07_reserve_only_loses.
Print Assumptions C07_clone_source_untouched.
Print Assumptions C07_clone_from_interrupted.
Print Assumptions C07_entry_step_keeps_invariant.
