(* C09 — retain and drain_filter partition the map exactly by the predicate
   Statements only: each theorem restates a lemma of Theorems.v and is closed by [exact]. *)
From stdpp Require Import gmap list.
From Coq Require Import NArith.
From G Require Import Arith Monad Types Inv Raw RawProofs Map MapProofs IterProofs Cost Fill WorldProofs Theorems.
Local Open Scope N_scope.

(* retain(f): f sees every element once (l), the map keeps exactly what f accepted, as f left it *)
Theorem C09_retain : forall c w t s keep delta o w',
  0 < cR c -> WInv c w -> t_op t = ORetain s keep delta -> step c w t = Ok o w' ->
  WInv c w' /\ exists (m : gmap N elem) l, wabs w !! s = Some m /\ NoDup (map ek l) /\ list_to_emap l = m /\
    o = OutL (map elem3 l) /\ wabs w' = <[s := omap (retain_act keep delta) m]> (wabs w).
Proof. exact T_C09_retain. Qed.

(* drain_filter(f), consumed for j items or to the end, then dropped or forgotten *)
Theorem C09_drain_filter : forall c w t s take delta j forget o w',
  0 < cR c -> WInv c w -> t_op t = ODrainFilter s take delta j forget -> step c w t = Ok o w' ->
  WInv c w' /\ exists (m : gmap N elem) l v1 rest m', wabs w !! s = Some m /\ NoDup (map ek l) /\ list_to_emap l = m /\
    l = v1 ++ rest /\ o = OutL (map elem3 (yield_e take delta v1)) /\
    pass_res (df_act take delta) m (if forget then v1 else l) m' /\
    match j with Some j => (length (yield_e take delta v1) <= N.to_nat j)%nat /\
                           (rest <> [] -> length (yield_e take delta v1) = N.to_nat j)
            | None => rest = [] end /\
    wabs w' = <[s := m']> (wabs w).
Proof. exact T_C09_drain_filter. Qed.

(* a panicking predicate leaves every map's invariant intact (C07 for retain / drain_filter) *)
Theorem C09_panicking_predicate_keeps_invariant : forall c w t p w',
  0 < cR c -> WInv c w -> core_op (t_op t) -> step c w t = Unwind p w' -> WInv c w'.
Proof. exact T_C09_unwind. Qed.

Print Assumptions C09_retain.
Print Assumptions C09_drain_filter.
Print Assumptions C09_panicking_predicate_keeps_invariant.
