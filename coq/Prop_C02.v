(* C02 — Per-call resize work is bounded by a constant independent of map size.
   The bounds hold in every state (no invariant is needed), for normal completion and for
   unwinding alike; R is symbolic (the check requires the implementation's R to be 8). *)
From stdpp Require Import gmap list.
From Coq Require Import NArith.
From G Require Import Arith Monad Types Inv Raw Map Cost EntryCost Theorems.
Local Open Scope N_scope.

(* HashMap::insert (new key, or overwrite in either table): at most 1 + R hash computations (the
   key, plus one per moved element), at most R moves, at most one table allocation *)
Theorem C02_insert_bounded : forall c k kid v s,
  match map_insert c k kid v s with
  | Ok _ s' | Unwind _ s' => log_within (D (1 + cR c) (cR c) 1 2) s s'
  | Fault _ => True
  end.
Proof. exact T_C02_insert. Qed.

(* lookups and in-place updates: exactly the queried key is hashed; nothing moves or is allocated *)
Theorem C02_lookup_constant : forall g k wv s,
  match map_get g k wv s with
  | Ok _ s' | Unwind _ s' => log_within (D 1 0 0 0) s s'
  | Fault _ => True
  end.
Proof. exact T_C02_lookup. Qed.

(* removals: the queried key is hashed; nothing moves or is allocated (the old table may be freed) *)
Theorem C02_removal_constant : forall c k s,
  match map_remove_entry c k s with
  | Ok _ s' | Unwind _ s' => log_within (D 1 0 0 1) s s'
  | Fault _ => True
  end.
Proof. exact T_C02_remove. Qed.

(* every step of an entry / raw-entry chain (the inserting ones included) costs at most what an
   insert costs *)
Theorem C02_entry_step_bounded : forall c raw e st0 s,
  match entry_step c raw e st0 s with
  | Ok _ s' | Unwind _ s' => log_within (D (1 + cR c) (cR c) 1 2) s s'
  | Fault _ => True
  end.
Proof. exact T_C02_entry_step. Qed.

(* entry(k) followed by n steps: the lookup's hash, then n bounded steps *)
Theorem C02_entry_chain_bounded : forall c k kid ss s,
  match map_entry c k kid ss s with
  | Ok _ s' | Unwind _ s' =>
      log_within (dadd (D 1 0 0 0) (dmul (N.of_nat (length ss)) (D (1 + cR c) (cR c) 1 2))) s s'
  | Fault _ => True
  end.
Proof. exact T_C02_entry_chain. Qed.

(* extend is its up-front reserve (exempted by the property: it may finish a resize in flight)
   followed by one insert per item ... *)
Theorem C02_extend_is_reserve_then_loop : forall c items hint,
  map_extend c items hint =
  (s <- get ;;
   let reserve := if rt_len (s_rt s) =? 0 then hint else hint / 2 + hint mod 2 in
   on_unwind (rt_reserve c false reserve) (iterM (fun x => drop_key (snd (fst x)) ;;; drop_val (snd x)) items) ;;;
   extend_loop c items).
Proof. exact extend_is_reserve_then_loop. Qed.

(* ... and the insertion loop over n items costs at most n inserts: at most n (1 + R) hash
   computations, n R moves, n allocations, however large the map is *)
Theorem C02_extend_loop_bounded : forall c items s,
  match extend_loop c items s with
  | Ok _ s' | Unwind _ s' =>
      log_within (dmul (N.of_nat (length items)) (D (1 + cR c) (cR c) 1 2)) s s'
  | Fault _ => True
  end.
Proof. exact T_C02_extend_loop. Qed.

Print Assumptions C02_insert_bounded.
Print Assumptions C02_entry_step_bounded.
Print Assumptions C02_entry_chain_bounded.
Print Assumptions C02_lookup_constant.
Print Assumptions C02_removal_constant.
Print Assumptions C02_extend_is_reserve_then_loop.
Print Assumptions C02_extend_loop_bounded.
