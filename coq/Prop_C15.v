(* C15 — Rayon traversal equals sequential traversal under every schedule
   Statements only: each theorem restates a lemma of Theorems.v and is closed by [exact]. *)
From stdpp Require Import gmap list.
From Coq Require Import NArith.
From G Require Import Arith Monad Types Inv Raw RawProofs Map MapProofs IterProofs CloneProofs Cost EntryProofs EntryCost Ledger SetProofs Fill WorldProofs Theorems.
Local Open Scope N_scope.

(* ... the pieces partition what the sequential iterator yields: no element is lost, none is
   handed to two workers *)
Theorem C15_pieces_partition : forall (A : Type) (splits : list nat) (l : list A),
  concat (chop splits l) = l.
Proof. exact T_C15_pieces_partition. Qed.

(* ... the call does exactly what the same call does under any other schedule *)
Theorem C15_schedule_independent : forall c w t1 t2 s variant delta sp1 sp2,
  t_op t1 = OParIter s variant delta sp1 -> t_op t2 = OParIter s variant delta sp2 ->
  t_on t1 = t_on t2 -> t_tomb t1 = t_tomb t2 -> t_perm t1 = t_perm t2 -> t_qperm t1 = t_qperm t2 ->
  step c w t1 = step c w t2.
Proof. exact T_C15_schedule_independent. Qed.

(* ... it visits exactly the elements of the map, each once (shown sorted), and par_iter_mut /
   par_values_mut update each value once *)
Theorem C15_par_iter_each_once : forall c w t s variant delta splits o w',
  0 < cR c -> WInv c w -> t_op t = OParIter s variant delta splits -> step c w t = Ok o w' ->
  WInv c w' /\ exists (m : gmap N elem) l, wabs w !! s = Some m /\ NoDup (map ek l) /\ list_to_emap l = m /\
    o = OutL (foldr insert_sorted [] (map elem3 l)) /\
    wabs w' = <[s := if delta =? 0 then m else bumpv delta <$> m]> (wabs w).
Proof. exact T_C15_par_iter. Qed.

(* ... and is the sequential traversal up to the order of the visits *)
Theorem C15_par_is_sequential_up_to_order : forall c w tp ts s variant delta splits,
  t_op tp = OParIter s variant delta splits -> t_op ts = OIter s variant delta ->
  t_on tp = t_on ts -> t_tomb tp = t_tomb ts -> t_perm tp = t_perm ts -> t_qperm tp = t_qperm ts ->
  step c w tp = match step c w ts with
                | Ok (OutL l) w' => Ok (OutL (foldr insert_sorted [] l)) w'
                | r => r
                end.
Proof. exact T_C15_par_is_seq. Qed.

(* par_extend / from_par_iter: however the items were collected into pieces, the same collection
   as sequential extend by all the items in order *)
Theorem C15_par_extend_same_collection : forall c w t s chunks o w',
  0 < cR c -> WInv c w -> t_op t = OParExtend s chunks -> N.of_nat (length (concat chunks)) < usize_max ->
  step c w t = Ok o w' ->
  WInv c w' /\ exists m : gmap N elem, wabs w !! s = Some m /\ wabs w' = <[s := ext m (concat chunks)]> (wabs w).
Proof. exact T_C15_par_extend. Qed.

Theorem C15_extend_is_reference : forall c w t s items hint o w',
  0 < cR c -> WInv c w -> t_op t = OExtend s items hint -> hint <= usize_max -> step c w t = Ok o w' ->
  WInv c w' /\ exists m : gmap N elem, wabs w !! s = Some m /\ wabs w' = <[s := ext m items]> (wabs w).
Proof. exact T_C15_extend_is_reference. Qed.

(* difference / symmetric_difference / intersection / union (kind 0-3) and the operator forms
   - ^ & | (kind 4-7), for operands in any resize phase: what is yielded (shown sorted, i.e. as
   a permutation of it) holds each key of the mathematical result exactly once, and every
   yielded object is an element of one of the operands; the operands are unchanged *)
Theorem C15_par_set_operations : forall c w t kind a b o w',
  0 < cR c -> WInv c w -> t_op t = OSetAlg kind a b -> step c w t = Ok o w' ->
  exists (ma mb : gmap N elem) l, wabs w !! a = Some ma /\ wabs w !! b = Some mb /\ wabs w' = wabs w /\
    o = OutL (sorted3 l) /\ sorted3 l ≡ₚ map elem3' l /\
    NoDup (map ek l) /\
    (forall e, e ∈ l -> ma !! ek e = Some e \/ mb !! ek e = Some e) /\
    (forall k, k ∈ map ek l <->
       alg_math (alg_kind kind) (is_Some (ma !! k)) (is_Some (mb !! k))).
Proof. exact T_C13_algebra. Qed.

(* is_disjoint / is_subset / is_superset / == decide the mathematical relations *)
Theorem C15_par_set_predicates : forall c w t kind a b o w',
  0 < cR c -> WInv c w -> t_op t = OSetPred kind a b -> step c w t = Ok o w' ->
  exists (ma mb : gmap N elem) bb, wabs w !! a = Some ma /\ wabs w !! b = Some mb /\ wabs w' = wabs w /\
    o = OutB bb /\ (bb = true <-> pred_math (pred_kind kind) ma mb).
Proof. exact T_C13_predicates. Qed.

Print Assumptions C15_pieces_partition.
Print Assumptions C15_schedule_independent.
Print Assumptions C15_par_iter_each_once.
Print Assumptions C15_par_is_sequential_up_to_order.
Print Assumptions C15_par_extend_same_collection.
Print Assumptions C15_extend_is_reference.
Print Assumptions C15_par_set_operations.
Print Assumptions C15_par_set_predicates.
