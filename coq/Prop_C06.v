(* C06 — Every stored key and value is dropped exactly once; nothing leaks
   Statements only: each theorem restates a lemma of Theorems.v and is closed by [exact]. *)
From stdpp Require Import gmap list.
From Coq Require Import NArith.
From G Require Import Arith Monad Types Inv Raw RawProofs Map MapProofs IterProofs CloneProofs Cost EntryProofs EntryCost Ledger SetProofs Conserve EntryLedger Fill WorldProofs WorldLedger Theorems.
Local Open Scope N_scope.

(* the conservation law over histories.  ledger_op: new, insert, get*, remove / remove_entry, clear,
   reserve, try_reserve, shrink_to, iter* (with or without value updates), drain (dropped),
   into_iter, retain, extend, drop.  k_in: the key objects the caller gives (insert, extend);
   k_out: those handed back (remove_entry, drain and into_iter yields); wdks: the drop ledger;
   wheld: the key objects stored in the maps of the world, in either table. *)
Theorem C06_history_conserves_keys : forall c w ts rs w',
  0 < cR c -> WInv c w -> ok_run c w ts rs w' ->
  wdks w' ++ wheld w' ++ keys_out ts rs ≡ₚ keys_in c w ts ++ wdks w ++ wheld w.
Proof. exact T_C06_history_conserves_keys. Qed.

(* once every map is gone, every key object ever given has been dropped or handed back, once *)
Theorem C06_all_released_once_maps_are_gone : forall c ts rs w',
  0 < cR c -> ok_run c world0 ts rs w' -> w_maps w' = ∅ -> wdks w' ++ keys_out ts rs ≡ₚ keys_in c world0 ts.
Proof. exact T_C06_all_released. Qed.

(* exactly once, spelled out: when the key objects given are pairwise distinct (and distinct from
   those already around), no key object is dropped twice, none is both dropped and handed back,
   none is both still stored and dropped or handed back *)
Theorem C06_never_dropped_twice_nor_dropped_and_handed_back : forall c w ts rs w',
  0 < cR c -> WInv c w -> ok_run c w ts rs w' ->
  NoDup (keys_in c w ts ++ wdks w ++ wheld w) -> NoDup (wdks w' ++ wheld w' ++ keys_out ts rs).
Proof. exact T_C06_never_twice. Qed.

(* what goes in: the key objects passed to insert/extend/from_iter/par_extend, and the copies that
   clone/clone_from make of the source's key objects; without clones it is a function of the calls *)
Theorem C06_keys_in_static : forall c w ts rs w',
  ok_run c w ts rs w' -> forallb (fun t => static_in (t_op t)) ts = true ->
  keys_in c w ts = concat (map (fun t => k_in world0 (t_op t)) ts).
Proof. exact T_C06_keys_in_static. Qed.

(* every operation of the model is covered by the conservation law (entry chains without raw-only
   steps, size arguments that fit a usize, drains that are not forgotten) *)
Theorem C06_law_covers_every_operation : forall o,
  ledger_op o <->
  match o with
  | OEntry _ _ _ ss => forallb (fun st => negb (raw_only st)) ss = true
  | ODrain _ _ forget => forget = false
  | OReserve _ n | OTryReserve _ n => n <= usize_max
  | OExtend _ _ hint => hint <= usize_max
  | OParExtend _ chunks => N.of_nat (length (concat chunks)) < usize_max
  | _ => True
  end.
Proof. exact T_C06_law_covers. Qed.

(* entry and raw-entry handles: one step conserves the key objects - those stored, the one the
   handle holds, those the step is given - against what it drops and hands back; so does a chain,
   at whose end the handle's own key has been stored, dropped or handed back *)
Theorem C06_entry_step_conserves : forall c raw e st s e' r s',
  Inv (cR c) (cesz c) (s_rt s) -> ent_ok (s_rt s) e -> raw_wf raw (strip e) -> st_wf raw st ->
  entry_step c raw e st s = Ok (e', r) s' ->
  dks s' ++ kidsE (s_rt s') ++ hk (strip e') ++ step_kout st r ≡ₚ step_kin st (strip e) ++ dks s ++ kidsE (s_rt s) ++ hk (strip e).
Proof. exact T_C06_entry_step_conserves. Qed.

Theorem C06_entry_chain_conserves : forall c k kid ss s outs s',
  Inv (cR c) (cesz c) (s_rt s) -> Forall (st_wf false) ss -> map_entry c k kid ss s = Ok outs s' ->
  dks s' ++ kidsE (s_rt s') ++ chain_kout ss outs ≡ₚ
  (kid :: chain_kin false (rt_abs (s_rt s)) (start_ent (rt_abs (s_rt s)) k (Some kid)) ss) ++ dks s ++ kidsE (s_rt s).
Proof. exact T_C06_entry_chain_conserves. Qed.

Theorem C06_raw_entry_chain_conserves : forall c variant k ss s outs s',
  Inv (cR c) (cesz c) (s_rt s) -> map_raw_entry c variant k ss s = Ok outs s' ->
  dks s' ++ kidsE (s_rt s') ++ chain_kout ss outs ≡ₚ
  chain_kin true (rt_abs (s_rt s)) (start_ent (rt_abs (s_rt s)) k None) ss ++ dks s ++ kidsE (s_rt s).
Proof. exact T_C06_raw_entry_chain_conserves. Qed.

(* storing a new element - with whatever growing (the main table becomes the old one) and
   carrying (elements move from the old table to the new one) the call performs - drops nothing:
   the moves leave no copy behind to be dropped and release the old table only once it is empty *)
Theorem C06_moves_drop_nothing : forall c e s a s',
  lite s -> rt_insert c e s = Ok a s' -> dks s' = dks s /\ dvs s' = dvs s /\ lite s'.
Proof. exact T_C06_moves_drop_nothing. Qed.

(* HashMap::insert: the duplicate key argument is dropped exactly when the key is present - the
   displaced value is handed back, not dropped - and nothing at all is dropped otherwise *)
Theorem C06_insert_drops_duplicate_key_only : forall c k kid v s o s',
  lite s -> map_insert c k kid v s = Ok o s' ->
  lite s' /\ dvs s' = dvs s /\
  match rt_find_pure (s_rt s) k with
  | Some (_, e) => dks s' = kid :: dks s /\ o = Some (ev e)
  | None => dks s' = dks s /\ o = None
  end.
Proof. exact T_C06_insert. Qed.

(* calls that take objects in.  insert: the key object given is afterwards stored or dropped, the
   value given is stored, the value it displaced is handed back; extend: every key and value of
   the items is afterwards stored or dropped (a key whose key was present, a displaced value) -
   each object exactly once, whatever growing and moving the call performs *)
Theorem C06_insert_conserves : forall c k kid v s o s',
  Inv (cR c) (cesz c) (s_rt s) -> map_insert c k kid v s = Ok o s' ->
  Inv (cR c) (cesz c) (s_rt s') /\
  dks s' ++ map ekid (elems (s_rt s')) ≡ₚ kid :: dks s ++ map ekid (elems (s_rt s)) /\
  match o with Some v0 => [v0] | None => [] end ++ dvs s' ++ map ev (elems (s_rt s')) ≡ₚ v :: dvs s ++ map ev (elems (s_rt s)).
Proof. exact T_C06_insert_conserves. Qed.

Theorem C06_extend_conserves : forall c items hint s u s',
  Inv (cR c) (cesz c) (s_rt s) -> hint <= usize_max -> map_extend c items hint s = Ok u s' ->
  Inv (cR c) (cesz c) (s_rt s') /\
  dks s' ++ map ekid (elems (s_rt s')) ≡ₚ kids_of items ++ dks s ++ map ekid (elems (s_rt s)) /\
  dvs s' ++ map ev (elems (s_rt s')) ≡ₚ vals_of items ++ dvs s ++ map ev (elems (s_rt s)).
Proof. exact T_C06_extend_conserves. Qed.

(* remove_entry / remove / take hand the stored key and value back; the map drops neither, also
   when the removal releases the (then empty) old table *)
Theorem C06_remove_hands_back : forall c k s o s',
  lite s -> map_remove_entry c k s = Ok o s' -> dks s' = dks s /\ dvs s' = dvs s /\ lite s'.
Proof. exact T_C06_remove. Qed.

(* lookups and in-place updates, reserve / try_reserve (which may move every element), shrink_to
   and iteration drop nothing *)
Theorem C06_lookup_drops_nothing : forall g k w s o s',
  lite s -> map_get g k w s = Ok o s' -> dks s' = dks s /\ dvs s' = dvs s /\ lite s'.
Proof. exact T_C06_lookup. Qed.

Theorem C06_reserve_drops_nothing : forall c fallible n s o s',
  lite s -> map_reserve c fallible n s = Ok o s' -> dks s' = dks s /\ dvs s' = dvs s /\ lite s'.
Proof. exact T_C06_reserve. Qed.

Theorem C06_shrink_drops_nothing : forall c n s o s',
  lite s -> rt_shrink_to c n s = Ok o s' -> dks s' = dks s /\ dvs s' = dvs s /\ lite s'.
Proof. exact T_C06_shrink. Qed.

Theorem C06_iter_drops_nothing : forall delta s o s',
  lite s -> map_iter delta s = Ok o s' -> dks s' = dks s /\ dvs s' = dvs s /\ lite s'.
Proof. exact T_C06_iter. Qed.

(* clone() and == drop nothing (the clones clone() makes live in the new map) *)
Theorem C06_clone_drops_nothing : forall c s r s',
  lite s -> rt_clone c s = Ok r s' -> dks s' = dks s /\ dvs s' = dvs s /\ lite s'.
Proof. exact T_C06_clone. Qed.

(* clone_from: everything the destination held - in either of its tables - is dropped exactly
   once (the ledger grows by a permutation of its previous elements), and nothing else is *)
Theorem C06_clone_from_drops_destination_once : forall c src s u s',
  lite s -> hbc (main src) -> rt_clone_from c src s = Ok u s' ->
  dks s' ≡ₚ map ekid (elems (s_rt s)) ++ dks s /\ dvs s' ≡ₚ map ev (elems (s_rt s)) ++ dvs s.
Proof. exact T_C06_clone_from. Qed.

Theorem C06_eq_drops_nothing : forall other s b s',
  lite s -> map_equal other s = Ok b s' -> dks s' = dks s /\ dvs s' = dvs s /\ lite s'.
Proof. exact T_C06_eq. Qed.

(* clear() and dropping the map: every stored key and every stored value - in the new table and
   among the old table's leftovers alike - is dropped exactly once (the ledger grows by a
   permutation of the stored objects) and nothing stays behind *)
Theorem C06_clear_drops_each_once : forall s a s',
  lite s -> rt_clear s = Ok a s' ->
  lite s' /\ elems (s_rt s') = [] /\
  dks s' ≡ₚ map ekid (elems (s_rt s)) ++ dks s /\ dvs s' ≡ₚ map ev (elems (s_rt s)) ++ dvs s.
Proof. exact T_C06_clear. Qed.

Theorem C06_drop_map_drops_each_once : forall s a s',
  lite s -> map_drop s = Ok a s' ->
  lite s' /\ elems (s_rt s') = [] /\
  dks s' ≡ₚ map ekid (elems (s_rt s)) ++ dks s /\ dvs s' ≡ₚ map ev (elems (s_rt s)) ++ dvs s.
Proof. exact T_C06_drop. Qed.

(* drain() and into_iter(), consumed for j items and then dropped: the first j elements of the
   iterator's order are handed to the caller; every other element - in either table - is dropped
   exactly once; nothing stays behind *)
Theorem C06_drain_drops_the_rest_once : forall j s out s',
  lite s -> map_drain j false s = Ok out s' ->
  exists l s1, drain_order s = Ok l s1 /\ out = map elem3 (firstn (N.to_nat j) l) /\ lite s' /\ elems (s_rt s') = [] /\
    dks s' = rev (map ekid (skipn (N.to_nat j) l)) ++ dks s /\
    dvs s' = rev (map ev (skipn (N.to_nat j) l)) ++ dvs s.
Proof. exact T_C06_drain. Qed.

Theorem C06_into_iter_drops_the_rest_once : forall j s out s',
  lite s -> map_into_iter j s = Ok out s' ->
  exists l s1, drain_order s = Ok l s1 /\ out = map elem3 (firstn (N.to_nat j) l) /\ lite s' /\ elems (s_rt s') = [] /\
    dks s' = rev (map ekid (skipn (N.to_nat j) l)) ++ dks s /\
    dvs s' = rev (map ev (skipn (N.to_nat j) l)) ++ dvs s.
Proof. exact T_C06_into_iter. Qed.

(* retain drops exactly what it removes: the key objects dropped so far together with those
   still stored are, as a multiset, what they were before the call *)
Theorem C06_retain_conserves_keys : forall c keep delta s out s',
  lite s -> map_retain c keep delta s = Ok out s' ->
  lite s' /\ dks s' ++ map ekid (elems (s_rt s')) ≡ₚ dks s ++ map ekid (elems (s_rt s)).
Proof. exact T_C06_retain_conserves_keys. Qed.

(* drain_filter, consumed for any number of items and then dropped or forgotten: every key
   object the map held is afterwards still stored, or in the ledger, or among the yielded
   elements - exactly once *)
Theorem C06_drain_filter_conserves_keys : forall c take delta j forget s out s',
  lite s -> map_drain_filter c take delta j forget s = Ok out s' ->
  lite s' /\ exists yielded, out = map elem3 yielded /\
    dks s' ++ map ekid (elems (s_rt s')) ++ map ekid yielded ≡ₚ dks s ++ map ekid (elems (s_rt s)).
Proof. exact T_C06_drain_filter_conserves_keys. Qed.

(* the hypothesis [lite] holds in every reachable state: it is part of the invariant *)
Theorem C06_lite_reachable : forall R Esz s,
  Inv R Esz (s_rt s) -> lite s.
Proof. exact T_C06_lite_reachable. Qed.

Print Assumptions C06_history_conserves_keys.
Print Assumptions C06_all_released_once_maps_are_gone.
Print Assumptions C06_never_dropped_twice_nor_dropped_and_handed_back.
Print Assumptions C06_keys_in_static.
Print Assumptions C06_law_covers_every_operation.
Print Assumptions C06_entry_step_conserves.
Print Assumptions C06_entry_chain_conserves.
Print Assumptions C06_raw_entry_chain_conserves.
Print Assumptions C06_moves_drop_nothing.
Print Assumptions C06_insert_drops_duplicate_key_only.
Print Assumptions C06_insert_conserves.
Print Assumptions C06_extend_conserves.
Print Assumptions C06_remove_hands_back.
Print Assumptions C06_lookup_drops_nothing.
Print Assumptions C06_reserve_drops_nothing.
Print Assumptions C06_shrink_drops_nothing.
Print Assumptions C06_iter_drops_nothing.
Print Assumptions C06_clone_drops_nothing.
Print Assumptions C06_clone_from_drops_destination_once.
Print Assumptions C06_eq_drops_nothing.
Print Assumptions C06_clear_drops_each_once.
Print Assumptions C06_drop_map_drops_each_once.
Print Assumptions C06_drain_drops_the_rest_once.
Print Assumptions C06_into_iter_drops_the_rest_once.
Print Assumptions C06_retain_conserves_keys.
Print Assumptions C06_drain_filter_conserves_keys.
Print Assumptions C06_lite_reachable.
