(* Ledger.v — the drop ledger (C06): which key and value objects a call drops.
   Moving elements between the tables, growing, reserving, shrinking, looking up, iterating and
   cloning drop nothing; insert drops exactly the duplicate key argument; remove drops nothing
   it hands back; clear and drop(map) drop every stored element exactly once.
   The statements are about calls that complete (C06 quantifies over panic-free histories). *)
From stdpp Require Import gmap list.
From Coq Require Import NArith Lia.
From G Require Import Arith Monad Types Inv Raw Map.
Local Open Scope N_scope.

Definition dks (s : st) : list N := l_dk (s_log s).
Definition dvs (s : st) : list N := l_dv (s_log s).

(* what the ledger analysis needs of the state: the item counts agree with what the tables hold
   and the cached iterator of the old table agrees with what is left in it (parts of Inv) *)
Definition hbc (t : hb) : Prop := hn t = N.of_nat (size (hel t)).
Definition oldc (o : option old) : Prop :=
  match o with
  | Some o => oit o = N.of_nat (length (orem o)) /\ ocnt o = N.of_nat (length (orem o)) /\ NoDup (map ek (orem o))
  | None => True
  end.
Definition lite (s : st) : Prop := hbc (main (s_rt s)) /\ oldc (lo (s_rt s)).

Definition same (s s' : st) : Prop := dks s' = dks s /\ dvs s' = dvs s /\ lite s'.
Definition TT : panic -> st -> Prop := fun _ _ => True.

(* [ndr P m]: when m completes it has dropped nothing, keeps [lite], and its result satisfies P *)
Definition ndr {A} (P : A -> Prop) (m : M' A) : Prop :=
  forall s, lite s -> wpp m (fun a s' => same s s' /\ P a) TT s.
Notation nd := (ndr (fun _ => True)).

Lemma same_refl s : lite s -> same s s.
Proof. unfold same. auto. Qed.
Lemma same_trans s1 s2 s3 : same s1 s2 -> same s2 s3 -> same s1 s3.
Proof. unfold same. intros (a & b & c) (d & e & f). split; [congruence|split; [congruence|exact f]]. Qed.

Lemma ndr_weaken {A} (P Q : A -> Prop) (m : M' A) : (forall a, P a -> Q a) -> ndr P m -> ndr Q m.
Proof. intros HPQ Hm s Hl. eapply wpp_mono; [apply Hm, Hl|]. cbn. intros a s' [H1 H2]. auto. Qed.
Lemma nd_of {A} (P : A -> Prop) (m : M' A) : ndr P m -> nd m.
Proof. apply ndr_weaken. auto. Qed.
Lemma ndr_ret {A} (P : A -> Prop) (a : A) : P a -> ndr P (ret a).
Proof. intros HP s H. apply wpp_ret. split; [apply same_refl, H|exact HP]. Qed.
Lemma nd_ret {A} (a : A) : nd (ret a).
Proof. apply ndr_ret. exact I. Qed.
Lemma ndr_bind {A B} (P : A -> Prop) (Q : B -> Prop) (m : M' A) (f : A -> M' B) :
  ndr P m -> (forall x, P x -> ndr Q (f x)) -> ndr Q (bind m f).
Proof.
  intros Hm Hf s H. apply wpp_bind. eapply wpp_mono; [apply Hm, H|]. cbn. intros x s1 [H1 HP].
  eapply wpp_mono; [apply (Hf x HP); apply H1|]. cbn. intros y s2 [H2 HQ]. split; [eapply same_trans; eauto|exact HQ].
Qed.
Lemma nd_bind {A B} (Q : B -> Prop) (m : M' A) (f : A -> M' B) : nd m -> (forall x, ndr Q (f x)) -> ndr Q (bind m f).
Proof. intros Hm Hf. eapply ndr_bind; [exact Hm|]. intros x _. apply Hf. Qed.
(* a step that leaves the tables and the ledger alone *)
Lemma ndr_pure {A} (P : A -> Prop) (m : M' A) :
  (forall s, lite s -> match m s with Ok a s' => s_rt s' = s_rt s /\ dks s' = dks s /\ dvs s' = dvs s /\ P a | _ => True end) -> ndr P m.
Proof.
  intros H s Hl. specialize (H s Hl). unfold wpp. destruct (m s) as [a s'|p s'|f]; [|exact I|exact I].
  destruct H as (Hr & Hk & Hv & HP). unfold same, lite in *. rewrite Hr. auto.
Qed.
Lemma nd_pure {A} (m : M' A) :
  (forall s, match m s with Ok _ s' => s_rt s' = s_rt s /\ dks s' = dks s /\ dvs s' = dvs s | _ => True end) -> nd m.
Proof. intros H. apply ndr_pure. intros s _. specialize (H s). destruct (m s); intuition. Qed.
Lemma nd_gets {A} (f : st -> A) : nd (gets f).
Proof. apply nd_pure. intros s. cbn. auto. Qed.
Lemma nd_get : nd (@get st).
Proof. apply nd_pure. intros s. cbn. auto. Qed.
Lemma ndr_getm : ndr hbc getm.
Proof. apply ndr_pure. intros s [H _]. cbn. auto. Qed.
Lemma ndr_getlo : ndr oldc getlo.
Proof. apply ndr_pure. intros s [_ H]. cbn. auto. Qed.
Lemma nd_getlo : nd getlo.  Proof. apply nd_gets. Qed.
Lemma nd_unwind {A} (P : A -> Prop) p : ndr P (@unwind st A p).
Proof. intros s H. exact I. Qed.
Lemma nd_fault {A} (P : A -> Prop) f : ndr P (@fault_ st A f).
Proof. intros s H. exact I. Qed.
Lemma nd_setm t : hbc t -> nd (setm t).
Proof. intros Ht s [H1 H2]. unfold setm, modify, wpp, same, lite, dks, dvs in *. cbn. auto. Qed.
Lemma nd_setlo o : oldc o -> nd (setlo o).
Proof. intros Ho s [H1 H2]. unfold setlo, modify, wpp, same, lite, dks, dvs in *. cbn. auto. Qed.
Lemma nd_take_bit : nd take_bit.
Proof. apply nd_pure. intros s. unfold take_bit, bind, get. cbn. destruct (s_on s =? 0); cbn; auto. Qed.
Lemma nd_take_tomb : nd take_tomb.
Proof. apply nd_pure. intros s. unfold take_tomb, bind, get. cbn. destruct (s_tomb s =? 0); cbn; auto. Qed.
Lemma ndr_take_order m : ndr (fun l => valid_order m l = true) (take_order m).
Proof. apply ndr_pure. intros s _. unfold take_order, bind, get. cbn. destruct (valid_order _ _) eqn:E; cbn; auto. Qed.
Lemma ndr_take_order_grow m : ndr (fun l => valid_order m l = true) (take_order_grow m).
Proof. apply ndr_pure. intros s _. unfold take_order_grow, bind, get. cbn. destruct (valid_order _ _) eqn:E; cbn; auto. Qed.
Lemma nd_tick (f : log -> log) : (forall l, l_dk (f l) = l_dk l /\ l_dv (f l) = l_dv l) -> nd (tick f).
Proof. intros Hf. apply nd_pure. intros s. unfold tick, modify, dks, dvs. cbn. destruct (Hf (s_log s)). auto. Qed.
Lemma nd_tick_move : nd tick_move.  Proof. apply nd_tick. intros l. cbn. auto. Qed.
Lemma nd_tick_alloc : nd tick_alloc.  Proof. apply nd_tick. intros l. cbn. auto. Qed.
Lemma nd_tick_free : nd tick_free.  Proof. apply nd_tick. intros l. cbn. auto. Qed.
Lemma nd_cb : nd cb.
Proof.
  apply nd_pure. intros s. unfold cb, tick, bind, modify, get, dks, dvs. cbn.
  destruct (s_fuse s) as [n|]; cbn; [destruct (n =? 0); cbn|]; auto.
Qed.
Lemma nd_tick_hash : nd tick_hash.
Proof. unfold tick_hash. apply nd_bind; [apply nd_tick; intros l; cbn; auto|intros _; apply nd_cb]. Qed.
Lemma nd_when b (m : M' unit) : nd m -> nd (when b m).
Proof. intros H. destruct b; [exact H|apply nd_ret]. Qed.
Lemma ndr_on_unwind {A} (P : A -> Prop) (m : M' A) h : ndr P m -> ndr P (on_unwind m h).
Proof.
  intros Hm s Hl. specialize (Hm s Hl). unfold wpp, on_unwind in *. destruct (m s) as [a s'|p s'|f]; [exact Hm| |exact I].
  destruct (h s'); exact I.
Qed.
Lemma nd_iterM {A} (f : A -> M' unit) l : (forall a, nd (f a)) -> nd (iterM f l).
Proof. intros Hf. induction l as [|a l IH]; cbn [iterM]; [apply nd_ret|apply nd_bind; [apply Hf|intros _; exact IH]]. Qed.
Lemma nd_debug_check b n : nd (debug_check b n).
Proof. unfold debug_check. destruct b; [apply nd_ret|apply nd_unwind]. Qed.
Lemma nd_assert b n : nd (assert_ b n).
Proof. unfold assert_. destruct b; [apply nd_ret|apply nd_unwind]. Qed.

Create HintDb nd.
#[export] Hint Resolve nd_ret nd_gets nd_get nd_getlo nd_cb nd_tick_hash nd_tick_move nd_tick_alloc nd_tick_free
  nd_take_bit nd_take_tomb nd_debug_check nd_assert : nd.
Ltac nds :=
  repeat first
    [ assumption | solve [auto 2 with nd nocore]
    | apply nd_fault | apply nd_unwind
    | apply nd_when | apply ndr_on_unwind | apply nd_iterM; intros ?
    | apply nd_bind; [|intros ?]
    | match goal with |- ndr _ (match ?x with _ => _ end) => destruct x end
    | match goal with |- ndr _ (if ?x then _ else _) => destruct x end ].

Section Ledger.
Context (c : cfg).
Notation R := (cR c).

(* ---------------------------------------------------------------- hashbrown level: values only *)
Lemma nd_hb_free t : nd (hb_free t).
Proof. unfold hb_free. nds. Qed.
Lemma nd_rehash_all l : nd (rehash_all l).
Proof. unfold rehash_all. nds. Qed.
#[local] Hint Resolve nd_hb_free nd_rehash_all : nd.

Definition optc (o : option hb) : Prop := match o with Some t => hbc t | None => True end.
Lemma hbc_new : hbc hb_new.  Proof. reflexivity. Qed.
Lemma hbc_empty B : hbc (hb_empty B).  Proof. reflexivity. Qed.
Lemma hbc_rebuilt t B g : hbc t -> hbc (hb_rebuilt t B g).  Proof. exact (fun H => H). Qed.
Lemma hbc_ins t e g : hbc t -> hel t !! ek e = None -> hbc (hb_ins t e g).
Proof. unfold hbc, hb_ins. cbn. intros H Hn. rewrite size_insert_None by exact Hn. lia. Qed.
Lemma hbc_del t k e g : hbc t -> hel t !! k = Some e -> hbc (hb_del t k g).
Proof. unfold hbc, hb_del. cbn. intros H Hk. pose proof (size_delete_Some _ _ _ Hk). lia. Qed.
Lemma hbc_upd t k e e' : hbc t -> hel t !! k = Some e' -> hbc (hb_upd t k e).
Proof. unfold hbc, hb_upd. cbn. intros H Hk. rewrite (size_insert_Some _ _ _ _ Hk). exact H. Qed.

Lemma ndr_hb_with_capacity fallible cap : ndr optc (hb_with_capacity c fallible cap).
Proof.
  unfold hb_with_capacity. destruct (cap =? 0); [apply ndr_ret, hbc_new|].
  destruct (cap_to_buckets cap) as [B|]; [destruct (layout_ok (cesz c) B)|];
    try (destruct fallible; [apply ndr_ret; exact I|apply nd_unwind]).
  apply nd_bind; [apply nd_tick_alloc|intros _; apply ndr_ret, hbc_empty].
Qed.
Lemma ndr_hb_put t e b : hbc t -> hel t !! ek e = None -> ndr hbc (hb_put t e b).
Proof.
  intros Ht Hn. unfold hb_put. destruct b; [destruct (hb_tombs t =? 0)|destruct (hgl t =? 0)];
    first [apply nd_fault|apply ndr_ret, hbc_ins; assumption].
Qed.
Lemma ndr_hb_insert_no_grow t e : hbc t -> ndr hbc (hb_insert_no_grow t e).
Proof.
  intros Ht. unfold hb_insert_no_grow. destruct (hel t !! ek e) eqn:E; [apply nd_fault|].
  apply nd_bind; [apply nd_take_bit|intros b; apply ndr_hb_put; assumption].
Qed.
Lemma ndr_hb_reserve_rehash1 t : hbc t -> ndr (fun t' => hbc t' /\ hel t' = hel t) (hb_reserve_rehash1 c t).
Proof.
  intros Ht. unfold hb_reserve_rehash1. destruct (_ <=? _).
  - apply nd_bind; [apply nd_rehash_all|intros _; apply ndr_ret; split; [apply hbc_rebuilt, Ht|reflexivity]].
  - eapply ndr_bind; [apply ndr_hb_with_capacity|]. intros [nt|] Hnt; [|apply nd_fault].
    apply nd_bind; [apply ndr_on_unwind, nd_rehash_all|intros _].
    apply nd_bind; [apply nd_hb_free|intros _; apply ndr_ret; split; [apply hbc_rebuilt, Ht|reflexivity]].
Qed.
Lemma ndr_hb_insert t e : hbc t -> ndr hbc (hb_insert c t e).
Proof.
  intros Ht. unfold hb_insert. destruct (hel t !! ek e) eqn:E; [apply nd_fault|].
  apply nd_bind; [apply nd_take_bit|intros b]. destruct (negb b && (hgl t =? 0)); [|apply ndr_hb_put; assumption].
  eapply ndr_bind; [apply ndr_on_unwind, ndr_hb_reserve_rehash1, Ht|]. intros t' [Ht' He]. apply ndr_hb_put; [exact Ht'|rewrite He; exact E].
Qed.
Lemma ndr_hb_remove t k : hbc t -> ndr (fun x => hbc (snd x) /\ hel t !! k = Some (fst x)) (hb_remove t k).
Proof.
  intros Ht. unfold hb_remove. destruct (hel t !! k) as [e|] eqn:E; [|apply nd_fault].
  apply nd_bind; [apply nd_take_tomb|intros b; apply ndr_ret]. split; [eapply hbc_del; eauto|reflexivity].
Qed.
Lemma ndr_hb_shrink_to t m : hbc t -> ndr hbc (hb_shrink_to c t m).
Proof.
  intros Ht. unfold hb_shrink_to. destruct (_ =? 0).
  - apply nd_bind; [apply nd_hb_free|intros _; apply ndr_ret, hbc_new].
  - destruct (cap_to_buckets _) as [mb|]; [|apply ndr_ret, Ht]. destruct (mb <? hB t); [|apply ndr_ret, Ht].
    eapply ndr_bind; [apply ndr_hb_with_capacity|]. intros [nt|] Hnt; [|apply nd_fault].
    apply nd_bind; [apply ndr_on_unwind, nd_rehash_all|intros _].
    apply nd_bind; [apply nd_hb_free|intros _; apply ndr_ret, hbc_rebuilt, Ht].
Qed.

Lemma nd_main_insert_no_grow e : nd (main_insert_no_grow e).
Proof.
  unfold main_insert_no_grow. eapply ndr_bind; [apply ndr_getm|]. intros t Ht.
  eapply ndr_bind; [apply ndr_hb_insert_no_grow, Ht|]. intros t' Ht'. apply nd_setm, Ht'.
Qed.
Lemma nd_main_insert e : nd (main_insert c e).
Proof.
  unfold main_insert. eapply ndr_bind; [apply ndr_getm|]. intros t Ht.
  eapply ndr_bind; [apply ndr_hb_insert, Ht|]. intros t' Ht'. apply nd_setm, Ht'.
Qed.
#[local] Hint Resolve nd_main_insert_no_grow nd_main_insert : nd.

(* ---------------------------------------------------------------- the old table *)
Definition old_empty (s : st) : Prop := match lo (s_rt s) with Some o => orem o = [] | None => True end.

(* releasing an old table that holds nothing drops nothing *)
Lemma free_old_empty s :
  lite s -> old_empty s ->
  wpp free_old (fun _ s' => same s s' /\ lo (s_rt s') = None /\ main (s_rt s') = main (s_rt s)) TT s.
Proof.
  intros [Hm Hl] He. unfold free_old, wpp, bind, getlo, gets, old_empty in *. destruct (lo (s_rt s)) as [o|] eqn:E; cbn.
  - rewrite He. cbn. unfold same, lite, oldc, dks, dvs. cbn. auto.
  - unfold same, lite, oldc. rewrite E. auto.
Qed.

Lemma old_pop_spec s :
  lite s ->
  wpp old_pop (fun x s' => same s s' /\ (x = None -> old_empty s')) TT s.
Proof.
  intros [Hm Hl]. unfold old_pop, wpp, bind, getlo, gets, old_empty in *. destruct (lo (s_rt s)) as [o|] eqn:E; cbn; [|exact I].
  cbn [oldc] in Hl. pose proof Hl as (Hi & Hc & Hnd). destruct (oit o =? 0) eqn:E0; cbn.
  - split; [unfold same, lite, oldc; rewrite E; auto|]. intros _. rewrite E. apply N.eqb_eq in E0.
    destruct (orem o); [reflexivity|cbn in Hi; lia].
  - destruct (orem o) as [|e r] eqn:Er; cbn; [exact I|]. split; [|discriminate].
    unfold same, lite, oldc, dks, dvs. cbn. cbn in Hi, Hc, Hnd. apply NoDup_cons in Hnd as [_ Hnd].
    split; [reflexivity|]. split; [reflexivity|]. split; [exact Hm|]. split; [lia|]. split; [lia|exact Hnd].
Qed.

Lemma nd_carry_loop fuel : nd (carry_loop fuel).
Proof.
  induction fuel as [|fuel IH]; intros s Hl; cbn [carry_loop].
  - apply wpp_bind. unfold getlo, gets, wpp at 1. cbn. destruct (lo (s_rt s)) as [o|] eqn:E; [|apply wpp_ret; split; [apply same_refl, Hl|exact I]].
    apply wpp_when; [|intros _; split; [apply same_refl, Hl|exact I]]. intros H0. apply N.eqb_eq in H0.
    eapply wpp_mono; [apply free_old_empty; [exact Hl|]|cbn; tauto].
    destruct Hl as [_ Hl]. unfold old_empty in *. rewrite E in *. destruct Hl as (_ & Hc & _). unfold olen in H0. destruct (orem o); [reflexivity|cbn in Hc; lia].
  - apply wpp_bind. eapply wpp_mono; [apply old_pop_spec, Hl|]. cbn. intros x s1 [H1 Hn]. destruct x as [e|].
    + assert (Hrest : nd (tick_move ;;; on_unwind tick_hash (drop_elem e) ;;; main_insert_no_grow e ;;; carry_loop fuel)).
      { nds. }
      eapply wpp_mono; [apply Hrest; apply H1|]. cbn. intros _ s2 [H2 _]. split; [eapply same_trans; eauto|exact I].
    + eapply wpp_mono; [apply free_old_empty; [apply H1|auto]|]. cbn. intros _ s2 [H2 _]. split; [eapply same_trans; eauto|exact I].
Qed.
#[local] Hint Resolve nd_carry_loop : nd.

Lemma nd_rt_carry : nd (rt_carry c).
Proof. unfold rt_carry. nds. Qed.
#[local] Hint Resolve nd_rt_carry : nd.

Lemma nd_carry_all_loop fuel : nd (carry_all_loop c fuel).
Proof.
  induction fuel as [|fuel IH]; intros s Hl; cbn [carry_all_loop]; [exact I|].
  apply wpp_bind. eapply wpp_mono; [apply old_pop_spec, Hl|]. cbn. intros x s1 [H1 Hn]. destruct x as [e|].
  - assert (Hrest : nd (tick_move ;;; on_unwind tick_hash (drop_elem e) ;;; main_insert c e ;;; carry_all_loop c fuel)).
    { nds. }
    eapply wpp_mono; [apply Hrest; apply H1|]. cbn. intros _ s2 [H2 _]. split; [eapply same_trans; eauto|exact I].
  - eapply wpp_mono; [apply free_old_empty; [apply H1|auto]|]. cbn. intros _ s2 [H2 _]. split; [eapply same_trans; eauto|exact I].
Qed.
#[local] Hint Resolve nd_carry_all_loop : nd.

Lemma nd_rt_carry_all : nd (rt_carry_all c).
Proof. unfold rt_carry_all. nds. Qed.
#[local] Hint Resolve nd_rt_carry_all : nd.

(* steps that read the tables only *)
Definition rp {A} (P : A -> Prop) (m : M' A) : Prop :=
  forall s, match m s with Ok a s' => s_rt s' = s_rt s /\ dks s' = dks s /\ dvs s' = dvs s /\ P a | _ => True end.
Lemma rp_wpp {A} (P : A -> Prop) (m : M' A) s :
  rp P m -> wpp m (fun a s' => s_rt s' = s_rt s /\ dks s' = dks s /\ dvs s' = dvs s /\ P a) TT s.
Proof. intros H. specialize (H s). unfold wpp, TT. destruct (m s); auto. Qed.
Lemma rp_hb_with_capacity fallible cap : rp optc (hb_with_capacity c fallible cap).
Proof.
  intros s. unfold hb_with_capacity. destruct (cap =? 0); [cbn; split; [reflexivity|split; [reflexivity|split; [reflexivity|apply hbc_new]]]|].
  destruct (cap_to_buckets cap) as [B|]; [destruct (layout_ok (cesz c) B)|]; try (destruct fallible; cbn; auto; fail).
  unfold bind, tick_alloc, tick, modify, ret, dks, dvs. cbn. split; [reflexivity|split; [reflexivity|split; [reflexivity|apply hbc_empty]]].
Qed.
Lemma rp_take_order_grow m : rp (fun l => valid_order m l = true) (take_order_grow m).
Proof. intros s. unfold take_order_grow, bind, get. cbn. destruct (valid_order _ _) eqn:E; cbn; auto. Qed.
Lemma same_of_rt s s' : lite s -> s_rt s' = s_rt s -> dks s' = dks s -> dvs s' = dvs s -> same s s'.
Proof. unfold same, lite. intros H -> -> ->. auto. Qed.

(* growing: the assertion guarantees no old table is replaced (so none is dropped with elements
   inside); the main table becomes the old one, its elements stay where they are *)
Lemma nd_rt_try_grow fallible extra : nd (rt_try_grow c fallible extra).
Proof.
  intros s Hs. unfold rt_try_grow. apply wpp_bind. unfold getlo, gets, wpp at 1. cbn.
  destruct (lo (s_rt s)) as [o|] eqn:E; cbn [is_some_b negb debug_check].
  { unfold wpp, bind, unwind. exact I. }
  apply wpp_bind, wpp_ret. apply wpp_bind. unfold getm, gets, wpp at 1. cbn.
  pose proof Hs as [Ht _]. set (t := main (s_rt s)) in *.
  apply wpp_bind. eapply wpp_mono; [apply rp_wpp, rp_hb_with_capacity|]. cbn.
  intros [nt|] s1 (Hr1 & Hk1 & Hv1 & Hnt); [|apply wpp_ret; split; [apply same_of_rt; assumption|exact I]].
  assert (Hs1 : same s s1) by (apply same_of_rt; assumption).
  apply wpp_bind. destruct (hlen t =? 0).
  - assert (Hn : nd (setm nt ;;; hb_free t)) by (apply nd_bind; [apply nd_setm, Hnt|intros _; apply nd_hb_free]).
    eapply wpp_mono; [apply Hn, Hs1|]. cbn. intros _ s2 [H2 _]. split; [eapply same_trans; eauto|exact I].
  - apply wpp_bind. eapply wpp_mono; [apply rp_wpp, rp_take_order_grow|]. cbn. intros l s2 (Hr2 & Hk2 & Hv2 & Hl).
    apply valid_order_spec in Hl as (Hnd & _ & Hlen & _).
    assert (Hs2 : same s1 s2) by (apply same_of_rt; [apply Hs1|assumption..]).
    apply wpp_bind. eapply wpp_mono; [apply free_old_empty; [apply Hs2|]|].
    { unfold old_empty. rewrite Hr2, Hr1, E. exact I. }
    cbn. intros _ s3 (H3 & Hlo3 & Hm3).
    unfold setm, setlo, modify, bind, wpp. cbn. split; [|exact I].
    destruct H3 as (Hk3 & Hv3 & _). unfold same, lite, dks, dvs in *. cbn.
    split; [congruence|]. split; [congruence|]. split; [exact Hnt|]. unfold hlen, hbc in *. split; [lia|]. split; [lia|exact Hnd].
Qed.
#[local] Hint Resolve nd_rt_try_grow : nd.

Lemma nd_rt_grow extra : nd (rt_grow c extra).
Proof. unfold rt_grow. nds. Qed.
#[local] Hint Resolve nd_rt_grow : nd.

Lemma nd_rt_insert_no_grow e : nd (rt_insert_no_grow c e).
Proof. unfold rt_insert_no_grow. nds. Qed.
#[local] Hint Resolve nd_rt_insert_no_grow : nd.

(* C06: inserting a new element, with whatever growth and carrying it triggers, drops nothing *)
Lemma nd_rt_insert e : nd (rt_insert c e).
Proof. unfold rt_insert. nds. Qed.
#[local] Hint Resolve nd_rt_insert : nd.

Lemma nd_rt_find k : nd (rt_find k).
Proof. apply nd_gets. Qed.
#[local] Hint Resolve nd_rt_find : nd.

Lemma nd_rt_reserve fallible n : nd (rt_reserve c fallible n).
Proof. unfold rt_reserve. nds. Qed.

(* ---------------------------------------------------------------- in-place updates, removal *)
Lemma nd_set_value im k v : nd (set_value im k v).
Proof.
  unfold set_value. destruct im.
  - eapply ndr_bind; [apply ndr_getm|]. intros t Ht. destruct (hel t !! k) eqn:E; [apply nd_setm; eapply hbc_upd; eauto|apply nd_fault].
  - eapply ndr_bind; [apply ndr_getlo|]. intros [o|] Ho; [|apply nd_fault].
    destruct (lookup_list k (orem o)); [|apply nd_fault]. apply nd_setlo. cbn [oldc orem oit ocnt] in *.
    rewrite replace_list_length, replace_list_keys. exact Ho.
Qed.
#[local] Hint Resolve nd_set_value : nd.

Lemma ndr_old_take k : ndr (fun _ => True) (old_take c k).
Proof.
  unfold old_take. eapply ndr_bind; [apply ndr_getlo|]. intros [o|] Ho; [|apply nd_fault].
  destruct (lookup_list k (orem o)) as [e|] eqn:E; [|apply nd_fault].
  cbn [oldc] in Ho. destruct Ho as (Hi & Hc & Hnd). apply lookup_list_Some in E as [Hin Hk].
  pose proof (remove_list_length k (orem o) e Hnd Hin Hk) as Hlen.
  pose proof (remove_list_nodup k (orem o) Hnd) as Hnd'.
  assert (Hok : forall i, i = ocnt o - 1 -> oldc (Some (Old (oB o) (remove_list k (orem o)) i (ocnt o - 1)))).
  { intros i ->. cbn. split; [lia|]. split; [lia|exact Hnd']. }
  destruct (czst c).
  - apply nd_bind; [apply nd_setlo, Hok; reflexivity|intros _; apply nd_ret].
  - destruct (oit o =? 0); [apply nd_fault|]. apply nd_bind; [apply nd_setlo, Hok; lia|intros _; apply nd_ret].
Qed.
#[local] Hint Resolve ndr_old_take : nd.

(* removal hands the element back: nothing is dropped, even when it releases the old table
   (which is empty then) *)
Lemma nd_rt_remove im k : nd (rt_remove c im k).
Proof.
  unfold rt_remove. destruct im.
  - eapply ndr_bind; [apply ndr_getm|]. intros t Ht. eapply ndr_bind; [apply ndr_hb_remove, Ht|]. intros x [Hx _].
    apply nd_bind; [apply nd_setm, Hx|intros _; apply nd_ret].
  - apply nd_bind; [apply nd_getlo|]. intros [o|]; [|apply nd_unwind].
    apply nd_bind; [apply ndr_old_take|]. intros e.
    intros s Hs. apply wpp_bind. unfold getlo, gets, wpp at 1. cbn. apply wpp_bind.
    destruct (lo (s_rt s)) as [o'|] eqn:E; [|apply wpp_ret, wpp_ret; split; [apply same_refl, Hs|exact I]].
    apply wpp_when; [|intros _; apply wpp_ret; split; [apply same_refl, Hs|exact I]]. intros H0. apply N.eqb_eq in H0.
    eapply wpp_mono; [apply free_old_empty; [exact Hs|]|cbn; intros _ s1 (H1 & _); split; [exact H1|exact I]].
    destruct Hs as [_ Hl]. unfold old_empty. rewrite E in *. destruct Hl as (_ & Hc & _). unfold olen in H0. destruct (orem o'); [reflexivity|cbn in Hc; lia].
Qed.
#[local] Hint Resolve nd_rt_remove : nd.

(* ---------------------------------------------------------------- the HashMap front-end *)

(* C06: lookups, in-place updates, reserve, shrink_to and iteration drop nothing *)
Lemma nd_map_get g k w : nd (map_get g k w).
Proof. unfold map_get. nds. Qed.
Lemma nd_map_reserve fallible n : nd (map_reserve c fallible n).
Proof. apply nd_rt_reserve. Qed.
Lemma nd_rt_shrink_to m : nd (rt_shrink_to c m).
Proof.
  unfold rt_shrink_to. intros s Hs. apply wpp_bind. unfold getlo, gets, wpp at 1. cbn.
  assert (Hrest : nd (t <- getm ;; o <- getlo ;;
                      t' <- hb_shrink_to c t (N.max (hlen t + match o with Some o => olen o + cdiv (olen o) R | None => 0 end) m) ;; setm t')).
  { eapply ndr_bind; [apply ndr_getm|]. intros t Ht. apply nd_bind; [apply nd_getlo|intros o].
    eapply ndr_bind; [apply ndr_hb_shrink_to, Ht|]. intros t' Ht'. apply nd_setm, Ht'. }
  apply wpp_bind. destruct (lo (s_rt s)) as [o|] eqn:E.
  - apply wpp_when.
    + intros H0. apply N.eqb_eq in H0. eapply wpp_mono; [apply free_old_empty; [exact Hs|]|].
      { destruct Hs as [_ Hl]. unfold old_empty. rewrite E in *. destruct Hl as (_ & Hc & _). unfold olen in H0. destruct (orem o); [reflexivity|cbn in Hc; lia]. }
      cbn. intros _ s1 (H1 & _). eapply wpp_mono; [apply Hrest, H1|]. cbn. intros _ s2 [H2 _]. split; [eapply same_trans; eauto|exact I].
    + intros _. apply Hrest, Hs.
  - cbn [when]. apply wpp_ret. apply Hrest, Hs.
Qed.
Lemma ndr_rt_iter : ndr (fun _ => True) rt_iter.
Proof. unfold rt_iter. eapply ndr_bind; [apply ndr_getm|]. intros t _. eapply ndr_bind; [apply ndr_take_order|]. intros l _. nds. Qed.
#[local] Hint Resolve ndr_rt_iter : nd.
Lemma nd_map_iter delta : nd (map_iter delta).
Proof. unfold map_iter. nds. Qed.

(* C06: HashMap::insert drops exactly the duplicate key argument when the key is present (the
   displaced value is handed back, not dropped), and nothing at all when it is not, whatever
   growing and carrying the call performs *)
Theorem map_insert_ledger k kid v s :
  lite s ->
  wpp (map_insert c k kid v)
      (fun o s' => lite s' /\ dvs s' = dvs s /\
                   match rt_find_pure (s_rt s) k with
                   | Some (_, e) => dks s' = kid :: dks s /\ o = Some (ev e)
                   | None => dks s' = dks s /\ o = None
                   end) TT s.
Proof.
  intros Hs. unfold map_insert. apply wpp_bind.
  assert (Hth : forall s0, wpp tick_hash (fun _ s' => s_rt s' = s_rt s0 /\ dks s' = dks s0 /\ dvs s' = dvs s0) TT s0).
  { intros s0. unfold tick_hash, cb, tick, bind, modify, get, wpp, dks, dvs. cbn.
    destruct (s_fuse s0) as [n|]; cbn; [destruct (n =? 0); cbn|]; auto; exact I. }
  apply wpp_on_unwind. eapply wpp_conseq; [apply Hth| |intros p s' _; unfold wpp, TT; destruct ((drop_key kid ;;; drop_val v) s'); exact I]. cbn. intros _ s1 (Hr1 & Hk1 & Hv1).
  assert (Hs1 : same s s1) by (apply same_of_rt; assumption).
  apply wpp_bind. unfold rt_find, gets, wpp at 1. cbn. rewrite Hr1.
  destruct (rt_find_pure (s_rt s) k) as [[im e]|].
  - assert (Hpre : nd (set_value im k v ;;;
                       (if im then ret tt else o <- getlo ;; debug_check (is_some_b o) 1064 ;;;
                          on_unwind (rt_carry c) (drop_val (ev e) ;;; drop_key kid)))).
    { nds. }
    apply wpp_bind.
    assert (Hpre1 : nd (set_value im k v)) by apply nd_set_value.
    eapply wpp_mono; [apply Hpre1, Hs1|]. cbn beta. intros _ s2 [H2 _]. apply wpp_bind.
    assert (Hpre2 : nd (if im then ret tt else o <- getlo ;; debug_check (is_some_b o) 1064 ;;;
                          on_unwind (rt_carry c) (drop_val (ev e) ;;; drop_key kid))) by nds.
    eapply wpp_mono; [apply Hpre2, H2|]. cbn beta. intros _ s3 [H3 _].
    pose proof (same_trans _ _ _ Hs1 (same_trans _ _ _ H2 H3)) as (Hk3 & Hv3 & Hl3).
    unfold drop_key, tick, modify, bind, ret, wpp, dks, dvs, lite in *. cbn. rewrite Hk3, Hv3. auto.
  - apply wpp_bind. eapply wpp_mono; [apply (nd_rt_insert (Elem k kid v)), Hs1|]. cbn. intros _ s2 [H2 _].
    pose proof (same_trans _ _ _ Hs1 H2) as (Hk2 & Hv2 & Hl2). auto.
Qed.

(* C06: remove_entry / remove hand the stored key and value back: the map drops nothing *)
Lemma nd_map_remove_entry k : nd (map_remove_entry c k).
Proof. unfold map_remove_entry. nds. Qed.

(* ---------------------------------------------------------------- clear, drop(map) *)
Definition elems (r : rt) : list elem :=
  (map_to_list (hel (main r))).*2 ++ match lo r with Some o => orem o | None => [] end.

Lemma drop_elems_ledger l s :
  wpp (drop_elems l) (fun _ s' => s_rt s' = s_rt s /\ dks s' = rev (map ekid l) ++ dks s /\ dvs s' = rev (map ev l) ++ dvs s) TT s.
Proof.
  revert s. induction l as [|e l IH]; intros s; cbn [drop_elems iterM].
  - apply wpp_ret. auto.
  - apply wpp_bind. unfold drop_elem, drop_key, drop_val, tick, modify, bind, wpp at 1. cbn.
    eapply wpp_mono; [apply IH|]. cbn. intros _ s' (Hr & Hk & Hv). unfold dks, dvs in *. cbn in *.
    rewrite Hr, Hk, Hv, <- !app_assoc. auto.
Qed.

(* C06: clear() drops every stored key and every stored value exactly once, wherever it is
   stored, and leaves no element behind *)
Theorem rt_clear_ledger s :
  lite s ->
  wpp rt_clear (fun _ s' => lite s' /\ elems (s_rt s') = [] /\
                  dks s' ≡ₚ map ekid (elems (s_rt s)) ++ dks s /\
                  dvs s' ≡ₚ map ev (elems (s_rt s)) ++ dvs s) TT s.
Proof.
  intros [Hm Hl]. unfold rt_clear. apply wpp_bind.
  (* the old table *)
  assert (Hfree : wpp free_old (fun _ s1 => main (s_rt s1) = main (s_rt s) /\ lo (s_rt s1) = None /\
             dks s1 = rev (map ekid (match lo (s_rt s) with Some o => orem o | None => [] end)) ++ dks s /\
             dvs s1 = rev (map ev (match lo (s_rt s) with Some o => orem o | None => [] end)) ++ dvs s) TT s).
  { unfold free_old. apply wpp_bind. unfold getlo, gets, wpp at 1. cbn. destruct (lo (s_rt s)) as [o|] eqn:E.
    - apply wpp_bind. unfold setlo, modify, wpp at 1. cbn. apply wpp_bind.
      eapply wpp_mono; [apply drop_elems_ledger|]. cbn. intros _ s1 (Hr & Hk & Hv).
      unfold tick_free, tick, modify, wpp, dks, dvs in *. cbn. rewrite Hr. cbn. auto.
    - apply wpp_ret. rewrite E. cbn. auto. }
  eapply wpp_mono; [exact Hfree|]. cbn beta. intros _ s1 (Hm1 & Hlo1 & Hk1 & Hv1).
  apply wpp_bind. unfold getm, gets, wpp at 1. cbn. rewrite Hm1. set (t := main (s_rt s)) in *.
  apply wpp_bind. unfold hb_clear. destruct (hlen t =? 0) eqn:E0.
  - apply wpp_ret. unfold setm, modify, wpp. cbn. rewrite Hlo1.
    assert (Hemp : hel t = ∅).
    { apply N.eqb_eq in E0. unfold hlen, hbc in *. apply map_size_empty_inv. lia. }
    unfold elems, lite, oldc, dks, dvs in *. cbn. fold t. rewrite Hemp, map_to_list_empty. cbn.
    split; [auto|]. split; [reflexivity|]. rewrite Hk1, Hv1. split; rewrite <- Permutation_rev; reflexivity.
  - apply wpp_bind. eapply wpp_mono; [apply drop_elems_ledger|]. cbn. intros _ s2 (Hr2 & Hk2 & Hv2).
    unfold setm, modify, wpp. cbn. rewrite Hr2, Hlo1.
    unfold elems, lite, oldc, dks, dvs in *. cbn. rewrite map_to_list_empty. cbn. fold t.
    split; [split; [apply hbc_empty|exact I]|]. split; [reflexivity|]. rewrite Hk2, Hv2, Hk1, Hv1.
    rewrite !map_app, !app_assoc. split; apply Permutation_app_tail; rewrite <- !Permutation_rev; reflexivity.
Qed.

(* C06: dropping the map drops every stored key and value exactly once and leaves nothing *)
Theorem map_drop_ledger s :
  lite s ->
  wpp map_drop (fun _ s' => lite s' /\ elems (s_rt s') = [] /\
                  dks s' ≡ₚ map ekid (elems (s_rt s)) ++ dks s /\
                  dvs s' ≡ₚ map ev (elems (s_rt s)) ++ dvs s) TT s.
Proof.
  intros [Hm Hl]. unfold map_drop. apply wpp_bind. unfold getm, gets, wpp at 1. cbn.
  apply wpp_bind. unfold getlo, gets, wpp at 1. cbn. set (t := main (s_rt s)) in *.
  apply wpp_bind. eapply wpp_mono; [apply drop_elems_ledger|]. cbn beta. intros _ s1 (Hr1 & Hk1 & Hv1).
  apply wpp_bind.
  assert (Hfree : forall s0, wpp (hb_free t) (fun _ s' => s_rt s' = s_rt s0 /\ dks s' = dks s0 /\ dvs s' = dvs s0) TT s0).
  { intros s0. unfold hb_free. destruct (negb _); cbn [when]; [|apply wpp_ret; auto].
    unfold tick_free, tick, modify, wpp, dks, dvs. cbn. auto. }
  eapply wpp_mono; [apply Hfree|]. cbn beta. intros _ s2 (Hr2 & Hk2 & Hv2).
  apply wpp_bind.
  assert (Hold : wpp (match lo (s_rt s) with Some o => drop_elems (orem o) ;;; tick_free | None => ret tt end)
            (fun _ s3 => s_rt s3 = s_rt s2 /\
               dks s3 = rev (map ekid (match lo (s_rt s) with Some o => orem o | None => [] end)) ++ dks s2 /\
               dvs s3 = rev (map ev (match lo (s_rt s) with Some o => orem o | None => [] end)) ++ dvs s2) TT s2).
  { destruct (lo (s_rt s)) as [o|]; [|apply wpp_ret; auto].
    apply wpp_bind. eapply wpp_mono; [apply drop_elems_ledger|]. cbn. intros _ s3 (Hr & Hk & Hv).
    unfold tick_free, tick, modify, wpp, dks, dvs in *. cbn. auto. }
  eapply wpp_mono; [exact Hold|]. cbn beta. intros _ s3 (Hr3 & Hk3 & Hv3).
  unfold setlo, setm, modify, bind, wpp. cbn.
  unfold elems, lite, oldc, dks, dvs in *. cbn. rewrite map_to_list_empty. cbn. fold t.
  split; [split; [apply hbc_new|exact I]|]. split; [reflexivity|].
  rewrite Hk3, Hv3, Hk2, Hv2, Hk1, Hv1, !map_app.
  split; (etransitivity; [apply Permutation_app_comm|]); rewrite <- !app_assoc; apply Permutation_app;
    try (rewrite <- Permutation_rev; reflexivity); (etransitivity; [apply Permutation_app_comm|]); apply Permutation_app_tail;
    rewrite <- Permutation_rev; reflexivity.
Qed.

(* ---------------------------------------------------------------- clone, ==, drain, into_iter *)

Lemma nd_take_order_or m : nd (take_order_or m).
Proof. apply nd_pure. intros s. unfold take_order_or, bind, get. cbn. auto. Qed.
#[local] Hint Resolve nd_take_order_or : nd.

Lemma nd_clone_elems l : forall acc, nd (clone_elems l acc).
Proof. induction l as [|e l IH]; intros acc; cbn [clone_elems]; nds. Qed.
#[local] Hint Resolve nd_clone_elems : nd.

Lemma ndr_hb_clone t : hbc t -> ndr hbc (hb_clone t).
Proof.
  intros Ht. unfold hb_clone. destruct (_ =? 1); [apply ndr_ret, hbc_new|].
  apply nd_bind; [apply nd_tick_alloc|intros _]. apply nd_bind; [apply nd_take_order_or|intros l].
  apply nd_bind; [apply ndr_on_unwind, nd_clone_elems|intros _; apply ndr_ret, Ht].
Qed.

Lemma ndr_and_carry : forall l t, hbc t -> ndr hbc (and_carry c t l).
Proof.
  induction l as [|e l IH]; intros t Ht; cbn [and_carry]; [apply ndr_ret, Ht|].
  eapply ndr_bind; [|intros t' Ht'; apply IH, Ht'].
  apply ndr_on_unwind. apply nd_bind; [apply nd_tick_hash|intros _]. apply nd_bind; [apply nd_cb|intros _].
  apply nd_bind; [apply ndr_on_unwind, nd_cb|intros _]. apply ndr_hb_insert, Ht.
Qed.

Lemma nd_cursor_view o : nd (cursor_view o).
Proof. unfold cursor_view. nds. Qed.
#[local] Hint Resolve nd_cursor_view : nd.

(* C06: clone() drops nothing (the clones it makes live in the new map) *)
Lemma nd_rt_clone : nd (rt_clone c).
Proof.
  unfold rt_clone. eapply ndr_bind; [apply ndr_getm|]. intros t Ht. apply nd_bind; [apply nd_getlo|intros o].
  eapply ndr_bind; [apply ndr_hb_clone, Ht|]. intros nt Hnt. apply nd_bind; [apply nd_cursor_view|intros l].
  eapply ndr_bind; [apply ndr_and_carry, Hnt|]. intros nt' _. apply nd_ret.
Qed.

(* C06: == drops nothing *)
Lemma nd_map_equal other : nd (map_equal other).
Proof.
  unfold map_equal. apply nd_bind; [apply nd_get|intros s0]. destruct (negb _); [apply nd_ret|].
  eapply ndr_bind; [apply ndr_rt_iter|]. intros l _.
  induction l as [|x l IH]; [apply nd_ret|]. apply nd_bind; [apply nd_tick_hash|intros _].
  destruct (rt_find_pure other _) as [[im e']|]; [|apply nd_ret]. destruct (_ =? _); [exact IH|apply nd_ret].
Qed.

(* the order in which drain() / into_iter() yield: reads the tables only *)
Lemma rp_drain_order : rp (fun _ => True) drain_order.
Proof.
  intros s. unfold drain_order, bind, getm, getlo, gets, take_order, get. cbn.
  destruct (valid_order _ _); cbn; [|exact I].
  unfold cursor_view. destruct (lo (s_rt s)) as [o|]; cbn.
  - destruct (_ <? _); cbn; [exact I|]. unfold debug_check. destruct (_ =? _); cbn; auto.
  - auto.
Qed.

(* C06: drain(), consumed for j items and then dropped: the first j elements of its order are
   handed to the caller, every other element - in either table - is dropped exactly once; the
   map is left empty *)
Theorem map_drain_ledger j s :
  lite s ->
  wpp (map_drain j false)
      (fun out s' => exists l s1, drain_order s = Ok l s1 /\ out = map elem3 (firstn (N.to_nat j) l) /\
         lite s' /\ elems (s_rt s') = [] /\
         dks s' = rev (map ekid (skipn (N.to_nat j) l)) ++ dks s /\
         dvs s' = rev (map ev (skipn (N.to_nat j) l)) ++ dvs s) TT s.
Proof.
  intros Hs. unfold map_drain. apply wpp_bind. unfold getm, gets, wpp at 1. cbn.
  apply wpp_bind. unfold getlo, gets, wpp at 1. cbn.
  apply wpp_bind. unfold wpp at 1. pose proof (rp_drain_order s) as Hrp.
  destruct (drain_order s) as [l s1|p s1|f] eqn:Ed; [|exact I|exact I]. destruct Hrp as (Hr1 & Hk1 & Hv1 & _).
  apply wpp_bind. unfold setlo, modify, wpp at 1. cbn.
  apply wpp_bind. apply wpp_bind. eapply wpp_mono; [apply drop_elems_ledger|]. cbn beta. intros _ s2 (Hr2 & Hk2 & Hv2).
  apply wpp_bind.
  assert (Hfree : forall b s0, wpp (when b tick_free) (fun _ s' => s_rt s' = s_rt s0 /\ dks s' = dks s0 /\ dvs s' = dvs s0) TT s0).
  { intros b s0. destruct b; cbn [when]; [|apply wpp_ret; auto]. unfold tick_free, tick, modify, wpp, dks, dvs. cbn. auto. }
  eapply wpp_mono; [apply Hfree|]. cbn beta. intros _ s3 (Hr3 & Hk3 & Hv3).
  unfold setm, modify, bind, ret, wpp. cbn. exists l, s1. split; [exact Ed|]. split; [reflexivity|].
  unfold lite, elems, dks, dvs in *. cbn. rewrite Hr3, Hr2. cbn. rewrite map_to_list_empty. cbn.
  split; [split; [apply hbc_empty|exact I]|]. split; [reflexivity|]. rewrite Hk3, Hk2, Hv3, Hv2. cbn. rewrite Hk1, Hv1. auto.
Qed.

(* C06: into_iter(), consumed for j items and then dropped: the same, and the map is gone *)
Theorem map_into_iter_ledger j s :
  lite s ->
  wpp (map_into_iter j)
      (fun out s' => exists l s1, drain_order s = Ok l s1 /\ out = map elem3 (firstn (N.to_nat j) l) /\
         lite s' /\ elems (s_rt s') = [] /\
         dks s' = rev (map ekid (skipn (N.to_nat j) l)) ++ dks s /\
         dvs s' = rev (map ev (skipn (N.to_nat j) l)) ++ dvs s) TT s.
Proof.
  intros Hs. unfold map_into_iter. apply wpp_bind. unfold getm, gets, wpp at 1. cbn.
  apply wpp_bind. unfold getlo, gets, wpp at 1. cbn.
  apply wpp_bind. unfold wpp at 1. pose proof (rp_drain_order s) as Hrp.
  destruct (drain_order s) as [l s1|p s1|f] eqn:Ed; [|exact I|exact I]. destruct Hrp as (Hr1 & Hk1 & Hv1 & _).
  apply wpp_bind. eapply wpp_mono; [apply drop_elems_ledger|]. cbn beta. intros _ s2 (Hr2 & Hk2 & Hv2).
  apply wpp_bind.
  assert (Hfree : forall b s0, wpp (when b tick_free) (fun _ s' => s_rt s' = s_rt s0 /\ dks s' = dks s0 /\ dvs s' = dvs s0) TT s0).
  { intros b s0. destruct b; cbn [when]; [|apply wpp_ret; auto]. unfold tick_free, tick, modify, wpp, dks, dvs. cbn. auto. }
  eapply wpp_mono; [apply Hfree|]. cbn beta. intros _ s3 (Hr3 & Hk3 & Hv3).
  apply wpp_bind.
  assert (Hhf : forall t0 s0, wpp (hb_free t0) (fun _ s' => s_rt s' = s_rt s0 /\ dks s' = dks s0 /\ dvs s' = dvs s0) TT s0).
  { intros t0 s0. unfold hb_free. apply Hfree. }
  eapply wpp_mono; [apply Hhf|]. cbn beta. intros _ s4 (Hr4 & Hk4 & Hv4).
  unfold setlo, setm, modify, bind, wpp. cbn. exists l, s1. split; [exact Ed|]. split; [reflexivity|].
  unfold lite, elems, dks, dvs in *. cbn. rewrite map_to_list_empty. cbn.
  split; [split; [apply hbc_new|exact I]|]. split; [reflexivity|]. rewrite Hk4, Hk3, Hk2, Hv4, Hv3, Hv2, Hk1, Hv1. auto.
Qed.

(* ---------------------------------------------------------------- retain: conservation
   Whatever retain does to the map, the key objects (and, when the predicate does not modify
   values, the value objects) are conserved: each is afterwards either still stored or in the
   ledger, exactly once.  [f] projects the object out of an element. *)
Lemma wpp_gets' {A} (g : st -> A) (Q : A -> st -> Prop) (U : panic -> st -> Prop) s : Q (g s) s -> wpp (gets g) Q U s.
Proof. exact (fun H => H). Qed.

Section Conserve.
Context (f : elem -> N) (dl : st -> list N).
Definition heldf (s : st) : list N := map f (elems (s_rt s)).
Definition cons_ok (s s' : st) : Prop := lite s' /\ dl s' ++ heldf s' ≡ₚ dl s ++ heldf s.
Definition kcons {A} (m : M' A) : Prop := forall s, lite s -> wpp m (fun _ s' => cons_ok s s') TT s.

Lemma cons_refl s : lite s -> cons_ok s s.
Proof. unfold cons_ok. auto. Qed.
Lemma cons_trans s1 s2 s3 : cons_ok s1 s2 -> cons_ok s2 s3 -> cons_ok s1 s3.
Proof. unfold cons_ok. intros [_ H1] [H2 H3]. split; [exact H2|]. rewrite H3. exact H1. Qed.
Lemma kcons_ret {A} (a : A) : kcons (ret a).
Proof. intros s H. apply wpp_ret, cons_refl, H. Qed.
Lemma kcons_bind {A B} (m : M' A) (g : A -> M' B) : kcons m -> (forall x, kcons (g x)) -> kcons (bind m g).
Proof.
  intros Hm Hg s H. apply wpp_bind. eapply wpp_mono; [apply Hm, H|]. cbn. intros x s1 H1.
  eapply wpp_mono; [apply Hg; apply H1|]. cbn. intros y s2 H2. eapply cons_trans; eauto.
Qed.
Lemma kcons_when b (m : M' unit) : kcons m -> kcons (when b m).
Proof. intros H. destruct b; [exact H|apply kcons_ret]. Qed.
Lemma kcons_iterM {A} (g : A -> M' unit) l : (forall a, kcons (g a)) -> kcons (iterM g l).
Proof. intros Hg. induction l as [|a l IH]; cbn [iterM]; [apply kcons_ret|apply kcons_bind; [apply Hg|intros _; exact IH]]. Qed.
End Conserve.

Lemma perm_remove_list k (l : list elem) x :
  NoDup (map ek l) -> lookup_list k l = Some x -> l ≡ₚ x :: remove_list k l.
Proof.
  induction l as [|y l IH]; intros Hnd Hl; [discriminate|]. cbn [map] in Hnd. apply NoDup_cons in Hnd as [Hy Hnd].
  unfold lookup_list in Hl. cbn [List.find] in Hl. unfold remove_list. cbn [List.filter].
  destruct (N.eqb_spec (ek y) k) as [Hk|Hk]; cbn [negb].
  - injection Hl as ->. apply Permutation_cons; [reflexivity|].
    fold (remove_list k l). symmetry. clear IH.
    assert (Hall : forall z, z ∈ l -> ek z <> k).
    { intros z Hz Hzk. apply Hy. rewrite Hk, <- Hzk. apply elem_of_list_fmap. eauto. }
    unfold remove_list. induction l as [|z l IHl]; [reflexivity|]. cbn [List.filter].
    destruct (N.eqb_spec (ek z) k) as [Hzk|Hzk]; cbn [negb].
    + exfalso. apply (Hall z); [left|exact Hzk].
    + apply Permutation_cons; [reflexivity|]. apply IHl.
      * cbn [map] in Hy. intros Hin. apply Hy. right. exact Hin.
      * cbn [map] in Hnd. apply NoDup_cons in Hnd as [_ Hnd]. exact Hnd.
      * intros w Hw. apply Hall. right. exact Hw.
  - fold (lookup_list k l) in Hl. fold (remove_list k l). rewrite (IH Hnd Hl) at 1. apply Permutation_swap.
Qed.

(* rt_erase: the element leaves the table and enters the ledger *)
Lemma kcons_rt_erase_k im k : kcons ekid dks (rt_erase c im k).
Proof.
  intros s [Hm Hl]. unfold rt_erase. destruct im.
  - apply wpp_bind. unfold getm, gets, wpp at 1. cbn. set (t := main (s_rt s)) in *.
    unfold hb_remove. destruct (hel t !! k) as [x|] eqn:E; [|exact I].
    apply wpp_bind. apply wpp_bind.
    assert (Htt : rp (fun _ => True) take_tomb).
    { intros s0. unfold take_tomb, bind, get. cbn. destruct (s_tomb s0 =? 0); cbn; auto. }
    eapply wpp_mono; [apply rp_wpp, Htt|]. cbn beta. intros b s1 (Hr1 & Hk1 & Hv1 & _).
    unfold ret, setm, modify, bind, drop_elem, drop_key, drop_val, tick, wpp. cbn.
    split; [split; [eapply hbc_del; eauto|rewrite Hr1; exact Hl]|].
    unfold heldf, elems, dks in *. cbn. rewrite Hr1, Hk1. fold t. rewrite <- (map_to_list_delete (hel t) k x E). cbn.
    rewrite !map_app. cbn. apply Permutation_middle.
  - apply wpp_bind. unfold getlo, gets, wpp at 1. cbn. destruct (lo (s_rt s)) as [o|] eqn:Eo; [|exact I].
    apply wpp_bind. unfold old_take. apply wpp_bind. unfold getlo, gets, wpp at 1. cbn. rewrite Eo.
    destruct (lookup_list k (orem o)) as [x|] eqn:E; [|exact I].
    cbn [oldc] in Hl. destruct Hl as (Hi & Hc & Hnd).
    pose proof (perm_remove_list k (orem o) x Hnd E) as Hp.
    pose proof (remove_list_nodup k (orem o) Hnd) as Hnd'.
    apply lookup_list_Some in E as [Hin Hk]. pose proof (remove_list_length k (orem o) x Hnd Hin Hk) as Hlen.
    assert (Hfin : forall i, i = ocnt o - 1 ->
      wpp (setlo (Some (Old (oB o) (remove_list k (orem o)) i (ocnt o - 1))) ;;; ret x)
          (fun a s1 => wpp (drop_elem a) (fun _ s' => cons_ok ekid dks s s') TT s1) TT s).
    { intros i ->. unfold setlo, modify, bind, ret, drop_elem, drop_key, drop_val, tick, wpp. cbn.
      split; [split; [exact Hm|cbn; split; [lia|split; [lia|exact Hnd']]]|].
      unfold heldf, elems, dks. cbn. rewrite Eo. rewrite Hp at 2. rewrite !map_app. cbn [map app].
      rewrite !app_assoc. apply Permutation_middle. }
    destruct (czst c); [apply Hfin; reflexivity|]. destruct (oit o =? 0); [exact I|apply Hfin; lia].
Qed.


Lemma kcons_set_value_k im k v : kcons ekid dks (set_value im k v).
Proof.
  intros s [Hm Hl]. unfold set_value. destruct im.
  - apply wpp_bind. unfold getm, gets, wpp at 1. cbn. set (t := main (s_rt s)) in *.
    destruct (hel t !! k) as [e|] eqn:E; [|exact I].
    unfold setm, modify, wpp. cbn. split; [split; [eapply hbc_upd; eauto|exact Hl]|].
    unfold heldf, elems, dks. cbn. fold t. apply Permutation_app_head. rewrite !map_app. apply Permutation_app_tail.
    rewrite <- (map_to_list_delete (hel t) k e E).
    rewrite <- (insert_delete_insert (hel t)). rewrite map_to_list_insert by apply lookup_delete. reflexivity.
  - apply wpp_bind. unfold getlo. apply wpp_gets'. destruct (lo (s_rt s)) as [o|] eqn:Eo; [|exact I].
    destruct (lookup_list k (orem o)) as [e|] eqn:E; [|exact I].
    unfold setlo, modify, wpp, cons_ok, lite. cbn [set_rt s_rt main lo]. cbn [oldc] in Hl. destruct Hl as (Hi & Hc & Hnd).
    split; [split; [exact Hm|cbn [oldc orem oit ocnt]; rewrite replace_list_length, replace_list_keys; auto]|].
    unfold heldf, elems, dks. cbn [set_rt s_rt main lo orem oit ocnt oB s_log l_dk]. rewrite Eo. apply Permutation_app_head. rewrite !map_app. apply Permutation_app_head.
    (* replacing an element by one with the same key object keeps the key objects *)
    match goal with |- ?a ≡ₚ ?b => assert (Heq : a = b); [|rewrite Heq; reflexivity] end. unfold replace_list. rewrite List.map_map. apply List.map_ext_in. intros a Ha. cbn [ek].
    destruct (N.eqb_spec (ek a) k) as [Hak|Hak]; [|reflexivity]. cbn [ekid].
    apply elem_of_list_In in Ha. rewrite (lookup_list_nodup k (orem o) a Hnd Ha Hak) in E. injection E as ->. reflexivity.
Qed.

Lemma kcons_rp {A} (P : A -> Prop) (m : M' A) : rp P m -> kcons ekid dks m.
Proof.
  intros H s Hl. specialize (H s). unfold wpp. destruct (m s) as [a s'|p s'|x]; [|exact I|exact I].
  destruct H as (Hr & Hk & _). unfold cons_ok, lite, heldf in *. rewrite Hr, Hk. auto.
Qed.
Lemma rp_cb : rp (fun _ => True) cb.
Proof.
  intros s. unfold cb, tick, bind, modify, get, dks, dvs. cbn.
  destruct (s_fuse s) as [n|]; cbn; [destruct (n =? 0); cbn|]; auto.
Qed.
Lemma rp_rt_iter : rp (fun _ => True) rt_iter.
Proof.
  intros s. unfold rt_iter, bind, getm, getlo, gets, take_order, get. cbn.
  destruct (valid_order _ _); cbn; [|exact I]. destruct (lo (s_rt s)) as [o|]; cbn; [|auto].
  destruct (_ <? _); cbn; auto.
Qed.

(* C06: retain drops exactly what it removes: every key object of the map is afterwards either
   still stored or in the ledger, exactly once (whatever the predicate and its panics did up to
   a completed call) *)
Theorem map_retain_conserves_keys keep delta : kcons ekid dks (map_retain c keep delta).
Proof.
  unfold map_retain. apply kcons_bind; [apply (kcons_rp _ _ rp_rt_iter)|]. intros l.
  apply kcons_bind; [|intros _; apply kcons_ret]. apply kcons_iterM. intros x.
  apply kcons_bind; [apply (kcons_rp _ _ rp_cb)|]. intros _.
  apply kcons_bind; [apply kcons_when, kcons_set_value_k|]. intros _.
  apply kcons_when, kcons_rt_erase_k.
Qed.

(* ---------------------------------------------------------------- drain_filter: conservation *)

(* rt_remove: the element leaves the tables and is handed out; releasing the (then empty) old
   table changes nothing *)
Lemma rt_remove_conserves im k s :
  lite s ->
  wpp (rt_remove c im k)
      (fun x s' => lite s' /\ dks s' = dks s /\ ekid x :: map ekid (elems (s_rt s')) ≡ₚ map ekid (elems (s_rt s))) TT s.
Proof.
  intros [Hm Hl]. unfold rt_remove. destruct im.
  - apply wpp_bind. unfold getm. apply wpp_gets'. set (t := main (s_rt s)) in *.
    unfold hb_remove. destruct (hel t !! k) as [x|] eqn:E; [|exact I].
    apply wpp_bind. apply wpp_bind.
    assert (Htt : rp (fun _ => True) take_tomb).
    { intros s0. unfold take_tomb, bind, get. cbn. destruct (s_tomb s0 =? 0); cbn; auto. }
    eapply wpp_mono; [apply rp_wpp, Htt|]. cbn beta. intros b s1 (Hr1 & Hk1 & Hv1 & _).
    unfold ret, setm, modify, bind, wpp. cbn [fst snd].
    unfold lite, elems, dks in *. cbn [set_rt s_rt main lo s_log]. rewrite Hr1.
    split; [split; [eapply hbc_del; eauto|exact Hl]|]. split; [exact Hk1|]. fold t.
    rewrite <- (map_to_list_delete (hel t) k x E). cbn [hb_del hel]. rewrite !map_app. reflexivity.
  - apply wpp_bind. unfold getlo. apply wpp_gets'. destruct (lo (s_rt s)) as [o|] eqn:Eo; [|exact I].
    apply wpp_bind. unfold old_take. apply wpp_bind. unfold getlo. apply wpp_gets'. rewrite Eo.
    destruct (lookup_list k (orem o)) as [x|] eqn:E; [|exact I].
    cbn [oldc] in Hl. destruct Hl as (Hi & Hc & Hnd).
    pose proof (perm_remove_list k (orem o) x Hnd E) as Hp.
    pose proof (remove_list_nodup k (orem o) Hnd) as Hnd'.
    apply lookup_list_Some in E as [Hin Hk]. pose proof (remove_list_length k (orem o) x Hnd Hin Hk) as Hlen.
    (* the rest after the element has been taken out of the old table *)
    assert (Hrest : forall s1 : st,
      main (s_rt s1) = main (s_rt s) ->
      (exists i, lo (s_rt s1) = Some (Old (oB o) (remove_list k (orem o)) i (ocnt o - 1)) /\ i = ocnt o - 1) ->
      dks s1 = dks s ->
      wpp (o' <- getlo ;; match o' with Some o' => when (olen o' =? 0) free_old | None => ret tt end ;;; ret x)
          (fun a s' => lite s' /\ dks s' = dks s /\ ekid a :: map ekid (elems (s_rt s')) ≡ₚ map ekid (elems (s_rt s))) TT s1).
    { intros s1 Hm1 (i & Hlo1 & ->) Hk1.
      assert (Hl1 : lite s1).
      { split; [rewrite Hm1; exact Hm|]. rewrite Hlo1. cbn. split; [lia|]. split; [lia|exact Hnd']. }
      assert (Hel1 : ekid x :: map ekid (elems (s_rt s1)) ≡ₚ map ekid (elems (s_rt s))).
      { unfold elems. rewrite Hm1, Hlo1, Eo. cbn [orem]. rewrite Hp at 2. rewrite !map_app. cbn [map]. apply Permutation_middle. }
      apply wpp_bind. unfold getlo. apply wpp_gets'. rewrite Hlo1. apply wpp_bind.
      apply wpp_when.
      - intros H0. apply N.eqb_eq in H0. unfold olen in H0. cbn [ocnt] in H0.
        eapply wpp_mono; [apply free_old_empty; [exact Hl1|]|].
        { unfold old_empty. rewrite Hlo1. cbn [orem]. destruct (remove_list k (orem o)); [reflexivity|cbn in Hlen; lia]. }
        cbn beta. intros _ s2 ((Hk2 & _ & Hl2) & Hlo2 & Hm2). apply wpp_ret.
        split; [exact Hl2|]. split; [congruence|]. rewrite <- Hel1. apply Permutation_cons; [reflexivity|].
        unfold elems. rewrite Hm2, Hlo2, Hlo1. cbn [orem].
        assert (remove_list k (orem o) = []) as -> by (destruct (remove_list k (orem o)); [reflexivity|cbn in Hlen; lia]).
        reflexivity.
      - intros _. apply wpp_ret. auto. }
    assert (Hfin : forall i, i = ocnt o - 1 ->
      wpp (setlo (Some (Old (oB o) (remove_list k (orem o)) i (ocnt o - 1))) ;;; ret x)
          (fun a s1 => wpp (o' <- getlo ;; match o' with Some o' => when (olen o' =? 0) free_old | None => ret tt end ;;; ret a)
                 (fun a s' => lite s' /\ dks s' = dks s /\ ekid a :: map ekid (elems (s_rt s')) ≡ₚ map ekid (elems (s_rt s))) TT s1) TT s).
    { intros i ->. unfold setlo, modify, bind at 1, ret at 1, wpp at 1. apply Hrest; cbn [set_rt s_rt main lo]; [reflexivity|eauto|reflexivity]. }
    destruct (czst c); [apply Hfin; reflexivity|]. destruct (oit o =? 0); [exact I|apply Hfin; lia].
Qed.

Lemma kcons_drop_elem_of x s0 s1 :
  lite s1 -> dks s1 = dks s0 -> ekid x :: map ekid (elems (s_rt s1)) ≡ₚ map ekid (elems (s_rt s0)) ->
  wpp (drop_elem x) (fun _ s' => cons_ok ekid dks s0 s') TT s1.
Proof.
  intros Hl Hk Hp. unfold drop_elem, drop_key, drop_val, tick, modify, bind, wpp, cons_ok, lite, heldf, dks in *. cbn.
  split; [exact Hl|]. rewrite Hk, <- Hp. cbn [app]. apply Permutation_middle.
Qed.

Lemma kcons_df_drop take delta : forall l, kcons ekid dks (df_drop c take delta l).
Proof.
  induction l as [|x l IH]; cbn [df_drop]; [apply kcons_ret|].
  apply kcons_bind; [apply (kcons_rp _ _ rp_cb)|]. intros _.
  apply kcons_bind; [apply kcons_when, kcons_set_value_k|]. intros _.
  apply kcons_bind; [|intros _; exact IH].
  destruct (inb _ _); [|apply kcons_ret]. intros s Hl. apply wpp_bind.
  eapply wpp_mono; [apply rt_remove_conserves, Hl|]. cbn beta. intros e' s1 (Hl1 & Hk1 & Hp1).
  apply kcons_drop_elem_of; assumption.
Qed.

(* the user's calls of next(): what was in the map is afterwards stored, dropped, or among the
   yielded elements - each key object exactly once *)
Lemma df_run_u_conserves take delta : forall l fuel acc s,
  lite s ->
  wpp (df_run_u c take delta l fuel acc)
      (fun r s' => lite s' /\
         dks s' ++ map ekid (elems (s_rt s')) ++ map ekid (fst r) ≡ₚ dks s ++ map ekid (elems (s_rt s)) ++ map ekid acc) TT s.
Proof.
  induction l as [|x l IH]; intros fuel acc s Hl; cbn [df_run_u]; [apply wpp_ret; auto|].
  destruct fuel as [|fuel]; [apply wpp_ret; auto|].
  apply wpp_bind. apply wpp_on_unwind. eapply wpp_conseq; [apply rp_wpp, rp_cb| |].
  2:{ intros p s1 _. unfold wpp, TT. destruct (df_drop c take delta l s1); exact I. }
  cbn beta. intros _ s1 (Hr1 & Hk1 & _).
  assert (Hl1 : lite s1) by (unfold lite in *; rewrite Hr1; exact Hl).
  apply wpp_bind. eapply wpp_mono; [apply (kcons_when _ _ _ _ (kcons_set_value_k x.1 (ek x.2) (ev x.2 + delta))), Hl1|].
  cbn beta. intros _ s2 [Hl2 Hp2]. unfold heldf in Hp2.
  assert (Hbase : dks s2 ++ map ekid (elems (s_rt s2)) ≡ₚ dks s ++ map ekid (elems (s_rt s))).
  { rewrite Hp2, Hk1, Hr1. reflexivity. }
  destruct (inb (ek x.2) take).
  - apply wpp_bind. eapply wpp_mono; [apply rt_remove_conserves, Hl2|]. cbn beta. intros e' s3 (Hl3 & Hk3 & Hp3).
    eapply wpp_mono; [apply (IH fuel (acc ++ [e']) s3 Hl3)|]. cbn beta. intros r s4 [Hl4 Hp4].
    split; [exact Hl4|]. rewrite Hp4, Hk3, map_app. cbn [map].
    transitivity (dks s2 ++ (ekid e' :: map ekid (elems (s_rt s3))) ++ map ekid acc).
    { apply Permutation_app_head. cbn [app]. rewrite app_assoc. symmetry. apply Permutation_cons_append. }
    rewrite Hp3. rewrite app_assoc, Hbase, <- app_assoc. reflexivity.
  - eapply wpp_mono; [apply (IH (S fuel) acc s2 Hl2)|]. cbn beta. intros r s4 [Hl4 Hp4].
    split; [exact Hl4|]. rewrite Hp4. rewrite !app_assoc. apply Permutation_app_tail. exact Hbase.
Qed.

(* C06: drain_filter, consumed for any number of items, then dropped or forgotten: every key
   object the map held is afterwards still stored, or dropped, or was yielded - exactly once *)
Theorem map_drain_filter_conserves_keys take delta j forget s :
  lite s ->
  wpp (map_drain_filter c take delta j forget)
      (fun out s' => lite s' /\ exists yielded, out = map elem3 yielded /\
         dks s' ++ map ekid (elems (s_rt s')) ++ map ekid yielded ≡ₚ dks s ++ map ekid (elems (s_rt s))) TT s.
Proof.
  intros Hl. unfold map_drain_filter. apply wpp_bind. eapply wpp_mono; [apply rp_wpp, rp_rt_iter|].
  cbn beta. intros l s1 (Hr1 & Hk1 & _).
  assert (Hl1 : lite s1) by (unfold lite in *; rewrite Hr1; exact Hl).
  apply wpp_bind. eapply wpp_mono; [apply df_run_u_conserves, Hl1|]. cbn beta. intros r s2 [Hl2 Hp2].
  cbn [map] in Hp2. rewrite app_nil_r in Hp2. rewrite Hk1, Hr1 in Hp2.
  apply wpp_bind. destruct forget.
  - apply wpp_ret, wpp_ret. split; [exact Hl2|]. exists (fst r). split; [reflexivity|exact Hp2].
  - eapply wpp_mono; [apply kcons_df_drop, Hl2|]. cbn beta. intros _ s3 [Hl3 Hp3]. apply wpp_ret.
    split; [exact Hl3|]. exists (fst r). split; [reflexivity|]. unfold heldf in Hp3.
    rewrite app_assoc, Hp3, <- app_assoc. exact Hp2.
Qed.

(* ---------------------------------------------------------------- clone_from *)

Lemma nd_and_carry_here : forall l, nd (and_carry_here c l).
Proof.
  induction l as [|e l IH]; cbn [and_carry_here]; [apply nd_ret|].
  eapply ndr_bind; [apply ndr_getm|]. intros t Ht.
  apply nd_bind; [apply nd_tick_hash|intros _]. apply nd_bind; [apply nd_cb|intros _].
  apply nd_bind; [apply ndr_on_unwind, nd_cb|intros _].
  eapply ndr_bind; [apply ndr_hb_insert, Ht|]. intros t' Ht'.
  apply nd_bind; [apply nd_setm, Ht'|intros _; exact IH].
Qed.

(* let _ = self.leftovers.take(): what is still in the old table is dropped, each once *)
Lemma free_old_ledger s :
  wpp free_old (fun _ s1 => main (s_rt s1) = main (s_rt s) /\ lo (s_rt s1) = None /\
     dks s1 = rev (map ekid (match lo (s_rt s) with Some o => orem o | None => [] end)) ++ dks s /\
     dvs s1 = rev (map ev (match lo (s_rt s) with Some o => orem o | None => [] end)) ++ dvs s) TT s.
Proof.
  unfold free_old. apply wpp_bind. unfold getlo. apply wpp_gets'. destruct (lo (s_rt s)) as [o|] eqn:E.
  - apply wpp_bind. unfold setlo, modify, wpp at 1. apply wpp_bind.
    eapply wpp_mono; [apply drop_elems_ledger|]. cbn beta. intros _ s1 (Hr & Hk & Hv).
    unfold tick_free, tick, modify, wpp, dks, dvs in *. cbn [set_log s_rt s_log log_free l_dk l_dv]. rewrite Hr. cbn [set_rt s_rt main lo s_log] in *. auto.
  - apply wpp_ret. rewrite E. cbn. auto.
Qed.

Lemma rp_bind {A B} (P : A -> Prop) (Q : B -> Prop) (m : M' A) (g : A -> M' B) :
  rp P m -> (forall x, rp Q (g x)) -> rp Q (bind m g).
Proof.
  intros Hm Hg s. specialize (Hm s). unfold bind. destruct (m s) as [a s1|p s1|f]; [|exact I|exact I].
  destruct Hm as (Hr & Hk & Hv & _). specialize (Hg a s1). destruct (g a s1) as [b s2|p s2|f]; [|exact I|exact I].
  destruct Hg as (Hr2 & Hk2 & Hv2 & HQ). repeat split; congruence || exact HQ.
Qed.
Lemma rp_ret {A} (a : A) : rp (fun _ => True) (ret a).
Proof. intros s. cbn. auto. Qed.
Lemma rp_on_unwind {A} (P : A -> Prop) (m : M' A) h : rp P m -> rp P (on_unwind m h).
Proof.
  intros Hm s. specialize (Hm s). unfold on_unwind. destruct (m s) as [a s1|p s1|f]; [exact Hm| |exact I].
  destruct (h s1); exact I.
Qed.
Lemma rp_iterM {A} (g : A -> M' unit) l : (forall a, rp (fun _ => True) (g a)) -> rp (fun _ => True) (iterM g l).
Proof.
  intros Hg. induction l as [|a l IH]; cbn [iterM]; [apply rp_ret|].
  eapply rp_bind; [apply Hg|intros _; exact IH].
Qed.
Lemma rp_tick g : (forall l, l_dk (g l) = l_dk l /\ l_dv (g l) = l_dv l) -> rp (fun _ => True) (tick g).
Proof. intros Hg s0. unfold tick, modify, dks, dvs. cbn. destruct (Hg (s_log s0)). auto. Qed.
Lemma rp_tick_hash : rp (fun _ => True) tick_hash.
Proof. unfold tick_hash. eapply rp_bind; [apply rp_tick; intros l; cbn; auto|intros _; apply rp_cb]. Qed.
Lemma rp_hb_free t0 : rp (fun _ => True) (hb_free t0).
Proof. unfold hb_free. destruct (negb _); cbn [when]; [apply rp_tick; intros l; cbn; auto|apply rp_ret]. Qed.
Lemma rp_take_order_or m : rp (fun _ => True) (take_order_or m).
Proof. intros s. unfold take_order_or, bind, get. cbn. auto. Qed.
Lemma rp_clone_elems l : forall acc, rp (fun _ => True) (clone_elems l acc).
Proof.
  induction l as [|e l IH]; intros acc; cbn [clone_elems]; [apply rp_ret|].
  eapply rp_bind; [apply rp_on_unwind, rp_cb|intros _]. eapply rp_bind; [apply rp_on_unwind, rp_cb|intros _; apply IH].
Qed.

(* hashbrown's clone_from_with_hasher: the destination's own elements are dropped, each once;
   the clones it makes are the new contents *)
Lemma hb_clone_from_ledger t sm s :
  hbc t -> hbc sm ->
  wpp (hb_clone_from_with_hasher t sm)
      (fun t' s' => hbc t' /\ lo (s_rt s') = lo (s_rt s) /\
         dks s' = rev (map ekid (map_to_list (hel t)).*2) ++ dks s /\
         dvs s' = rev (map ev (map_to_list (hel t)).*2) ++ dvs s) TT s.
Proof.
  intros Ht Hsm. unfold hb_clone_from_with_hasher.
  destruct (_ && _).
  - (* clear and re-insert *)
    assert (Hloop : forall els, rp (fun _ => True)
              (iterM (fun e => cb ;;; on_unwind cb (drop_key (ekid e)) ;;; on_unwind tick_hash (drop_elem e)) els)).
    { intros els. apply rp_iterM. intros e. eapply rp_bind; [apply rp_cb|intros _].
      eapply rp_bind; [apply rp_on_unwind, rp_cb|intros _]. apply rp_on_unwind, rp_tick_hash. }
    assert (Hrest : forall t1 s1, hbc t1 -> hn t1 = 0 \/ True ->
              wpp (setm t1 ;;; els <- take_order_or (hel sm) ;;
                   iterM (fun e => cb ;;; on_unwind cb (drop_key (ekid e)) ;;; on_unwind tick_hash (drop_elem e)) els ;;;
                   (if hgl t1 <? hlen sm then unwind (PDebugAssert 3647) else ret (HB (hB t1) (hgl t1 - hlen sm) (hn sm) (hel sm))))
                  (fun t' s' => hbc t' /\ lo (s_rt s') = lo (s_rt s1) /\ dks s' = dks s1 /\ dvs s' = dvs s1) TT s1).
    { intros t1 s1 Ht1 _. apply wpp_bind. unfold setm, modify, wpp at 1.
      apply wpp_bind. eapply wpp_mono; [apply rp_wpp, rp_take_order_or|]. cbn beta. intros els s2 (Hr2 & Hk2 & Hv2 & _).
      apply wpp_bind. eapply wpp_mono; [apply rp_wpp, Hloop|]. cbn beta. intros _ s3 (Hr3 & Hk3 & Hv3 & _).
      destruct (_ <? _); [exact I|]. apply wpp_ret. split; [exact Hsm|].
      rewrite Hr3, Hr2. cbn [set_rt s_rt lo]. split; [reflexivity|]. unfold dks, dvs in *. cbn [set_rt s_log] in *. split; congruence. }
    apply wpp_bind. unfold hb_clear. destruct (hlen t =? 0) eqn:E0.
    + apply wpp_ret.
      assert (Hemp : hel t = ∅) by (apply N.eqb_eq in E0; unfold hlen, hbc in *; apply map_size_empty_inv; lia).
      eapply wpp_mono; [apply (Hrest t s Ht); auto|]. cbn beta. intros t' s' (H1 & H2 & H3 & H4).
      rewrite Hemp, map_to_list_empty. cbn. auto.
    + apply wpp_bind. eapply wpp_mono; [apply drop_elems_ledger|]. cbn beta. intros _ s1 (Hr1 & Hk1 & Hv1). apply wpp_ret.
      eapply wpp_mono; [apply (Hrest (hb_empty (hB t)) s1 (hbc_empty _)); auto|]. cbn beta. intros t' s' (H1 & H2 & H3 & H4).
      split; [exact H1|]. split; [congruence|]. split; congruence.
  - destruct (hB sm =? 1).
    + apply wpp_bind. eapply wpp_mono; [apply drop_elems_ledger|]. cbn beta. intros _ s1 (Hr1 & Hk1 & Hv1).
      apply wpp_bind. eapply wpp_mono; [apply rp_wpp, rp_hb_free|]. cbn beta. intros _ s2 (Hr2 & Hk2 & Hv2 & _).
      apply wpp_ret. split; [apply hbc_new|]. split; [congruence|]. split; congruence.
    + apply wpp_bind. eapply wpp_mono; [apply drop_elems_ledger|]. cbn beta. intros _ s1 (Hr1 & Hk1 & Hv1).
      apply wpp_bind.
      assert (Hw : rp (fun _ => True) (when (negb (hB t =? hB sm)) (tick_alloc ;;; hb_free t))).
      { destruct (negb _); cbn [when]; [|apply rp_ret]. eapply rp_bind; [apply rp_tick; intros l; cbn; auto|intros _; apply rp_hb_free]. }
      eapply wpp_mono; [apply rp_wpp, Hw|]. cbn beta. intros _ s2 (Hr2 & Hk2 & Hv2 & _).
      apply wpp_bind. eapply wpp_mono; [apply rp_wpp, rp_take_order_or|]. cbn beta. intros els s3 (Hr3 & Hk3 & Hv3 & _).
      apply wpp_bind. apply wpp_on_unwind. eapply wpp_conseq; [apply rp_wpp, rp_clone_elems| |].
      2:{ intros p s4 _. unfold wpp, TT. destruct (setm (hb_empty (hB sm)) s4); exact I. }
      cbn beta. intros _ s4 (Hr4 & Hk4 & Hv4 & _). apply wpp_ret.
      split; [exact Hsm|]. split; [congruence|]. split; congruence.
Qed.

(* C06: clone_from.  Everything the destination held - in either of its tables - is dropped
   exactly once (the ledger grows by a permutation of its previous elements); nothing else is *)
Theorem rt_clone_from_ledger src s :
  lite s -> hbc (main src) ->
  wpp (rt_clone_from c src)
      (fun _ s' => dks s' ≡ₚ map ekid (elems (s_rt s)) ++ dks s /\ dvs s' ≡ₚ map ev (elems (s_rt s)) ++ dvs s) TT s.
Proof.
  intros [Hm Hl] Hsrc. unfold rt_clone_from. apply wpp_bind.
  eapply wpp_mono; [apply free_old_ledger|]. cbn beta. intros _ s1 (Hm1 & Hlo1 & Hk1 & Hv1).
  apply wpp_bind. unfold getm. apply wpp_gets'. rewrite Hm1. set (t := main (s_rt s)) in *.
  set (t0 := if hlen t =? 0 then hb_clear_no_drop t else t).
  assert (Ht0 : hbc t0 /\ (map_to_list (hel t0)).*2 = (map_to_list (hel t)).*2).
  { unfold t0. destruct (hlen t =? 0) eqn:E0; [|auto]. split; [apply hbc_empty|].
    apply N.eqb_eq in E0. assert (hel t = ∅) as -> by (unfold hlen, hbc in *; apply map_size_empty_inv; lia). reflexivity. }
  destruct Ht0 as [Ht0 Hel0].
  apply wpp_bind. unfold setm, modify, wpp at 1. apply wpp_bind.
  eapply wpp_mono; [apply (hb_clone_from_ledger t0 (main src) _ Ht0 Hsrc)|]. cbn beta.
  intros t' s2 (Ht' & Hlo2 & Hk2 & Hv2). cbn [set_rt s_rt lo] in Hlo2.
  apply wpp_bind. unfold setm, modify, wpp at 1.
  apply wpp_bind. unfold cursor_view. 
  set (s3 := set_rt (RT t' (lo (s_rt s2))) s2).
  assert (Hl3 : lite s3) by (unfold s3, lite; cbn [set_rt s_rt main lo]; rewrite Hlo2, Hlo1; split; [exact Ht'|exact I]).
  assert (Hfin : forall l, wpp (and_carry_here c l)
            (fun _ s' => dks s' ≡ₚ map ekid (elems (s_rt s)) ++ dks s /\ dvs s' ≡ₚ map ev (elems (s_rt s)) ++ dvs s) TT s3).
  { intros l. eapply wpp_mono; [apply nd_and_carry_here, Hl3|]. cbn beta. intros _ s4 [(Hk4 & Hv4 & _) _].
    unfold s3, dks, dvs in Hk4, Hv4. cbn [set_rt s_log] in Hk4, Hv4. unfold dks, dvs in *. cbn [set_rt s_log] in Hk2, Hv2.
    rewrite Hk4, Hk2, Hv4, Hv2, Hk1, Hv1, Hel0. unfold elems. fold t. rewrite !map_app, !app_assoc.
    split; apply Permutation_app_tail; apply Permutation_app; rewrite <- Permutation_rev; reflexivity. }
  destruct (lo src) as [o|]; [|apply wpp_ret, Hfin]. destruct (_ <? _); [exact I|apply wpp_ret, Hfin].
Qed.

End Ledger.

(* the invariant of the development provides what the ledger analysis needs *)
Lemma Inv_lite R Esz s : Inv R Esz (s_rt s) -> lite s.
Proof.
  intros (_ & (_ & Hn & _) & Ho). split; [exact Hn|]. unfold oldc. destruct (lo (s_rt s)) as [o|]; [|exact I].
  destruct Ho as (Hi & Hc & Hnd & _). unfold olen in Hi. split; [lia|]. split; [exact Hc|exact Hnd].
Qed.
