(* C08 — Every iterator yields each live element exactly once, with exact length
   Statements only: each theorem restates a lemma of Theorems.v and is closed by [exact]. *)
From stdpp Require Import gmap list.
From Coq Require Import NArith.
From G Require Import Arith Monad Types Inv Raw RawProofs Map MapProofs IterProofs Cost Fill WorldProofs Theorems.
Local Open Scope N_scope.

(* iter / keys / values / iter_mut / values_mut: every element present, exactly once *)
Theorem C08_iter_each_once : forall c w t s variant delta o w',
  0 < cR c -> WInv c w -> t_op t = OIter s variant delta -> step c w t = Ok o w' ->
  WInv c w' /\ exists (m : gmap N elem) l, wabs w !! s = Some m /\ NoDup (map ek l) /\ list_to_emap l = m /\
    o = OutL (map elem3 l) /\ wabs w' = <[s := if delta =? 0 then m else bumpv delta <$> m]> (wabs w).
Proof. exact T_C08_iter. Qed.

(* the exact length an iterator reports when created *)
Theorem C08_exact_len : forall c r l,
  Inv (cR c) (cesz c) r -> iter_of r l -> N.of_nat (length l) = rt_len r.
Proof. exact T_C08_exact_len. Qed.

(* keys() and values() enumerate in the same order as iter(): one traversal serves them all *)
Theorem C08_keys_values_same_order : forall c w t1 t2 s v1 v2 delta,
  t_op t1 = OIter s v1 delta -> t_op t2 = OIter s v2 delta ->
  t_on t1 = t_on t2 -> t_tomb t1 = t_tomb t2 -> t_perm t1 = t_perm t2 -> t_qperm t1 = t_qperm t2 ->
  step c w t1 = step c w t2.
Proof. exact T_C08_same_order. Qed.

(* drain: a prefix of an enumeration of the contents is yielded; the map is empty and usable *)
Theorem C08_drain : forall c w t s j forget o w',
  0 < cR c -> WInv c w -> t_op t = ODrain s j forget -> step c w t = Ok o w' ->
  WInv c w' /\ exists (m : gmap N elem) l, wabs w !! s = Some m /\ NoDup (map ek l) /\ list_to_emap l = m /\
    o = OutL (map elem3 (firstn (N.to_nat j) l)) /\ wabs w' = <[s := (∅ : gmap N elem)]> (wabs w).
Proof. exact T_C08_drain. Qed.

Theorem C08_into_iter : forall c w t s j o w',
  0 < cR c -> WInv c w -> t_op t = OIntoIter s j -> step c w t = Ok o w' ->
  WInv c w' /\ exists (m : gmap N elem) l, wabs w !! s = Some m /\ NoDup (map ek l) /\ list_to_emap l = m /\
    o = OutL (map elem3 (firstn (N.to_nat j) l)) /\ wabs w' = delete s (wabs w).
Proof. exact T_C08_into_iter. Qed.

Print Assumptions C08_iter_each_once.
Print Assumptions C08_exact_len.
Print Assumptions C08_keys_values_same_order.
Print Assumptions C08_drain.
Print Assumptions C08_into_iter.
