(* WorldProofs.v — histories: every operation preserves the invariant of every map in the world
   and refines the reference semantics (plain finite maps). *)
From stdpp Require Import gmap list.
From Coq Require Import NArith Lia.
From G Require Import Arith Monad Types Inv Raw RawProofs Map MapProofs IterProofs CloneProofs Cost EntryProofs EntryCost SetProofs.
Local Open Scope N_scope.

(* ---------------------------------------------------------------- the reference *)

(* Reference semantics of the core HashMap API over plain finite maps.  A relation, because
   capacity calls may or may not report a capacity overflow (that depends on sizes the
   reference knows nothing about); everything else is a function of the contents. *)
Definition get_after (g : gvar) (k wv : N) (m : gmap N elem) : gmap N elem :=
  if get_writes g then match m !! k with Some e => <[k := Elem k (ekid e) wv]> m | None => m end else m.

(* spec-level (location-free) versions of the iteration notions of IterProofs.v *)
Definition yield_e (take : list N) (delta : N) (v : list elem) : list elem :=
  map (bump0 delta) (List.filter (fun e => inb (ek e) take) v).
Definition pass_res (act : elem -> option elem) (m0 : gmap N elem) (v : list elem) (m : gmap N elem) : Prop :=
  forall k, m !! k = match lookup_list k v with Some e => act e | None => m0 !! k end.

Definition chain_rel (raw : bool) (held : option N) (σ : gmap N (gmap N elem)) (s k : N) (ss : list estep)
    (r : out) (σ' : gmap N (gmap N elem)) : Prop :=
  exists m : gmap N elem, σ !! s = Some m /\
    ((r = OutP PCapOverflow /\ exists m' : gmap N elem, σ' = <[s := m']> σ) \/
     match ref_chain raw m (start_ent m k held) ss [] with
     | ROk m' _ o => r = o /\ σ' = <[s := m']> σ
     | RPanic p m' => r = OutP p /\ σ' = <[s := m']> σ
     | RBad => False
     end).

Definition pred_math (kind : N) (ma mb : gmap N elem) : Prop :=
  match kind with
  | 0 => forall k, ~ (is_Some (ma !! k) /\ is_Some (mb !! k))
  | 1 => dom_sub ma mb
  | 2 => dom_sub mb ma
  | _ => forall k, is_Some (ma !! k) <-> is_Some (mb !! k)
  end.

Definition spec_rel (σ : gmap N (gmap N elem)) (o : op) (r : out) (σ' : gmap N (gmap N elem)) : Prop :=
  match o with
  | ONew s hs cap => (r = OutU \/ r = OutP PCapOverflow) /\ σ' = <[s := (∅ : gmap N elem)]> σ
  | OInsert s k kid v =>
      exists m, σ !! s = Some m /\
        ((r = OutOV (ev <$> m !! k) /\
          σ' = <[s := <[k := Elem k (match m !! k with Some e => ekid e | None => kid end) v]> m]> σ)
         \/ (r = OutP PCapOverflow /\ σ' = σ))
  | OGet s variant k wv =>
      exists m : gmap N elem, σ !! s = Some m /\
        (r = get_out (gvar_of variant) (m !! k) \/
         (gvar_of variant = GIndex /\ m !! k = None /\ r = OutP PIndexMissing)) /\
        σ' = <[s := get_after (gvar_of variant) k wv m]> σ
  | ORemove s entry k =>
      exists m, σ !! s = Some m /\
        r = (if entry then OutOKV ((fun e => (ekid e, ev e)) <$> m !! k) else OutOV (ev <$> m !! k)) /\
        σ' = <[s := delete k m]> σ
  | OClear s => exists m : gmap N elem, σ !! s = Some m /\ r = OutU /\ σ' = <[s := (∅ : gmap N elem)]> σ
  | OReserve s n => exists m : gmap N elem, σ !! s = Some m /\ (r = OutU \/ r = OutP PCapOverflow) /\ σ' = σ
  | OTryReserve s n => exists m : gmap N elem, σ !! s = Some m /\ (exists b, r = OutB b) /\ σ' = σ
  | OShrinkTo s n => exists m : gmap N elem, σ !! s = Some m /\ r = OutU /\ σ' = σ
  | ODrop s => r = OutU /\ σ' = delete s σ
  (* iteration: l enumerates the contents, each element once (in an unspecified order) *)
  | OIter s variant delta =>
      exists (m : gmap N elem) l, σ !! s = Some m /\ NoDup (map ek l) /\ list_to_emap l = m /\
        r = OutL (map elem3 l) /\ σ' = <[s := if delta =? 0 then m else bumpv delta <$> m]> σ
  | ORetain s keep delta =>
      exists (m : gmap N elem) l, σ !! s = Some m /\ NoDup (map ek l) /\ list_to_emap l = m /\
        r = OutL (map elem3 l) /\ σ' = <[s := omap (retain_act keep delta) m]> σ
  | ODrainFilter s take delta j forget =>
      exists (m : gmap N elem) l v1 rest m', σ !! s = Some m /\ NoDup (map ek l) /\ list_to_emap l = m /\
        l = v1 ++ rest /\ r = OutL (map elem3 (yield_e take delta v1)) /\
        pass_res (df_act take delta) m (if forget then v1 else l) m' /\
        match j with Some j => (length (yield_e take delta v1) <= N.to_nat j)%nat /\
                               (rest <> [] -> length (yield_e take delta v1) = N.to_nat j)
                | None => rest = [] end /\
        σ' = <[s := m']> σ
  | ODrain s j forget =>
      exists (m : gmap N elem) l, σ !! s = Some m /\ NoDup (map ek l) /\ list_to_emap l = m /\
        r = OutL (map elem3 (firstn (N.to_nat j) l)) /\ σ' = <[s := (∅ : gmap N elem)]> σ
  | OIntoIter s j =>
      exists (m : gmap N elem) l, σ !! s = Some m /\ NoDup (map ek l) /\ list_to_emap l = m /\
        r = OutL (map elem3 (firstn (N.to_nat j) l)) /\ σ' = delete s σ
  (* clone / clone_from: the destination holds exactly the source's contents (and reports its hasher) *)
  | OClone s d => exists m : gmap N elem, σ !! s = Some m /\
      (((exists h, r = OutN h) /\ σ' = <[d := m]> σ) \/ (r = OutP PCapOverflow /\ σ' = σ))
  | OCloneFrom d s => exists m md : gmap N elem, σ !! s = Some m /\ σ !! d = Some md /\
      (((exists h, r = OutN h) /\ σ' = <[d := m]> σ) \/
       (* a documented capacity overflow while re-inserting: the destination's contents are unspecified *)
       (r = OutP PCapOverflow /\ exists m' : gmap N elem, σ' = <[d := m']> σ))
  (* ==: true exactly when both hold the same keys with equal values *)
  | OEq a b => exists ma mb : gmap N elem, σ !! a = Some ma /\ σ !! b = Some mb /\
                 (exists b, r = OutB b /\ (b = true <-> veq ma mb)) /\ σ' = σ
  (* entry(key) / raw_entry_mut() chains: the reference chain on the plain map decides the
     outcomes of all steps and the final contents; the chain panics exactly where the reference
     does (replace_key / replace_entry on a handle without a key: finding D6), with the
     contents as they were at that point *)
  | OEntry s k kid ss => chain_rel false (Some kid) σ s k ss r σ'
  | ORawEntry s variant k ss => chain_rel true None σ s k ss r σ'
  | ORawGet s variant k => exists m : gmap N elem, σ !! s = Some m /\
      r = OutOKV ((fun e => (ekid e, ev e)) <$> m !! k) /\ σ' = σ
  (* extend / from_iter: one insert after the other *)
  | OExtend s items hint => exists m : gmap N elem, σ !! s = Some m /\
      ((r = OutU /\ σ' = <[s := ext m items]> σ) \/ (r = OutP PCapOverflow /\ exists m' : gmap N elem, σ' = <[s := m']> σ))
  | OFromIter s hs items hint =>
      (r = OutU /\ σ' = <[s := ext ∅ items]> σ) \/ (r = OutP PCapOverflow /\ exists m' : gmap N elem, σ' = <[s := m']> σ)
  (* rayon traversals: the sequential iterator's elements (shown sorted), whatever the schedule *)
  | OParIter s variant delta splits =>
      exists (m : gmap N elem) l, σ !! s = Some m /\ NoDup (map ek l) /\ list_to_emap l = m /\
        r = OutL (foldr insert_sorted [] (map elem3 l)) /\ σ' = <[s := if delta =? 0 then m else bumpv delta <$> m]> σ
  | OParExtend s chunks => exists m : gmap N elem, σ !! s = Some m /\
      ((r = OutU /\ σ' = <[s := ext m (concat chunks)]> σ) \/ (r = OutP PCapOverflow /\ exists m' : gmap N elem, σ' = <[s := m']> σ))
  (* serde *)
  | OSerialize s => exists (m : gmap N elem) l, σ !! s = Some m /\ NoDup (map ek l) /\ list_to_emap l = m /\
      r = OutS [OutN (N.of_nat (length l)); OutL (map elem3 l)] /\ σ' = σ
  | ODeserInPlace s items hint => exists m : gmap N elem, σ !! s = Some m /\
      ((r = OutU /\ σ' = <[s := ext ∅ items]> σ) \/ (r = OutP PCapOverflow /\ exists m' : gmap N elem, σ' = <[s := m']> σ))
  (* HashSet algebra: each key of the mathematical result exactly once (the result is shown
     sorted; l is what was yielded), every yielded object an element of one of the operands *)
  | OSetAlg kind a b => exists ma mb : gmap N elem, σ !! a = Some ma /\ σ !! b = Some mb /\ σ' = σ /\
      exists l, r = OutL (sorted3 l) /\ alg_ok (alg_kind kind) ma mb l
  | OSetPred kind a b => exists ma mb : gmap N elem, σ !! a = Some ma /\ σ !! b = Some mb /\ σ' = σ /\
      exists bb, r = OutB bb /\ (bb = true <-> pred_math (pred_kind kind) ma mb)
  end.

(* the operations covered by the refinement theorem: all of them; the side conditions exclude
   arguments beyond usize::MAX, which a Rust caller cannot pass *)
Definition core_op (o : op) : Prop :=
  match o with
  | ONew _ _ cap => True
  | OInsert _ _ _ _ | OGet _ _ _ _ | ORemove _ _ _ | OClear _ | OShrinkTo _ _ | ODrop _ => True
  | OIter _ _ _ | ORetain _ _ _ | ODrainFilter _ _ _ _ _ | ODrain _ _ _ | OIntoIter _ _ => True
  | OClone _ _ | OCloneFrom _ _ | OEq _ _ => True
  | OEntry _ _ _ _ | ORawEntry _ _ _ _ | ORawGet _ _ _ => True
  | OSetAlg _ _ _ | OSetPred _ _ _ | OParIter _ _ _ _ | OFromIter _ _ _ _ | OSerialize _ | ODeserInPlace _ _ _ => True
  | OExtend _ _ hint => hint <= usize_max
  | OParExtend _ chunks => N.of_nat (length (concat chunks)) < usize_max
  | OReserve _ n | OTryReserve _ n => n <= usize_max
  end.



Section World.
Context (c : cfg) (HRpos : 0 < cR c).
Notation R := (cR c).
Notation ES := (cesz c).

(* (a map whose elements are filed under another hasher than its own — the state an interrupted
   clone_from may leave — still satisfies the memory-level invariant; lawful histories only
   look such a map up again after emptying it: with_slot_h) *)
Definition slot_ok (m : mslot) : Prop := Inv R ES (m_rt m).
Definition WInv (w : world) : Prop := forall i m, w_maps w !! i = Some m -> slot_ok m.

(* the contents of every map, as plain finite maps: the state of the reference *)
Definition wabs (w : world) : gmap N (gmap N elem) := (fun m => rt_abs (m_rt m)) <$> w_maps w.

Lemma WInv_empty : WInv world0.
Proof. intros i m H. cbn in H. rewrite lookup_empty in H. discriminate. Qed.

Definition wres {A} (r : res world A) (Q : A -> world -> Prop) (U : panic -> world -> Prop) : Prop :=
  match r with
  | Ok a w => Q a w
  | Unwind p w => U p w
  | Fault f => benign f
  end.

Lemma with_slot_gen_spec {A} h w i on perm (m : M' A) ms (Q : A -> world -> Prop) (U : panic -> world -> Prop) :
  w_maps w !! i = Some ms ->
  ((h = true -> m_filed ms = m_hs ms) ->
   wp m (fun a s' => Q a (store w i (m_hs ms) (m_filed ms) s')) (fun p s' => U p (store w i (m_hs ms) (m_filed ms) s')) (load w ms on perm)) ->
  wres (with_slot_gen h w i on perm m) Q U.
Proof.
  intros Hi H. unfold with_slot_gen. rewrite Hi.
  destruct (h && negb (m_filed ms =? m_hs ms)) eqn:Eh; [right; reflexivity|].
  assert (Hh : h = true -> m_filed ms = m_hs ms).
  { intros ->. cbn in Eh. apply Bool.negb_false_iff, N.eqb_eq in Eh. exact Eh. }
  specialize (H Hh). unfold wp in H. destruct (m (load w ms on perm)); exact H.
Qed.

Lemma with_slot_gen_missing {A} h w i on perm (m : M' A) (Q : A -> world -> Prop) (U : panic -> world -> Prop) :
  w_maps w !! i = None -> wres (with_slot_gen h w i on perm m) Q U.
Proof. intros Hi. unfold with_slot_gen. rewrite Hi. right. reflexivity. Qed.

Lemma wres_rmap {A B} (f : A -> B) r (Q : B -> world -> Prop) U :
  wres r (fun a w => Q (f a) w) U -> wres (rmap f r) Q U.
Proof. destruct r; exact (fun H => H). Qed.

Lemma WInv_store w i hs f s :
  WInv w -> Inv R ES (s_rt s) -> WInv (store w i hs f s).
Proof.
  intros HW HI j m. unfold store. cbn [w_maps]. destruct (N.eq_dec j i) as [->|Hne].
  - rewrite lookup_insert. intros [= <-]. exact HI.
  - rewrite lookup_insert_ne by congruence. apply HW.
Qed.

Lemma wabs_store w i hs f s : wabs (store w i hs f s) = <[i := rt_abs (s_rt s)]> (wabs w).
Proof. unfold wabs, store. cbn [w_maps]. rewrite fmap_insert. reflexivity. Qed.

Lemma wabs_lookup w i ms : w_maps w !! i = Some ms -> wabs w !! i = Some (rt_abs (m_rt ms)).
Proof. intros H. unfold wabs. rewrite lookup_fmap, H. reflexivity. Qed.

Lemma WInv_insert_new w s hs :
  WInv w -> WInv (W (<[s := MS rt_new hs hs]> (w_maps w)) (w_log w) (w_fuse w)).
Proof.
  intros HW j m. cbn [w_maps]. destruct (N.eq_dec j s) as [->|Hne].
  - rewrite lookup_insert. intros [= <-]. apply Inv_new; exact HRpos.
  - rewrite lookup_insert_ne by congruence. apply HW.
Qed.

Lemma WInv_delete w i : WInv w -> WInv (del_slot i w).
Proof.
  intros HW j m. unfold del_slot. cbn [w_maps]. intros H. apply lookup_delete_Some in H as [_ H]. eapply HW; eauto.
Qed.

Lemma wabs_delete w i : wabs (del_slot i w) = delete i (wabs w).
Proof. unfold wabs, del_slot. cbn [w_maps]. apply fmap_delete. Qed.

Definition step_post (w : world) (t : traced) (r : out) (w' : world) : Prop :=
  WInv w' /\ spec_rel (wabs w) (t_op t) r (wabs w').

(* The outcome of one call: a result, a documented panic (which the reference predicts), or
   an injected user panic (only under a fuse), always leaving every map's invariant intact. *)
Definition step_U (w : world) (t : traced) (p : panic) (w' : world) : Prop :=
  (p <> PUser /\ step_post w t (OutP p) w') \/ (p = PUser /\ WInv w').

Lemma store_same w i ms s :
  w_maps w !! i = Some ms -> s_rt s = m_rt ms ->
  wabs (store w i (m_hs ms) (m_filed ms) s) = wabs w.
Proof.
  intros Hi Hs. rewrite wabs_store, Hs. apply insert_id. apply wabs_lookup. exact Hi.
Qed.

Theorem step_core w t :
  WInv w -> core_op (t_op t) -> wres (step c w t) (step_post w t) (step_U w t).
Proof.
  intros HW Hcore. unfold step. destruct (t_op t) eqn:Eop; cbn [core_op] in Hcore; try contradiction.
  - (* ONew *)
    set (w0 := W (<[s := MS rt_new hs hs]> (w_maps w)) (w_log w) (w_fuse w)).
    pose proof (WInv_insert_new w s hs HW) as HW0. fold w0 in HW0.
    assert (Hw0abs : forall x, <[s := x]> (wabs w0) = <[s := x]> (wabs w)).
    { intros x. unfold w0, wabs. cbn [w_maps]. rewrite fmap_insert, insert_insert. reflexivity. }
    apply with_slot_gen_spec with (ms := MS rt_new hs hs); [unfold w0; cbn; apply lookup_insert|].
    intros _. apply wp_bind. apply hb_with_capacity_spec.
    + intros t0 s1 Hs1 Hem Hn0 Hok Hgl Hcap _ _. wp_steps. unfold step_post. cbn [m_hs m_filed].
      split.
      * apply WInv_store; [exact HW0|]. cbn [set_rt s_rt]. rewrite Hs1. cbn [load s_rt m_rt lo main].
        split; [exact HRpos|]. split; [exact Hok|exact I].
      * rewrite Eop. cbn [spec_rel]. split; [left; reflexivity|]. rewrite wabs_store. cbn [set_rt s_rt].
        unfold rt_abs. rewrite Hs1. cbn [load s_rt m_rt main lo]. rewrite Hem, (left_id_L ∅ (∪)). apply Hw0abs.
    + discriminate.
    + intros _. left. split; [discriminate|]. unfold step_post. cbn [m_hs m_filed]. split.
      * apply WInv_store; [exact HW0|]. apply Inv_new. exact HRpos.
      * rewrite Eop. cbn [spec_rel]. split; [right; reflexivity|]. rewrite wabs_store. cbn [load s_rt m_rt]. rewrite rt_abs_new. apply Hw0abs.
  - (* OInsert *)
    apply wres_rmap. destruct (w_maps w !! s) as [ms|] eqn:Hs; [|apply with_slot_gen_missing; exact Hs].
    pose proof (HW s ms Hs) as HI.
    apply with_slot_gen_spec with (ms := ms); [exact Hs|]. intros _.
    eapply wp_conseq; [apply (map_insert_spec c k kid v); exact HI| |].
    + intros res s1 (HI1 & Hres & _). unfold step_post. split; [apply WInv_store; assumption|].
      rewrite Eop. cbn [spec_rel]. exists (rt_abs (m_rt ms)). split; [apply wabs_lookup; exact Hs|]. left.
      rewrite wabs_store. cbn [load s_rt] in Hres.
      destruct (rt_abs (m_rt ms) !! k) as [e|]; destruct Hres as [-> ->]; split; reflexivity.
    + intros p s1 (HI1 & Hp & Hloss).
      destruct Hp as [->|[-> Hp]]; [right; split; [reflexivity|apply WInv_store; assumption]|].
      left. split; [discriminate|]. unfold step_post. split; [apply WInv_store; assumption|].
      rewrite Eop. cbn [spec_rel]. exists (rt_abs (m_rt ms)). split; [apply wabs_lookup; exact Hs|]. right.
      split; [reflexivity|]. rewrite wabs_store, Hp. cbn [load s_rt]. apply insert_id. apply wabs_lookup. exact Hs.
  - (* OGet *)
    destruct (w_maps w !! s) as [ms|] eqn:Hs; [|apply with_slot_gen_missing; exact Hs].
    pose proof (HW s ms Hs) as HI.
    apply with_slot_gen_spec with (ms := ms); [exact Hs|]. intros _.
    eapply wp_conseq; [apply (map_get_spec c (gvar_of variant) k w0); exact HI| |].
    + intros o s1 (HI1 & Ho & Habs & _). unfold step_post. split; [apply WInv_store; assumption|].
      rewrite Eop. cbn [spec_rel]. exists (rt_abs (m_rt ms)). split; [apply wabs_lookup; exact Hs|].
      split; [left; exact Ho|]. rewrite wabs_store, Habs. reflexivity.
    + intros p s1 (Hs1 & Hp). destruct Hp as [->|(-> & Hnone & Hg)].
      * right. split; [reflexivity|]. apply WInv_store; [exact HW|rewrite Hs1; exact HI].
      * left. split; [discriminate|]. unfold step_post. split; [apply WInv_store; [exact HW|rewrite Hs1; exact HI]|].
        rewrite Eop. cbn [spec_rel]. exists (rt_abs (m_rt ms)). split; [apply wabs_lookup; exact Hs|].
        split; [right; auto|]. rewrite wabs_store, Hs1. cbn [load s_rt]. unfold get_after. rewrite Hg. reflexivity.
  - (* ORemove *)
    destruct (w_maps w !! s) as [ms|] eqn:Hs; [|apply with_slot_gen_missing; exact Hs].
    pose proof (HW s ms Hs) as HI.
    apply with_slot_gen_spec with (ms := ms); [exact Hs|]. intros _.
    apply wp_bind. eapply wp_conseq; [apply (map_remove_entry_spec c k); exact HI| |].
    + intros o s1 (HI1 & -> & Habs). cbn [load s_rt] in *.
      assert (Hfin : forall s2 r, s_rt s2 = s_rt s1 ->
                r = (if entry then OutOKV ((fun e => (ekid e, ev e)) <$> rt_abs (m_rt ms) !! k) else OutOV (ev <$> rt_abs (m_rt ms) !! k)) ->
                step_post w t r (store w s (m_hs ms) (m_filed ms) s2)).
      { intros s2 r Hs2 ->. unfold step_post. split; [apply WInv_store; [exact HW|rewrite Hs2; exact HI1]|].
        rewrite Eop. cbn [spec_rel]. exists (rt_abs (m_rt ms)). split; [apply wabs_lookup; exact Hs|].
        split; [reflexivity|]. rewrite wabs_store, Hs2, Habs. reflexivity. }
      destruct (rt_abs (m_rt ms) !! k) as [e|] eqn:Ek; destruct entry.
      * apply wp_ret. apply Hfin; reflexivity.
      * apply wp_bind. apply frame0_use; [apply frame0_tick|]. intros [] s2 Hs2. apply wp_ret.
        apply Hfin; [exact Hs2|reflexivity].
      * apply wp_ret. apply Hfin; reflexivity.
      * apply wp_ret. apply Hfin; reflexivity.
    + intros p s1 (Hs1 & ->). right. split; [reflexivity|]. apply WInv_store; [exact HW|rewrite Hs1; exact HI].
  - (* OClear *)
    apply wres_rmap. destruct (w_maps w !! s) as [ms|] eqn:Hs; [|apply with_slot_gen_missing; exact Hs].
    pose proof (HW s ms Hs) as HI.
    apply with_slot_gen_spec with (ms := ms); [exact Hs|]. intros _.
    apply (rt_clear_spec c); [exact HI|]. intros s1 HI1 Habs1 _ _. unfold step_post.
    split; [apply WInv_store; assumption|]. rewrite Eop. cbn [spec_rel].
    exists (rt_abs (m_rt ms)). split; [apply wabs_lookup; exact Hs|]. split; [reflexivity|].
    rewrite wabs_store, Habs1. reflexivity.
  - (* OReserve *)
    apply wres_rmap. destruct (w_maps w !! s) as [ms|] eqn:Hs; [|apply with_slot_gen_missing; exact Hs].
    pose proof (HW s ms Hs) as HI.
    apply with_slot_gen_spec with (ms := ms); [exact Hs|]. intros _.
    unfold map_reserve. apply (rt_reserve_spec c); [exact HI|exact Hcore| | |].
    + intros s1 (HI1 & Habs1 & _). unfold step_post. split; [apply WInv_store; assumption|].
      rewrite Eop. cbn [spec_rel]. exists (rt_abs (m_rt ms)). split; [apply wabs_lookup; exact Hs|].
      split; [left; reflexivity|]. rewrite wabs_store, Habs1. cbn [load s_rt].
      apply insert_id. apply wabs_lookup. exact Hs.
    + discriminate.
    + intros p s1 (HI1 & Hp & Hsub & Hov) _. destruct Hp as [->| ->].
      * right. split; [reflexivity|apply WInv_store; assumption].
      * left. split; [discriminate|]. unfold step_post. split; [apply WInv_store; assumption|].
        rewrite Eop. cbn [spec_rel]. exists (rt_abs (m_rt ms)). split; [apply wabs_lookup; exact Hs|].
        split; [right; reflexivity|]. rewrite wabs_store, (Hov eq_refl). cbn [load s_rt].
        apply insert_id. apply wabs_lookup. exact Hs.
  - (* OTryReserve *)
    apply wres_rmap. destruct (w_maps w !! s) as [ms|] eqn:Hs; [|apply with_slot_gen_missing; exact Hs].
    pose proof (HW s ms Hs) as HI.
    apply with_slot_gen_spec with (ms := ms); [exact Hs|]. intros _.
    unfold map_reserve. apply (rt_reserve_spec c); [exact HI|exact Hcore| | |].
    + intros s1 (HI1 & Habs1 & _). unfold step_post. split; [apply WInv_store; assumption|].
      rewrite Eop. cbn [spec_rel]. exists (rt_abs (m_rt ms)). split; [apply wabs_lookup; exact Hs|].
      split; [eauto|]. rewrite wabs_store, Habs1. cbn [load s_rt]. apply insert_id. apply wabs_lookup. exact Hs.
    + intros s1 _ HI1 Habs1. unfold step_post. split; [apply WInv_store; assumption|].
      rewrite Eop. cbn [spec_rel]. exists (rt_abs (m_rt ms)). split; [apply wabs_lookup; exact Hs|].
      split; [eauto|]. rewrite wabs_store, Habs1. cbn [load s_rt]. apply insert_id. apply wabs_lookup. exact Hs.
    + intros p s1 (HI1 & Hp & Hsub & Hov) Hf. destruct Hp as [->| ->].
      * right. split; [reflexivity|apply WInv_store; assumption].
      * specialize (Hf eq_refl). discriminate.
  - (* OShrinkTo *)
    apply wres_rmap. destruct (w_maps w !! s) as [ms|] eqn:Hs; [|apply with_slot_gen_missing; exact Hs].
    pose proof (HW s ms Hs) as HI.
    apply with_slot_gen_spec with (ms := ms); [exact Hs|]. intros _.
    apply (rt_shrink_to_spec c); [exact HI| |].
    + intros s1 (HI1 & Habs1 & _). unfold step_post. split; [apply WInv_store; assumption|].
      rewrite Eop. cbn [spec_rel]. exists (rt_abs (m_rt ms)). split; [apply wabs_lookup; exact Hs|].
      split; [reflexivity|]. rewrite wabs_store, Habs1. cbn [load s_rt]. apply insert_id. apply wabs_lookup. exact Hs.
    + intros s1 HI1 _. right. split; [reflexivity|apply WInv_store; assumption].
  - (* OIter *)
    apply wres_rmap. destruct (w_maps w !! s) as [ms|] eqn:Hs; [|apply with_slot_gen_missing; exact Hs].
    pose proof (HW s ms Hs) as HI.
    apply with_slot_gen_spec with (ms := ms); [exact Hs|]. intros _.
    apply (map_iter_spec c delta); [exact HI|]. intros l s1 Hit HI1 Habs1. cbn [load s_rt] in *.
    destruct (iter_of_abs c _ _ HI Hit) as [Hemap Hnd].
    unfold step_post. split; [apply WInv_store; assumption|]. rewrite Eop. cbn [spec_rel].
    exists (rt_abs (m_rt ms)), (map snd l). split; [apply wabs_lookup; exact Hs|]. split; [exact Hnd|]. split; [exact Hemap|].
    split; [rewrite map_map; reflexivity|]. rewrite wabs_store, Habs1. reflexivity.
  - (* ODrain *)
    apply wres_rmap. destruct (w_maps w !! s) as [ms|] eqn:Hs; [|apply with_slot_gen_missing; exact Hs].
    pose proof (HW s ms Hs) as HI.
    apply with_slot_gen_spec with (ms := ms); [exact Hs|]. intros _.
    apply (map_drain_spec c j forget); [exact HI|]. intros l s1 Hd HI1 Habs1 _. cbn [load s_rt] in *.
    destruct (drain_of_abs c _ _ HI Hd) as [Hemap Hnd].
    unfold step_post. split; [apply WInv_store; assumption|]. rewrite Eop. cbn [spec_rel].
    exists (rt_abs (m_rt ms)), l. split; [apply wabs_lookup; exact Hs|]. split; [exact Hnd|]. split; [exact Hemap|].
    split; [reflexivity|]. rewrite wabs_store, Habs1. reflexivity.
  - (* OIntoIter *)
    unfold with_slot, with_slot_gen. destruct (w_maps w !! s) as [ms|] eqn:Hs; [|right; reflexivity].
    cbn [andb]. pose proof (HW s ms Hs) as HI.
    pose proof (map_into_iter_spec c j (fun r _ => exists l, drain_of (m_rt ms) l /\ r = map elem3 (firstn (N.to_nat j) l)) (fun _ _ => False)
                  (load w ms (t_on t, t_tomb t) (t_perm t, t_qperm t)) HI) as Hd.
    unfold wp in Hd. destruct (map_into_iter j (load w ms (t_on t, t_tomb t) (t_perm t, t_qperm t))) as [a s1|p s1|f].
    + destruct Hd as (l & Hdr & ->); [intros l s' Hdr; exists l; auto|].
      destruct (drain_of_abs c _ _ HI Hdr) as [Hemap Hnd].
      cbn [wres]. unfold step_post. split.
      * intros i m. unfold del_slot, store. cbn [w_maps]. intros H. apply lookup_delete_Some in H as [Hne H].
        rewrite lookup_insert_ne in H by congruence. eapply HW; eauto.
      * rewrite Eop. cbn [spec_rel]. exists (rt_abs (m_rt ms)), l. split; [apply wabs_lookup; exact Hs|].
        split; [exact Hnd|]. split; [exact Hemap|]. split; [reflexivity|]. rewrite wabs_delete, wabs_store. apply delete_insert_delete.
    + exfalso. apply Hd. intros l s' Hdr. exists l; auto.
    + apply Hd. intros l s' Hdr. exists l; auto.
  - (* ORetain *)
    apply wres_rmap. destruct (w_maps w !! s) as [ms|] eqn:Hs; [|apply with_slot_gen_missing; exact Hs].
    pose proof (HW s ms Hs) as HI.
    apply with_slot_gen_spec with (ms := ms); [exact Hs|]. intros _.
    apply (map_retain_spec c keep delta); [exact HI| |].
    + intros l s1 Hit HI1 Habs1. cbn [load s_rt] in *.
      destruct (iter_of_abs c _ _ HI Hit) as [Hemap Hnd].
      unfold step_post. split; [apply WInv_store; assumption|]. rewrite Eop. cbn [spec_rel].
      exists (rt_abs (m_rt ms)), (map snd l). split; [apply wabs_lookup; exact Hs|]. split; [exact Hnd|]. split; [exact Hemap|].
      split; [rewrite map_map; reflexivity|]. rewrite wabs_store. f_equal.
      apply stdpp.fin_maps.map_eq. intros k. rewrite Habs1, lookup_omap. reflexivity.
    + intros s1 HI1. right. split; [reflexivity|apply WInv_store; assumption].
  - (* ODrainFilter *)
    apply wres_rmap. destruct (w_maps w !! s) as [ms|] eqn:Hs; [|apply with_slot_gen_missing; exact Hs].
    pose proof (HW s ms Hs) as HI.
    apply with_slot_gen_spec with (ms := ms); [exact Hs|]. intros _.
    apply (map_drain_filter_spec c take delta j forget); [exact HI| |].
    + intros l v1 rest s1 Hit Hl HI1 Hres Hj. cbn [load s_rt] in *.
      destruct (iter_of_abs c _ _ HI Hit) as [Hemap Hnd].
      unfold step_post. split; [apply WInv_store; assumption|]. rewrite Eop. cbn [spec_rel].
      exists (rt_abs (m_rt ms)), (map snd l), (map snd v1), (map snd rest), (rt_abs (s_rt s1)).
      split; [apply wabs_lookup; exact Hs|]. split; [exact Hnd|]. split; [exact Hemap|].
      split; [rewrite Hl, map_app; reflexivity|]. split; [reflexivity|].
      split. { destruct forget; exact Hres. }
      split. { destruct j as [j|]; [|subst rest; reflexivity]. destruct Hj as [Hj1 Hj2]. split; [exact Hj1|].
               intros Hr. apply Hj2. intros ->. apply Hr. reflexivity. }
      rewrite wabs_store. reflexivity.
    + intros s1 HI1. right. split; [reflexivity|apply WInv_store; assumption].
  - (* OExtend *)
    apply wres_rmap. destruct (w_maps w !! s) as [ms|] eqn:Hs; [|apply with_slot_gen_missing; exact Hs].
    pose proof (HW s ms Hs) as HI.
    apply with_slot_gen_spec with (ms := ms); [exact Hs|]. intros _.
    eapply wp_conseq; [apply (map_extend_spec c items hint); [exact HI|exact Hcore]| |]; cbn [load s_rt].
    + intros [] s1 [HI1 Habs1]. unfold step_post. split; [apply WInv_store; assumption|].
      rewrite Eop. cbn [spec_rel]. exists (rt_abs (m_rt ms)). split; [apply wabs_lookup; exact Hs|]. left.
      split; [reflexivity|]. rewrite wabs_store, Habs1. reflexivity.
    + intros p s1 [HI1 [->| ->]].
      * right. split; [reflexivity|apply WInv_store; assumption].
      * left. split; [discriminate|]. unfold step_post. split; [apply WInv_store; assumption|].
        rewrite Eop. cbn [spec_rel]. exists (rt_abs (m_rt ms)). split; [apply wabs_lookup; exact Hs|]. right.
        split; [reflexivity|]. eexists. apply wabs_store.
  - (* OFromIter *)
    set (w0 := W (<[s := MS rt_new hs hs]> (w_maps w)) (w_log w) (w_fuse w)).
    pose proof (WInv_insert_new w s hs HW) as HW0. fold w0 in HW0.
    assert (Hw0abs : forall x, <[s := x]> (wabs w0) = <[s := x]> (wabs w)).
    { intros x. unfold w0, wabs. cbn [w_maps]. rewrite fmap_insert, insert_insert. reflexivity. }
    apply wres_rmap.
    apply with_slot_gen_spec with (ms := MS rt_new hs hs); [unfold w0; cbn; apply lookup_insert|].
    intros _. cbn [m_hs m_filed]. apply wp_bind. apply hb_with_capacity_spec.
    + intros t0 s1 Hs1 Hem Hn0 Hok Hgl Hcap _ _. wp_steps.
      set (s2 := set_rt _ s1).
      assert (HI2 : Inv R ES (s_rt s2)).
      { unfold s2. cbn [set_rt s_rt]. rewrite Hs1. cbn [load s_rt m_rt lo main]. split; [exact HRpos|]. split; [exact Hok|exact I]. }
      assert (Habs2 : rt_abs (s_rt s2) = ∅).
      { unfold s2, rt_abs. cbn [set_rt s_rt main lo]. rewrite Hs1. cbn [load s_rt m_rt lo]. rewrite Hem. apply (left_id_L ∅ (∪)). }
      eapply wp_conseq; [apply (insert_all_spec c items s2 HI2)| |].
      * intros [] s3 [HI3 Habs3]. unfold step_post. split; [apply WInv_store; assumption|].
        rewrite Eop. cbn [spec_rel]. left. split; [reflexivity|]. rewrite wabs_store, Habs3, Habs2. apply Hw0abs.
      * intros p s3 [HI3 [->| ->]].
        -- right. split; [reflexivity|apply WInv_store; assumption].
        -- left. split; [discriminate|]. unfold step_post. split; [apply WInv_store; assumption|].
           rewrite Eop. cbn [spec_rel]. right. split; [reflexivity|]. eexists. rewrite wabs_store. apply Hw0abs.
    + discriminate.
    + intros _. left. split; [discriminate|]. unfold step_post. split.
      * apply WInv_store; [exact HW0|]. apply Inv_new. exact HRpos.
      * rewrite Eop. cbn [spec_rel]. right. split; [reflexivity|]. eexists. rewrite wabs_store. apply Hw0abs.
  - (* OClone *)
    destruct (w_maps w !! s) as [ms|] eqn:Hs; [|right; reflexivity].
    destruct (negb (m_filed ms =? m_hs ms)); [right; reflexivity|].
    pose proof (HW s ms Hs) as HI.
    pose proof (rt_clone_spec c
      (fun r' s' => s_rt s' = m_rt ms /\ Inv R ES r' /\ rt_abs r' = rt_abs (m_rt ms))
      (fun p s' => p = PUser \/ p = PCapOverflow) (load w ms (t_on t, t_tomb t) (t_perm t, t_qperm t)) HI) as Hc.
    unfold wp in Hc. destruct (rt_clone c (load w ms (t_on t, t_tomb t) (t_perm t, t_qperm t))) as [r' s'|p s'|f].
    + destruct Hc as (Hs' & HI' & Habs'); [intros; auto|auto|].
      cbn [wres]. unfold step_post. split.
      * intros i m. cbn [w_maps]. destruct (N.eq_dec i d) as [->|Hne].
        -- rewrite lookup_insert. intros [= <-]. exact HI'.
        -- rewrite lookup_insert_ne by congruence. apply HW.
      * rewrite Eop. cbn [spec_rel]. exists (rt_abs (m_rt ms)). split; [apply wabs_lookup; exact Hs|]. left.
        split; [eauto|]. unfold wabs. cbn [w_maps]. rewrite fmap_insert. cbn [m_rt]. rewrite Habs'. reflexivity.
    + cbn [wres]. assert (Hp : p = PUser \/ p = PCapOverflow) by (apply Hc; intros; auto).
      assert (HW' : WInv (W (w_maps w) (s_log s') (s_fuse s'))) by (intros i m Hi; cbn [w_maps] in Hi; eapply HW; eauto).
      destruct Hp as [->| ->].
      * right. split; [reflexivity|exact HW'].
      * left. split; [discriminate|]. unfold step_post. split; [exact HW'|].
        rewrite Eop. cbn [spec_rel]. exists (rt_abs (m_rt ms)). split; [apply wabs_lookup; exact Hs|]. right. split; reflexivity.
    + apply Hc; intros; auto.
  - (* OCloneFrom *)
    destruct (w_maps w !! s) as [src|] eqn:Hs; [|right; reflexivity].
    destruct (w_maps w !! d) as [dst|] eqn:Hd; [|right; reflexivity].
    destruct (negb (m_filed src =? m_hs src)); [right; reflexivity|].
    pose proof (HW s src Hs) as HIs. pose proof (HW d dst Hd) as HId.
    pose proof (rt_clone_from_spec c (m_rt src)
      (fun _ s' => Inv R ES (s_rt s') /\ rt_abs (s_rt s') = rt_abs (m_rt src))
      (fun p s' => Inv R ES (s_rt s') /\ (p = PUser \/ p = PCapOverflow))
      (load w dst (t_on t, t_tomb t) (t_perm t, t_qperm t)) HId HIs) as Hc.
    unfold wp in Hc. destruct (rt_clone_from c (m_rt src) (load w dst (t_on t, t_tomb t) (t_perm t, t_qperm t))) as [a s'|p s'|f].
    + destruct Hc as (HI' & Habs'); [intros; auto|intros; auto|].
      cbn [wres]. unfold step_post. split; [apply WInv_store; assumption|].
      rewrite Eop. cbn [spec_rel]. exists (rt_abs (m_rt src)), (rt_abs (m_rt dst)).
      split; [apply wabs_lookup; exact Hs|]. split; [apply wabs_lookup; exact Hd|]. left.
      split; [eauto|]. rewrite wabs_store, Habs'. reflexivity.
    + cbn [wres]. destruct Hc as (HI' & Hp); [intros; auto|intros; auto|].
      destruct Hp as [->| ->].
      * right. split; [reflexivity|apply WInv_store; assumption].
      * left. split; [discriminate|]. unfold step_post. split; [apply WInv_store; assumption|].
        rewrite Eop. cbn [spec_rel]. exists (rt_abs (m_rt src)), (rt_abs (m_rt dst)).
        split; [apply wabs_lookup; exact Hs|]. split; [apply wabs_lookup; exact Hd|]. right.
        split; [reflexivity|]. eexists. apply wabs_store.
    + apply Hc; intros; auto.
  - (* OEq *)
    destruct (w_maps w !! b) as [mb|] eqn:Hb; [|right; reflexivity].
    apply wres_rmap. destruct (w_maps w !! a) as [ma|] eqn:Ha; [|apply with_slot_gen_missing; exact Ha].
    pose proof (HW a ma Ha) as HIa. pose proof (HW b mb Hb) as HIb.
    apply with_slot_gen_spec with (ms := ma); [exact Ha|]. intros _.
    apply (map_equal_spec c (m_rt mb)); [exact HIa|exact HIb| |].
    + intros bb s1 Hs1 Hbb. cbn [load s_rt] in *. unfold step_post. split; [apply WInv_store; [exact HW|rewrite Hs1; exact HIa]|].
      rewrite Eop. cbn [spec_rel]. exists (rt_abs (m_rt ma)), (rt_abs (m_rt mb)).
      split; [apply wabs_lookup; exact Ha|]. split; [apply wabs_lookup; exact Hb|].
      split; [exists bb; auto|]. apply store_same; assumption.
    + intros s1 Hs1. right. split; [reflexivity|]. apply WInv_store; [exact HW|rewrite Hs1; exact HIa].
  - (* ODrop *)
    unfold with_slot, with_slot_gen. destruct (w_maps w !! s) as [ms|] eqn:Hs; [|right; reflexivity].
    cbn [andb].
    assert (Hd : wp map_drop (fun _ _ => True) (fun _ _ => False) (load w ms (t_on t, t_tomb t) (t_perm t, t_qperm t))).
    { unfold map_drop. wp_steps. apply frame0_use; [apply frame0_drop_elems|]. intros [] s1 _.
      apply wp_bind. apply frame0_use; [apply frame0_hb_free|]. intros [] s2 _.
      apply wp_bind. destruct (lo (s_rt (load w ms (t_on t, t_tomb t) (t_perm t, t_qperm t)))) as [o|].
      - apply wp_bind. apply frame0_use; [apply frame0_drop_elems|]. intros [] s3 _.
        apply frame0_use; [apply frame0_tick|]. intros [] s4 _. wp_steps. exact I.
      - wp_steps. exact I. }
    unfold wp in Hd. destruct (map_drop (load w ms (t_on t, t_tomb t) (t_perm t, t_qperm t))) as [a s1|p s1|f]; [|contradiction|exact Hd].
    cbn [wres]. unfold step_post. split.
    + intros j m. unfold del_slot, store. cbn [w_maps]. intros H. apply lookup_delete_Some in H as [Hne H].
      rewrite lookup_insert_ne in H by congruence. eapply HW; eauto.
    + rewrite Eop. cbn [spec_rel]. split; [reflexivity|]. rewrite wabs_delete, wabs_store. apply delete_insert_delete.
  - (* OEntry *)
    apply wres_rmap. destruct (w_maps w !! s) as [ms|] eqn:Hs; [|apply with_slot_gen_missing; exact Hs].
    pose proof (HW s ms Hs) as HI.
    apply with_slot_gen_spec with (ms := ms); [exact Hs|]. intros _.
    eapply wp_conseq; [apply (map_entry_spec c k kid steps); exact HI| |]; cbn [load s_rt].
    + intros outs s1 (HI1 & a' & Hch). unfold step_post. split; [apply WInv_store; assumption|].
      rewrite Eop. cbn [spec_rel]. exists (rt_abs (m_rt ms)). split; [apply wabs_lookup; exact Hs|]. right.
      rewrite Hch. split; [reflexivity|apply wabs_store].
    + intros p s1 (HI1 & Hp). destruct Hp as [->|[->|[-> Hch]]].
      * right. split; [reflexivity|apply WInv_store; assumption].
      * left. split; [discriminate|]. unfold step_post. split; [apply WInv_store; assumption|].
        rewrite Eop. cbn [spec_rel]. exists (rt_abs (m_rt ms)). split; [apply wabs_lookup; exact Hs|]. left.
        split; [reflexivity|]. eexists. apply wabs_store.
      * left. split; [discriminate|]. unfold step_post. split; [apply WInv_store; assumption|].
        rewrite Eop. cbn [spec_rel]. exists (rt_abs (m_rt ms)). split; [apply wabs_lookup; exact Hs|]. right.
        rewrite Hch. split; [reflexivity|apply wabs_store].
  - (* ORawEntry *)
    apply wres_rmap. destruct (w_maps w !! s) as [ms|] eqn:Hs; [|apply with_slot_gen_missing; exact Hs].
    pose proof (HW s ms Hs) as HI.
    apply with_slot_gen_spec with (ms := ms); [exact Hs|]. intros _.
    eapply wp_conseq; [apply (map_raw_entry_spec c variant k steps); exact HI| |]; cbn [load s_rt].
    + intros outs s1 (HI1 & a' & Hch). unfold step_post. split; [apply WInv_store; assumption|].
      rewrite Eop. cbn [spec_rel]. exists (rt_abs (m_rt ms)). split; [apply wabs_lookup; exact Hs|]. right.
      rewrite Hch. split; [reflexivity|apply wabs_store].
    + intros p s1 (HI1 & Hp). destruct Hp as [->|[->|[-> Hch]]].
      * right. split; [reflexivity|apply WInv_store; assumption].
      * left. split; [discriminate|]. unfold step_post. split; [apply WInv_store; assumption|].
        rewrite Eop. cbn [spec_rel]. exists (rt_abs (m_rt ms)). split; [apply wabs_lookup; exact Hs|]. left.
        split; [reflexivity|]. eexists. apply wabs_store.
      * left. split; [discriminate|]. unfold step_post. split; [apply WInv_store; assumption|].
        rewrite Eop. cbn [spec_rel]. exists (rt_abs (m_rt ms)). split; [apply wabs_lookup; exact Hs|]. right.
        rewrite Hch. split; [reflexivity|apply wabs_store].
  - (* ORawGet *)
    destruct (w_maps w !! s) as [ms|] eqn:Hs; [|apply with_slot_gen_missing; exact Hs].
    pose proof (HW s ms Hs) as HI.
    apply with_slot_gen_spec with (ms := ms); [exact Hs|]. intros _.
    eapply wp_conseq; [apply (map_raw_get_spec c variant k); exact HI| |]; cbn [load s_rt].
    + intros o s1 (Hs1 & ->). unfold step_post. split; [apply WInv_store; [exact HW|rewrite Hs1; exact HI]|].
      rewrite Eop. cbn [spec_rel]. exists (rt_abs (m_rt ms)). split; [apply wabs_lookup; exact Hs|].
      split; [reflexivity|]. apply store_same; assumption.
    + intros p s1 (Hs1 & ->). right. split; [reflexivity|]. apply WInv_store; [exact HW|rewrite Hs1; exact HI].
  - (* OSetAlg *)
    destruct (w_maps w !! a) as [ma|] eqn:Ea; [|right; reflexivity]. destruct (w_maps w !! b) as [mb|] eqn:Eb; [|right; reflexivity].
    destruct (_ || _); [right; reflexivity|]. cbn [wres]. unfold step_post. split; [exact HW|].
    rewrite Eop. cbn [spec_rel]. exists (rt_abs (m_rt ma)), (rt_abs (m_rt mb)).
    split; [apply wabs_lookup, Ea|]. split; [apply wabs_lookup, Eb|]. split; [reflexivity|].
    pose proof (HW a ma Ea) as Ia. pose proof (HW b mb Eb) as Ib. unfold set_alg, alg_kind. destruct (kind <? 4); [|destruct (kind <? 8)].
    + eexists. split; [reflexivity|]. apply (s_alg_spec c); assumption.
    + eexists. split; [reflexivity|]. pose proof (s_alg_spec c (kind - 4) _ _ Ia Ib) as Hok.
      eapply alg_ok_perm; [apply collect_perm; apply Hok|exact Hok].
    + eexists. split; [reflexivity|]. apply (s_alg_par_spec c); assumption.
  - (* OSetPred *)
    destruct (w_maps w !! a) as [ma|] eqn:Ea; [|right; reflexivity]. destruct (w_maps w !! b) as [mb|] eqn:Eb; [|right; reflexivity].
    destruct (_ || _); [right; reflexivity|]. cbn [wres]. unfold step_post. split; [exact HW|].
    rewrite Eop. cbn [spec_rel]. exists (rt_abs (m_rt ma)), (rt_abs (m_rt mb)).
    split; [apply wabs_lookup, Ea|]. split; [apply wabs_lookup, Eb|]. split; [reflexivity|].
    pose proof (HW a ma Ea) as Ia. pose proof (HW b mb Eb) as Ib. eexists. split; [reflexivity|].
    assert (Hpe : forall x y, Inv R ES x -> Inv R ES y ->
              (rt_len x =? rt_len y) && s_par_is_subset x y = true <-> (forall k, is_Some (rt_abs x !! k) <-> is_Some (rt_abs y !! k))).
    { intros x y Hx Hy. rewrite <- (s_eq_spec c x y Hx Hy). unfold s_eq, s_par_is_subset. reflexivity. }
    unfold set_pred, pred_math, pred_kind.
    destruct kind as [|[[[p|p|]|[p|p|]|]|[[p|p|]|[p|p|]|]|]]; cbn;
      first [apply (s_is_disjoint_spec c); assumption | apply (s_is_subset_spec c); assumption | apply (s_eq_spec c); assumption
            | apply (s_par_is_subset_spec c); assumption | apply Hpe; assumption].
  - (* OParIter *)
    apply wres_rmap. destruct (w_maps w !! s) as [ms|] eqn:Hs; [|apply with_slot_gen_missing; exact Hs].
    pose proof (HW s ms Hs) as HI.
    apply with_slot_gen_spec with (ms := ms); [exact Hs|]. intros _.
    unfold wp. rewrite map_par_iter_eq. fold (wp (map_iter delta)
      (fun a s' => step_post w t (OutL (foldr insert_sorted [] a)) (store w s (m_hs ms) (m_filed ms) s'))
      (fun p s' => step_U w t p (store w s (m_hs ms) (m_filed ms) s')) (load w ms (t_on t, t_tomb t) (t_perm t, t_qperm t))).
    apply (map_iter_spec c delta); [exact HI|]. intros l s1 Hit HI1 Habs1. cbn [load s_rt] in *.
    destruct (iter_of_abs c _ _ HI Hit) as [Hemap Hnd].
    unfold step_post. split; [apply WInv_store; assumption|]. rewrite Eop. cbn [spec_rel].
    exists (rt_abs (m_rt ms)), (map snd l). split; [apply wabs_lookup; exact Hs|]. split; [exact Hnd|]. split; [exact Hemap|].
    split; [rewrite map_map; reflexivity|]. rewrite wabs_store, Habs1. reflexivity.
  - (* OParExtend *)
    apply wres_rmap. destruct (w_maps w !! s) as [ms|] eqn:Hs; [|apply with_slot_gen_missing; exact Hs].
    pose proof (HW s ms Hs) as HI.
    apply with_slot_gen_spec with (ms := ms); [exact Hs|]. intros _.
    eapply wp_conseq; [apply (map_par_extend_spec c chunks); [exact HI|exact Hcore]| |]; cbn [load s_rt].
    + intros [] s1 [HI1 Habs1]. unfold step_post. split; [apply WInv_store; assumption|].
      rewrite Eop. cbn [spec_rel]. exists (rt_abs (m_rt ms)). split; [apply wabs_lookup; exact Hs|]. left.
      split; [reflexivity|]. rewrite wabs_store, Habs1. reflexivity.
    + intros p s1 [HI1 [->| ->]].
      * right. split; [reflexivity|apply WInv_store; assumption].
      * left. split; [discriminate|]. unfold step_post. split; [apply WInv_store; assumption|].
        rewrite Eop. cbn [spec_rel]. exists (rt_abs (m_rt ms)). split; [apply wabs_lookup; exact Hs|]. right.
        split; [reflexivity|]. eexists. apply wabs_store.
  - (* OSerialize *)
    apply wres_rmap. destruct (w_maps w !! s) as [ms|] eqn:Hs; [|apply with_slot_gen_missing; exact Hs].
    pose proof (HW s ms Hs) as HI.
    apply with_slot_gen_spec with (ms := ms); [exact Hs|]. intros _.
    apply (map_serialize_spec c); [exact HI|]. intros l Hit. cbn [load s_rt fst snd] in *.
    destruct (iter_of_abs c _ _ HI Hit) as [Hemap Hnd].
    unfold step_post. split; [apply WInv_store; [exact HW|exact HI]|]. rewrite Eop. cbn [spec_rel].
    exists (rt_abs (m_rt ms)), (map snd l). split; [apply wabs_lookup; exact Hs|]. split; [exact Hnd|]. split; [exact Hemap|].
    split; [rewrite map_length, map_map; reflexivity|]. apply store_same; [exact Hs|reflexivity].
  - (* ODeserInPlace *)
    apply wres_rmap. destruct (w_maps w !! s) as [ms|] eqn:Hs; [|apply with_slot_gen_missing; exact Hs].
    pose proof (HW s ms Hs) as HI.
    apply with_slot_gen_spec with (ms := ms); [exact Hs|]. intros _.
    eapply wp_conseq; [apply (map_deser_in_place_spec c items hint); exact HI| |]; cbn [load s_rt].
    + intros [] s1 [HI1 Habs1]. unfold step_post. split; [apply WInv_store; assumption|].
      rewrite Eop. cbn [spec_rel]. exists (rt_abs (m_rt ms)). split; [apply wabs_lookup; exact Hs|]. left.
      split; [reflexivity|]. rewrite wabs_store, Habs1. reflexivity.
    + intros p s1 [HI1 [->| ->]].
      * right. split; [reflexivity|apply WInv_store; assumption].
      * left. split; [discriminate|]. unfold step_post. split; [apply WInv_store; assumption|].
        rewrite Eop. cbn [spec_rel]. exists (rt_abs (m_rt ms)). split; [apply wabs_lookup; exact Hs|]. right.
        split; [reflexivity|]. eexists. apply wabs_store.
Qed.

(* ------------------------------------------------------------------ without a fuse, no user panic *)

Definition wnf {A} (r : res world A) : Prop :=
  match r with
  | Ok _ w' => w_fuse w' = None
  | Unwind p w' => p <> PUser /\ w_fuse w' = None
  | Fault _ => True
  end.

Lemma with_slot_gen_nf {A} h w i on perm (m : M' A) :
  nf m -> w_fuse w = None -> wnf (with_slot_gen h w i on perm m).
Proof.
  intros Hm Hf. unfold with_slot_gen. destruct (w_maps w !! i) as [ms|]; [|exact I].
  destruct (h && _); [exact I|]. specialize (Hm (load w ms on perm)). unfold wpp in Hm.
  destruct (m (load w ms on perm)) as [a s'|p s'|f]; cbn; [| |exact I].
  - apply Hm. exact Hf.
  - destruct (Hm Hf). auto.
Qed.

Lemma wnf_rmap {A B} (f : A -> B) r : wnf r -> wnf (rmap f r).
Proof. destruct r; exact (fun H => H). Qed.

Theorem step_core_nofuse w t :
  core_op (t_op t) -> w_fuse w = None -> wnf (step c w t).
Proof.
  intros Hcore Hf. unfold step. destruct (t_op t) eqn:Eop; cbn [core_op] in Hcore; try contradiction.
  - apply with_slot_gen_nf; [|exact Hf].
    apply nf_bind; [apply (nf_of_cost _ _ (cost_hb_with_capacity c false cap))|]. intros [t0|]; [|apply nf_fault].
    apply nf_bind; [apply (nf_of_cost dz), cost_setm|intros _; apply nf_ret].
  - apply wnf_rmap. apply with_slot_gen_nf; [|exact Hf]. apply (nf_of_cost _ _ (cost_map_insert c k kid v)).
  - apply with_slot_gen_nf; [|exact Hf]. apply (nf_of_cost _ _ (cost_map_get _ _ _)).
  - apply with_slot_gen_nf; [|exact Hf].
    apply nf_bind; [apply (nf_of_cost _ _ (cost_map_remove_entry c k))|]. intros [e|]; [|apply nf_ret].
    destruct entry; [apply nf_ret|]. apply nf_bind; [apply (nf_of_cost dz), cost_drop_key|intros _; apply nf_ret].
  - apply wnf_rmap. apply with_slot_gen_nf; [|exact Hf]. apply nf_rt_clear.
  - apply wnf_rmap. apply with_slot_gen_nf; [|exact Hf]. apply nf_rt_reserve.
  - apply wnf_rmap. apply with_slot_gen_nf; [|exact Hf]. apply nf_rt_reserve.
  - apply wnf_rmap. apply with_slot_gen_nf; [|exact Hf]. apply nf_rt_shrink_to.
  - apply wnf_rmap. apply with_slot_gen_nf; [|exact Hf]. apply nf_map_iter.
  - apply wnf_rmap. apply with_slot_gen_nf; [|exact Hf]. apply nf_map_drain.
  - pose proof (with_slot_gen_nf false w s (t_on t, t_tomb t) (t_perm t, t_qperm t) (map_into_iter j) (nf_map_into_iter j) Hf) as H.
    unfold with_slot. destruct (with_slot_gen false w s (t_on t, t_tomb t) (t_perm t, t_qperm t) (map_into_iter j)); exact H.
  - apply wnf_rmap. apply with_slot_gen_nf; [|exact Hf]. apply nf_map_retain.
  - apply wnf_rmap. apply with_slot_gen_nf; [|exact Hf]. apply nf_map_drain_filter.
  - apply wnf_rmap. apply with_slot_gen_nf; [|exact Hf]. apply nf_map_extend.
  - apply wnf_rmap. apply with_slot_gen_nf; [|exact Hf].
    apply nf_bind; [apply (nf_of_cost _ _ (cost_hb_with_capacity c false hint))|]. intros [t0|]; [|apply nf_bind; [apply nf_fault|intros _; apply nf_insert_all]].
    apply nf_bind; [apply (nf_of_cost dz), cost_setm|intros _; apply nf_insert_all].
  - (* OClone *)
    destruct (w_maps w !! s) as [ms|]; [|exact I]. destruct (negb _); [exact I|].
    pose proof (nf_rt_clone c (load w ms (t_on t, t_tomb t) (t_perm t, t_qperm t))) as H. unfold wpp, fq, fu in H.
    destruct (rt_clone c (load w ms (t_on t, t_tomb t) (t_perm t, t_qperm t))) as [r' s'|p s'|f]; cbn [wnf w_fuse]; [apply H; exact Hf| |exact I].
    destruct (H Hf). auto.
  - (* OCloneFrom *)
    destruct (w_maps w !! s) as [src|]; [|exact I]. destruct (w_maps w !! d) as [dst|]; [|exact I]. destruct (negb _); [exact I|].
    pose proof (nf_rt_clone_from c (m_rt src) (load w dst (t_on t, t_tomb t) (t_perm t, t_qperm t))) as H. unfold wpp, fq, fu in H.
    destruct (rt_clone_from c (m_rt src) (load w dst (t_on t, t_tomb t) (t_perm t, t_qperm t))) as [r' s'|p s'|f]; cbn [wnf w_fuse store]; [apply H; exact Hf| |exact I].
    destruct (H Hf). auto.
  - (* OEq *)
    destruct (w_maps w !! b) as [mb|]; [|exact I]. apply wnf_rmap. apply with_slot_gen_nf; [|exact Hf]. apply nf_map_equal.
  - pose proof (with_slot_gen_nf false w s (t_on t, t_tomb t) (t_perm t, t_qperm t) map_drop nf_map_drop Hf) as H.
    unfold with_slot. destruct (with_slot_gen false w s (t_on t, t_tomb t) (t_perm t, t_qperm t) map_drop); exact H.
  - apply wnf_rmap. apply with_slot_gen_nf; [|exact Hf]. apply (nf_of_cost _ _ (cost_map_entry c k kid steps)).
  - apply wnf_rmap. apply with_slot_gen_nf; [|exact Hf]. apply (nf_of_cost _ _ (cost_map_raw_entry c variant k steps)).
  - apply with_slot_gen_nf; [|exact Hf]. apply (nf_of_cost _ _ (cost_map_raw_get variant k)).
  - destruct (w_maps w !! a) as [ma|]; [|exact I]. destruct (w_maps w !! b) as [mb|]; [|exact I]. destruct (_ || _); [exact I|exact Hf].
  - destruct (w_maps w !! a) as [ma|]; [|exact I]. destruct (w_maps w !! b) as [mb|]; [|exact I]. destruct (_ || _); [exact I|exact Hf].
  - apply wnf_rmap. apply with_slot_gen_nf; [|exact Hf]. apply nf_map_par_iter.
  - apply wnf_rmap. apply with_slot_gen_nf; [|exact Hf]. apply nf_map_par_extend.
  - apply wnf_rmap. apply with_slot_gen_nf; [|exact Hf]. apply nf_map_serialize.
  - apply wnf_rmap. apply with_slot_gen_nf; [|exact Hf]. apply nf_map_deser_in_place.
Qed.

(* ------------------------------------------------------------------ histories *)

(* the reference run: every recorded outcome is one the reference allows; an injected user
   panic (only possible under a fuse) leaves the reference free (C07 says what holds then) *)
Inductive spec_runs : gmap N (gmap N elem) -> list op -> list out -> gmap N (gmap N elem) -> Prop :=
| sr_nil σ : spec_runs σ [] [] σ
| sr_cons σ o r σ1 os rs σ2 :
    spec_rel σ o r σ1 -> spec_runs σ1 os rs σ2 -> spec_runs σ (o :: os) (r :: rs) σ2
| sr_user σ o σ1 os rs σ2 :
    spec_runs σ1 os rs σ2 -> spec_runs σ (o :: os) (OutP PUser :: rs) σ2.

Lemma step_caught_core w t :
  WInv w -> core_op (t_op t) ->
  match step_caught c w t with
  | inl (w', o) => WInv w' /\ (spec_rel (wabs w) (t_op t) o (wabs w') \/ o = OutP PUser)
  | inr f => benign f
  end.
Proof.
  intros HW Hc. pose proof (step_core w t HW Hc) as H. unfold step_caught.
  destruct (step c w t) as [o w'|p w'|f]; cbn [wres] in H.
  - destruct H as [H1 H2]. auto.
  - destruct H as [[Hp [H1 H2]]|[-> H1]]; auto.
  - exact H.
Qed.

Theorem run_core : forall ts w acc,
  WInv w -> Forall core_op (map t_op ts) ->
  match run c w ts acc with
  | inl (w', outs) =>
      WInv w' /\ exists rs, outs = acc ++ rs /\ spec_runs (wabs w) (map t_op ts) rs (wabs w')
  | inr f => benign f
  end.
Proof.
  induction ts as [|t ts IH]; intros w acc HW Hall; cbn [run].
  - split; [exact HW|]. exists []. split; [rewrite app_nil_r; reflexivity|constructor].
  - cbn [map] in Hall. apply Forall_cons in Hall as [Hc Hall].
    pose proof (step_caught_core w t HW Hc) as Hs. destruct (step_caught c w t) as [[w1 o]|f]; [|exact Hs].
    destruct Hs as [HW1 Hrel]. specialize (IH w1 (acc ++ [o]) HW1 Hall).
    destruct (run c w1 ts (acc ++ [o])) as [[w2 outs]|f]; [|exact IH].
    destruct IH as (HW2 & rs & -> & Hruns). split; [exact HW2|]. exists (o :: rs).
    split; [rewrite <- app_assoc; reflexivity|]. cbn [map].
    destruct Hrel as [Hrel| ->]; [eapply sr_cons; eauto|eapply sr_user; eauto].
Qed.


(* without a fuse the reference predicts every outcome: no user panic, no undocumented panic *)
Inductive spec_runs0 : gmap N (gmap N elem) -> list op -> list out -> gmap N (gmap N elem) -> Prop :=
| sr0_nil σ : spec_runs0 σ [] [] σ
| sr0_cons σ o r σ1 os rs σ2 :
    spec_rel σ o r σ1 -> spec_runs0 σ1 os rs σ2 -> spec_runs0 σ (o :: os) (r :: rs) σ2.

Theorem run_core_nofuse : forall ts w acc,
  WInv w -> w_fuse w = None -> Forall core_op (map t_op ts) ->
  match run c w ts acc with
  | inl (w', outs) =>
      WInv w' /\ w_fuse w' = None /\ exists rs, outs = acc ++ rs /\ spec_runs0 (wabs w) (map t_op ts) rs (wabs w')
  | inr f => benign f
  end.
Proof.
  induction ts as [|t ts IH]; intros w acc HW Hfz Hall; cbn [run].
  - split; [exact HW|]. split; [exact Hfz|]. exists []. split; [rewrite app_nil_r; reflexivity|constructor].
  - cbn [map] in Hall. apply Forall_cons in Hall as [Hc Hall].
    pose proof (step_core w t HW Hc) as Hs. pose proof (step_core_nofuse w t Hc Hfz) as Hn.
    unfold step_caught. destruct (step c w t) as [o w1|p w1|f]; cbn [wres wnf] in Hs, Hn; [| |exact Hs].
    + destruct Hs as [HW1 Hrel]. specialize (IH w1 (acc ++ [o]) HW1 Hn Hall).
      destruct (run c w1 ts (acc ++ [o])) as [[w2 outs]|f]; [|exact IH].
      destruct IH as (HW2 & Hf2 & rs & -> & Hruns). split; [exact HW2|]. split; [exact Hf2|]. exists (o :: rs).
      split; [rewrite <- app_assoc; reflexivity|]. cbn [map]. eapply sr0_cons; eauto.
    + destruct Hn as [Hp Hf1]. destruct Hs as [[_ [HW1 Hrel]]|[-> _]]; [|congruence].
      specialize (IH w1 (acc ++ [OutP p]) HW1 Hf1 Hall).
      destruct (run c w1 ts (acc ++ [OutP p])) as [[w2 outs]|f]; [|exact IH].
      destruct IH as (HW2 & Hf2 & rs & -> & Hruns). split; [exact HW2|]. split; [exact Hf2|]. exists (OutP p :: rs).
      split; [rewrite <- app_assoc; reflexivity|]. cbn [map]. eapply sr0_cons; eauto.
Qed.

End World.
