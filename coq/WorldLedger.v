(* WorldLedger.v — C06 at the level of histories: over any panic-free history of the operations
   listed in [ledger_op], every key object ever moved into a map is, at the end, still stored in
   some map, or in the drop ledger, or was handed back to the caller - exactly once. *)
From stdpp Require Import gmap list.
From Coq Require Import NArith Lia.
From G Require Import Arith Monad Types Inv Raw RawProofs Map MapProofs IterProofs CloneProofs EntryProofs SetProofs Ledger Conserve EntryLedger WorldProofs.
Local Open Scope N_scope.

Definition held_of (M : gmap N mslot) : list N := concat (map (fun p => kidsE (m_rt (snd p))) (map_to_list M)).
Definition wheld (w : world) : list N := held_of (w_maps w).
Definition wdks (w : world) : list N := l_dk (w_log w).

Lemma held_of_insert_new (M : gmap N mslot) i ms :
  M !! i = None -> held_of (<[i := ms]> M) ≡ₚ kidsE (m_rt ms) ++ held_of M.
Proof. intros H. unfold held_of. rewrite map_to_list_insert by exact H. reflexivity. Qed.
Lemma held_of_delete (M : gmap N mslot) i ms :
  M !! i = Some ms -> kidsE (m_rt ms) ++ held_of (delete i M) ≡ₚ held_of M.
Proof. intros H. unfold held_of. rewrite <- (map_to_list_delete M i ms H). reflexivity. Qed.
Lemma held_of_insert (M : gmap N mslot) i ms ms' :
  M !! i = Some ms -> held_of (<[i := ms']> M) ++ kidsE (m_rt ms) ≡ₚ kidsE (m_rt ms') ++ held_of M.
Proof.
  intros H. rewrite <- (insert_delete_insert M), held_of_insert_new by apply lookup_delete.
  rewrite <- (held_of_delete M i ms H). rewrite <- !app_assoc. apply Permutation_app_head. apply Permutation_app_comm.
Qed.

Section WorldLedger.
Context (c : cfg) (HRpos : 0 < cR c).
Notation R := (cR c).
Notation ES := (cesz c).

(* a call on one slot that conserves key objects at the level of its own state conserves them at
   the level of the world *)
Lemma lift_slot {A} h w i on perm (m : M' A) a w' (ink : list N) (outk : A -> list N) :
  with_slot_gen h w i on perm m = Ok a w' ->
  (forall ms s', w_maps w !! i = Some ms -> m (load w ms on perm) = Ok a s' ->
     dks s' ++ kidsE (s_rt s') ++ outk a ≡ₚ ink ++ l_dk (w_log w) ++ kidsE (m_rt ms)) ->
  wdks w' ++ wheld w' ++ outk a ≡ₚ ink ++ wdks w ++ wheld w.
Proof.
  intros E H. unfold with_slot_gen in E. destruct (w_maps w !! i) as [ms|] eqn:Ei; [|discriminate].
  destruct (h && _); [discriminate|]. destruct (m (load w ms on perm)) as [a' s'|p s'|f] eqn:Em; [|discriminate|discriminate].
  injection E as -> <-. specialize (H ms s' eq_refl Em).
  unfold wdks, wheld, store. cbn [w_log w_maps]. fold (dks s').
  pose proof (held_of_insert (w_maps w) i ms (MS (s_rt s') (m_hs ms) (m_filed ms)) Ei) as Hh. cbn [m_rt] in Hh.
  (* dks s' ++ held' ++ out  where  held' ++ kidsE ms ≡ kidsE s' ++ held *)
  apply (Permutation_app_inv_r (kidsE (m_rt ms))).
  transitivity (dks s' ++ (held_of (<[i:=MS (s_rt s') (m_hs ms) (m_filed ms)]> (w_maps w)) ++ kidsE (m_rt ms)) ++ outk a).
  { rewrite <- !app_assoc. apply Permutation_app_head. apply Permutation_app_head. apply Permutation_app_comm. }
  rewrite Hh. transitivity ((dks s' ++ kidsE (s_rt s') ++ outk a) ++ held_of (w_maps w)).
  { rewrite <- !app_assoc. apply Permutation_app_head. apply Permutation_app_head. apply Permutation_app_comm. }
  rewrite H. rewrite <- !app_assoc. apply Permutation_app_head. apply Permutation_app_head. apply Permutation_app_comm.
Qed.

Lemma lift_slot0 {A} h w i on perm (m : M' A) a w' :
  with_slot_gen h w i on perm m = Ok a w' ->
  (forall ms s', w_maps w !! i = Some ms -> m (load w ms on perm) = Ok a s' ->
     dks s' ++ kidsE (s_rt s') ≡ₚ l_dk (w_log w) ++ kidsE (m_rt ms)) ->
  wdks w' ++ wheld w' ≡ₚ wdks w ++ wheld w.
Proof.
  intros E H. pose proof (lift_slot h w i on perm m a w' [] (fun _ => []) E) as L. cbn [app] in L.
  rewrite !app_nil_r in L. apply L. intros ms s' H1 H2. rewrite app_nil_r. apply H; assumption.
Qed.

(* the same when the slot is deleted afterwards (drop, into_iter): it held nothing any more *)
Lemma lift_slot_del {A} h w i on perm (m : M' A) a w' (ink : list N) (outk : A -> list N) :
  with_slot_gen h w i on perm m = Ok a w' ->
  (forall ms s', w_maps w !! i = Some ms -> m (load w ms on perm) = Ok a s' ->
     kidsE (s_rt s') = [] /\ dks s' ++ kidsE (s_rt s') ++ outk a ≡ₚ ink ++ l_dk (w_log w) ++ kidsE (m_rt ms)) ->
  wdks (del_slot i w') ++ wheld (del_slot i w') ++ outk a ≡ₚ ink ++ wdks w ++ wheld w.
Proof.
  intros E H. pose proof E as E0. unfold with_slot_gen in E. destruct (w_maps w !! i) as [ms|] eqn:Ei; [|discriminate].
  destruct (h && _); [discriminate|]. destruct (m (load w ms on perm)) as [a' s'|p s'|f] eqn:Em; [|discriminate|discriminate].
  injection E as -> <-. destruct (H ms s' eq_refl Em) as [Hnil H2].
  rewrite <- (lift_slot h w i on perm m a _ ink outk E0 (fun ms0 s0 H0 H1 => proj2 (H ms0 s0 (eq_trans (eq_sym Ei) H0) H1))).
  unfold wdks, wheld, del_slot, store. cbn [w_log w_maps]. apply Permutation_app_head. apply Permutation_app_tail.
  rewrite delete_insert_delete.
  rewrite <- (held_of_delete (<[i:=MS (s_rt s') (m_hs ms) (m_filed ms)]> (w_maps w)) i (MS (s_rt s') (m_hs ms) (m_filed ms))) by apply lookup_insert.
  cbn [m_rt]. rewrite Hnil, delete_insert_delete. reflexivity.
Qed.

Lemma store_conserves w i ms hs fl s' (ink : list N) :
  w_maps w !! i = Some ms ->
  dks s' ++ kidsE (s_rt s') ≡ₚ ink ++ l_dk (w_log w) ++ kidsE (m_rt ms) ->
  wdks (store w i hs fl s') ++ wheld (store w i hs fl s') ≡ₚ ink ++ wdks w ++ wheld w.
Proof.
  intros Ei H. unfold wdks, wheld, store. cbn [w_log w_maps]. fold (dks s').
  pose proof (held_of_insert (w_maps w) i ms (MS (s_rt s') hs fl) Ei) as Hh. cbn [m_rt] in Hh.
  apply (Permutation_app_inv_r (kidsE (m_rt ms))). rewrite <- app_assoc, Hh.
  rewrite (app_assoc (dks s')), H. rewrite <- !app_assoc. apply Permutation_app_head. apply Permutation_app_head. apply Permutation_app_comm.
Qed.

(* ---------------------------------------------------------------- the operations covered *)
Definition ledger_op (o : op) : Prop :=
  match o with
  | ONew _ _ _ | OInsert _ _ _ _ | OGet _ _ _ _ | ORemove _ _ _ | OClear _ | OShrinkTo _ _ | ODrop _ | OIter _ _ _
  | ORetain _ _ _ | OIntoIter _ _ | ODrainFilter _ _ _ _ _ | OFromIter _ _ _ _
  | OClone _ _ | OCloneFrom _ _ | OEq _ _ | ORawGet _ _ _ | OSetAlg _ _ _ | OSetPred _ _ _ | OParIter _ _ _ _ | OSerialize _ => True
  | OParExtend _ chunks => N.of_nat (length (concat chunks)) < usize_max
  | ODeserInPlace _ _ _ | ORawEntry _ _ _ _ => True
  | OEntry _ _ _ ss => forallb (fun st => negb (raw_only st)) ss = true
  | ODrain _ _ forget => forget = false
  | OReserve _ n | OTryReserve _ n => n <= usize_max
  | OExtend _ _ hint => hint <= usize_max
  end.
(* key objects the caller hands to the call / the call hands back to the caller *)
Definition slot_kids (w : world) (s : N) : list N :=
  match w_maps w !! s with Some ms => kidsE (m_rt ms) | None => [] end.
(* (clone and clone_from make a copy of every key object of the source: the copies enter here) *)
Definition slot_abs (w : world) (s : N) : gmap N elem :=
  match w_maps w !! s with Some ms => rt_abs (m_rt ms) | None => ∅ end.
Definition k_in (w : world) (o : op) : list N :=
  match o with
  | OEntry s k kid ss => kid :: chain_kin false (slot_abs w s) (start_ent (slot_abs w s) k (Some kid)) ss
  | ORawEntry s _ k ss => chain_kin true (slot_abs w s) (start_ent (slot_abs w s) k None) ss
  | OInsert _ _ kid _ => [kid]
  | OExtend _ items _ | OFromIter _ _ items _ | ODeserInPlace _ items _ => kids_of items
  | OParExtend _ chunks => kids_of (concat chunks)
  | OClone s _ | OCloneFrom _ s => slot_kids w s
  | _ => []
  end.
Definition k_out (o : op) (r : out) : list N :=
  match o, r with
  | ORemove _ true _, OutOKV (Some (kid, _)) => [kid]
  | ODrain _ _ _, OutL l | OIntoIter _ _, OutL l | ODrainFilter _ _ _ _ _, OutL l => kids3 l
  | OEntry _ _ _ ss, OutS outs | ORawEntry _ _ _ ss, OutS outs => chain_kout ss outs
  | _, _ => []
  end.
(* creating a map in a slot that still holds one would forget the old one: not a lawful history *)
Definition fresh_ok (w : world) (o : op) : Prop :=
  match o with ONew s _ _ | OFromIter s _ _ _ | OClone _ s => w_maps w !! s = None | _ => True end.

Lemma rmap_ok {A B} (f : A -> B) (x : res world A) r w' :
  rmap f x = Ok r w' -> exists a, x = Ok a w' /\ r = f a.
Proof. destruct x; cbn; intros E; try discriminate. injection E as <- <-. eauto. Qed.

Theorem step_conserves w t r w' :
  WInv c w -> ledger_op (t_op t) -> fresh_ok w (t_op t) -> step c w t = Ok r w' ->
  wdks w' ++ wheld w' ++ k_out (t_op t) r ≡ₚ k_in w (t_op t) ++ wdks w ++ wheld w.
Proof.
  intros HW Hop Hfresh E. unfold step in E. destruct (t_op t) eqn:Eop; cbn [ledger_op] in Hop; try contradiction;
    cbn [k_in k_out fresh_ok] in *; unfold slot_kids, slot_abs.
  - (* ONew *)
    set (w0 := W (<[s := MS rt_new hs hs]> (w_maps w)) (w_log w) (w_fuse w)) in E.
    assert (Hw0 : wheld w0 ≡ₚ wheld w).
    { unfold wheld, w0. cbn [w_maps]. rewrite held_of_insert_new by exact Hfresh. reflexivity. }
    rewrite app_nil_r. cbn [app]. rewrite <- Hw0. change (wdks w) with (wdks w0).
    eapply (lift_slot0 false w0 s _ _ _ r w'); [exact E|].
    intros ms s' Hms Em. unfold w0 in Hms. cbn [w_maps] in Hms. rewrite lookup_insert in Hms. injection Hms as <-.
    cbn [m_rt].
    (* with_capacity: nothing dropped, an empty table *)
    set (s0 := load w0 (MS rt_new hs hs) (t_on t, t_tomb t) (t_perm t, t_qperm t)) in *.
    unfold bind in Em. pose proof (rp_hb_with_capacity c false cap s0) as Hrp.
    pose proof (hb_with_capacity_spec c false cap (fun o _ => match o with Some t0 => hel t0 = ∅ | None => True end) (fun _ _ => True) s0) as Hsp.
    unfold wp in Hsp.
    destruct (hb_with_capacity c false cap s0) as [[t0|] s1|p s1|f] eqn:Ec; try discriminate.
    destruct Hrp as (Hr1 & Hk1 & _). assert (Hem : hel t0 = ∅) by (apply Hsp; auto).
    unfold setm, modify, ret in Em. injection Em as _ <-.
    unfold dks, kidsE, elems in *. cbn [set_rt s_rt main lo s_log]. rewrite Hem, map_to_list_empty, Hr1, Hk1.
    unfold s0, w0. cbn. reflexivity.
  - (* OInsert *)
    apply rmap_ok in E as (a & Ea & ->). cbn [app].
    apply (lift_slot true w s _ _ _ a w' [kid] (fun _ => []) Ea). intros ms s' Hms Em. rewrite app_nil_r.
    destruct (map_insert_conserves c k kid v _ a s' (HW s ms Hms : Inv R ES (s_rt (load w ms (t_on t, t_tomb t) (t_perm t, t_qperm t)))) Em) as (_ & Hk & _). exact Hk.
  - (* OGet *)
    rewrite app_nil_r. cbn [app]. apply (lift_slot0 true w s _ _ _ r w' E). intros ms s' Hms Em.
    apply (map_get_star c _ _ _ _ r s' (HW s ms Hms : Inv R ES (s_rt (load w ms (t_on t, t_tomb t) (t_perm t, t_qperm t)))) Em).
  - (* ORemove *)
    cbn [app]. apply (lift_slot true w s _ _ _ r w' [] (fun r => k_out (ORemove s entry k) r) E).
    intros ms s' Hms Em. cbn [app]. unfold bind in Em.
    destruct (map_remove_entry c k (load w ms (t_on t, t_tomb t) (t_perm t, t_qperm t))) as [o s1|p s1|f] eqn:Er; try discriminate.
    destruct (map_remove_entry_star c k _ o s1 (HW s ms Hms : Inv R ES (s_rt (load w ms (t_on t, t_tomb t) (t_perm t, t_qperm t)))) Er) as (_ & Hstar). cbn [load s_log s_rt] in Hstar.
    fold (dks (load w ms (t_on t, t_tomb t) (t_perm t, t_qperm t))) in Hstar.
    destruct o as [e|].
    + destruct entry.
      * unfold ret in Em. injection Em as <- <-. cbn [k_out]. exact Hstar.
      * unfold bind, drop_key, tick, modify, ret in Em. injection Em as <- <-. cbn [k_out]. rewrite app_nil_r.
        unfold dks in *. cbn [set_log s_log s_rt log_dk l_dk]. rewrite <- Hstar. cbn [app].
        rewrite (Permutation_app_comm (kidsE (s_rt s1)) [ekid e]). cbn [app]. apply Permutation_middle.
    + unfold ret in Em. destruct entry; injection Em as <- <-; cbn [k_out]; exact Hstar.
  - (* OClear *)
    apply rmap_ok in E as (a & Ea & ->). rewrite app_nil_r. cbn [app]. apply (lift_slot0 false w s _ _ _ a w' Ea).
    intros ms s' Hms Em. apply (rt_clear_star c _ a s' (HW s ms Hms : Inv R ES (s_rt (load w ms (t_on t, t_tomb t) (t_perm t, t_qperm t)))) Em).
  - (* OReserve *)
    apply rmap_ok in E as (a & Ea & ->). rewrite app_nil_r. cbn [app]. apply (lift_slot0 true w s _ _ _ a w' Ea).
    intros ms s' Hms Em. apply (rt_reserve_star c false n _ a s' (HW s ms Hms : Inv R ES (s_rt (load w ms (t_on t, t_tomb t) (t_perm t, t_qperm t)))) Hop Em).
  - (* OTryReserve *)
    apply rmap_ok in E as (a & Ea & ->). rewrite app_nil_r. cbn [app]. apply (lift_slot0 true w s _ _ _ a w' Ea).
    intros ms s' Hms Em. apply (rt_reserve_star c true n _ a s' (HW s ms Hms : Inv R ES (s_rt (load w ms (t_on t, t_tomb t) (t_perm t, t_qperm t)))) Hop Em).
  - (* OShrinkTo *)
    apply rmap_ok in E as (a & Ea & ->). rewrite app_nil_r. cbn [app]. apply (lift_slot0 true w s _ _ _ a w' Ea).
    intros ms s' Hms Em. apply (rt_shrink_star c n _ a s' (HW s ms Hms : Inv R ES (s_rt (load w ms (t_on t, t_tomb t) (t_perm t, t_qperm t)))) Em).
  - (* OIter *)
    apply rmap_ok in E as (a & Ea & ->). rewrite app_nil_r. cbn [app]. apply (lift_slot0 false w s _ _ _ a w' Ea).
    intros ms s' Hms Em. apply (map_iter_star c delta _ a s' (HW s ms Hms : Inv R ES (s_rt (load w ms (t_on t, t_tomb t) (t_perm t, t_qperm t)))) Em).
  - (* ODrain, dropped *)
    subst forget. apply rmap_ok in E as (a & Ea & ->). cbn [app k_out].
    apply (lift_slot false w s _ _ _ a w' [] kids3 Ea). intros ms s' Hms Em. cbn [app].
    apply (map_drain_star c j _ a s' (HW s ms Hms : Inv R ES (s_rt (load w ms (t_on t, t_tomb t) (t_perm t, t_qperm t)))) Em).
  - (* OIntoIter *)
    destruct (with_slot w s (t_on t, t_tomb t) (t_perm t, t_qperm t) (map_into_iter j)) as [l w1|p w1|f] eqn:Ew; try discriminate.
    injection E as <- <-. cbn [app k_out].
    apply (lift_slot_del false w s _ _ _ l w1 [] kids3 Ew). intros ms s' Hms Em. cbn [app].
    apply (map_into_iter_star c j _ l s' (HW s ms Hms : Inv R ES (s_rt (load w ms (t_on t, t_tomb t) (t_perm t, t_qperm t)))) Em).
  - (* ORetain *)
    apply rmap_ok in E as (a & Ea & ->). rewrite app_nil_r. cbn [app]. apply (lift_slot0 false w s _ _ _ a w' Ea).
    intros ms s' Hms Em.
    pose proof (map_retain_conserves_keys c keep delta _ (Inv_lite _ _ _ (HW s ms Hms : Inv R ES (s_rt (load w ms (t_on t, t_tomb t) (t_perm t, t_qperm t)))))) as H. unfold wpp in H. rewrite Em in H.
    destruct H as [_ H]. exact H.
  - (* ODrainFilter *)
    apply rmap_ok in E as (a & Ea & ->). cbn [app k_out].
    apply (lift_slot false w s _ _ _ a w' [] kids3 Ea). intros ms s' Hms Em. cbn [app].
    pose proof (map_drain_filter_conserves_keys c take delta j forget _ (Inv_lite _ _ _ (HW s ms Hms : Inv R ES (s_rt (load w ms (t_on t, t_tomb t) (t_perm t, t_qperm t)))))) as H.
    unfold wpp in H. rewrite Em in H. destruct H as (_ & yielded & -> & H). rewrite kids3_elem3. exact H.
  - (* OExtend *)
    apply rmap_ok in E as (a & Ea & ->).
    apply (lift_slot true w s _ _ _ a w' (kids_of items) (fun _ => []) Ea). intros ms s' Hms Em. rewrite app_nil_r.
    destruct (map_extend_conserves c items hint _ a s' (HW s ms Hms : Inv R ES (s_rt (load w ms (t_on t, t_tomb t) (t_perm t, t_qperm t)))) Hop Em) as (_ & Hk & _). exact Hk.
  - (* OFromIter *)
    set (w0 := W (<[s := MS rt_new hs hs]> (w_maps w)) (w_log w) (w_fuse w)) in E.
    assert (Hw0 : wheld w0 ≡ₚ wheld w).
    { unfold wheld, w0. cbn [w_maps]. rewrite held_of_insert_new by exact Hfresh. reflexivity. }
    apply rmap_ok in E as (a & Ea & ->). rewrite <- Hw0. change (wdks w) with (wdks w0).
    apply (lift_slot false w0 s _ _ _ a w' (kids_of items) (fun _ => []) Ea).
    intros ms s' Hms Em. unfold w0 in Hms. cbn [w_maps] in Hms. rewrite lookup_insert in Hms. injection Hms as <-.
    cbn [m_rt]. rewrite app_nil_r.
    set (s0 := load w0 (MS rt_new hs hs) (t_on t, t_tomb t) (t_perm t, t_qperm t)) in *.
    unfold bind in Em. pose proof (rp_hb_with_capacity c false hint s0) as Hrp.
    pose proof (hb_with_capacity_spec c false hint (fun o _ => match o with Some t0 => hel t0 = ∅ /\ hb_ok ES t0 | None => True end) (fun _ _ => True) s0) as Hsp.
    unfold wp in Hsp.
    destruct (hb_with_capacity c false hint s0) as [[t0|] s1|p s1|f] eqn:Ec; try discriminate.
    destruct Hrp as (Hr1 & Hk1 & _). assert (Hem : hel t0 = ∅ /\ hb_ok ES t0) by (apply Hsp; auto). destruct Hem as [Hem Hok0].
    unfold setm, modify in Em. cbn beta iota in Em.
    set (s2 := set_rt (RT t0 (lo (s_rt s1))) s1) in Em.
    assert (HI2 : Inv R ES (s_rt s2)).
    { unfold s2. cbn [set_rt s_rt]. rewrite Hr1. unfold s0. cbn [load s_rt m_rt lo rt_new]. split; [exact HRpos|]. split; [exact Hok0|exact I]. }
    destruct (insert_all_conserves c items s2 a s' HI2 Em) as (_ & Hk & _). rewrite Hk.
    apply Permutation_app_head. unfold s2, dks, elems. cbn [set_rt s_rt main lo s_log]. rewrite Hem, map_to_list_empty, Hr1.
    unfold dks in Hk1. rewrite Hk1. unfold s0, w0. cbn. apply Permutation_app_head. unfold kidsE, elems, rt_new. cbn. rewrite map_to_list_empty. reflexivity.
  - (* OClone *)
    destruct (w_maps w !! s) as [ms|] eqn:Es; [|discriminate]. destruct (negb _); [discriminate|].
    destruct (rt_clone c (load w ms (t_on t, t_tomb t) (t_perm t, t_qperm t))) as [r0 st'|p st'|f] eqn:Ec; try discriminate.
    injection E as <- <-. rewrite app_nil_r.
    destruct (rt_clone_star c _ r0 st' (HW s ms Es : Inv R ES (s_rt (load w ms (t_on t, t_tomb t) (t_perm t, t_qperm t)))) Ec) as (Hk & _ & Hkids).
    unfold wdks, wheld. cbn [w_log w_maps]. fold (dks st'). rewrite Hk. unfold dks. cbn [load s_log s_rt] in *.
    rewrite held_of_insert_new by exact Hfresh. cbn [m_rt]. rewrite Hkids.
    rewrite !app_assoc. apply Permutation_app_tail. apply Permutation_app_comm.
  - (* OCloneFrom *)
    destruct (w_maps w !! s) as [src|] eqn:Es; [|discriminate]. destruct (w_maps w !! d) as [dst|] eqn:Ed; [|discriminate].
    destruct (negb _); [discriminate|].
    destruct (rt_clone_from c (m_rt src) (load w dst (t_on t, t_tomb t) (t_perm t, t_qperm t))) as [u st'|p st'|f] eqn:Ec; try discriminate.
    injection E as <- <-. rewrite app_nil_r.
    apply (store_conserves w d dst _ _ st' (kidsE (m_rt src)) Ed).
    apply (rt_clone_from_star c (m_rt src) _ u st' (HW d dst Ed : Inv R ES (s_rt (load w dst (t_on t, t_tomb t) (t_perm t, t_qperm t)))) (HW s src Es) Ec).
  - (* OEq *)
    destruct (w_maps w !! b) as [mb|]; [|discriminate]. apply rmap_ok in E as (x & Ea & ->).
    rewrite app_nil_r. cbn [app]. apply (lift_slot0 false w a _ _ _ x w' Ea). intros ms s' _ Em.
    exact (rp_star _ _ _ x s' (rp_map_equal (m_rt mb)) Em).
  - (* ODrop *)
    destruct (with_slot w s (t_on t, t_tomb t) (t_perm t, t_qperm t) map_drop) as [u w1|p w1|f] eqn:Ew; try discriminate.
    injection E as <- <-. cbn [app].
    apply (lift_slot_del false w s _ _ _ u w1 [] (fun _ => []) Ew). intros ms s' Hms Em. cbn [app]. rewrite app_nil_r.
    apply (map_drop_star c _ u s' (HW s ms Hms : Inv R ES (s_rt (load w ms (t_on t, t_tomb t) (t_perm t, t_qperm t)))) Em).
  - (* OEntry *)
    apply rmap_ok in E as (a & Ea & ->).
    assert (Hall : Forall (st_wf false) steps).
    { apply Forall_forall. intros st Hin Hr. rewrite forallb_forall in Hop. specialize (Hop st (proj1 (elem_of_list_In _ _) Hin)). rewrite Hr in Hop. discriminate. }
    destruct (w_maps w !! s) as [ms0|] eqn:Es; [|unfold with_slot_h, with_slot_gen in Ea; rewrite Es in Ea; discriminate].
    apply (lift_slot true w s _ _ _ a w' (kid :: chain_kin false (rt_abs (m_rt ms0)) (start_ent (rt_abs (m_rt ms0)) k (Some kid)) steps) (chain_kout steps) Ea).
    intros ms s' Hms Em. rewrite Es in Hms. injection Hms as <-.
    exact (map_entry_conserves c k kid steps _ a s' (HW s ms0 Es : Inv R ES (s_rt (load w ms0 (t_on t, t_tomb t) (t_perm t, t_qperm t)))) Hall Em).
  - (* ORawEntry *)
    apply rmap_ok in E as (a & Ea & ->).
    destruct (w_maps w !! s) as [ms0|] eqn:Es; [|unfold with_slot_h, with_slot_gen in Ea; rewrite Es in Ea; discriminate].
    apply (lift_slot true w s _ _ _ a w' (chain_kin true (rt_abs (m_rt ms0)) (start_ent (rt_abs (m_rt ms0)) k None) steps) (chain_kout steps) Ea).
    intros ms s' Hms Em. rewrite Es in Hms. injection Hms as <-.
    exact (map_raw_entry_conserves c variant k steps _ a s' (HW s ms0 Es : Inv R ES (s_rt (load w ms0 (t_on t, t_tomb t) (t_perm t, t_qperm t)))) Em).
  - (* ORawGet *)
    rewrite app_nil_r. cbn [app]. apply (lift_slot0 true w s _ _ _ r w' E). intros ms s' _ Em.
    exact (rp_star _ _ _ r s' (rp_map_raw_get variant k) Em).
  - (* OSetAlg *)
    destruct (w_maps w !! a) as [ma|]; [|discriminate]. destruct (w_maps w !! b) as [mb|]; [|discriminate].
    destruct (_ || _); [discriminate|]. injection E as <- <-. rewrite app_nil_r. reflexivity.
  - (* OSetPred *)
    destruct (w_maps w !! a) as [ma|]; [|discriminate]. destruct (w_maps w !! b) as [mb|]; [|discriminate].
    destruct (_ || _); [discriminate|]. injection E as <- <-. rewrite app_nil_r. reflexivity.
  - (* OParIter *)
    apply rmap_ok in E as (a & Ea & ->). rewrite app_nil_r. cbn [app]. apply (lift_slot0 false w s _ _ _ a w' Ea).
    intros ms s' Hms Em. apply (map_par_iter_star c delta splits _ a s' (HW s ms Hms : Inv R ES (s_rt (load w ms (t_on t, t_tomb t) (t_perm t, t_qperm t)))) Em).
  - (* OParExtend *)
    apply rmap_ok in E as (a & Ea & ->).
    apply (lift_slot true w s _ _ _ a w' (kids_of (concat chunks)) (fun _ => []) Ea). intros ms s' Hms Em. rewrite app_nil_r.
    exact (map_par_extend_star c chunks _ a s' (HW s ms Hms : Inv R ES (s_rt (load w ms (t_on t, t_tomb t) (t_perm t, t_qperm t)))) Hop Em).
  - (* OSerialize *)
    apply rmap_ok in E as (a & Ea & ->). rewrite app_nil_r. cbn [app]. apply (lift_slot0 false w s _ _ _ a w' Ea).
    intros ms s' _ Em. exact (rp_star _ _ _ a s' rp_map_serialize Em).
  - (* ODeserInPlace *)
    apply rmap_ok in E as (a & Ea & ->).
    apply (lift_slot true w s _ _ _ a w' (kids_of items) (fun _ => []) Ea). intros ms s' Hms Em. rewrite app_nil_r.
    exact (map_deser_in_place_star c items hint _ a s' (HW s ms Hms : Inv R ES (s_rt (load w ms (t_on t, t_tomb t) (t_perm t, t_qperm t)))) Em).
Qed.


(* ---------------------------------------------------------------- histories *)
Lemma ledger_op_core o : ledger_op o -> core_op o.
Proof. destruct o; cbn; auto; try contradiction. Qed.

(* a panic-free history of the covered operations, with its results *)
Inductive ok_run : world -> list traced -> list out -> world -> Prop :=
| okr_nil w : ok_run w [] [] w
| okr_cons w t r w1 ts rs w' :
    ledger_op (t_op t) -> fresh_ok w (t_op t) -> step c w t = Ok r w1 -> ok_run w1 ts rs w' ->
    ok_run w (t :: ts) (r :: rs) w'.

Fixpoint keys_in (w : world) (ts : list traced) : list N :=
  match ts with
  | [] => []
  | t :: ts => k_in w (t_op t) ++ match step c w t with Ok _ w1 => keys_in w1 ts | _ => [] end
  end.
Fixpoint keys_out (ts : list traced) (rs : list out) : list N :=
  match ts, rs with
  | t :: ts, r :: rs => k_out (t_op t) r ++ keys_out ts rs
  | _, _ => []
  end.

(* C06, the conservation law: over any panic-free history of these operations - whatever the
   resize phases it goes through - the key objects given to the maps are, at the end, exactly
   the key objects still stored, those in the drop ledger, and those handed back: each once *)
Theorem history_conserves_keys w ts rs w' :
  WInv c w -> ok_run w ts rs w' ->
  wdks w' ++ wheld w' ++ keys_out ts rs ≡ₚ keys_in w ts ++ wdks w ++ wheld w.
Proof.
  intros HW Hrun. induction Hrun as [w|w t r w1 ts rs w' Hop Hfr Hst Hrun IH].
  - cbn. rewrite app_nil_r. reflexivity.
  - pose proof (step_core c HRpos w t HW (ledger_op_core _ Hop)) as Hc. rewrite Hst in Hc. destruct Hc as [HW1 _].
    specialize (IH HW1). pose proof (step_conserves w t r w1 HW Hop Hfr Hst) as H1.
    cbn [keys_in keys_out]. rewrite Hst.
    (* IH: d' ++ h' ++ out_rest = in_rest ++ d1 ++ h1;  H1: d1 ++ h1 ++ out1 = in1 ++ d ++ h *)
    transitivity ((keys_in w1 ts ++ wdks w1 ++ wheld w1) ++ k_out (t_op t) r).
    { rewrite <- IH. rewrite <- !app_assoc. apply Permutation_app_head. apply Permutation_app_head. apply Permutation_app_comm. }
    rewrite <- !app_assoc. rewrite H1. rewrite !app_assoc. apply Permutation_app_tail. apply Permutation_app_tail. apply Permutation_app_comm.
Qed.

(* from nothing to nothing: a history that starts with no map and ends with no map has dropped
   or handed back every key object it was given, exactly once *)
Corollary history_all_released ts rs w' :
  ok_run world0 ts rs w' -> w_maps w' = ∅ ->
  wdks w' ++ keys_out ts rs ≡ₚ keys_in world0 ts.
Proof.
  intros Hrun Hem. pose proof (history_conserves_keys world0 ts rs w' (WInv_empty c) Hrun) as H.
  unfold wheld in H. rewrite Hem in H. cbn in H. rewrite app_nil_r in H. exact H.
Qed.

(* in a history without clone/clone_from, what goes in can be read off the operations alone *)
Definition static_in (o : op) : bool := match o with OClone _ _ | OCloneFrom _ _ | OEntry _ _ _ _ | ORawEntry _ _ _ _ => false | _ => true end.
Lemma keys_in_static w ts rs w' :
  ok_run w ts rs w' -> forallb (fun t => static_in (t_op t)) ts = true ->
  keys_in w ts = concat (map (fun t => k_in world0 (t_op t)) ts).
Proof.
  intros Hrun. induction Hrun as [w|w t r w1 ts rs w' Hop Hfr Hst Hrun IH]; intros Hs; [reflexivity|].
  cbn [forallb] in Hs. apply andb_prop in Hs as [H1 H2]. cbn [keys_in map concat]. rewrite Hst, (IH H2).
  f_equal. destruct (t_op t); try discriminate; reflexivity.
Qed.

(* a checker for [ok_run] (used for the non-vacuity example) *)
Definition ledger_opb (o : op) : bool :=
  match o with
  | ONew _ _ _ | OInsert _ _ _ _ | OGet _ _ _ _ | ORemove _ _ _ | OClear _ | OShrinkTo _ _ | ODrop _ | OIter _ _ _
  | ORetain _ _ _ | OIntoIter _ _ | ODrainFilter _ _ _ _ _ | OFromIter _ _ _ _
  | OClone _ _ | OCloneFrom _ _ | OEq _ _ | ORawGet _ _ _ | OSetAlg _ _ _ | OSetPred _ _ _ | OParIter _ _ _ _ | OSerialize _ => true
  | OParExtend _ chunks => N.of_nat (length (concat chunks)) <? usize_max
  | ODeserInPlace _ _ _ | ORawEntry _ _ _ _ => true
  | OEntry _ _ _ ss => forallb (fun st => negb (raw_only st)) ss
  | ODrain _ _ forget => negb forget
  | OReserve _ n | OTryReserve _ n => n <=? usize_max
  | OExtend _ _ hint => hint <=? usize_max
  end.
Definition fresh_okb (w : world) (o : op) : bool :=
  match o with ONew s _ _ | OFromIter s _ _ _ | OClone _ s => match w_maps w !! s with None => true | Some _ => false end | _ => true end.
Fixpoint run_okb (w : world) (ts : list traced) : option (list out * world) :=
  match ts with
  | [] => Some ([], w)
  | t :: ts =>
      if ledger_opb (t_op t) && fresh_okb w (t_op t) then
        match step c w t with
        | Ok r w1 => match run_okb w1 ts with Some (rs, w') => Some (r :: rs, w') | None => None end
        | _ => None
        end
      else None
  end.
Lemma ledger_opb_sound o : ledger_opb o = true -> ledger_op o.
Proof.
  destruct o; cbn; try discriminate; auto; try (intros H; apply N.leb_le; exact H); try (intros H; apply N.ltb_lt; exact H).
  intros H. destruct forget; [discriminate|reflexivity].
Qed.
Lemma fresh_okb_sound w o : fresh_okb w o = true -> fresh_ok w o.
Proof.
  destruct o; cbn; auto;
    match goal with |- context [w_maps w !! ?x] => destruct (w_maps w !! x); discriminate || reflexivity end.
Qed.
Lemma run_okb_sound : forall ts w rs w', run_okb w ts = Some (rs, w') -> ok_run w ts rs w'.
Proof.
  induction ts as [|t ts IH]; intros w rs w' E; cbn [run_okb] in E.
  - injection E as <- <-. constructor.
  - destruct (ledger_opb (t_op t) && fresh_okb w (t_op t)) eqn:Eb; [|discriminate]. apply andb_prop in Eb as [E1 E2].
    destruct (step c w t) as [r w1|p w1|f] eqn:Es; try discriminate.
    destruct (run_okb w1 ts) as [[rs1 w2]|] eqn:Er; [|discriminate]. injection E as <- <-.
    econstructor; [apply ledger_opb_sound, E1|apply fresh_okb_sound, E2|exact Es|apply IH, Er].
Qed.

End WorldLedger.
