(* Inv.v — the two-table invariant and basic facts about the model's data. *)
From stdpp Require Import gmap list.
From Coq Require Import NArith Lia.
From G Require Import Arith Monad Types.
Local Open Scope N_scope.

(* hashbrown's own bookkeeping: growth_left + items never exceeds the bucket capacity; the
   element filed under k has key k *)
(* E = size_of::<(K, V)>(): an allocated table's layout fits in isize::MAX *)
Definition hb_ok (Esz : N) (t : hb) : Prop :=
  hgl t + hn t <= bcap (hB t) /\
  hn t = N.of_nat (size (hel t)) /\
  (forall k e, hel t !! k = Some e -> ek e = k) /\
  0 < hB t /\ (hB t = 1 \/ layout_ok Esz (hB t) = true).

(* I-iter, I-disj, I-head for a pending resize *)
Definition old_ok (R : N) (t : hb) (o : old) : Prop :=
  oit o = olen o /\
  ocnt o = N.of_nat (length (orem o)) /\
  NoDup (map ek (orem o)) /\
  (forall e, e ∈ orem o -> hel t !! ek e = None) /\
  need (olen o) R <= hgl t.

Definition Inv (R Esz : N) (r : rt) : Prop :=
  0 < R /\ hb_ok Esz (main r) /\ match lo r with None => True | Some o => old_ok R (main r) o end.

(* ------------------------------------------------------------------ lists of elements *)

Lemma lookup_list_Some k l e : lookup_list k l = Some e -> e ∈ l /\ ek e = k.
Proof.
  unfold lookup_list. intros H. apply List.find_some in H as [Hin Heq].
  split; [apply elem_of_list_In; exact Hin | apply N.eqb_eq; exact Heq].
Qed.

Lemma lookup_list_None k l : lookup_list k l = None -> forall e, e ∈ l -> ek e <> k.
Proof.
  unfold lookup_list. intros H e Hin Hk.
  apply elem_of_list_In in Hin. apply (List.find_none _ _ H) in Hin.
  rewrite Hk, N.eqb_refl in Hin. discriminate.
Qed.

Lemma lookup_list_nodup k l e :
  NoDup (map ek l) -> e ∈ l -> ek e = k -> lookup_list k l = Some e.
Proof.
  induction l as [|x l IH]; intros Hnd Hin Hk; [inversion Hin|].
  cbn in Hnd. apply NoDup_cons in Hnd as [Hx Hnd].
  unfold lookup_list. cbn [List.find].
  destruct (N.eqb_spec (ek x) k) as [Hxk|Hxk].
  - apply elem_of_cons in Hin as [->|Hin]; [reflexivity|].
    exfalso. apply Hx. rewrite Hxk, <- Hk. apply elem_of_list_fmap. exists e. auto.
  - apply elem_of_cons in Hin as [->|Hin]; [congruence|]. apply IH; auto.
Qed.

Lemma list_to_emap_cons e l : list_to_emap (e :: l) = <[ek e := e]> (list_to_emap l).
Proof. reflexivity. Qed.

Lemma list_to_emap_lookup l k :
  NoDup (map ek l) -> list_to_emap l !! k = lookup_list k l.
Proof.
  induction l as [|x l IH]; intros Hnd; [reflexivity|].
  cbn in Hnd. apply NoDup_cons in Hnd as [Hx Hnd].
  rewrite list_to_emap_cons. unfold lookup_list. cbn [List.find].
  destruct (N.eqb_spec (ek x) k) as [->|Hxk].
  - apply lookup_insert.
  - rewrite lookup_insert_ne by exact Hxk. apply IH. exact Hnd.
Qed.

Lemma remove_list_elem k l e : e ∈ remove_list k l <-> e ∈ l /\ ek e <> k.
Proof.
  unfold remove_list. rewrite elem_of_list_In, List.filter_In, <- elem_of_list_In.
  rewrite Bool.negb_true_iff, N.eqb_neq. reflexivity.
Qed.

Lemma remove_list_nodup k l : NoDup (map ek l) -> NoDup (map ek (remove_list k l)).
Proof.
  induction l as [|x l IH]; intros Hnd; [constructor|].
  cbn in Hnd. apply NoDup_cons in Hnd as [Hx Hnd].
  unfold remove_list. cbn [List.filter]. destruct (negb (ek x =? k)) eqn:E; [|apply IH; exact Hnd].
  cbn [map]. apply NoDup_cons. split; [|apply IH; exact Hnd].
  intros Hin. apply Hx. apply elem_of_list_fmap in Hin as (y & Hy & Hin).
  apply elem_of_list_fmap. exists y. split; [exact Hy|]. apply remove_list_elem in Hin. tauto.
Qed.

Lemma remove_list_length k l e :
  NoDup (map ek l) -> e ∈ l -> ek e = k -> length l = S (length (remove_list k l)).
Proof.
  induction l as [|x l IH]; intros Hnd Hin Hk; [inversion Hin|].
  cbn in Hnd. apply NoDup_cons in Hnd as [Hx Hnd].
  unfold remove_list. cbn [List.filter length].
  destruct (N.eqb_spec (ek x) k) as [Hxk|Hxk]; cbn [negb].
  - f_equal. clear IH Hin.
    assert (Hall : forall y, y ∈ l -> ek y <> k).
    { intros y Hy Hyk. apply Hx. rewrite Hxk, <- Hyk. apply elem_of_list_fmap. exists y. auto. }
    induction l as [|y l IHl]; [reflexivity|]. cbn [List.filter].
    destruct (N.eqb_spec (ek y) k) as [Hyk|Hyk]; cbn [negb].
    + exfalso. apply (Hall y); [apply elem_of_list_here|exact Hyk].
    + cbn [length]. f_equal. apply IHl.
      * intros Hin'. apply Hx. cbn [map]. apply elem_of_list_further. exact Hin'.
      * cbn [map] in Hnd. apply NoDup_cons in Hnd as [_ Hnd]. exact Hnd.
      * intros z Hz. apply Hall. apply elem_of_list_further. exact Hz.
  - cbn [length]. f_equal. apply elem_of_cons in Hin as [->|Hin]; [congruence|]. apply IH; auto.
Qed.

Lemma list_to_emap_remove k l :
  NoDup (map ek l) -> list_to_emap (remove_list k l) = delete k (list_to_emap l).
Proof.
  intros Hnd. apply map_eq. intros j.
  rewrite list_to_emap_lookup by (apply remove_list_nodup; exact Hnd).
  destruct (N.eq_dec j k) as [->|Hjk].
  - rewrite lookup_delete.
    destruct (lookup_list k (remove_list k l)) as [e|] eqn:E; [|reflexivity].
    apply lookup_list_Some in E as [Hin Hk]. apply remove_list_elem in Hin. tauto.
  - rewrite lookup_delete_ne by congruence. rewrite list_to_emap_lookup by exact Hnd.
    destruct (lookup_list j l) as [e|] eqn:E.
    + apply lookup_list_Some in E as [Hin Hk].
      apply lookup_list_nodup; [apply remove_list_nodup; exact Hnd| |exact Hk].
      apply remove_list_elem. split; [exact Hin|congruence].
    + destruct (lookup_list j (remove_list k l)) as [e|] eqn:E'; [|reflexivity].
      apply lookup_list_Some in E' as [Hin Hk]. apply remove_list_elem in Hin as [Hin _].
      exfalso. eapply lookup_list_None; eauto.
Qed.

Lemma list_to_emap_key l k e : NoDup (map ek l) -> list_to_emap l !! k = Some e -> ek e = k /\ e ∈ l.
Proof.
  intros Hnd H. rewrite list_to_emap_lookup in H by exact Hnd.
  apply lookup_list_Some in H. tauto.
Qed.

Lemma size_list_to_emap l : NoDup (map ek l) -> size (list_to_emap l) = length l.
Proof.
  induction l as [|x l IH]; intros Hnd; [reflexivity|].
  cbn in Hnd. apply NoDup_cons in Hnd as [Hx Hnd].
  rewrite list_to_emap_cons, map_size_insert_None; [cbn; f_equal; apply IH; exact Hnd|].
  rewrite list_to_emap_lookup by exact Hnd.
  destruct (lookup_list (ek x) l) as [e|] eqn:E; [|reflexivity].
  apply lookup_list_Some in E as [Hin Hk]. exfalso. apply Hx. rewrite <- Hk.
  apply elem_of_list_fmap. exists e. auto.
Qed.

Lemma ocnt_0 o : ocnt o = N.of_nat (length (orem o)) -> olen o = 0 -> orem o = [].
Proof. unfold olen. intros -> H. destruct (orem o); [reflexivity|cbn in H; lia]. Qed.

(* ------------------------------------------------------------------ hb facts *)

Lemma size_insert_None (m : gmap N elem) k e : m !! k = None -> N.of_nat (size (<[k := e]> m)) = N.of_nat (size m) + 1.
Proof. intros H. rewrite map_size_insert_None by exact H. lia. Qed.

Lemma size_insert_Some (m : gmap N elem) k e e' : m !! k = Some e' -> N.of_nat (size (<[k := e]> m)) = N.of_nat (size m).
Proof. intros H. rewrite map_size_insert_Some by (rewrite H; eauto). reflexivity. Qed.

Lemma size_delete_Some (m : gmap N elem) k e : m !! k = Some e -> N.of_nat (size (delete k m)) + 1 = N.of_nat (size m).
Proof.
  intros H. rewrite map_size_delete, H.
  assert (size m <> 0)%nat.
  { intros Hz. apply map_size_empty_inv in Hz. rewrite Hz in H. rewrite lookup_empty in H. discriminate. }
  cbn. lia.
Qed.

Lemma hb_ok_new Esz : hb_ok Esz hb_new.
Proof.
  split; [|split; [|split; [|split]]].
  - unfold hb_new. cbn [hgl hB hn]. change (bcap 1) with 0. lia.
  - reflexivity.
  - intros k e H. cbn in H. rewrite lookup_empty in H. discriminate.
  - cbn. lia.
  - left. reflexivity.
Qed.

Lemma hb_ok_empty Esz B : 0 < B -> (B = 1 \/ layout_ok Esz B = true) -> hb_ok Esz (hb_empty B).
Proof.
  intros HB HL. split; [|split; [|split; [|split]]].
  - unfold hb_empty. cbn [hgl hB hn]. lia.
  - reflexivity.
  - intros k e H. cbn in H. rewrite lookup_empty in H. discriminate.
  - exact HB.
  - exact HL.
Qed.

Lemma bcap_le B : bcap B <= B.
Proof.
  unfold bcap. destruct (N.leb_spec B 8); [lia|].
  pose proof (N.mul_div_le B 8 ltac:(lia)). lia.
Qed.

Lemma layout_ok_bound Esz B : layout_ok Esz B = true -> B <= isize_max.
Proof. unfold layout_ok. intros H. apply N.leb_le in H. lia. Qed.

Lemma layout_ok_mono Esz B B' : B' <= B -> layout_ok Esz B = true -> layout_ok Esz B' = true.
Proof. unfold layout_ok. intros Hle H. apply N.leb_le in H. apply N.leb_le. nia. Qed.

Lemma hb_ok_cap_bound Esz t : hb_ok Esz t -> hgl t + hn t <= isize_max.
Proof.
  intros (H1 & _ & _ & _ & H4). pose proof (bcap_le (hB t)).
  assert (hB t <= isize_max) by (destruct H4 as [->|H4]; [pose proof usize_max_big; lia|apply (layout_ok_bound Esz); exact H4]).
  lia.
Qed.

Lemma hb_ok_gl_bound Esz t : hb_ok Esz t -> hgl t <= isize_max /\ hn t <= isize_max.
Proof.
  intros (H1 & _ & _ & _ & H4). pose proof (bcap_le (hB t)).
  assert (hB t <= isize_max) by (destruct H4 as [->|H4]; [pose proof usize_max_big; lia|apply (layout_ok_bound Esz); exact H4]).
  lia.
Qed.

Lemma Inv_new R Esz : 0 < R -> Inv R Esz rt_new.
Proof. intros H. split; [exact H|]. split; [apply hb_ok_new|exact I]. Qed.


(* abs with a pending resize, as a lookup *)
Lemma rt_abs_lookup R Esz r k :
  Inv R Esz r ->
  rt_abs r !! k = match hel (main r) !! k with
                  | Some e => Some e
                  | None => match lo r with Some o => lookup_list k (orem o) | None => None end
                  end.
Proof.
  intros (_ & _ & Ho). unfold rt_abs.
  destruct (hel (main r) !! k) as [e|] eqn:E.
  - apply lookup_union_Some_l. exact E.
  - rewrite lookup_union_r by exact E. destruct (lo r) as [o|].
    + destruct Ho as (_ & _ & Hnd & _). apply list_to_emap_lookup. exact Hnd.
    + apply lookup_empty.
Qed.

Lemma Inv_len R Esz r : Inv R Esz r -> N.of_nat (size (rt_abs r)) = rt_len r.
Proof.
  intros (_ & (_ & Hn & _) & Ho). unfold rt_abs, rt_len, hlen. destruct (lo r) as [o|].
  - destruct Ho as (_ & Hc & Hnd & Hdis & _).
    rewrite map_size_disj_union.
    + rewrite size_list_to_emap by exact Hnd. unfold olen. lia.
    + apply map_disjoint_spec. intros k e1 e2 H1 H2.
      apply list_to_emap_key in H2 as [Hk Hin]; [|exact Hnd].
      specialize (Hdis _ Hin). rewrite Hk in Hdis. congruence.
  - rewrite (right_id_L ∅ (∪)). lia.
Qed.

(* ------------------------------------------------------------------ validated orders *)

Lemma list_to_emap_None l k : list_to_emap l !! k = None <-> k ∉ map ek l.
Proof.
  unfold list_to_emap. rewrite <- not_elem_of_list_to_map.
  rewrite <- list_fmap_compose. reflexivity.
Qed.

Lemma size_list_to_emap_le l : (size (list_to_emap l) <= length l)%nat.
Proof.
  induction l as [|x l IH]; [change (list_to_emap []) with (∅ : gmap N elem); rewrite map_size_empty; cbn; lia|].
  rewrite list_to_emap_cons. cbn [length].
  destruct (list_to_emap l !! ek x) as [y|] eqn:E.
  - rewrite map_size_insert_Some by (rewrite E; eauto). lia.
  - rewrite map_size_insert_None by exact E. lia.
Qed.

Lemma size_list_to_emap_nodup l : size (list_to_emap l) = length l -> NoDup (map ek l).
Proof.
  induction l as [|x l IH]; intros H; [constructor|].
  rewrite list_to_emap_cons in H. cbn [length] in H. cbn [map].
  pose proof (size_list_to_emap_le l) as Hle.
  destruct (list_to_emap l !! ek x) as [y|] eqn:E.
  - rewrite map_size_insert_Some in H by (rewrite E; eauto). lia.
  - rewrite map_size_insert_None in H by exact E.
    apply NoDup_cons. split; [apply list_to_emap_None; exact E|]. apply IH. lia.
Qed.

Lemma valid_order_spec m l :
  valid_order m l = true ->
  NoDup (map ek l) /\ list_to_emap l = m /\ N.of_nat (length l) = N.of_nat (size m) /\
  (forall e, e ∈ l -> m !! ek e = Some e).
Proof.
  unfold valid_order. intros H. apply andb_prop in H as [H1 H2].
  apply bool_decide_eq_true in H1. apply N.eqb_eq in H2.
  assert (Hnd : NoDup (map ek l)).
  { apply size_list_to_emap_nodup. rewrite H1. lia. }
  repeat split; try assumption.
  intros e He. rewrite <- H1. rewrite list_to_emap_lookup by exact Hnd.
  apply lookup_list_nodup; auto.
Qed.

Lemma rt_abs_new_old t nt l i n :
  hel nt = ∅ -> list_to_emap l = hel t -> rt_abs (RT nt (Some (Old (hB t) l i n))) = rt_abs (RT t None).
Proof.
  intros He Hl. unfold rt_abs. cbn [main lo orem]. rewrite He, Hl.
  rewrite (left_id_L ∅ (∪)), (right_id_L ∅ (∪)). reflexivity.
Qed.

(* ------------------------------------------------------------------ in-place overwrite *)

Lemma replace_list_keys e' l : map ek (replace_list e' l) = map ek l.
Proof.
  unfold replace_list. induction l as [|x l IH]; [reflexivity|]. cbn [List.map map].
  rewrite IH. destruct (N.eqb_spec (ek x) (ek e')) as [->|]; reflexivity.
Qed.

Lemma replace_list_length e' l : length (replace_list e' l) = length l.
Proof. unfold replace_list. apply List.map_length. Qed.

Lemma replace_list_elem e' l x : x ∈ replace_list e' l -> ek x ∈ map ek l.
Proof.
  intros H. rewrite <- (replace_list_keys e' l). apply elem_of_list_fmap. exists x. auto.
Qed.

Lemma list_to_emap_replace e' l :
  ek e' ∈ map ek l -> list_to_emap (replace_list e' l) = <[ek e' := e']> (list_to_emap l).
Proof.
  induction l as [|x l IH]; intros Hin; [inversion Hin|].
  unfold replace_list in *. cbn [List.map]. rewrite !list_to_emap_cons.
  destruct (N.eqb_spec (ek x) (ek e')) as [Heq|Hne].
  - rewrite Heq. rewrite insert_insert.
    destruct (decide (ek e' ∈ map ek l)) as [Hin'|Hnin].
    + rewrite IH by exact Hin'. rewrite insert_insert. reflexivity.
    + f_equal. clear IH Hin. induction l as [|y l IHl]; [reflexivity|].
      cbn [List.map]. cbn [map] in Hnin. apply not_elem_of_cons in Hnin as [Hy Hnin].
      destruct (N.eqb_spec (ek y) (ek e')); [congruence|]. rewrite !list_to_emap_cons. f_equal. apply IHl. exact Hnin.
  - cbn [map] in Hin. apply elem_of_cons in Hin as [Hin|Hin]; [congruence|].
    rewrite IH by exact Hin. rewrite insert_commute by congruence. reflexivity.
Qed.

Lemma rt_abs_new : rt_abs rt_new = ∅.
Proof. unfold rt_abs, rt_new. cbn [main lo hb_new hel]. apply (left_id_L ∅ (∪)). Qed.

Lemma lookup_list_replace_ne e' l k : k <> ek e' -> lookup_list k (replace_list e' l) = lookup_list k l.
Proof.
  intros Hne. unfold lookup_list, replace_list. induction l as [|x l IH]; [reflexivity|].
  cbn [List.map List.find]. destruct (N.eqb_spec (ek x) (ek e')) as [Heq|Hneq].
  - destruct (N.eqb_spec (ek e') k); [congruence|]. destruct (N.eqb_spec (ek x) k); [congruence|]. exact IH.
  - destruct (ek x =? k); [reflexivity|exact IH].
Qed.

Lemma lookup_list_remove_ne k' l k : k <> k' -> lookup_list k (remove_list k' l) = lookup_list k l.
Proof.
  intros Hne. unfold lookup_list, remove_list. induction l as [|x l IH]; [reflexivity|].
  cbn [List.filter List.find]. destruct (N.eqb_spec (ek x) k') as [Heq|Hneq]; cbn [negb].
  - destruct (N.eqb_spec (ek x) k); [congruence|]. exact IH.
  - cbn [List.find]. destruct (ek x =? k); [reflexivity|exact IH].
Qed.
