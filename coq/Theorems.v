(* Theorems.v — the property theorems, proved here from the specifications of RawProofs,
   MapProofs and WorldProofs; the Prop_Cxx.v files restate them and close them by [exact]. *)
From stdpp Require Import gmap list.
From Coq Require Import NArith Lia.
From G Require Import Arith Monad Types Inv Raw RawProofs Map MapProofs WorldProofs.
Local Open Scope N_scope.

(* every world reachable by a history of (so far: core) operations, from the empty world *)
Definition reachable (c : cfg) (w : world) : Prop :=
  exists ts outs, Forall core_op (map t_op ts) /\ run c world0 ts [] = inl (w, outs).

Lemma reachable_inv c w : 0 < cR c -> reachable c w -> WInv c w.
Proof.
  intros HR (ts & outs & Hall & Hrun).
  pose proof (run_core c HR ts world0 [] (WInv_empty c) Hall) as H. rewrite Hrun in H. apply H.
Qed.

Lemma reachable_slot c w i m : 0 < cR c -> reachable c w -> w_maps w !! i = Some m -> Inv (cR c) (cesz c) (m_rt m).
Proof. intros HR Hr Hi. exact (proj1 (reachable_inv c w HR Hr i m Hi)). Qed.

(* ---------------------------------------------------------------- C01 *)

Lemma T_C01_step_refines c w t :
  0 < cR c -> WInv c w -> core_op (t_op t) ->
  match step_caught c w t with
  | inl (w', o) => WInv c w' /\ (spec_rel (wabs w) (t_op t) o (wabs w') \/ o = OutP PUser)
  | inr f => benign f
  end.
Proof. intros HR. apply step_caught_core. exact HR. Qed.

Lemma T_C01_run_refines c ts :
  0 < cR c -> Forall core_op (map t_op ts) ->
  match run c world0 ts [] with
  | inl (w', outs) => WInv c w' /\ spec_runs ∅ (map t_op ts) outs (wabs w')
  | inr f => benign f
  end.
Proof.
  intros HR Hall. pose proof (run_core c HR ts world0 [] (WInv_empty c) Hall) as H.
  destruct (run c world0 ts []) as [[w' outs]|f]; [|exact H].
  destruct H as (HW & rs & -> & Hr). split; [exact HW|]. cbn [app].
  replace (wabs world0) with (∅ : gmap N (gmap N elem)) in Hr; [exact Hr|].
  unfold wabs, world0. cbn [w_maps]. rewrite fmap_empty. reflexivity.
Qed.

Lemma T_C01_len c w i m :
  0 < cR c -> reachable c w -> w_maps w !! i = Some m ->
  rt_len (m_rt m) = N.of_nat (size (rt_abs (m_rt m))).
Proof. intros HR Hr Hi. symmetry. eapply Inv_len. eapply reachable_slot; eauto. Qed.

(* ---------------------------------------------------------------- C03 *)

Lemma T_C03_step c k kid v s res s' :
  Inv (cR c) (cesz c) (s_rt s) -> map_insert c k kid v s = Ok res s' ->
  progress c (s_rt s) (match hel (main (s_rt s)) !! k with Some _ => false | None => true end) (s_rt s').
Proof.
  intros HI Hrun. pose proof (map_insert_spec c k kid v s HI) as H. unfold wp in H. rewrite Hrun in H. apply H.
Qed.

Lemma T_C03_two_tables c w i m o :
  0 < cR c -> reachable c w -> w_maps w !! i = Some m -> lo (m_rt m) = Some o ->
  oit o = ocnt o /\ ocnt o = N.of_nat (length (orem o)).
Proof.
  intros HR Hr Hi Hlo. destruct (reachable_slot c w i m HR Hr Hi) as (_ & _ & Ho). rewrite Hlo in Ho.
  destruct Ho as (H1 & H2 & _). auto.
Qed.

(* ---------------------------------------------------------------- C04 *)

Lemma T_C04_capacity_ge_len c w i m :
  0 < cR c -> reachable c w -> w_maps w !! i = Some m -> rt_len (m_rt m) <= rt_capacity (m_rt m).
Proof. intros HR Hr Hi. apply (Inv_cap_ge_len c). eapply reachable_slot; eauto. Qed.

Lemma T_C04_headroom_invariant c w i m o :
  0 < cR c -> reachable c w -> w_maps w !! i = Some m -> lo (m_rt m) = Some o ->
  need (ocnt o) (cR c) <= hgl (main (m_rt m)).
Proof.
  intros HR Hr Hi Hlo. destruct (reachable_slot c w i m HR Hr Hi) as (_ & _ & Ho).
  rewrite Hlo in Ho. destruct Ho as (_ & _ & _ & _ & Hn). exact Hn.
Qed.

Lemma T_C04_full_implies_no_resize c w i m :
  0 < cR c -> reachable c w -> w_maps w !! i = Some m -> hgl (main (m_rt m)) = 0 -> lo (m_rt m) = None.
Proof.
  intros HR Hr Hi Hz. destruct (lo (m_rt m)) as [o|] eqn:Hlo; [|reflexivity].
  pose proof (T_C04_headroom_invariant c w i m o HR Hr Hi Hlo) as H.
  pose proof (need_ge1 (ocnt o) (cR c) HR). lia.
Qed.

Lemma T_C04_sizing_keeps_headroom c w t :
  0 < cR c -> WInv c w -> core_op (t_op t) ->
  match step_caught c w t with
  | inl (w', _) => WInv c w'
  | inr f => benign f
  end.
Proof.
  intros HR HW Hc. pose proof (step_caught_core c HR w t HW Hc) as H.
  destruct (step_caught c w t) as [[w' o]|f]; [exact (proj1 H)|exact H].
Qed.

(* ---------------------------------------------------------------- C05 *)

Lemma T_C05_no_fault c ts :
  0 < cR c -> Forall core_op (map t_op ts) ->
  forall f, run c world0 ts [] = inr f -> benign f.
Proof.
  intros HR Hall f Hrun. pose proof (run_core c HR ts world0 [] (WInv_empty c) Hall) as H.
  rewrite Hrun in H. exact H.
Qed.

Lemma T_C05_cursor_agrees c w i m o :
  0 < cR c -> reachable c w -> w_maps w !! i = Some m -> lo (m_rt m) = Some o ->
  oit o = N.of_nat (length (orem o)) /\ NoDup (map ek (orem o)) /\
  (forall e, e ∈ orem o -> hel (main (m_rt m)) !! ek e = None).
Proof.
  intros HR Hr Hi Hlo. destruct (reachable_slot c w i m HR Hr Hi) as (_ & _ & Ho). rewrite Hlo in Ho.
  destruct Ho as (H1 & H2 & H3 & H4 & _). unfold olen in H1. split; [congruence|]. auto.
Qed.

(* ---------------------------------------------------------------- non-vacuity: a concrete
   history reaches a state in the middle of a resize (R = 8, 15 insertions into an empty map) *)
Definition ex_cfg : cfg := Cfg 8 true false 24.
Definition ex_ins (k : N) : traced := T (OInsert 0 k k (1000 + k)) 0 0 [] [].
Definition ex_hist : list traced :=
  T (ONew 0 1 0) 0 0 [] [] :: map ex_ins [0; 1; 2; 3; 4; 5; 6; 7; 8; 9; 10; 11; 12; 13; 14].

Example ex_mid_resize :
  exists w outs m o, run ex_cfg world0 ex_hist [] = inl (w, outs) /\ w_maps w !! 0 = Some m /\
                     lo (m_rt m) = Some o /\ ocnt o = 6 /\ hn (main (m_rt m)) = 9 /\ hgl (main (m_rt m)) = 19.
Proof.
  destruct (run ex_cfg world0 ex_hist []) as [[w outs]|f] eqn:E; vm_compute in E; [|discriminate].
  injection E as <- <-. do 4 eexists. repeat split; vm_compute; reflexivity.
Qed.

Example ex_core : Forall core_op (map t_op ex_hist).
Proof. repeat constructor. Qed.
