(* Theorems.v — the property theorems, proved here from the specifications of RawProofs,
   MapProofs and WorldProofs; the Prop_Cxx.v files restate them and close them by [exact]. *)
From stdpp Require Import gmap list.
From Coq Require Import NArith Lia.
From G Require Import Arith Monad Types Inv Raw RawProofs Map MapProofs IterProofs CloneProofs Cost EntryProofs EntryCost Ledger SetProofs Conserve EntryLedger Fill WorldProofs WorldLedger.
Local Open Scope N_scope.

(* every world reachable by a history of (so far: core) operations, from the empty world *)
Definition reachable (c : cfg) (w : world) : Prop :=
  exists ts outs, Forall core_op (map t_op ts) /\ run c world0 ts [] = inl (w, outs).

Lemma reachable_inv c w : 0 < cR c -> reachable c w -> WInv c w.
Proof.
  intros HR (ts & outs & Hall & Hrun).
  pose proof (run_core c HR ts world0 [] (WInv_empty c) Hall) as H. rewrite Hrun in H. apply H.
Qed.

Lemma reachable_slot c w i m : 0 < cR c -> reachable c w -> w_maps w !! i = Some m -> Inv (cR c) (cesz c) (m_rt m).
Proof. intros HR Hr Hi. exact (reachable_inv c w HR Hr i m Hi). Qed.

(* ---------------------------------------------------------------- C01 *)

Lemma T_C01_step_refines c w t :
  0 < cR c -> WInv c w -> core_op (t_op t) ->
  match step_caught c w t with
  | inl (w', o) => WInv c w' /\ (spec_rel (wabs w) (t_op t) o (wabs w') \/ o = OutP PUser)
  | inr f => benign f
  end.
Proof. intros HR. apply step_caught_core. exact HR. Qed.

Lemma T_C01_run_refines c ts :
  0 < cR c -> Forall core_op (map t_op ts) ->
  match run c world0 ts [] with
  | inl (w', outs) => WInv c w' /\ spec_runs ∅ (map t_op ts) outs (wabs w')
  | inr f => benign f
  end.
Proof.
  intros HR Hall. pose proof (run_core c HR ts world0 [] (WInv_empty c) Hall) as H.
  destruct (run c world0 ts []) as [[w' outs]|f]; [|exact H].
  destruct H as (HW & rs & -> & Hr). split; [exact HW|]. cbn [app].
  replace (wabs world0) with (∅ : gmap N (gmap N elem)) in Hr; [exact Hr|].
  unfold wabs, world0. cbn [w_maps]. rewrite fmap_empty. reflexivity.
Qed.

Lemma T_C01_run_refines_no_fuse c ts w acc :
  0 < cR c -> WInv c w -> w_fuse w = None -> Forall core_op (map t_op ts) ->
  match run c w ts acc with
  | inl (w', outs) =>
      WInv c w' /\ w_fuse w' = None /\ exists rs, outs = acc ++ rs /\ spec_runs0 (wabs w) (map t_op ts) rs (wabs w')
  | inr f => benign f
  end.
Proof. intros HR. apply run_core_nofuse. exact HR. Qed.

Lemma T_C01_len c w i m :
  0 < cR c -> reachable c w -> w_maps w !! i = Some m ->
  rt_len (m_rt m) = N.of_nat (size (rt_abs (m_rt m))).
Proof. intros HR Hr Hi. symmetry. eapply Inv_len. eapply reachable_slot; eauto. Qed.

(* core_op excludes nothing but size arguments a Rust caller cannot pass (beyond usize::MAX) *)
Lemma T_C01_every_operation_is_covered (o : op) :
  match o with
  | OReserve _ n | OTryReserve _ n => n <= usize_max
  | OExtend _ _ hint => hint <= usize_max
  | OParExtend _ chunks => N.of_nat (length (concat chunks)) < usize_max
  | _ => True
  end -> core_op o.
Proof. destruct o; cbn; auto. Qed.

(* ---------------------------------------------------------------- C03 *)

Lemma T_C03_step c k kid v s res s' :
  Inv (cR c) (cesz c) (s_rt s) -> map_insert c k kid v s = Ok res s' ->
  progress c (s_rt s) (match hel (main (s_rt s)) !! k with Some _ => false | None => true end) (s_rt s').
Proof.
  intros HI Hrun. pose proof (map_insert_spec c k kid v s HI) as H. unfold wp in H. rewrite Hrun in H. apply H.
Qed.

(* the insertion every vacant entry / raw-entry handle and HashSet::get_or_insert* performs
   ([vac_insert], the model of RawTable::insert_entry) makes the same progress as an insert of a
   new key: min(R, L) elements leave the old table, which is released exactly when none is left *)
Lemma T_C03_entry_insert_step c k kid v s u s' :
  Inv (cR c) (cesz c) (s_rt s) -> rt_abs (s_rt s) !! k = None ->
  vac_insert c k kid v s = Ok u s' ->
  progress c (s_rt s) true (s_rt s').
Proof.
  intros HI Habs Hrun. unfold vac_insert in Hrun.
  pose proof (rt_insert_spec c (Elem k kid v) s HI Habs) as H.
  pose proof (wp_ok_inv _ _ _ _ _ _ H Hrun) as (_ & _ & _ & Hpos & Hfull).
  unfold progress. destruct (lo (s_rt s)) as [o|] eqn:Hlo; [|exact I].
  destruct (N.eq_dec (hgl (main (s_rt s))) 0) as [Hz|Hz].
  - destruct (Hfull Hz) as [Hcontra _]. discriminate.
  - destruct (Hpos ltac:(lia)) as (_ & _ & _ & _ & _ & Hprog). rewrite Hlo in Hprog.
    destruct Hprog as [_ Hprog]. exact Hprog.
Qed.

(* the whole resize: key-adding insertions one after the other; the old table that holds L
   elements is released by exactly the max(1, ceil(L/R))-th of them (never later, whatever the
   keys, the tombstones and the iteration order), and no other resize starts before that *)
Fixpoint insert_seq (c : cfg) (items : list (N * N * N)) (s : st) : option st :=
  match items with
  | [] => Some s
  | (k, kid, v) :: rest => match map_insert c k kid v s with Ok _ s' => insert_seq c rest s' | _ => None end
  end.

Lemma T_C03_finishes c : forall items s o s',
  0 < cR c -> Inv (cR c) (cesz c) (s_rt s) -> lo (s_rt s) = Some o ->
  NoDup (map (fun x => fst (fst x)) items) ->
  (forall x, x ∈ items -> rt_abs (s_rt s) !! fst (fst x) = None) ->
  insert_seq c items s = Some s' ->
  N.max 1 (cdiv (ocnt o) (cR c)) <= N.of_nat (length items) ->
  exists items1 items2 s1, items = items1 ++ items2 /\ insert_seq c items1 s = Some s1 /\
    lo (s_rt s1) = None /\ N.of_nat (length items1) = N.max 1 (cdiv (ocnt o) (cR c)).
Proof.
  induction items as [|[[k kid] v] items IH]; intros s o s' HR HI Hlo Hnd Hfresh Hrun Hlen.
  - cbn [length] in Hlen. lia.
  - cbn [insert_seq] in Hrun. destruct (map_insert c k kid v s) as [res s1|p s1|f] eqn:E; [|discriminate|discriminate].
    pose proof (map_insert_spec c k kid v s HI) as Hsp. unfold wp in Hsp. rewrite E in Hsp.
    destruct Hsp as (HI1 & Hres & Hprog).
    assert (Hk : rt_abs (s_rt s) !! k = None) by (apply (Hfresh (k, kid, v)); left).
    assert (Hmain : hel (main (s_rt s)) !! k = None).
    { rewrite (rt_abs_lookup _ _ _ _ HI) in Hk. destruct (hel (main (s_rt s)) !! k); [discriminate|reflexivity]. }
    rewrite Hk in Hres. destruct Hres as [_ Habs1].
    unfold progress in Hprog. rewrite Hlo, Hmain in Hprog.
    cbn [map] in Hnd. apply NoDup_cons in Hnd as [Hnk Hnd].
    destruct (lo (s_rt s1)) as [o1|] eqn:Hlo1.
    + (* still moving: R elements left the old table *)
      destruct Hprog as (Hcnt & Hgt & _).
      assert (Hcd : cdiv (ocnt o) (cR c) = 1 + cdiv (ocnt o1) (cR c)).
      { rewrite (cdiv_step (ocnt o) (cR c) HR Hgt). f_equal. f_equal. lia. }
      destruct (IH s1 o1 s' HR HI1 Hlo1 Hnd) as (i1 & i2 & s2 & Hi & Hr & Hn & Hl).
      * intros x Hx. rewrite Habs1. rewrite lookup_insert_ne; [apply Hfresh; right; exact Hx|].
        intros Heq. apply Hnk. rewrite Heq. apply elem_of_list_fmap. exists x. auto.
      * exact Hrun.
      * cbn [length] in Hlen. rewrite Nat2N.inj_succ in Hlen. pose proof (cdiv_pos (ocnt o1) (cR c) HR ltac:(lia)). lia.
      * exists ((k, kid, v) :: i1), i2, s2. split; [rewrite Hi; reflexivity|]. split; [cbn [insert_seq]; rewrite E; exact Hr|].
        split; [exact Hn|]. cbn [length]. rewrite Nat2N.inj_succ. pose proof (cdiv_pos (ocnt o1) (cR c) HR ltac:(lia)). lia.
    + (* released by this insertion *)
      exists [(k, kid, v)], items, s1. split; [reflexivity|]. split; [cbn [insert_seq]; rewrite E; reflexivity|].
      split; [exact Hlo1|]. cbn [length]. destruct (N.eq_dec (ocnt o) 0) as [Hz|Hz].
      * rewrite Hz, (cdiv_0 _ HR). reflexivity.
      * rewrite (cdiv_small (ocnt o) (cR c)) by lia. reflexivity.
Qed.

Lemma T_C03_two_tables c w i m o :
  0 < cR c -> reachable c w -> w_maps w !! i = Some m -> lo (m_rt m) = Some o ->
  oit o = ocnt o /\ ocnt o = N.of_nat (length (orem o)).
Proof.
  intros HR Hr Hi Hlo. destruct (reachable_slot c w i m HR Hr Hi) as (_ & _ & Ho). rewrite Hlo in Ho.
  destruct Ho as (H1 & H2 & _). auto.
Qed.

(* ---------------------------------------------------------------- C04 *)

Lemma T_C04_capacity_ge_len c w i m :
  0 < cR c -> reachable c w -> w_maps w !! i = Some m -> rt_len (m_rt m) <= rt_capacity (m_rt m).
Proof. intros HR Hr Hi. apply (Inv_cap_ge_len c). eapply reachable_slot; eauto. Qed.

Lemma T_C04_headroom_invariant c w i m o :
  0 < cR c -> reachable c w -> w_maps w !! i = Some m -> lo (m_rt m) = Some o ->
  need (ocnt o) (cR c) <= hgl (main (m_rt m)).
Proof.
  intros HR Hr Hi Hlo. destruct (reachable_slot c w i m HR Hr Hi) as (_ & _ & Ho).
  rewrite Hlo in Ho. destruct Ho as (_ & _ & _ & _ & Hn). exact Hn.
Qed.

Lemma T_C04_full_implies_no_resize c w i m :
  0 < cR c -> reachable c w -> w_maps w !! i = Some m -> hgl (main (m_rt m)) = 0 -> lo (m_rt m) = None.
Proof.
  intros HR Hr Hi Hz. destruct (lo (m_rt m)) as [o|] eqn:Hlo; [|reflexivity].
  pose proof (T_C04_headroom_invariant c w i m o HR Hr Hi Hlo) as H.
  pose proof (need_ge1 (ocnt o) (cR c) HR). lia.
Qed.

Lemma T_C04_sizing_keeps_headroom c w t :
  0 < cR c -> WInv c w -> core_op (t_op t) ->
  match step_caught c w t with
  | inl (w', _) => WInv c w'
  | inr f => benign f
  end.
Proof.
  intros HR HW Hc. pose proof (step_caught_core c HR w t HW Hc) as H.
  destruct (step_caught c w t) as [[w' o]|f]; [exact (proj1 H)|exact H].
Qed.

(* ---------------------------------------------------------------- C05 *)

Lemma T_C05_no_fault c ts :
  0 < cR c -> Forall core_op (map t_op ts) ->
  forall f, run c world0 ts [] = inr f -> benign f.
Proof.
  intros HR Hall f Hrun. pose proof (run_core c HR ts world0 [] (WInv_empty c) Hall) as H.
  rewrite Hrun in H. exact H.
Qed.

Lemma T_C05_cursor_agrees c w i m o :
  0 < cR c -> reachable c w -> w_maps w !! i = Some m -> lo (m_rt m) = Some o ->
  oit o = N.of_nat (length (orem o)) /\ NoDup (map ek (orem o)) /\
  (forall e, e ∈ orem o -> hel (main (m_rt m)) !! ek e = None).
Proof.
  intros HR Hr Hi Hlo. destruct (reachable_slot c w i m HR Hr Hi) as (_ & _ & Ho). rewrite Hlo in Ho.
  destruct Ho as (H1 & H2 & H3 & H4 & _). unfold olen in H1. split; [congruence|]. auto.
Qed.

(* C04, as stated: inserting capacity() - len() previously unseen keys *)
Lemma T_C04_fill c es s :
  Inv (cR c) (cesz c) (s_rt s) -> NoDup (map ek es) -> (forall e, e ∈ es -> rt_abs (s_rt s) !! ek e = None) ->
  N.of_nat (length es) = rt_capacity (s_rt s) - rt_len (s_rt s) ->
  match iterM (rt_insert c) es s with
  | Ok _ s' =>
      Inv (cR c) (cesz c) (s_rt s') /\ rt_abs (s_rt s') = insert_all (rt_abs (s_rt s)) es /\
      hB (main (s_rt s')) = hB (main (s_rt s)) /\ rt_capacity (s_rt s) <= rt_capacity (s_rt s') /\
      l_alloc (s_log s') = l_alloc (s_log s) /\ (es <> [] -> lo (s_rt s') = None)
  | Unwind p s' => Inv (cR c) (cesz c) (s_rt s') /\ p = PUser
  | Fault f => benign f
  end.
Proof. intros HI Hnd Hf Hl. exact (fill_to_capacity c es s HI Hnd Hf Hl). Qed.

(* ---------------------------------------------------------------- C02 *)

Definition log_within (d : delta) (s s' : st) : Prop := within d (s_log s) (s_log s').

Lemma cost_run {A} d (m : M' A) s : cost d m ->
  match m s with Ok _ s' | Unwind _ s' => log_within d s s' | Fault _ => True end.
Proof. intros H. specialize (H s). unfold wpp, okq, oku in H. destruct (m s); [apply H|apply H|exact I]. Qed.

(* insert: the key's hash plus at most R moves with one hash each: <= 1 + R hashes, <= 1 allocation *)
Lemma T_C02_insert c k kid v s :
  match map_insert c k kid v s with
  | Ok _ s' | Unwind _ s' => log_within (D (1 + cR c) (cR c) 1 2) s s'
  | Fault _ => True
  end.
Proof. apply cost_run, cost_map_insert. Qed.

Lemma T_C02_lookup g k wv s :
  match map_get g k wv s with
  | Ok _ s' | Unwind _ s' => log_within (D 1 0 0 0) s s'
  | Fault _ => True
  end.
Proof. apply cost_run, cost_map_get. Qed.

Lemma T_C02_remove c k s :
  match map_remove_entry c k s with
  | Ok _ s' | Unwind _ s' => log_within (D 1 0 0 1) s s'
  | Fault _ => True
  end.
Proof. apply cost_run, cost_map_remove_entry. Qed.

(* every step of an entry / raw-entry chain (the inserting ones included) costs at most what an
   insert costs: its own hash plus at most R moves with one hash each, at most one allocation *)
Lemma T_C02_entry_step c raw e st0 s :
  match entry_step c raw e st0 s with
  | Ok _ s' | Unwind _ s' => log_within (D (1 + cR c) (cR c) 1 2) s s'
  | Fault _ => True
  end.
Proof. apply cost_run, (cost_entry_step c raw e st0). Qed.

(* entry(k) followed by n steps: the lookup's hash, then n bounded steps *)
Lemma T_C02_entry_chain c k kid ss s :
  match map_entry c k kid ss s with
  | Ok _ s' | Unwind _ s' =>
      log_within (dadd (D 1 0 0 0) (dmul (N.of_nat (length ss)) (D (1 + cR c) (cR c) 1 2))) s s'
  | Fault _ => True
  end.
Proof. apply cost_run, (cost_map_entry c k kid ss). Qed.

(* extend, after its up-front reserve (which the property exempts): the insertion loop over n
   items costs at most n inserts, i.e. every item added by extend moves at most R elements *)
Definition extend_loop (c : cfg) (items : list (N * N * N)) : M' unit :=
  iterM (fun x => let '(k, kid, v) := x in
                  o <- map_insert c k kid v ;;
                  match o with Some v' => drop_val v' | None => ret tt end) items.

Lemma extend_is_reserve_then_loop c items hint :
  map_extend c items hint =
  (s <- get ;;
   let reserve := if rt_len (s_rt s) =? 0 then hint else hint / 2 + hint mod 2 in
   on_unwind (rt_reserve c false reserve) (iterM (fun x => drop_key (snd (fst x)) ;;; drop_val (snd x)) items) ;;;
   extend_loop c items).
Proof. reflexivity. Qed.

Lemma cost_extend_loop c items :
  cost (dmul (N.of_nat (length items)) (D (1 + cR c) (cR c) 1 2)) (extend_loop c items).
Proof.
  apply cost_iterM. intros [[k kid] v].
  eapply cost_weaken; [|eapply cost_bind; [apply (cost_map_insert c k kid v)|]].
  2: { intros [v'|]; [apply cost_drop_val|apply cost_ret]. }
  unfold dle, dadd, dz; cbn. lia.
Qed.

Lemma T_C02_extend_loop c items s :
  match extend_loop c items s with
  | Ok _ s' | Unwind _ s' =>
      log_within (dmul (N.of_nat (length items)) (D (1 + cR c) (cR c) 1 2)) s s'
  | Fault _ => True
  end.
Proof. apply cost_run, cost_extend_loop. Qed.

(* ---------------------------------------------------------------- C10 *)

Lemma T_C10_with_capacity c fallible cap s t s' :
  hb_with_capacity c fallible cap s = Ok (Some t) s' -> cap <= hgl t /\ hn t = 0 /\ hb_ok (cesz c) t.
Proof.
  intros Hrun. pose proof (hb_with_capacity_spec c fallible cap
    (fun r _ => match r with Some t => cap <= hgl t /\ hn t = 0 /\ hb_ok (cesz c) t | None => True end) (fun _ _ => True) s) as H.
  unfold wp in H. rewrite Hrun in H. apply H; auto.
Qed.

(* reserve / successful try_reserve: capacity() >= len() + n *)
Lemma T_C10_reserve c fallible n s s' :
  Inv (cR c) (cesz c) (s_rt s) -> n <= usize_max -> rt_reserve c fallible n s = Ok true s' ->
  Inv (cR c) (cesz c) (s_rt s') /\ rt_abs (s_rt s') = rt_abs (s_rt s) /\
  rt_len (s_rt s') + n <= rt_capacity (s_rt s').
Proof.
  intros HI Hn Hrun.
  pose proof (rt_reserve_spec c fallible n
    (fun b s2 => b = true -> Inv (cR c) (cesz c) (s_rt s2) /\ rt_abs (s_rt s2) = rt_abs (s_rt s) /\ rt_len (s_rt s2) + n <= rt_capacity (s_rt s2))
    (fun _ _ => True) s HI Hn) as H.
  unfold wp in H. rewrite Hrun in H. apply H; auto.
  - intros s2 (HI2 & Habs2 & Hroom) _. split; [exact HI2|]. split; [exact Habs2|].
    destruct HI2 as (HR & _ & Ho). unfold rt_len, rt_capacity, hlen, olen.
    destruct (lo (s_rt s2)) as [o|]; [|lia].
    destruct Ho as (_ & _ & _ & _ & Hneed). destruct Hroom as [Hroom|Hroom]; [lia|].
    pose proof (need_ge (ocnt o) (cR c) HR). lia.
  - discriminate.
Qed.

(* a failed try_reserve leaves the contents unchanged *)
Lemma T_C10_try_reserve_err c n s s' :
  Inv (cR c) (cesz c) (s_rt s) -> n <= usize_max -> rt_reserve c true n s = Ok false s' ->
  Inv (cR c) (cesz c) (s_rt s') /\ rt_abs (s_rt s') = rt_abs (s_rt s).
Proof.
  intros HI Hn Hrun.
  pose proof (rt_reserve_spec c true n
    (fun b s2 => b = false -> Inv (cR c) (cesz c) (s_rt s2) /\ rt_abs (s_rt s2) = rt_abs (s_rt s))
    (fun _ _ => True) s HI Hn) as H.
  unfold wp in H. rewrite Hrun in H. apply H; auto. discriminate.
Qed.

(* reserve panics only with the documented capacity overflow (or an injected user panic), and
   then the contents are unchanged *)
Lemma T_C10_reserve_panic c fallible n s p s' :
  Inv (cR c) (cesz c) (s_rt s) -> n <= usize_max -> rt_reserve c fallible n s = Unwind p s' ->
  Inv (cR c) (cesz c) (s_rt s') /\ (p = PUser \/ (p = PCapOverflow /\ fallible = false /\ rt_abs (s_rt s') = rt_abs (s_rt s))).
Proof.
  intros HI Hn Hrun.
  pose proof (rt_reserve_spec c fallible n (fun _ _ => True)
    (fun p s2 => Inv (cR c) (cesz c) (s_rt s2) /\ (p = PUser \/ (p = PCapOverflow /\ fallible = false /\ rt_abs (s_rt s2) = rt_abs (s_rt s))))
    s HI Hn) as H.
  unfold wp in H. rewrite Hrun in H. apply H; auto.
  intros q s2 (HI2 & Hq & _ & Hov) Hf. split; [exact HI2|]. destruct Hq as [->| ->]; [left; reflexivity|right; auto].
Qed.

(* neither ever returns normally having reserved nothing: a request that cannot be met
   (n beyond isize::MAX, a fortiori one that overflows usize) is never answered Ok / normally *)
Lemma T_C10_never_silent c fallible n s s' :
  Inv (cR c) (cesz c) (s_rt s) -> isize_max < n -> n <= usize_max -> rt_reserve c fallible n s <> Ok true s'.
Proof.
  intros HI Hbig Hn Hrun. destruct (T_C10_reserve c fallible n s s' HI Hn Hrun) as (HI' & _ & Hcap).
  destruct HI' as (_ & Hok & _). pose proof (hb_ok_cap_bound _ _ Hok).
  unfold rt_capacity, rt_len, hlen in Hcap. lia.
Qed.

(* shrink_to / shrink_to_fit *)
Lemma T_C10_shrink c m s s' :
  Inv (cR c) (cesz c) (s_rt s) -> rt_shrink_to c m s = Ok tt s' -> shrink_post c (s_rt s) m (s_rt s').
Proof.
  intros HI Hrun. pose proof (rt_shrink_to_spec c m (fun _ s2 => shrink_post c (s_rt s) m (s_rt s2)) (fun _ _ => True) s HI) as H.
  unfold wp in H. rewrite Hrun in H. apply H; auto.
Qed.

(* after a successful reserve(n), the next n new keys are inserted without growth or allocation *)
Lemma T_C10_reserved_inserts c es s :
  Inv (cR c) (cesz c) (s_rt s) -> NoDup (map ek es) -> (forall e, e ∈ es -> rt_abs (s_rt s) !! ek e = None) ->
  rt_len (s_rt s) + N.of_nat (length es) <= rt_capacity (s_rt s) ->
  match iterM (rt_insert c) es s with
  | Ok _ s' => Inv (cR c) (cesz c) (s_rt s') /\ hB (main (s_rt s')) = hB (main (s_rt s)) /\
               l_alloc (s_log s') = l_alloc (s_log s) /\ rt_abs (s_rt s') = insert_all (rt_abs (s_rt s)) es
  | Unwind p s' => p = PUser
  | Fault f => benign f
  end.
Proof.
  intros HI Hnd Hf Hroom.
  assert (Hfit : N.of_nat (length es) + left (s_rt s) <= hgl (main (s_rt s))).
  { unfold rt_len, rt_capacity, hlen, olen, left in *. destruct (lo (s_rt s)); lia. }
  pose proof (fill_spec c es s HI Hnd Hf Hfit) as H. unfold wp in H.
  destruct (iterM (rt_insert c) es s) as [a s'|p s'|f]; [|apply H|exact H].
  destruct H as (H1 & H2 & H3 & _ & H5 & _). auto.
Qed.

(* ---------------------------------------------------------------- C08, C09: one call, by its kind *)

Lemma T_step_ok c w t o w' :
  0 < cR c -> WInv c w -> core_op (t_op t) -> step c w t = Ok o w' ->
  WInv c w' /\ spec_rel (wabs w) (t_op t) o (wabs w').
Proof.
  intros HR HW Hc Hrun. pose proof (step_core c HR w t HW Hc) as H. rewrite Hrun in H. exact H.
Qed.

(* iter / keys / values / iter_mut / values_mut: every element present, exactly once *)
Lemma T_C08_iter c w t s variant delta o w' :
  0 < cR c -> WInv c w -> t_op t = OIter s variant delta -> step c w t = Ok o w' ->
  WInv c w' /\ exists (m : gmap N elem) l, wabs w !! s = Some m /\ NoDup (map ek l) /\ list_to_emap l = m /\
    o = OutL (map elem3 l) /\ wabs w' = <[s := if delta =? 0 then m else bumpv delta <$> m]> (wabs w).
Proof.
  intros HR HW Eop Hrun. assert (Hc : core_op (t_op t)) by (rewrite Eop; exact I).
  destruct (T_step_ok c w t o w' HR HW Hc Hrun) as [HW' Hs]. rewrite Eop in Hs. auto.
Qed.

(* the exact length an iterator reports when created *)
Lemma T_C08_exact_len c r l : Inv (cR c) (cesz c) r -> iter_of r l -> N.of_nat (length l) = rt_len r.
Proof. apply iter_of_length. Qed.

(* keys() and values() enumerate in the same order as iter(): one traversal serves them all *)
Lemma T_C08_same_order c w t1 t2 s v1 v2 delta :
  t_op t1 = OIter s v1 delta -> t_op t2 = OIter s v2 delta ->
  t_on t1 = t_on t2 -> t_tomb t1 = t_tomb t2 -> t_perm t1 = t_perm t2 -> t_qperm t1 = t_qperm t2 ->
  step c w t1 = step c w t2.
Proof. intros E1 E2 H1 H2 H3 H4. unfold step. rewrite E1, E2, H1, H2, H3, H4. reflexivity. Qed.

(* drain: a prefix of an enumeration of the contents is yielded; the map is empty and usable *)
Lemma T_C08_drain c w t s j forget o w' :
  0 < cR c -> WInv c w -> t_op t = ODrain s j forget -> step c w t = Ok o w' ->
  WInv c w' /\ exists (m : gmap N elem) l, wabs w !! s = Some m /\ NoDup (map ek l) /\ list_to_emap l = m /\
    o = OutL (map elem3 (firstn (N.to_nat j) l)) /\ wabs w' = <[s := (∅ : gmap N elem)]> (wabs w).
Proof.
  intros HR HW Eop Hrun. assert (Hc : core_op (t_op t)) by (rewrite Eop; exact I).
  destruct (T_step_ok c w t o w' HR HW Hc Hrun) as [HW' Hs]. rewrite Eop in Hs. auto.
Qed.

Lemma T_C08_into_iter c w t s j o w' :
  0 < cR c -> WInv c w -> t_op t = OIntoIter s j -> step c w t = Ok o w' ->
  WInv c w' /\ exists (m : gmap N elem) l, wabs w !! s = Some m /\ NoDup (map ek l) /\ list_to_emap l = m /\
    o = OutL (map elem3 (firstn (N.to_nat j) l)) /\ wabs w' = delete s (wabs w).
Proof.
  intros HR HW Eop Hrun. assert (Hc : core_op (t_op t)) by (rewrite Eop; exact I).
  destruct (T_step_ok c w t o w' HR HW Hc Hrun) as [HW' Hs]. rewrite Eop in Hs. auto.
Qed.

(* retain(f): f sees every element once (l), the map keeps exactly what f accepted, as f left it *)
Lemma T_C09_retain c w t s keep delta o w' :
  0 < cR c -> WInv c w -> t_op t = ORetain s keep delta -> step c w t = Ok o w' ->
  WInv c w' /\ exists (m : gmap N elem) l, wabs w !! s = Some m /\ NoDup (map ek l) /\ list_to_emap l = m /\
    o = OutL (map elem3 l) /\ wabs w' = <[s := omap (retain_act keep delta) m]> (wabs w).
Proof.
  intros HR HW Eop Hrun. assert (Hc : core_op (t_op t)) by (rewrite Eop; exact I).
  destruct (T_step_ok c w t o w' HR HW Hc Hrun) as [HW' Hs]. rewrite Eop in Hs. auto.
Qed.

(* drain_filter(f), consumed for j items or to the end, then dropped or forgotten *)
Lemma T_C09_drain_filter c w t s take delta j forget o w' :
  0 < cR c -> WInv c w -> t_op t = ODrainFilter s take delta j forget -> step c w t = Ok o w' ->
  WInv c w' /\ exists (m : gmap N elem) l v1 rest m', wabs w !! s = Some m /\ NoDup (map ek l) /\ list_to_emap l = m /\
    l = v1 ++ rest /\ o = OutL (map elem3 (yield_e take delta v1)) /\
    pass_res (df_act take delta) m (if forget then v1 else l) m' /\
    match j with Some j => (length (yield_e take delta v1) <= N.to_nat j)%nat /\
                           (rest <> [] -> length (yield_e take delta v1) = N.to_nat j)
            | None => rest = [] end /\
    wabs w' = <[s := m']> (wabs w).
Proof.
  intros HR HW Eop Hrun. assert (Hc : core_op (t_op t)) by (rewrite Eop; exact I).
  destruct (T_step_ok c w t o w' HR HW Hc Hrun) as [HW' Hs]. rewrite Eop in Hs. auto.
Qed.

(* a panicking predicate leaves every map's invariant intact (C07 for retain / drain_filter) *)
Lemma T_C09_unwind c w t p w' :
  0 < cR c -> WInv c w -> core_op (t_op t) -> step c w t = Unwind p w' -> WInv c w'.
Proof.
  intros HR HW Hc Hrun. pose proof (step_core c HR w t HW Hc) as H. rewrite Hrun in H. cbn [wres] in H.
  destruct H as [[_ [H _]]|[_ H]]; exact H.
Qed.

(* ---------------------------------------------------------------- C11 *)

(* clone(): the new map holds exactly the source's pairs; the source is unchanged *)
Lemma T_C11_clone c w t s d o w' :
  0 < cR c -> WInv c w -> t_op t = OClone s d -> s <> d -> step c w t = Ok o w' ->
  WInv c w' /\ exists m : gmap N elem, wabs w !! s = Some m /\ wabs w' !! d = Some m /\ wabs w' !! s = Some m /\
    (forall i, i <> d -> wabs w' !! i = wabs w !! i).
Proof.
  intros HR HW Eop Hne Hrun. assert (Hc : core_op (t_op t)) by (rewrite Eop; exact I).
  destruct (T_step_ok c w t o w' HR HW Hc Hrun) as [HW' Hs]. rewrite Eop in Hs. cbn [spec_rel] in Hs.
  destruct Hs as (m & Hm & [[_ ->]|[Ho _]]).
  - split; [exact HW'|]. exists m. split; [exact Hm|]. split; [apply lookup_insert|].
    split; [rewrite lookup_insert_ne by congruence; exact Hm|]. intros i Hi. apply lookup_insert_ne. congruence.
  - exfalso. (* an Ok outcome is not a panic *)
    unfold step in Hrun. rewrite Eop in Hrun. destruct (w_maps w !! s) as [ms|]; [|discriminate].
    destruct (negb _); [discriminate|]. destruct (rt_clone c _); [|discriminate|discriminate]. injection Hrun as <- _. discriminate.
Qed.

(* clone_from(): the destination's previous contents (both its tables) are gone, it holds
   exactly the source's pairs, and it has adopted the source's hasher: lookups are lawful again *)
Lemma T_C11_clone_from c w t d s o w' :
  0 < cR c -> WInv c w -> t_op t = OCloneFrom d s -> s <> d -> step c w t = Ok o w' ->
  WInv c w' /\ exists (m : gmap N elem) ms md', wabs w !! s = Some m /\ wabs w' !! d = Some m /\ wabs w' !! s = Some m /\
    w_maps w !! s = Some ms /\ w_maps w' !! d = Some md' /\ m_hs md' = m_hs ms /\ m_filed md' = m_hs ms /\
    (forall i, i <> d -> wabs w' !! i = wabs w !! i).
Proof.
  intros HR HW Eop Hne Hrun. assert (Hc : core_op (t_op t)) by (rewrite Eop; exact I).
  destruct (T_step_ok c w t o w' HR HW Hc Hrun) as [HW' Hs]. rewrite Eop in Hs. cbn [spec_rel] in Hs.
  unfold step in Hrun. rewrite Eop in Hrun.
  destruct (w_maps w !! s) as [src|] eqn:Es; [|discriminate]. destruct (w_maps w !! d) as [dst|] eqn:Ed; [|discriminate].
  destruct (negb _); [discriminate|]. destruct (rt_clone_from c _ _) as [a s1|p s1|f]; [|discriminate|discriminate].
  injection Hrun as <- <-.
  destruct Hs as (m & md & Hm & Hmd & [[_ Hw']|[Ho _]]); [|discriminate].
  split; [exact HW'|]. exists m, src, (MS (s_rt s1) (m_hs src) (m_hs src)).
  split; [exact Hm|]. rewrite Hw'. split; [apply lookup_insert|]. split; [rewrite lookup_insert_ne by congruence; exact Hm|].
  split; [reflexivity|]. split; [unfold store; cbn [w_maps]; apply lookup_insert|]. split; [reflexivity|]. split; [reflexivity|].
  intros i Hi. apply lookup_insert_ne. congruence.
Qed.

(* no operation on one map is observable through another: a call changes the contents of the
   slots it names only *)
Definition op_writes (o : op) : list N :=
  match o with
  | ONew s _ _ | OInsert s _ _ _ | OGet s _ _ _ | ORemove s _ _ | OClear s | OReserve s _ | OTryReserve s _
  | OShrinkTo s _ | OIter s _ _ | ODrain s _ _ | OIntoIter s _ | ORetain s _ _ | ODrainFilter s _ _ _ _
  | OExtend s _ _ | OFromIter s _ _ _ | ODrop s | OEntry s _ _ _ | ORawEntry s _ _ _ | ORawGet s _ _ => [s]
  | OClone _ d | OCloneFrom d _ => [d]
  | OEq a _ => [a]
  | OSetAlg _ a _ | OSetPred _ a _ => [a]
  | OParIter s _ _ _ | OParExtend s _ | OSerialize s | ODeserInPlace s _ _ => [s]
  end.

Lemma T_C11_independent c w t o w' i :
  0 < cR c -> WInv c w -> core_op (t_op t) -> step c w t = Ok o w' -> i ∉ op_writes (t_op t) ->
  wabs w' !! i = wabs w !! i.
Proof.
  intros HR HW Hc Hrun Hi. destruct (T_step_ok c w t o w' HR HW Hc Hrun) as [_ Hs].
  destruct (t_op t); cbn [core_op] in Hc; try contradiction; cbn [spec_rel op_writes] in *;
    apply not_elem_of_cons in Hi as [Hi _].
  - destruct Hs as [_ ->]. apply lookup_insert_ne. congruence.
  - destruct Hs as (m & _ & [[_ ->]|[_ ->]]); [apply lookup_insert_ne; congruence|reflexivity].
  - destruct Hs as (m & _ & _ & ->). apply lookup_insert_ne. congruence.
  - destruct Hs as (m & _ & _ & ->). apply lookup_insert_ne. congruence.
  - destruct Hs as (m & _ & _ & ->). apply lookup_insert_ne. congruence.
  - destruct Hs as (m & _ & _ & ->). reflexivity.
  - destruct Hs as (m & _ & _ & ->). reflexivity.
  - destruct Hs as (m & _ & _ & ->). reflexivity.
  - destruct Hs as (m & l & _ & _ & _ & _ & ->). apply lookup_insert_ne. congruence.
  - destruct Hs as (m & l & _ & _ & _ & _ & ->). apply lookup_insert_ne. congruence.
  - destruct Hs as (m & l & _ & _ & _ & _ & ->). apply lookup_delete_ne. congruence.
  - destruct Hs as (m & l & _ & _ & _ & _ & ->). apply lookup_insert_ne. congruence.
  - destruct Hs as (m & l & v1 & rest & m' & _ & _ & _ & _ & _ & _ & _ & ->). apply lookup_insert_ne. congruence.
  - destruct Hs as (m & _ & [[_ ->]|[_ [m' ->]]]); apply lookup_insert_ne; congruence.
  - destruct Hs as [[_ ->]|[_ [m' ->]]]; apply lookup_insert_ne; congruence.
  - destruct Hs as (m & _ & [[_ ->]|[_ ->]]); [apply lookup_insert_ne; congruence|reflexivity].
  - destruct Hs as (m & md & _ & _ & [[_ ->]|[_ [m' ->]]]); apply lookup_insert_ne; congruence.
  - destruct Hs as (ma & mb & _ & _ & _ & ->). reflexivity.
  - destruct Hs as [_ ->]. apply lookup_delete_ne. congruence.
  - destruct Hs as (m & _ & [[_ [m' ->]]|Hs]); [apply lookup_insert_ne; congruence|].
    destruct (ref_chain _ _ _ _ _); [contradiction| |]; destruct Hs as [_ ->]; apply lookup_insert_ne; congruence.
  - destruct Hs as (m & _ & [[_ [m' ->]]|Hs]); [apply lookup_insert_ne; congruence|].
    destruct (ref_chain _ _ _ _ _); [contradiction| |]; destruct Hs as [_ ->]; apply lookup_insert_ne; congruence.
  - destruct Hs as (m & _ & _ & ->). reflexivity.
  - destruct Hs as (ma & mb & _ & _ & -> & _). reflexivity.
  - destruct Hs as (ma & mb & _ & _ & -> & _). reflexivity.
  - destruct Hs as (m & l & _ & _ & _ & _ & ->). apply lookup_insert_ne. congruence.
  - destruct Hs as (m & _ & [[_ ->]|[_ [m' ->]]]); apply lookup_insert_ne; congruence.
  - destruct Hs as (m & l & _ & _ & _ & _ & ->). reflexivity.
  - destruct Hs as (m & _ & [[_ ->]|[_ [m' ->]]]); apply lookup_insert_ne; congruence.
Qed.

(* ---------------------------------------------------------------- C14 *)

(* == is true exactly when both maps hold the same keys with equal values: whatever their
   layout, history, capacity, resize phase or hasher *)
Lemma T_C14_eq_iff c w t a b o w' :
  0 < cR c -> WInv c w -> t_op t = OEq a b -> step c w t = Ok o w' ->
  exists (ma mb : gmap N elem) bb, wabs w !! a = Some ma /\ wabs w !! b = Some mb /\ o = OutB bb /\
    (bb = true <-> veq ma mb) /\ wabs w' = wabs w.
Proof.
  intros HR HW Eop Hrun. assert (Hc : core_op (t_op t)) by (rewrite Eop; exact I).
  destruct (T_step_ok c w t o w' HR HW Hc Hrun) as [_ Hs]. rewrite Eop in Hs. cbn [spec_rel] in Hs.
  destruct Hs as (ma & mb & Ha & Hb & (bb & -> & Hbb) & ->). exists ma, mb, bb. auto.
Qed.

Lemma T_C14_veq_equiv :
  (forall a, veq a a) /\ (forall a b, veq a b -> veq b a) /\ (forall a b d, veq a b -> veq b d -> veq a d).
Proof. unfold veq. repeat split; intros; congruence. Qed.

(* false whenever some key or value differs *)
Lemma T_C14_veq_differs a b k :
  ev <$> a !! k <> ev <$> b !! k -> ~ veq a b.
Proof. intros Hne Hv. apply Hne. apply Hv. Qed.

(* lookups see the contents only: the result is a function of (contents !! k) *)
Lemma T_C14_lookup_by_contents c w t s variant k wv o w' :
  0 < cR c -> WInv c w -> t_op t = OGet s variant k wv -> step c w t = Ok o w' ->
  exists m : gmap N elem, wabs w !! s = Some m /\ o = get_out (gvar_of variant) (m !! k).
Proof.
  intros HR HW Eop Hrun. unfold step in Hrun. rewrite Eop in Hrun. unfold with_slot_h, with_slot_gen in Hrun.
  destruct (w_maps w !! s) as [ms|] eqn:Hs; [|discriminate]. destruct (_ && _); [discriminate|].
  pose proof (map_get_spec c (gvar_of variant) k wv (load w ms (t_on t, t_tomb t) (t_perm t, t_qperm t)) (HW s ms Hs)) as Hg.
  unfold wp in Hg. destruct (map_get _ _ _ _) as [x s1|p s1|f]; [|discriminate|discriminate].
  injection Hrun as <- _. destruct Hg as (_ & Ho & _). exists (rt_abs (m_rt ms)). split; [apply wabs_lookup; exact Hs|exact Ho].
Qed.

(* ---------------------------------------------------------------- C12 *)

(* entry(k) / raw_entry_mut() report Occupied exactly when the key is present, and the handle
   records where the element is stored: in the new table, or among the old table's leftovers *)
Lemma T_C12_occupied_iff c r k :
  Inv (cR c) (cesz c) r ->
  (rt_abs r !! k = None <-> rt_find_pure r k = None) /\
  (forall im x, rt_find_pure r k = Some (im, x) ->
     rt_abs r !! k = Some x /\
     if im then hel (main r) !! k = Some x
     else hel (main r) !! k = None /\ exists o, lo r = Some o /\ lookup_list k (orem o) = Some x).
Proof.
  intros HI. pose proof (rt_find_abs c r k HI) as H. split.
  - rewrite H. destruct (rt_find_pure r k) as [[im x]|]; cbn; split; congruence.
  - intros im x Hf. rewrite H, Hf. split; [reflexivity|]. destruct im; [apply rt_find_main|apply rt_find_old]; exact Hf.
Qed.

(* every accessor of a handle acts on the element the handle designates, wherever it is stored:
   one step of a chain refines the reference step on the plain contents, keeps the invariant,
   and leaves a handle that still designates its element *)
Lemma T_C12_step c raw e st0 s :
  Inv (cR c) (cesz c) (s_rt s) -> ent_ok (s_rt s) e ->
  wp (entry_step c raw e st0) (EntryProofs.step_Q c raw s e st0) (EntryProofs.step_U c raw s e st0) s.
Proof. apply entry_step_spec. Qed.

(* an inserting call returns a handle that designates the newly stored element, which lies in
   the new (main) table even when the call started a resize or moved other elements; writes
   through the handle are seen by later lookups because later steps and lookups find that
   same element (T_C12_step, T_C12_chain) *)
Lemma T_C12_insert_handle c raw e st0 s r s' im k held :
  Inv (cR c) (cesz c) (s_rt s) -> ent_ok (s_rt s) e ->
  entry_step c raw e st0 s = Ok r s' -> fst r = EOcc im k held ->
  (exists kk h, e = EVac kk h) ->
  im = true /\ exists x, hel (main (s_rt s')) !! k = Some x /\ rt_abs (s_rt s') !! k = Some x.
Proof.
  intros HI Hok Hrun Hr (kk & h & ->). pose proof (entry_step_spec c raw (EVac kk h) st0 s HI Hok) as H.
  unfold wp in H. rewrite Hrun in H. destruct H as (HI' & Hok' & _). rewrite Hr in Hok'. cbn [ent_ok] in Hok'.
  destruct Hok' as [x Hx].
  assert (im = true) as ->.
  { destruct st0, h as [h|]; cbn [entry_step] in Hrun; try discriminate;
      unfold bind in Hrun;
      repeat match type of Hrun with
             | match ?m s with _ => _ end = _ => destruct (m s) as [? ?|? ?|?]; try discriminate
             | match ?m ?z with _ => _ end = _ => destruct (m z) as [? ?|? ?|?]; try discriminate
             end; unfold ret in Hrun; injection Hrun as <- _; cbn [fst] in Hr; congruence. }
  split; [reflexivity|]. exists x. split; [apply rt_find_main; exact Hx|].
  rewrite (rt_find_abs c _ k HI'), Hx. reflexivity.
Qed.

(* whole chains, at the level of histories: the outcomes of all steps and the final contents
   are those of the reference chain on the plain map *)
Lemma T_C12_chain c w t s k kid ss o w' :
  0 < cR c -> WInv c w -> t_op t = OEntry s k kid ss -> step c w t = Ok o w' ->
  WInv c w' /\ chain_rel false (Some kid) (wabs w) s k ss o (wabs w').
Proof.
  intros HR HW Eop Hrun. assert (Hc : core_op (t_op t)) by (rewrite Eop; exact I).
  destruct (T_step_ok c w t o w' HR HW Hc Hrun) as [HW' Hs]. rewrite Eop in Hs. auto.
Qed.

Lemma T_C12_raw_chain c w t s variant k ss o w' :
  0 < cR c -> WInv c w -> t_op t = ORawEntry s variant k ss -> step c w t = Ok o w' ->
  WInv c w' /\ chain_rel true None (wabs w) s k ss o (wabs w').
Proof.
  intros HR HW Eop Hrun. assert (Hc : core_op (t_op t)) by (rewrite Eop; exact I).
  destruct (T_step_ok c w t o w' HR HW Hc Hrun) as [HW' Hs]. rewrite Eop in Hs. auto.
Qed.

(* raw_entry().from_*: a read-only lookup of the same contents *)
Lemma T_C12_raw_get c w t s variant k o w' :
  0 < cR c -> WInv c w -> t_op t = ORawGet s variant k -> step c w t = Ok o w' ->
  WInv c w' /\ exists m : gmap N elem, wabs w !! s = Some m /\
    o = OutOKV ((fun e => (ekid e, ev e)) <$> m !! k) /\ wabs w' = wabs w.
Proof.
  intros HR HW Eop Hrun. assert (Hc : core_op (t_op t)) by (rewrite Eop; exact I).
  destruct (T_step_ok c w t o w' HR HW Hc Hrun) as [HW' Hs]. rewrite Eop in Hs. auto.
Qed.

(* replace_entry_with(None) followed by inserting through the returned vacant handle leaves
   exactly one element for the key (the contents are a finite map: one element per key), with
   the key object the entry carried and the new value; every other key is untouched *)
Lemma T_C12_replace_none_then_insert (m : gmap N elem) k held x d v w :
  m !! k = Some x ->
  exists a, ref_chain false m (AOcc k held) [SOccReplaceWith false d; SVacInsert v w] [] =
    ROk (<[k := Elem k (ekid x) (match w with Some w => w | None => v end)]> m) a (OutS [OutU; OutN v]).
Proof.
  intros Hk. cbn [ref_chain ref_step]. rewrite Hk. cbn [ref_replace ref_chain ref_step app]. rewrite lookup_delete.
  cbn [ref_chain app]. eexists. unfold put. rewrite insert_delete_insert. reflexivity.
Qed.

(* finding D6 (recorded, not repaired): Entry::insert on a vacant entry returns an occupied
   handle that carries no key, so replace_key / replace_entry on it unwrap None.  This is the
   only way a chain of the typed entry API panics: chains without Entry::insert never do. *)
Definition no_entry_insert (ss : list estep) : Prop :=
  Forall (fun s => match s with SInsertE _ => False | _ => True end) ss.
Definition holds_key (a : aent) : Prop := match a with AOcc _ None | AVac _ None => False | _ => True end.

Lemma T_C12_no_panic_outside_D6 : forall ss (m : gmap N elem) a acc,
  no_entry_insert ss -> holds_key a ->
  forall p m', ref_chain false m a ss acc <> RPanic p m'.
Proof.
  induction ss as [|s ss IH]; intros m a acc Hss Ha p m'; cbn [ref_chain]; [discriminate|].
  apply Forall_cons in Hss as [Hs Hss].
  destruct (ref_step false m a s) as [|p1 m1|m1 a1 o1] eqn:E; [discriminate| |].
  - exfalso. destruct a as [k [h|]|k [h|]|]; cbn [holds_key] in Ha; try contradiction; cbn [ref_step] in E.
    + destruct (m !! k); [|discriminate]. destruct s; try discriminate; unfold ref_replace in E; destruct keep; discriminate.
    + destruct (m !! k); [discriminate|]. destruct s; discriminate.
    + discriminate.
  - apply IH; [exact Hss|].
    destruct a as [k [h|]|k [h|]|]; cbn [holds_key] in Ha; try contradiction; cbn [ref_step] in E.
    + destruct (m !! k); [|discriminate].
      destruct s; try discriminate; unfold ref_replace in E; try destruct keep; injection E as _ <- _; exact I.
    + destruct (m !! k); [discriminate|]. destruct s; try discriminate; try contradiction; injection E as _ <- _; exact I.
    + discriminate.
Qed.

(* the witness of D6: the shortest failing chain, evaluated on the reference *)
Lemma T_C12_D6_witness :
  ref_chain false ∅ (AVac 5 (Some 7)) [SInsertE 1; SOccReplaceKey] [] =
    RPanic PUnwrapNone (<[5 := Elem 5 7 1]> ∅).
Proof. reflexivity. Qed.

(* ---------------------------------------------------------------- C06 *)

Lemma nd_run {A} (m : M' A) s a s' :
  nd m -> lite s -> m s = Ok a s' -> dks s' = dks s /\ dvs s' = dvs s /\ lite s'.
Proof. intros H Hl E. specialize (H s Hl). unfold wpp in H. rewrite E in H. apply H. Qed.

(* storing a new element - with whatever growing (the main table becomes the old one) and
   carrying (elements move from the old table to the new one) the call performs - drops nothing:
   the moves leave no copy behind to be dropped and release the old table only once it is empty *)
Lemma T_C06_moves_drop_nothing c e s a s' :
  lite s -> rt_insert c e s = Ok a s' -> dks s' = dks s /\ dvs s' = dvs s /\ lite s'.
Proof. apply nd_run, nd_rt_insert. Qed.

(* HashMap::insert: the duplicate key argument is dropped exactly when the key is present - the
   displaced value is handed back, not dropped - and nothing at all is dropped otherwise *)
Lemma T_C06_insert c k kid v s o s' :
  lite s -> map_insert c k kid v s = Ok o s' ->
  lite s' /\ dvs s' = dvs s /\
  match rt_find_pure (s_rt s) k with
  | Some (_, e) => dks s' = kid :: dks s /\ o = Some (ev e)
  | None => dks s' = dks s /\ o = None
  end.
Proof. intros Hl E. pose proof (map_insert_ledger c k kid v s Hl) as H. unfold wpp in H. rewrite E in H. exact H. Qed.

(* remove_entry / remove / take hand the stored key and value back; the map drops neither, also
   when the removal releases the (then empty) old table *)
Lemma T_C06_remove c k s o s' :
  lite s -> map_remove_entry c k s = Ok o s' -> dks s' = dks s /\ dvs s' = dvs s /\ lite s'.
Proof. apply nd_run, nd_map_remove_entry. Qed.

(* lookups and in-place updates, reserve / try_reserve (which may move every element), shrink_to
   and iteration drop nothing *)
Lemma T_C06_lookup g k w s o s' :
  lite s -> map_get g k w s = Ok o s' -> dks s' = dks s /\ dvs s' = dvs s /\ lite s'.
Proof. apply nd_run, nd_map_get. Qed.
Lemma T_C06_reserve c fallible n s o s' :
  lite s -> map_reserve c fallible n s = Ok o s' -> dks s' = dks s /\ dvs s' = dvs s /\ lite s'.
Proof. apply nd_run, nd_map_reserve. Qed.
Lemma T_C06_shrink c n s o s' :
  lite s -> rt_shrink_to c n s = Ok o s' -> dks s' = dks s /\ dvs s' = dvs s /\ lite s'.
Proof. apply nd_run, nd_rt_shrink_to. Qed.
Lemma T_C06_iter delta s o s' :
  lite s -> map_iter delta s = Ok o s' -> dks s' = dks s /\ dvs s' = dvs s /\ lite s'.
Proof. apply nd_run, nd_map_iter. Qed.

(* clear() and dropping the map: every stored key and every stored value - in the new table and
   among the old table's leftovers alike - is dropped exactly once (the ledger grows by a
   permutation of the stored objects) and nothing stays behind *)
Lemma T_C06_clear s a s' :
  lite s -> rt_clear s = Ok a s' ->
  lite s' /\ elems (s_rt s') = [] /\
  dks s' ≡ₚ map ekid (elems (s_rt s)) ++ dks s /\ dvs s' ≡ₚ map ev (elems (s_rt s)) ++ dvs s.
Proof. intros Hl E. pose proof (rt_clear_ledger s Hl) as H. unfold wpp in H. rewrite E in H. exact H. Qed.
Lemma T_C06_drop s a s' :
  lite s -> map_drop s = Ok a s' ->
  lite s' /\ elems (s_rt s') = [] /\
  dks s' ≡ₚ map ekid (elems (s_rt s)) ++ dks s /\ dvs s' ≡ₚ map ev (elems (s_rt s)) ++ dvs s.
Proof. intros Hl E. pose proof (map_drop_ledger s Hl) as H. unfold wpp in H. rewrite E in H. exact H. Qed.

(* clone() and == drop nothing (the clones clone() makes live in the new map) *)
Lemma T_C06_clone c s r s' :
  lite s -> rt_clone c s = Ok r s' -> dks s' = dks s /\ dvs s' = dvs s /\ lite s'.
Proof. apply nd_run, nd_rt_clone. Qed.
Lemma T_C06_eq other s b s' :
  lite s -> map_equal other s = Ok b s' -> dks s' = dks s /\ dvs s' = dvs s /\ lite s'.
Proof. apply nd_run, nd_map_equal. Qed.

(* drain() and into_iter(), consumed for j items and then dropped: the first j elements of the
   iterator's order are handed to the caller; every other element - in either table - is dropped
   exactly once; nothing stays behind *)
Lemma T_C06_drain j s out s' :
  lite s -> map_drain j false s = Ok out s' ->
  exists l s1, drain_order s = Ok l s1 /\ out = map elem3 (firstn (N.to_nat j) l) /\ lite s' /\ elems (s_rt s') = [] /\
    dks s' = rev (map ekid (skipn (N.to_nat j) l)) ++ dks s /\
    dvs s' = rev (map ev (skipn (N.to_nat j) l)) ++ dvs s.
Proof. intros Hl E. pose proof (map_drain_ledger j s Hl) as H. unfold wpp in H. rewrite E in H. exact H. Qed.
Lemma T_C06_into_iter j s out s' :
  lite s -> map_into_iter j s = Ok out s' ->
  exists l s1, drain_order s = Ok l s1 /\ out = map elem3 (firstn (N.to_nat j) l) /\ lite s' /\ elems (s_rt s') = [] /\
    dks s' = rev (map ekid (skipn (N.to_nat j) l)) ++ dks s /\
    dvs s' = rev (map ev (skipn (N.to_nat j) l)) ++ dvs s.
Proof. intros Hl E. pose proof (map_into_iter_ledger j s Hl) as H. unfold wpp in H. rewrite E in H. exact H. Qed.

(* retain drops exactly what it removes: the key objects dropped so far together with those
   still stored are, as a multiset, what they were before the call *)
Lemma T_C06_retain_conserves_keys c keep delta s out s' :
  lite s -> map_retain c keep delta s = Ok out s' ->
  lite s' /\ dks s' ++ map ekid (elems (s_rt s')) ≡ₚ dks s ++ map ekid (elems (s_rt s)).
Proof.
  intros Hl E. pose proof (map_retain_conserves_keys c keep delta s Hl) as H. unfold wpp in H. rewrite E in H. exact H.
Qed.

(* drain_filter, consumed for any number of items and then dropped or forgotten: every key
   object the map held is afterwards still stored, or in the ledger, or among the yielded
   elements - exactly once *)
Lemma T_C06_drain_filter_conserves_keys c take delta j forget s out s' :
  lite s -> map_drain_filter c take delta j forget s = Ok out s' ->
  lite s' /\ exists yielded, out = map elem3 yielded /\
    dks s' ++ map ekid (elems (s_rt s')) ++ map ekid yielded ≡ₚ dks s ++ map ekid (elems (s_rt s)).
Proof.
  intros Hl E. pose proof (map_drain_filter_conserves_keys c take delta j forget s Hl) as H.
  unfold wpp in H. rewrite E in H. exact H.
Qed.

(* calls that take objects in.  insert: the key object given is afterwards stored or dropped, the
   value given is stored, the value it displaced is handed back; extend: every key and value of
   the items is afterwards stored or dropped (a key whose key was present, a displaced value) -
   each object exactly once, whatever growing and moving the call performs *)
Lemma T_C06_insert_conserves c k kid v s o s' :
  Inv (cR c) (cesz c) (s_rt s) -> map_insert c k kid v s = Ok o s' ->
  Inv (cR c) (cesz c) (s_rt s') /\
  dks s' ++ map ekid (elems (s_rt s')) ≡ₚ kid :: dks s ++ map ekid (elems (s_rt s)) /\
  match o with Some v0 => [v0] | None => [] end ++ dvs s' ++ map ev (elems (s_rt s')) ≡ₚ v :: dvs s ++ map ev (elems (s_rt s)).
Proof. apply map_insert_conserves. Qed.
Lemma T_C06_extend_conserves c items hint s u s' :
  Inv (cR c) (cesz c) (s_rt s) -> hint <= usize_max -> map_extend c items hint s = Ok u s' ->
  Inv (cR c) (cesz c) (s_rt s') /\
  dks s' ++ map ekid (elems (s_rt s')) ≡ₚ kids_of items ++ dks s ++ map ekid (elems (s_rt s)) /\
  dvs s' ++ map ev (elems (s_rt s')) ≡ₚ vals_of items ++ dvs s ++ map ev (elems (s_rt s)).
Proof. apply map_extend_conserves. Qed.

(* clone_from: everything the destination held - in either of its tables - is dropped exactly
   once (the ledger grows by a permutation of its previous elements), and nothing else is *)
Lemma T_C06_clone_from c src s u s' :
  lite s -> hbc (main src) -> rt_clone_from c src s = Ok u s' ->
  dks s' ≡ₚ map ekid (elems (s_rt s)) ++ dks s /\ dvs s' ≡ₚ map ev (elems (s_rt s)) ++ dvs s.
Proof.
  intros Hl Hs E. pose proof (rt_clone_from_ledger c src s Hl Hs) as H. unfold wpp in H. rewrite E in H. exact H.
Qed.

(* the conservation law over histories.  ledger_op: new, insert, get*, remove / remove_entry, clear,
   reserve, try_reserve, shrink_to, iter* (with or without value updates), drain (dropped),
   into_iter, retain, extend, drop.  k_in: the key objects the caller gives (insert, extend);
   k_out: those handed back (remove_entry, drain and into_iter yields); wdks: the drop ledger;
   wheld: the key objects stored in the maps of the world, in either table. *)
Lemma T_C06_history_conserves_keys c w ts rs w' :
  0 < cR c -> WInv c w -> ok_run c w ts rs w' ->
  wdks w' ++ wheld w' ++ keys_out ts rs ≡ₚ keys_in c w ts ++ wdks w ++ wheld w.
Proof. intros HR. apply history_conserves_keys. exact HR. Qed.

(* once every map is gone, every key object ever given has been dropped or handed back, once *)
Lemma T_C06_all_released c ts rs w' :
  0 < cR c -> ok_run c world0 ts rs w' -> w_maps w' = ∅ -> wdks w' ++ keys_out ts rs ≡ₚ keys_in c world0 ts.
Proof. intros HR. apply history_all_released. exact HR. Qed.
(* exactly once, spelled out: when the key objects given are pairwise distinct (and distinct from
   those already around), no key object is dropped twice, none is both dropped and handed back,
   none is both still stored and dropped or handed back *)
Lemma T_C06_never_twice c w ts rs w' :
  0 < cR c -> WInv c w -> ok_run c w ts rs w' ->
  NoDup (keys_in c w ts ++ wdks w ++ wheld w) -> NoDup (wdks w' ++ wheld w' ++ keys_out ts rs).
Proof. intros HR HW Hrun Hnd. rewrite (history_conserves_keys c HR w ts rs w' HW Hrun). exact Hnd. Qed.

(* what goes in: the key objects passed to insert/extend/from_iter/par_extend, and the copies that
   clone/clone_from make of the source's key objects; without clones it is a function of the calls *)
Lemma T_C06_keys_in_static c w ts rs w' :
  ok_run c w ts rs w' -> forallb (fun t => static_in (t_op t)) ts = true ->
  keys_in c w ts = concat (map (fun t => k_in world0 (t_op t)) ts).
Proof. apply keys_in_static. Qed.

(* entry and raw-entry handles: one step conserves the key objects - those stored, the one the
   handle holds, those the step is given - against what it drops and hands back; so does a chain,
   at whose end the handle's own key has been stored, dropped or handed back *)
Lemma T_C06_entry_step_conserves c raw e st s e' r s' :
  Inv (cR c) (cesz c) (s_rt s) -> ent_ok (s_rt s) e -> raw_wf raw (strip e) -> st_wf raw st ->
  entry_step c raw e st s = Ok (e', r) s' ->
  dks s' ++ kidsE (s_rt s') ++ hk (strip e') ++ step_kout st r ≡ₚ step_kin st (strip e) ++ dks s ++ kidsE (s_rt s) ++ hk (strip e).
Proof. intros HI Hok Hwf Hst E. exact (proj2 (proj2 (proj2 (proj2 (entry_step_conserves c raw e st s e' r s' HI Hok Hwf Hst E))))). Qed.
Lemma T_C06_entry_chain_conserves c k kid ss s outs s' :
  Inv (cR c) (cesz c) (s_rt s) -> Forall (st_wf false) ss -> map_entry c k kid ss s = Ok outs s' ->
  dks s' ++ kidsE (s_rt s') ++ chain_kout ss outs ≡ₚ
  (kid :: chain_kin false (rt_abs (s_rt s)) (start_ent (rt_abs (s_rt s)) k (Some kid)) ss) ++ dks s ++ kidsE (s_rt s).
Proof. apply map_entry_conserves. Qed.
Lemma T_C06_raw_entry_chain_conserves c variant k ss s outs s' :
  Inv (cR c) (cesz c) (s_rt s) -> map_raw_entry c variant k ss s = Ok outs s' ->
  dks s' ++ kidsE (s_rt s') ++ chain_kout ss outs ≡ₚ
  chain_kin true (rt_abs (s_rt s)) (start_ent (rt_abs (s_rt s)) k None) ss ++ dks s ++ kidsE (s_rt s).
Proof. apply map_raw_entry_conserves. Qed.
(* every operation of the model is covered by the conservation law (entry chains without raw-only
   steps, size arguments that fit a usize, drains that are not forgotten) *)
Lemma T_C06_law_covers o : ledger_op o <->
  match o with
  | OEntry _ _ _ ss => forallb (fun st => negb (raw_only st)) ss = true
  | ODrain _ _ forget => forget = false
  | OReserve _ n | OTryReserve _ n => n <= usize_max
  | OExtend _ _ hint => hint <= usize_max
  | OParExtend _ chunks => N.of_nat (length (concat chunks)) < usize_max
  | _ => True
  end.
Proof. destruct o; cbn [ledger_op]; tauto. Qed.

(* the hypothesis [lite] holds in every reachable state: it is part of the invariant *)
Lemma T_C06_lite_reachable R Esz s : Inv R Esz (s_rt s) -> lite s.
Proof. apply Inv_lite. Qed.

(* ---------------------------------------------------------------- C07 *)

(* Whatever user callback panics (a fuse may be armed at any callback count, or none), and in
   whatever call: when the panic is caught every map still satisfies the invariant - hence all
   of C03/C04/C05 - and every later history behaves like the reference run from the contents
   the panic left (T_C07_later_calls). *)
Lemma T_C07_invariant_survives c w t p w' :
  0 < cR c -> WInv c w -> core_op (t_op t) -> step c w t = Unwind p w' -> WInv c w'.
Proof.
  intros HR HW Hc Hrun. pose proof (step_core c HR w t HW Hc) as H. rewrite Hrun in H. cbn [wres] in H.
  destruct H as [[_ [H _]]|[_ H]]; exact H.
Qed.

Lemma T_C07_later_calls c ts w acc :
  0 < cR c -> WInv c w -> Forall core_op (map t_op ts) ->
  match run c w ts acc with
  | inl (w', outs) => WInv c w' /\ exists rs, outs = acc ++ rs /\ spec_runs (wabs w) (map t_op ts) rs (wabs w')
  | inr f => benign f
  end.
Proof. intros HR. apply run_core. exact HR. Qed.

(* self-consistency of any state satisfying the invariant: len() is the number of iterated
   entries, each entry is iterated once, and each is found by a lookup of its key, in the
   table where it is stored *)
Lemma T_C07_self_consistent c r :
  Inv (cR c) (cesz c) r ->
  N.of_nat (length (iter_elems r)) = rt_len r /\ NoDup (map ek (iter_elems r)) /\
  (forall e, e ∈ iter_elems r -> exists im, rt_find_pure r (ek e) = Some (im, e)).
Proof.
  intros HI. destruct (iter_elems_spec c r HI) as (Hnd & Hin & Hlen). split; [exact Hlen|]. split; [exact Hnd|].
  intros e He. apply Hin in He. rewrite (rt_find_abs c r (ek e) HI) in He.
  destruct (rt_find_pure r (ek e)) as [[im x]|]; [|discriminate]. injection He as ->. eauto.
Qed.

(* what may be lost.  insert: whatever is in the map afterwards under another key was there
   before, with the same key object and value (a panicking Hash may drop elements being moved;
   nothing is invented or altered) *)
Lemma T_C07_insert_loss c k kid v s p s' :
  Inv (cR c) (cesz c) (s_rt s) -> map_insert c k kid v s = Unwind p s' ->
  Inv (cR c) (cesz c) (s_rt s') /\
  (forall j e, rt_abs (s_rt s') !! j = Some e -> j <> k -> rt_abs (s_rt s) !! j = Some e).
Proof.
  intros HI E. pose proof (map_insert_spec c k kid v s HI) as H. unfold wp in H. rewrite E in H.
  destruct H as (H1 & _ & H3). auto.
Qed.

(* reserve / try_reserve (which re-hash every element still to be moved): the contents
   afterwards are a sub-map of the contents before *)
Lemma T_C07_reserve_loss c fallible n s p s' :
  Inv (cR c) (cesz c) (s_rt s) -> n <= usize_max -> rt_reserve c fallible n s = Unwind p s' ->
  Inv (cR c) (cesz c) (s_rt s') /\ rt_abs (s_rt s') ⊆ rt_abs (s_rt s).
Proof.
  intros HI Hn E.
  pose proof (rt_reserve_spec c fallible n (fun _ _ => True)
                (fun p s' => Inv (cR c) (cesz c) (s_rt s') /\ rt_abs (s_rt s') ⊆ rt_abs (s_rt s)) s HI Hn) as H.
  unfold wp in H. rewrite E in H. apply H; auto. intros p0 s0 (H1 & _ & H3 & _) _. auto.
Qed.

(* clone: a panicking Clone or Hash leaves the source exactly as it was (the new table was a
   local and is gone) *)
Lemma T_C07_clone_source_untouched c s p s' :
  Inv (cR c) (cesz c) (s_rt s) -> rt_clone c s = Unwind p s' -> s_rt s' = s_rt s.
Proof.
  intros HI E. pose proof (rt_clone_spec c (fun _ _ => True) (fun _ s' => s_rt s' = s_rt s) s HI) as H.
  unfold wp in H. rewrite E in H. apply H; auto.
Qed.

(* clone_from: interrupted, the destination still satisfies the invariant (its contents are
   unspecified, as documented) *)
Lemma T_C07_clone_from_interrupted c src s p s' :
  Inv (cR c) (cesz c) (s_rt s) -> Inv (cR c) (cesz c) src -> rt_clone_from c src s = Unwind p s' ->
  Inv (cR c) (cesz c) (s_rt s').
Proof.
  intros HI HIs E. pose proof (rt_clone_from_spec c src (fun _ _ => True) (fun _ s' => Inv (cR c) (cesz c) (s_rt s')) s HI HIs) as H.
  unfold wp in H. rewrite E in H. apply H; auto.
Qed.

(* entry / raw-entry steps (and_modify, or_insert_with*, replace_entry_with closures, Hash):
   the invariant survives, and a step that unwrap-panics (finding D6) changed nothing *)
Lemma T_C07_entry_step c raw e st0 s p s' :
  Inv (cR c) (cesz c) (s_rt s) -> ent_ok (s_rt s) e -> entry_step c raw e st0 s = Unwind p s' ->
  Inv (cR c) (cesz c) (s_rt s').
Proof.
  intros HI Hok E. pose proof (entry_step_spec c raw e st0 s HI Hok) as H. unfold wp in H. rewrite E in H. apply H.
Qed.

(* ---------------------------------------------------------------- C13 *)

(* A HashSet is the map with () values: insert / replace / remove / take / get / get_or_insert* /
   contains / retain / drain / drain_filter / extend / clear are the map and entry operations
   of T_C01 / T_C12 on it, and refine the same reference (its key set is the reference set). *)
Lemma T_C13_element_ops c w t o w' :
  0 < cR c -> WInv c w -> core_op (t_op t) -> step c w t = Ok o w' ->
  WInv c w' /\ spec_rel (wabs w) (t_op t) o (wabs w').
Proof. apply T_step_ok. Qed.

(* difference / symmetric_difference / intersection / union (kind 0-3) and the operator forms
   - ^ & | (kind 4-7), for operands in any resize phase: what is yielded (shown sorted, i.e. as
   a permutation of it) holds each key of the mathematical result exactly once, and every
   yielded object is an element of one of the operands; the operands are unchanged *)
Lemma T_C13_algebra c w t kind a b o w' :
  0 < cR c -> WInv c w -> t_op t = OSetAlg kind a b -> step c w t = Ok o w' ->
  exists (ma mb : gmap N elem) l, wabs w !! a = Some ma /\ wabs w !! b = Some mb /\ wabs w' = wabs w /\
    o = OutL (sorted3 l) /\ sorted3 l ≡ₚ map elem3' l /\
    NoDup (map ek l) /\
    (forall e, e ∈ l -> ma !! ek e = Some e \/ mb !! ek e = Some e) /\
    (forall k, k ∈ map ek l <->
       alg_math (alg_kind kind) (is_Some (ma !! k)) (is_Some (mb !! k))).
Proof.
  intros HR HW Eop Hrun. assert (Hc : core_op (t_op t)) by (rewrite Eop; exact I).
  destruct (T_step_ok c w t o w' HR HW Hc Hrun) as [_ Hs]. rewrite Eop in Hs. cbn [spec_rel] in Hs.
  destruct Hs as (ma & mb & Ha & Hb & Hw & l & Ho & (H1 & H2 & H3)).
  exists ma, mb, l. split; [exact Ha|]. split; [exact Hb|]. split; [exact Hw|]. split; [exact Ho|].
  split; [apply sorted3_perm|]. auto.
Qed.

(* is_disjoint / is_subset / is_superset / == decide the mathematical relations *)
Lemma T_C13_predicates c w t kind a b o w' :
  0 < cR c -> WInv c w -> t_op t = OSetPred kind a b -> step c w t = Ok o w' ->
  exists (ma mb : gmap N elem) bb, wabs w !! a = Some ma /\ wabs w !! b = Some mb /\ wabs w' = wabs w /\
    o = OutB bb /\ (bb = true <-> pred_math (pred_kind kind) ma mb).
Proof.
  intros HR HW Eop Hrun. assert (Hc : core_op (t_op t)) by (rewrite Eop; exact I).
  destruct (T_step_ok c w t o w' HR HW Hc Hrun) as [_ Hs]. rewrite Eop in Hs. cbn [spec_rel] in Hs.
  destruct Hs as (ma & mb & Ha & Hb & Hw & bb & Ho & Hbb). exists ma, mb, bb. auto.
Qed.

(* iter() of a set in any resize phase: every element, each exactly once, exact length *)
Lemma T_C13_iter c r :
  Inv (cR c) (cesz c) r ->
  NoDup (map ek (iter_elems r)) /\
  (forall e, e ∈ iter_elems r <-> rt_abs r !! ek e = Some e) /\
  N.of_nat (length (iter_elems r)) = rt_len r.
Proof. apply iter_elems_spec. Qed.

(* ---------------------------------------------------------------- C15 *)

(* rayon traversals (par_iter, par_keys, par_values, par_iter_mut, par_values_mut): the main
   table's buckets and the old table's cached iterator are two producers, each cut into pieces by
   the work-splitting schedule.  Whatever the schedule: *)

(* ... the pieces partition what the sequential iterator yields: no element is lost, none is
   handed to two workers *)
Lemma T_C15_pieces_partition (A : Type) (splits : list nat) (l : list A) : concat (chop splits l) = l.
Proof. apply concat_chop. Qed.

(* ... the call does exactly what the same call does under any other schedule *)
Lemma T_C15_schedule_independent c w t1 t2 s variant delta sp1 sp2 :
  t_op t1 = OParIter s variant delta sp1 -> t_op t2 = OParIter s variant delta sp2 ->
  t_on t1 = t_on t2 -> t_tomb t1 = t_tomb t2 -> t_perm t1 = t_perm t2 -> t_qperm t1 = t_qperm t2 ->
  step c w t1 = step c w t2.
Proof.
  intros E1 E2 H1 H2 H3 H4. unfold step. rewrite E1, E2, H1, H2, H3, H4. f_equal.
  unfold with_slot, with_slot_gen. destruct (w_maps w !! s) as [ms|]; [|reflexivity].
  destruct (_ && _); [reflexivity|]. rewrite !map_par_iter_eq. reflexivity.
Qed.

(* ... it visits exactly the elements of the map, each once (shown sorted), and par_iter_mut /
   par_values_mut update each value once *)
Lemma T_C15_par_iter c w t s variant delta splits o w' :
  0 < cR c -> WInv c w -> t_op t = OParIter s variant delta splits -> step c w t = Ok o w' ->
  WInv c w' /\ exists (m : gmap N elem) l, wabs w !! s = Some m /\ NoDup (map ek l) /\ list_to_emap l = m /\
    o = OutL (foldr insert_sorted [] (map elem3 l)) /\
    wabs w' = <[s := if delta =? 0 then m else bumpv delta <$> m]> (wabs w).
Proof.
  intros HR HW Eop Hrun. assert (Hc : core_op (t_op t)) by (rewrite Eop; exact I).
  destruct (T_step_ok c w t o w' HR HW Hc Hrun) as [HW' Hs]. rewrite Eop in Hs. auto.
Qed.

(* ... and is the sequential traversal up to the order of the visits *)
Lemma T_C15_par_is_seq c w tp ts s variant delta splits :
  t_op tp = OParIter s variant delta splits -> t_op ts = OIter s variant delta ->
  t_on tp = t_on ts -> t_tomb tp = t_tomb ts -> t_perm tp = t_perm ts -> t_qperm tp = t_qperm ts ->
  step c w tp = match step c w ts with
                | Ok (OutL l) w' => Ok (OutL (foldr insert_sorted [] l)) w'
                | r => r
                end.
Proof.
  intros E1 E2 H1 H2 H3 H4. unfold step. rewrite E1, E2, H1, H2, H3, H4.
  unfold with_slot, with_slot_gen. destruct (w_maps w !! s) as [ms|]; [|reflexivity].
  destruct (_ && _); [reflexivity|]. rewrite map_par_iter_eq.
  destruct (map_iter delta _) as [l s1|p s1|f]; reflexivity.
Qed.

(* par_extend / from_par_iter: however the items were collected into pieces, the same collection
   as sequential extend by all the items in order *)
Lemma T_C15_par_extend c w t s chunks o w' :
  0 < cR c -> WInv c w -> t_op t = OParExtend s chunks -> N.of_nat (length (concat chunks)) < usize_max ->
  step c w t = Ok o w' ->
  WInv c w' /\ exists m : gmap N elem, wabs w !! s = Some m /\ wabs w' = <[s := ext m (concat chunks)]> (wabs w).
Proof.
  intros HR HW Eop Hlen Hrun. assert (Hc : core_op (t_op t)) by (rewrite Eop; exact Hlen).
  destruct (T_step_ok c w t o w' HR HW Hc Hrun) as [HW' Hs]. rewrite Eop in Hs. cbn [spec_rel] in Hs.
  split; [exact HW'|]. destruct Hs as (m & Hm & [[_ ->]|[-> _]]); [eauto|].
  exfalso. unfold step in Hrun. rewrite Eop in Hrun. destruct (with_slot_h _ _ _ _ _); discriminate.
Qed.
Lemma T_C15_extend_is_reference c w t s items hint o w' :
  0 < cR c -> WInv c w -> t_op t = OExtend s items hint -> hint <= usize_max -> step c w t = Ok o w' ->
  WInv c w' /\ exists m : gmap N elem, wabs w !! s = Some m /\ wabs w' = <[s := ext m items]> (wabs w).
Proof.
  intros HR HW Eop Hh Hrun. assert (Hc : core_op (t_op t)) by (rewrite Eop; exact Hh).
  destruct (T_step_ok c w t o w' HR HW Hc Hrun) as [HW' Hs]. rewrite Eop in Hs. cbn [spec_rel] in Hs.
  split; [exact HW'|]. destruct Hs as (m & Hm & [[_ ->]|[-> _]]); [eauto|].
  exfalso. unfold step in Hrun. rewrite Eop in Hrun. destruct (with_slot_h _ _ _ _ _); discriminate.
Qed.

(* ---------------------------------------------------------------- C16 *)

(* Serialize (collect_map / collect_seq over iter()): the declared length is exact, every
   element is emitted exactly once, in iteration order; the collection is unchanged *)
Lemma T_C16_serialize c w t s o w' :
  0 < cR c -> WInv c w -> t_op t = OSerialize s -> step c w t = Ok o w' ->
  WInv c w' /\ exists (m : gmap N elem) l, wabs w !! s = Some m /\ NoDup (map ek l) /\ list_to_emap l = m /\
    o = OutS [OutN (N.of_nat (length l)); OutL (map elem3 l)] /\ wabs w' = wabs w.
Proof.
  intros HR HW Eop Hrun. assert (Hc : core_op (t_op t)) by (rewrite Eop; exact I).
  destruct (T_step_ok c w t o w' HR HW Hc Hrun) as [HW' Hs]. rewrite Eop in Hs. auto.
Qed.

(* Deserialize (a map or set built with the cautious size hint, then one insert per element):
   the collection of the elements read, whatever the hint *)
Lemma T_C16_deserialize c w t d hs items hint o w' :
  0 < cR c -> WInv c w -> t_op t = OFromIter d hs items (cautious hint) -> step c w t = Ok o w' ->
  WInv c w' /\ wabs w' = <[d := ext ∅ items]> (wabs w).
Proof.
  intros HR HW Eop Hrun. assert (Hc : core_op (t_op t)) by (rewrite Eop; exact I).
  destruct (T_step_ok c w t o w' HR HW Hc Hrun) as [HW' Hs]. rewrite Eop in Hs. cbn [spec_rel] in Hs.
  split; [exact HW'|]. destruct Hs as [[_ ->]|[-> _]]; [reflexivity|].
  exfalso. unfold step in Hrun. rewrite Eop in Hrun. destruct (with_slot _ _ _ _ _); discriminate.
Qed.

(* the round trip: deserialising what Serialize emitted yields the original collection - in
   whatever resize phase it was serialised *)
Lemma T_C16_roundtrip (m : gmap N elem) (l : list elem) :
  NoDup (map ek l) -> list_to_emap l = m -> ext ∅ (map elem3 l) = m.
Proof. intros Hnd <-. apply ext_roundtrip. exact Hnd. Qed.

Lemma T_C16_roundtrip_world c w t s o w1 w2 t2 d hs hint o2 w3 items n :
  0 < cR c -> WInv c w -> t_op t = OSerialize s -> step c w t = Ok o w1 -> o = OutS [OutN n; OutL items] ->
  WInv c w2 -> t_op t2 = OFromIter d hs items (cautious hint) -> step c w2 t2 = Ok o2 w3 ->
  wabs w3 !! d = wabs w !! s.
Proof.
  intros HR HW E1 R1 Ho HW2 E2 R2.
  destruct (T_C16_serialize c w t s o w1 HR HW E1 R1) as (_ & m & l & Hm & Hnd & Hl & Ho' & _).
  rewrite Ho in Ho'. injection Ho' as _ Hit.
  destruct (T_C16_deserialize c w2 t2 d hs items hint o2 w3 HR HW2 E2 R2) as [_ Hw3].
  rewrite Hw3, lookup_insert, Hm, Hit. f_equal. apply T_C16_roundtrip; assumption.
Qed.

(* HashSet::deserialize_in_place: the previous contents - whatever they were, in whatever resize
   phase - are replaced entirely by the elements read *)
Lemma T_C16_in_place c w t s items hint o w' :
  0 < cR c -> WInv c w -> t_op t = ODeserInPlace s items hint -> step c w t = Ok o w' ->
  WInv c w' /\ exists m : gmap N elem, wabs w !! s = Some m /\ wabs w' = <[s := ext ∅ items]> (wabs w).
Proof.
  intros HR HW Eop Hrun. assert (Hc : core_op (t_op t)) by (rewrite Eop; exact I).
  destruct (T_step_ok c w t o w' HR HW Hc Hrun) as [HW' Hs]. rewrite Eop in Hs. cbn [spec_rel] in Hs.
  split; [exact HW'|]. destruct Hs as (m & Hm & [[_ ->]|[-> _]]); [eauto|].
  exfalso. unfold step in Hrun. rewrite Eop in Hrun. destruct (with_slot_h _ _ _ _ _); discriminate.
Qed.

(* ---------------------------------------------------------------- C17 *)

(* the model has one behaviour for both build profiles: nothing in it reads the profile flag *)
Lemma T_C17_profile_independent R z e w t :
  step (Cfg R true z e) w t = step (Cfg R false z e) w t.
Proof. reflexivity. Qed.

Lemma T_C17_run_profile_independent R z e ts w acc :
  run (Cfg R true z e) w ts acc = run (Cfg R false z e) w ts acc.
Proof. reflexivity. Qed.

(* ... which is faithful to a release build only if the assertions a debug build checks never
   fail.  They never do: in a reachable world a call ends normally, in a documented panic the
   reference predicts, in the recorded panic of finding D6, or in the user's own panic; never in
   a failed assert!/debug_assert! (the crate's or hashbrown's) or an arithmetic overflow. *)
Definition expected_panic (p : panic) : Prop :=
  p = PUser \/ p = PCapOverflow \/ p = PIndexMissing \/ p = PUnwrapNone.

Lemma ref_step_panic raw m a st0 p m' : ref_step raw m a st0 = RPanic p m' -> p = PUnwrapNone.
Proof.
  destruct a as [k held|k held|]; cbn [ref_step]; [| |discriminate].
  - destruct (m !! k); [|discriminate]. destruct st0; try discriminate; unfold ref_replace;
      try (destruct keep; discriminate); destruct held; try discriminate; intros [= <- _]; reflexivity.
  - destruct (m !! k); [discriminate|]. destruct st0, held; discriminate.
Qed.

Lemma ref_chain_out raw : forall ss m a acc,
  match ref_chain raw m a ss acc with
  | ROk _ _ o => exists l, o = OutS l
  | RPanic p _ => p = PUnwrapNone
  | RBad => True
  end.
Proof.
  induction ss as [|st0 ss IH]; intros m a acc; cbn [ref_chain]; [eauto|].
  destruct (ref_step raw m a st0) as [|p1 m1|m1 a1 o1] eqn:E; [exact I|eapply ref_step_panic; exact E|apply IH].
Qed.

Lemma chain_rel_panic raw held σ s k ss p σ' :
  chain_rel raw held σ s k ss (OutP p) σ' -> p = PCapOverflow \/ p = PUnwrapNone.
Proof.
  intros (m & _ & [[H _]|H]); [injection H as ->; auto|].
  pose proof (ref_chain_out raw ss m (start_ent m k held) []) as Ho.
  destruct (ref_chain raw m (start_ent m k held) ss []) as [|p1 m1|m1 a1 o1]; [contradiction| |].
  - destruct H as [H _]. injection H as ->. auto.
  - destruct H as [H _]. destruct Ho as [l Hl]. rewrite Hl in H. discriminate.
Qed.

Lemma spec_rel_panic σ o p σ' :
  core_op o -> spec_rel σ o (OutP p) σ' -> p = PCapOverflow \/ p = PIndexMissing \/ p = PUnwrapNone.
Proof.
  intros Hc Hs. destruct o; cbn [core_op] in Hc; try contradiction; cbn [spec_rel] in Hs.
  - destruct Hs as [[H|H] _]; [discriminate|injection H as ->; auto].
  - destruct Hs as (m & _ & [[H _]|[H _]]); [discriminate|injection H as ->; auto].
  - destruct Hs as (m & _ & [H|(_ & _ & H)] & _); [|injection H as ->; auto].
    unfold get_out in H. destruct (gvar_of variant), (m !! k); discriminate.
  - destruct Hs as (m & _ & H & _). destruct entry; discriminate.
  - destruct Hs as (m & _ & H & _). discriminate.
  - destruct Hs as (m & _ & [H|H] & _); [discriminate|injection H as ->; auto].
  - destruct Hs as (m & _ & [b H] & _). discriminate.
  - destruct Hs as (m & _ & H & _). discriminate.
  - destruct Hs as (m & l & _ & _ & _ & H & _). discriminate.
  - destruct Hs as (m & l & _ & _ & _ & H & _). discriminate.
  - destruct Hs as (m & l & _ & _ & _ & H & _). discriminate.
  - destruct Hs as (m & l & _ & _ & _ & H & _). discriminate.
  - destruct Hs as (m & l & v1 & rest & m' & _ & _ & _ & _ & H & _). discriminate.
  - destruct Hs as (m & _ & [[H _]|[H _]]); [discriminate|injection H as ->; auto].
  - destruct Hs as [[H _]|[H _]]; [discriminate|injection H as ->; auto].
  - destruct Hs as (m & _ & [[[h H] _]|[H _]]); [discriminate|injection H as ->; auto].
  - destruct Hs as (m & md & _ & _ & [[[h H] _]|[H _]]); [discriminate|injection H as ->; auto].
  - destruct Hs as (ma & mb & _ & _ & (b0 & H & _) & _). discriminate.
  - destruct Hs as [H _]. discriminate.
  - apply chain_rel_panic in Hs. tauto.
  - apply chain_rel_panic in Hs. tauto.
  - destruct Hs as (m & _ & H & _). discriminate.
  - destruct Hs as (ma & mb & _ & _ & _ & l & H & _). discriminate.
  - destruct Hs as (ma & mb & _ & _ & _ & bb & H & _). discriminate.
  - destruct Hs as (m & l & _ & _ & _ & H & _). discriminate.
  - destruct Hs as (m & _ & [[H _]|[H _]]); [discriminate|injection H as ->; auto].
  - destruct Hs as (m & l & _ & _ & _ & H & _). discriminate.
  - destruct Hs as (m & _ & [[H _]|[H _]]); [discriminate|injection H as ->; auto].
Qed.

Lemma T_C17_no_assertion_fires c w t p w' :
  0 < cR c -> WInv c w -> core_op (t_op t) -> step c w t = Unwind p w' -> expected_panic p.
Proof.
  intros HR HW Hc Hrun. pose proof (step_core c HR w t HW Hc) as H. rewrite Hrun in H. cbn [wres] in H.
  unfold expected_panic. destruct H as [[Hne [_ Hs]]|[-> _]]; [|auto].
  apply spec_rel_panic in Hs; [tauto|exact Hc].
Qed.

(* no size computation can wrap: every length, capacity and bucket count the crate adds or
   compares stays below isize::MAX, so a sum of two of them fits a usize *)
Lemma two_isize : isize_max + isize_max <= usize_max.
Proof. unfold N.le. vm_compute. discriminate. Qed.

Lemma T_C17_sizes_fit c r :
  Inv (cR c) (cesz c) r ->
  rt_len r <= rt_capacity r /\ rt_capacity r <= isize_max /\ hB (main r) <= isize_max /\
  rt_capacity r + rt_capacity r <= usize_max /\
  match lo r with Some o => olen o <= isize_max /\ hlen (main r) + olen o <= isize_max | None => True end.
Proof.
  intros HI. pose proof (Inv_cap_ge_len c r HI) as Hle. destruct HI as (HR & Hok & Ho).
  pose proof (hb_ok_cap_bound _ _ Hok) as Hb. pose proof (hb_ok_gl_bound _ _ Hok) as [Hg Hn].
  pose proof two_isize as Hiu.
  assert (HB : hB (main r) <= isize_max).
  { destruct Hok as (_ & _ & _ & _ & [->|Hl]); [pose proof usize_max_big; lia|apply (layout_ok_bound (cesz c)); exact Hl]. }
  unfold rt_len, rt_capacity in *. destruct (lo r) as [o|].
  - destruct Ho as (_ & _ & _ & _ & Hneed). pose proof (need_ge (olen o) (cR c) HR). unfold hlen in *.
    split; [lia|]. split; [lia|]. split; [exact HB|]. split; [lia|]. split; lia.
  - unfold hlen in *. split; [lia|]. split; [lia|]. split; [exact HB|]. split; [lia|exact I].
Qed.


(* ---------------------------------------------------------------- non-vacuity: a concrete
   history reaches a state in the middle of a resize (R = 8, 15 insertions into an empty map) *)
Definition ex_cfg : cfg := Cfg 8 true false 24.
Definition ex_ins (k : N) : traced := T (OInsert 0 k k (1000 + k)) 0 0 [] [].
Definition ex_hist : list traced :=
  T (ONew 0 1 0) 0 0 [] [] :: map ex_ins [0; 1; 2; 3; 4; 5; 6; 7; 8; 9; 10; 11; 12; 13; 14].

Definition ex_probe : option (N * N * N) :=
  match run ex_cfg world0 ex_hist [] with
  | inl (w, _) => match w_maps w !! 0 with
                  | Some m => match lo (m_rt m) with
                              | Some o => Some (ocnt o, hn (main (m_rt m)), hgl (main (m_rt m)))
                              | None => None
                              end
                  | None => None
                  end
  | inr _ => None
  end.

Example ex_mid_resize :
  exists w outs m o, run ex_cfg world0 ex_hist [] = inl (w, outs) /\ w_maps w !! 0 = Some m /\
                     lo (m_rt m) = Some o /\ ocnt o = 6 /\ hn (main (m_rt m)) = 9 /\ hgl (main (m_rt m)) = 19.
Proof.
  assert (H : ex_probe = Some (6, 9, 19)) by (vm_compute; reflexivity).
  unfold ex_probe in H. destruct (run ex_cfg world0 ex_hist []) as [[w outs]|f]; [|discriminate].
  destruct (w_maps w !! 0) as [m|] eqn:E1; [|discriminate]. destruct (lo (m_rt m)) as [o|] eqn:E2; [|discriminate].
  injection H as H1 H2 H3. exists w, outs, m, o. split; [reflexivity|]. do 3 (split; [assumption|]). split; assumption.
Qed.

(* non-vacuity of the conservation law: create, 15 insertions (a resize in flight), an overwrite,
   a removal of an old-table key, a clone, an insertion into the clone, clone_from back, then both
   dropped: a lawful panic-free history from and to no map *)
Definition ex_hist2 : list traced :=
  ex_hist ++ [T (OInsert 0 12 99 5) 0 0 [] []; T (ORemove 0 true 13) 0 0 [] []; T (OClone 0 1) 0 0 [] [];
              T (OInsert 1 77 98 5) 0 0 [] []; T (OCloneFrom 0 1) 0 0 [] [];
              T (OEntry 0 14 200 [SOccReplaceWith false 0; SInsertE 9; SOccRemoveEntry]) 0 0 [] [];
              T (ORawEntry 1 0 300 [SRawInsert 201 5; SRawOccInsertKey 202]) 0 0 [] [];
              T (ODrop 0) 0 0 [] []; T (ODrop 1) 0 0 [] []].
Example ex_ok_run : exists rs w', ok_run ex_cfg world0 ex_hist2 rs w' /\ w_maps w' = ∅.
Proof.
  assert (H : option_map (fun p => size (w_maps (snd p))) (run_okb ex_cfg world0 ex_hist2) = Some 0%nat) by (vm_compute; reflexivity).
  destruct (run_okb ex_cfg world0 ex_hist2) as [[rs w']|] eqn:E; [|discriminate].
  exists rs, w'. split; [apply run_okb_sound; exact E|]. cbn [option_map snd] in H. injection H as H.
  apply map_size_empty_inv. exact H.
Qed.

Example ex_core : Forall core_op (map t_op ex_hist).
Proof. repeat constructor. Qed.
