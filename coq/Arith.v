(* Arith.v — usize arithmetic, hashbrown's load-factor maths, griddle's headroom function.
   Rust anchors: hashbrown-0.14.5 src/raw/mod.rs capacity_to_buckets :195, bucket_mask_to_capacity :222;
   griddle src/raw/mod.rs shrink_to, try_grow. *)
From Coq Require Import NArith Lia Bool.
Local Open Scope N_scope.

Definition usize_max : N := 18446744073709551615.   (* 2^64 - 1 *)
Definition isize_max : N := 9223372036854775807.    (* 2^63 - 1 *)

(* usize::saturating_add *)
Definition sat_add (a b : N) : N := N.min (a + b) usize_max.
(* usize `+` : panics with overflow checks on, wraps without.  Not used by the repaired code,
   kept for the _refuted witnesses of the unrepaired arithmetic. *)
Definition wrap_add (a b : N) : N := (a + b) mod (usize_max + 1).

(* bucket_mask_to_capacity (B - 1) *)
Definition bcap (B : N) : N := if B <=? 8 then B - 1 else B / 8 * 7.

(* usize::next_power_of_two (no overflow in the range it is used in) *)
Definition npow2 (x : N) : N := 2 ^ N.log2_up x.

(* capacity_to_buckets; None = overflow of cap * 8 *)
Definition cap_to_buckets (c : N) : option N :=
  if c <? 4 then Some 4
  else if c <? 8 then Some 8
  else if usize_max <? c * 8 then None
  else Some (npow2 (c * 8 / 7)).

(* TableLayout::calculate_layout_for: size * buckets + (buckets + Group::WIDTH) must not exceed
   isize::MAX (rounded to alignment; alignment slack is < 16 bytes and irrelevant at these sizes).
   esz = size_of::<T>().  Group::WIDTH = 16 on this platform (SSE2). *)
Definition layout_ok (esz B : N) : bool := esz * B + B + 16 + 16 <=? isize_max.

(* ceil (n / R) *)
Definition cdiv (n R : N) : N := (n + R - 1) / R.

(* headroom the main table must have while n elements wait in the old table:
   n moves plus the ceil(n/R) insertions that perform them; an emptied-but-present old table
   still needs one free slot (insert asserts leftovers.is_none() when main is full). *)
Definition need (n R : N) : N := if n =? 0 then 1 else n + cdiv n R.

(* ---------------------------------------------------------------- lemmas *)

(* lia must never see the two 64-bit literals (it stalls on them): reason through these facts *)
Lemma isize_lt_usize : isize_max < usize_max.
Proof. reflexivity. Qed.
Lemma cautious_fits : 4096 <= usize_max.
Proof. unfold N.le. vm_compute. discriminate. Qed.
Lemma usize_max_big : 1024 < isize_max.
Proof. reflexivity. Qed.


Lemma npow2_ge x : x <= npow2 x.
Proof.
  unfold npow2. destruct (N.eq_dec x 0) as [->|Hx]; [cbn; lia|].
  destruct (N.eq_dec x 1) as [->|Hx1]; [cbn; lia|].
  apply N.log2_up_spec. lia.
Qed.

Lemma npow2_pos x : 0 < npow2 x.
Proof. unfold npow2. apply N.neq_0_lt_0, N.pow_nonzero. lia. Qed.

Lemma npow2_mul8 x : 9 <= x -> exists q, npow2 x = 8 * q /\ 2 <= q.
Proof.
  intros Hx. unfold npow2.
  assert (H4 : 4 <= N.log2_up x).
  { apply N.log2_up_le_mono in Hx. change (N.log2_up 9) with 4 in Hx. exact Hx. }
  exists (2 ^ (N.log2_up x - 3)). split.
  - replace (N.log2_up x) with (3 + (N.log2_up x - 3)) at 1 by lia.
    rewrite N.pow_add_r. reflexivity.
  - change 2 with (2 ^ 1) at 1. apply N.pow_le_mono_r; lia.
Qed.

Lemma bcap_small B : B <= 8 -> bcap B = B - 1.
Proof. intros H. unfold bcap. destruct (N.leb_spec B 8); lia. Qed.

Lemma bcap_mul8 q : 2 <= q -> bcap (8 * q) = 7 * q.
Proof.
  intros H. unfold bcap. destruct (N.leb_spec (8 * q) 8); [lia|].
  replace (8 * q / 8) with q by (rewrite N.mul_comm, N.div_mul; lia). lia.
Qed.

Lemma bcap_cap_to_buckets c B : 0 < c -> cap_to_buckets c = Some B -> c <= bcap B.
Proof.
  intros Hc. unfold cap_to_buckets.
  destruct (N.ltb_spec c 4); [intros [= <-]; unfold bcap; cbn; lia|].
  destruct (N.ltb_spec c 8); [intros [= <-]; unfold bcap; cbn; lia|].
  destruct (N.ltb_spec usize_max (c * 8)); [discriminate|]. intros [= <-].
  assert (H9 : 9 <= c * 8 / 7) by (apply N.div_le_lower_bound; lia).
  destruct (npow2_mul8 _ H9) as (q & Hq & Hq2).
  pose proof (npow2_ge (c * 8 / 7)) as Hge. rewrite Hq in Hge.
  rewrite Hq, bcap_mul8 by lia.
  assert (Hd : c * 8 < c * 8 / 7 * 7 + 7).
  { pose proof (N.div_mod (c * 8) 7 ltac:(lia)). pose proof (N.mod_lt (c*8) 7 ltac:(lia)). lia. }
  lia.
Qed.

Lemma cap_to_buckets_ge4 c B : cap_to_buckets c = Some B -> 4 <= B.
Proof.
  unfold cap_to_buckets.
  destruct (N.ltb_spec c 4); [intros [= <-]; lia|].
  destruct (N.ltb_spec c 8); [intros [= <-]; lia|].
  destruct (N.ltb_spec usize_max (c * 8)); [discriminate|]. intros [= <-].
  assert (H9 : 9 <= c * 8 / 7) by (apply N.div_le_lower_bound; lia).
  pose proof (npow2_ge (c * 8 / 7)). lia.
Qed.

Lemma cap_to_buckets_mono c1 c2 B1 B2 :
  c1 <= c2 -> cap_to_buckets c1 = Some B1 -> cap_to_buckets c2 = Some B2 -> B1 <= B2.
Proof.
  intros Hle. unfold cap_to_buckets.
  destruct (N.ltb_spec c1 4); destruct (N.ltb_spec c2 4); try lia;
  destruct (N.ltb_spec c1 8); destruct (N.ltb_spec c2 8); try lia;
  destruct (N.ltb_spec usize_max (c1 * 8)); destruct (N.ltb_spec usize_max (c2 * 8));
    try discriminate; intros [= <-] [= <-]; try lia.
  - assert (H9 : 9 <= c2 * 8 / 7) by (apply N.div_le_lower_bound; lia).
    pose proof (npow2_ge (c2 * 8 / 7)). lia.
  - assert (H9 : 9 <= c2 * 8 / 7) by (apply N.div_le_lower_bound; lia).
    pose proof (npow2_ge (c2 * 8 / 7)). lia.
  - unfold npow2. apply N.pow_le_mono_r; [lia|]. apply N.log2_up_le_mono.
    apply N.div_le_mono; lia.
Qed.

Lemma cdiv_small n R : 0 < n -> n <= R -> cdiv n R = 1.
Proof. intros. unfold cdiv. symmetry. apply N.div_unique with (r := n - 1); lia. Qed.

Lemma cdiv_step n R : 0 < R -> R < n -> cdiv n R = 1 + cdiv (n - R) R.
Proof.
  intros. unfold cdiv.
  replace (n + R - 1) with ((n - R + R - 1) + 1 * R) by lia.
  rewrite N.div_add by lia. lia.
Qed.

Lemma cdiv_0 R : 0 < R -> cdiv 0 R = 0.
Proof. intros. unfold cdiv. apply N.div_small. lia. Qed.

Lemma cdiv_pos n R : 0 < R -> 0 < n -> 1 <= cdiv n R.
Proof.
  intros HR Hn. destruct (N.le_gt_cases n R).
  - rewrite cdiv_small; lia.
  - rewrite cdiv_step by lia. lia.
Qed.

Lemma cdiv_le n R : 0 < R -> cdiv n R <= n.
Proof.
  intros HR. unfold cdiv. destruct (N.eq_dec n 0) as [->|Hn].
  - rewrite N.div_small; lia.
  - apply N.div_le_upper_bound; [lia|].
    assert (exists n' R', n = 1 + n' /\ R = 1 + R') as (n' & R' & -> & ->)
      by (exists (n - 1), (R - 1); lia). nia.
Qed.

Lemma cdiv_mono n m R : 0 < R -> n <= m -> cdiv n R <= cdiv m R.
Proof. intros. unfold cdiv. apply N.div_le_mono; lia. Qed.

Lemma cdiv_ge_mul n R : 0 < R -> n <= cdiv n R * R.
Proof.
  intros HR. unfold cdiv. pose proof (N.div_mod (n + R - 1) R ltac:(lia)) as Hd.
  pose proof (N.mod_lt (n + R - 1) R ltac:(lia)). nia.
Qed.

Lemma cdiv_add_le a b R : 0 < R -> b <= R -> cdiv (a + b) R <= cdiv a R + 1.
Proof.
  intros HR Hb. unfold cdiv.
  transitivity ((a + R - 1 + 1 * R) / R).
  - apply N.div_le_mono; lia.
  - rewrite N.div_add by lia. lia.
Qed.

Global Opaque cdiv.

Lemma need_0 R : need 0 R = 1.
Proof. reflexivity. Qed.

Lemma need_pos n R : 0 < n -> need n R = n + cdiv n R.
Proof. intros. unfold need. destruct (N.eqb_spec n 0); lia. Qed.

Lemma need_ge1 n R : 0 < R -> 1 <= need n R.
Proof. intros. unfold need. destruct (N.eqb_spec n 0); [lia|]. pose proof (cdiv_pos n R). lia. Qed.

(* one carry step moves R (or all) elements and the calling insertion takes one more slot *)
Lemma need_step n R : 0 < R -> R < n -> need n R = need (n - R) R + R + 1.
Proof.
  intros HR Hn. rewrite !need_pos by lia. rewrite (cdiv_step n R) by lia. lia.
Qed.

Lemma need_small n R : 0 < R -> 0 < n -> n <= R -> need n R = n + 1.
Proof. intros. rewrite need_pos, cdiv_small by lia. lia. Qed.

(* if a carry loop with f <= R rounds left and m + 1 elements to go had its budget, then after
   losing the element in flight the remaining m still have their full headroom *)
Lemma need_after_loss f m gl R :
  0 < R -> 1 <= f -> f <= R ->
  N.min f (m + 1) + (if f <? m + 1 then need (m + 1 - f) R else 0) <= gl ->
  need m R <= gl.
Proof.
  intros HR Hf1 HfR Hb. destruct (N.ltb_spec f (m + 1)) as [Hlt|Hge].
  - destruct (N.eq_dec m 0) as [->|Hm]; [cbn; lia|].
    rewrite need_pos by lia. rewrite need_pos in Hb by lia.
    pose proof (cdiv_add_le (m + 1 - f) (f - 1) R HR ltac:(lia)) as Hc.
    replace (m + 1 - f + (f - 1)) with m in Hc by lia. lia.
  - destruct (N.eq_dec m 0) as [->|Hm]; [cbn; lia|].
    rewrite need_small by lia. lia.
Qed.

(* each element that leaves the old table frees at least one slot of headroom *)
Lemma need_pred m R : 0 < R -> 0 < m -> need (m - 1) R + 1 <= need m R.
Proof.
  intros HR Hm. destruct (N.eq_dec m 1) as [->|H1].
  - change (1 - 1) with 0. rewrite need_0, need_small by lia. lia.
  - rewrite !need_pos by lia. pose proof (cdiv_mono (m - 1) m R HR ltac:(lia)). lia.
Qed.

Lemma need_ge n R : 0 < R -> n <= need n R.
Proof. intros. unfold need. destruct (N.eqb_spec n 0); lia. Qed.

Lemma need_mono n m R : 0 < R -> n <= m -> need n R <= need m R.
Proof.
  intros HR Hle. unfold need.
  destruct (N.eqb_spec n 0); destruct (N.eqb_spec m 0); try lia.
  pose proof (cdiv_mono n m R HR Hle). lia.
Qed.

Lemma sat_add_le a b : sat_add a b <= a + b.
Proof. unfold sat_add. lia. Qed.

Lemma sat_add_exact a b : a + b <= usize_max -> sat_add a b = a + b.
Proof. unfold sat_add. lia. Qed.

Lemma sat_add_max a b : usize_max < a + b -> sat_add a b = usize_max.
Proof. unfold sat_add. lia. Qed.

Lemma cap_to_buckets_overflow c : usize_max / 8 < c -> 8 <= c -> cap_to_buckets c = None.
Proof.
  intros H H8. unfold cap_to_buckets.
  destruct (N.ltb_spec c 4); [lia|]. destruct (N.ltb_spec c 8); [lia|].
  destruct (N.ltb_spec usize_max (c * 8)); [reflexivity|].
  exfalso. assert (c <= usize_max / 8) by (apply N.div_le_lower_bound; lia). lia.
Qed.
