(* EntryLedger.v — C06 for entry and raw-entry chains: the key objects a chain is given (the key
   passed to entry(), the keys passed to raw-entry insertions) are, when the chain is over, stored,
   dropped or handed back - each exactly once; the key an Entry holds counts as held until the
   handle is consumed or dropped. *)
From stdpp Require Import gmap list.
From Coq Require Import NArith Lia.
From G Require Import Arith Monad Types Inv Raw RawProofs Map MapProofs IterProofs CloneProofs EntryProofs SetProofs Ledger Conserve.
Local Open Scope N_scope.

(* multiset reasoning on lists of key objects by counting *)
Lemma perm_count (l1 l2 : list N) : l1 ≡ₚ l2 <-> forall x, count_occ N.eq_dec l1 x = count_occ N.eq_dec l2 x.
Proof. apply (Permutation_count_occ N.eq_dec). Qed.
Ltac cons_to_app :=
  repeat match goal with
         | |- context [?a :: ?l] => lazymatch l with [] => fail | _ => change (a :: l) with ([a] ++ l) end
         | H : context [?a :: ?l] |- _ => lazymatch l with [] => fail | _ => change (a :: l) with ([a] ++ l) in H end
         end.
Ltac perm_lia :=
  let x0 := fresh "x0" in
  cons_to_app;
  apply perm_count; intros x0;
  repeat match goal with H : @Permutation N ?l1 ?l2 |- _ => let H' := fresh "Hc" in pose proof (proj1 (perm_count l1 l2) H x0) as H'; clear H end;
  repeat match goal with H : context [count_occ _ (_ ++ _) _] |- _ => rewrite count_occ_app in H end;
  repeat rewrite count_occ_app;
  repeat match goal with H : context [count_occ _ [] _] |- _ => rewrite (count_occ_nil N.eq_dec) in H end;
  rewrite ?(count_occ_nil N.eq_dec); lia.

(* ---------------------------------------------------------------- what a step is given, hands back, drops *)
Definition hkl (h : option N) : list N := match h with Some x => [x] | None => [] end.
Definition hk (a : aent) : list N := match a with AOcc _ h | AVac _ h => hkl h | ADone => [] end.
Definition kidsM (m : gmap N elem) : list N := map ekid (map_to_list m).*2.

Definition step_kin (st : estep) (a : aent) : list N :=
  match st, a with
  | SRawInsert kid _, _ | SRawOrInsert kid _ _, _ | SRawOccInsertKey kid, _ | SRawVacInsert _ kid _ _, _ => [kid]
  | SRawOrInsertWith kid _ _, AVac _ _ => [kid]      (* the closure builds the key only when it runs *)
  | _, _ => []
  end.
Definition step_kout (st : estep) (r : out) : list N :=
  match st, r with
  | SOccRemoveEntry, OutOKV (Some (kid, _)) | SOccReplaceEntry _, OutOKV (Some (kid, _)) => [kid]
  | SVacIntoKey, OutN kid | SOccReplaceKey, OutN kid | SRawOccInsertKey _, OutN kid => [kid]
  | _, _ => []
  end.
Definition step_drops (raw : bool) (m : gmap N elem) (a : aent) (st : estep) : list N :=
  match a with
  | AOcc k held =>
      match m !! k with
      | None => []
      | Some x =>
          match st with
          | SAndReplace keep _ | SOccReplaceWith keep _ => if keep then [] else if raw then [ekid x] else hkl held
          | SOrInsert _ _ | SOrInsertWith _ _ | SOrInsertWithKey _ _ | SOccIntoMut _ | SOccRemoveEntry => hkl held
          | SOccRemove => ekid x :: hkl held
          | SRawInsert kid _ | SRawOrInsert kid _ _ => [kid]
          | _ => []
          end
      end
  | _ => []
  end.

(* ---------------------------------------------------------------- the abstract law *)
Lemma kidsM_delete (m : gmap N elem) k x : m !! k = Some x -> kidsM m ≡ₚ ekid x :: kidsM (delete k m).
Proof. intros H. unfold kidsM. rewrite <- (map_to_list_delete m k x H). reflexivity. Qed.
Lemma kidsM_insert_new (m : gmap N elem) k e : m !! k = None -> kidsM (<[k := e]> m) ≡ₚ ekid e :: kidsM m.
Proof. intros H. unfold kidsM. rewrite (map_to_list_insert m k e H). reflexivity. Qed.
Lemma kidsM_insert_over (m : gmap N elem) k x e : m !! k = Some x -> ekid x :: kidsM (<[k := e]> m) ≡ₚ ekid e :: kidsM m.
Proof.
  intros H. rewrite <- (insert_delete_insert m k e), kidsM_insert_new by apply lookup_delete.
  rewrite (kidsM_delete m k x H). apply Permutation_swap.
Qed.
Lemma kidsM_setv (m : gmap N elem) k v : kidsM (setv m k v) ≡ₚ kidsM m.
Proof.
  unfold setv. destruct (m !! k) as [x|] eqn:E; [|reflexivity].
  pose proof (kidsM_insert_over m k x (Elem k (ekid x) v) E) as H. cbn [ekid] in H. apply (Permutation_cons_inv H).
Qed.
Lemma kidsM_wopt (m : gmap N elem) k w : kidsM (wopt m k w) ≡ₚ kidsM m.
Proof. destruct w; [apply kidsM_setv|reflexivity]. Qed.

(* raw entries hold no key of their own; the raw-only steps exist on raw entries only *)
Definition raw_wf (raw : bool) (a : aent) : Prop := raw = true -> hk a = [].
Definition raw_only (st : estep) : bool :=
  match st with
  | SRawInsert _ _ | SRawOrInsert _ _ _ | SRawOrInsertWith _ _ _ | SRawOccInsertKey _ | SRawOccKeyValue | SRawVacInsert _ _ _ _ => true
  | _ => false
  end.
Definition st_wf (raw : bool) (st : estep) : Prop := raw_only st = true -> raw = true.

Theorem ref_step_conserves raw m a st m' a' o :
  raw_wf raw a -> st_wf raw st ->
  ref_step raw m a st = ROk m' a' o ->
  raw_wf raw a' /\
  step_drops raw m a st ++ kidsM m' ++ hk a' ++ step_kout st o ≡ₚ step_kin st a ++ kidsM m ++ hk a.
Proof.
  intros Hwf Hst E. unfold raw_wf, st_wf in *. destruct a as [k held|k held|]; cbn [ref_step] in E; [| |discriminate].
  - destruct (m !! k) as [x|] eqn:Ek; [|discriminate]. cbn [step_drops]. rewrite Ek.
    pose proof (kidsM_delete m k x Ek) as Hdel. cbn [hk] in Hwf.
    destruct st; cbn [step_kin step_kout hk raw_only] in *; try discriminate.
    all: try (unfold ref_replace in E; destruct keep).
    all: try match type of E with context [match ?hh with Some _ => _ | None => RPanic _ _ end] => destruct hh as [h|]; [|discriminate] end.
    all: injection E as <- <- <-; cbn [hk hkl step_kout]; unfold setk; rewrite ?Ek; rewrite ?kidsM_setv, ?kidsM_wopt.
    all: try match goal with |- context [<[?kk := ?e]> ?mm] => pose proof (kidsM_insert_over m kk x e Ek) as H1; cbn [ekid] in H1 end.
    all: destruct raw; [rewrite ?(Hwf eq_refl) in *|try (discriminate (Hst eq_refl))]; cbn [hk hkl]; (split; [intros ?; reflexivity || congruence|]).
    all: try perm_lia.
  - destruct (m !! k) as [x|] eqn:Ek; [discriminate|]. cbn [step_drops app]. cbn [hk] in Hwf.
    destruct st, held as [h|]; cbn [step_kin step_kout hk hkl raw_only] in *; try discriminate;
      injection E as <- <- <-; cbn [hk hkl step_kout]; unfold put;
      try match goal with |- context [<[?kk := ?e]> ?mm] => pose proof (kidsM_insert_new m kk e Ek) as H1; cbn [ekid] in H1 end;
      (split; [first [exact Hwf | intros ?; reflexivity]|]); try perm_lia.
Qed.

(* ---------------------------------------------------------------- what the model's steps drop *)
Section EntryLedger.
Context (c : cfg).
Notation R := (cR c).
Notation ES := (cesz c).

(* [dk D m]: when m completes it has dropped exactly the key objects D (and keeps [lite]) *)
Definition dk {A} (D : list N) (m : M' A) : Prop :=
  forall s, lite s -> wpp m (fun _ s' => lite s' /\ dks s' ≡ₚ D ++ dks s) TT s.

Lemma dk_nd {A} (m : M' A) : nd m -> dk [] m.
Proof. intros H s Hs. eapply wpp_mono; [apply H, Hs|]. cbn beta. intros a s' [(Hk & _ & Hl) _]. rewrite Hk. auto. Qed.
Lemma dk_bind {A B} D1 D2 (m : M' A) (g : A -> M' B) : dk D1 m -> (forall x, dk D2 (g x)) -> dk (D1 ++ D2) (bind m g).
Proof.
  intros Hm Hg s Hs. apply wpp_bind. eapply wpp_mono; [apply Hm, Hs|]. cbn beta. intros x s1 [Hl1 H1].
  eapply wpp_mono; [apply Hg, Hl1|]. cbn beta. intros y s2 [Hl2 H2]. split; [exact Hl2|]. rewrite H2, H1. perm_lia.
Qed.
Lemma dk_perm {A} D D' (m : M' A) : dk D m -> D' ≡ₚ D -> dk D' m.
Proof. intros H HD s Hs. eapply wpp_mono; [apply H, Hs|]. cbn beta. intros a s' [Hl H1]. split; [exact Hl|]. rewrite H1, HD. reflexivity. Qed.
Lemma dk_drop_key kid : dk [kid] (drop_key kid).
Proof.
  intros s Hs. unfold drop_key, tick, modify, wpp, dks. cbn. split; [exact Hs|reflexivity].
Qed.
Lemma dk_drop_held h : dk (hkl h) (drop_held h).
Proof. destruct h; [apply dk_drop_key|]. apply dk_nd, nd_ret. Qed.
Lemma dk_on_unwind {A} D (m : M' A) h : dk D m -> dk D (on_unwind m h).
Proof.
  intros H s Hs. specialize (H s Hs). unfold wpp, on_unwind in *. destruct (m s) as [a s1|p s1|f]; [exact H| |exact I].
  destruct (h s1); exact I.
Qed.
Lemma dk_use {A} D (m : M' A) s a s' : dk D m -> lite s -> m s = Ok a s' -> lite s' /\ dks s' ≡ₚ D ++ dks s.
Proof. intros H Hs E. specialize (H s Hs). unfold wpp in H. rewrite E in H. exact H. Qed.

Lemma dk_drop_val v : dk [] (drop_val v).
Proof. intros s Hs. unfold drop_val, tick, modify, wpp, dks. cbn. split; [exact Hs|reflexivity]. Qed.
Lemma nd_set_key im k kid : nd (set_key im k kid).
Proof.
  unfold set_key. destruct im.
  - eapply ndr_bind; [apply ndr_getm|]. intros t Ht. destruct (hel t !! k) eqn:E; [apply nd_setm; eapply hbc_upd; eauto|apply nd_fault].
  - eapply ndr_bind; [apply ndr_getlo|]. intros [o|] Ho; [|apply nd_fault].
    destruct (lookup_list k (orem o)); [|apply nd_fault]. apply nd_setlo. cbn [oldc orem oit ocnt] in *.
    rewrite replace_list_length, replace_list_keys. exact Ho.
Qed.
Lemma nd_ent_elem im k : nd (ent_elem im k).
Proof.
  unfold ent_elem. apply nd_bind; [apply nd_rt_find|]. intros [[im' e]|]; [|apply nd_fault].
  destruct (Bool.eqb im' im); [apply nd_ret|apply nd_fault].
Qed.
Lemma nd_wopt_set im k (w : option N) : nd (match w with Some w => set_value im k w | None => ret tt end).
Proof. destruct w; [apply nd_set_value|apply nd_ret]. Qed.
Lemma nd_write_through k w : nd (write_through k w).
Proof. unfold write_through. destruct w; [apply nd_set_value|apply nd_ret]. Qed.
Lemma nd_vac_insert k kid v : nd (vac_insert c k kid v).
Proof. apply nd_rt_insert. Qed.


(* exact, unconditional tracking of the key ledger for code that touches it only through drop_key *)
Definition dku {A} (D : list N) (m : M' A) : Prop := forall s a s', m s = Ok a s' -> dks s' = D ++ dks s.
Lemma dku_ret {A} (a : A) : dku [] (ret a).
Proof. intros s a' s' E. unfold ret in E. injection E as _ <-. reflexivity. Qed.
Lemma dku_bind {A B} D1 D2 (m : M' A) (g : A -> M' B) : dku D1 m -> (forall x, dku D2 (g x)) -> dku (D2 ++ D1) (bind m g).
Proof.
  intros Hm Hg s b s' E. unfold bind in E. destruct (m s) as [x s1|p s1|f] eqn:E1; try discriminate.
  rewrite (Hg x s1 b s' E), (Hm s x s1 E1), app_assoc. reflexivity.
Qed.
Lemma dku_bind0 {A B} D (m : M' A) (g : A -> M' B) : dku [] m -> (forall x, dku D (g x)) -> dku D (bind m g).
Proof. intros Hm Hg. rewrite <- (app_nil_r D). apply dku_bind; assumption. Qed.
Lemma dku_modify_rt (f : st -> st) : (forall s, s_log (f s) = s_log s) -> dku [] (modify f).
Proof. intros Hf s a s' E. unfold modify in E. injection E as _ <-. unfold dks. rewrite Hf. reflexivity. Qed.
Lemma dku_setm t : dku [] (setm t).
Proof. apply dku_modify_rt. reflexivity. Qed.
Lemma dku_setlo o : dku [] (setlo o).
Proof. apply dku_modify_rt. reflexivity. Qed.
Lemma dku_gets {A} (g : st -> A) : dku [] (gets g).
Proof. intros s a s' E. unfold gets in E. injection E as _ <-. reflexivity. Qed.
Lemma dku_fault {A} f : dku [] (@fault_ st A f).
Proof. intros s a s' E. discriminate. Qed.
Lemma dku_unwind {A} D p : dku D (@unwind st A p).
Proof. intros s a s' E. discriminate. Qed.
Lemma dku_rp {A} (P : A -> Prop) (m : M' A) : rp P m -> dku [] m.
Proof. intros H s a s' E. specialize (H s). rewrite E in H. destruct H as (_ & H & _). exact H. Qed.
Lemma dku_on_unwind {A} D (m : M' A) h : dku D m -> dku D (on_unwind m h).
Proof.
  intros H s a s' E. unfold on_unwind in E. destruct (m s) as [a1 s1|p s1|f] eqn:E1; [injection E as <- <-; eapply H; eauto| |discriminate].
  destruct (h s1); discriminate.
Qed.
Lemma dku_drop_key kid : dku [kid] (drop_key kid).
Proof. intros s a s' E. unfold drop_key, tick, modify in E. injection E as _ <-. reflexivity. Qed.
Lemma dku_drop_val v : dku [] (drop_val v).
Proof. intros s a s' E. unfold drop_val, tick, modify in E. injection E as _ <-. reflexivity. Qed.
Lemma dku_drop_held h : dku (hkl h) (drop_held h).
Proof. destruct h; [apply dku_drop_key|apply dku_ret]. Qed.
Lemma rp_take_tomb : rp (fun _ => True) take_tomb.
Proof. intros s0. unfold take_tomb, bind, get. cbn. destruct (s_tomb s0 =? 0); cbn; auto. Qed.

(* the closure of replace_entry_with, as the model runs it *)
Definition rw_f (raw keep : bool) (d : N) : elem -> M' (option elem) :=
  fun e => on_unwind cb (drop_elem e) ;;;
           if keep then ret (Some (Elem (ek e) (ekid e) (ev e + d)))
           else drop_val (ev e) ;;; when raw (drop_key (ekid e)) ;;; ret None.
Definition rw_drops (raw keep : bool) (x : elem) : list N := if keep then [] else if raw then [ekid x] else [].
Lemma dku_rw_f raw keep d e : dku (rw_drops raw keep e) (rw_f raw keep d e).
Proof.
  unfold rw_f, rw_drops. apply dku_bind0; [apply dku_on_unwind, (dku_rp _ _ rp_cb)|intros _].
  destruct keep; [apply dku_ret|]. apply dku_bind0; [apply dku_drop_val|intros _].
  destruct raw; cbn [when].
  - rewrite <- (app_nil_l [ekid e]). apply dku_bind; [apply dku_drop_key|intros _; apply dku_ret].
  - apply dku_bind0; apply dku_ret || (intros; apply dku_ret).
Qed.
Lemma rw_f_result raw keep d e s r s' : rw_f raw keep d e s = Ok r s' -> (r = None <-> keep = false).
Proof.
  unfold rw_f, bind, on_unwind. destruct (cb s) as [u s1|p s1|f]; [| destruct (drop_elem e s1); discriminate|discriminate].
  destruct keep; unfold ret; [intros [= <- _]; split; discriminate|].
  unfold drop_val, tick, modify, when. destruct raw; unfold drop_key, tick, modify, ret; intros [= <- _]; split; reflexivity.
Qed.

Lemma rbw_dks raw im k keep d x s b s' :
  rt_find_pure (s_rt s) k = Some (im, x) ->
  rt_replace_bucket_with c im k (rw_f raw keep d) s = Ok b s' ->
  b = keep /\ dks s' = rw_drops raw keep x ++ dks s.
Proof.
  intros Hf E. unfold rt_replace_bucket_with in E. destruct im.
  - apply rt_find_main in Hf. unfold bind at 1, getm, gets in E. set (t := main (s_rt s)) in *.
    unfold bind at 1, hb_remove in E. rewrite Hf in E. unfold bind at 1 in E.
    pose proof (rp_take_tomb s) as Ht. destruct (take_tomb s) as [tb s1|p s1|f]; try discriminate.
    destruct Ht as (_ & Hk1 & _). unfold ret at 1 in E. cbn [fst snd] in E.
    unfold bind at 1, setm, modify in E. unfold bind at 1 in E.
    match type of E with context [rw_f raw keep d x ?s2] => set (s2' := s2) in *; destruct (rw_f raw keep d x s2') as [r s3|p s3|f] eqn:Er; try discriminate end.
    pose proof (dku_rw_f raw keep d x s2' r s3 Er) as Hk3. pose proof (rw_f_result raw keep d x s2' r s3 Er) as Hr.
    assert (Hk2 : dks s2' = dks s) by (unfold s2', dks; cbn; exact Hk1).
    destruct r as [e'|].
    + unfold bind, setm, modify, ret in E. injection E as <- <-. split.
      * destruct keep; [reflexivity|]. destruct Hr as [_ Hr]. specialize (Hr eq_refl). discriminate.
      * unfold dks in *. cbn [set_rt s_log]. rewrite Hk3, Hk2. reflexivity.
    + unfold ret in E. injection E as <- <-. split; [symmetry; apply Hr; reflexivity|]. rewrite Hk3, Hk2. reflexivity.
  - apply rt_find_old in Hf as (_ & o & Hlo & Hlk). unfold bind at 1, getlo, gets in E. rewrite Hlo in E.
    unfold bind at 1 in E.
    assert (Hot : forall e s1, old_take c k s = Ok e s1 -> e = x /\ dks s1 = dks s).
    { intros e s1. unfold old_take, bind, getlo, gets. rewrite Hlo, Hlk.
      destruct (czst c); [unfold setlo, modify, ret; intros [= <- <-]; auto|].
      destruct (oit o =? 0); [discriminate|]. unfold setlo, modify, ret. intros [= <- <-]. auto. }
    destruct (old_take c k s) as [e s1|p s1|f] eqn:Eo; try discriminate. destruct (Hot e s1 eq_refl) as [-> Hk1].
    unfold bind at 1 in E. destruct (rw_f raw keep d x s1) as [r s3|p s3|f] eqn:Er; try discriminate.
    pose proof (dku_rw_f raw keep d x s1 r s3 Er) as Hk3. pose proof (rw_f_result raw keep d x s1 r s3 Er) as Hr.
    destruct r as [e'|].
    + unfold bind, setlo, modify, ret in E. injection E as <- <-. split.
      * destruct keep; [reflexivity|]. destruct Hr as [_ Hr]. specialize (Hr eq_refl). discriminate.
      * unfold dks in *. cbn [set_rt s_log]. rewrite Hk3, Hk1. reflexivity.
    + unfold ret in E. injection E as <- <-. split; [symmetry; apply Hr; reflexivity|]. rewrite Hk3, Hk1. reflexivity.
Qed.


#[local] Hint Resolve nd_ent_elem nd_set_value nd_set_key nd_wopt_set nd_write_through nd_vac_insert nd_rt_insert nd_rt_remove nd_rt_find : nd.
Ltac dk_go :=
  lazymatch goal with
  | |- dk _ (bind _ _) => first [ apply dk_nd; solve [nds] | eapply dk_bind; [dk_go | intros ?; dk_go] ]
  | |- dk _ (drop_key _) => apply dk_drop_key
  | |- dk _ (drop_val _) => apply dk_drop_val
  | |- dk _ (drop_held _) => apply dk_drop_held
  | |- dk _ (on_unwind _ _) => apply dk_on_unwind; dk_go
  | |- dk _ _ => apply dk_nd; solve [nds]
  end.

(* the steps whose drops do not depend on the element found *)
Definition udrops (e : ent) (st : estep) : list N :=
  match e with
  | EOcc _ _ held =>
      match st with
      | SOrInsert _ _ | SOrInsertWith _ _ | SOrInsertWithKey _ _ | SOccIntoMut _ | SOccRemoveEntry => hkl held
      | SRawInsert kid _ | SRawOrInsert kid _ _ => [kid]
      | _ => []
      end
  | _ => []
  end.
Definition special (e : ent) (st : estep) : bool :=
  match e, st with
  | EOcc _ _ _, SOccRemove | EOcc _ _ _, SAndReplace _ _ | EOcc _ _ _, SOccReplaceWith _ _ => true
  | _, _ => false
  end.
Lemma dk_entry_step raw e st : special e st = false -> dk (udrops e st) (entry_step c raw e st).
Proof.
  intros Hsp. destruct e as [im k held|k held|]; cbn [udrops].
  - destruct st; cbn [entry_step special] in *; try discriminate;
      try (destruct held as [h|]; cbn [hkl]);
      (eapply dk_perm; [dk_go|]); cbn [hkl]; perm_lia.
  - destruct st, held as [h|]; cbn [entry_step]; (eapply dk_perm; [dk_go|]); perm_lia.
  - destruct st; cbn [entry_step]; apply dk_nd, nd_fault.
Qed.

Lemma ent_elem_found im k x s : rt_find_pure (s_rt s) k = Some (im, x) -> ent_elem im k s = Ok x s.
Proof. intros Hf. unfold ent_elem, bind, rt_find, gets. rewrite Hf, Bool.eqb_reflx. reflexivity. Qed.

Lemma occ_replace_with_eq raw im k held keep d :
  occ_replace_with c raw im k held keep d =
  (e0 <- ent_elem im k ;;
   b <- on_unwind (rt_replace_bucket_with c im k (rw_f raw keep d)) (drop_held held) ;;
   if b then ret (EOcc im k held)
   else if raw then ret (EVac k None)
   else drop_held held ;;; ret (EVac k (Some (ekid e0)))).
Proof. reflexivity. Qed.
Lemma occ_replace_with_dks raw im k held keep d x s e1 s1 :
  rt_find_pure (s_rt s) k = Some (im, x) ->
  occ_replace_with c raw im k held keep d s = Ok e1 s1 ->
  dks s1 = (if keep then [] else if raw then [ekid x] else hkl held) ++ dks s.
Proof.
  intros Hf Eo. rewrite occ_replace_with_eq in Eo. unfold bind at 1 in Eo. rewrite (ent_elem_found im k x s Hf) in Eo.
  unfold bind at 1, on_unwind at 1 in Eo.
  destruct (rt_replace_bucket_with c im k (rw_f raw keep d) s) as [b s2|p s2|f] eqn:Er.
  2:{ destruct (drop_held held s2); discriminate. }
  2:{ discriminate. }
  destruct (rbw_dks raw im k keep d x s b s2 Hf Er) as [-> Hk]. unfold rw_drops in Hk.
  destruct keep; [unfold ret in Eo; injection Eo as _ <-; exact Hk|].
  destruct raw; [unfold ret in Eo; injection Eo as _ <-; exact Hk|].
  unfold bind in Eo. destruct (drop_held held s2) as [u s3|p s3|f] eqn:Ed; try discriminate. unfold ret in Eo. injection Eo as _ <-.
  rewrite (dku_drop_held held s2 u s3 Ed), Hk. reflexivity.
Qed.

Theorem entry_step_dks raw e st s e' r s' :
  Inv R ES (s_rt s) -> ent_ok (s_rt s) e -> entry_step c raw e st s = Ok (e', r) s' ->
  dks s' ≡ₚ step_drops raw (rt_abs (s_rt s)) (strip e) st ++ dks s.
Proof.
  intros HI Hok E. pose proof (Inv_lite _ _ _ HI) as Hl.
  destruct (special e st) eqn:Hsp.
  - (* the steps that drop the key of the element found *)
    destruct e as [im k held|k held|]; [|discriminate|discriminate]. destruct Hok as [x Hf].
    pose proof (find_abs c _ _ _ _ HI Hf) as Habs. cbn [strip step_drops]. rewrite Habs.
    destruct st; try discriminate; cbn [entry_step] in E.
    + (* SAndReplace *)
      unfold bind at 1 in E. destruct (occ_replace_with c raw im k held keep d s) as [e1 s1|p s1|f] eqn:Eo; try discriminate.
      unfold ret in E. injection E as <- <- <-. rewrite (occ_replace_with_dks _ _ _ _ _ _ x _ _ _ Hf Eo). reflexivity.
    + (* SOccRemove *)
      unfold bind at 1 in E.
      pose proof (rt_remove_spec c im k x (fun x' _ => x' = x) (fun _ _ => True) s HI Hf (fun _ _ => eq_refl)) as Hsp1.
      pose proof (nd_rt_remove c im k s Hl) as Hnd. unfold wp in Hsp1. unfold wpp in Hnd.
      destruct (rt_remove c im k s) as [x' s1|p s1|f] eqn:Er; try discriminate. subst x'. destruct Hnd as [(Hk1 & _ & Hl1) _].
      assert (Hd : dk ([ekid x] ++ hkl held) (drop_key (ekid x) ;;; drop_held held ;;; ret (EDone, OutN (ev x)))).
      { eapply dk_perm; [dk_go|]. perm_lia. }
      destruct (dk_use _ _ s1 _ _ Hd Hl1 E) as [_ Hk]. rewrite Hk, Hk1. reflexivity.
    + (* SOccReplaceWith *)
      unfold bind at 1 in E. destruct (occ_replace_with c raw im k held keep d s) as [e1 s1|p s1|f] eqn:Eo; try discriminate.
      unfold ret in E. injection E as <- <- <-. rewrite (occ_replace_with_dks _ _ _ _ _ _ x _ _ _ Hf Eo). reflexivity.
  - destruct (dk_use _ _ s _ _ (dk_entry_step raw e st Hsp) Hl E) as [_ Hk]. rewrite Hk. apply Permutation_app_tail.
    destruct e as [im k held|k held|]; cbn [udrops strip step_drops]; [|reflexivity|reflexivity].
    destruct Hok as [x Hf]. rewrite (find_abs c _ _ _ _ HI Hf).
    destruct st; cbn [special] in Hsp; try discriminate; reflexivity.
Qed.

(* ---------------------------------------------------------------- one step, then chains *)
Theorem entry_step_conserves raw e st s e' r s' :
  Inv R ES (s_rt s) -> ent_ok (s_rt s) e -> raw_wf raw (strip e) -> st_wf raw st ->
  entry_step c raw e st s = Ok (e', r) s' ->
  Inv R ES (s_rt s') /\ ent_ok (s_rt s') e' /\ raw_wf raw (strip e') /\
  ref_step raw (rt_abs (s_rt s)) (strip e) st = ROk (rt_abs (s_rt s')) (strip e') r /\
  dks s' ++ kidsE (s_rt s') ++ hk (strip e') ++ step_kout st r ≡ₚ step_kin st (strip e) ++ dks s ++ kidsE (s_rt s) ++ hk (strip e).
Proof.
  intros HI Hok Hwf Hst E.
  pose proof (entry_step_spec c raw e st s HI Hok) as Hsp. unfold wp in Hsp. rewrite E in Hsp.
  destruct Hsp as (HI' & Hok' & Href). cbn [fst snd] in *.
  destruct (ref_step_conserves raw _ _ st _ _ _ Hwf Hst Href) as [Hwf' Hlaw].
  pose proof (entry_step_dks raw e st s e' r s' HI Hok E) as Hd.
  split; [exact HI'|]. split; [exact Hok'|]. split; [exact Hwf'|]. split; [exact Href|].
  pose proof (kidsE_abs c _ HI) as H1. pose proof (kidsE_abs c _ HI') as H2. unfold kidsM in Hlaw.
  perm_lia.
Qed.

Fixpoint chain_kin (raw : bool) (m : gmap N elem) (a : aent) (ss : list estep) : list N :=
  match ss with
  | [] => []
  | st :: ss => step_kin st a ++ match ref_step raw m a st with ROk m' a' _ => chain_kin raw m' a' ss | _ => [] end
  end.
Fixpoint chain_kout (ss : list estep) (outs : list out) : list N :=
  match ss, outs with
  | st :: ss, o :: outs => step_kout st o ++ chain_kout ss outs
  | _, _ => []
  end.

Theorem entry_steps_conserves raw : forall ss e acc s outs s',
  Inv R ES (s_rt s) -> ent_ok (s_rt s) e -> raw_wf raw (strip e) -> Forall (st_wf raw) ss ->
  entry_steps c raw e ss acc s = Ok outs s' ->
  exists outs', outs = acc ++ outs' /\
  dks s' ++ kidsE (s_rt s') ++ chain_kout ss outs' ≡ₚ
  chain_kin raw (rt_abs (s_rt s)) (strip e) ss ++ dks s ++ kidsE (s_rt s) ++ hk (strip e).
Proof.
  induction ss as [|st ss IH]; intros e acc s outs s' HI Hok Hwf Hall E; cbn [entry_steps] in E.
  - exists []. unfold bind in E.
    set (m := match e with EOcc _ _ held | EVac _ held => drop_held held | EDone => ret tt end) in E.
    assert (Hm : dku (hk (strip e)) m) by (unfold m; destruct e; cbn [strip hk]; [apply dku_drop_held|apply dku_drop_held|apply dku_ret]).
    destruct (m s) as [u s1|p s1|f] eqn:Em; try discriminate. unfold ret in E. injection E as <- <-.
    split; [rewrite app_nil_r; reflexivity|]. cbn [chain_kout chain_kin]. rewrite (Hm s u s1 Em).
    assert (Hrt : s_rt s1 = s_rt s).
    { unfold m in Em. destruct e as [? ? [h|]|? [h|]|]; cbn in Em; injection Em as Em; subst s1; reflexivity. }
    rewrite Hrt. perm_lia.
  - unfold bind in E. destruct (entry_step c raw e st s) as [[e1 o1] s1|p s1|f] eqn:E1; try discriminate. cbn [fst snd] in E.
    inversion Hall as [|? ? Hst Hrest]; subst.
    destruct (entry_step_conserves raw e st s e1 o1 s1 HI Hok Hwf Hst E1) as (HI1 & Hok1 & Hwf1 & Href & Hlaw).
    destruct (IH e1 (acc ++ [o1]) s1 outs s' HI1 Hok1 Hwf1 Hrest E) as (outs' & -> & Hch).
    exists (o1 :: outs'). split; [rewrite <- app_assoc; reflexivity|]. cbn [chain_kout chain_kin]. rewrite Href.
    perm_lia.
Qed.

(* entry(key).chain: the key passed to entry() and the keys passed to the steps, against what is
   stored, dropped and handed back *)
Theorem map_entry_conserves k kid ss s outs s' :
  Inv R ES (s_rt s) -> Forall (st_wf false) ss -> map_entry c k kid ss s = Ok outs s' ->
  dks s' ++ kidsE (s_rt s') ++ chain_kout ss outs ≡ₚ
  (kid :: chain_kin false (rt_abs (s_rt s)) (start_ent (rt_abs (s_rt s)) k (Some kid)) ss) ++ dks s ++ kidsE (s_rt s).
Proof.
  intros HI Hall E. unfold map_entry, bind at 1, on_unwind in E.
  pose proof (rp_tick_hash s) as Ht. destruct (tick_hash s) as [u s1|p s1|f]; [| destruct (drop_key kid s1); discriminate|discriminate].
  destruct Ht as (Hr1 & Hk1 & _). unfold bind at 1, rt_find, gets in E.
  pose proof (rt_find_abs c (s_rt s) k HI) as Hfa. rewrite Hr1 in E.
  assert (HI1 : Inv R ES (s_rt s1)) by (rewrite Hr1; exact HI).
  unfold start_ent. rewrite Hfa.
  destruct (rt_find_pure (s_rt s) k) as [[im x]|] eqn:Hf; cbn [option_map snd].
  - destruct (entry_steps_conserves false ss (EOcc im k (Some kid)) [] s1 outs s' HI1) as (outs' & -> & H); auto.
    { cbn [ent_ok]. rewrite Hr1. eauto. } { intros H; discriminate. }
    cbn [app strip hk hkl] in *. rewrite Hr1, Hk1 in H. perm_lia.
  - destruct (entry_steps_conserves false ss (EVac k (Some kid)) [] s1 outs s' HI1) as (outs' & -> & H); auto.
    { cbn [ent_ok]. rewrite Hr1. exact Hfa. } { intros H; discriminate. }
    cbn [app strip hk hkl] in *. rewrite Hr1, Hk1 in H. perm_lia.
Qed.
Theorem map_raw_entry_conserves variant k ss s outs s' :
  Inv R ES (s_rt s) -> map_raw_entry c variant k ss s = Ok outs s' ->
  dks s' ++ kidsE (s_rt s') ++ chain_kout ss outs ≡ₚ
  chain_kin true (rt_abs (s_rt s)) (start_ent (rt_abs (s_rt s)) k None) ss ++ dks s ++ kidsE (s_rt s).
Proof.
  intros HI E. unfold map_raw_entry, bind at 1 in E.
  assert (Ht : rp (fun _ => True) (when (variant =? 0) tick_hash)) by (destruct (variant =? 0); [apply rp_tick_hash|apply rp_ret]).
  specialize (Ht s). destruct (when (variant =? 0) tick_hash s) as [u s1|p s1|f]; try discriminate.
  destruct Ht as (Hr1 & Hk1 & _). unfold bind at 1, rt_find, gets in E.
  pose proof (rt_find_abs c (s_rt s) k HI) as Hfa. rewrite Hr1 in E.
  assert (HI1 : Inv R ES (s_rt s1)) by (rewrite Hr1; exact HI).
  assert (Hall : Forall (st_wf true) ss) by (apply Forall_forall; intros st _ _; reflexivity).
  unfold start_ent. rewrite Hfa.
  destruct (rt_find_pure (s_rt s) k) as [[im x]|] eqn:Hf; cbn [option_map snd].
  - destruct (entry_steps_conserves true ss (EOcc im k None) [] s1 outs s' HI1) as (outs' & -> & H); auto.
    { cbn [ent_ok]. rewrite Hr1. eauto. } { intros _; reflexivity. }
    cbn [app strip hk hkl] in *. rewrite Hr1, Hk1 in H. perm_lia.
  - destruct (entry_steps_conserves true ss (EVac k None) [] s1 outs s' HI1) as (outs' & -> & H); auto.
    { cbn [ent_ok]. rewrite Hr1. exact Hfa. } { intros _; reflexivity. }
    cbn [app strip hk hkl] in *. rewrite Hr1, Hk1 in H. perm_lia.
Qed.
End EntryLedger.
