(* CloneProofs.v — clone, clone_from and == . *)
From stdpp Require Import gmap list.
From Coq Require Import NArith Lia.
From G Require Import Arith Monad Types Inv Raw RawProofs Map MapProofs IterProofs.
Local Open Scope N_scope.

Section CloneProofs.
Context (c : cfg).
Notation R := (cR c).
Notation ES := (cesz c).

Lemma frame_clone_elems l : forall acc, frame (clone_elems l acc).
Proof.
  induction l as [|e l IH]; intros acc; cbn [clone_elems]; [apply frameU_ret|].
  apply frameU_bind; [apply frameU_on_unwind; [apply frame_cb|apply frame0_drop_elems]|]. intros _.
  apply frameU_bind; [apply frameU_on_unwind; [apply frame_cb|]|intros _; apply IH].
  apply frameU_bind; [apply frame0_tick|intros _; apply frame0_drop_elems].
Qed.

Lemma frame0_take_order_or m : frame0 (take_order_or m).
Proof. intros s. unfold take_order_or, wp, bind, get, ret. cbn. reflexivity. Qed.

(* RawTable::clone: same buckets, same growth_left, same contents *)
Lemma hb_clone_spec t (Q : hb -> st -> Prop) (U : panic -> st -> Prop) s :
  hb_ok ES t ->
  (forall t' s', s_rt s' = s_rt s -> hb_ok ES t' -> hel t' = hel t -> hgl t' = hgl t -> hn t' = hn t -> Q t' s') ->
  (forall s', s_rt s' = s_rt s -> U PUser s') ->
  wp (hb_clone t) Q U s.
Proof.
  intros Hok HQ HU. unfold hb_clone. destruct (N.eqb_spec (hB t) 1) as [H1|H1].
  - apply wp_ret. destruct Hok as (Hcap & Hn & Hkey & HB).
    assert (Hz : hn t = 0 /\ hgl t = 0) by (rewrite H1 in Hcap; change (bcap 1) with 0 in Hcap; lia).
    destruct Hz as [Hz1 Hz2].
    assert (Hem : hel t = ∅) by (apply map_size_empty_inv; lia).
    apply HQ; [reflexivity|apply hb_ok_new|cbn; congruence|cbn; congruence|cbn; congruence].
  - apply wp_bind. apply frame0_use; [apply frame0_tick|]. intros [] s1 Hs1.
    apply wp_bind. apply frame0_use; [apply (frame0_take_order_or (hel t))|]. intros l0 s1' Hs1'.
    apply wp_bind. apply wp_on_unwind. eapply frameU_use; [apply frame_clone_elems| |].
    + intros l' s2 Hs2. apply wp_ret. apply HQ; [congruence|exact Hok|reflexivity|reflexivity|reflexivity].
    + intros p s2 Hs2 ->. apply frame0_use; [apply frame0_tick|]. intros [] s3 Hs3. apply HU. congruence.
Qed.

(* and_carry_with_hasher: the elements of l (disjoint from t) are inserted one by one *)
Lemma and_carry_spec : forall l t (Q : hb -> st -> Prop) (U : panic -> st -> Prop) s,
  hb_ok ES t -> NoDup (map ek l) -> (forall e, e ∈ l -> hel t !! ek e = None) ->
  (forall t' s', s_rt s' = s_rt s -> hb_ok ES t' -> hel t' = hel t ∪ list_to_emap l ->
                 (N.of_nat (length l) <= hgl t -> hB t' = hB t /\ hgl t <= hgl t' + N.of_nat (length l)) -> Q t' s') ->
  (forall p s', s_rt s' = s_rt s -> p = PUser \/ p = PCapOverflow -> U p s') ->
  wp (and_carry c t l) Q U s.
Proof.
  induction l as [|e l IH]; intros t Q U s Hok Hnd Hdis HQ HU; cbn [and_carry].
  - apply wp_ret. apply HQ; [reflexivity|exact Hok| |intros _; cbn; lia].
    change (list_to_emap []) with (∅ : gmap N elem). rewrite (right_id_L ∅ (∪)). reflexivity.
  - cbn [map] in Hnd. apply NoDup_cons in Hnd as [Hne Hnd].
    set (body := tick_hash ;;; cb ;;; on_unwind cb (drop_key (ekid e)) ;;; hb_insert c t e).
    assert (Hbody : wp body
              (fun t1 s4 => s_rt s4 = s_rt s /\ hb_ok ES t1 /\ hel t1 = <[ek e := e]> (hel t) /\
                            (0 < hgl t -> hB t1 = hB t /\ hgl t1 <= hgl t /\ hgl t <= hgl t1 + 1))
              (fun p s' => s_rt s' = s_rt s /\ (p = PUser \/ p = PCapOverflow)) s).
    { unfold body.
      apply wp_bind. apply frame_use; [apply frame_tick_hash| |]; [|intros s1 Hs1; auto].
      intros [] s1 Hs1. apply wp_bind. apply frame_use; [apply frame_cb| |]; [|intros s2 Hs2; split; [congruence|auto]].
      intros [] s2 Hs2. apply wp_bind. apply wp_on_unwind. eapply frameU_use; [apply frame_cb| |].
      2:{ intros p s3 Hs3 ->. apply frame0_use; [apply frame0_tick|]. intros [] s4 Hs4. split; [congruence|auto]. }
      intros [] s3 Hs3.
      apply hb_insert_spec; [exact Hok|apply Hdis; left| |].
      + intros t1 s4 Hs4 Hok1 Hel1 Hn1 Hcase. split; [congruence|]. auto.
      + intros p s4 Hs4 Hp. split; [congruence|exact Hp]. }
    apply wp_bind.
    assert (Hstep : wp (on_unwind body (drop_elems (map_to_list (hel t)).*2 ;;; hb_free t))
              (fun t1 s4 => s_rt s4 = s_rt s /\ hb_ok ES t1 /\ hel t1 = <[ek e := e]> (hel t) /\
                            (0 < hgl t -> hB t1 = hB t /\ hgl t1 <= hgl t /\ hgl t <= hgl t1 + 1))
              (fun p s' => s_rt s' = s_rt s /\ (p = PUser \/ p = PCapOverflow)) s).
    { apply wp_on_unwind. eapply wp_conseq; [exact Hbody|auto|].
      intros p s1 [Hs1 Hp]. apply wp_bind. apply frame0_use; [apply frame0_drop_elems|]. intros [] s2 Hs2.
      apply frame0_use; [apply frame0_hb_free|]. intros [] s3 Hs3. split; [congruence|exact Hp]. }
    eapply wp_conseq; [exact Hstep| |].
    + intros t1 s4 (Hs4 & Hok1 & Hel1 & Hcase).
      apply IH; [exact Hok1|exact Hnd| | |].
      * intros x Hx. rewrite Hel1. rewrite lookup_insert_ne; [apply Hdis; right; exact Hx|].
        intros Heq. apply Hne. rewrite Heq. apply elem_of_list_fmap. exists x. auto.
      * intros t' s5 Hs5 Hok' Hel' Hroom. apply HQ; [congruence|exact Hok'| |].
        -- rewrite Hel', Hel1, list_to_emap_cons. rewrite <- insert_union_l.
           rewrite <- insert_union_r by (apply Hdis; left). reflexivity.
        -- intros Hfit. cbn [length] in Hfit. destruct (Hcase ltac:(lia)) as (HB1 & Hle1 & Hge1).
           destruct (Hroom ltac:(lia)) as [HB' Hge']. split; [congruence|]. cbn [length]. lia.
      * intros p s5 Hs5 Hp. apply HU; [congruence|exact Hp].
    + intros p s4 [Hs4 Hp]. apply HU; [congruence|exact Hp].
Qed.

(* the in-place variant (clone_from): the destination's main table takes the elements one by
   one; the old table slot is not touched *)
Lemma and_carry_here_spec : forall l (Q : unit -> st -> Prop) (U : panic -> st -> Prop) s,
  hb_ok ES (main (s_rt s)) -> NoDup (map ek l) -> (forall e, e ∈ l -> hel (main (s_rt s)) !! ek e = None) ->
  (forall s', lo (s_rt s') = lo (s_rt s) -> hb_ok ES (main (s_rt s')) ->
              hel (main (s_rt s')) = hel (main (s_rt s)) ∪ list_to_emap l -> Q tt s') ->
  (forall p s', lo (s_rt s') = lo (s_rt s) -> hb_ok ES (main (s_rt s')) -> p = PUser \/ p = PCapOverflow -> U p s') ->
  wp (and_carry_here c l) Q U s.
Proof.
  induction l as [|e l IH]; intros Q U s Hok Hnd Hdis HQ HU; cbn [and_carry_here].
  - apply wp_ret. apply HQ; [reflexivity|exact Hok|].
    change (list_to_emap []) with (∅ : gmap N elem). rewrite (right_id_L ∅ (∪)). reflexivity.
  - cbn [map] in Hnd. apply NoDup_cons in Hnd as [Hne Hnd]. apply wp_bind. unfold getm. apply wp_gets. set (t := main (s_rt s)) in *.
    apply wp_bind. apply frame_use; [apply frame_tick_hash| |]; [|intros s1 Hs1; apply HU; [rewrite Hs1; reflexivity|rewrite Hs1; exact Hok|auto]].
    intros [] s1 Hs1. apply wp_bind. apply frame_use; [apply frame_cb| |]; [|intros s2 Hs2; apply HU; [rewrite Hs2, Hs1; reflexivity|rewrite Hs2, Hs1; exact Hok|auto]].
    intros [] s2 Hs2. apply wp_bind. apply wp_on_unwind. eapply frameU_use; [apply frame_cb| |].
    2:{ intros p s3 Hs3 ->. apply frame0_use; [apply frame0_tick|]. intros [] s4 Hs4.
        apply HU; [rewrite Hs4, Hs3, Hs2, Hs1; reflexivity|rewrite Hs4, Hs3, Hs2, Hs1; exact Hok|auto]. }
    intros [] s3 Hs3. apply wp_bind.
    assert (Hrt3 : s_rt s3 = s_rt s) by congruence.
    apply hb_insert_spec; [exact Hok|apply Hdis; left| |].
    + intros t1 s4 Hs4 Hok1 Hel1 Hn1 Hcase. apply wp_bind. unfold setm. apply wp_modify. cbn [set_rt s_rt].
      apply IH; cbn [set_rt s_rt main lo]; [exact Hok1|exact Hnd| | |].
      * intros x Hx. rewrite Hel1. rewrite lookup_insert_ne; [apply Hdis; right; exact Hx|].
        intros Heq. apply Hne. rewrite Heq. apply elem_of_list_fmap. exists x. auto.
      * intros s5 Hlo5 Hok5 Hel5. apply HQ; [rewrite Hlo5, Hs4, Hrt3; reflexivity|exact Hok5|].
        rewrite Hel5, Hel1, list_to_emap_cons. rewrite <- insert_union_l.
        rewrite <- insert_union_r by (apply Hdis; left). reflexivity.
      * intros p s5 Hlo5 Hok5 Hp. apply HU; [rewrite Hlo5, Hs4, Hrt3; reflexivity|exact Hok5|exact Hp].
    + intros p s4 Hs4 Hp. apply HU; [rewrite Hs4, Hrt3; reflexivity|rewrite Hs4, Hrt3; exact Hok|exact Hp].
Qed.

Lemma cursor_view_spec o (Q : list elem -> st -> Prop) (U : panic -> st -> Prop) s :
  (forall oo, o = Some oo -> oit oo = ocnt oo /\ ocnt oo = N.of_nat (length (orem oo))) ->
  Q (match o with Some oo => orem oo | None => [] end) s -> wp (cursor_view o) Q U s.
Proof.
  intros Ho HQ. unfold cursor_view. destruct o as [oo|]; [|apply wp_ret; exact HQ].
  destruct (Ho oo eq_refl) as [H1 H2].
  destruct (N.ltb_spec (N.of_nat (length (orem oo))) (oit oo)); [lia|].
  apply wp_ret. rewrite firstn_all' by lia. exact HQ.
Qed.

(* clone(): a new, independent table with the same contents; the source is untouched *)
Lemma rt_clone_spec (Q : rt -> st -> Prop) (U : panic -> st -> Prop) s :
  Inv R ES (s_rt s) ->
  (forall r' s', s_rt s' = s_rt s -> Inv R ES r' -> rt_abs r' = rt_abs (s_rt s) -> lo r' = None -> Q r' s') ->
  (forall p s', s_rt s' = s_rt s -> p = PUser \/ p = PCapOverflow -> U p s') ->
  wp (rt_clone c) Q U s.
Proof.
  intros HI HQ HU. pose proof HI as (HR & Hok & Ho). unfold rt_clone. wp_steps.
  apply hb_clone_spec; [exact Hok| |intros s1 Hs1; apply HU; auto].
  intros nt s1 Hs1 Hoknt Helnt Hglnt Hnnt. apply wp_bind.
  apply cursor_view_spec.
  { intros oo Hoo. rewrite Hoo in Ho. destruct Ho as (H1 & H2 & _). unfold olen in H1. auto. }
  apply wp_bind.
  set (lold := match lo (s_rt s) with Some oo => orem oo | None => [] end).
  assert (Hold : NoDup (map ek lold) /\ (forall e, e ∈ lold -> hel (main (s_rt s)) !! ek e = None)).
  { unfold lold. destruct (lo (s_rt s)) as [o|]; [destruct Ho as (_ & _ & H1 & H2 & _); auto|]. split; [constructor|]. intros e He. inversion He. }
  destruct Hold as [Hnd Hdis].
  apply and_carry_spec; [exact Hoknt|exact Hnd|intros e He; rewrite Helnt; apply Hdis; exact He| |].
  - intros t' s2 Hs2 Hok' Hel' _. apply wp_ret. apply HQ; [congruence| | |reflexivity].
    + split; [exact HR|]. split; [exact Hok'|exact I].
    + unfold rt_abs. cbn [main lo]. rewrite Hel', Helnt, (right_id_L ∅ (∪)). unfold lold.
      destruct (lo (s_rt s)); reflexivity.
  - intros p s2 Hs2 Hp. apply HU; [congruence|exact Hp].
Qed.


(* hashbrown RawTable::clone_from_with_hasher on a destination table cleared of tombstones when
   it is empty (the fix): afterwards it holds exactly the source's elements *)
Lemma hb_clone_from_spec t sm (Q : hb -> st -> Prop) (U : panic -> st -> Prop) s :
  hb_ok ES t -> hb_ok ES sm -> (hn t = 0 -> hgl t = bcap (hB t)) ->
  (forall t' tm s', s_rt s' = RT tm (lo (s_rt s)) -> hb_ok ES t' -> hel t' = hel sm -> hn t' = hn sm ->
                 (* enough room for whatever had room in the source *)
                 hgl sm <= hgl t' \/ hB t' = hB t -> Q t' s') ->
  (* interrupted: the destination is an empty (or the untouched) table *)
  (forall tm s', s_rt s' = RT tm (lo (s_rt s)) -> hb_ok ES tm -> U PUser s') ->
  main (s_rt s) = t ->
  wp (hb_clone_from_with_hasher t sm) Q U s.
Proof.
  intros Hok Hoks Hfresh HQ HU Hmain. unfold hb_clone_from_with_hasher.
  pose proof Hok as (Hcap & Hn & Hkey & HB0 & HB1). pose proof Hoks as (Hcaps & Hns & Hkeys & HBs).
  assert (Hrt : forall s', s_rt s' = s_rt s -> s_rt s' = RT t (lo (s_rt s))).
  { intros s' ->. destruct (s_rt s) as [m o]. cbn in *. congruence. }
  destruct (negb (hB t =? hB sm) && (hlen sm <=? bcap (hB t))) eqn:Epath.
  - (* clear and re-insert: same buckets as before, no tombstones *)
    apply andb_prop in Epath as [_ Efit]. apply N.leb_le in Efit. unfold hlen in Efit.
    apply wp_bind. apply (hb_clear_spec c); [exact Hok|].
    intros t1 s1 Hs1 Hok1 Hel1 Hn1 HB1' Hgl1 Hcase.
    assert (Hgl1' : hgl t1 = bcap (hB t)).
    { destruct Hcase as [->|Hc]; [apply Hfresh; exact Hn1|exact Hc]. }
    wp_steps. cbn [set_rt s_rt]. rewrite Hs1.
    set (s1' := set_rt (RT t1 (lo (s_rt s))) s1).
    assert (Hs1' : s_rt s1' = RT t1 (lo (s_rt s))) by reflexivity.
    apply wp_bind. apply frame0_use; [apply (frame0_take_order_or (hel sm))|]. intros els s1'' Hs1''.
    apply wp_bind.
    eapply frameU_use; [apply (frameU_iterM (fun p => p = PUser))| |].
    + intros e. apply frameU_bind; [apply frame_cb|]. intros _.
      apply frameU_bind; [apply frameU_on_unwind; [apply frame_cb|apply frame0_tick]|]. intros _.
      apply frameU_on_unwind; [apply frame_tick_hash|apply frame0_drop_elem].
    + intros [] s2 Hs2. destruct (N.ltb_spec (hgl t1) (hlen sm)) as [Hlt|Hge]; [unfold hlen in Hlt; lia|].
      apply wp_ret. apply (HQ _ t1); [congruence| |reflexivity|reflexivity|right; exact HB1'].
      split; [hl; rewrite HB1'; lia|]. split; [exact Hns|]. split; [exact Hkeys|]. cbn [hB]. rewrite HB1'. split; assumption.
    + intros p s2 Hs2 ->. apply (HU t1); [congruence|exact Hok1].
  - (* copy: same buckets and control bytes as the source *)
    destruct (N.eqb_spec (hB sm) 1) as [Hs1|Hs1].
    + apply wp_bind. apply frame0_use; [apply frame0_drop_elems|]. intros [] s1 Hs1'.
      apply wp_bind. apply frame0_use; [apply frame0_hb_free|]. intros [] s2 Hs2. apply wp_ret.
      assert (Hz : hn sm = 0 /\ hgl sm = 0) by (rewrite Hs1 in Hcaps; change (bcap 1) with 0 in Hcaps; lia).
      destruct Hz as [Hz1 Hz2]. assert (Hem : hel sm = ∅) by (apply map_size_empty_inv; lia).
      apply (HQ _ t); [apply Hrt; congruence|apply hb_ok_new|cbn; congruence|cbn; congruence|left; cbn; lia].
    + apply wp_bind. apply frame0_use; [apply frame0_drop_elems|]. intros [] s1 Hs1'.
      apply wp_bind. apply frame0_use.
      { apply frameU_when. apply frameU_bind; [apply frame0_tick|intros _; apply frame0_hb_free]. }
      intros [] s2 Hs2. apply wp_bind. apply frame0_use; [apply (frame0_take_order_or (hel sm))|]. intros els s2' Hs2'.
      apply wp_bind. apply wp_on_unwind. eapply frameU_use; [apply frame_clone_elems| |].
      * intros l' s3 Hs3. apply wp_ret. apply (HQ _ t); [apply Hrt; congruence|exact Hoks|reflexivity|reflexivity|left; lia].
      * intros p s3 Hs3 ->. unfold setm, modify, wp. cbn.
        apply (HU (hb_empty (hB sm))).
        -- cbn [set_rt s_rt]. f_equal. rewrite Hs3, Hs2', Hs2, Hs1'. reflexivity.
        -- destruct HBs as [HBs0 HBs1]. apply hb_ok_empty; assumption.
Qed.

Lemma Inv_no_old r : Inv R ES r -> Inv R ES (RT (main r) None).
Proof. intros (HR & Hok & _). split; [exact HR|]. split; [exact Hok|exact I]. Qed.

(* clone_from(source): every previous element of the destination (both its tables) is discarded,
   it ends with exactly the source's contents and no resize pending *)
Lemma rt_clone_from_spec src (Q : unit -> st -> Prop) (U : panic -> st -> Prop) s :
  Inv R ES (s_rt s) -> Inv R ES src ->
  (forall s', Inv R ES (s_rt s') -> rt_abs (s_rt s') = rt_abs src -> lo (s_rt s') = None -> Q tt s') ->
  (* interrupted: memory-level consistency (the invariant) still holds; contents unspecified *)
  (forall p s', Inv R ES (s_rt s') -> p = PUser \/ p = PCapOverflow -> U p s') ->
  wp (rt_clone_from c src) Q U s.
Proof.
  intros HI HIs HQ HU. pose proof HI as (HR & Hok & _). pose proof HIs as (_ & Hoks & Hos).
  unfold rt_clone_from. apply wp_bind. apply free_old_spec. intros s1 Hs1. wp_steps. rewrite Hs1. cbn [main].
  set (t := main (s_rt s)).
  set (t0 := if hlen t =? 0 then hb_clear_no_drop t else t).
  assert (Hok0 : hb_ok ES t0 /\ (hn t0 = 0 -> hgl t0 = bcap (hB t0))).
  { unfold t0, hlen. destruct (N.eqb_spec (hn t) 0) as [Hz|Hz].
    - split; [|reflexivity]. unfold hb_clear_no_drop. destruct Hok as (_ & _ & _ & HB0 & HB1). apply hb_ok_empty; assumption.
    - split; [exact Hok|]. intros Hc. contradiction. }
  destruct Hok0 as [Hok0 Hfresh0].
  assert (HI2 : Inv R ES (RT t0 None)) by (split; [exact HR|split; [exact Hok0|exact I]]).
  apply hb_clone_from_spec; [exact Hok0|exact Hoks|exact Hfresh0| | |reflexivity].
  2:{ intros tm s3 Hs3 Hokm. cbn [set_rt s_rt lo] in Hs3. apply HU; [rewrite Hs3; split; [exact HR|split; [exact Hokm|exact I]]|auto]. }
  intros t1 tm s3 Hs3 Hok1 Hel1 Hn1 _. cbn [set_rt s_rt lo] in Hs3. wp_steps. cbn [set_rt s_rt]. rewrite Hs3. cbn [lo].
  set (s4 := set_rt (RT t1 None) s3).
  assert (HI4 : Inv R ES (s_rt s4)) by (unfold s4; cbn [set_rt s_rt]; split; [exact HR|split; [exact Hok1|exact I]]).
  apply cursor_view_spec.
  { intros oo Hoo. rewrite Hoo in Hos. destruct Hos as (H1 & H2 & _). unfold olen in H1. auto. }
  set (lold := match lo src with Some oo => orem oo | None => [] end).
  assert (Hold : NoDup (map ek lold) /\ (forall e, e ∈ lold -> hel (main src) !! ek e = None)).
  { unfold lold. destruct (lo src) as [o|]; [destruct Hos as (_ & _ & H1 & H2 & _); auto|]. split; [constructor|]. intros e He. inversion He. }
  destruct Hold as [Hnd Hdis].
  apply and_carry_here_spec; [exact Hok1|exact Hnd|intros e He; unfold s4; cbn [set_rt s_rt main]; rewrite Hel1; apply Hdis; exact He| |]; unfold s4; cbn [set_rt s_rt main lo].
  - intros s5 Hlo5 Hok5 Hel5. destruct (s_rt s5) as [m5 o5] eqn:E5. cbn [main lo] in *. subst o5. apply HQ; rewrite E5.
    + split; [exact HR|]. split; [exact Hok5|exact I].
    + unfold rt_abs. cbn [main lo]. rewrite Hel5, Hel1, (right_id_L ∅ (∪)). unfold lold. destruct (lo src); reflexivity.
    + reflexivity.
  - intros p s5 Hlo5 Hok5 Hp. destruct (s_rt s5) as [m5 o5] eqn:E5. cbn [main lo] in *. subst o5.
    apply HU; [rewrite E5; split; [exact HR|split; [exact Hok5|exact I]]|exact Hp].
Qed.

(* ------------------------------------------------------------------ == *)

Definition veq (a b : gmap N elem) : Prop := forall k, ev <$> a !! k = ev <$> b !! k.

Lemma map_equal_spec other (Q : bool -> st -> Prop) (U : panic -> st -> Prop) s :
  Inv R ES (s_rt s) -> Inv R ES other ->
  (forall b s', s_rt s' = s_rt s -> (b = true <-> veq (rt_abs (s_rt s)) (rt_abs other)) -> Q b s') ->
  (forall s', s_rt s' = s_rt s -> U PUser s') ->
  wp (map_equal other) Q U s.
Proof.
  intros HI HIo HQ HU. unfold map_equal. wp_steps.
  pose proof (Inv_len _ _ _ HI) as Hl1. pose proof (Inv_len _ _ _ HIo) as Hl2.
  destruct (N.eqb_spec (rt_len (s_rt s)) (rt_len other)) as [Hlen|Hlen]; cbn [negb].
  2:{ apply wp_ret. apply HQ; [reflexivity|]. split; [discriminate|]. intros Hv. exfalso. apply Hlen.
      rewrite <- Hl1, <- Hl2. f_equal.
      assert (Hd : dom (rt_abs (s_rt s)) =@{gset N} dom (rt_abs other)).
      { apply set_eq. intros k. rewrite !elem_of_dom. specialize (Hv k).
        destruct (rt_abs (s_rt s) !! k), (rt_abs other !! k); cbn in Hv; split; intros [x Hx]; try discriminate; eauto. }
      rewrite <- !size_dom, Hd. reflexivity. }
  apply wp_bind. apply (rt_iter_spec c); [exact HI|]. intros l Hit.
  destruct (iter_of_abs c _ _ HI Hit) as [Hemap Hnd].
  (* the loop: every element of self is found in other with an equal value *)
  assert (Hloop : forall l' s', s_rt s' = s_rt s ->
     wp ((fix go (l : list (bool * elem)) : M' bool :=
            match l with
            | [] => ret true
            | x :: l0 => bind tick_hash (fun _ => match rt_find_pure other (ek (snd x)) with
                                                   | Some (_, e') => if ev e' =? ev (snd x) then go l0 else ret false
                                                   | None => ret false end)
            end) l')
        (fun b s'' => s_rt s'' = s_rt s /\
           (b = true <-> forall x, x ∈ l' -> exists e', rt_abs other !! ek (snd x) = Some e' /\ ev e' = ev (snd x)))
        (fun p s'' => s_rt s'' = s_rt s /\ p = PUser) s').
  { induction l' as [|x l' IH]; intros s' Hs'.
    - apply wp_ret. split; [exact Hs'|]. split; [intros _ x Hx; inversion Hx|reflexivity].
    - apply wp_bind. apply frame_use; [apply frame_tick_hash| |]; [|intros s1 Hs1; split; [congruence|reflexivity]].
      intros [] s1 Hs1. pose proof (rt_find_abs c other (ek (snd x)) HIo) as Hfa.
      destruct (rt_find_pure other (ek (snd x))) as [[im e']|] eqn:Hf; cbn [option_map snd] in Hfa.
      + destruct (N.eqb_spec (ev e') (ev (snd x))) as [Hv|Hv].
        * eapply wp_conseq; [apply (IH s1); congruence| |auto].
          intros b s2 [Hs2 Hb]. split; [exact Hs2|]. rewrite Hb. split.
          -- intros H y Hy. apply elem_of_cons in Hy as [->|Hy]; [eauto|apply H; exact Hy].
          -- intros H y Hy. apply H. right. exact Hy.
        * apply wp_ret. split; [congruence|]. split; [discriminate|]. intros H.
          destruct (H x ltac:(left)) as (e2 & He2 & Hv2). congruence.
      + apply wp_ret. split; [congruence|]. split; [discriminate|]. intros H.
        destruct (H x ltac:(left)) as (e2 & He2 & _). congruence. }
  eapply wp_conseq; [apply (Hloop l s eq_refl)| |].
  - intros b s' [Hs' Hb]. apply HQ; [exact Hs'|]. rewrite Hb. clear Hb Hloop.
    split.
    + (* inclusion with equal values plus equal sizes gives equality *)
      intros Hall k.
      assert (Hsub : forall k e, rt_abs (s_rt s) !! k = Some e -> exists e', rt_abs other !! k = Some e' /\ ev e' = ev e).
      { intros k0 e He. rewrite <- Hemap in He. apply list_to_emap_key in He as [Hk Hin]; [|exact Hnd].
        apply elem_of_list_fmap in Hin as ([im x] & -> & Hin). cbn [snd] in *. rewrite <- Hk. apply (Hall (im, x) Hin). }
      destruct (rt_abs (s_rt s) !! k) as [e|] eqn:E1.
      * destruct (Hsub k e E1) as (e' & -> & Hv). cbn. congruence.
      * destruct (rt_abs other !! k) as [e'|] eqn:E2; [|reflexivity]. exfalso.
        assert (Hdsub : dom (rt_abs (s_rt s)) ⊆@{gset N} dom (rt_abs other)).
        { intros j Hj. apply elem_of_dom in Hj as [x Hx]. destruct (Hsub j x Hx) as (x' & Hx' & _). apply elem_of_dom. eauto. }
        assert (Hstrict : dom (rt_abs (s_rt s)) ⊂@{gset N} dom (rt_abs other)).
        { split; [exact Hdsub|]. intros Hrev. assert (Hk : k ∈@{gset N} dom (rt_abs other)) by (apply elem_of_dom; eauto).
          apply Hrev in Hk. apply elem_of_dom in Hk as [x Hx]. congruence. }
        apply subset_size in Hstrict. rewrite !size_dom in Hstrict. lia.
    + intros Hv [im x] Hin. cbn [snd].
      assert (Hx : rt_abs (s_rt s) !! ek x = Some x).
      { rewrite <- Hemap. rewrite list_to_emap_lookup by exact Hnd. apply lookup_list_nodup; [exact Hnd| |reflexivity].
        apply elem_of_list_fmap. exists (im, x). auto. }
      specialize (Hv (ek x)). rewrite Hx in Hv. destruct (rt_abs other !! ek x) as [e'|]; [|discriminate].
      exists e'. split; [reflexivity|]. cbn in Hv. congruence.
  - intros p s' [Hs' ->]. apply HU. exact Hs'.
Qed.

End CloneProofs.
