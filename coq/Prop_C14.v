(* C14 — Observable behaviour depends only on contents, not on layout or history
   Statements only: each theorem restates a lemma of Theorems.v and is closed by [exact]. *)
From stdpp Require Import gmap list.
From Coq Require Import NArith.
From G Require Import Arith Monad Types Inv Raw RawProofs Map MapProofs IterProofs CloneProofs Cost Fill WorldProofs Theorems.
Local Open Scope N_scope.

(* == is true exactly when both maps hold the same keys with equal values: whatever their
   layout, history, capacity, resize phase or hasher *)
Theorem C14_eq_iff : forall c w t a b o w',
  0 < cR c -> WInv c w -> t_op t = OEq a b -> step c w t = Ok o w' ->
  exists (ma mb : gmap N elem) bb, wabs w !! a = Some ma /\ wabs w !! b = Some mb /\ o = OutB bb /\
    (bb = true <-> veq ma mb) /\ wabs w' = wabs w.
Proof. exact T_C14_eq_iff. Qed.

Theorem C14_eq_is_equivalence :
  (forall a, veq a a) /\ (forall a b, veq a b -> veq b a) /\ (forall a b d, veq a b -> veq b d -> veq a d).
Proof. exact T_C14_veq_equiv. Qed.

(* false whenever some key or value differs *)
Theorem C14_eq_false_when_differing : forall a b k,
  ev <$> a !! k <> ev <$> b !! k -> ~ veq a b.
Proof. exact T_C14_veq_differs. Qed.

(* lookups see the contents only: the result is a function of (contents !! k) *)
Theorem C14_lookup_by_contents : forall c w t s variant k wv o w',
  0 < cR c -> WInv c w -> t_op t = OGet s variant k wv -> step c w t = Ok o w' ->
  exists m : gmap N elem, wabs w !! s = Some m /\ o = get_out (gvar_of variant) (m !! k).
Proof. exact T_C14_lookup_by_contents. Qed.

(* iter / keys / values / iter_mut / values_mut: every element present, exactly once *)
Theorem C14_iteration_by_contents : forall c w t s variant delta o w',
  0 < cR c -> WInv c w -> t_op t = OIter s variant delta -> step c w t = Ok o w' ->
  WInv c w' /\ exists (m : gmap N elem) l, wabs w !! s = Some m /\ NoDup (map ek l) /\ list_to_emap l = m /\
    o = OutL (map elem3 l) /\ wabs w' = <[s := if delta =? 0 then m else bumpv delta <$> m]> (wabs w).
Proof. exact T_C08_iter. Qed.

Print Assumptions C14_eq_iff.
Print Assumptions C14_eq_is_equivalence.
Print Assumptions C14_eq_false_when_differing.
Print Assumptions C14_lookup_by_contents.
Print Assumptions C14_iteration_by_contents.
