(* Monad.v — state/exception monad in which the model is written, and its weakest-precondition
   calculus.  [Unwind] is a Rust panic that unwinds (state as it is at that instant); [Fault] is
   behaviour the model treats as undefined (or an infeasible oracle value). *)
From Coq Require Import NArith.

Inductive panic :=
| PIndexMissing            (* Index on a missing key: documented *)
| PCapOverflow             (* "Hash table capacity overflow": documented *)
| PAssert (site : N)       (* assert!/expect/unreachable! in griddle, any profile *)
| PDebugAssert (site : N)  (* debug_assert!/cfg!(debug_assertions) check, debug profile only *)
| PUnwrapNone              (* OccupiedEntry::replace_key/replace_entry on key: None (finding D6) *)
| PUser.                   (* injected panic of a user callback *)

Inductive fault :=
| FOverRead            (* cached iterator steps although nothing is left: out-of-bounds scan *)
| FGlUnderflow         (* growth_left -= 1 at 0 *)
| FItemsUnderflow      (* RawIter.items -= 1 at 0 *)
| FDupKey              (* the same key stored twice *)
| FVacant              (* a bucket handle that designates no element *)
| FGrowLoop            (* insert would recurse into grow twice *)
| FUnreachable         (* core::hint::unreachable_unchecked() reached *)
| FOracle              (* infeasible oracle value: broken correspondence, not a property failure *)
| FStranded            (* old table released while it still holds elements the cursor skipped *)
| FBadOp.              (* ill-formed history (a call Rust's types or borrow rules forbid) *)

(* The two faults that say nothing about the code: the theorems quantify over every oracle and
   every history, so an infeasible oracle value or an ill-formed history makes them vacuous. *)
Definition benign (f : fault) : Prop := f = FOracle \/ f = FBadOp.

Inductive res (S A : Type) :=
| Ok (a : A) (s : S)
| Unwind (p : panic) (s : S)
| Fault (f : fault).
Arguments Ok {S A}. Arguments Unwind {S A}. Arguments Fault {S A}.

Definition M (S A : Type) := S -> res S A.

Definition ret {S A} (a : A) : M S A := fun s => Ok a s.
Definition bind {S A B} (m : M S A) (f : A -> M S B) : M S B :=
  fun s => match m s with
           | Ok a s' => f a s'
           | Unwind p s' => Unwind p s'
           | Fault x => Fault x
           end.
Definition get {S} : M S S := fun s => Ok s s.
Definition put {S} (s : S) : M S unit := fun _ => Ok tt s.
Definition modify {S} (f : S -> S) : M S unit := fun s => Ok tt (f s).
Definition gets {S A} (f : S -> A) : M S A := fun s => Ok (f s) s.
Definition unwind {S A} (p : panic) : M S A := fun s => Unwind p s.
Definition fault_ {S A} (f : fault) : M S A := fun _ => Fault f.
(* run [m]; if it unwinds, run [h] (a Rust drop scope) on the way out *)
Definition on_unwind {S A} (m : M S A) (h : M S unit) : M S A :=
  fun s => match m s with
           | Unwind p s' => match h s' with Ok _ s'' => Unwind p s'' | Unwind q s'' => Unwind q s'' | Fault x => Fault x end
           | r => r
           end.
(* catch_unwind at the harness boundary *)
Definition catch {S A} (m : M S A) : M S (A + panic) :=
  fun s => match m s with
           | Ok a s' => Ok (inl a) s'
           | Unwind p s' => Ok (inr p) s'
           | Fault x => Fault x
           end.

Declare Scope monad_scope.
Delimit Scope monad_scope with M.
Notation "x <- m ;; f" := (bind m (fun x => f))
  (at level 20, m at level 99, f at level 200, only parsing) : monad_scope.
Notation "m ;;; f" := (bind m (fun _ => f))
  (at level 100, f at level 200, only parsing, right associativity) : monad_scope.
Open Scope monad_scope.
Definition when {S} (b : bool) (m : M S unit) : M S unit := if b then m else ret tt.

Fixpoint mmapM {S A B} (f : A -> M S B) (l : list A) : M S (list B) :=
  match l with
  | nil => ret nil
  | cons a l => b <- f a ;; bs <- mmapM f l ;; ret (cons b bs)
  end.
Fixpoint iterM {S A} (f : A -> M S unit) (l : list A) : M S unit :=
  match l with
  | nil => ret tt
  | cons a l => f a ;;; iterM f l
  end.

(* ------------------------------------------------------------------ wp *)

Definition wp {S A} (m : M S A) (Q : A -> S -> Prop) (U : panic -> S -> Prop) (s : S) : Prop :=
  match m s with
  | Ok a s' => Q a s'
  | Unwind p s' => U p s'
  | Fault f => benign f
  end.

Lemma wp_ret {S A} (a : A) (Q : A -> S -> Prop) (U : panic -> S -> Prop) (s : S) : Q a s -> wp (ret a) Q U s.
Proof. exact (fun H => H). Qed.

Lemma wp_bind {S A B} (m : M S A) (f : A -> M S B) (Q : B -> S -> Prop) (U : panic -> S -> Prop) (s : S) :
  wp m (fun a s' => wp (f a) Q U s') U s -> wp (bind m f) Q U s.
Proof. unfold wp, bind. destruct (m s); auto. Qed.

Lemma wp_bind_inv {S A B} (m : M S A) (f : A -> M S B) (Q : B -> S -> Prop) (U : panic -> S -> Prop) (s : S) :
  wp (bind m f) Q U s -> wp m (fun a s' => wp (f a) Q U s') U s.
Proof. unfold wp, bind. destruct (m s); auto. Qed.

Lemma wp_conseq {S A} (m : M S A) (Q Q' : A -> S -> Prop) (U U' : panic -> S -> Prop) s :
  wp m Q U s -> (forall a s', Q a s' -> Q' a s') -> (forall p s', U p s' -> U' p s') -> wp m Q' U' s.
Proof. unfold wp. destruct (m s); auto. Qed.

Lemma wp_mono {S A} (m : M S A) (Q Q' : A -> S -> Prop) (U : panic -> S -> Prop) s :
  wp m Q U s -> (forall a s', Q a s' -> Q' a s') -> wp m Q' U s.
Proof. intros H HQ. eapply wp_conseq; eauto. Qed.

Lemma wp_get {S} (Q : S -> S -> Prop) (U : panic -> S -> Prop) (s : S) : Q s s -> wp get Q U s.
Proof. exact (fun H => H). Qed.
Lemma wp_gets {S A} (f : S -> A) (Q : A -> S -> Prop) (U : panic -> S -> Prop) (s : S) : Q (f s) s -> wp (gets f) Q U s.
Proof. exact (fun H => H). Qed.
Lemma wp_put {S} (s' : S) (Q : unit -> S -> Prop) (U : panic -> S -> Prop) (s : S) : Q tt s' -> wp (put s') Q U s.
Proof. exact (fun H => H). Qed.
Lemma wp_modify {S} (f : S -> S) (Q : unit -> S -> Prop) (U : panic -> S -> Prop) (s : S) : Q tt (f s) -> wp (modify f) Q U s.
Proof. exact (fun H => H). Qed.
Lemma wp_unwind {S A} p (Q : A -> S -> Prop) (U : panic -> S -> Prop) (s : S) : U p s -> wp (unwind p) Q U s.
Proof. exact (fun H => H). Qed.
Lemma wp_fault {S A} f (Q : A -> S -> Prop) (U : panic -> S -> Prop) (s : S) : wp (fault_ f) Q U s <-> benign f.
Proof. reflexivity. Qed.
Lemma wp_oracle {S A} (Q : A -> S -> Prop) (U : panic -> S -> Prop) (s : S) : wp (fault_ FOracle) Q U s.
Proof. left. reflexivity. Qed.
Lemma wp_badop {S A} (Q : A -> S -> Prop) (U : panic -> S -> Prop) (s : S) : wp (fault_ FBadOp) Q U s.
Proof. right. reflexivity. Qed.

Lemma wp_on_unwind {S A} (m : M S A) h (Q : A -> S -> Prop) (U : panic -> S -> Prop) (s : S) :
  wp m Q (fun p s' => wp h (fun _ s'' => U p s'') U s') s -> wp (on_unwind m h) Q U s.
Proof. unfold wp, on_unwind. destruct (m s); auto. destruct (h s0); auto. Qed.

Lemma wp_when {S} (b : bool) (m : M S unit) (Q : unit -> S -> Prop) (U : panic -> S -> Prop) (s : S) :
  (b = true -> wp m Q U s) -> (b = false -> Q tt s) -> wp (when b m) Q U s.
Proof. destruct b; cbn; auto. Qed.

(* ------------------------------------------------------------------ partial wp: facts about
   normal completion only (costs, ledgers); needs no invariant *)
Definition wpp {S A} (m : M S A) (Q : A -> S -> Prop) (U : panic -> S -> Prop) (s : S) : Prop :=
  match m s with
  | Ok a s' => Q a s'
  | Unwind p s' => U p s'
  | Fault _ => True
  end.
Lemma wpp_ret {S A} (a : A) (Q : A -> S -> Prop) (U : panic -> S -> Prop) (s : S) : Q a s -> wpp (ret a) Q U s.
Proof. exact (fun H => H). Qed.
Lemma wpp_bind {S A B} (m : M S A) (f : A -> M S B) (Q : B -> S -> Prop) (U : panic -> S -> Prop) (s : S) :
  wpp m (fun a s' => wpp (f a) Q U s') U s -> wpp (bind m f) Q U s.
Proof. unfold wpp, bind. destruct (m s); auto. Qed.
Lemma wpp_conseq {S A} (m : M S A) (Q Q' : A -> S -> Prop) (U U' : panic -> S -> Prop) s :
  wpp m Q U s -> (forall a s', Q a s' -> Q' a s') -> (forall p s', U p s' -> U' p s') -> wpp m Q' U' s.
Proof. unfold wpp. destruct (m s); auto. Qed.
Lemma wpp_mono {S A} (m : M S A) (Q Q' : A -> S -> Prop) (U : panic -> S -> Prop) s :
  wpp m Q U s -> (forall a s', Q a s' -> Q' a s') -> wpp m Q' U s.
Proof. intros H HQ. eapply wpp_conseq; eauto. Qed.
Lemma wpp_on_unwind {S A} (m : M S A) h (Q : A -> S -> Prop) (U : panic -> S -> Prop) (s : S) :
  wpp m Q (fun p s' => wpp h (fun _ s'' => U p s'') U s') s -> wpp (on_unwind m h) Q U s.
Proof. unfold wpp, on_unwind. destruct (m s); auto. destruct (h s0); auto. Qed.
Lemma wpp_when {S} (b : bool) (m : M S unit) (Q : unit -> S -> Prop) (U : panic -> S -> Prop) (s : S) :
  (b = true -> wpp m Q U s) -> (b = false -> Q tt s) -> wpp (when b m) Q U s.
Proof. destruct b; cbn; auto. Qed.
Lemma wp_wpp_and {S A} (m : M S A) (Q1 Q2 : A -> S -> Prop) (U1 U2 : panic -> S -> Prop) (s : S) :
  wp m Q1 U1 s -> wpp m Q2 U2 s -> wp m (fun a s' => Q1 a s' /\ Q2 a s') (fun p s' => U1 p s' /\ U2 p s') s.
Proof. unfold wp, wpp. destruct (m s); auto. Qed.
Lemma wpp_iterM {S A} (f : A -> M S unit) (I : list A -> S -> Prop) (U : panic -> S -> Prop) l s :
  I l s ->
  (forall a r s, I (cons a r) s -> wpp (f a) (fun _ s' => I r s') U s) ->
  wpp (iterM f l) (fun _ s' => I nil s') U s.
Proof.
  intros HI Hstep. revert s HI. induction l as [|a l IH]; intros s HI; cbn [iterM].
  - apply wpp_ret. exact HI.
  - apply wpp_bind. eapply wpp_mono; [apply Hstep; exact HI|]. intros ? s' H'. apply IH. exact H'.
Qed.

Lemma wp_catch {S A} (m : M S A) (Q : A + panic -> S -> Prop) (U : panic -> S -> Prop) (s : S) :
  wp m (fun a s' => Q (inl a) s') (fun p s' => Q (inr p) s') s -> wp (catch m) Q U s.
Proof. unfold wp, catch. destruct (m s); auto. Qed.

Lemma wp_and {S A} (m : M S A) (Q1 Q2 : A -> S -> Prop) (U1 U2 : panic -> S -> Prop) (s : S) :
  wp m Q1 U1 s -> wp m Q2 U2 s -> wp m (fun a s' => Q1 a s' /\ Q2 a s') (fun p s' => U1 p s' /\ U2 p s') s.
Proof. unfold wp. destruct (m s); auto. Qed.

Lemma wp_ok_inv {S A} (m : M S A) (Q : A -> S -> Prop) (U : panic -> S -> Prop) (s : S) a s' : wp m Q U s -> m s = Ok a s' -> Q a s'.
Proof. unfold wp. intros H E. rewrite E in H. exact H. Qed.
Lemma wp_unwind_inv {S A} (m : M S A) (Q : A -> S -> Prop) (U : panic -> S -> Prop) (s : S) p s' : wp m Q U s -> m s = Unwind p s' -> U p s'.
Proof. unfold wp. intros H E. rewrite E in H. exact H. Qed.
Lemma wp_no_fault {S A} (m : M S A) (Q : A -> S -> Prop) (U : panic -> S -> Prop) (s : S) f : wp m Q U s -> m s = Fault f -> benign f.
Proof. unfold wp. intros H E. rewrite E in H. exact H. Qed.

Lemma wp_iterM {S A} (f : A -> M S unit) (I : list A -> S -> Prop) (U : panic -> S -> Prop) l s :
  I l s ->
  (forall a r s, I (cons a r) s -> wp (f a) (fun _ s' => I r s') U s) ->
  wp (iterM f l) (fun _ s' => I nil s') U s.
Proof.
  intros HI Hstep. revert s HI. induction l as [|a l IH]; intros s HI; cbn [iterM].
  - apply wp_ret. exact HI.
  - apply wp_bind. eapply wp_mono; [apply Hstep; exact HI|]. intros ? s' H'. apply IH. exact H'.
Qed.
