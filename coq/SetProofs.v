(* SetProofs.v — the HashSet algebra (C13): the lazy iterators built from iter() and contains()
   yield exactly the mathematical result, each element once, in every resize phase of either
   operand; the predicates decide the mathematical relations. *)
From stdpp Require Import gmap list.
From Coq Require Import NArith Lia.
From G Require Import Arith Monad Types Inv Raw RawProofs Map MapProofs IterProofs.
Local Open Scope N_scope.

(* the results are shown sorted: a permutation of what was yielded, so duplicates would show *)
Lemma insert_sorted_perm x l : insert_sorted x l ≡ₚ x :: l.
Proof.
  induction l as [|y l IH]; cbn [insert_sorted]; [reflexivity|].
  destruct (_ <=? _); [reflexivity|]. rewrite IH. apply Permutation_swap.
Qed.
Lemma sorted3_perm l : sorted3 l ≡ₚ map elem3' l.
Proof.
  unfold sorted3. induction (map elem3' l) as [|x xs IH]; cbn [foldr]; [reflexivity|].
  rewrite insert_sorted_perm, IH. reflexivity.
Qed.

Section SetProofs.
Context (c : cfg).
Notation R := (cR c).
Notation ES := (cesz c).

Lemma valid_order_canon (m : gmap N elem) :
  (forall k e, m !! k = Some e -> ek e = k) -> valid_order m (map_to_list m).*2 = true.
Proof.
  intros Hk. unfold valid_order. apply andb_true_intro. split.
  - apply bool_decide_eq_true. apply map_eq. intros k.
    assert (Hnd : NoDup (map ek (map_to_list m).*2)).
    { assert (map ek (map_to_list m).*2 = (map_to_list m).*1) as ->.
      { rewrite <- list_fmap_compose. apply list_fmap_ext. intros i [k' e] Hi. cbn.
        apply Hk. apply elem_of_map_to_list. eapply elem_of_list_lookup_2. exact Hi. }
      apply NoDup_fst_map_to_list. }
    rewrite list_to_emap_lookup by exact Hnd.
    destruct (m !! k) as [e|] eqn:E.
    + apply lookup_list_nodup; [exact Hnd| |apply Hk; exact E].
      apply elem_of_list_fmap. exists (k, e). split; [reflexivity|]. apply elem_of_map_to_list. exact E.
    + destruct (lookup_list k (map_to_list m).*2) as [e|] eqn:E'; [|reflexivity].
      apply lookup_list_Some in E' as [Hin Hke]. apply elem_of_list_fmap in Hin as ([k' e'] & -> & Hin).
      apply elem_of_map_to_list in Hin. cbn in Hke. pose proof (Hk _ _ Hin). cbn in *. congruence.
  - apply N.eqb_eq. f_equal. rewrite fmap_length. reflexivity.
Qed.

(* iter() of a set in any resize phase: every element of the contents, each once *)
Lemma iter_elems_spec r :
  Inv R ES r ->
  NoDup (map ek (iter_elems r)) /\
  (forall e, e ∈ iter_elems r <-> rt_abs r !! ek e = Some e) /\
  N.of_nat (length (iter_elems r)) = rt_len r.
Proof.
  intros HI. pose proof HI as (HR & Hok & Ho). pose proof Hok as (_ & _ & Hkey & _).
  set (l := map (pair true) (map_to_list (hel (main r))).*2 ++
            map (pair false) (match lo r with Some o => orem o | None => [] end)).
  assert (Hit : iter_of r l).
  { exists (map_to_list (hel (main r))).*2. split; [apply valid_order_canon; exact Hkey|reflexivity]. }
  assert (Hsnd : map snd l = iter_elems r).
  { unfold l, iter_elems. rewrite map_app, !map_map. cbn. rewrite !map_id. f_equal.
    destruct (lo r) as [o|]; [|reflexivity]. destruct Ho as (Hi & Hc & _). unfold olen in Hi.
    symmetry. apply firstn_all'. lia. }
  pose proof (iter_of_abs c r l HI Hit) as [Habs Hnd]. rewrite Hsnd in Habs, Hnd.
  split; [exact Hnd|]. split.
  - intros e. rewrite <- Habs. rewrite list_to_emap_lookup by exact Hnd. split.
    + intros Hin. apply lookup_list_nodup; auto.
    + intros H. apply lookup_list_Some in H. tauto.
  - rewrite <- Hsnd, map_length. apply (iter_of_length c r l HI Hit).
Qed.

Lemma contains_spec r k : Inv R ES r -> contains r k = true <-> is_Some (rt_abs r !! k).
Proof.
  intros HI. unfold contains. rewrite (rt_find_abs c r k HI).
  destruct (rt_find_pure r k) as [[im e]|]; cbn; split; intros H; try discriminate; eauto.
  destruct H as [x H]. discriminate.
Qed.
Lemma contains_false r k : Inv R ES r -> contains r k = false <-> rt_abs r !! k = None.
Proof.
  intros HI. pose proof (contains_spec r k HI) as H. destruct (contains r k).
  - split; [discriminate|]. intros Hn. destruct H as [H _]. destruct (H eq_refl) as [x Hx]. congruence.
  - split; [|reflexivity]. intros _. destruct (rt_abs r !! k) eqn:E; [|reflexivity].
    destruct H as [_ H]. discriminate H. eauto.
Qed.

Lemma NoDup_map_filter {A B} (f : A -> B) (P : A -> bool) l : NoDup (map f l) -> NoDup (map f (List.filter P l)).
Proof.
  induction l as [|x l IH]; cbn; intros H; [constructor|]. apply NoDup_cons in H as [Hx H].
  destruct (P x); cbn; [apply NoDup_cons; split; [|apply IH, H]|apply IH, H].
  intros Hin. apply Hx. apply elem_of_list_fmap in Hin as (y & -> & Hy). apply elem_of_list_fmap. exists y. split; [reflexivity|].
  apply elem_of_list_In in Hy. apply List.filter_In in Hy as [Hy _]. apply elem_of_list_In. exact Hy.
Qed.
Lemma elem_of_filter' {A} (P : A -> bool) l x : x ∈ List.filter P l <-> x ∈ l /\ P x = true.
Proof. rewrite !elem_of_list_In. apply List.filter_In. Qed.

(* difference: the elements of a that are not in b *)
Lemma s_difference_spec a b :
  Inv R ES a -> Inv R ES b ->
  NoDup (map ek (s_difference a b)) /\
  forall e, e ∈ s_difference a b <-> rt_abs a !! ek e = Some e /\ rt_abs b !! ek e = None.
Proof.
  intros Ha Hb. destruct (iter_elems_spec a Ha) as (Hnd & Hin & _). unfold s_difference. split.
  - apply NoDup_map_filter, Hnd.
  - intros e. rewrite elem_of_filter', Hin, Bool.negb_true_iff, (contains_false b _ Hb). reflexivity.
Qed.

Lemma elem_keys (l : list elem) k : k ∈ map ek l <-> exists e, e ∈ l /\ ek e = k.
Proof.
  rewrite elem_of_list_fmap. split; intros (e & H1 & H2); exists e; auto.
Qed.

Lemma NoDup_keys_app (l1 l2 : list elem) :
  NoDup (map ek l1) -> NoDup (map ek l2) -> (forall e1 e2, e1 ∈ l1 -> e2 ∈ l2 -> ek e1 <> ek e2) ->
  NoDup (map ek (l1 ++ l2)).
Proof.
  intros H1 H2 Hd. rewrite map_app. apply NoDup_app. split; [exact H1|]. split; [|exact H2].
  intros k Hk1 Hk2. apply elem_keys in Hk1 as (e1 & He1 & <-). apply elem_keys in Hk2 as (e2 & He2 & Hk).
  eapply Hd; eauto.
Qed.

(* the four lazy iterators: each key of the mathematical result exactly once, every yielded
   object an element of one of the operands *)
Definition alg_math (kind : N) (x y : Prop) : Prop :=
  match kind with
  | 0 => x /\ ~ y
  | 1 => (x /\ ~ y) \/ (y /\ ~ x)
  | 2 => x /\ y
  | _ => x \/ y
  end.

Definition alg_ok (kind : N) (ma mb : gmap N elem) (l : list elem) : Prop :=
  NoDup (map ek l) /\
  (forall e, e ∈ l -> ma !! ek e = Some e \/ mb !! ek e = Some e) /\
  (forall k, k ∈ map ek l <-> alg_math kind (is_Some (ma !! k)) (is_Some (mb !! k))).

Lemma abs_key r k e : Inv R ES r -> rt_abs r !! k = Some e -> ek e = k.
Proof.
  intros HI H. rewrite (rt_find_abs c r k HI) in H. destruct (rt_find_pure r k) as [[im x]|] eqn:E; [|discriminate].
  injection H as ->. destruct im.
  - apply rt_find_main in E. destruct HI as (_ & (_ & _ & Hk & _) & _). eauto.
  - apply rt_find_old in E as (_ & o & _ & E). apply lookup_list_Some in E. tauto.
Qed.

Lemma none_not_some {A} (o : option A) : o = None <-> ~ is_Some o.
Proof. destruct o; split; intros H; try congruence; try (exfalso; apply H; eauto); intros [x Hx]; discriminate. Qed.

Section Cases.
Context (a b : rt) (Ha : Inv R ES a) (Hb : Inv R ES b).

Lemma some_iff r k : Inv R ES r -> is_Some (rt_abs r !! k) <-> exists e, rt_abs r !! ek e = Some e /\ ek e = k.
Proof.
  intros Hr. split; [intros [e He]; exists e; pose proof (abs_key r k e Hr He) as Hk; rewrite Hk; auto|].
  intros (e & He & <-). eauto.
Qed.

Lemma case_difference : alg_ok 0 (rt_abs a) (rt_abs b) (s_difference a b).
Proof.
  destruct (s_difference_spec a b Ha Hb) as (Hnd & Hin). split; [exact Hnd|]. split; [intros e He; left; apply Hin, He|].
  intros k. rewrite elem_keys. cbn [alg_math]. split.
  - intros (e & He & <-). apply Hin in He as [H1 H2]. split; [eauto|apply none_not_some, H2].
  - intros [[e He] Hn]. pose proof (abs_key a k e Ha He) as <-. exists e. split; [|reflexivity].
    apply Hin. split; [exact He|apply none_not_some, Hn].
Qed.
End Cases.

Lemma case_symdiff a b : Inv R ES a -> Inv R ES b -> alg_ok 1 (rt_abs a) (rt_abs b) (s_symmetric_difference a b).
Proof.
  intros Ha Hb. destruct (case_difference a b Ha Hb) as (N1 & E1 & K1). destruct (case_difference b a Hb Ha) as (N2 & E2 & K2).
  destruct (s_difference_spec a b Ha Hb) as (_ & I1). destruct (s_difference_spec b a Hb Ha) as (_ & I2).
  unfold s_symmetric_difference. split; [|split].
  - apply NoDup_keys_app; [exact N1|exact N2|]. intros e1 e2 H1 H2 Hk. apply I1 in H1 as [H1a H1b]. apply I2 in H2 as [H2a H2b].
    rewrite Hk in H1b. congruence.
  - intros e He. apply elem_of_app in He as [He|He]; [apply E1 in He|apply E2 in He]; tauto.
  - intros k. rewrite map_app, elem_of_app, K1, K2. cbn [alg_math]. tauto.
Qed.

Lemma case_inter_half a b :
  Inv R ES a -> Inv R ES b ->
  alg_ok 2 (rt_abs a) (rt_abs b) (List.filter (fun e => contains b (ek e)) (iter_elems a)).
Proof.
  intros Ha Hb. destruct (iter_elems_spec a Ha) as (Hnd & Hin & _). split; [apply NoDup_map_filter, Hnd|]. split.
  - intros e He. apply elem_of_filter' in He as [He _]. left. apply Hin, He.
  - intros k. rewrite elem_keys. cbn [alg_math]. split.
    + intros (e & He & <-). apply elem_of_filter' in He as [He Hc]. apply Hin in He. apply (contains_spec b _ Hb) in Hc. eauto.
    + intros [[e He] Hbk]. pose proof (abs_key a k e Ha He) as <-. exists e. split; [|reflexivity].
      apply elem_of_filter'. split; [apply Hin, He|apply (contains_spec b _ Hb), Hbk].
Qed.

Lemma alg_ok_swap2 ma mb l : alg_ok 2 ma mb l -> alg_ok 2 mb ma l.
Proof. intros (H1 & H2 & H3). split; [exact H1|]. split; [intros e He; apply H2 in He; tauto|]. intros k. rewrite H3. cbn. tauto. Qed.

Lemma case_intersection a b : Inv R ES a -> Inv R ES b -> alg_ok 2 (rt_abs a) (rt_abs b) (s_intersection a b).
Proof.
  intros Ha Hb. unfold s_intersection. destruct (rt_len a <=? rt_len b); [apply case_inter_half; assumption|].
  apply alg_ok_swap2, case_inter_half; assumption.
Qed.

Lemma case_union_half a b :
  Inv R ES a -> Inv R ES b -> alg_ok 3 (rt_abs a) (rt_abs b) (iter_elems b ++ s_difference a b).
Proof.
  intros Ha Hb. destruct (iter_elems_spec b Hb) as (Hnd & Hin & _). destruct (s_difference_spec a b Ha Hb) as (Nd & Id).
  split; [|split].
  - apply NoDup_keys_app; [exact Hnd|exact Nd|]. intros e1 e2 H1 H2 Hk. apply Hin in H1. apply Id in H2 as [_ H2]. rewrite <- Hk in H2. congruence.
  - intros e He. apply elem_of_app in He as [He|He]; [right; apply Hin, He|left; apply Id, He].
  - intros k. rewrite map_app, elem_of_app, !elem_keys. cbn [alg_math]. split.
    + intros [(e & He & <-)|(e & He & <-)]; [right; apply Hin in He; eauto|left; apply Id in He as [He _]; eauto].
    + intros Hor. destruct (rt_abs b !! k) as [eb|] eqn:Eb.
      * left. pose proof (abs_key b k eb Hb Eb) as <-. exists eb. split; [apply Hin, Eb|reflexivity].
      * right. destruct Hor as [[ea Ea]|[x Hx]]; [|discriminate].
        pose proof (abs_key a k ea Ha Ea) as <-. exists ea. split; [apply Id; auto|reflexivity].
Qed.

Lemma alg_ok_swap3 ma mb l : alg_ok 3 ma mb l -> alg_ok 3 mb ma l.
Proof. intros (H1 & H2 & H3). split; [exact H1|]. split; [intros e He; apply H2 in He; tauto|]. intros k. rewrite H3. cbn. tauto. Qed.

Lemma case_union a b : Inv R ES a -> Inv R ES b -> alg_ok 3 (rt_abs a) (rt_abs b) (s_union a b).
Proof.
  intros Ha Hb. unfold s_union. destruct (rt_len b <=? rt_len a); [apply case_union_half; assumption|].
  apply alg_ok_swap3, case_union_half; assumption.
Qed.

Theorem s_alg_spec kind a b :
  Inv R ES a -> Inv R ES b -> alg_ok kind (rt_abs a) (rt_abs b) (s_alg kind a b).
Proof.
  intros Ha Hb. unfold s_alg.
  destruct kind as [|[[p|p|]|[p|p|]|]];
    first [apply case_difference; assumption | apply case_symdiff; assumption | apply case_intersection; assumption | idtac].
  all: destruct (case_union a b Ha Hb) as (H1 & H2 & H3); split; [exact H1|split; [exact H2|exact H3]].
Qed.

Theorem s_alg_par_spec kind a b :
  Inv R ES a -> Inv R ES b -> alg_ok kind (rt_abs a) (rt_abs b) (s_alg_par kind a b).
Proof.
  intros Ha Hb. unfold s_alg_par.
  destruct kind as [|[[p|p|]|[p|p|]|]];
    first [apply case_difference; assumption | apply case_symdiff; assumption | apply case_inter_half; assumption | idtac].
  all: destruct (alg_ok_swap3 _ _ _ (case_union_half b a Hb Ha)) as (H1 & H2 & H3); split; [exact H1|split; [exact H2|exact H3]].
Qed.

(* collecting the (cloned) results into a new set - the operator forms - keeps exactly them *)
Lemma collect_perm l : NoDup (map ek l) -> collect l ≡ₚ l.
Proof.
  intros Hnd. unfold collect. apply NoDup_Permutation.
  - apply (NoDup_fmap_1 ek). assert (map ek (map_to_list (list_to_emap l)).*2 = (map_to_list (list_to_emap l)).*1) as Heq.
    { rewrite <- list_fmap_compose. apply list_fmap_ext. intros i [k' e] Hi. cbn.
      apply elem_of_list_lookup_2, elem_of_map_to_list in Hi. apply list_to_emap_key in Hi; tauto. }
    change (NoDup (map ek (map_to_list (list_to_emap l)).*2)). rewrite Heq. apply NoDup_fst_map_to_list.
  - apply (NoDup_fmap_1 ek). exact Hnd.
  - intros e. rewrite elem_of_list_fmap. split.
    + intros ([k e'] & -> & Hin). apply elem_of_map_to_list in Hin. apply list_to_emap_key in Hin; tauto.
    + intros Hin. exists (ek e, e). split; [reflexivity|]. apply elem_of_map_to_list.
      rewrite list_to_emap_lookup by exact Hnd. apply lookup_list_nodup; auto.
Qed.

Lemma alg_ok_perm kind ma mb l l' : l' ≡ₚ l -> alg_ok kind ma mb l -> alg_ok kind ma mb l'.
Proof.
  intros Hp (H1 & H2 & H3). split; [rewrite Hp; exact H1|]. split; [intros e He; apply H2; rewrite <- Hp; exact He|].
  intros k. rewrite Hp. apply H3.
Qed.

(* ---------------------------------------------------------------- predicates *)
Definition dom_sub (ma mb : gmap N elem) : Prop := forall k, is_Some (ma !! k) -> is_Some (mb !! k).

Lemma forallb_contains a b :
  Inv R ES a -> Inv R ES b ->
  forallb (fun e => contains b (ek e)) (iter_elems a) = true <-> dom_sub (rt_abs a) (rt_abs b).
Proof.
  intros Ha Hb. destruct (iter_elems_spec a Ha) as (_ & Hin & _). rewrite forallb_forall. split.
  - intros H k [e He]. pose proof (abs_key a k e Ha He) as <-. apply (contains_spec b _ Hb). apply H. apply elem_of_list_In, Hin, He.
  - intros H e He. apply elem_of_list_In, Hin in He. apply (contains_spec b _ Hb). apply H. eauto.
Qed.

Lemma dom_sub_size (ma mb : gmap N elem) : dom_sub ma mb -> (size ma <= size mb)%nat.
Proof.
  intros H. rewrite <- !size_dom. apply subseteq_size. intros k. rewrite !elem_of_dom. apply H.
Qed.

Lemma dom_sub_size_eq (ma mb : gmap N elem) : dom_sub ma mb -> size ma = size mb -> dom_sub mb ma.
Proof.
  intros H Hs. destruct (decide (dom mb ⊆@{gset N} dom ma)) as [Hd|Hd].
  - intros k. specialize (Hd k). rewrite !elem_of_dom in Hd. exact Hd.
  - exfalso. assert (Hlt : (size (dom ma) < size (dom mb))%nat).
    { apply subset_size. split; [intros k; rewrite !elem_of_dom; apply H|exact Hd]. }
    rewrite !size_dom in Hlt. lia.
Qed.

Theorem s_is_subset_spec a b :
  Inv R ES a -> Inv R ES b -> s_is_subset a b = true <-> dom_sub (rt_abs a) (rt_abs b).
Proof.
  intros Ha Hb. unfold s_is_subset. rewrite Bool.andb_true_iff, (forallb_contains a b Ha Hb), N.leb_le.
  split; [tauto|]. intros H. split; [|exact H]. rewrite <- (Inv_len R ES a Ha), <- (Inv_len R ES b Hb).
  pose proof (dom_sub_size _ _ H). lia.
Qed.

Theorem s_par_is_subset_spec a b :
  Inv R ES a -> Inv R ES b -> s_par_is_subset a b = true <-> dom_sub (rt_abs a) (rt_abs b).
Proof. intros Ha Hb. apply forallb_contains; assumption. Qed.

Theorem s_eq_spec a b :
  Inv R ES a -> Inv R ES b ->
  s_eq a b = true <-> (forall k, is_Some (rt_abs a !! k) <-> is_Some (rt_abs b !! k)).
Proof.
  intros Ha Hb. unfold s_eq. rewrite Bool.andb_true_iff, (forallb_contains a b Ha Hb), N.eqb_eq.
  rewrite <- (Inv_len R ES a Ha), <- (Inv_len R ES b Hb). split.
  - intros [Hs H] k. split; [apply H|]. apply dom_sub_size_eq; [exact H|lia].
  - intros H. assert (H1 : dom_sub (rt_abs a) (rt_abs b)) by (intros k; apply H).
    assert (H2 : dom_sub (rt_abs b) (rt_abs a)) by (intros k; apply H).
    split; [|exact H1]. pose proof (dom_sub_size _ _ H1). pose proof (dom_sub_size _ _ H2). lia.
Qed.

Theorem s_is_disjoint_spec a b :
  Inv R ES a -> Inv R ES b ->
  s_is_disjoint a b = true <-> (forall k, ~ (is_Some (rt_abs a !! k) /\ is_Some (rt_abs b !! k))).
Proof.
  intros Ha Hb. destruct (iter_elems_spec a Ha) as (_ & Hin & _). unfold s_is_disjoint. rewrite forallb_forall. split.
  - intros H k [[e He] Hk]. pose proof (abs_key a k e Ha He) as <-.
    assert (Hc : negb (contains b (ek e)) = true) by (apply H, elem_of_list_In, Hin, He).
    apply Bool.negb_true_iff, (contains_false b _ Hb) in Hc. destruct Hk as [x Hx]. congruence.
  - intros H e He. apply elem_of_list_In, Hin in He. apply Bool.negb_true_iff, (contains_false b _ Hb).
    destruct (rt_abs b !! ek e) eqn:E; [|reflexivity]. exfalso. apply (H (ek e)). eauto.
Qed.

End SetProofs.
