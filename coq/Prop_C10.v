(* C10 — Capacity-management calls honour their contracts, including at usize limits.
   usize additions are modelled as the code performs them (saturating); n ranges over all of usize. *)
From stdpp Require Import gmap list.
From Coq Require Import NArith.
From G Require Import Arith Monad Types Inv Raw RawProofs Map Cost Fill Theorems.
Local Open Scope N_scope.

Theorem C10_with_capacity : forall c fallible cap s t s',
  hb_with_capacity c fallible cap s = Ok (Some t) s' -> cap <= hgl t /\ hn t = 0 /\ hb_ok (cesz c) t.
Proof. exact T_C10_with_capacity. Qed.

(* reserve(n) / Ok from try_reserve(n), in any resize phase: capacity() >= len() + n, contents unchanged *)
Theorem C10_reserve : forall c fallible n s s',
  Inv (cR c) (cesz c) (s_rt s) -> n <= usize_max -> rt_reserve c fallible n s = Ok true s' ->
  Inv (cR c) (cesz c) (s_rt s') /\ rt_abs (s_rt s') = rt_abs (s_rt s) /\
  rt_len (s_rt s') + n <= rt_capacity (s_rt s').
Proof. exact T_C10_reserve. Qed.

(* ... and then the next n new keys are inserted without growth and without allocation *)
Theorem C10_reserved_inserts : forall c es s,
  Inv (cR c) (cesz c) (s_rt s) -> NoDup (map ek es) -> (forall e, e ∈ es -> rt_abs (s_rt s) !! ek e = None) ->
  rt_len (s_rt s) + N.of_nat (length es) <= rt_capacity (s_rt s) ->
  match iterM (rt_insert c) es s with
  | Ok _ s' => Inv (cR c) (cesz c) (s_rt s') /\ hB (main (s_rt s')) = hB (main (s_rt s)) /\
               l_alloc (s_log s') = l_alloc (s_log s) /\ rt_abs (s_rt s') = insert_all (rt_abs (s_rt s)) es
  | Unwind p s' => p = PUser
  | Fault f => benign f
  end.
Proof. exact T_C10_reserved_inserts. Qed.

Theorem C10_try_reserve_err : forall c n s s',
  Inv (cR c) (cesz c) (s_rt s) -> n <= usize_max -> rt_reserve c true n s = Ok false s' ->
  Inv (cR c) (cesz c) (s_rt s') /\ rt_abs (s_rt s') = rt_abs (s_rt s).
Proof. exact T_C10_try_reserve_err. Qed.

Theorem C10_reserve_panic : forall c fallible n s p s',
  Inv (cR c) (cesz c) (s_rt s) -> n <= usize_max -> rt_reserve c fallible n s = Unwind p s' ->
  Inv (cR c) (cesz c) (s_rt s') /\ (p = PUser \/ (p = PCapOverflow /\ fallible = false /\ rt_abs (s_rt s') = rt_abs (s_rt s))).
Proof. exact T_C10_reserve_panic. Qed.

(* never "returns normally having reserved nothing": beyond isize::MAX no request succeeds *)
Theorem C10_never_silent : forall c fallible n s s',
  Inv (cR c) (cesz c) (s_rt s) -> isize_max < n -> n <= usize_max -> rt_reserve c fallible n s <> Ok true s'.
Proof. exact T_C10_never_silent. Qed.

(* shrink_to(m) / shrink_to_fit (m = 0): contents kept, table not enlarged,
   capacity() >= max(len(), min(m, previous capacity)) ([shrink_post], RawProofs.v) *)
Theorem C10_shrink : forall c m s s',
  Inv (cR c) (cesz c) (s_rt s) -> rt_shrink_to c m s = Ok tt s' -> shrink_post c (s_rt s) m (s_rt s').
Proof. exact T_C10_shrink. Qed.

Print Assumptions C10_with_capacity.
Print Assumptions C10_reserve.
Print Assumptions C10_reserved_inserts.
Print Assumptions C10_try_reserve_err.
Print Assumptions C10_reserve_panic.
Print Assumptions C10_never_silent.
Print Assumptions C10_shrink.
