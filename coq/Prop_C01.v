(* C01 — HashMap is observationally a sequential key-value map in every resize phase.
   Statements only; proofs are [exact] of lemmas in Theorems.v. *)
From stdpp Require Import gmap list.
From Coq Require Import NArith.
From G Require Import Arith Monad Types Inv Raw Map MapProofs WorldProofs Theorems.
Local Open Scope N_scope.

(* One call: the model's outcome and contents afterwards are those of the reference (spec_rel,
   WorldProofs.v: plain finite maps), every map keeps its invariant, no Fault is reachable.  An
   injected user panic (fuse) is the only other outcome; C07 covers what holds after it. *)
Theorem C01_step_refines : forall c w t,
  0 < cR c -> WInv c w -> core_op (t_op t) ->
  match step_caught c w t with
  | inl (w', o) => WInv c w' /\ (spec_rel (wabs w) (t_op t) o (wabs w') \/ o = OutP PUser)
  | inr f => benign f
  end.
Proof. exact T_C01_step_refines. Qed.

(* Every finite history, from the empty world: by induction over the operation list. *)
Theorem C01_run_refines : forall c ts,
  0 < cR c -> Forall core_op (map t_op ts) ->
  match run c world0 ts [] with
  | inl (w', outs) => WInv c w' /\ spec_runs ∅ (map t_op ts) outs (wabs w')
  | inr f => benign f
  end.
Proof. exact T_C01_run_refines. Qed.

(* Without an armed fuse (i.e. when no user callback panics) every outcome is one the reference
   predicts: the only panics are the documented ones it allows (missing key on index, capacity
   overflow) and the unwrap of the recorded finding D6, never a user panic, an assertion or a
   debug-only check. *)
Theorem C01_run_refines_no_fuse : forall c ts w acc,
  0 < cR c -> WInv c w -> w_fuse w = None -> Forall core_op (map t_op ts) ->
  match run c w ts acc with
  | inl (w', outs) =>
      WInv c w' /\ w_fuse w' = None /\ exists rs, outs = acc ++ rs /\ spec_runs0 (wabs w) (map t_op ts) rs (wabs w')
  | inr f => benign f
  end.
Proof. exact T_C01_run_refines_no_fuse. Qed.

(* len() = number of key-value pairs, in every reachable state *)
Theorem C01_len : forall c w i m,
  0 < cR c -> reachable c w -> w_maps w !! i = Some m ->
  rt_len (m_rt m) = N.of_nat (size (rt_abs (m_rt m))).
Proof. exact T_C01_len. Qed.

(* core_op - the hypothesis of the theorems above - holds of every operation of the model (the
   whole HashMap / HashSet / entry / raw-entry / rayon / serde surface that is modelled) whose
   size arguments fit a usize *)
Theorem C01_every_operation_is_covered : forall o : op,
  match o with
  | OReserve _ n | OTryReserve _ n => n <= usize_max
  | OExtend _ _ hint => hint <= usize_max
  | OParExtend _ chunks => N.of_nat (length (concat chunks)) < usize_max
  | _ => True
  end -> core_op o.
Proof. exact T_C01_every_operation_is_covered. Qed.

Print Assumptions C01_step_refines.
Print Assumptions C01_every_operation_is_covered.
Print Assumptions C01_run_refines.
Print Assumptions C01_len.
Print Assumptions C01_run_refines_no_fuse.
