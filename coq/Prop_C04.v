(* C04 — Headroom: a resize in progress never has to be interrupted by another. *)
From stdpp Require Import gmap list.
From Coq Require Import NArith.
From G Require Import Arith Monad Types Inv Raw Map MapProofs Cost Fill WorldProofs Theorems.
Local Open Scope N_scope.

Theorem C04_capacity_ge_len : forall c w i m,
  0 < cR c -> reachable c w -> w_maps w !! i = Some m -> rt_len (m_rt m) <= rt_capacity (m_rt m).
Proof. exact T_C04_capacity_ge_len. Qed.

(* the "equivalently" clause: the main table always has room for every element still in the old
   table plus the insertions needed to move them: need n = n + ceil(n/R), need 0 = 1 *)
Theorem C04_headroom_invariant : forall c w i m o,
  0 < cR c -> reachable c w -> w_maps w !! i = Some m -> lo (m_rt m) = Some o ->
  need (ocnt o) (cR c) <= hgl (main (m_rt m)).
Proof. exact T_C04_headroom_invariant. Qed.

(* hence insert's assert!(self.leftovers.is_none()) cannot fire *)
Theorem C04_full_implies_no_resize : forall c w i m,
  0 < cR c -> reachable c w -> w_maps w !! i = Some m -> hgl (main (m_rt m)) = 0 -> lo (m_rt m) = None.
Proof. exact T_C04_full_implies_no_resize. Qed.

(* growth, reserve and shrink_to, in any phase, re-establish it *)
Theorem C04_sizing_keeps_headroom : forall c w t,
  0 < cR c -> WInv c w -> core_op (t_op t) ->
  match step_caught c w t with
  | inl (w', _) => WInv c w'
  | inr f => benign f
  end.
Proof. exact T_C04_sizing_keeps_headroom. Qed.

(* the property as stated: inserting capacity() - len() previously unseen keys completes without
   panicking (other than an injected user panic), without growth or table allocation, without
   capacity() decreasing, and (if at least one key was inserted) leaves no resize pending *)
Theorem C04_fill : forall c es s,
  Inv (cR c) (cesz c) (s_rt s) -> NoDup (map ek es) -> (forall e, e ∈ es -> rt_abs (s_rt s) !! ek e = None) ->
  N.of_nat (length es) = rt_capacity (s_rt s) - rt_len (s_rt s) ->
  match iterM (rt_insert c) es s with
  | Ok _ s' =>
      Inv (cR c) (cesz c) (s_rt s') /\ rt_abs (s_rt s') = insert_all (rt_abs (s_rt s)) es /\
      hB (main (s_rt s')) = hB (main (s_rt s)) /\ rt_capacity (s_rt s) <= rt_capacity (s_rt s') /\
      l_alloc (s_log s') = l_alloc (s_log s) /\ (es <> [] -> lo (s_rt s') = None)
  | Unwind p s' => Inv (cR c) (cesz c) (s_rt s') /\ p = PUser
  | Fault f => benign f
  end.
Proof. exact T_C04_fill. Qed.

Print Assumptions C04_fill.
Print Assumptions C04_capacity_ge_len.
Print Assumptions C04_headroom_invariant.
Print Assumptions C04_full_implies_no_resize.
Print Assumptions C04_sizing_keeps_headroom.
