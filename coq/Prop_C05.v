(* C05 — No undefined behaviour is reachable through the safe API (the part a model can carry:
   the cursor/ownership discipline; see DESIGN.md for what is outside). *)
From stdpp Require Import gmap list.
From Coq Require Import NArith.
From G Require Import Arith Monad Types Inv Raw Map MapProofs WorldProofs Theorems.
Local Open Scope N_scope.

(* no history reaches a Fault (over-read of the cached iterator, growth_left underflow, vacant
   bucket, duplicate key, unreachable_unchecked); only an infeasible oracle value or an
   ill-formed history stops the model *)
Theorem C05_no_fault : forall c ts,
  0 < cR c -> Forall core_op (map t_op ts) ->
  forall f, run c world0 ts [] = inr f -> benign f.
Proof. exact T_C05_no_fault. Qed.

(* the cached position agrees exactly with the set of elements still in the old table *)
Theorem C05_cursor_agrees : forall c w i m o,
  0 < cR c -> reachable c w -> w_maps w !! i = Some m -> lo (m_rt m) = Some o ->
  oit o = N.of_nat (length (orem o)) /\ NoDup (map ek (orem o)) /\
  (forall e, e ∈ orem o -> hel (main (m_rt m)) !! ek e = None).
Proof. exact T_C05_cursor_agrees. Qed.

Print Assumptions C05_no_fault.
Print Assumptions C05_cursor_agrees.
