(* Cost.v — what a call costs in hash computations, element moves, table allocations and
   deallocations: bounds that need no invariant (they hold for normal completion and for
   unwinding alike), proved once per function with a small calculus. *)
From stdpp Require Import gmap list.
From Coq Require Import NArith Lia.
From G Require Import Arith Monad Types Inv Raw Map.
Local Open Scope N_scope.

Record delta := D { dh : N; dm : N; da : N; df : N }.
Definition dz : delta := D 0 0 0 0.
Definition dadd (a b : delta) : delta := D (dh a + dh b) (dm a + dm b) (da a + da b) (df a + df b).
Definition dmul (n : N) (a : delta) : delta := D (n * dh a) (n * dm a) (n * da a) (n * df a).
Definition dle (a b : delta) : Prop := dh a <= dh b /\ dm a <= dm b /\ da a <= da b /\ df a <= df b.

(* the log moved by at most d *)
Definition within (d : delta) (l l' : log) : Prop :=
  l_hash l <= l_hash l' /\ l_hash l' <= l_hash l + dh d /\
  l_move l <= l_move l' /\ l_move l' <= l_move l + dm d /\
  l_alloc l <= l_alloc l' /\ l_alloc l' <= l_alloc l + da d /\
  l_free l <= l_free l' /\ l_free l' <= l_free l + df d.

(* [cost d m]: whatever m does, it moves the log by at most d; and if no fuse is armed it arms
   none and cannot end in a user panic (only [cb] raises PUser, and only when a fuse fires). *)
Definition okq (d : delta) (s s' : st) : Prop :=
  within d (s_log s) (s_log s') /\ (s_fuse s = None -> s_fuse s' = None).
Definition oku (d : delta) (s : st) (p : panic) (s' : st) : Prop :=
  within d (s_log s) (s_log s') /\ (s_fuse s = None -> s_fuse s' = None /\ p <> PUser).
Definition cost {A} (d : delta) (m : M' A) : Prop :=
  forall s, wpp m (fun _ s' => okq d s s') (oku d s) s.

Lemma within_refl l : within dz l l.
Proof. unfold within, dz; cbn. lia. Qed.
Lemma within_refl' d l : within d l l.
Proof. unfold within. lia. Qed.
Lemma within_trans a b l1 l2 l3 : within a l1 l2 -> within b l2 l3 -> within (dadd a b) l1 l3.
Proof. unfold within, dadd; cbn. lia. Qed.
Lemma within_weaken a b l l' : dle a b -> within a l l' -> within b l l'.
Proof. unfold within, dle. lia. Qed.

Lemma cost_weaken {A} a b (m : M' A) : dle a b -> cost a m -> cost b m.
Proof.
  intros Hle Hc s. eapply wpp_conseq; [apply Hc| |]; cbn; unfold okq, oku; intros; intuition; eapply within_weaken; eauto.
Qed.

Lemma cost_ret' {A} d (a : A) : cost d (ret a).
Proof. intros s. apply wpp_ret. split; [apply within_refl'|auto]. Qed.
Lemma cost_ret {A} (a : A) : cost dz (ret a).
Proof. apply cost_ret'. Qed.

Lemma cost_bind {A B} a b (m : M' A) (f : A -> M' B) :
  cost a m -> (forall x, cost b (f x)) -> cost (dadd a b) (bind m f).
Proof.
  intros Hm Hf s. apply wpp_bind. eapply wpp_conseq; [apply Hm| |]; cbn.
  - intros x s1 [H1 F1]. eapply wpp_conseq; [apply Hf| |]; cbn; unfold okq, oku.
    + intros y s2 [H2 F2]. split; [eapply within_trans; eauto|auto].
    + intros p s2 [H2 F2]. split; [eapply within_trans; eauto|auto].
  - intros p s1 [H1 F1]. split; [|exact F1]. eapply within_weaken; [|exact H1]. unfold dle, dadd; cbn. lia.
Qed.

(* a step that leaves the log and the fuse alone *)
Lemma cost_pure {A} (m : M' A) :
  (forall s, match m s with Ok _ s' => s_log s' = s_log s /\ s_fuse s' = s_fuse s | Unwind p s' => s_log s' = s_log s /\ s_fuse s' = s_fuse s /\ p <> PUser | Fault _ => True end) ->
  forall d, cost d m.
Proof.
  intros H d s. specialize (H s). unfold wpp. destruct (m s) as [a s'|p s'|f]; [| |exact I].
  - destruct H as [Hl Hf]. split; [rewrite Hl; apply within_refl'|congruence].
  - destruct H as (Hl & Hf & Hp). split; [rewrite Hl; apply within_refl'|intros; split; congruence].
Qed.

Lemma cost_gets {A} (f : st -> A) : cost dz (gets f).
Proof. apply cost_pure. intros s. cbn. auto. Qed.
Lemma cost_get : cost dz (@get st).
Proof. apply cost_pure. intros s. cbn. auto. Qed.
Lemma cost_getm : cost dz getm.  Proof. apply cost_gets. Qed.
Lemma cost_getlo : cost dz getlo.  Proof. apply cost_gets. Qed.
Lemma cost_setm t : cost dz (setm t).
Proof. apply cost_pure. intros s. cbn. auto. Qed.
Lemma cost_setlo o : cost dz (setlo o).
Proof. apply cost_pure. intros s. cbn. auto. Qed.
Lemma cost_unwind {A} d p : p <> PUser -> cost d (@unwind st A p).
Proof. intros Hp. apply cost_pure. intros s. cbn. auto. Qed.
Lemma cost_fault {A} d f : cost d (@fault_ st A f).
Proof. intros s. exact I. Qed.
Lemma cost_take_bit : cost dz take_bit.
Proof. apply cost_pure. intros s. unfold take_bit, bind, get. cbn. destruct (s_on s =? 0); cbn; auto. Qed.
Lemma cost_take_tomb : cost dz take_tomb.
Proof. apply cost_pure. intros s. unfold take_tomb, bind, get. cbn. destruct (s_tomb s =? 0); cbn; auto. Qed.
Lemma cost_take_order m : cost dz (take_order m).
Proof. apply cost_pure. intros s. unfold take_order, bind, get. cbn. destruct (valid_order _ _); cbn; auto. Qed.
Lemma cost_take_order_grow m : cost dz (take_order_grow m).
Proof. apply cost_pure. intros s. unfold take_order_grow, bind, get. cbn. destruct (valid_order _ _); cbn; auto. Qed.

(* the counters *)
Lemma cost_tick (f : log -> log) d : (forall l, within d l (f l)) -> cost d (tick f).
Proof. intros H s. unfold tick, wpp, modify. cbn. split; [apply H|auto]. Qed.
Lemma cost_drop_key k : cost dz (drop_key k).
Proof. apply cost_tick. intros l. unfold within; cbn. lia. Qed.
Lemma cost_drop_val v : cost dz (drop_val v).
Proof. apply cost_tick. intros l. unfold within; cbn. lia. Qed.
Lemma cost_tick_move : cost (D 0 1 0 0) tick_move.
Proof. apply cost_tick. intros l. unfold within; cbn. lia. Qed.
Lemma cost_tick_alloc : cost (D 0 0 1 0) tick_alloc.
Proof. apply cost_tick. intros l. unfold within; cbn. lia. Qed.
Lemma cost_tick_free : cost (D 0 0 0 1) tick_free.
Proof. apply cost_tick. intros l. unfold within; cbn. lia. Qed.
Lemma cost_cb' d : cost d cb.
Proof.
  intros s. unfold cb, tick, wpp, bind, modify, get. cbn.
  destruct (s_fuse s) as [n|] eqn:E; cbn.
  - destruct (n =? 0); cbn; (split; [unfold within; cbn; lia|]); intros Hn; rewrite Hn in E; discriminate.
  - split; [unfold within; cbn; lia|]. cbn. auto.
Qed.
Lemma cost_cb : cost dz cb.
Proof. apply cost_cb'. Qed.
Lemma cost_tick_hash : cost (D 1 0 0 0) tick_hash.
Proof.
  intros s. unfold tick_hash, cb, tick, wpp, bind, modify, get. cbn.
  destruct (s_fuse s) as [n|] eqn:E; cbn.
  - destruct (n =? 0); cbn; (split; [unfold within; cbn; lia|]); intros Hn; rewrite Hn in E; discriminate.
  - split; [unfold within; cbn; lia|]. cbn. auto.
Qed.

Ltac dle_solve := unfold dle, dadd, dmul, dz; cbn; lia.

Lemma cost_bind0 {A B} b (m : M' A) (f : A -> M' B) : cost dz m -> (forall x, cost b (f x)) -> cost b (bind m f).
Proof. intros Hm Hf. eapply cost_weaken; [|apply (cost_bind dz b); eassumption]. dle_solve. Qed.

Lemma cost_drop_elem e : cost dz (drop_elem e).
Proof. apply cost_bind0; [apply cost_drop_key|intros _; apply cost_drop_val]. Qed.

Lemma cost_iterM0 {A} (f : A -> M' unit) l : (forall a, cost dz (f a)) -> cost dz (iterM f l).
Proof.
  intros Hf. induction l as [|a l IH]; cbn [iterM]; [apply cost_ret|].
  apply cost_bind0; [apply Hf|intros _; exact IH].
Qed.
Lemma cost_drop_elems l : cost dz (drop_elems l).
Proof. apply cost_iterM0. apply cost_drop_elem. Qed.

Lemma cost_iterM {A} d (f : A -> M' unit) l : (forall a, cost d (f a)) -> cost (dmul (N.of_nat (length l)) d) (iterM f l).
Proof.
  intros Hf. induction l as [|a l IH]; cbn [iterM length].
  - eapply cost_weaken; [|apply cost_ret]. dle_solve.
  - eapply cost_weaken; [|apply (cost_bind d (dmul (N.of_nat (length l)) d)); [apply Hf|intros _; exact IH]].
    unfold dle, dadd, dmul. cbn [dh dm da df]. rewrite Nat2N.inj_succ. repeat split; nia.
Qed.

Lemma cost_when d b (m : M' unit) : cost d m -> cost d (when b m).
Proof. intros H. destruct b; cbn; [exact H|]. eapply cost_weaken; [|apply cost_ret]. dle_solve. Qed.

Lemma cost_on_unwind {A} a (m : M' A) h : cost a m -> cost dz h -> cost a (on_unwind m h).
Proof.
  intros Hm Hh s. apply wpp_on_unwind. eapply wpp_conseq; [apply Hm| |]; cbn; [auto|].
  intros p s1 [H1 F1]. eapply wpp_conseq; [apply Hh| |]; cbn; unfold okq, oku.
  - intros x s2 [H2 F2]. split; [eapply within_weaken; [|eapply within_trans; eauto]; dle_solve|].
    intros Hn. destruct (F1 Hn) as [Hn1 Hp]. auto.
  - intros q s2 [H2 F2]. split; [eapply within_weaken; [|eapply within_trans; eauto]; dle_solve|].
    intros Hn. destruct (F1 Hn) as [Hn1 Hp]. destruct (F2 Hn1). auto.
Qed.

Lemma cost_hb_free t : cost (D 0 0 0 1) (hb_free t).
Proof. apply cost_when. apply cost_tick_free. Qed.

Section CostRaw.
Context (c : cfg).
Notation R := (cR c).

Lemma cost_hb_with_capacity fallible cap : cost (D 0 0 1 0) (hb_with_capacity c fallible cap).
Proof.
  unfold hb_with_capacity. destruct (cap =? 0); [apply cost_ret'|].
  destruct (cap_to_buckets cap) as [B|].
  - destruct (layout_ok _ _).
    + eapply cost_weaken; [|apply (cost_bind (D 0 0 1 0) dz); [apply cost_tick_alloc|intros _; apply cost_ret]]. dle_solve.
    + destruct fallible; [apply cost_ret'|apply cost_unwind; discriminate].
  - destruct fallible; [apply cost_ret'|apply cost_unwind; discriminate].
Qed.

Lemma cost_hb_put t e b : cost dz (hb_put t e b).
Proof.
  unfold hb_put. destruct b.
  - destruct (hb_tombs t =? 0); [apply cost_fault|apply cost_ret].
  - destruct (hgl t =? 0); [apply cost_fault|apply cost_ret].
Qed.

Lemma cost_hb_insert_no_grow t e : cost dz (hb_insert_no_grow t e).
Proof.
  unfold hb_insert_no_grow. destruct (hel t !! ek e); [apply cost_fault|].
  apply cost_bind0; [apply cost_take_bit|intros b; apply cost_hb_put].
Qed.

Lemma cost_hb_remove t k : cost dz (hb_remove t k).
Proof.
  unfold hb_remove. destruct (hel t !! k); [|apply cost_fault].
  apply cost_bind0; [apply cost_take_tomb|intros b; apply cost_ret].
Qed.

Lemma cost_free_old : cost (D 0 0 0 1) free_old.
Proof.
  unfold free_old. apply cost_bind0; [apply cost_getlo|]. intros [o|]; [|apply cost_ret'].
  apply cost_bind0; [apply cost_setlo|]. intros _. apply cost_bind0; [apply cost_drop_elems|]. intros _. apply cost_tick_free.
Qed.

Lemma cost_old_pop : cost dz old_pop.
Proof.
  unfold old_pop. apply cost_bind0; [apply cost_getlo|]. intros [o|]; [|apply cost_fault].
  destruct (oit o =? 0); [apply cost_ret|]. destruct (orem o); [apply cost_fault|].
  apply cost_bind0; [apply cost_setlo|intros _; apply cost_ret].
Qed.

Lemma cost_old_take k : cost dz (old_take c k).
Proof.
  unfold old_take. apply cost_bind0; [apply cost_getlo|]. intros [o|]; [|apply cost_fault].
  destruct (lookup_list k (orem o)); [|apply cost_fault].
  destruct (czst c); [apply cost_bind0; [apply cost_setlo|intros _; apply cost_ret]|].
  destruct (oit o =? 0); [apply cost_fault|]. apply cost_bind0; [apply cost_setlo|intros _; apply cost_ret].
Qed.

Lemma cost_main_insert_no_grow e : cost dz (main_insert_no_grow e).
Proof.
  unfold main_insert_no_grow. apply cost_bind0; [apply cost_getm|]. intros t.
  apply cost_bind0; [apply cost_hb_insert_no_grow|intros t'; apply cost_setm].
Qed.

(* carry: at most [fuel] moves, one hash each, and the release of the old table *)
Lemma cost_carry_loop fuel : cost (D (N.of_nat fuel) (N.of_nat fuel) 0 1) (carry_loop fuel).
Proof.
  induction fuel as [|fuel IH]; cbn [carry_loop].
  - apply cost_bind0; [apply cost_getlo|]. intros [o|]; [|apply cost_ret'].
    eapply cost_weaken; [|apply cost_when; apply cost_free_old]. dle_solve.
  - apply cost_bind0; [apply cost_old_pop|]. intros [e|]; [|eapply cost_weaken; [|apply cost_free_old]; dle_solve].
    eapply cost_weaken; [|apply (cost_bind (D 0 1 0 0)); [apply cost_tick_move|intros _;
      apply (cost_bind (D 1 0 0 0)); [apply cost_on_unwind; [apply cost_tick_hash|apply cost_drop_elem]|intros _;
      apply (cost_bind dz); [apply cost_main_insert_no_grow|intros _; exact IH]]]].
    dle_solve.
Qed.

Lemma cost_rt_carry : cost (D R R 0 1) (rt_carry c).
Proof.
  unfold rt_carry. apply cost_bind0; [apply cost_getlo|]. intros [o|]; [|apply cost_ret'].
  pose proof (cost_carry_loop (N.to_nat R)) as H. rewrite N2Nat.id in H. exact H.
Qed.

Lemma cost_debug_check b n : cost dz (debug_check b n).
Proof. unfold debug_check. destruct b; [apply cost_ret|apply cost_unwind; discriminate]. Qed.
Lemma cost_assert b n : cost dz (assert_ b n).
Proof. unfold assert_. destruct b; [apply cost_ret|apply cost_unwind; discriminate]. Qed.

(* growth: one allocation, no hashing; the emptied-or-unallocated previous table may be freed *)
Lemma cost_rt_try_grow fallible extra : cost (D 0 0 1 1) (rt_try_grow c fallible extra).
Proof.
  unfold rt_try_grow. apply cost_bind0; [apply cost_getlo|]. intros o.
  apply cost_bind0; [apply cost_debug_check|]. intros _. apply cost_bind0; [apply cost_getm|]. intros t.
  eapply cost_weaken; [|apply (cost_bind (D 0 0 1 0) (D 0 0 0 1)); [apply cost_hb_with_capacity|]]; [dle_solve|].
  intros [nt|]; [|apply cost_ret'].
  eapply cost_weaken; [|apply (cost_bind (D 0 0 0 1) dz); [|intros _; apply cost_ret]]; [dle_solve|].
  destruct (hlen t =? 0).
  - apply cost_bind0; [apply cost_setm|intros _; apply cost_hb_free].
  - apply cost_bind0; [apply cost_take_order_grow|]. intros l.
    eapply cost_weaken; [|apply (cost_bind (D 0 0 0 1) dz); [apply cost_free_old|]]; [dle_solve|].
    intros _. apply cost_bind0; [apply cost_setm|intros _; apply cost_setlo].
Qed.

Lemma cost_rt_grow extra : cost (D 0 0 1 1) (rt_grow c extra).
Proof.
  unfold rt_grow. eapply cost_weaken; [|apply (cost_bind (D 0 0 1 1) dz); [apply cost_rt_try_grow|]]; [dle_solve|].
  intros [|]; [apply cost_ret|apply cost_fault].
Qed.

Lemma cost_rt_insert_no_grow e : cost (D R R 0 1) (rt_insert_no_grow c e).
Proof.
  unfold rt_insert_no_grow. apply cost_bind0; [apply cost_main_insert_no_grow|]. intros _.
  apply cost_bind0; [apply cost_getlo|]. intros o. apply cost_when. apply cost_rt_carry.
Qed.

(* raw insert: at most R moves with one hash each, at most one allocation *)
Lemma cost_rt_insert e : cost (D R R 1 2) (rt_insert c e).
Proof.
  unfold rt_insert. apply cost_bind0; [apply cost_getm|]. intros t. destruct (hgl t =? 0).
  - apply cost_bind0; [apply cost_getlo|]. intros o.
    eapply cost_weaken; [|apply (cost_bind (D 0 0 1 1) (D R R 0 1))]; [dle_solve| |].
    + apply cost_on_unwind; [|apply cost_drop_elem].
      apply cost_bind0; [apply cost_assert|intros _; apply cost_rt_grow].
    + intros _. apply cost_bind0; [apply cost_getm|]. intros t'. destruct (hgl t' =? 0); [apply cost_fault|apply cost_rt_insert_no_grow].
  - eapply cost_weaken; [|apply cost_rt_insert_no_grow]. dle_solve.
Qed.

Lemma cost_rt_find k : cost dz (rt_find k).
Proof. apply cost_gets. Qed.

Lemma cost_rt_remove im k : cost (D 0 0 0 1) (rt_remove c im k).
Proof.
  unfold rt_remove. destruct im.
  - eapply cost_weaken; [|apply cost_bind0; [apply cost_getm|intros t; apply cost_bind0; [apply cost_hb_remove|intros x; apply cost_bind0; [apply cost_setm|intros _; apply cost_ret]]]]. dle_solve.
  - apply cost_bind0; [apply cost_getlo|]. intros [o|]; [|apply cost_unwind; discriminate].
    apply cost_bind0; [apply cost_old_take|]. intros e. apply cost_bind0; [apply cost_getlo|]. intros o'.
    eapply cost_weaken; [|apply (cost_bind (D 0 0 0 1) dz); [|intros _; apply cost_ret]]; [dle_solve|].
    destruct o' as [o'|]; [apply cost_when; apply cost_free_old|apply cost_ret'].
Qed.

(* ---------------------------------------------------------------- the HashMap front-end *)

Lemma cost_set_value im k v : cost dz (set_value im k v).
Proof.
  unfold set_value. destruct im.
  - apply cost_bind0; [apply cost_getm|]. intros t. destruct (hel t !! k); [apply cost_setm|apply cost_fault].
  - apply cost_bind0; [apply cost_getlo|]. intros [o|]; [|apply cost_fault].
    destruct (lookup_list k (orem o)); [apply cost_setlo|apply cost_fault].
Qed.

(* C02: a key-adding insert: the key's own hash + at most R moves, each hashed once; <= 1 allocation *)
Lemma cost_map_insert k kid v : cost (D (1 + R) R 1 2) (map_insert c k kid v).
Proof.
  unfold map_insert.
  eapply cost_weaken; [|apply (cost_bind (D 1 0 0 0) (D R R 1 2))]; [dle_solve| |].
  - apply cost_on_unwind; [apply cost_tick_hash|]. apply cost_bind0; [apply cost_drop_key|intros _; apply cost_drop_val].
  - intros _. apply cost_bind0; [apply cost_rt_find|]. intros [[im e]|].
    + apply cost_bind0; [apply cost_set_value|]. intros _.
      eapply cost_weaken; [|apply (cost_bind (D R R 0 1) dz)]; [dle_solve| |].
      * destruct im; [apply cost_ret'|].
        apply cost_bind0; [apply cost_getlo|]. intros o. apply cost_bind0; [apply cost_debug_check|]. intros _.
        apply cost_on_unwind; [apply cost_rt_carry|]. apply cost_bind0; [apply cost_drop_val|intros _; apply cost_drop_key].
      * intros _. apply cost_bind0; [apply cost_drop_key|intros _; apply cost_ret].
    + eapply cost_weaken; [|apply (cost_bind (D R R 1 2) dz); [apply cost_rt_insert|intros _; apply cost_ret]]. dle_solve.
Qed.

(* C02: lookups and in-place updates hash only the queried key, move and allocate nothing *)
Lemma cost_map_get g k w : cost (D 1 0 0 0) (map_get g k w).
Proof.
  unfold map_get. eapply cost_weaken; [|apply (cost_bind (D 1 0 0 0) dz); [apply cost_tick_hash|]]; [dle_solve|].
  intros _. apply cost_bind0; [apply cost_rt_find|]. intros x.
  destruct g; try apply cost_ret'; destruct x as [[im e]|]; try apply cost_ret'; try (apply cost_unwind; discriminate);
    (apply cost_bind0; [apply cost_set_value|intros _; apply cost_ret']).
Qed.

(* C02: removals hash only the queried key, move and allocate nothing (they may release the old table) *)
Lemma cost_map_remove_entry k : cost (D 1 0 0 1) (map_remove_entry c k).
Proof.
  unfold map_remove_entry. eapply cost_weaken; [|apply (cost_bind (D 1 0 0 0) (D 0 0 0 1)); [apply cost_tick_hash|]]; [dle_solve|].
  intros _. apply cost_bind0; [apply cost_rt_find|]. intros [[im e]|]; [|apply cost_ret'].
  eapply cost_weaken; [|apply (cost_bind (D 0 0 0 1) dz); [apply cost_rt_remove|intros x; apply cost_ret]]. dle_solve.
Qed.


(* ---------------------------------------------------------------- without a cost bound: the
   operations whose work is proportional to the map (C02's exceptions) still arm no fuse *)
Definition fq (s s' : st) : Prop := s_fuse s = None -> s_fuse s' = None.
Definition fu (s : st) (p : panic) (s' : st) : Prop := s_fuse s = None -> s_fuse s' = None /\ p <> PUser.
Definition nf {A} (m : M' A) : Prop := forall s, wpp m (fun _ s' => fq s s') (fu s) s.

Lemma nf_of_cost {A} d (m : M' A) : cost d m -> nf m.
Proof. intros H s. eapply wpp_conseq; [apply H| |]; cbn; unfold okq, oku, fq, fu; intuition. Qed.
Lemma nf_ret {A} (a : A) : nf (ret a).
Proof. apply (nf_of_cost dz), cost_ret. Qed.
Lemma nf_bind {A B} (m : M' A) (f : A -> M' B) : nf m -> (forall x, nf (f x)) -> nf (bind m f).
Proof.
  intros Hm Hf s. apply wpp_bind. eapply wpp_conseq; [apply Hm| |]; cbn; unfold fq, fu.
  - intros x s1 F1. eapply wpp_conseq; [apply Hf| |]; cbn; unfold fq, fu; intuition.
  - auto.
Qed.
Lemma nf_iterM {A} (f : A -> M' unit) l : (forall a, nf (f a)) -> nf (iterM f l).
Proof.
  intros Hf. induction l as [|a l IH]; cbn [iterM]; [apply nf_ret|]. apply nf_bind; [apply Hf|intros _; exact IH].
Qed.
Lemma nf_when b (m : M' unit) : nf m -> nf (when b m).
Proof. destruct b; cbn; [auto|intros _; apply nf_ret]. Qed.
Lemma nf_on_unwind {A} (m : M' A) h : nf m -> nf h -> nf (on_unwind m h).
Proof.
  intros Hm Hh s. apply wpp_on_unwind. eapply wpp_conseq; [apply Hm| |]; cbn; [auto|].
  intros p s1 F1. eapply wpp_conseq; [apply Hh| |]; cbn; unfold fq, fu in *.
  - intros x s2 F2 Hn. destruct (F1 Hn). auto.
  - intros q s2 F2 Hn. destruct (F1 Hn) as [Hn1 Hp]. destruct (F2 Hn1). auto.
Qed.
Lemma nf_fault {A} f : nf (@fault_ st A f).
Proof. intros s. exact I. Qed.

Ltac nf0 l := apply (nf_of_cost dz), l.

Lemma nf_rehash_all l : nf (rehash_all l).
Proof. apply nf_iterM. intros _. apply (nf_of_cost _ _ cost_tick_hash). Qed.

Lemma nf_hb_reserve_rehash1 t : nf (hb_reserve_rehash1 c t).
Proof.
  unfold hb_reserve_rehash1. destruct (_ <=? _).
  - apply nf_bind; [apply nf_rehash_all|intros _; apply nf_ret].
  - apply nf_bind; [apply (nf_of_cost _ _ (cost_hb_with_capacity _ _))|]. intros [nt|]; [|apply nf_fault].
    apply nf_bind; [apply nf_on_unwind; [apply nf_rehash_all|apply (nf_of_cost _ _ (cost_hb_free _))]|]. intros _.
    apply nf_bind; [apply (nf_of_cost _ _ (cost_hb_free _))|intros _; apply nf_ret].
Qed.

Lemma nf_hb_insert t e : nf (hb_insert c t e).
Proof.
  unfold hb_insert. destruct (hel t !! ek e); [apply nf_fault|].
  apply nf_bind; [nf0 cost_take_bit|]. intros b. destruct (negb b && _).
  - apply nf_bind; [apply nf_on_unwind; [apply nf_hb_reserve_rehash1|nf0 cost_drop_elem]|]. intros t'.
    nf0 cost_hb_put.
  - nf0 cost_hb_put.
Qed.

Lemma nf_carry_all_loop fuel : nf (carry_all_loop c fuel).
Proof.
  induction fuel as [|fuel IH]; cbn [carry_all_loop]; [apply nf_fault|].
  apply nf_bind; [nf0 cost_old_pop|]. intros [e|]; [|apply (nf_of_cost _ _ cost_free_old)].
  apply nf_bind; [apply (nf_of_cost _ _ cost_tick_move)|]. intros _.
  apply nf_bind; [apply nf_on_unwind; [apply (nf_of_cost _ _ cost_tick_hash)|nf0 cost_drop_elem]|]. intros _.
  apply nf_bind; [|intros _; exact IH].
  unfold main_insert. apply nf_bind; [nf0 cost_getm|]. intros t. apply nf_bind; [apply nf_hb_insert|intros t'; nf0 cost_setm].
Qed.

Lemma nf_rt_carry_all : nf (rt_carry_all c).
Proof.
  unfold rt_carry_all. apply nf_bind; [nf0 cost_getlo|]. intros [o|]; [apply nf_carry_all_loop|apply nf_ret].
Qed.

Lemma nf_rt_reserve fallible n : nf (rt_reserve c fallible n).
Proof.
  unfold rt_reserve. apply nf_bind; [nf0 cost_getlo|]. intros o. apply nf_bind; [nf0 cost_getm|]. intros t.
  destruct (_ <? _); [apply nf_ret|].
  apply nf_bind; [apply nf_when, nf_rt_carry_all|]. intros _.
  destruct fallible; [apply (nf_of_cost _ _ (cost_rt_try_grow _ _))|].
  apply nf_bind; [apply (nf_of_cost _ _ (cost_rt_grow _))|intros _; apply nf_ret].
Qed.

Lemma nf_hb_clear t : nf (hb_clear t).
Proof.
  unfold hb_clear. destruct (_ =? _); [apply nf_ret|]. apply nf_bind; [nf0 cost_drop_elems|intros _; apply nf_ret].
Qed.

Lemma nf_rt_clear : nf rt_clear.
Proof.
  unfold rt_clear. apply nf_bind; [apply (nf_of_cost _ _ cost_free_old)|]. intros _.
  apply nf_bind; [nf0 cost_getm|]. intros t. apply nf_bind; [apply nf_hb_clear|intros t'; nf0 cost_setm].
Qed.

Lemma nf_hb_shrink_to t m : nf (hb_shrink_to c t m).
Proof.
  unfold hb_shrink_to. destruct (_ =? 0).
  - apply nf_bind; [apply (nf_of_cost _ _ (cost_hb_free _))|intros _; apply nf_ret].
  - destruct (cap_to_buckets _) as [mb|]; [|apply nf_ret]. destruct (mb <? hB t); [|apply nf_ret].
    apply nf_bind; [apply (nf_of_cost _ _ (cost_hb_with_capacity _ _))|]. intros [nt|]; [|apply nf_fault].
    apply nf_bind; [apply nf_on_unwind; [apply nf_rehash_all|apply (nf_of_cost _ _ (cost_hb_free _))]|]. intros _.
    apply nf_bind; [apply (nf_of_cost _ _ (cost_hb_free _))|intros _; apply nf_ret].
Qed.

Lemma nf_rt_shrink_to m : nf (rt_shrink_to c m).
Proof.
  unfold rt_shrink_to. apply nf_bind; [nf0 cost_getlo|]. intros o.
  apply nf_bind; [apply nf_when, (nf_of_cost _ _ cost_free_old)|]. intros _.
  apply nf_bind; [nf0 cost_getm|]. intros t. apply nf_bind; [nf0 cost_getlo|]. intros o'.
  apply nf_bind; [apply nf_hb_shrink_to|intros t'; nf0 cost_setm].
Qed.

Lemma nf_map_drop : nf map_drop.
Proof.
  unfold map_drop. apply nf_bind; [nf0 cost_getm|]. intros t. apply nf_bind; [nf0 cost_getlo|]. intros o.
  apply nf_bind; [nf0 cost_drop_elems|]. intros _. apply nf_bind; [apply (nf_of_cost _ _ (cost_hb_free _))|]. intros _.
  apply nf_bind.
  - destruct o as [o|]; [|apply nf_ret]. apply nf_bind; [nf0 cost_drop_elems|intros _; apply (nf_of_cost _ _ cost_tick_free)].
  - intros _. apply nf_bind; [nf0 cost_setlo|intros _; nf0 cost_setm].
Qed.


(* iteration *)
Lemma nf_rt_iter : nf rt_iter.
Proof.
  unfold rt_iter. apply nf_bind; [nf0 cost_getm|]. intros t. apply nf_bind; [nf0 cost_take_order|]. intros l.
  apply nf_bind; [nf0 cost_getlo|]. intros [o|]; [|apply nf_ret]. destruct (_ <? _); [apply nf_fault|apply nf_ret].
Qed.

Lemma nf_set_value im k v : nf (set_value im k v).
Proof. nf0 cost_set_value. Qed.

Lemma nf_map_iter delta : nf (map_iter delta).
Proof.
  unfold map_iter. apply nf_bind; [apply nf_rt_iter|]. intros l.
  apply nf_bind; [apply nf_iterM; intros x; apply nf_when, nf_set_value|intros _; apply nf_ret].
Qed.

Lemma nf_old_take k : nf (old_take c k).
Proof. nf0 cost_old_take. Qed.

Lemma nf_rt_erase im k : nf (rt_erase c im k).
Proof.
  unfold rt_erase. destruct im.
  - apply nf_bind; [nf0 cost_getm|]. intros t. apply nf_bind; [nf0 cost_hb_remove|]. intros x.
    apply nf_bind; [nf0 cost_setm|intros _; nf0 cost_drop_elem].
  - apply nf_bind; [nf0 cost_getlo|]. intros [o|]; [|apply (nf_of_cost dz), cost_unwind; discriminate].
    apply nf_bind; [apply nf_old_take|intros e; nf0 cost_drop_elem].
Qed.

Lemma nf_map_retain keep delta : nf (map_retain c keep delta).
Proof.
  unfold map_retain. apply nf_bind; [apply nf_rt_iter|]. intros l. apply nf_bind; [|intros _; apply nf_ret].
  apply nf_iterM. intros x. apply nf_bind; [nf0 cost_cb|]. intros _.
  apply nf_bind; [apply nf_when, nf_set_value|]. intros _. apply nf_when, nf_rt_erase.
Qed.

Lemma nf_rt_remove im k : nf (rt_remove c im k).
Proof. apply (nf_of_cost _ _ (cost_rt_remove im k)). Qed.

Lemma nf_df_run take delta : forall l fuel acc, nf (df_run c take delta l fuel acc).
Proof.
  induction l as [|x l IH]; intros fuel acc; cbn [df_run]; [apply nf_ret|].
  destruct fuel as [|f]; [apply nf_ret|].
  apply nf_bind; [nf0 cost_cb|]. intros _. apply nf_bind; [apply nf_when, nf_set_value|]. intros _.
  destruct (inb _ _); [|apply IH]. apply nf_bind; [apply nf_rt_remove|intros e'; apply IH].
Qed.

Lemma nf_df_drop take delta : forall l, nf (df_drop c take delta l).
Proof.
  induction l as [|x l IH]; cbn [df_drop]; [apply nf_ret|].
  apply nf_bind; [nf0 cost_cb|]. intros _. apply nf_bind; [apply nf_when, nf_set_value|]. intros _.
  apply nf_bind; [|intros _; exact IH].
  destruct (inb _ _); [|apply nf_ret]. apply nf_bind; [apply nf_rt_remove|intros e'; nf0 cost_drop_elem].
Qed.

Lemma nf_df_run_u take delta : forall l fuel acc, nf (df_run_u c take delta l fuel acc).
Proof.
  induction l as [|x l IH]; intros fuel acc; cbn [df_run_u]; [apply nf_ret|].
  destruct fuel as [|f]; [apply nf_ret|].
  apply nf_bind; [apply nf_on_unwind; [nf0 cost_cb|apply nf_df_drop]|].
  intros _. apply nf_bind; [apply nf_when, nf_set_value|]. intros _.
  destruct (inb _ _); [|apply IH]. apply nf_bind; [apply nf_rt_remove|intros e'; apply IH].
Qed.

Lemma nf_map_drain_filter take delta j forget : nf (map_drain_filter c take delta j forget).
Proof.
  unfold map_drain_filter. apply nf_bind; [apply nf_rt_iter|]. intros l.
  apply nf_bind; [apply nf_df_run_u|]. intros r. apply nf_bind; [|intros _; apply nf_ret].
  destruct forget; [apply nf_ret|apply nf_df_drop].
Qed.

Lemma nf_cursor_view o : nf (cursor_view o).
Proof. unfold cursor_view. destruct o as [o|]; [|apply nf_ret]. destruct (_ <? _); [apply nf_fault|apply nf_ret]. Qed.

Lemma nf_drain_order : nf drain_order.
Proof.
  unfold drain_order. apply nf_bind; [nf0 cost_getm|]. intros t. apply nf_bind; [nf0 cost_take_order|]. intros lm.
  apply nf_bind; [nf0 cost_getlo|]. intros o. apply nf_bind; [apply nf_cursor_view|]. intros lold.
  apply nf_bind; [nf0 cost_debug_check|intros _; apply nf_ret].
Qed.

Lemma nf_map_drain j forget : nf (map_drain j forget).
Proof.
  unfold map_drain. apply nf_bind; [nf0 cost_getm|]. intros t. apply nf_bind; [nf0 cost_getlo|]. intros o.
  apply nf_bind; [apply nf_drain_order|]. intros l. apply nf_bind; [nf0 cost_setlo|]. intros _.
  apply nf_bind; [|intros _; apply nf_ret]. destruct forget.
  - apply nf_bind; [apply nf_when, (nf_of_cost _ _ cost_tick_free)|intros _; nf0 cost_setm].
  - apply nf_bind; [nf0 cost_drop_elems|]. intros _.
    apply nf_bind; [apply nf_when, (nf_of_cost _ _ cost_tick_free)|intros _; nf0 cost_setm].
Qed.

Lemma nf_map_into_iter j : nf (map_into_iter j).
Proof.
  unfold map_into_iter. apply nf_bind; [nf0 cost_getm|]. intros t. apply nf_bind; [nf0 cost_getlo|]. intros o.
  apply nf_bind; [apply nf_drain_order|]. intros l. apply nf_bind; [nf0 cost_drop_elems|]. intros _.
  apply nf_bind; [apply nf_when, (nf_of_cost _ _ cost_tick_free)|]. intros _.
  apply nf_bind; [apply (nf_of_cost _ _ (cost_hb_free _))|]. intros _.
  apply nf_bind; [nf0 cost_setlo|]. intros _. apply nf_bind; [nf0 cost_setm|intros _; apply nf_ret].
Qed.


(* clone, clone_from, == *)
Lemma nf_clone_elems l : forall acc, nf (clone_elems l acc).
Proof.
  induction l as [|e l IH]; intros acc; cbn [clone_elems]; [apply nf_ret|].
  apply nf_bind; [apply nf_on_unwind; [nf0 cost_cb|nf0 cost_drop_elems]|]. intros _.
  apply nf_bind; [apply nf_on_unwind; [nf0 cost_cb|]|intros _; apply IH].
  apply nf_bind; [nf0 cost_drop_key|intros _; nf0 cost_drop_elems].
Qed.

Lemma cost_take_order_or m : cost dz (take_order_or m).
Proof. apply cost_pure. intros s. unfold take_order_or, bind, get. cbn. auto. Qed.

Lemma nf_hb_clone t : nf (hb_clone t).
Proof.
  unfold hb_clone. destruct (_ =? _); [apply nf_ret|].
  apply nf_bind; [apply (nf_of_cost _ _ cost_tick_alloc)|]. intros _.
  apply nf_bind; [nf0 cost_take_order_or|]. intros l.
  apply nf_bind; [apply nf_on_unwind; [apply nf_clone_elems|apply (nf_of_cost _ _ cost_tick_free)]|intros _; apply nf_ret].
Qed.

Lemma nf_and_carry : forall l t, nf (and_carry c t l).
Proof.
  induction l as [|e l IH]; intros t; cbn [and_carry]; [apply nf_ret|].
  apply nf_bind; [|intros t'; apply IH]. apply nf_on_unwind.
  - apply nf_bind; [apply (nf_of_cost _ _ cost_tick_hash)|]. intros _. apply nf_bind; [nf0 cost_cb|]. intros _.
    apply nf_bind; [apply nf_on_unwind; [nf0 cost_cb|nf0 cost_drop_key]|]. intros _. apply nf_hb_insert.
  - apply nf_bind; [nf0 cost_drop_elems|intros _; apply (nf_of_cost _ _ (cost_hb_free _))].
Qed.

Lemma nf_and_carry_here : forall l, nf (and_carry_here c l).
Proof.
  induction l as [|e l IH]; cbn [and_carry_here]; [apply nf_ret|].
  apply nf_bind; [nf0 cost_getm|]. intros t.
  apply nf_bind; [apply (nf_of_cost _ _ cost_tick_hash)|]. intros _. apply nf_bind; [nf0 cost_cb|]. intros _.
  apply nf_bind; [apply nf_on_unwind; [nf0 cost_cb|nf0 cost_drop_key]|]. intros _.
  apply nf_bind; [apply nf_hb_insert|]. intros t'. apply nf_bind; [nf0 cost_setm|intros _; exact IH].
Qed.

Lemma nf_rt_clone : nf (rt_clone c).
Proof.
  unfold rt_clone. apply nf_bind; [nf0 cost_getm|]. intros t. apply nf_bind; [nf0 cost_getlo|]. intros o.
  apply nf_bind; [apply nf_hb_clone|]. intros nt. apply nf_bind; [apply nf_cursor_view|]. intros l.
  apply nf_bind; [apply nf_and_carry|intros nt'; apply nf_ret].
Qed.

Lemma nf_hb_clone_from t sm : nf (hb_clone_from_with_hasher t sm).
Proof.
  unfold hb_clone_from_with_hasher. destruct (_ && _).
  - apply nf_bind; [apply nf_hb_clear|]. intros t1. apply nf_bind; [nf0 cost_setm|]. intros _.
    apply nf_bind; [nf0 cost_take_order_or|]. intros els. apply nf_bind.
    + apply nf_iterM. intros e. apply nf_bind; [nf0 cost_cb|]. intros _.
      apply nf_bind; [apply nf_on_unwind; [nf0 cost_cb|nf0 cost_drop_key]|]. intros _.
      apply nf_on_unwind; [apply (nf_of_cost _ _ cost_tick_hash)|nf0 cost_drop_elem].
    + intros _. destruct (_ <? _); [apply (nf_of_cost dz), cost_unwind; discriminate|apply nf_ret].
  - destruct (_ =? 1).
    + apply nf_bind; [nf0 cost_drop_elems|]. intros _. apply nf_bind; [apply (nf_of_cost _ _ (cost_hb_free _))|intros _; apply nf_ret].
    + apply nf_bind; [nf0 cost_drop_elems|]. intros _.
      apply nf_bind; [apply nf_when; apply nf_bind; [apply (nf_of_cost _ _ cost_tick_alloc)|intros _; apply (nf_of_cost _ _ (cost_hb_free _))]|]. intros _.
      apply nf_bind; [nf0 cost_take_order_or|]. intros els.
      apply nf_bind; [apply nf_on_unwind; [apply nf_clone_elems|nf0 cost_setm]|intros _; apply nf_ret].
Qed.

Lemma nf_rt_clone_from src : nf (rt_clone_from c src).
Proof.
  unfold rt_clone_from. apply nf_bind; [apply (nf_of_cost _ _ cost_free_old)|]. intros _.
  apply nf_bind; [nf0 cost_getm|]. intros t. apply nf_bind; [nf0 cost_setm|]. intros _.
  apply nf_bind; [apply nf_hb_clone_from|]. intros t'. apply nf_bind; [nf0 cost_setm|]. intros _.
  apply nf_bind; [apply nf_cursor_view|]. intros l. apply nf_and_carry_here.
Qed.

Lemma nf_map_equal other : nf (map_equal other).
Proof.
  unfold map_equal. apply nf_bind; [nf0 cost_get|]. intros s0. destruct (negb _); [apply nf_ret|].
  apply nf_bind; [apply nf_rt_iter|]. intros l.
  induction l as [|x l IH]; [apply nf_ret|].
  apply nf_bind; [apply (nf_of_cost _ _ cost_tick_hash)|]. intros _.
  destruct (rt_find_pure other _) as [[im e']|]; [|apply nf_ret]. destruct (_ =? _); [exact IH|apply nf_ret].
Qed.

Lemma nf_insert_all (items : list (N * N * N)) :
  nf (iterM (fun x => let '(k, kid, v) := x in
                      o <- map_insert c k kid v ;;
                      match o with Some v' => drop_val v' | None => ret tt end) items).
Proof.
  apply nf_iterM. intros [[k kid] v]. apply nf_bind; [apply (nf_of_cost _ _ (cost_map_insert k kid v))|].
  intros [v'|]; [nf0 cost_drop_val|apply nf_ret].
Qed.

Lemma nf_map_extend items hint : nf (map_extend c items hint).
Proof.
  unfold map_extend. apply nf_bind; [nf0 cost_get|]. intros s0.
  apply nf_bind; [|intros _; apply nf_insert_all].
  apply nf_on_unwind; [apply nf_rt_reserve|]. apply nf_iterM. intros [[k kid] v].
  apply nf_bind; [nf0 cost_drop_key|intros _; nf0 cost_drop_val].
Qed.

Lemma nf_map_par_extend chunks : nf (map_par_extend c chunks).
Proof.
  unfold map_par_extend. apply nf_bind; [nf0 cost_get|]. intros s0.
  apply nf_bind; [|intros _; apply nf_iterM; intros ch; apply nf_map_extend].
  apply nf_on_unwind; [apply nf_rt_reserve|]. apply nf_iterM. intros [[k kid] v].
  apply nf_bind; [nf0 cost_drop_key|intros _; nf0 cost_drop_val].
Qed.

Lemma nf_map_serialize : nf map_serialize.
Proof. unfold map_serialize. apply nf_bind; [nf0 cost_get|]. intros s0. apply nf_bind; [apply nf_rt_iter|intros l; apply nf_ret]. Qed.

Lemma nf_map_deser_in_place items hint : nf (map_deser_in_place c items hint).
Proof.
  unfold map_deser_in_place. apply nf_bind; [apply nf_rt_clear|]. intros _.
  apply nf_bind; [apply nf_rt_reserve|intros _; apply nf_insert_all].
Qed.

Lemma nf_map_par_iter delta splits : nf (map_par_iter delta splits).
Proof.
  unfold map_par_iter. apply nf_bind; [apply nf_rt_iter|]. intros l.
  apply nf_bind; [apply nf_iterM; intros x; apply nf_when, nf_set_value|intros _; apply nf_ret].
Qed.

End CostRaw.
