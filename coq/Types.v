(* Types.v — model state and the primitive actions of the monad. *)
From stdpp Require Import gmap list.
From Coq Require Import NArith Lia.
From G Require Import Arith Monad.
Local Open Scope N_scope.

(* A stored (K, V) pair.  ek: the Eq-class of the key; ekid: identity of the key object (so that
   "the key is not updated" is expressible); ev: the value (payload and identity in one). *)
Record elem := Elem { ek : N; ekid : N; ev : N }.
Global Instance elem_eq_dec : EqDecision elem.
Proof. solve_decision. Defined.

(* hashbrown::raw::RawTable, by contract: buckets, growth_left, contents (keyed by Eq-class). *)
Record hb := HB { hB : N; hgl : N; hn : N; hel : gmap N elem }.
(* hn is hashbrown's `items` counter; the invariant says it is the number of elements *)
(* griddle OldTable: the old hashbrown table and the cached RawIter over it.
   orem = the elements still in the old table, in the order the cached iterator will yield them;
   oit = the cached iterator's `items` counter. *)
Record old := Old { oB : N; orem : list elem; oit : N; ocnt : N }.
(* ocnt is the old table's `items` counter (lo.table.len()) *)
(* griddle RawTable *)
Record rt := RT { main : hb; lo : option old }.

(* what the harness can count from outside *)
Record log := Log {
  l_hash : N;          (* hash computations through the map's BuildHasher *)
  l_move : N;          (* elements moved from the old table to the main table *)
  l_alloc : N;         (* table allocations *)
  l_free : N;          (* table deallocations *)
  l_cb : N;            (* callbacks that could have panicked (fuse positions) *)
  l_dk : list N;       (* dropped key objects (ekid) *)
  l_dv : list N        (* dropped values *)
}.
Definition log0 : log := Log 0 0 0 0 0 [] [].

(* build configuration *)
Record cfg := Cfg {
  cR : N;              (* griddle's R: read from the implementation through the hook *)
  cdebug : bool;       (* debug_assertions + overflow-checks *)
  czst : bool;         (* size_of::<(K, V)>() == 0 *)
  cesz : N             (* size_of::<(K, V)>() *)
}.

(* one map plus the run-global log, fuse and per-operation oracle *)
Record st := St {
  s_rt : rt;
  s_log : log;
  s_fuse : option N;   (* Some n: the (n+1)-th callback from now panics *)
  s_on : N;            (* oracle: how many of this call's main-table insertions reuse a tombstone *)
  s_tomb : N;          (* oracle: how many of this call's main-table removals leave one *)
  s_perm : list N;     (* oracle: iteration order of the main table (keys) before the call *)
  s_qperm : list N     (* oracle: what the cached iterator over a newly installed old table still
                          holds after the call, in its order (keys) *)
}.

Definition hlen (t : hb) : N := hn t.
Definition olen (o : old) : N := ocnt o.
Definition hb_new : hb := HB 1 0 0 ∅.
Definition hb_empty (B : N) : hb := HB B (bcap B) 0 ∅.
(* element added / removed / overwritten in place / table rebuilt with other buckets *)
Definition hb_ins (t : hb) (e : elem) (g : N) : hb := HB (hB t) g (hn t + 1) (<[ek e := e]> (hel t)).
Definition hb_del (t : hb) (k : N) (g : N) : hb := HB (hB t) g (hn t - 1) (delete k (hel t)).
Definition hb_upd (t : hb) (k : N) (e : elem) : hb := HB (hB t) (hgl t) (hn t) (<[k := e]> (hel t)).
Definition hb_rebuilt (t : hb) (B g : N) : hb := HB B g (hn t) (hel t).
Definition hb_tombs (t : hb) : N := bcap (hB t) - hlen t - hgl t.
Definition rt_new : rt := RT hb_new None.

Definition rt_len (r : rt) : N := hlen (main r) + match lo r with Some o => olen o | None => 0 end.
Definition rt_capacity (r : rt) : N := hlen (main r) + hgl (main r).

(* contents as one finite map: main table first, then what is left in the old table *)
Definition list_to_emap (l : list elem) : gmap N elem := list_to_map (map (fun e => (ek e, e)) l).
Definition rt_abs (r : rt) : gmap N elem :=
  hel (main r) ∪ match lo r with Some o => list_to_emap (orem o) | None => ∅ end.

(* ------------------------------------------------------------ state updates *)
Definition set_rt (r : rt) (s : st) : st := St r (s_log s) (s_fuse s) (s_on s) (s_tomb s) (s_perm s) (s_qperm s).
Definition set_log (l : log) (s : st) : st := St (s_rt s) l (s_fuse s) (s_on s) (s_tomb s) (s_perm s) (s_qperm s).
Definition set_fuse (f : option N) (s : st) : st := St (s_rt s) (s_log s) f (s_on s) (s_tomb s) (s_perm s) (s_qperm s).
Definition set_on (n : N) (s : st) : st := St (s_rt s) (s_log s) (s_fuse s) n (s_tomb s) (s_perm s) (s_qperm s).
Definition set_tomb (n : N) (s : st) : st := St (s_rt s) (s_log s) (s_fuse s) (s_on s) n (s_perm s) (s_qperm s).

Notation M' := (M st).

Definition getm : M' hb := gets (fun s => main (s_rt s)).
Definition getlo : M' (option old) := gets (fun s => lo (s_rt s)).
Definition setm (t : hb) : M' unit := modify (fun s => set_rt (RT t (lo (s_rt s))) s).
Definition setlo (o : option old) : M' unit := modify (fun s => set_rt (RT (main (s_rt s)) o) s).

Definition log_hash (l : log) := Log (l_hash l + 1) (l_move l) (l_alloc l) (l_free l) (l_cb l) (l_dk l) (l_dv l).
Definition log_move (l : log) := Log (l_hash l) (l_move l + 1) (l_alloc l) (l_free l) (l_cb l) (l_dk l) (l_dv l).
Definition log_alloc (l : log) := Log (l_hash l) (l_move l) (l_alloc l + 1) (l_free l) (l_cb l) (l_dk l) (l_dv l).
Definition log_free (l : log) := Log (l_hash l) (l_move l) (l_alloc l) (l_free l + 1) (l_cb l) (l_dk l) (l_dv l).
Definition log_cb (l : log) := Log (l_hash l) (l_move l) (l_alloc l) (l_free l) (l_cb l + 1) (l_dk l) (l_dv l).
Definition log_dk (k : N) (l : log) := Log (l_hash l) (l_move l) (l_alloc l) (l_free l) (l_cb l) (k :: l_dk l) (l_dv l).
Definition log_dv (v : N) (l : log) := Log (l_hash l) (l_move l) (l_alloc l) (l_free l) (l_cb l) (l_dk l) (v :: l_dv l).

Definition tick (f : log -> log) : M' unit := modify (fun s => set_log (f (s_log s)) s).
Definition tick_move := tick log_move.
Definition tick_alloc := tick log_alloc.
Definition tick_free := tick log_free.
Definition drop_key (kid : N) : M' unit := tick (log_dk kid).
Definition drop_val (v : N) : M' unit := tick (log_dv v).
Definition drop_elem (e : elem) : M' unit := drop_key (ekid e) ;;; drop_val (ev e).
Definition drop_elems (l : list elem) : M' unit := iterM drop_elem l.

(* a call into user code (Hash, Clone, a predicate or closure): counted, and the place where
   an injected panic strikes *)
Definition cb : M' unit :=
  tick log_cb ;;;
  s <- get ;;
  match s_fuse s with
  | None => ret tt
  | Some n => if n =? 0 then put (set_fuse None s) ;;; unwind PUser
              else put (set_fuse (Some (n - 1)) s)
  end.
Definition tick_hash : M' unit := tick log_hash ;;; cb.

(* oracle *)
Definition take_bit : M' bool :=
  s <- get ;;
  if s_on s =? 0 then ret false else put (set_on (s_on s - 1) s) ;;; ret true.
Definition take_tomb : M' bool :=
  s <- get ;;
  if s_tomb s =? 0 then ret false else put (set_tomb (s_tomb s - 1) s) ;;; ret true.

(* The oracle supplies iteration orders.  Whatever it says is checked: an order is accepted only
   if it lists exactly the elements of the table, each once. *)
Definition valid_order (m : gmap N elem) (l : list elem) : bool :=
  bool_decide (list_to_emap l = m) && (N.of_nat (length l) =? N.of_nat (size m)).
Definition order_of (m : gmap N elem) (ks : list N) : list elem := omap (fun k => m !! k) ks.
Definition take_order (m : gmap N elem) : M' (list elem) :=
  s <- get ;;
  let l := order_of m (s_perm s) in
  if valid_order m l then ret l else fault_ FOracle.
(* an order that only matters for what happens when a callback panics midway (which clones exist
   by then): the oracle's if it gives a valid one, any other enumeration otherwise *)
Definition take_order_or (m : gmap N elem) : M' (list elem) :=
  s <- get ;;
  let l := order_of m (s_perm s) in
  ret (if valid_order m l then l else (map_to_list m).*2).
(* the order in which a table that becomes the old table will be emptied: the full order if the
   oracle has it, else any order that ends with what is observed to be left afterwards (keys of
   qs that are not in m belong to a later growth within the same call) *)
Definition order_grow (m : gmap N elem) (ks qs : list N) : list elem :=
  let l := order_of m ks in
  if valid_order m l then l
  else
    let qset : gmap N unit := list_to_map (map (fun k => (k, tt)) qs) in
    List.filter (fun e => match qset !! ek e with Some _ => false | None => true end) (map_to_list m).*2
    ++ order_of m qs.
Definition take_order_grow (m : gmap N elem) : M' (list elem) :=
  s <- get ;;
  let l := order_grow m (s_perm s) (s_qperm s) in
  if valid_order m l then ret l else fault_ FOracle.

Definition lookup_list (k : N) (l : list elem) : option elem := List.find (fun e => ek e =? k) l.
Definition remove_list (k : N) (l : list elem) : list elem := List.filter (fun e => negb (ek e =? k)) l.
Definition replace_list (e' : elem) (l : list elem) : list elem :=
  List.map (fun e => if ek e =? ek e' then e' else e) l.

Section WithCfg.
Context (c : cfg).
(* A debug_assert!/cfg!(debug_assertions) check.  The model has no profile switch: it checks in
   every profile.  The theorems show that no such check can fail, so in the debug build it is a
   no-op; the release binary is tied to this same model by the release correspondence run, which
   would diverge from it if a check that release skips could fail (DESIGN.md, C17). *)
Definition debug_check (b : bool) (site : N) : M' unit :=
  if b then ret tt else unwind (PDebugAssert site).
Definition assert_ (b : bool) (site : N) : M' unit :=
  if b then ret tt else unwind (PAssert site).
End WithCfg.
