(* IterProofs.v — iteration: iter/iter_mut, retain, drain_filter, drain, into_iter. *)
From stdpp Require Import gmap list.
From Coq Require Import NArith Lia.
From G Require Import Arith Monad Types Inv Raw RawProofs Map MapProofs.
Local Open Scope N_scope.

Section IterProofs.
Context (c : cfg).
Notation R := (cR c).
Notation ES := (cesz c).

(* what iter() yields: the main table in some order that lists each of its elements once, then
   the old table in the cached iterator's order *)
Definition iter_of (r : rt) (l : list (bool * elem)) : Prop :=
  exists lm, valid_order (hel (main r)) lm = true /\
             l = map (pair true) lm ++ map (pair false) (match lo r with Some o => orem o | None => [] end).

Lemma firstn_all' {A} (l : list A) n : n = length l -> firstn n l = l.
Proof. intros ->. apply firstn_all. Qed.

Lemma rt_iter_spec (Q : list (bool * elem) -> st -> Prop) (U : panic -> st -> Prop) s :
  Inv R ES (s_rt s) ->
  (forall l, iter_of (s_rt s) l -> Q l s) ->
  wp rt_iter Q U s.
Proof.
  intros (HR & Hok & Ho) HQ. unfold rt_iter, take_order. wp_steps.
  destruct (valid_order (hel (main (s_rt s))) (order_of (hel (main (s_rt s))) (s_perm s))) eqn:Ev; [|apply wp_oracle].
  wp_steps. destruct (lo (s_rt s)) as [o|] eqn:Hlo.
  - destruct Ho as (Hit & Hc & _). unfold olen in Hit.
    destruct (N.ltb_spec (N.of_nat (length (orem o))) (oit o)) as [Hlt|Hge]; [lia|].
    apply wp_ret. apply HQ. eexists. split; [exact Ev|]. rewrite Hlo.
    rewrite firstn_all' by lia. reflexivity.
  - apply wp_ret. apply HQ. eexists. split; [exact Ev|]. rewrite Hlo. cbn [map]. rewrite app_nil_r. reflexivity.
Qed.

(* every yielded entry is found where the iterator says it is, and conversely *)
Lemma iter_of_find r l :
  Inv R ES r -> iter_of r l ->
  NoDup (map (fun x => ek (snd x)) l) /\
  (forall im e, (im, e) ∈ l <-> rt_find_pure r (ek e) = Some (im, e)).
Proof.
  intros (HR & Hok & Ho) (lm & Hv & ->). apply valid_order_spec in Hv as (Hnd & Hemap & Hlen & Hin).
  destruct Hok as (_ & _ & Hkey & _).
  set (lold := match lo r with Some o => orem o | None => [] end).
  assert (Hold : NoDup (map ek lold) /\ (forall e, e ∈ lold -> hel (main r) !! ek e = None)).
  { unfold lold. destruct (lo r) as [o|]; [destruct Ho as (_ & _ & H1 & H2 & _); auto|]. split; [constructor|]. intros e He. inversion He. }
  destruct Hold as [Hndo Hdis].
  split.
  - rewrite map_app, !map_map. cbn [snd]. apply NoDup_app. split; [exact Hnd|]. split; [|exact Hndo].
    intros k Hk1 Hk2. apply elem_of_list_fmap in Hk1 as (e1 & -> & He1). apply elem_of_list_fmap in Hk2 as (e2 & Hk & He2).
    specialize (Hin e1 He1). specialize (Hdis e2 He2). congruence.
  - intros im e. rewrite elem_of_app, !elem_of_list_fmap. unfold rt_find_pure. split.
    + intros [(x & [= -> ->] & Hx)|(x & [= -> ->] & Hx)].
      * rewrite (Hin x Hx). reflexivity.
      * rewrite (Hdis x Hx). unfold lold in Hx. destruct (lo r) as [o|]; [|inversion Hx].
        destruct Ho as (_ & _ & Hndo' & _). rewrite (lookup_list_nodup (ek x) (orem o) x); auto.
    + destruct (hel (main r) !! ek e) as [x|] eqn:E.
      * intros [= <- <-]. left. exists x. split; [reflexivity|]. rewrite <- Hemap in E.
        apply list_to_emap_key in E; [tauto|exact Hnd].
      * destruct (lo r) as [o|] eqn:Hlo; [|discriminate]. destruct (lookup_list (ek e) (orem o)) as [x|] eqn:El; [|discriminate].
        intros [= <- <-]. right. exists x. split; [reflexivity|]. apply lookup_list_Some in El. unfold lold. tauto.
Qed.

(* the yielded elements are exactly the contents, each once *)
Lemma iter_of_abs r l :
  Inv R ES r -> iter_of r l -> list_to_emap (map snd l) = rt_abs r /\ NoDup (map ek (map snd l)).
Proof.
  intros HI Hit. pose proof (iter_of_find r l HI Hit) as [Hnd Hfind].
  assert (Hnd' : NoDup (map ek (map snd l))) by (rewrite map_map; exact Hnd).
  split; [|exact Hnd'].
  apply map_eq. intros k. rewrite list_to_emap_lookup by exact Hnd'.
  rewrite (rt_find_abs c r k HI).
  destruct (rt_find_pure r k) as [[im e]|] eqn:Hf.
  - cbn [option_map snd]. assert (Hk : ek e = k).
    { unfold rt_find_pure in Hf. destruct HI as (_ & (_ & _ & Hkey & _) & Ho).
      destruct (hel (main r) !! k) eqn:E; [injection Hf as <- <-; eapply Hkey; eauto|].
      destruct (lo r) as [o|]; [|discriminate]. destruct (lookup_list k (orem o)) eqn:El; [|discriminate].
      injection Hf as <- <-. apply lookup_list_Some in El. tauto. }
    apply lookup_list_nodup; [exact Hnd'| |exact Hk].
    apply elem_of_list_fmap. exists (im, e). split; [reflexivity|]. apply Hfind. rewrite Hk. exact Hf.
  - cbn [option_map]. destruct (lookup_list k (map snd l)) as [e|] eqn:El; [|reflexivity].
    apply lookup_list_Some in El as [Hin Hk]. apply elem_of_list_fmap in Hin as ([im e'] & -> & Hin).
    apply Hfind in Hin. cbn [snd] in Hk. rewrite Hk in Hin. congruence.
Qed.


(* size_hint at creation: main-table items + what the cached iterator clone believes is left *)
Lemma iter_of_length r l : Inv R ES r -> iter_of r l -> N.of_nat (length l) = rt_len r.
Proof.
  intros (HR & (_ & Hn & _) & Ho) (lm & Hv & ->). apply valid_order_spec in Hv as (_ & _ & Hlen & _).
  rewrite app_length, !map_length. unfold rt_len, hlen, olen. destruct (lo r) as [o|].
  - destruct Ho as (_ & Hc & _). lia.
  - cbn [length]. lia.
Qed.

(* ------------------------------------------------------------------ a pass over the entries *)

(* what a pass does to one element: replace it (same key) or erase it *)
Definition apply_act (act : elem -> option elem) (m : gmap N elem) (e : elem) : gmap N elem :=
  match act e with Some e' => <[ek e := e']> m | None => delete (ek e) m end.

Definition pass_body_ok (act : elem -> option elem) (body : bool * elem -> M' unit) (UI : panic -> st -> Prop) : Prop :=
  forall im e s, Inv R ES (s_rt s) -> rt_find_pure (s_rt s) (ek e) = Some (im, e) ->
    wp (body (im, e))
       (fun _ s' => Inv R ES (s_rt s') /\ rt_abs (s_rt s') = apply_act act (rt_abs (s_rt s)) e /\
                    (forall k', k' <> ek e -> rt_find_pure (s_rt s') k' = rt_find_pure (s_rt s) k'))
       UI s.

(* the contents after a pass over l, by lookup *)
Definition pass_result (act : elem -> option elem) (m0 : gmap N elem) (l : list (bool * elem)) (m : gmap N elem) : Prop :=
  forall k, m !! k = match lookup_list k (map snd l) with
                     | Some e => act e
                     | None => m0 !! k
                     end.

Lemma pass_loop act body (UI : panic -> st -> Prop) :
  pass_body_ok act body UI ->
  (forall e e', act e = Some e' -> ek e' = ek e) ->
  forall l s,
    Inv R ES (s_rt s) -> NoDup (map (fun x => ek (snd x)) l) ->
    (forall im e, (im, e) ∈ l -> rt_find_pure (s_rt s) (ek e) = Some (im, e)) ->
    wp (iterM body l)
       (fun _ s' => Inv R ES (s_rt s') /\ pass_result act (rt_abs (s_rt s)) l (rt_abs (s_rt s')) /\
                    (forall k', k' ∉ map (fun x => ek (snd x)) l -> rt_find_pure (s_rt s') k' = rt_find_pure (s_rt s) k'))
       UI s.
Proof.
  intros Hbody Hkey. induction l as [|[im e] l IH]; intros s HI Hnd Hfind; cbn [iterM].
  - apply wp_ret. split; [exact HI|]. split; [intros k; reflexivity|auto].
  - cbn [map snd] in Hnd. apply NoDup_cons in Hnd as [Hne Hnd].
    apply wp_bind. eapply wp_conseq; [apply (Hbody im e s HI)| |].
    + apply Hfind. left.
    + intros [] s1 (HI1 & Habs1 & Hoth1). cbn beta.
      eapply wp_conseq; [apply (IH s1 HI1 Hnd)| |].
      * intros im' e' Hin. rewrite Hoth1; [apply Hfind; right; exact Hin|].
        intros Heq. apply Hne. rewrite <- Heq. apply elem_of_list_fmap. exists (im', e'). auto.
      * intros [] s2 (HI2 & Hres2 & Hoth2). split; [exact HI2|]. split.
        -- intros k. rewrite Hres2. cbn [map snd]. unfold lookup_list at 2. cbn [List.find].
           fold (lookup_list k (map snd l)).
           destruct (lookup_list k (map snd l)) as [x|] eqn:El.
           ++ apply lookup_list_Some in El as [Hin Hk]. destruct (N.eqb_spec (ek e) k) as [Heq|Hneq]; [|reflexivity].
              exfalso. apply Hne. apply elem_of_list_fmap in Hin as ([im2 x2] & -> & Hin). cbn [snd] in Hk.
              rewrite Heq, <- Hk. apply elem_of_list_fmap. exists (im2, x2). auto.
           ++ rewrite Habs1. unfold apply_act. destruct (N.eqb_spec (ek e) k) as [Heq|Hneq].
              ** subst k. destruct (act e) as [e'|]; [apply lookup_insert|apply lookup_delete].
              ** destruct (act e) as [e'|]; [rewrite lookup_insert_ne by exact Hneq|rewrite lookup_delete_ne by exact Hneq]; reflexivity.
        -- intros k' Hk'. cbn [map snd] in Hk'. apply not_elem_of_cons in Hk' as [Hk1 Hk2].
           rewrite Hoth2 by exact Hk2. apply Hoth1. exact Hk1.
      * auto.
    + auto.
Qed.

Definition bumpv (delta : N) (e : elem) : elem := Elem (ek e) (ekid e) (ev e + delta).

(* iter / keys / values / iter_mut / values_mut *)
Lemma map_iter_spec delta (Q : list (N * N * N) -> st -> Prop) (U : panic -> st -> Prop) s :
  Inv R ES (s_rt s) ->
  (forall l s', iter_of (s_rt s) l -> Inv R ES (s_rt s') ->
     rt_abs (s_rt s') = (if delta =? 0 then rt_abs (s_rt s) else bumpv delta <$> rt_abs (s_rt s)) ->
     Q (map (fun x => elem3 (snd x)) l) s') ->
  wp (map_iter delta) Q U s.
Proof.
  intros HI HQ. unfold map_iter. apply wp_bind. apply rt_iter_spec; [exact HI|]. intros l Hit.
  pose proof (iter_of_find (s_rt s) l HI Hit) as [Hnd Hfind].
  pose proof (iter_of_abs (s_rt s) l HI Hit) as [Hemap Hndk].
  apply wp_bind. destruct (N.eqb_spec delta 0) as [Hz|Hz].
  - (* read-only *)
    assert (Hloop : forall l' s', s_rt s' = s_rt s ->
              wp (iterM (fun x : bool * elem => when (negb true) (set_value x.1 (ek x.2) (ev x.2 + delta))) l')
                 (fun _ s'' => s_rt s'' = s_rt s) U s').
    { induction l' as [|x l' IH]; intros s' Hs'; cbn [iterM]; [apply wp_ret; exact Hs'|].
      apply wp_bind. cbn [negb when]. apply wp_ret. apply IH. exact Hs'. }
    eapply wp_conseq; [apply (Hloop l s eq_refl)| |]; [|auto].
    intros [] s' Hs'. apply wp_ret. apply HQ; [exact Hit|rewrite Hs'; exact HI|rewrite Hs'; reflexivity].
  - eapply wp_conseq; [apply (pass_loop (fun e => Some (bumpv delta e))
        (fun x : bool * elem => when (negb false) (set_value x.1 (ek x.2) (ev x.2 + delta))) U) with (l := l) (s := s)| |].
    + intros im e s0 HI0 Hf0. cbn [negb when fst snd].
      apply (set_value_spec c im (ek e) (ev e + delta) e); [exact HI0|exact Hf0|].
      intros s1 HI1 Habs1 _ _ Hoth1. split; [exact HI1|]. split; [|exact Hoth1].
      rewrite Habs1. unfold apply_act, bumpv. reflexivity.
    + intros e e' [= <-]. reflexivity.
    + exact HI.
    + exact Hnd.
    + intros im e Hin. apply Hfind. exact Hin.
    + intros [] s' (HI' & Hres & _). apply wp_ret. apply HQ; [exact Hit|exact HI'|].
      apply map_eq. intros k. rewrite Hres, lookup_fmap, <- Hemap.
      rewrite list_to_emap_lookup by exact Hndk. destruct (lookup_list k (map snd l)); reflexivity.
    + auto.
Qed.


(* rayon: however the two producers are cut into pieces, the pieces put together are what the
   sequential iterator yields; par_iter* is iter* up to the order of the visits *)
Lemma concat_chop {A} : forall sp (l : list A), concat (chop sp l) = l.
Proof.
  induction sp as [|n sp IH]; intros l; cbn [chop concat]; [apply app_nil_r|].
  rewrite IH. apply firstn_skipn.
Qed.

Lemma map_par_iter_eq delta splits s : map_par_iter delta splits s = map_iter delta s.
Proof.
  unfold map_par_iter, map_iter, bind. destruct (rt_iter s) as [l s1|p s1|f]; [|reflexivity|reflexivity].
  rewrite concat_chop. reflexivity.
Qed.

(* every element lies in exactly one piece: no element is handed to two workers *)
Lemma chop_partition {A} sp (l : list A) : concat (chop sp l) ≡ₚ l.
Proof. rewrite concat_chop. reflexivity. Qed.

(* serde Serialize: the declared length is the number of elements emitted, which are those of
   iter(), in its order; nothing changes *)
Lemma map_serialize_spec (Q : N * list (N * N * N) -> st -> Prop) (U : panic -> st -> Prop) s :
  Inv R ES (s_rt s) ->
  (forall l, iter_of (s_rt s) l -> Q (N.of_nat (length l), map (fun x => elem3 (snd x)) l) s) ->
  wp map_serialize Q U s.
Proof.
  intros HI HQ. unfold map_serialize. wp_steps. apply rt_iter_spec; [exact HI|]. intros l Hit.
  apply wp_ret. rewrite <- (iter_of_length (s_rt s) l HI Hit). apply HQ. exact Hit.
Qed.

(* ------------------------------------------------------------------ retain *)

Definition retain_act (keep : list N) (delta : N) (e : elem) : option elem :=
  if inb (ek e) keep then Some (if delta =? 0 then e else bumpv delta e) else None.

(* retain(f): f is called exactly once per element (the list l), keeps exactly those it accepts
   (with the value mutation it made), the others are gone *)
Lemma map_retain_spec keep delta (Q : list (N * N * N) -> st -> Prop) (U : panic -> st -> Prop) s :
  Inv R ES (s_rt s) ->
  (forall l s', iter_of (s_rt s) l -> Inv R ES (s_rt s') ->
     (forall k, rt_abs (s_rt s') !! k = (rt_abs (s_rt s) !! k) ≫= retain_act keep delta) ->
     Q (map (fun x => elem3 (snd x)) l) s') ->
  (forall s', Inv R ES (s_rt s') -> U PUser s') ->
  wp (map_retain c keep delta) Q U s.
Proof.
  intros HI HQ HU. unfold map_retain. apply wp_bind. apply rt_iter_spec; [exact HI|]. intros l Hit.
  pose proof (iter_of_find (s_rt s) l HI Hit) as [Hnd Hfind].
  pose proof (iter_of_abs (s_rt s) l HI Hit) as [Hemap Hndk].
  apply wp_bind.
  eapply wp_conseq; [apply (pass_loop (retain_act keep delta) _ (fun p s' => Inv R ES (s_rt s') /\ p = PUser)) with (l := l) (s := s)| |].
  - intros im e s0 HI0 Hf0. cbn [fst snd].
    apply wp_bind. apply frame_use; [apply frame_cb| |].
    2:{ intros s1 Hs1. split; [rewrite Hs1; exact HI0|reflexivity]. }
    intros [] s1 Hs1.
    (* the value mutation *)
    set (e1 := if delta =? 0 then e else bumpv delta e).
    assert (Hmut : forall (Q' : unit -> st -> Prop),
       (forall s2, Inv R ES (s_rt s2) -> rt_abs (s_rt s2) = <[ek e := e1]> (rt_abs (s_rt s0)) ->
                   rt_find_pure (s_rt s2) (ek e) = Some (im, e1) ->
                   (forall k', k' <> ek e -> rt_find_pure (s_rt s2) k' = rt_find_pure (s_rt s0) k') -> Q' tt s2) ->
       wp (when (negb (delta =? 0)) (set_value im (ek e) (ev e + delta))) Q' (fun p s' => Inv R ES (s_rt s') /\ p = PUser) s1).
    { intros Q' HQ'. unfold e1. destruct (N.eqb_spec delta 0) as [Hz|Hz]; cbn [negb when].
      - apply wp_ret. apply HQ'; rewrite Hs1; [exact HI0| |exact Hf0|auto].
        symmetry. apply insert_id. rewrite (rt_find_abs c _ _ HI0), Hf0. reflexivity.
      - apply (set_value_spec c im (ek e) (ev e + delta) e); [rewrite Hs1; exact HI0|rewrite Hs1; exact Hf0|].
        intros s2 HI2 Habs2 _ Hf2 Hoth2. rewrite Hs1 in *. apply HQ'; [exact HI2|exact Habs2| |exact Hoth2].
        exact Hf2. }
    apply wp_bind. apply Hmut. intros s2 HI2 Habs2 Hf2 Hoth2.
    unfold retain_act, apply_act. fold e1. destruct (inb (ek e) keep); cbn [negb when].
    + apply wp_ret. auto.
    + assert (Hk1 : ek e1 = ek e) by (unfold e1; destruct (delta =? 0); reflexivity).
      apply (rt_erase_spec c im (ek e) e1); [exact HI2|exact Hf2|].
      intros s3 (HI3 & Habs3 & _ & Hoth3 & _). split; [exact HI3|]. split.
      * rewrite Habs3, Habs2. apply delete_insert_delete.
      * intros k' Hk'. rewrite Hoth3 by exact Hk'. apply Hoth2. exact Hk'.
  - unfold retain_act. intros e e' He. destruct (inb (ek e) keep); [|discriminate]. injection He as <-.
    destruct (delta =? 0); reflexivity.
  - exact HI.
  - exact Hnd.
  - intros im e Hin. apply Hfind. exact Hin.
  - intros [] s' (HI' & Hres & _). apply wp_ret. apply HQ; [exact Hit|exact HI'|].
    intros k. rewrite Hres, <- Hemap. rewrite list_to_emap_lookup by exact Hndk.
    destruct (lookup_list k (map snd l)); reflexivity.
  - intros p s' [HI' ->]. apply HU. exact HI'.
Qed.


(* ------------------------------------------------------------------ drain_filter *)

Definition bump0 (delta : N) (e : elem) : elem := if delta =? 0 then e else bumpv delta e.
Definition df_act (take : list N) (delta : N) (e : elem) : option elem :=
  if inb (ek e) take then None else Some (bump0 delta e).
(* what the visited buckets yield: the accepted elements, as the predicate left them, in order *)
Definition df_yield (take : list N) (delta : N) (visited : list (bool * elem)) : list elem :=
  map (bump0 delta) (List.filter (fun e => inb (ek e) take) (map snd visited)).

Lemma bump0_key delta e : ek (bump0 delta e) = ek e.
Proof. unfold bump0. destruct (delta =? 0); reflexivity. Qed.

Definition UI : panic -> st -> Prop := fun p s' => Inv R ES (s_rt s') /\ p = PUser.

(* the value mutation made by the predicate *)
Lemma mutate_spec im e delta (Q' : unit -> st -> Prop) s0 :
  Inv R ES (s_rt s0) -> rt_find_pure (s_rt s0) (ek e) = Some (im, e) ->
  (forall s2, Inv R ES (s_rt s2) -> rt_abs (s_rt s2) = <[ek e := bump0 delta e]> (rt_abs (s_rt s0)) ->
              rt_find_pure (s_rt s2) (ek e) = Some (im, bump0 delta e) ->
              (forall k', k' <> ek e -> rt_find_pure (s_rt s2) k' = rt_find_pure (s_rt s0) k') -> Q' tt s2) ->
  wp (when (negb (delta =? 0)) (set_value im (ek e) (ev e + delta))) Q' UI s0.
Proof.
  intros HI0 Hf0 HQ'. unfold bump0 in *. destruct (N.eqb_spec delta 0) as [Hz|Hz]; cbn [negb when].
  - apply wp_ret. apply HQ'; [exact HI0| |exact Hf0|auto].
    symmetry. apply insert_id. rewrite (rt_find_abs c _ _ HI0), Hf0. reflexivity.
  - apply (set_value_spec c im (ek e) (ev e + delta) e); [exact HI0|exact Hf0|].
    intros s2 HI2 Habs2 _ Hf2 Hoth2. apply HQ'; [exact HI2|exact Habs2|exact Hf2|exact Hoth2].
Qed.

Definition df_Q (take : list N) (delta : N) (s : st) (l : list (bool * elem)) (fuel : nat) (acc : list elem)
  (r : list elem * list (bool * elem)) (s' : st) : Prop :=
  exists visited, l = visited ++ snd r /\ Inv R ES (s_rt s') /\
    pass_result (df_act take delta) (rt_abs (s_rt s)) visited (rt_abs (s_rt s')) /\
    (forall k', k' ∉ map (fun x => ek (snd x)) visited -> rt_find_pure (s_rt s') k' = rt_find_pure (s_rt s) k') /\
    fst r = acc ++ df_yield take delta visited /\
    (length (df_yield take delta visited) <= fuel)%nat /\
    (snd r <> [] -> length (df_yield take delta visited) = fuel).

Lemma df_yield_cons_take take delta im e v :
  inb (ek e) take = true -> df_yield take delta ((im, e) :: v) = bump0 delta e :: df_yield take delta v.
Proof. intros H. unfold df_yield. cbn [map snd List.filter]. rewrite H. reflexivity. Qed.
Lemma df_yield_cons_skip take delta im e v :
  inb (ek e) take = false -> df_yield take delta ((im, e) :: v) = df_yield take delta v.
Proof. intros H. unfold df_yield. cbn [map snd List.filter]. rewrite H. reflexivity. Qed.

Lemma pass_result_cons act m0 m1 m2 im e v :
  ek e ∉ map (fun x => ek (snd x)) v ->
  (forall k, m1 !! k = if N.eqb (ek e) k then act e else m0 !! k) ->
  pass_result act m1 v m2 ->
  pass_result act m0 ((im, e) :: v) m2.
Proof.
  intros Hne H1 H2 k. rewrite H2. cbn [map snd]. unfold lookup_list at 2. cbn [List.find].
  fold (lookup_list k (map snd v)).
  destruct (lookup_list k (map snd v)) as [x|] eqn:El.
  - apply lookup_list_Some in El as [Hin Hk]. destruct (N.eqb_spec (ek e) k) as [Heq|Hneq]; [|reflexivity].
    exfalso. apply Hne. apply elem_of_list_fmap in Hin as ([im2 x2] & -> & Hin). cbn [snd] in Hk.
    rewrite Heq, <- Hk. apply elem_of_list_fmap. exists (im2, x2). auto.
  - rewrite H1. destruct (N.eqb_spec (ek e) k); reflexivity.
Qed.

Lemma df_run_spec take delta : forall l fuel acc s,
  Inv R ES (s_rt s) -> NoDup (map (fun x => ek (snd x)) l) ->
  (forall im e, (im, e) ∈ l -> rt_find_pure (s_rt s) (ek e) = Some (im, e)) ->
  wp (df_run c take delta l fuel acc) (fun r s' => df_Q take delta s l fuel acc r s') UI s.
Proof.
  induction l as [|[im e] l IH]; intros fuel acc s HI Hnd Hfind; cbn [df_run].
  - apply wp_ret. exists []. cbn [snd fst app]. split; [reflexivity|]. split; [exact HI|].
    split; [intros k; reflexivity|]. split; [auto|]. split; [cbn; rewrite app_nil_r; reflexivity|]. split; [cbn; lia|]. congruence.
  - destruct fuel as [|f].
    + apply wp_ret. exists []. cbn [snd fst app]. split; [reflexivity|]. split; [exact HI|].
      split; [intros k; reflexivity|]. split; [auto|]. split; [cbn; rewrite app_nil_r; reflexivity|]. split; [cbn; lia|]. reflexivity.
    + cbn [map snd] in Hnd. apply NoDup_cons in Hnd as [Hne Hnd]. cbn [fst snd].
      apply wp_bind. apply frame_use; [apply frame_cb| |].
      2:{ intros s1 Hs1. split; [rewrite Hs1; exact HI|reflexivity]. }
      intros [] s1 Hs1. apply wp_bind.
      apply (mutate_spec im e delta); [rewrite Hs1; exact HI|rewrite Hs1; apply Hfind; left|].
      intros s2 HI2 Habs2 Hf2 Hoth2. rewrite Hs1 in *.
      assert (Hl_ne : forall im' e', (im', e') ∈ l -> ek e' <> ek e).
      { intros im' e' Hin Heq. apply Hne. rewrite <- Heq. apply elem_of_list_fmap. exists (im', e'). auto. }
      destruct (inb (ek e) take) eqn:Etake.
      * (* accepted: removed and yielded *)
        apply wp_bind. apply (rt_remove_spec c im (ek e) (bump0 delta e)); [exact HI2|exact Hf2|].
        intros s3 (HI3 & Habs3 & _ & Hoth3 & _).
        eapply wp_conseq; [apply (IH f (acc ++ [bump0 delta e]) s3 HI3 Hnd)| |].
        -- intros im' e' Hin. rewrite Hoth3, Hoth2 by (eapply Hl_ne; eauto). apply Hfind. right. exact Hin.
        -- intros [acc' rest] s4 (visited & Hl & HI4 & Hres & Hoth & Hacc & Hlen & Hfull). cbn [fst snd] in *.
           exists ((im, e) :: visited). cbn [snd fst]. split; [rewrite Hl; reflexivity|]. split; [exact HI4|].
           split.
           { apply (pass_result_cons _ _ (rt_abs (s_rt s3))); [|intros k|exact Hres].
             - intros Hin. apply Hne. rewrite Hl, map_app. apply elem_of_app. left. exact Hin.
             - rewrite Habs3, Habs2. unfold df_act. rewrite Etake. destruct (N.eqb_spec (ek e) k) as [<-|Hneq].
               + apply lookup_delete.
               + rewrite lookup_delete_ne, lookup_insert_ne by congruence. reflexivity. }
           split.
           { intros k' Hk'. cbn [map snd] in Hk'. apply not_elem_of_cons in Hk' as [Hk1 Hk2].
             rewrite Hoth by exact Hk2. rewrite Hoth3, Hoth2 by exact Hk1. reflexivity. }
           rewrite (df_yield_cons_take _ _ _ _ _ Etake). cbn [length].
           split; [rewrite Hacc, <- app_assoc; reflexivity|]. split; [lia|]. intros Hr. rewrite (Hfull Hr). reflexivity.
        -- auto.
      * (* rejected: stays, with the mutation *)
        eapply wp_conseq; [apply (IH (S f) acc s2 HI2 Hnd)| |].
        -- intros im' e' Hin. rewrite Hoth2 by (eapply Hl_ne; eauto). apply Hfind. right. exact Hin.
        -- intros [acc' rest] s4 (visited & Hl & HI4 & Hres & Hoth & Hacc & Hlen & Hfull). cbn [fst snd] in *.
           exists ((im, e) :: visited). cbn [snd fst]. split; [rewrite Hl; reflexivity|]. split; [exact HI4|].
           split.
           { apply (pass_result_cons _ _ (rt_abs (s_rt s2))); [|intros k|exact Hres].
             - intros Hin. apply Hne. rewrite Hl, map_app. apply elem_of_app. left. exact Hin.
             - rewrite Habs2. unfold df_act. rewrite Etake. destruct (N.eqb_spec (ek e) k) as [<-|Hneq].
               + apply lookup_insert.
               + rewrite lookup_insert_ne by congruence. reflexivity. }
           split.
           { intros k' Hk'. cbn [map snd] in Hk'. apply not_elem_of_cons in Hk' as [Hk1 Hk2].
             rewrite Hoth by exact Hk2. apply Hoth2. exact Hk1. }
           rewrite (df_yield_cons_skip _ _ _ _ _ Etake). auto.
        -- auto.
Qed.


Lemma df_drop_spec take delta : forall l s,
  Inv R ES (s_rt s) -> NoDup (map (fun x => ek (snd x)) l) ->
  (forall im e, (im, e) ∈ l -> rt_find_pure (s_rt s) (ek e) = Some (im, e)) ->
  wp (df_drop c take delta l)
     (fun _ s' => Inv R ES (s_rt s') /\ pass_result (df_act take delta) (rt_abs (s_rt s)) l (rt_abs (s_rt s')) /\
                  (forall k', k' ∉ map (fun x => ek (snd x)) l -> rt_find_pure (s_rt s') k' = rt_find_pure (s_rt s) k')) UI s.
Proof.
  induction l as [|[im e] l IH]; intros s HI Hnd Hfind; cbn [df_drop].
  - apply wp_ret. split; [exact HI|]. split; [intros k; reflexivity|auto].
  - cbn [map snd] in Hnd. apply NoDup_cons in Hnd as [Hne Hnd]. cbn [fst snd].
    apply wp_bind. apply frame_use; [apply frame_cb| |].
    2:{ intros s1 Hs1. split; [rewrite Hs1; exact HI|reflexivity]. }
    intros [] s1 Hs1. apply wp_bind.
    apply (mutate_spec im e delta); [rewrite Hs1; exact HI|rewrite Hs1; apply Hfind; left|].
    intros s2 HI2 Habs2 Hf2 Hoth2. rewrite Hs1 in *.
    assert (Hl_ne : forall im' e', (im', e') ∈ l -> ek e' <> ek e).
    { intros im' e' Hin Heq. apply Hne. rewrite <- Heq. apply elem_of_list_fmap. exists (im', e'). auto. }
    apply wp_bind. destruct (inb (ek e) take) eqn:Etake.
    + apply wp_bind. apply (rt_remove_spec c im (ek e) (bump0 delta e)); [exact HI2|exact Hf2|].
      intros s3 (HI3 & Habs3 & _ & Hoth3 & _). apply frame0_use; [apply frame0_drop_elem|]. intros [] s3' Hs3'.
      eapply wp_conseq; [apply (IH s3'); [rewrite Hs3'; exact HI3|exact Hnd|]| |].
      * intros im' e' Hin. rewrite Hs3', Hoth3, Hoth2 by (eapply Hl_ne; eauto). apply Hfind. right. exact Hin.
      * intros [] s4 (HI4 & Hres & Hoth). rewrite Hs3' in *. split; [exact HI4|]. split.
        { apply (pass_result_cons _ _ (rt_abs (s_rt s3))); [exact Hne|intros k|exact Hres].
          rewrite Habs3, Habs2. unfold df_act. rewrite Etake. destruct (N.eqb_spec (ek e) k) as [<-|Hneq].
          - apply lookup_delete.
          - rewrite lookup_delete_ne, lookup_insert_ne by congruence. reflexivity. }
        intros k' Hk'. cbn [map snd] in Hk'. apply not_elem_of_cons in Hk' as [Hk1 Hk2].
        rewrite Hoth by exact Hk2. rewrite Hoth3, Hoth2 by exact Hk1. reflexivity.
      * auto.
    + apply wp_ret.
      eapply wp_conseq; [apply (IH s2 HI2 Hnd)| |].
      * intros im' e' Hin. rewrite Hoth2 by (eapply Hl_ne; eauto). apply Hfind. right. exact Hin.
      * intros [] s4 (HI4 & Hres & Hoth). split; [exact HI4|]. split.
        { apply (pass_result_cons _ _ (rt_abs (s_rt s2))); [exact Hne|intros k|exact Hres].
          rewrite Habs2. unfold df_act. rewrite Etake. destruct (N.eqb_spec (ek e) k) as [<-|Hneq].
          - apply lookup_insert.
          - rewrite lookup_insert_ne by congruence. reflexivity. }
        intros k' Hk'. cbn [map snd] in Hk'. apply not_elem_of_cons in Hk' as [Hk1 Hk2].
        rewrite Hoth by exact Hk2. apply Hoth2. exact Hk1.
      * auto.
Qed.

Lemma df_run_u_spec take delta : forall l fuel acc s,
  Inv R ES (s_rt s) -> NoDup (map (fun x => ek (snd x)) l) ->
  (forall im e, (im, e) ∈ l -> rt_find_pure (s_rt s) (ek e) = Some (im, e)) ->
  wp (df_run_u c take delta l fuel acc) (fun r s' => df_Q take delta s l fuel acc r s') UI s.
Proof.
  induction l as [|[im e] l IH]; intros fuel acc s HI Hnd Hfind; cbn [df_run_u].
  - apply wp_ret. exists []. cbn [snd fst app]. split; [reflexivity|]. split; [exact HI|].
    split; [intros k; reflexivity|]. split; [auto|]. split; [cbn; rewrite app_nil_r; reflexivity|]. split; [cbn; lia|]. congruence.
  - destruct fuel as [|f].
    + apply wp_ret. exists []. cbn [snd fst app]. split; [reflexivity|]. split; [exact HI|].
      split; [intros k; reflexivity|]. split; [auto|]. split; [cbn; rewrite app_nil_r; reflexivity|]. split; [cbn; lia|]. reflexivity.
    + cbn [map snd] in Hnd. apply NoDup_cons in Hnd as [Hne Hnd]. cbn [fst snd].
      assert (Hl_ne0 : forall im' e', (im', e') ∈ l -> ek e' <> ek e).
      { intros im' e' Hin Heq. apply Hne. rewrite <- Heq. apply elem_of_list_fmap. exists (im', e'). auto. }
      apply wp_bind. apply wp_on_unwind. apply frame_use; [apply frame_cb| |].
      2:{ intros s1 Hs1.
          eapply wp_conseq; [apply (df_drop_spec take delta l s1); [rewrite Hs1; exact HI|exact Hnd|]| |].
          - intros im' e' Hin. rewrite Hs1. apply Hfind. right. exact Hin.
          - intros [] s2 (HI2 & _). split; [exact HI2|reflexivity].
          - intros p s2 [HI2 ->]. split; [exact HI2|reflexivity]. }
      intros [] s1 Hs1. apply wp_bind.
      apply (mutate_spec im e delta); [rewrite Hs1; exact HI|rewrite Hs1; apply Hfind; left|].
      intros s2 HI2 Habs2 Hf2 Hoth2. rewrite Hs1 in *.
      assert (Hl_ne : forall im' e', (im', e') ∈ l -> ek e' <> ek e).
      { intros im' e' Hin Heq. apply Hne. rewrite <- Heq. apply elem_of_list_fmap. exists (im', e'). auto. }
      destruct (inb (ek e) take) eqn:Etake.
      * (* accepted: removed and yielded *)
        apply wp_bind. apply (rt_remove_spec c im (ek e) (bump0 delta e)); [exact HI2|exact Hf2|].
        intros s3 (HI3 & Habs3 & _ & Hoth3 & _).
        eapply wp_conseq; [apply (IH f (acc ++ [bump0 delta e]) s3 HI3 Hnd)| |].
        -- intros im' e' Hin. rewrite Hoth3, Hoth2 by (eapply Hl_ne; eauto). apply Hfind. right. exact Hin.
        -- intros [acc' rest] s4 (visited & Hl & HI4 & Hres & Hoth & Hacc & Hlen & Hfull). cbn [fst snd] in *.
           exists ((im, e) :: visited). cbn [snd fst]. split; [rewrite Hl; reflexivity|]. split; [exact HI4|].
           split.
           { apply (pass_result_cons _ _ (rt_abs (s_rt s3))); [|intros k|exact Hres].
             - intros Hin. apply Hne. rewrite Hl, map_app. apply elem_of_app. left. exact Hin.
             - rewrite Habs3, Habs2. unfold df_act. rewrite Etake. destruct (N.eqb_spec (ek e) k) as [<-|Hneq].
               + apply lookup_delete.
               + rewrite lookup_delete_ne, lookup_insert_ne by congruence. reflexivity. }
           split.
           { intros k' Hk'. cbn [map snd] in Hk'. apply not_elem_of_cons in Hk' as [Hk1 Hk2].
             rewrite Hoth by exact Hk2. rewrite Hoth3, Hoth2 by exact Hk1. reflexivity. }
           rewrite (df_yield_cons_take _ _ _ _ _ Etake). cbn [length].
           split; [rewrite Hacc, <- app_assoc; reflexivity|]. split; [lia|]. intros Hr. rewrite (Hfull Hr). reflexivity.
        -- auto.
      * (* rejected: stays, with the mutation *)
        eapply wp_conseq; [apply (IH (S f) acc s2 HI2 Hnd)| |].
        -- intros im' e' Hin. rewrite Hoth2 by (eapply Hl_ne; eauto). apply Hfind. right. exact Hin.
        -- intros [acc' rest] s4 (visited & Hl & HI4 & Hres & Hoth & Hacc & Hlen & Hfull). cbn [fst snd] in *.
           exists ((im, e) :: visited). cbn [snd fst]. split; [rewrite Hl; reflexivity|]. split; [exact HI4|].
           split.
           { apply (pass_result_cons _ _ (rt_abs (s_rt s2))); [|intros k|exact Hres].
             - intros Hin. apply Hne. rewrite Hl, map_app. apply elem_of_app. left. exact Hin.
             - rewrite Habs2. unfold df_act. rewrite Etake. destruct (N.eqb_spec (ek e) k) as [<-|Hneq].
               + apply lookup_insert.
               + rewrite lookup_insert_ne by congruence. reflexivity. }
           split.
           { intros k' Hk'. cbn [map snd] in Hk'. apply not_elem_of_cons in Hk' as [Hk1 Hk2].
             rewrite Hoth by exact Hk2. apply Hoth2. exact Hk1. }
           rewrite (df_yield_cons_skip _ _ _ _ _ Etake). auto.
        -- auto.
Qed.



Lemma df_yield_app take delta v1 v2 : df_yield take delta (v1 ++ v2) = df_yield take delta v1 ++ df_yield take delta v2.
Proof. unfold df_yield. rewrite map_app, List.filter_app, map_app. reflexivity. Qed.

Lemma filter_len {A} (f : A -> bool) l : (length (List.filter f l) <= length l)%nat.
Proof. induction l as [|x l IH]; cbn [List.filter length]; [lia|]. destruct (f x); cbn [length]; lia. Qed.

Lemma find_app' {A} (f : A -> bool) l1 l2 :
  List.find f (l1 ++ l2) = match List.find f l1 with Some x => Some x | None => List.find f l2 end.
Proof. induction l1 as [|x l1 IH]; cbn [app List.find]; [reflexivity|]. destruct (f x); [reflexivity|exact IH]. Qed.

Lemma df_yield_length take delta v : (length (df_yield take delta v) <= length v)%nat.
Proof.
  unfold df_yield. rewrite map_length. etransitivity; [apply filter_len|]. rewrite map_length. lia.
Qed.

(* drain_filter(f), consumed for j items (None: to the end), then dropped or forgotten:
   it yields exactly the accepted elements among the buckets it visited (v1), each once, in
   iteration order; if it is dropped every remaining accepted element is removed as well and
   every element has been shown to f once; if it is forgotten only v1 was touched *)
Lemma map_drain_filter_spec take delta (j : option N) (forget : bool) (Q : list (N * N * N) -> st -> Prop) (U : panic -> st -> Prop) s :
  Inv R ES (s_rt s) ->
  (forall l v1 rest s', iter_of (s_rt s) l -> l = v1 ++ rest -> Inv R ES (s_rt s') ->
     pass_result (df_act take delta) (rt_abs (s_rt s)) (if forget then v1 else l) (rt_abs (s_rt s')) ->
     (match j with Some j => (length (df_yield take delta v1) <= N.to_nat j)%nat /\
                             (rest <> [] -> length (df_yield take delta v1) = N.to_nat j)
              | None => rest = [] end) ->
     Q (map elem3 (df_yield take delta v1)) s') ->
  (forall s', Inv R ES (s_rt s') -> U PUser s') ->
  wp (map_drain_filter c take delta j forget) Q U s.
Proof.
  intros HI HQ HU. unfold map_drain_filter. apply wp_bind. apply rt_iter_spec; [exact HI|]. intros l Hit.
  pose proof (iter_of_find (s_rt s) l HI Hit) as [Hnd Hfind].
  apply wp_bind.
  eapply wp_conseq; [apply (df_run_u_spec take delta l _ [] s HI Hnd)| |].
  - intros im e Hin. apply Hfind. exact Hin.
  - intros [acc rest] s1 (v1 & Hl & HI1 & Hres1 & Hoth1 & Hacc1 & Hlen1 & Hfull1). cbn [fst snd app] in *.
    assert (Hj : match j with Some j => (length (df_yield take delta v1) <= N.to_nat j)%nat /\
                             (rest <> [] -> length (df_yield take delta v1) = N.to_nat j)
              | None => rest = [] end).
    { destruct j as [j|]; [auto|]. destruct rest as [|x rest]; [reflexivity|]. exfalso.
      specialize (Hfull1 ltac:(discriminate)). pose proof (df_yield_length take delta v1).
      rewrite Hl, app_length in Hfull1. cbn [length] in Hfull1. lia. }
    destruct forget.
    + apply wp_bind. apply wp_ret. apply wp_ret. subst acc. apply (HQ l v1 rest); auto.
    + (* dropped: the remaining buckets are run through as well *)
      assert (Hnd2 : NoDup (map (fun x => ek (snd x)) rest)).
      { rewrite Hl, map_app in Hnd. apply NoDup_app in Hnd. tauto. }
      apply wp_bind.
      eapply wp_conseq; [apply (df_drop_spec take delta rest s1 HI1 Hnd2)| |].
      * intros im e Hin. rewrite Hoth1; [apply Hfind; rewrite Hl; apply elem_of_app; right; exact Hin|].
        intros Hk. rewrite Hl, map_app in Hnd. apply NoDup_app in Hnd as (_ & Hdisj & _).
        eapply Hdisj; [exact Hk|]. apply elem_of_list_fmap. exists (im, e). auto.
      * intros [] s2 (HI2 & Hres2 & Hoth2). apply wp_ret. subst acc.
        apply (HQ l v1 rest); auto.
        (* the two passes compose *)
        intros k. rewrite Hres2. rewrite Hl, map_app.
        unfold lookup_list. rewrite find_app'. fold (lookup_list k (map snd v1)) (lookup_list k (map snd rest)).
        destruct (lookup_list k (map snd rest)) as [x|] eqn:E2.
        -- destruct (lookup_list k (map snd v1)) as [y|] eqn:E1; [|reflexivity]. exfalso.
           apply lookup_list_Some in E1 as [Hy Hk1]. apply lookup_list_Some in E2 as [Hx Hk2].
           rewrite Hl, map_app in Hnd. apply NoDup_app in Hnd as (_ & Hdisj & _).
           apply elem_of_list_fmap in Hy as ([i1 y1] & -> & Hy). apply elem_of_list_fmap in Hx as ([i2 x2] & -> & Hx).
           cbn [snd] in *. eapply (Hdisj k); apply elem_of_list_fmap; [exists (i1, y1)|exists (i2, x2)]; auto.
        -- rewrite Hres1. destruct (lookup_list k (map snd v1)); reflexivity.
      * intros p s2 [HI2 ->]. apply HU. exact HI2.
  - intros p s1 [HI1 ->]. apply HU. exact HI1.
Qed.


(* ------------------------------------------------------------------ drain and into_iter *)

(* the owning iterators yield the old table first (cursor order), then the main table *)
Definition drain_of (r : rt) (l : list elem) : Prop :=
  exists lm, valid_order (hel (main r)) lm = true /\
             l = (match lo r with Some o => orem o | None => [] end) ++ lm.

Lemma drain_of_abs r l : Inv R ES r -> drain_of r l -> list_to_emap l = rt_abs r /\ NoDup (map ek l).
Proof.
  intros HI (lm & Hv & ->).
  assert (Hit : iter_of r (map (pair true) lm ++ map (pair false) (match lo r with Some o => orem o | None => [] end))).
  { exists lm. auto. }
  destruct (iter_of_abs r _ HI Hit) as [Hemap Hnd].
  rewrite map_app, !map_map in Hemap, Hnd. cbn [snd] in *. rewrite !map_id in *.
  set (lold := match lo r with Some o => orem o | None => [] end) in *.
  assert (Hnd' : NoDup (map ek (lold ++ lm))).
  { rewrite map_app in *. apply NoDup_app in Hnd as (H1 & H2 & H3). apply NoDup_app. split; [exact H3|]. split; [|exact H1].
    intros k Hk1 Hk2. eapply H2; eauto. }
  split; [|exact Hnd'].
  rewrite <- Hemap. apply map_eq. intros k. rewrite !list_to_emap_lookup by assumption.
  unfold lookup_list. rewrite !find_app'.
  destruct (List.find (fun e => ek e =? k) lold) as [x|] eqn:E1; destruct (List.find (fun e => ek e =? k) lm) as [y|] eqn:E2; try reflexivity.
  exfalso. apply List.find_some in E1 as [Hx Hkx]. apply List.find_some in E2 as [Hy Hky].
  apply N.eqb_eq in Hkx, Hky. rewrite map_app in Hnd. apply NoDup_app in Hnd as (_ & Hdisj & _).
  apply (Hdisj k); apply elem_of_list_fmap; [exists y|exists x]; split; auto; apply elem_of_list_In; assumption.
Qed.

Lemma drain_order_spec (Q : list elem -> st -> Prop) (U : panic -> st -> Prop) s :
  Inv R ES (s_rt s) -> (forall l, drain_of (s_rt s) l -> Q l s) -> wp drain_order Q U s.
Proof.
  intros (HR & Hok & Ho) HQ. unfold drain_order, take_order, cursor_view. wp_steps.
  destruct (valid_order (hel (main (s_rt s))) (order_of (hel (main (s_rt s))) (s_perm s))) eqn:Ev; [|apply wp_oracle].
  wp_steps. destruct (lo (s_rt s)) as [o|] eqn:Hlo.
  - destruct Ho as (Hit & Hc & _). unfold olen in Hit.
    destruct (N.ltb_spec (N.of_nat (length (orem o))) (oit o)) as [Hlt|Hge]; [lia|].
    wp_steps. unfold debug_check, olen. destruct (N.eqb_spec (oit o) (ocnt o)) as [_|Hne]; [|lia]. wp_steps.
    apply HQ. eexists. split; [exact Ev|]. rewrite Hlo. rewrite firstn_all' by lia. reflexivity.
  - wp_steps. unfold debug_check. wp_steps. apply HQ. eexists. split; [exact Ev|]. rewrite Hlo. reflexivity.
Qed.

Lemma Inv_empty_main B : 0 < R -> 0 < B -> (B = 1 \/ layout_ok ES B = true) -> Inv R ES (RT (hb_empty B) None).
Proof. intros HR HB HL. split; [exact HR|]. split; [apply hb_ok_empty; assumption|exact I]. Qed.

Lemma map_drain_spec j forget (Q : list (N * N * N) -> st -> Prop) (U : panic -> st -> Prop) s :
  Inv R ES (s_rt s) ->
  (forall l s', drain_of (s_rt s) l -> Inv R ES (s_rt s') -> rt_abs (s_rt s') = ∅ -> lo (s_rt s') = None ->
     Q (map elem3 (firstn (N.to_nat j) l)) s') ->
  wp (map_drain j forget) Q U s.
Proof.
  intros HI HQ. pose proof HI as (HR & Hok & Ho). unfold map_drain. wp_steps.
  apply drain_order_spec; [exact HI|]. intros l Hd. wp_steps.
  destruct Hok as (_ & _ & _ & HB0 & HB1).
  destruct forget.
  - apply wp_bind. apply frame0_use; [apply frameU_when, frame0_tick|]. intros [] s1 Hs1. wp_steps.
    assert (Hst : s_rt (set_rt (RT hb_new (lo (s_rt s1))) s1) = rt_new).
    { cbn [set_rt s_rt]. rewrite Hs1. reflexivity. }
    apply HQ; [exact Hd| | |]; rewrite Hst; [apply Inv_new; exact HR|apply rt_abs_new|reflexivity].
  - apply wp_bind. apply frame0_use; [apply frame0_drop_elems|]. intros [] s1 Hs1.
    apply wp_bind. apply frame0_use; [apply frameU_when, frame0_tick|]. intros [] s2 Hs2. wp_steps.
    assert (Hst : s_rt (set_rt (RT (hb_empty (hB (main (s_rt s)))) (lo (s_rt s2))) s2) = RT (hb_empty (hB (main (s_rt s)))) None).
    { cbn [set_rt s_rt]. rewrite Hs2, Hs1. reflexivity. }
    apply HQ; [exact Hd| | |]; rewrite Hst.
    + apply Inv_empty_main; assumption.
    + unfold rt_abs. cbn [main lo hb_empty hel]. apply (left_id_L ∅ (∪)).
    + reflexivity.
Qed.

Lemma map_into_iter_spec j (Q : list (N * N * N) -> st -> Prop) (U : panic -> st -> Prop) s :
  Inv R ES (s_rt s) ->
  (forall l s', drain_of (s_rt s) l -> Q (map elem3 (firstn (N.to_nat j) l)) s') ->
  wp (map_into_iter j) Q U s.
Proof.
  intros HI HQ. unfold map_into_iter. wp_steps.
  apply drain_order_spec; [exact HI|]. intros l Hd.
  apply wp_bind. apply frame0_use; [apply frame0_drop_elems|]. intros [] s1 Hs1.
  apply wp_bind. apply frame0_use; [apply frameU_when, frame0_tick|]. intros [] s2 Hs2.
  apply wp_bind. apply frame0_use; [apply frame0_hb_free|]. intros [] s3 Hs3. wp_steps.
  apply HQ. exact Hd.
Qed.

End IterProofs.
