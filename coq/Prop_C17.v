(* C17 — Behaviour is identical in debug and release builds
   Statements only: each theorem restates a lemma of Theorems.v and is closed by [exact]. *)
From stdpp Require Import gmap list.
From Coq Require Import NArith.
From G Require Import Arith Monad Types Inv Raw RawProofs Map MapProofs IterProofs CloneProofs Cost EntryProofs EntryCost Fill WorldProofs Theorems.
Local Open Scope N_scope.

(* the model has one behaviour for both build profiles: nothing in it reads the profile flag *)
Theorem C17_profile_independent : forall R z e w t,
  step (Cfg R true z e) w t = step (Cfg R false z e) w t.
Proof. exact T_C17_profile_independent. Qed.

Theorem C17_run_profile_independent : forall R z e ts w acc,
  run (Cfg R true z e) w ts acc = run (Cfg R false z e) w ts acc.
Proof. exact T_C17_run_profile_independent. Qed.

Theorem C17_no_assertion_fires : forall c w t p w',
  0 < cR c -> WInv c w -> core_op (t_op t) -> step c w t = Unwind p w' -> expected_panic p.
Proof. exact T_C17_no_assertion_fires. Qed.

Theorem C17_sizes_fit : forall c r,
  Inv (cR c) (cesz c) r ->
  rt_len r <= rt_capacity r /\ rt_capacity r <= isize_max /\ hB (main r) <= isize_max /\
  rt_capacity r + rt_capacity r <= usize_max /\
  match lo r with Some o => olen o <= isize_max /\ hlen (main r) + olen o <= isize_max | None => True end.
Proof. exact T_C17_sizes_fit. Qed.

Print Assumptions C17_profile_independent.
Print Assumptions C17_run_profile_independent.
Print Assumptions C17_no_assertion_fires.
Print Assumptions C17_sizes_fit.
