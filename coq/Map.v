(* Map.v — executable model of src/map.rs (HashMap front-end) over Raw.v, the operation
   language of histories, and [run].  No proofs here. *)
From stdpp Require Import gmap list.
From Coq Require Import NArith Lia.
From G Require Import Arith Monad Types Raw.
Local Open Scope N_scope.

(* what a call returns, canonicalised the same way by the harness *)
Inductive out :=
| OutU
| OutB (b : bool)
| OutN (n : N)
| OutOV (o : option N)                 (* Option<V> *)
| OutOKV (o : option (N * N))          (* Option<(key object, value)> *)
| OutL (l : list (N * N * N))          (* sequence of (key class, key object, value) *)
| OutP (p : panic)                     (* the call panicked (caught) *)
| OutS (l : list out).                 (* observations of a composite call *)

(* steps of an entry()/raw_entry_mut() chain; see [entry_step] *)
Inductive estep :=
| SKey
| SAndModify (d : N)
| SAndReplace (keep : bool) (d : N)
| SOrInsert (v : N) (w : option N)
| SOrInsertWith (v : N) (w : option N)
| SOrInsertWithKey (v : N) (w : option N)
| SInsertE (v : N)
| SOccGet
| SOccGetMut (w : N)
| SOccIntoMut (w : N)
| SOccInsert (v : N)
| SOccRemove
| SOccRemoveEntry
| SOccReplaceEntry (v : N)
| SOccReplaceKey
| SOccReplaceWith (keep : bool) (d : N)
| SVacInsert (v : N) (w : option N)
| SVacIntoKey
(* raw entries only *)
| SRawInsert (kid v : N)
| SRawOrInsert (kid v : N) (w : option N)
| SRawOrInsertWith (kid v : N) (w : option N)
| SRawOccInsertKey (kid : N)
| SRawOccKeyValue
| SRawVacInsert (variant kid v : N) (w : option N).

Inductive op :=
| ONew (s hs cap : N)
| OInsert (s k kid v : N)
| OGet (s variant k w : N)
| ORemove (s : N) (entry : bool) (k : N)
| OClear (s : N)
| OReserve (s n : N)
| OTryReserve (s n : N)
| OShrinkTo (s n : N)
| OIter (s variant delta : N)
| ODrain (s j : N) (forget : bool)
| OIntoIter (s j : N)
| ORetain (s : N) (keep : list N) (delta : N)
| ODrainFilter (s : N) (take : list N) (delta : N) (j : option N) (forget : bool)
| OExtend (s : N) (items : list (N * N * N)) (hint : N)
| OFromIter (s hs : N) (items : list (N * N * N)) (hint : N)
| OClone (s d : N)
| OCloneFrom (d s : N)
| OEq (a b : N)
| ODrop (s : N)
| OEntry (s k kid : N) (steps : list estep)
| ORawEntry (s variant k : N) (steps : list estep)
| ORawGet (s variant k : N)
(* HashSet algebra (the map's values are ()): lazy iterators 0-3, operator forms 4-7; predicates *)
| OSetAlg (kind a b : N)
| OSetPred (kind a b : N)
(* rayon: par_iter / par_keys / par_values / par_iter_mut / par_values_mut under a work-splitting
   schedule (where each of the two producers is cut) *)
| OParIter (s variant delta : N) (splits : list N)
(* rayon: par_extend; the items arrive collected in pieces (one Vec per fold of the schedule) *)
| OParExtend (s : N) (chunks : list (list (N * N * N)))
(* serde: Serialize (the declared length, then every element in iteration order); Deserialize is
   OFromIter with the cautious size hint; HashSet::deserialize_in_place *)
| OSerialize (s : N)
| ODeserInPlace (s : N) (items : list (N * N * N)) (hint : N).

Section Map.
Context (c : cfg).

Definition elem3 (e : elem) : N * N * N := (ek e, ekid e, ev e).

(* overwrite the value of the element with key k, wherever it is *)
Definition set_value (in_main : bool) (k v : N) : M' unit :=
  if in_main then
    t <- getm ;;
    match hel t !! k with
    | Some e => setm (hb_upd t k (Elem k (ekid e) v))
    | None => fault_ FVacant
    end
  else
    o <- getlo ;;
    match o with
    | Some o => match lookup_list k (orem o) with
                | Some e => setlo (Some (Old (oB o) (replace_list (Elem k (ekid e) v) (orem o)) (oit o) (ocnt o)))
                | None => fault_ FVacant
                end
    | None => fault_ FVacant
    end.
Definition set_key (in_main : bool) (k kid : N) : M' unit :=
  if in_main then
    t <- getm ;;
    match hel t !! k with
    | Some e => setm (hb_upd t k (Elem k kid (ev e)))
    | None => fault_ FVacant
    end
  else
    o <- getlo ;;
    match o with
    | Some o => match lookup_list k (orem o) with
                | Some e => setlo (Some (Old (oB o) (replace_list (Elem k kid (ev e)) (orem o)) (oit o) (ocnt o)))
                | None => fault_ FVacant
                end
    | None => fault_ FVacant
    end.

(* HashMap::insert *)
Definition map_insert (k kid v : N) : M' (option N) :=
  on_unwind tick_hash (drop_key kid ;;; drop_val v) ;;;
  x <- rt_find k ;;
  match x with
  | Some (in_main, e) =>
      set_value in_main k v ;;;
      (if in_main then ret tt
       else
         o <- getlo ;;
         debug_check (is_some_b o) 1064 ;;;
         on_unwind (rt_carry c) (drop_val (ev e) ;;; drop_key kid)) ;;;
      drop_key kid ;;;
      ret (Some (ev e))
  | None => rt_insert c (Elem k kid v) ;;; ret None
  end.

(* get / get_key_value / contains_key / get_mut / index / get_key_value_mut *)
Inductive gvar := GGet | GKeyValue | GContains | GGetMut | GIndex | GKeyValueMut.
Definition gvar_of (n : N) : gvar :=
  match n with 0 => GGet | 1 => GKeyValue | 2 => GContains | 3 => GGetMut | 5 => GKeyValueMut | _ => GIndex end.
Definition map_get (variant : gvar) (k w : N) : M' out :=
  tick_hash ;;;
  x <- rt_find k ;;
  match variant with
  | GGet => ret (OutOV (option_map (fun x => ev (snd x)) x))
  | GKeyValue => ret (OutOKV (option_map (fun x => (ekid (snd x), ev (snd x))) x))
  | GContains => ret (OutB (is_some_b x))
  | GGetMut => match x with
               | Some (im, e) => set_value im k w ;;; ret (OutOV (Some (ev e)))
               | None => ret (OutOV None)
               end
  | GKeyValueMut => match x with
                    | Some (im, e) => set_value im k w ;;; ret (OutOKV (Some (ekid e, ev e)))
                    | None => ret (OutOKV None)
                    end
  | GIndex => match x with
              | Some (_, e) => ret (OutOV (Some (ev e)))
              | None => unwind PIndexMissing
              end
  end.

Definition map_remove_entry (k : N) : M' (option elem) :=
  tick_hash ;;;
  x <- rt_find k ;;
  match x with
  | Some (im, _) => e <- rt_remove c im k ;; ret (Some e)
  | None => ret None
  end.

Definition bump (delta : N) (e : elem) : elem := Elem (ek e) (ekid e) (ev e + delta).

(* iter / keys / values (delta = 0) and iter_mut / values_mut (every value += delta) *)
Definition map_iter (delta : N) : M' (list (N * N * N)) :=
  l <- rt_iter ;;
  iterM (fun x => when (negb (delta =? 0)) (set_value (fst x) (ek (snd x)) (ev (snd x) + delta))) l ;;;
  ret (map (fun x => elem3 (snd x)) l).

(* rayon: the main table's buckets and what the old table's cached iterator still holds are two
   producers, each cut into pieces handed to workers; [splits] says where *)
Fixpoint chop {A} (sp : list nat) (l : list A) : list (list A) :=
  match sp with
  | [] => [l]
  | n :: sp' => firstn n l :: chop sp' (skipn n l)
  end.
Definition map_par_iter (delta : N) (splits : list N) : M' (list (N * N * N)) :=
  l <- rt_iter ;;
  let pieces := chop (List.map N.to_nat splits) l in
  let visited := concat pieces in
  iterM (fun x => when (negb (delta =? 0)) (set_value (fst x) (ek (snd x)) (ev (snd x) + delta))) visited ;;;
  ret (map (fun x => elem3 (snd x)) visited).

Definition inb (k : N) (l : list N) : bool := existsb (N.eqb k) l.

(* retain(f): f(k, v) = k ∈ keep, and it adds delta to every value it sees *)
Definition map_retain (keep : list N) (delta : N) : M' (list (N * N * N)) :=
  l <- rt_iter ;;
  iterM (fun x =>
           let e := snd x in
           cb ;;;
           when (negb (delta =? 0)) (set_value (fst x) (ek e) (ev e + delta)) ;;;
           when (negb (inb (ek e) keep)) (rt_erase c (fst x) (ek e))) l ;;;
  ret (map (fun x => elem3 (snd x)) l).

(* DrainFilter: up to [fuel] calls of next() over the remaining buckets l.  Each visited element
   is shown to the predicate (which adds delta to its value); an accepted one is removed and
   yielded.  Returns what was yielded and the buckets not visited yet. *)
Fixpoint df_run (take : list N) (delta : N) (l : list (bool * elem)) (fuel : nat) (acc : list elem)
  : M' (list elem * list (bool * elem)) :=
  match l with
  | [] => ret (acc, [])
  | x :: l' =>
      match fuel with
      | O => ret (acc, l)
      | S f =>
          let e := snd x in
          cb ;;;
          when (negb (delta =? 0)) (set_value (fst x) (ek e) (ev e + delta)) ;;;
          if inb (ek e) take then (e' <- rt_remove c (fst x) (ek e) ;; df_run take delta l' f (acc ++ [e']))
          else df_run take delta l' (S f) acc
      end
  end.
(* DrainFilter::drop: the remaining buckets are run through the predicate; what it accepts is
   removed and dropped at once *)
Fixpoint df_drop (take : list N) (delta : N) (l : list (bool * elem)) : M' unit :=
  match l with
  | [] => ret tt
  | x :: l' =>
      let e := snd x in
      cb ;;;
      when (negb (delta =? 0)) (set_value (fst x) (ek e) (ev e + delta)) ;;;
      (if inb (ek e) take then (e' <- rt_remove c (fst x) (ek e) ;; drop_elem e') else ret tt) ;;;
      df_drop take delta l'
  end.
(* the calls of next() made by the user: if the predicate panics there, the DrainFilter is
   dropped while unwinding and its Drop runs the remaining buckets (those after the one whose
   predicate call panicked) through the predicate, removing and dropping what it accepts *)
Fixpoint df_run_u (take : list N) (delta : N) (l : list (bool * elem)) (fuel : nat) (acc : list elem)
  : M' (list elem * list (bool * elem)) :=
  match l with
  | [] => ret (acc, [])
  | x :: l' =>
      match fuel with
      | O => ret (acc, l)
      | S f =>
          let e := snd x in
          on_unwind cb (df_drop take delta l') ;;;
          when (negb (delta =? 0)) (set_value (fst x) (ek e) (ev e + delta)) ;;;
          if inb (ek e) take then (e' <- rt_remove c (fst x) (ek e) ;; df_run_u take delta l' f (acc ++ [e']))
          else df_run_u take delta l' (S f) acc
      end
  end.

(* drain_filter(f) consumed for j items (None: to the end), then dropped or forgotten *)
Definition map_drain_filter (take : list N) (delta : N) (j : option N) (forget : bool) : M' (list (N * N * N)) :=
  l <- rt_iter ;;
  let n := length l in
  r <- df_run_u take delta l (match j with Some j => N.to_nat j | None => S n end) [] ;;
  (if forget then ret tt else df_drop take delta (snd r)) ;;;
  ret (map elem3 (fst r)).

Definition map_reserve (fallible : bool) (n : N) : M' bool := rt_reserve c fallible n.

(* extend: reserve by the hint, then insert one by one *)
Definition map_extend (items : list (N * N * N)) (hint : N) : M' unit :=
  s <- get ;;
  let reserve := if rt_len (s_rt s) =? 0 then hint else hint / 2 + hint mod 2 in
  on_unwind (rt_reserve c false reserve) (iterM (fun x => drop_key (snd (fst x)) ;;; drop_val (snd x)) items) ;;;
  iterM (fun x => let '(k, kid, v) := x in
                  o <- map_insert k kid v ;;
                  match o with Some v' => drop_val v' | None => ret tt end) items.

(* rayon par_extend: the items are collected in parallel into a list of Vecs (helpers::collect);
   then reserve for all of them and extend sequentially, one Vec after the other *)
Definition map_par_extend (chunks : list (list (N * N * N))) : M' unit :=
  s <- get ;;
  let len := N.of_nat (length (concat chunks)) in
  let reserve := if rt_len (s_rt s) =? 0 then len else (len + 1) / 2 in
  on_unwind (rt_reserve c false reserve) (iterM (fun x => drop_key (snd (fst x)) ;;; drop_val (snd x)) (concat chunks)) ;;;
  iterM (fun ch => map_extend ch (N.of_nat (length ch))) chunks.

(* serde Serialize: collect_map / collect_seq over iter(): the iterator's exact length is declared
   first, then each element is emitted in iteration order *)
Definition map_serialize : M' (N * list (N * N * N)) :=
  s <- get ;;
  l <- rt_iter ;;
  ret (rt_len (s_rt s), map (fun x => elem3 (snd x)) l).
Definition cautious (hint : N) : N := N.min hint 4096.
(* HashSet::deserialize_in_place: clear, reserve by the cautious hint, insert one by one *)
Definition map_deser_in_place (items : list (N * N * N)) (hint : N) : M' unit :=
  rt_clear ;;;
  rt_reserve c false (cautious hint) ;;;
  iterM (fun x => let '(k, kid, v) := x in
                  o <- map_insert k kid v ;;
                  match o with Some v' => drop_val v' | None => ret tt end) items.

(* the owning iterators: drain() and into_iter(), consumed for j items, then dropped/forgotten *)
Definition drain_order : M' (list elem) :=
  t <- getm ;;
  lm <- take_order (hel t) ;;
  o <- getlo ;;
  lold <- cursor_view o ;;
  debug_check (match o with Some o => oit o =? olen o | None => true end) 1390 ;;;
  ret (lold ++ lm).

Definition map_drain (j : N) (forget : bool) : M' (list (N * N * N)) :=
  t <- getm ;;
  o <- getlo ;;
  l <- drain_order ;;
  let nold := match o with Some o => N.to_nat (oit o) | None => O end in
  let j := N.to_nat j in
  let yielded := firstn j l in
  let rest := skipn j l in
  setlo None ;;;
  (* the old table is owned by the iterator: released when its last element has been yielded
     and next() is called again, or when the iterator is dropped *)
  (if forget then
     when (is_some_b o && (nold <? j)%nat) tick_free ;;;
     setm hb_new
   else
     drop_elems rest ;;;
     when (is_some_b o) tick_free ;;;
     setm (hb_empty (hB t))) ;;;
  ret (map elem3 yielded).

(* into_iter(): the map is consumed; returns yielded elements *)
Definition map_into_iter (j : N) : M' (list (N * N * N)) :=
  t <- getm ;;
  o <- getlo ;;
  l <- drain_order ;;
  let j := N.to_nat j in
  drop_elems (skipn j l) ;;;
  when (is_some_b o) tick_free ;;;
  hb_free t ;;;
  setlo None ;;; setm hb_new ;;;
  ret (map elem3 (firstn j l)).

(* drop(map) *)
Definition map_drop : M' unit :=
  t <- getm ;;
  o <- getlo ;;
  drop_elems (map_to_list (hel t)).*2 ;;;
  hb_free t ;;;
  match o with Some o => drop_elems (orem o) ;;; tick_free | None => ret tt end ;;;
  setlo None ;;; setm hb_new.

(* PartialEq::eq(self, other): other is read-only *)
Definition map_equal (other : rt) : M' bool :=
  s <- get ;;
  if negb (rt_len (s_rt s) =? rt_len other) then ret false
  else
    l <- rt_iter ;;
    (fix go (l : list (bool * elem)) : M' bool :=
       match l with
       | [] => ret true
       | x :: l =>
           tick_hash ;;;
           match rt_find_pure other (ek (snd x)) with
           | Some (_, e') => if ev e' =? ev (snd x) then go l else ret false
           | None => ret false
           end
       end) l.

(* ---------------------------------------------------------------- entry API *)

(* the state of an Entry / RawEntryMut value *)
Inductive ent :=
| EOcc (in_main : bool) (k : N) (held : option N)   (* held: OccupiedEntry.key *)
| EVac (k : N) (held : option N)                    (* VacantEntry.key; None for raw entries *)
| EDone.

Definition ent_elem (in_main : bool) (k : N) : M' elem :=
  x <- rt_find k ;;
  match x with
  | Some (im, e) => if Bool.eqb im in_main then ret e else fault_ FVacant
  | None => fault_ FVacant
  end.

Definition drop_held (h : option N) : M' unit := match h with Some kid => drop_key kid | None => ret tt end.

(* VacantEntry::insert / insert_entry, RawVacantEntryMut::insert*: the new element is in main *)
Definition vac_insert (k kid v : N) : M' unit := rt_insert c (Elem k kid v).

Definition write_through (k : N) (w : option N) : M' unit :=
  match w with Some w => set_value true k w | None => ret tt end.

(* replace_entry_with on an occupied handle: f(&k, v) = if keep then Some (v + d) else None *)
Definition occ_replace_with (raw : bool) (im : bool) (k : N) (held : option N) (keep : bool) (d : N) : M' ent :=
  e0 <- ent_elem im k ;;
  b <- on_unwind
         (rt_replace_bucket_with c im k
            (fun e => on_unwind cb (drop_elem e) ;;;
                      if keep then ret (Some (Elem (ek e) (ekid e) (ev e + d)))
                      else drop_val (ev e) ;;; when raw (drop_key (ekid e)) ;;; ret None))
         (drop_held held) ;;
  if b then ret (EOcc im k held)
  else if raw then ret (EVac k None)
  else drop_held held ;;; ret (EVac k (Some (ekid e0))).

Definition entry_step (raw : bool) (e : ent) (s : estep) : M' (ent * out) :=
  match s, e with
  | SKey, EOcc im k held =>
      x <- ent_elem im k ;;
      ret (e, OutN (ekid x))
  | SKey, EVac k (Some h) => ret (e, OutN h)
  | SAndModify d, EOcc im k held =>
      (* a panicking closure drops the entry, and with it the key it holds *)
      x <- ent_elem im k ;; on_unwind cb (drop_held held) ;;; set_value im k (ev x + d) ;;; ret (e, OutU)
  | SAndModify d, EVac _ _ => ret (e, OutU)
  | SAndReplace keep d, EOcc im k held => e' <- occ_replace_with raw im k held keep d ;; ret (e', OutU)
  | SAndReplace keep d, EVac _ _ => ret (e, OutU)
  | SOrInsert v w, EOcc im k held =>
      x <- ent_elem im k ;; drop_val v ;;; drop_held held ;;;
      match w with Some w => set_value im k w | None => ret tt end ;;;
      ret (EDone, OutN (ev x))
  | SOrInsert v w, EVac k (Some h) => vac_insert k h v ;;; write_through k w ;;; ret (EDone, OutN v)
  | SOrInsertWith v w, EOcc im k held =>
      x <- ent_elem im k ;; drop_held held ;;;
      match w with Some w => set_value im k w | None => ret tt end ;;;
      ret (EDone, OutN (ev x))
  | SOrInsertWith v w, EVac k (Some h) =>
      on_unwind cb (drop_key h) ;;; vac_insert k h v ;;; write_through k w ;;; ret (EDone, OutN v)
  | SOrInsertWithKey v w, EOcc im k held =>
      x <- ent_elem im k ;; drop_held held ;;;
      match w with Some w => set_value im k w | None => ret tt end ;;;
      ret (EDone, OutN (ev x))
  | SOrInsertWithKey v w, EVac k (Some h) =>
      on_unwind cb (drop_key h) ;;; vac_insert k h v ;;; write_through k w ;;; ret (EDone, OutN v)
  | SInsertE v, EOcc im k held =>
      x <- ent_elem im k ;; set_value im k v ;;; drop_val (ev x) ;;; ret (e, OutU)
  | SInsertE v, EVac k (Some h) => vac_insert k h v ;;; ret (EOcc true k None, OutU)
  | SOccGet, EOcc im k held => x <- ent_elem im k ;; ret (e, OutN (ev x))
  | SOccGetMut w, EOcc im k held => x <- ent_elem im k ;; set_value im k w ;;; ret (e, OutN (ev x))
  | SOccIntoMut w, EOcc im k held =>
      x <- ent_elem im k ;; set_value im k w ;;; drop_held held ;;; ret (EDone, OutN (ev x))
  | SOccInsert v, EOcc im k held => x <- ent_elem im k ;; set_value im k v ;;; ret (e, OutN (ev x))
  | SOccRemove, EOcc im k held =>
      x <- rt_remove c im k ;; drop_key (ekid x) ;;; drop_held held ;;; ret (EDone, OutN (ev x))
  | SOccRemoveEntry, EOcc im k held =>
      x <- rt_remove c im k ;; drop_held held ;;; ret (EDone, OutOKV (Some (ekid x, ev x)))
  | SOccReplaceEntry v, EOcc im k held =>
      match held with
      | None => drop_val v ;;; unwind PUnwrapNone
      | Some h => x <- ent_elem im k ;; set_key im k h ;;; set_value im k v ;;;
                  ret (EDone, OutOKV (Some (ekid x, ev x)))
      end
  | SOccReplaceKey, EOcc im k held =>
      match held with
      | None => unwind PUnwrapNone
      | Some h => x <- ent_elem im k ;; set_key im k h ;;; ret (EDone, OutN (ekid x))
      end
  | SOccReplaceWith keep d, EOcc im k held => e' <- occ_replace_with raw im k held keep d ;; ret (e', OutU)
  | SVacInsert v w, EVac k (Some h) => vac_insert k h v ;;; write_through k w ;;; ret (EDone, OutN v)
  | SVacIntoKey, EVac k (Some h) => ret (EDone, OutN h)
  (* raw entries *)
  | SRawInsert kid v, EOcc im k _ =>
      x <- ent_elem im k ;; set_value im k v ;;;
      drop_val (ev x) ;;; drop_key kid ;;; ret (e, OutU)
  | SRawInsert kid v, EVac k None =>
      on_unwind tick_hash (drop_key kid ;;; drop_val v) ;;; vac_insert k kid v ;;; ret (EOcc true k None, OutU)
  | SRawOrInsert kid v w, EOcc im k _ =>
      x <- ent_elem im k ;; drop_key kid ;;; drop_val v ;;;
      match w with Some w => set_value im k w | None => ret tt end ;;;
      ret (EDone, OutOKV (Some (ekid x, ev x)))
  | SRawOrInsert kid v w, EVac k None =>
      on_unwind tick_hash (drop_key kid ;;; drop_val v) ;;; vac_insert k kid v ;;; write_through k w ;;; ret (EDone, OutOKV (Some (kid, v)))
  | SRawOrInsertWith kid v w, EOcc im k _ =>
      x <- ent_elem im k ;;
      match w with Some w => set_value im k w | None => ret tt end ;;;
      ret (EDone, OutOKV (Some (ekid x, ev x)))
  | SRawOrInsertWith kid v w, EVac k None =>
      cb ;;; on_unwind tick_hash (drop_key kid ;;; drop_val v) ;;;
      vac_insert k kid v ;;; write_through k w ;;; ret (EDone, OutOKV (Some (kid, v)))
  | SRawOccInsertKey kid, EOcc im k _ => x <- ent_elem im k ;; set_key im k kid ;;; ret (e, OutN (ekid x))
  | SRawOccKeyValue, EOcc im k _ => x <- ent_elem im k ;; ret (e, OutOKV (Some (ekid x, ev x)))
  | SRawVacInsert variant kid v w, EVac k None =>
      (* 0: insert (hashes the key), 1: insert_hashed_nocheck, 2: insert_with_hasher *)
      when (variant =? 0) (on_unwind tick_hash (drop_key kid ;;; drop_val v)) ;;;
      vac_insert k kid v ;;; write_through k w ;;; ret (EDone, OutOKV (Some (kid, v)))
  | _, _ => fault_ FBadOp
  end.

Fixpoint entry_steps (raw : bool) (e : ent) (ss : list estep) (acc : list out) : M' (list out) :=
  match ss with
  | [] => (match e with EOcc _ _ held => drop_held held | EVac _ held => drop_held held | EDone => ret tt end) ;;;
          ret acc
  | s :: ss =>
      r <- entry_step raw e s ;;
      entry_steps raw (fst r) ss (acc ++ [snd r])
  end.

(* HashMap::entry(key) followed by a chain *)
Definition map_entry (k kid : N) (ss : list estep) : M' (list out) :=
  on_unwind tick_hash (drop_key kid) ;;;
  x <- rt_find k ;;
  entry_steps false (match x with Some (im, _) => EOcc im k (Some kid) | None => EVac k (Some kid) end) ss [].

(* raw_entry_mut().from_key / from_key_hashed_nocheck / from_hash, followed by a chain *)
Definition map_raw_entry (variant k : N) (ss : list estep) : M' (list out) :=
  when (variant =? 0) tick_hash ;;;
  x <- rt_find k ;;
  entry_steps true (match x with Some (im, _) => EOcc im k None | None => EVac k None end) ss [].

(* raw_entry().from_key / from_key_hashed_nocheck / from_hash *)
Definition map_raw_get (variant k : N) : M' out :=
  when (variant =? 0) tick_hash ;;;
  x <- rt_find k ;;
  ret (OutOKV (option_map (fun x => (ekid (snd x), ev (snd x))) x)).

End Map.

(* ================================================================= worlds and histories *)

Record mslot := MS { m_rt : rt; m_hs : N; m_filed : N }.
Record world := W { w_maps : gmap N mslot; w_log : log; w_fuse : option N }.
Definition world0 : world := W ∅ log0 None.

Record traced := T { t_op : op; t_on : N; t_tomb : N; t_perm : list N; t_qperm : list N }.

Definition load (w : world) (m : mslot) (on : N * N) (perm : list N * list N) : st :=
  St (m_rt m) (w_log w) (w_fuse w) (fst on) (snd on) (fst perm) (snd perm).
(* hs: the map's hash_builder; filed: the hasher its elements are filed under (they differ only
   after an interrupted clone_from) *)
Definition store (w : world) (i : N) (hs filed : N) (s : st) : world :=
  W (<[i := MS (s_rt s) hs filed]> (w_maps w)) (s_log s) (s_fuse s).

(* run a single-map action on slot i; lawful histories only use a map whose elements are filed
   under its own hasher (need_hasher) *)
Definition with_slot_gen {A} (need_hasher : bool) (w : world) (i : N) (on : N * N) (perm : list N * list N) (m : M' A) : res world A :=
  match w_maps w !! i with
  | None => Fault FBadOp
  | Some ms =>
      if need_hasher && negb (m_filed ms =? m_hs ms) then Fault FBadOp else
      match m (load w ms on perm) with
      | Ok a s => Ok a (store w i (m_hs ms) (m_filed ms) s)
      | Unwind p s => Unwind p (store w i (m_hs ms) (m_filed ms) s)
      | Fault f => Fault f
      end
  end.
Definition with_slot {A} := @with_slot_gen A false.
Definition with_slot_h {A} := @with_slot_gen A true.

Definition slot_of (w : world) (i : N) : option mslot := w_maps w !! i.
Definition set_world_fuse (f : option N) (w : world) : world := W (w_maps w) (w_log w) f.
Definition del_slot (i : N) (w : world) : world := W (delete i (w_maps w)) (w_log w) (w_fuse w).

(* ---------------------------------------------------------------- HashSet algebra
   The set-algebra iterators of src/set.rs are built from iter() and contains() on the two
   operands; they are modelled as such (in a canonical iteration order: results are compared
   as sorted sequences, so that duplicates show but the order does not). *)
Definition elem3' (e : elem) : N * N * N := (ek e, ekid e, ev e).
Fixpoint insert_sorted (x : N * N * N) (l : list (N * N * N)) : list (N * N * N) :=
  match l with
  | [] => [x]
  | y :: l' => if fst (fst x) <=? fst (fst y) then x :: l else y :: insert_sorted x l'
  end.
Definition sorted3 (l : list elem) : list (N * N * N) := foldr insert_sorted [] (map elem3' l).

Definition iter_elems (r : rt) : list elem :=
  (map_to_list (hel (main r))).*2 ++
  match lo r with Some o => firstn (N.to_nat (oit o)) (orem o) | None => [] end.
Definition contains (r : rt) (k : N) : bool :=
  match rt_find_pure r k with Some _ => true | None => false end.
Definition s_difference (a b : rt) : list elem := List.filter (fun e => negb (contains b (ek e))) (iter_elems a).
Definition s_symmetric_difference (a b : rt) : list elem := s_difference a b ++ s_difference b a.
Definition s_intersection (a b : rt) : list elem :=
  if rt_len a <=? rt_len b then List.filter (fun e => contains b (ek e)) (iter_elems a)
  else List.filter (fun e => contains a (ek e)) (iter_elems b).
Definition s_union (a b : rt) : list elem :=
  if rt_len b <=? rt_len a then iter_elems b ++ s_difference a b
  else iter_elems a ++ s_difference b a.
Definition s_alg (kind : N) (a b : rt) : list elem :=
  match kind with
  | 0 => s_difference a b
  | 1 => s_symmetric_difference a b
  | 2 => s_intersection a b
  | _ => s_union a b
  end.
(* &a - &b, &a ^ &b, &a & &b, &a | &b: the lazy iterator, cloned and collected into a new set *)
Definition collect (l : list elem) : list elem := (map_to_list (list_to_emap l)).*2.
(* the rayon variants (kind 8-11): par_intersection always filters self, par_union always chains
   other's difference after self *)
Definition s_alg_par (kind : N) (a b : rt) : list elem :=
  match kind with
  | 0 => s_difference a b
  | 1 => s_symmetric_difference a b
  | 2 => List.filter (fun e => contains b (ek e)) (iter_elems a)
  | _ => iter_elems a ++ s_difference b a
  end.
Definition alg_kind (kind : N) : N := if kind <? 4 then kind else if kind <? 8 then kind - 4 else kind - 8.
Definition set_alg (kind : N) (a b : rt) : list (N * N * N) :=
  if kind <? 4 then sorted3 (s_alg kind a b)
  else if kind <? 8 then sorted3 (collect (s_alg (kind - 4) a b))
  else sorted3 (s_alg_par (kind - 8) a b).

Definition s_is_disjoint (a b : rt) : bool := forallb (fun e => negb (contains b (ek e))) (iter_elems a).
Definition s_is_subset (a b : rt) : bool := (rt_len a <=? rt_len b) && forallb (fun e => contains b (ek e)) (iter_elems a).
Definition s_eq (a b : rt) : bool := (rt_len a =? rt_len b) && forallb (fun e => contains b (ek e)) (iter_elems a).
(* par_is_subset checks no lengths first; par_eq does *)
Definition s_par_is_subset (a b : rt) : bool := forallb (fun e => contains b (ek e)) (iter_elems a).
Definition set_pred (kind : N) (a b : rt) : bool :=
  match kind with
  | 0 => s_is_disjoint a b
  | 1 => s_is_subset a b
  | 2 => s_is_subset b a
  | 3 => s_eq a b
  | 4 => s_is_disjoint a b
  | 5 => s_par_is_subset a b
  | 6 => s_par_is_subset b a
  | _ => (rt_len a =? rt_len b) && s_par_is_subset a b
  end.
Definition pred_kind (kind : N) : N := if kind <? 4 then kind else kind - 4.

Section Step.
Context (c : cfg).

Definition rmap {A B} (f : A -> B) (r : res world A) : res world B :=
  match r with
  | Ok a w => Ok (f a) w
  | Unwind p w => Unwind p w
  | Fault x => Fault x
  end.

Definition step (w : world) (t : traced) : res world out :=
  let on := (t_on t, t_tomb t) in let perm := (t_perm t, t_qperm t) in
  match t_op t with
  | ONew s hs cap =>
      let w0 := W (<[s := MS rt_new hs hs]> (w_maps w)) (w_log w) (w_fuse w) in
      with_slot w0 s on perm
        (t <- hb_with_capacity c false cap ;;
         match t with Some t => setm t ;;; ret OutU | None => fault_ FUnreachable end)
  | OInsert s k kid v => rmap OutOV (with_slot_h w s on perm (map_insert c k kid v))
  | OGet s variant k wv => with_slot_h w s on perm (map_get (gvar_of variant) k wv)
  | ORemove s entry k =>
      with_slot_h w s on perm
        (r <- map_remove_entry c k ;;
         match r with
         | Some e => if entry then ret (OutOKV (Some (ekid e, ev e)))
                     else drop_key (ekid e) ;;; ret (OutOV (Some (ev e)))
         | None => ret (if entry then OutOKV None else OutOV None)
         end)
  | OClear s => rmap (fun _ => OutU) (with_slot w s on perm rt_clear)
  | OReserve s n => rmap (fun _ => OutU) (with_slot_h w s on perm (map_reserve c false n))
  | OTryReserve s n => rmap OutB (with_slot_h w s on perm (map_reserve c true n))
  | OShrinkTo s n => rmap (fun _ => OutU) (with_slot_h w s on perm (rt_shrink_to c n))
  | OIter s variant delta => rmap OutL (with_slot w s on perm (map_iter delta))
  | ODrain s j forget => rmap OutL (with_slot w s on perm (map_drain j forget))
  | OIntoIter s j =>
      match with_slot w s on perm (map_into_iter j) with
      | Ok l w' => Ok (OutL l) (del_slot s w')
      | Unwind p w' => Unwind p (del_slot s w')
      | Fault x => Fault x
      end
  | ORetain s keep delta => rmap OutL (with_slot w s on perm (map_retain c keep delta))
  | ODrainFilter s take delta j forget =>
      rmap OutL (with_slot w s on perm (map_drain_filter c take delta j forget))
  | OExtend s items hint => rmap (fun _ => OutU) (with_slot_h w s on perm (map_extend c items hint))
  | OFromIter s hs items hint =>
      let w0 := W (<[s := MS rt_new hs hs]> (w_maps w)) (w_log w) (w_fuse w) in
      rmap (fun _ => OutU)
        (with_slot w0 s on perm
           (t <- hb_with_capacity c false hint ;;
            match t with Some t => setm t | None => fault_ FUnreachable end ;;;
            iterM (fun x => let '(k, kid, v) := x in
                            o <- map_insert c k kid v ;;
                            match o with Some v' => drop_val v' | None => ret tt end) items))
  | OClone s d =>
      match w_maps w !! s with
      | None => Fault FBadOp
      | Some ms =>
          if negb (m_filed ms =? m_hs ms) then Fault FBadOp else
          match rt_clone c (load w ms on perm) with
          | Ok r st' => Ok (OutN (m_hs ms)) (W (<[d := MS r (m_hs ms) (m_hs ms)]> (w_maps w)) (s_log st') (s_fuse st'))
          | Unwind p st' => Unwind p (W (w_maps w) (s_log st') (s_fuse st'))
          | Fault x => Fault x
          end
      end
  | OCloneFrom d s =>
      match w_maps w !! s, w_maps w !! d with
      | Some src, Some dst =>
          if negb (m_filed src =? m_hs src) then Fault FBadOp else
          (* the elements are re-filed under the source's hasher as they are cloned; the
             destination's own hash_builder is replaced only when everything succeeded *)
          match rt_clone_from c (m_rt src) (load w dst on perm) with
          | Ok _ st' => Ok (OutN (m_hs src)) (store w d (m_hs src) (m_hs src) st')
          | Unwind p st' => Unwind p (store w d (m_hs dst) (m_hs src) st')
          | Fault x => Fault x
          end
      | _, _ => Fault FBadOp
      end
  | OEq a b =>
      match w_maps w !! b with
      | None => Fault FBadOp
      | Some mb => rmap OutB (with_slot w a on perm (map_equal (m_rt mb)))
      end
  | ODrop s =>
      match with_slot w s on perm map_drop with
      | Ok _ w' => Ok OutU (del_slot s w')
      | Unwind p w' => Unwind p (del_slot s w')
      | Fault x => Fault x
      end
  | OEntry s k kid ss => rmap OutS (with_slot_h w s on perm (map_entry c k kid ss))
  | ORawEntry s variant k ss => rmap OutS (with_slot_h w s on perm (map_raw_entry c variant k ss))
  | ORawGet s variant k => with_slot_h w s on perm (map_raw_get variant k)
  | OSetAlg kind a b =>
      match w_maps w !! a, w_maps w !! b with
      | Some ma, Some mb =>
          if negb (m_filed ma =? m_hs ma) || negb (m_filed mb =? m_hs mb) then Fault FBadOp
          else Ok (OutL (set_alg kind (m_rt ma) (m_rt mb))) w
      | _, _ => Fault FBadOp
      end
  | OSetPred kind a b =>
      match w_maps w !! a, w_maps w !! b with
      | Some ma, Some mb =>
          if negb (m_filed ma =? m_hs ma) || negb (m_filed mb =? m_hs mb) then Fault FBadOp
          else Ok (OutB (set_pred kind (m_rt ma) (m_rt mb))) w
      | _, _ => Fault FBadOp
      end
  | OParIter s variant delta splits =>
      rmap (fun l => OutL (foldr insert_sorted [] l)) (with_slot w s on perm (map_par_iter delta splits))
  | OParExtend s chunks => rmap (fun _ => OutU) (with_slot_h w s on perm (map_par_extend c chunks))
  | OSerialize s => rmap (fun r => OutS [OutN (fst r); OutL (snd r)]) (with_slot w s on perm map_serialize)
  | ODeserInPlace s items hint => rmap (fun _ => OutU) (with_slot_h w s on perm (map_deser_in_place c items hint))
  end.

(* the harness catches every panic: the history goes on *)
Definition step_caught (w : world) (t : traced) : world * out + fault :=
  match step w t with
  | Ok o w' => inl (w', o)
  | Unwind p w' => inl (w', OutP p)
  | Fault f => inr f
  end.

Fixpoint run (w : world) (ts : list traced) (acc : list out) : world * list out + fault :=
  match ts with
  | [] => inl (w, acc)
  | t :: ts =>
      match step_caught w t with
      | inl (w', o) => run w' ts (acc ++ [o])
      | inr f => inr f
      end
  end.

End Step.

(* what the hook shows of one map: main_len, main_cap, main_buckets, old (len, buckets, cursor) *)
Definition summary (m : mslot) : N * N * N * option (N * N * N) :=
  let r := m_rt m in
  (hlen (main r), rt_capacity r, hB (main r),
   option_map (fun o => (olen o, oB o, oit o)) (lo r)).

(* full contents of one map, for the checkpoint comparison: main table sorted by key, old table
   in cursor order *)
Definition dump (m : mslot) : list (N * N * N) * list (N * N * N) :=
  (foldr insert_sorted [] (map (fun p => elem3 (snd p)) (map_to_list (hel (main (m_rt m))))),
   match lo (m_rt m) with Some o => map elem3 (orem o) | None => [] end).
