(* C12 — Entry and raw-entry handles stay coherent with the map
   Statements only: each theorem restates a lemma of Theorems.v and is closed by [exact]. *)
From stdpp Require Import gmap list.
From Coq Require Import NArith.
From G Require Import Arith Monad Types Inv Raw RawProofs Map MapProofs IterProofs CloneProofs Cost EntryProofs EntryCost Fill WorldProofs Theorems.
Local Open Scope N_scope.

(* entry(k) / raw_entry_mut() report Occupied exactly when the key is present, and the handle
   records where the element is stored: in the new table, or among the old table's leftovers *)
Theorem C12_occupied_iff_present : forall c r k,
  Inv (cR c) (cesz c) r ->
  (rt_abs r !! k = None <-> rt_find_pure r k = None) /\
  (forall im x, rt_find_pure r k = Some (im, x) ->
     rt_abs r !! k = Some x /\
     if im then hel (main r) !! k = Some x
     else hel (main r) !! k = None /\ exists o, lo r = Some o /\ lookup_list k (orem o) = Some x).
Proof. exact T_C12_occupied_iff. Qed.

(* every accessor of a handle acts on the element the handle designates, wherever it is stored:
   one step of a chain refines the reference step on the plain contents, keeps the invariant,
   and leaves a handle that still designates its element *)
Theorem C12_step_acts_on_designated_element : forall c raw e st0 s,
  Inv (cR c) (cesz c) (s_rt s) -> ent_ok (s_rt s) e ->
  wp (entry_step c raw e st0) (EntryProofs.step_Q c raw s e st0) (EntryProofs.step_U c raw s e st0) s.
Proof. exact T_C12_step. Qed.

(* an inserting call returns a handle that designates the newly stored element, which lies in
   the new (main) table even when the call started a resize or moved other elements; writes
   through the handle are seen by later lookups because later steps and lookups find that
   same element (T_C12_step, T_C12_chain) *)
Theorem C12_inserting_call_handle_in_main : forall c raw e st0 s r s' im k held,
  Inv (cR c) (cesz c) (s_rt s) -> ent_ok (s_rt s) e ->
  entry_step c raw e st0 s = Ok r s' -> fst r = EOcc im k held ->
  (exists kk h, e = EVac kk h) ->
  im = true /\ exists x, hel (main (s_rt s')) !! k = Some x /\ rt_abs (s_rt s') !! k = Some x.
Proof. exact T_C12_insert_handle. Qed.

(* whole chains, at the level of histories: the outcomes of all steps and the final contents
   are those of the reference chain on the plain map *)
Theorem C12_entry_chain_refines : forall c w t s k kid ss o w',
  0 < cR c -> WInv c w -> t_op t = OEntry s k kid ss -> step c w t = Ok o w' ->
  WInv c w' /\ chain_rel false (Some kid) (wabs w) s k ss o (wabs w').
Proof. exact T_C12_chain. Qed.

Theorem C12_raw_entry_chain_refines : forall c w t s variant k ss o w',
  0 < cR c -> WInv c w -> t_op t = ORawEntry s variant k ss -> step c w t = Ok o w' ->
  WInv c w' /\ chain_rel true None (wabs w) s k ss o (wabs w').
Proof. exact T_C12_raw_chain. Qed.

(* raw_entry().from_*: a read-only lookup of the same contents *)
Theorem C12_raw_entry_readonly : forall c w t s variant k o w',
  0 < cR c -> WInv c w -> t_op t = ORawGet s variant k -> step c w t = Ok o w' ->
  WInv c w' /\ exists m : gmap N elem, wabs w !! s = Some m /\
    o = OutOKV ((fun e => (ekid e, ev e)) <$> m !! k) /\ wabs w' = wabs w.
Proof. exact T_C12_raw_get. Qed.

(* replace_entry_with(None) followed by inserting through the returned vacant handle leaves
   exactly one element for the key (the contents are a finite map: one element per key), with
   the key object the entry carried and the new value; every other key is untouched *)
Theorem C12_replace_none_then_insert_one_element : forall (m : gmap N elem) k held x d v w,
  m !! k = Some x ->
  exists a, ref_chain false m (AOcc k held) [SOccReplaceWith false d; SVacInsert v w] [] =
    ROk (<[k := Elem k (ekid x) (match w with Some w => w | None => v end)]> m) a (OutS [OutU; OutN v]).
Proof. exact T_C12_replace_none_then_insert. Qed.

Theorem C12_no_panic_outside_D6 :
  forall ss (m : gmap N elem) a acc,
  no_entry_insert ss -> holds_key a ->
  forall p m', ref_chain false m a ss acc <> RPanic p m'.
Proof. exact T_C12_no_panic_outside_D6. Qed.

(* the witness of D6: the shortest failing chain, evaluated on the reference *)
Theorem C12_D6_refuted_witness :
  ref_chain false ∅ (AVac 5 (Some 7)) [SInsertE 1; SOccReplaceKey] [] =
    RPanic PUnwrapNone (<[5 := Elem 5 7 1]> ∅).
Proof. exact T_C12_D6_witness. Qed.

Print Assumptions C12_occupied_iff_present.
Print Assumptions C12_step_acts_on_designated_element.
Print Assumptions C12_inserting_call_handle_in_main.
Print Assumptions C12_entry_chain_refines.
Print Assumptions C12_raw_entry_chain_refines.
Print Assumptions C12_raw_entry_readonly.
Print Assumptions C12_replace_none_then_insert_one_element.
Print Assumptions C12_no_panic_outside_D6.
Print Assumptions C12_D6_refuted_witness.
