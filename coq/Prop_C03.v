(* C03 — A started resize finishes within ceil(L/R) insertions and frees the old table. *)
From stdpp Require Import gmap list.
From Coq Require Import NArith.
From G Require Import Arith Monad Types Inv Raw Map MapProofs WorldProofs Theorems.
Local Open Scope N_scope.

(* One insert call on a map with L elements left in the old table: if it adds a key or overwrites
   an element still in the old table, min(R, L) elements leave the old table, which is released
   exactly when none is left; an overwrite of a main-table element changes nothing
   ([progress], MapProofs.v). *)
Theorem C03_step : forall c k kid v s res s',
  Inv (cR c) (cesz c) (s_rt s) -> map_insert c k kid v s = Ok res s' ->
  progress c (s_rt s) (match hel (main (s_rt s)) !! k with Some _ => false | None => true end) (s_rt s').
Proof. exact T_C03_step. Qed.

(* Between calls a map is one main table plus at most one old table (the model's rt has no
   room for a third), and the cached position agrees with what the old table holds. *)
Theorem C03_two_tables : forall c w i m o,
  0 < cR c -> reachable c w -> w_maps w !! i = Some m -> lo (m_rt m) = Some o ->
  oit o = ocnt o /\ ocnt o = N.of_nat (length (orem o)).
Proof. exact T_C03_two_tables. Qed.

(* The whole resize: key-adding insertions one after the other (any fresh distinct keys).  The
   old table that holds L elements is released by exactly the max(1, ceil(L/R))-th of them -
   never later, whatever the keys, the tombstones and the iteration order - and is still there
   before (so the work is spread, not front-loaded). *)
Theorem C03_finishes_within_ceil_L_over_R : forall c items s o s',
  0 < cR c -> Inv (cR c) (cesz c) (s_rt s) -> lo (s_rt s) = Some o ->
  NoDup (map (fun x => fst (fst x)) items) ->
  (forall x, x ∈ items -> rt_abs (s_rt s) !! fst (fst x) = None) ->
  insert_seq c items s = Some s' ->
  N.max 1 (cdiv (ocnt o) (cR c)) <= N.of_nat (length items) ->
  exists items1 items2 s1, items = items1 ++ items2 /\ insert_seq c items1 s = Some s1 /\
    lo (s_rt s1) = None /\ N.of_nat (length items1) = N.max 1 (cdiv (ocnt o) (cR c)).
Proof. exact T_C03_finishes. Qed.

(* The insertion performed through a vacant entry / raw-entry handle ([vac_insert], the model of
   RawTable::insert_entry; every inserting step of [entry_step] goes through it) makes the same
   progress as an insert of a new key: min(R, L) elements leave the old table, which is released
   exactly when none is left. *)
Theorem C03_entry_insert_step : forall c k kid v s u s',
  Inv (cR c) (cesz c) (s_rt s) -> rt_abs (s_rt s) !! k = None ->
  vac_insert c k kid v s = Ok u s' ->
  progress c (s_rt s) true (s_rt s').
Proof. exact T_C03_entry_insert_step. Qed.

Print Assumptions C03_step.
Print Assumptions C03_finishes_within_ceil_L_over_R.
Print Assumptions C03_two_tables.
Print Assumptions C03_entry_insert_step.
