(* C11 — clone and clone_from produce an equal, fully independent map
   Statements only: each theorem restates a lemma of Theorems.v and is closed by [exact]. *)
From stdpp Require Import gmap list.
From Coq Require Import NArith.
From G Require Import Arith Monad Types Inv Raw RawProofs Map MapProofs IterProofs CloneProofs Cost Fill WorldProofs Theorems.
Local Open Scope N_scope.

(* clone(): the new map holds exactly the source's pairs; the source is unchanged *)
Theorem C11_clone : forall c w t s d o w',
  0 < cR c -> WInv c w -> t_op t = OClone s d -> s <> d -> step c w t = Ok o w' ->
  WInv c w' /\ exists m : gmap N elem, wabs w !! s = Some m /\ wabs w' !! d = Some m /\ wabs w' !! s = Some m /\
    (forall i, i <> d -> wabs w' !! i = wabs w !! i).
Proof. exact T_C11_clone. Qed.

(* clone_from(): the destination's previous contents (both its tables) are gone, it holds
   exactly the source's pairs, and it has adopted the source's hasher: lookups are lawful again *)
Theorem C11_clone_from : forall c w t d s o w',
  0 < cR c -> WInv c w -> t_op t = OCloneFrom d s -> s <> d -> step c w t = Ok o w' ->
  WInv c w' /\ exists (m : gmap N elem) ms md', wabs w !! s = Some m /\ wabs w' !! d = Some m /\ wabs w' !! s = Some m /\
    w_maps w !! s = Some ms /\ w_maps w' !! d = Some md' /\ m_hs md' = m_hs ms /\ m_filed md' = m_hs ms /\
    (forall i, i <> d -> wabs w' !! i = wabs w !! i).
Proof. exact T_C11_clone_from. Qed.

Theorem C11_independent : forall c w t o w' i,
  0 < cR c -> WInv c w -> core_op (t_op t) -> step c w t = Ok o w' -> i ∉ op_writes (t_op t) ->
  wabs w' !! i = wabs w !! i.
Proof. exact T_C11_independent. Qed.

Print Assumptions C11_clone.
Print Assumptions C11_clone_from.
Print Assumptions C11_independent.
