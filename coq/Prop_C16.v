(* C16 — Serde round-trip preserves the collection
   Statements only: each theorem restates a lemma of Theorems.v and is closed by [exact]. *)
From stdpp Require Import gmap list.
From Coq Require Import NArith.
From G Require Import Arith Monad Types Inv Raw RawProofs Map MapProofs IterProofs CloneProofs Cost EntryProofs EntryCost Ledger SetProofs Fill WorldProofs Theorems.
Local Open Scope N_scope.

(* Serialize (collect_map / collect_seq over iter()): the declared length is exact, every
   element is emitted exactly once, in iteration order; the collection is unchanged *)
Theorem C16_serialize_exact_len_each_once : forall c w t s o w',
  0 < cR c -> WInv c w -> t_op t = OSerialize s -> step c w t = Ok o w' ->
  WInv c w' /\ exists (m : gmap N elem) l, wabs w !! s = Some m /\ NoDup (map ek l) /\ list_to_emap l = m /\
    o = OutS [OutN (N.of_nat (length l)); OutL (map elem3 l)] /\ wabs w' = wabs w.
Proof. exact T_C16_serialize. Qed.

(* Deserialize (a map or set built with the cautious size hint, then one insert per element):
   the collection of the elements read, whatever the hint *)
Theorem C16_deserialize_collects : forall c w t d hs items hint o w',
  0 < cR c -> WInv c w -> t_op t = OFromIter d hs items (cautious hint) -> step c w t = Ok o w' ->
  WInv c w' /\ wabs w' = <[d := ext ∅ items]> (wabs w).
Proof. exact T_C16_deserialize. Qed.

(* the round trip: deserialising what Serialize emitted yields the original collection - in
   whatever resize phase it was serialised *)
Theorem C16_roundtrip : forall (m : gmap N elem) (l : list elem),
  NoDup (map ek l) -> list_to_emap l = m -> ext ∅ (map elem3 l) = m.
Proof. exact T_C16_roundtrip. Qed.

Theorem C16_roundtrip_any_phase : forall c w t s o w1 w2 t2 d hs hint o2 w3 items n,
  0 < cR c -> WInv c w -> t_op t = OSerialize s -> step c w t = Ok o w1 -> o = OutS [OutN n; OutL items] ->
  WInv c w2 -> t_op t2 = OFromIter d hs items (cautious hint) -> step c w2 t2 = Ok o2 w3 ->
  wabs w3 !! d = wabs w !! s.
Proof. exact T_C16_roundtrip_world. Qed.

(* HashSet::deserialize_in_place: the previous contents - whatever they were, in whatever resize
   phase - are replaced entirely by the elements read *)
Theorem C16_in_place_replaces_entirely : forall c w t s items hint o w',
  0 < cR c -> WInv c w -> t_op t = ODeserInPlace s items hint -> step c w t = Ok o w' ->
  WInv c w' /\ exists m : gmap N elem, wabs w !! s = Some m /\ wabs w' = <[s := ext ∅ items]> (wabs w).
Proof. exact T_C16_in_place. Qed.

Print Assumptions C16_serialize_exact_len_each_once.
Print Assumptions C16_deserialize_collects.
Print Assumptions C16_roundtrip.
Print Assumptions C16_roundtrip_any_phase.
Print Assumptions C16_in_place_replaces_entirely.
