(* Raw.v — executable model of griddle's src/raw/mod.rs on top of hashbrown 0.14.5's raw table,
   the latter by contract (DESIGN §3.3).  Function names follow the Rust names.  No proofs here. *)
From stdpp Require Import gmap list.
From Coq Require Import NArith Lia.
From G Require Import Arith Monad Types.
Local Open Scope N_scope.

Section Raw.
Context (c : cfg).
Notation R := (cR c).

(* ================================================================ hashbrown, by contract *)

(* RawTable::with_capacity / try_with_capacity.  None = Err(CapacityOverflow). *)
Definition hb_with_capacity (fallible : bool) (cap : N) : M' (option hb) :=
  if cap =? 0 then ret (Some hb_new) else
  match cap_to_buckets cap with
  | Some B => if layout_ok (cesz c) B then tick_alloc ;;; ret (Some (hb_empty B))
              else if fallible then ret None else unwind PCapOverflow
  | None => if fallible then ret None else unwind PCapOverflow
  end.

Definition hb_free (t : hb) : M' unit := when (negb (hB t =? 1)) tick_free.

(* one hash computation per element of [l] (a rehash); a panic leaves what [h] says *)
Definition rehash_all (l : list elem) : M' unit := iterM (fun _ => tick_hash) l.

(* reserve_rehash(1), infallible: rehash in place if at most half full, else resize *)
Definition hb_reserve_rehash1 (t : hb) : M' hb :=
  let items := hlen t in
  let full := bcap (hB t) in
  if items + 1 <=? full / 2 then
    rehash_all (map_to_list (hel t)).*2 ;;; ret (hb_rebuilt t (hB t) (full - items))
  else
    nt <- hb_with_capacity false (N.max (items + 1) (full + 1)) ;;
    match nt with
    | None => fault_ FUnreachable
    | Some nt =>
        (* a panicking hasher frees the new table and leaves the old one as it was *)
        on_unwind (rehash_all (map_to_list (hel t)).*2) (hb_free nt) ;;;
        hb_free t ;;;
        ret (hb_rebuilt t (hB nt) (bcap (hB nt) - items))
    end.

(* the slot choice of an insertion: reuse a tombstone (oracle) or take an EMPTY slot *)
Definition hb_put (t : hb) (e : elem) (reuse : bool) : M' hb :=
  if reuse then
    if hb_tombs t =? 0 then fault_ FOracle
    else ret (hb_ins t e (hgl t))
  else
    if hgl t =? 0 then fault_ FGlUnderflow
    else ret (hb_ins t e (hgl t - 1)).

(* RawTable::insert_no_grow *)
Definition hb_insert_no_grow (t : hb) (e : elem) : M' hb :=
  match hel t !! ek e with
  | Some _ => fault_ FDupKey
  | None => reuse <- take_bit ;; hb_put t e reuse
  end.

(* RawTable::insert (may grow through reserve(1)) *)
Definition hb_insert (t : hb) (e : elem) : M' hb :=
  match hel t !! ek e with
  | Some _ => fault_ FDupKey
  | None =>
      reuse <- take_bit ;;
      if negb reuse && (hgl t =? 0) then
        (* the element being inserted is owned by the call: lost if the rehash panics *)
        t' <- on_unwind (hb_reserve_rehash1 t) (drop_elem e) ;; hb_put t' e false
      else hb_put t e reuse
  end.

(* RawTable::remove / erase (without the drop): leaves a tombstone or frees the slot (oracle) *)
Definition hb_remove (t : hb) (k : N) : M' (elem * hb) :=
  match hel t !! k with
  | None => fault_ FVacant
  | Some e =>
      tomb <- take_tomb ;;
      ret (e, hb_del t k (if tomb then hgl t else hgl t + 1))
  end.

(* RawTable::clear: an empty table is left as it is, tombstones included *)
Definition hb_clear (t : hb) : M' hb :=
  if hlen t =? 0 then ret t
  else drop_elems (map_to_list (hel t)).*2 ;;; ret (hb_empty (hB t)).

(* RawTable::clear_no_drop on a table without elements *)
Definition hb_clear_no_drop (t : hb) : hb := hb_empty (hB t).

(* RawTable::shrink_to *)
Definition hb_shrink_to (t : hb) (min_size : N) : M' hb :=
  let min_size := N.max (hlen t) min_size in
  if min_size =? 0 then hb_free t ;;; ret hb_new
  else match cap_to_buckets min_size with
       | None => ret t
       | Some mb =>
           if mb <? hB t then
             nt <- hb_with_capacity false min_size ;;
             match nt with
             | None => fault_ FUnreachable
             | Some nt =>
                 on_unwind (rehash_all (map_to_list (hel t)).*2) (hb_free nt) ;;;
                 hb_free t ;;;
                 ret (hb_rebuilt t (hB nt) (bcap (hB nt) - hlen t))
             end
           else ret t
       end.

(* K::clone then V::clone for each element; a panic drops the clones made so far *)
Fixpoint clone_elems (l acc : list elem) : M' (list elem) :=
  match l with
  | [] => ret acc
  | e :: l =>
      on_unwind cb (drop_elems acc) ;;;
      on_unwind cb (drop_key (ekid e) ;;; drop_elems acc) ;;;
      clone_elems l (e :: acc)
  end.

(* RawTable::clone *)
Definition hb_clone (t : hb) : M' hb :=
  if hB t =? 1 then ret hb_new
  else
    tick_alloc ;;;
    l <- take_order_or (hel t) ;;
    on_unwind (clone_elems l []) tick_free ;;;
    ret t.

(* ================================================================ griddle RawTable *)

Definition is_some_b {A} (o : option A) : bool := match o with Some _ => true | None => false end.

(* let _ = self.leftovers.take(): drops whatever is still in the old table, frees it *)
Definition free_old : M' unit :=
  o <- getlo ;;
  match o with
  | None => ret tt
  | Some o => setlo None ;;; drop_elems (orem o) ;;; tick_free
  end.

(* lo.items.next() followed by lo.table.remove(e) *)
Definition old_pop : M' (option elem) :=
  o <- getlo ;;
  match o with
  | None => fault_ FVacant
  | Some o =>
      if oit o =? 0 then ret None
      else match orem o with
           | [] => fault_ FOverRead
           | e :: r => setlo (Some (Old (oB o) r (oit o - 1) (ocnt o - 1))) ;;; ret (Some e)
           end
  end.

(* OldTable::before_remove; lo.table.remove/erase; OldTable::after_remove *)
Definition old_take (k : N) : M' elem :=
  o <- getlo ;;
  match o with
  | None => fault_ FVacant
  | Some o =>
      match lookup_list k (orem o) with
      | None => fault_ FVacant
      | Some e =>
          let r := remove_list k (orem o) in
          if czst c then setlo (Some (Old (oB o) r (ocnt o - 1) (ocnt o - 1))) ;;; ret e
          else if oit o =? 0 then fault_ FItemsUnderflow
               else setlo (Some (Old (oB o) r (oit o - 1) (ocnt o - 1))) ;;; ret e
      end
  end.

Definition main_insert_no_grow (e : elem) : M' unit :=
  t <- getm ;; t' <- hb_insert_no_grow t e ;; setm t'.
Definition main_insert (e : elem) : M' unit :=
  t <- getm ;; t' <- hb_insert t e ;; setm t'.

(* the body of carry's `for _ in 0..R` loop and what follows it *)
Fixpoint carry_loop (fuel : nat) : M' unit :=
  match fuel with
  | O =>
      o <- getlo ;;
      match o with
      | Some o => when (olen o =? 0) free_old
      | None => ret tt
      end
  | S fuel =>
      x <- old_pop ;;
      match x with
      | Some e =>
          tick_move ;;;
          on_unwind tick_hash (drop_elem e) ;;;
          main_insert_no_grow e ;;;
          carry_loop fuel
      | None => free_old
      end
  end.

Definition rt_carry : M' unit :=
  o <- getlo ;;
  match o with
  | None => ret tt
  | Some _ => carry_loop (N.to_nat R)
  end.

Fixpoint carry_all_loop (fuel : nat) : M' unit :=
  match fuel with
  | O => fault_ FUnreachable
  | S fuel =>
      x <- old_pop ;;
      match x with
      | Some e =>
          tick_move ;;;
          on_unwind tick_hash (drop_elem e) ;;;
          main_insert e ;;;
          carry_all_loop fuel
      | None => free_old
      end
  end.

Definition rt_carry_all : M' unit :=
  o <- getlo ;;
  match o with
  | None => ret tt
  | Some o => carry_all_loop (S (N.to_nat (oit o)))
  end.

(* try_grow.  true = Ok(()) *)
Definition rt_try_grow (fallible : bool) (extra : N) : M' bool :=
  o <- getlo ;;
  debug_check (negb (is_some_b o)) 461 ;;;
  t <- getm ;;
  let need := hlen t in
  let inserts := cdiv need R in
  let add := N.max extra inserts in
  let capacity := sat_add (sat_add need inserts) add in
  nt <- hb_with_capacity fallible capacity ;;
  match nt with
  | None => ret false
  | Some nt =>
      (if hlen t =? 0 then setm nt ;;; hb_free t
       else
         l <- take_order_grow (hel t) ;;
         free_old ;;;                 (* assignment to self.leftovers drops a previous value *)
         setm nt ;;;
         setlo (Some (Old (hB t) l (hlen t) (hlen t)))) ;;;
      ret true
  end.

Definition rt_grow (extra : N) : M' unit :=
  b <- rt_try_grow false extra ;; if b then ret tt else fault_ FUnreachable.

Definition rt_insert_no_grow (e : elem) : M' unit :=
  main_insert_no_grow e ;;;
  o <- getlo ;;
  when (is_some_b o) rt_carry.

Definition rt_insert (e : elem) : M' unit :=
  t <- getm ;;
  if hgl t =? 0 then
    o <- getlo ;;
    (* the element is owned by the call: a panic here drops it *)
    on_unwind (assert_ (negb (is_some_b o)) 232 ;;; rt_grow 1) (drop_elem e) ;;;
    t' <- getm ;;
    if hgl t' =? 0 then fault_ FGrowLoop else rt_insert_no_grow e
  else rt_insert_no_grow e.

(* find: main table first, then the old table *)
Definition rt_find_pure (r : rt) (k : N) : option (bool * elem) :=
  match hel (main r) !! k with
  | Some e => Some (true, e)
  | None => match lo r with
            | Some o => option_map (pair false) (lookup_list k (orem o))
            | None => None
            end
  end.
Definition rt_find (k : N) : M' (option (bool * elem)) := gets (fun s => rt_find_pure (s_rt s) k).

(* remove(bucket) *)
Definition rt_remove (in_main : bool) (k : N) : M' elem :=
  if in_main then
    t <- getm ;; x <- hb_remove t k ;; setm (snd x) ;;; ret (fst x)
  else
    o <- getlo ;;
    match o with
    | None => unwind (PAssert 106)
    | Some _ =>
        e <- old_take k ;;
        o' <- getlo ;;
        match o' with
        | Some o' => when (olen o' =? 0) free_old
        | None => ret tt
        end ;;;
        ret e
    end.

(* erase(bucket): drops in place, never releases the old table *)
Definition rt_erase (in_main : bool) (k : N) : M' unit :=
  if in_main then
    t <- getm ;; x <- hb_remove t k ;; setm (snd x) ;;; drop_elem (fst x)
  else
    o <- getlo ;;
    match o with
    | None => unwind (PAssert 87)
    | Some _ => e <- old_take k ;; drop_elem e
    end.

(* replace_bucket_with(bucket, f): f owns the element while it runs *)
Definition rt_replace_bucket_with (in_main : bool) (k : N) (f : elem -> M' (option elem)) : M' bool :=
  if in_main then
    t <- getm ;;
    x <- hb_remove t k ;;
    setm (snd x) ;;;
    r <- f (fst x) ;;
    match r with
    | Some e' => setm (HB (hB t) (hgl t) (hn t) (<[k := e']> (delete k (hel t)))) ;;; ret true
    | None => ret false
    end
  else
    o <- getlo ;;
    match o with
    | None => unwind (PAssert 310)
    | Some o =>
        e <- old_take k ;;
        r <- f e ;;
        match r with
        | Some e' => setlo (Some (Old (oB o) (replace_list e' (orem o)) (oit o) (ocnt o))) ;;; ret true
        | None => ret false
        end
    end.

Definition rt_clear : M' unit :=
  free_old ;;;
  t <- getm ;; t' <- hb_clear t ;; setm t'.

Definition rt_shrink_to (min_size : N) : M' unit :=
  o <- getlo ;;
  when (match o with Some o => olen o =? 0 | None => false end) free_old ;;;
  t <- getm ;;
  o <- getlo ;;
  let need := hlen t + match o with Some o => olen o + cdiv (olen o) R | None => 0 end in
  t' <- hb_shrink_to t (N.max need min_size) ;;
  setm t'.

(* reserve (fallible = false) and try_reserve (fallible = true).  true = Ok(()) / returned *)
Definition rt_reserve (fallible : bool) (additional : N) : M' bool :=
  o <- getlo ;;
  t <- getm ;;
  let need := sat_add (match o with Some o => olen o | None => 0 end) additional in
  if need <? hgl t then ret true
  else
    when (is_some_b o) rt_carry_all ;;;
    if fallible then rt_try_grow true additional else rt_grow additional ;;; ret true.

(* iter(): main table in its (oracle) order, then a clone of the cached iterator *)
Definition rt_iter : M' (list (bool * elem)) :=
  t <- getm ;;
  l <- take_order (hel t) ;;
  o <- getlo ;;
  match o with
  | None => ret (map (pair true) l)
  | Some o =>
      if N.of_nat (length (orem o)) <? oit o then fault_ FOverRead
      else ret (map (pair true) l ++ map (pair false) (firstn (N.to_nat (oit o)) (orem o)))
  end.

(* and_carry_with_hasher: hash, clone, insert each element the cached iterator would yield *)
(* clone: the table is a local of the caller; a panic drops it with all its clones *)
Fixpoint and_carry (t : hb) (l : list elem) : M' hb :=
  match l with
  | [] => ret t
  | e :: l =>
      t' <- on_unwind (tick_hash ;;; cb ;;; on_unwind cb (drop_key (ekid e)) ;;; hb_insert t e)
                      (drop_elems (map_to_list (hel t)).*2 ;;; hb_free t) ;;
      and_carry t' l
  end.
(* clone_from: the same on the destination's own main table, in place: a panic leaves what was
   inserted so far *)
Fixpoint and_carry_here (l : list elem) : M' unit :=
  match l with
  | [] => ret tt
  | e :: l =>
      t <- getm ;;
      tick_hash ;;; cb ;;; on_unwind cb (drop_key (ekid e)) ;;;
      t' <- hb_insert t e ;;
      setm t' ;;;
      and_carry_here l
  end.

Definition cursor_view (o : option old) : M' (list elem) :=
  match o with
  | None => ret []
  | Some o => if N.of_nat (length (orem o)) <? oit o then fault_ FOverRead
              else ret (firstn (N.to_nat (oit o)) (orem o))
  end.

(* clone_with_hasher: the new table is a local until it is returned; a panic drops it *)
Definition rt_clone : M' rt :=
  t <- getm ;;
  o <- getlo ;;
  nt <- hb_clone t ;;
  l <- cursor_view o ;;
  nt' <- and_carry nt l ;;
  ret (RT nt' None).

(* hashbrown RawTable::clone_from_with_hasher on the destination's main table [t] *)
Definition hb_clone_from_with_hasher (t s : hb) : M' hb :=
  if negb (hB t =? hB s) && (hlen s <=? bcap (hB t)) then
    t1 <- hb_clear t ;;
    setm t1 ;;;
    els <- take_order_or (hel s) ;;
    (* clone, then hash each element; on a panic the scope guard's clear() finds items == 0 and
       returns at once: the destination stays as cleared, the clones placed so far leak *)
    iterM (fun e => cb ;;; on_unwind cb (drop_key (ekid e)) ;;; on_unwind tick_hash (drop_elem e)) els ;;;
    (if hgl t1 <? hlen s then unwind (PDebugAssert 3647)
     else ret (HB (hB t1) (hgl t1 - hlen s) (hn s) (hel s)))
  else
    if hB s =? 1 then
      drop_elems (map_to_list (hel t)).*2 ;;; hb_free t ;;; ret hb_new
    else
      drop_elems (map_to_list (hel t)).*2 ;;;
      when (negb (hB t =? hB s)) (tick_alloc ;;; hb_free t) ;;;
      els <- take_order_or (hel s) ;;
      (* a panic drops the clones made so far; the outer scope guard then runs clear_no_drop *)
      on_unwind (clone_elems els []) (setm (hb_empty (hB s))) ;;;
      ret s.

(* clone_from_with_hasher(source) on the destination *)
Definition rt_clone_from (src : rt) : M' unit :=
  free_old ;;;
  t <- getm ;;
  let t := if hlen t =? 0 then hb_clear_no_drop t else t in
  setm t ;;;
  t' <- hb_clone_from_with_hasher t (main src) ;;
  setm t' ;;;
  l <- cursor_view (lo src) ;;
  and_carry_here l.

End Raw.
