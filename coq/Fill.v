(* Fill.v — C04/C10: a map can take capacity() - len() new keys (or the n keys reserved for)
   without growing, allocating or shrinking its capacity, and ends with no resize pending. *)
From stdpp Require Import gmap list.
From Coq Require Import NArith Lia.
From G Require Import Arith Monad Types Inv Raw RawProofs Map Cost.
Local Open Scope N_scope.

Section Fill.
Context (c : cfg).
Notation R := (cR c).
Notation ES := (cesz c).

Definition left (r : rt) : N := match lo r with Some o => ocnt o | None => 0 end.

(* one insertion of a new key while the main table has room: no growth, no allocation *)
Lemma insert_room e s :
  Inv R ES (s_rt s) -> rt_abs (s_rt s) !! ek e = None -> left (s_rt s) < hgl (main (s_rt s)) ->
  wp (rt_insert c e)
     (fun _ s' => Inv R ES (s_rt s') /\ rt_abs (s_rt s') = <[ek e := e]> (rt_abs (s_rt s)) /\
                  hB (main (s_rt s')) = hB (main (s_rt s)) /\
                  rt_capacity (s_rt s) <= rt_capacity (s_rt s') /\
                  left (s_rt s') = left (s_rt s) - N.min R (left (s_rt s)) /\
                  hgl (main (s_rt s)) <= hgl (main (s_rt s')) + 1 + N.min R (left (s_rt s)) /\
                  l_alloc (s_log s') = l_alloc (s_log s) /\
                  (forall o', lo (s_rt s') = Some o' -> 0 < ocnt o'))
     (fun p s' => Inv R ES (s_rt s') /\ p = PUser) s.
Proof.
  intros HI Habs Hroom.
  assert (Hgl : 0 < hgl (main (s_rt s))) by lia.
  assert (Heq : rt_insert c e s = rt_insert_no_grow c e s).
  { unfold rt_insert, bind, getm, gets. destruct (N.eqb_spec (hgl (main (s_rt s))) 0); [lia|reflexivity]. }
  unfold wp. rewrite Heq. change (wp (rt_insert_no_grow c e) (fun _ s' => Inv R ES (s_rt s') /\ rt_abs (s_rt s') = <[ek e := e]> (rt_abs (s_rt s)) /\
                  hB (main (s_rt s')) = hB (main (s_rt s)) /\
                  rt_capacity (s_rt s) <= rt_capacity (s_rt s') /\
                  left (s_rt s') = left (s_rt s) - N.min R (left (s_rt s)) /\
                  hgl (main (s_rt s)) <= hgl (main (s_rt s')) + 1 + N.min R (left (s_rt s)) /\
                  l_alloc (s_log s') = l_alloc (s_log s) /\
                  (forall o', lo (s_rt s') = Some o' -> 0 < ocnt o')) (fun p s' => Inv R ES (s_rt s') /\ p = PUser) s).
  pose proof (rt_insert_no_grow_spec c e s HI Habs Hgl) as Hspec.
  assert (Hcost : wpp (rt_insert_no_grow c e) (fun _ s' => l_alloc (s_log s') = l_alloc (s_log s)) (fun _ _ => True) s).
  { eapply wpp_conseq; [apply (cost_rt_insert_no_grow c e)| |]; cbn; [|auto].
    intros ? s' [Hw _]. unfold within in Hw. cbn in Hw. lia. }
  eapply wp_conseq; [apply (wp_wpp_and _ _ _ _ _ _ Hspec Hcost)| |]; cbn.
  - intros ? s' [(HI' & Habs' & _ & HB' & Hcap & Hlo) Hal].
    split; [exact HI'|]. split; [exact Habs'|]. split; [exact HB'|]. split; [exact Hcap|].
    unfold left, rt_capacity, hlen in *. destruct (lo (s_rt s)) as [o|].
    + destruct Hlo as [Hn Hlo]. destruct (lo (s_rt s')) as [o'|].
      * destruct Hlo as (H1 & H2 & _). rewrite N.min_l in * by lia. repeat split; try lia. intros o2 [= <-]. lia.
      * rewrite N.min_r in * by lia. repeat split; try lia. discriminate.
    + destruct Hlo as [-> Hn]. rewrite N.min_0_r. repeat split; try lia. discriminate.
  - intros p s' [((HI' & _) & ->) _]. auto.
Qed.

(* inserting a list of new, distinct keys that fits *)
Fixpoint insert_all (m : gmap N elem) (es : list elem) : gmap N elem :=
  match es with [] => m | e :: es => insert_all (<[ek e := e]> m) es end.

Lemma fill_spec : forall es s,
  Inv R ES (s_rt s) -> NoDup (map ek es) -> (forall e, e ∈ es -> rt_abs (s_rt s) !! ek e = None) ->
  N.of_nat (length es) + left (s_rt s) <= hgl (main (s_rt s)) ->
  wp (iterM (rt_insert c) es)
     (fun _ s' => Inv R ES (s_rt s') /\ rt_abs (s_rt s') = insert_all (rt_abs (s_rt s)) es /\
                  hB (main (s_rt s')) = hB (main (s_rt s)) /\
                  rt_capacity (s_rt s) <= rt_capacity (s_rt s') /\
                  l_alloc (s_log s') = l_alloc (s_log s) /\
                  left (s_rt s') = left (s_rt s) - N.min (N.of_nat (length es) * R) (left (s_rt s)) /\
                  ((forall o', lo (s_rt s') = Some o' -> 0 < ocnt o') \/ (es = [] /\ lo (s_rt s') = lo (s_rt s))))
     (fun p s' => Inv R ES (s_rt s') /\ p = PUser) s.
Proof.
  induction es as [|e es IH]; intros s HI Hnd Hfresh Hfit; cbn [iterM].
  - apply wp_ret. cbn [insert_all length]. split; [exact HI|]. rewrite N.mul_0_l, N.min_0_l, N.sub_0_r.
    repeat split; try reflexivity; try lia. right. auto.
  - cbn [map] in Hnd. apply NoDup_cons in Hnd as [Hne Hnd]. cbn [length] in Hfit.
    apply wp_bind. eapply wp_conseq; [apply (insert_room e s HI)| |]; cbn beta.
    + apply Hfresh. left.
    + lia.
    + intros ? s1 (HI1 & Habs1 & HB1 & Hcap1 & Hleft1 & Hgl1 & Hal1 & Hpos1).
      eapply wp_conseq; [apply (IH s1 HI1 Hnd)| |]; cbn beta.
      * intros x Hx. rewrite Habs1. rewrite lookup_insert_ne; [apply Hfresh; right; exact Hx|].
        intros Heq. apply Hne. rewrite Heq. apply elem_of_list_fmap. exists x. auto.
      * lia.
      * intros ? s2 (HI2 & Habs2 & HB2 & Hcap2 & Hal2 & Hleft2 & Hpos2).
        split; [exact HI2|]. split; [rewrite Habs2, Habs1; reflexivity|]. split; [congruence|].
        split; [lia|]. split; [congruence|]. split.
        -- rewrite Hleft2, Hleft1. change (length (e :: es)) with (S (length es)). rewrite Nat2N.inj_succ.
           destruct (N.le_gt_cases (left (s_rt s)) R); [rewrite !N.min_r by nia; lia|].
           rewrite (N.min_l R) by lia. destruct (N.le_gt_cases (N.succ (N.of_nat (length es)) * R) (left (s_rt s))).
           ++ rewrite !N.min_l by nia. nia.
           ++ rewrite !N.min_r by nia. lia.
        -- left. destruct Hpos2 as [Hpos2|[_ Heq]]; [exact Hpos2|]. rewrite Heq. exact Hpos1.
      * auto.
    + auto.
Qed.


(* C04: inserting exactly capacity() - len() previously unseen keys *)
Theorem fill_to_capacity es s :
  Inv R ES (s_rt s) -> NoDup (map ek es) -> (forall e, e ∈ es -> rt_abs (s_rt s) !! ek e = None) ->
  N.of_nat (length es) = rt_capacity (s_rt s) - rt_len (s_rt s) ->
  wp (iterM (rt_insert c) es)
     (fun _ s' => Inv R ES (s_rt s') /\ rt_abs (s_rt s') = insert_all (rt_abs (s_rt s)) es /\
                  hB (main (s_rt s')) = hB (main (s_rt s)) /\
                  rt_capacity (s_rt s) <= rt_capacity (s_rt s') /\
                  l_alloc (s_log s') = l_alloc (s_log s) /\
                  (es <> [] -> lo (s_rt s') = None))
     (fun p s' => Inv R ES (s_rt s') /\ p = PUser) s.
Proof.
  intros HI Hnd Hfresh Hlen. pose proof HI as (HR & Hok & Ho).
  assert (Hfit : N.of_nat (length es) + left (s_rt s) = hgl (main (s_rt s))).
  { pose proof (Inv_cap_ge_len c _ HI). unfold rt_capacity, rt_len, left, olen in *. destruct (lo (s_rt s)); lia. }
  eapply wp_conseq; [apply (fill_spec es s HI Hnd Hfresh); lia| |]; cbn; [|auto].
  intros ? s' (HI' & Habs' & HB' & Hcap' & Hal' & Hleft' & Hpos').
  split; [exact HI'|]. split; [exact Habs'|]. split; [exact HB'|]. split; [exact Hcap'|]. split; [exact Hal'|]. intros Hne.
  destruct Hpos' as [Hpos'|[Hnil _]]; [|congruence].
  (* the insertions outnumber ceil(left / R), so nothing is left *)
  assert (Hz : left (s_rt s') = 0).
  { rewrite Hleft'. destruct (lo (s_rt s)) as [o|] eqn:Hlo; unfold left in *; rewrite ?Hlo in *; [|rewrite N.min_0_r; lia].
    destruct Ho as (_ & _ & _ & _ & Hneed). unfold olen in Hneed.
    destruct (N.eq_dec (ocnt o) 0) as [Hz|Hz]; [rewrite Hz, N.min_0_r; lia|].
    rewrite need_pos in Hneed by lia.
    assert (Hlen' : cdiv (ocnt o) R <= N.of_nat (length es)) by lia.
    assert (ocnt o <= N.of_nat (length es) * R).
    { pose proof (cdiv_ge_mul (ocnt o) R HR). nia. }
    rewrite N.min_r by lia. lia. }
  unfold left in Hz. destruct (lo (s_rt s')) as [o'|] eqn:Hlo'; [|reflexivity].
  specialize (Hpos' o' eq_refl). lia.
Qed.

End Fill.
