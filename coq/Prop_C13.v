(* C13 — HashSet behaves as a mathematical set
   Statements only: each theorem restates a lemma of Theorems.v and is closed by [exact]. *)
From stdpp Require Import gmap list.
From Coq Require Import NArith.
From G Require Import Arith Monad Types Inv Raw RawProofs Map MapProofs IterProofs CloneProofs Cost EntryProofs EntryCost Ledger SetProofs Fill WorldProofs Theorems.
Local Open Scope N_scope.

(* A HashSet is the map with () values: insert / replace / remove / take / get / get_or_insert* /
   contains / retain / drain / drain_filter / extend / clear are the map and entry operations
   of T_C01 / T_C12 on it, and refine the same reference (its key set is the reference set). *)
Theorem C13_element_ops_refine : forall c w t o w',
  0 < cR c -> WInv c w -> core_op (t_op t) -> step c w t = Ok o w' ->
  WInv c w' /\ spec_rel (wabs w) (t_op t) o (wabs w').
Proof. exact T_C13_element_ops. Qed.

(* difference / symmetric_difference / intersection / union (kind 0-3) and the operator forms
   - ^ & | (kind 4-7), for operands in any resize phase: what is yielded (shown sorted, i.e. as
   a permutation of it) holds each key of the mathematical result exactly once, and every
   yielded object is an element of one of the operands; the operands are unchanged *)
Theorem C13_algebra : forall c w t kind a b o w',
  0 < cR c -> WInv c w -> t_op t = OSetAlg kind a b -> step c w t = Ok o w' ->
  exists (ma mb : gmap N elem) l, wabs w !! a = Some ma /\ wabs w !! b = Some mb /\ wabs w' = wabs w /\
    o = OutL (sorted3 l) /\ sorted3 l ≡ₚ map elem3' l /\
    NoDup (map ek l) /\
    (forall e, e ∈ l -> ma !! ek e = Some e \/ mb !! ek e = Some e) /\
    (forall k, k ∈ map ek l <->
       alg_math (alg_kind kind) (is_Some (ma !! k)) (is_Some (mb !! k))).
Proof. exact T_C13_algebra. Qed.

(* is_disjoint / is_subset / is_superset / == decide the mathematical relations *)
Theorem C13_predicates : forall c w t kind a b o w',
  0 < cR c -> WInv c w -> t_op t = OSetPred kind a b -> step c w t = Ok o w' ->
  exists (ma mb : gmap N elem) bb, wabs w !! a = Some ma /\ wabs w !! b = Some mb /\ wabs w' = wabs w /\
    o = OutB bb /\ (bb = true <-> pred_math (pred_kind kind) ma mb).
Proof. exact T_C13_predicates. Qed.

(* iter() of a set in any resize phase: every element, each exactly once, exact length *)
Theorem C13_iter_each_once : forall c r,
  Inv (cR c) (cesz c) r ->
  NoDup (map ek (iter_elems r)) /\
  (forall e, e ∈ iter_elems r <-> rt_abs r !! ek e = Some e) /\
  N.of_nat (length (iter_elems r)) = rt_len r.
Proof. exact T_C13_iter. Qed.

Print Assumptions C13_element_ops_refine.
Print Assumptions C13_algebra.
Print Assumptions C13_predicates.
Print Assumptions C13_iter_each_once.
