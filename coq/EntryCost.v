(* EntryCost.v — the cost calculus for the entry API: every step of an entry / raw-entry chain
   costs at most what one insert may cost (C02), and arms no fuse. *)
From stdpp Require Import gmap list.
From Coq Require Import NArith Lia.
From G Require Import Arith Monad Types Inv Raw Map Cost.
Local Open Scope N_scope.

Section EntryCost.
Context (c : cfg).
Notation R := (cR c).

Ltac cz :=
  repeat first
    [ apply cost_ret' | apply cost_getm | apply cost_getlo | apply cost_setm | apply cost_setlo
    | apply cost_fault | apply cost_drop_key | apply cost_drop_val | apply cost_drop_elem | apply cost_cb
    | apply cost_rt_find | apply cost_set_value | apply cost_old_take | apply cost_hb_remove
    | apply cost_when | apply cost_on_unwind
    | (apply cost_unwind; discriminate)
    | apply cost_bind0; [|intros ?]
    | match goal with |- cost _ (match ?x with _ => _ end) => destruct x end
    | match goal with |- cost _ (if ?x then _ else _) => destruct x end ].

Lemma cost_ent_elem im k : cost dz (ent_elem im k).
Proof. unfold ent_elem. cz. Qed.

Lemma cost_set_key im k kid : cost dz (set_key im k kid).
Proof. unfold set_key. cz. Qed.

Lemma cost_drop_held h : cost dz (drop_held h).
Proof. unfold drop_held. cz. Qed.

Lemma cost_rt_replace_bucket_with im k f :
  (forall e, cost dz (f e)) -> cost dz (rt_replace_bucket_with c im k f).
Proof. intros Hf. unfold rt_replace_bucket_with. cz; try apply Hf; cz. Qed.

Lemma cost_occ_replace_with raw im k held keep d : cost dz (occ_replace_with c raw im k held keep d).
Proof.
  unfold occ_replace_with. apply cost_bind0; [apply cost_ent_elem|]. intros e0.
  apply cost_bind0; [apply cost_on_unwind; [apply cost_rt_replace_bucket_with; intros e; cz|apply cost_drop_held]|]. intros b. cz; apply cost_drop_held.
Qed.

Lemma cost_write_through k w : cost dz (write_through k w).
Proof. unfold write_through. cz. Qed.

Definition dstep : delta := D (1 + R) R 1 2.

Lemma cost_vac_tail {A} k h v w (a : A) :
  cost (D R R 1 2) (vac_insert c k h v ;;; write_through k w ;;; ret a).
Proof.
  eapply cost_weaken; [|apply (cost_bind (D R R 1 2) dz); [apply cost_rt_insert|]]; [dle_solve|].
  intros _. apply cost_bind0; [apply cost_write_through|intros _; apply cost_ret].
Qed.

Ltac zero := eapply cost_weaken; [|solve [cz; first [apply cost_ent_elem|apply cost_set_key|apply cost_drop_held|apply cost_occ_replace_with]; cz]]; dle_solve.

(* C02: one step of an entry chain costs no more than an insert *)
Lemma cost_entry_step raw e s : cost dstep (entry_step c raw e s).
Proof.
  unfold dstep.
  assert (Hz : forall A (m : M' A), cost dz m -> cost (D (1 + R) R 1 2) m).
  { intros A m H. eapply cost_weaken; [|exact H]. dle_solve. }
  assert (Hrm : forall im k, cost (D 0 0 0 1) (rt_remove c im k)) by apply cost_rt_remove.
  assert (Hv : forall A k h v w (a : A), cost (D (1 + R) R 1 2) (vac_insert c k h v ;;; write_through k w ;;; ret a)).
  { intros. eapply cost_weaken; [|apply cost_vac_tail]. dle_solve. }
  assert (Hhv : forall A (m : M' unit) k h v w (a : A), cost (D 1 0 0 0) m ->
             cost (D (1 + R) R 1 2) (m ;;; vac_insert c k h v ;;; write_through k w ;;; ret a)).
  { intros A m k h v w a Hm. eapply cost_weaken; [|apply (cost_bind (D 1 0 0 0) (D R R 1 2)); [exact Hm|intros _; apply cost_vac_tail]]. dle_solve. }
  assert (Hi : forall A k h v (a : A), cost (D (1 + R) R 1 2) (vac_insert c k h v ;;; ret a)).
  { intros. eapply cost_weaken; [|apply (cost_bind (D R R 1 2) dz); [apply cost_rt_insert|intros _; apply cost_ret]]. dle_solve. }
  assert (Hth : cost (D 1 0 0 0) tick_hash) by apply cost_tick_hash.
  destruct s, e as [im k held|k [h|]|]; cbn [entry_step]; try (apply cost_fault); try apply Hv; try apply Hi;
    try (apply Hz; cz; first [apply cost_ent_elem|apply cost_set_key|apply cost_drop_held|apply cost_occ_replace_with|idtac]; cz;
         first [apply cost_ent_elem|apply cost_set_key|apply cost_drop_held|idtac]; cz; fail).
  all: try (apply Hhv; cz; exact Hth).
  all: try (eapply cost_weaken; [|apply (cost_bind (D 0 0 0 1) dz); [apply Hrm|intros x; cz; apply cost_drop_held]]; dle_solve).
  all: try (apply Hz; apply cost_bind0; [apply cost_occ_replace_with|intros ?; apply cost_ret]).
  all: try (apply cost_bind0; [cz|intros ?]; first [apply Hv|apply Hi]).
  all: try (apply Hhv; first [exact Hth|apply cost_when|idtac]; apply cost_on_unwind; [exact Hth|cz]).
  - eapply cost_weaken; [|apply (cost_bind (D 1 0 0 0) (D R R 1 2)); [apply cost_on_unwind; [exact Hth|cz]|intros _]]; [dle_solve|].
    eapply cost_weaken; [|apply (cost_bind (D R R 1 2) dz); [apply cost_rt_insert|intros _; apply cost_ret]]. dle_solve.
  - apply cost_bind0; [apply cost_cb|intros ?]. apply Hhv. apply cost_on_unwind; [exact Hth|cz].
Qed.

Lemma cost_drop_ent e : cost dz (match e with EOcc _ _ held => drop_held held | EVac _ held => drop_held held | EDone => ret tt end).
Proof. destruct e; try apply cost_drop_held. apply cost_ret. Qed.

(* a chain of n steps: n times the cost of a step *)
Lemma cost_entry_steps raw : forall ss e acc,
  cost (dmul (N.of_nat (length ss)) dstep) (entry_steps c raw e ss acc).
Proof.
  induction ss as [|s ss IH]; intros e acc; cbn [entry_steps].
  - apply cost_bind0; [eapply cost_weaken; [|apply cost_drop_ent]; dle_solve|intros _; apply cost_ret'].
  - eapply cost_weaken; [|apply (cost_bind dstep (dmul (N.of_nat (length ss)) dstep))].
    + unfold dle, dadd, dmul, dstep. cbn [dh dm da df length]. lia.
    + apply cost_entry_step.
    + intros r. apply IH.
Qed.

Lemma cost_map_entry k kid ss :
  cost (dadd (D 1 0 0 0) (dmul (N.of_nat (length ss)) dstep)) (map_entry c k kid ss).
Proof.
  unfold map_entry. apply cost_bind; [apply cost_on_unwind; [apply cost_tick_hash|apply cost_drop_key]|].
  intros _. apply cost_bind0; [apply cost_rt_find|]. intros x. apply cost_entry_steps.
Qed.

Lemma cost_map_raw_entry variant k ss :
  cost (dadd (D 1 0 0 0) (dmul (N.of_nat (length ss)) dstep)) (map_raw_entry c variant k ss).
Proof.
  unfold map_raw_entry. apply cost_bind; [apply cost_when, cost_tick_hash|].
  intros _. apply cost_bind0; [apply cost_rt_find|]. intros x. apply cost_entry_steps.
Qed.

Lemma cost_map_raw_get variant k : cost (D 1 0 0 0) (map_raw_get variant k).
Proof.
  unfold map_raw_get. eapply cost_weaken; [|apply (cost_bind (D 1 0 0 0) dz); [apply cost_when, cost_tick_hash|]]; [dle_solve|].
  intros _. apply cost_bind0; [apply cost_rt_find|intros x; apply cost_ret].
Qed.

End EntryCost.
