(* MapProofs.v — the HashMap front-end (Map.v) over the proven raw layer. *)
From stdpp Require Import gmap list.
From Coq Require Import NArith Lia.
From G Require Import Arith Monad Types Inv Raw RawProofs Map.
Local Open Scope N_scope.

Section MapProofs.
Context (c : cfg).
Notation R := (cR c).
Notation ES := (cesz c).

(* the counters and shape the hook can see *)
Definition shape (r : rt) : N * N * N * option (N * N * N) :=
  (hn (main r), hgl (main r), hB (main r), option_map (fun o => (ocnt o, oB o, oit o)) (lo r)).

Lemma set_value_spec im k v e (Q : unit -> st -> Prop) (U : panic -> st -> Prop) s :
  Inv R ES (s_rt s) -> rt_find_pure (s_rt s) k = Some (im, e) ->
  (forall s', Inv R ES (s_rt s') -> rt_abs (s_rt s') = <[k := Elem k (ekid e) v]> (rt_abs (s_rt s)) ->
              shape (s_rt s') = shape (s_rt s) ->
              rt_find_pure (s_rt s') k = Some (im, Elem k (ekid e) v) ->
              (forall k', k' <> k -> rt_find_pure (s_rt s') k' = rt_find_pure (s_rt s) k') -> Q tt s') ->
  wp (set_value im k v) Q U s.
Proof.
  intros HI Hf HQ. pose proof HI as (HR & Hok & Ho). unfold set_value. destruct im.
  - apply rt_find_main in Hf. wp_steps. rewrite Hf. wp_steps.
    destruct (s_rt s) as [t lo0] eqn:Ert. cbn [main lo] in *.
    pose proof Hok as (Hcap & Hn & Hkey & HB).
    apply HQ; cbn [set_rt s_rt main lo].
    + split; [exact HR|]. split.
      * split; [hl; lia|]. split; [hl; rewrite size_insert_Some with (e' := e) by exact Hf; exact Hn|].
        split; [|exact HB]. intros j x. hl. destruct (N.eq_dec j k) as [->|Hne].
        -- rewrite lookup_insert. intros [= <-]. reflexivity.
        -- rewrite lookup_insert_ne by congruence. apply Hkey.
      * cbn [lo main]. destruct lo0 as [o|]; [|exact I].
        destruct Ho as (Hit & Hc & Hnd & Hdis & Hneed).
        split; [exact Hit|]. split; [exact Hc|]. split; [exact Hnd|]. split; [|exact Hneed].
        intros x Hx. hl. rewrite lookup_insert_ne; [apply Hdis; exact Hx|].
        intros Heq. specialize (Hdis x Hx). rewrite <- Heq in Hdis. congruence.
    + unfold rt_abs. cbn [main lo hb_upd hel]. symmetry. apply insert_union_l.
    + reflexivity.
    + unfold rt_find_pure. cbn [main hb_upd hel]. rewrite lookup_insert. reflexivity.
    + intros k' Hk'. unfold rt_find_pure. cbn [main lo hb_upd hel]. rewrite lookup_insert_ne by congruence. reflexivity.
  - apply rt_find_old in Hf as (Hnone & o & Hlo & Hl). wp_steps. rewrite Hlo, Hl. wp_steps.
    destruct (s_rt s) as [t lo0] eqn:Ert. cbn [main lo] in *. subst lo0.
    destruct Ho as (Hit & Hc & Hnd & Hdis & Hneed).
    pose proof (lookup_list_Some _ _ _ Hl) as [Hin Hk].
    assert (Hkin : k ∈ map ek (orem o)).
    { rewrite <- Hk. apply elem_of_list_fmap. exists e. auto. }
    apply HQ; cbn [set_rt s_rt main lo].
    + split; [exact HR|]. split; [exact Hok|]. cbn [lo main].
      split; [exact Hit|]. split; [cbn [ocnt orem]; rewrite replace_list_length; exact Hc|].
      split; [cbn [orem]; rewrite replace_list_keys; exact Hnd|]. split; [|exact Hneed].
      intros x Hx. cbn [orem] in Hx. apply replace_list_elem in Hx.
      apply elem_of_list_fmap in Hx as (y & Hy & Hyin). rewrite Hy. apply Hdis. exact Hyin.
    + unfold rt_abs. cbn [main lo orem].
      rewrite (list_to_emap_replace (Elem k (ekid e) v)) by exact Hkin. cbn [ek].
      symmetry. apply insert_union_r. exact Hnone.
    + reflexivity.
    + unfold rt_find_pure. cbn [main lo orem]. rewrite Hnone.
      rewrite (lookup_list_nodup k _ (Elem k (ekid e) v)); [reflexivity| | |reflexivity].
      * rewrite replace_list_keys. exact Hnd.
      * unfold replace_list. apply elem_of_list_In, List.in_map_iff. exists e. split; [|apply elem_of_list_In; exact Hin].
        rewrite Hk, N.eqb_refl. reflexivity.
    + intros k' Hk'. unfold rt_find_pure. cbn [main lo orem]. destruct (hel t !! k'); [reflexivity|].
      f_equal. apply lookup_list_replace_ne. cbn [ek]. congruence.
Qed.

(* ------------------------------------------------------------------ insert *)

(* progress of a pending resize across a call that adds a key (or overwrites an element that
   still waits in the old table): min(R, remaining) elements leave the old table, which is
   released when none is left; a call that only touches the main table changes nothing *)
Definition progress (r : rt) (moves : bool) (r' : rt) : Prop :=
  match lo r with
  | Some o =>
      if moves then
        match lo r' with
        | Some o' => ocnt o' + R = ocnt o /\ R < ocnt o /\ oB o' = oB o
        | None => ocnt o <= R
        end
      else shape r' = shape r
  | None => True
  end.

Definition map_insert_Q (r : rt) (k kid v : N) (res : option N) (r' : rt) : Prop :=
  Inv R ES r' /\
  match rt_abs r !! k with
  | Some e => res = Some (ev e) /\ rt_abs r' = <[k := Elem k (ekid e) v]> (rt_abs r)
  | None => res = None /\ rt_abs r' = <[k := Elem k kid v]> (rt_abs r)
  end /\
  progress r (match hel (main r) !! k with Some _ => false | None => true end) r'.

Definition loss_U (r : rt) (k kid v : N) (p : panic) (s' : st) : Prop :=
  Inv R ES (s_rt s') /\ (p = PUser \/ (p = PCapOverflow /\ rt_abs (s_rt s') = rt_abs r)) /\
  (forall j e, rt_abs (s_rt s') !! j = Some e -> j <> k -> rt_abs r !! j = Some e).

Lemma map_insert_spec k kid v s :
  Inv R ES (s_rt s) ->
  wp (map_insert c k kid v) (fun res s' => map_insert_Q (s_rt s) k kid v res (s_rt s')) (loss_U (s_rt s) k kid v) s.
Proof.
  intros HI. pose proof HI as (HR & Hok & Ho). unfold map_insert.
  apply wp_bind. apply wp_on_unwind. eapply frameU_use; [apply frame_tick_hash| |].
  2:{ intros p s1 Hs1 ->. apply wp_bind. apply frame0_use; [apply frame0_tick|]. intros [] s2 Hs2.
      apply frame0_use; [apply frame0_tick|]. intros [] s3 Hs3. unfold loss_U. rewrite Hs3, Hs2, Hs1.
      split; [exact HI|]. split; [left; reflexivity|]. auto. }
  intros [] s1 Hs1. unfold rt_find. wp_steps. rewrite Hs1.
  pose proof (rt_find_abs c (s_rt s) k HI) as Hfa.
  destruct (rt_find_pure (s_rt s) k) as [[im e]|] eqn:Hf.
  - (* overwrite *)
    cbn [option_map snd] in Hfa. apply wp_bind.
    apply (set_value_spec im k v e); [rewrite Hs1; exact HI|rewrite Hs1; exact Hf|].
    intros s2 HI2 Habs2 Hsh2 Hf2 _. rewrite Hs1 in *.
    assert (Hfin : forall s3, Inv R ES (s_rt s3) -> rt_abs (s_rt s3) = rt_abs (s_rt s2) ->
               progress (s_rt s) (negb im) (s_rt s3) ->
               wp (bind (drop_key kid) (fun _ => ret (Some (ev e))))
                  (fun res s' => map_insert_Q (s_rt s) k kid v res (s_rt s')) (loss_U (s_rt s) k kid v) s3).
    { intros s3 HI3 Habs3 Hpr. apply wp_bind. apply frame0_use; [apply frame0_tick|]. intros [] s4 Hs4. apply wp_ret.
      unfold map_insert_Q. rewrite Hs4. split; [exact HI3|]. rewrite Hfa. split; [split; [reflexivity|congruence]|].
      destruct im.
      - apply rt_find_main in Hf. rewrite Hf. exact Hpr.
      - apply rt_find_old in Hf as (Hnone & _). rewrite Hnone. exact Hpr. }
    destruct im.
    + apply wp_bind. apply wp_ret. apply Hfin; [exact HI2|reflexivity|].
      unfold progress. cbn [negb]. destruct (lo (s_rt s)); [exact Hsh2|exact I].
    + (* the element is still in the old table: carry *)
      apply wp_bind. wp_steps.
      pose proof (rt_find_old _ _ _ Hf2) as (Hnone2 & o2 & Hlo2 & Hl2).
      rewrite Hlo2. unfold debug_check. cbn [is_some_b]. wp_steps.
      apply wp_on_unwind. pose proof HI2 as (_ & Hok2 & Ho2). rewrite Hlo2 in Ho2.
      eapply wp_conseq; [apply (rt_carry_spec c s2 o2 HR Hlo2 Hok2)| |].
      * apply old_ok_pre with (c := c). exact Ho2.
      * apply budget_of_need'; [exact HR|]. destruct Ho2 as (_ & _ & _ & _ & Hn). exact Hn.
      * intros [] s3 (HI3 & Habs3 & _ & _ & _ & Hlo3). apply Hfin; [assumption|assumption|].
        unfold progress. cbn [negb]. rewrite Hlo2 in Hlo3. destruct Hlo3 as (_ & _ & Hlo3).
        unfold shape in Hsh2. rewrite Hlo2 in Hsh2.
        destruct (lo (s_rt s)) as [o|]; [|exact I]. cbn [option_map] in Hsh2.
        assert (Hoo : ocnt o2 = ocnt o /\ oB o2 = oB o) by (split; congruence). destruct Hoo as [Hc2 HB2].
        destruct (lo (s_rt s3)) as [o3|].
        -- destruct Hlo3 as (H1 & H2 & H3). rewrite N.min_l in H1 by lia. repeat split; congruence || lia.
        -- lia.
      * intros p s3 (HI3 & -> & Hsub). apply wp_bind. apply frame0_use; [apply frame0_tick|]. intros [] s4 Hs4.
        apply frame0_use; [apply frame0_tick|]. intros [] s5 Hs5. unfold loss_U. rewrite Hs5, Hs4.
        split; [exact HI3|]. split; [left; reflexivity|].
        intros j x Hx Hjk. eapply lookup_weaken in Hx; [|exact Hsub]. rewrite Habs2 in Hx.
        rewrite lookup_insert_ne in Hx by congruence. exact Hx.
  - cbn [option_map] in Hfa. apply wp_bind.
    eapply wp_conseq; [apply (rt_insert_spec c (Elem k kid v) s1); [rewrite Hs1; exact HI|rewrite Hs1; exact Hfa]| |].
    + intros [] s2 (HI2 & Habs2 & _ & Hpos & Hfull). apply wp_ret. unfold map_insert_Q. split; [exact HI2|].
      rewrite Hfa. split; [split; [reflexivity|rewrite Habs2, Hs1; reflexivity]|].
      rewrite Hs1 in *. unfold rt_find_pure in Hf.
      destruct (hel (main (s_rt s)) !! k) eqn:Hm; [discriminate|].
      unfold progress. destruct (lo (s_rt s)) as [o|] eqn:Hlo; [|exact I].
      destruct (N.eq_dec (hgl (main (s_rt s))) 0) as [Hz|Hz].
      * destruct (Hfull Hz) as [Hcontra _]. discriminate.
      * destruct (Hpos ltac:(lia)) as (_ & _ & _ & _ & _ & Hprog). rewrite Hlo in Hprog. destruct Hprog as [_ Hprog]. exact Hprog.
    + intros p s2 (HI2 & Hp & Hsub). split; [exact HI2|]. split; [rewrite Hs1 in Hp; exact Hp|].
      intros j x Hx Hjk. eapply lookup_weaken in Hx; [|exact Hsub]. cbn [ek] in Hx.
      rewrite lookup_insert_ne in Hx by congruence. rewrite Hs1 in Hx. exact Hx.
Qed.


(* ------------------------------------------------------------------ lookups and removal *)

(* what a lookup returns, given what the map holds for the key *)
Definition get_out (g : gvar) (x : option elem) : out :=
  match g with
  | GGet | GGetMut | GIndex => OutOV (ev <$> x)
  | GKeyValue | GKeyValueMut => OutOKV ((fun e => (ekid e, ev e)) <$> x)
  | GContains => OutB (bool_decide (is_Some x))
  end.
Definition get_writes (g : gvar) : bool := match g with GGetMut | GKeyValueMut => true | _ => false end.

Lemma map_get_spec g k wv s :
  Inv R ES (s_rt s) ->
  wp (map_get g k wv)
     (fun o s' =>
        Inv R ES (s_rt s') /\
        let x := rt_abs (s_rt s) !! k in
        o = get_out g x /\
        rt_abs (s_rt s') = (if get_writes g then match x with Some e => <[k := Elem k (ekid e) wv]> (rt_abs (s_rt s)) | None => rt_abs (s_rt s) end
                            else rt_abs (s_rt s)) /\
        (get_writes g = false -> s_rt s' = s_rt s) /\ (g = GIndex -> is_Some x))
     (fun p s' => s_rt s' = s_rt s /\ (p = PUser \/ p = PIndexMissing /\ rt_abs (s_rt s) !! k = None /\ g = GIndex)) s.
Proof.
  intros HI. unfold map_get. apply wp_bind. eapply frameU_use; [apply frame_tick_hash| |].
  2:{ intros p s1 Hs1 ->. split; [exact Hs1|left; reflexivity]. }
  intros [] s1 Hs1. unfold rt_find. wp_steps. rewrite Hs1.
  pose proof (rt_find_abs c (s_rt s) k HI) as Hfa. rewrite Hfa.
  destruct (rt_find_pure (s_rt s) k) as [[im e]|] eqn:Hf; cbn [option_map snd fmap option_fmap] in *.
  - destruct g; cbn [get_out get_writes];
      try (apply wp_ret; split; [rewrite Hs1; exact HI|]; cbn; repeat split; rewrite ?Hs1; try reflexivity; eauto).
    + apply wp_bind. apply (set_value_spec im k wv e); [rewrite Hs1; exact HI|rewrite Hs1; exact Hf|].
      intros s2 HI2 Habs2 _ _ _. apply wp_ret. split; [exact HI2|]. cbn. repeat split; try discriminate. rewrite Habs2, Hs1. reflexivity.
    + apply wp_bind. apply (set_value_spec im k wv e); [rewrite Hs1; exact HI|rewrite Hs1; exact Hf|].
      intros s2 HI2 Habs2 _ _ _. apply wp_ret. split; [exact HI2|]. cbn. repeat split; try discriminate. rewrite Habs2, Hs1. reflexivity.
  - destruct g; cbn [get_out get_writes];
      try (apply wp_ret; split; [rewrite Hs1; exact HI|]; cbn; repeat split; rewrite ?Hs1; try reflexivity; try discriminate).
    apply wp_unwind. split; [exact Hs1|]. right. auto.
Qed.

Lemma map_remove_entry_spec k s :
  Inv R ES (s_rt s) ->
  wp (map_remove_entry c k)
     (fun o s' => Inv R ES (s_rt s') /\ o = rt_abs (s_rt s) !! k /\ rt_abs (s_rt s') = delete k (rt_abs (s_rt s)))
     (fun p s' => s_rt s' = s_rt s /\ p = PUser) s.
Proof.
  intros HI. unfold map_remove_entry. apply wp_bind. eapply frameU_use; [apply frame_tick_hash| |].
  2:{ intros p s1 Hs1 ->. auto. }
  intros [] s1 Hs1. unfold rt_find. wp_steps. rewrite Hs1.
  pose proof (rt_find_abs c (s_rt s) k HI) as Hfa. rewrite Hfa.
  destruct (rt_find_pure (s_rt s) k) as [[im e]|] eqn:Hf; cbn [option_map snd].
  - apply wp_bind. apply (rt_remove_spec c im k e); [rewrite Hs1; exact HI|rewrite Hs1; exact Hf|].
    intros s2 (HI2 & Habs2 & _). apply wp_ret. rewrite Hs1 in Habs2. auto.
  - apply wp_ret. split; [rewrite Hs1; exact HI|]. split; [reflexivity|]. rewrite Hs1.
    symmetry. apply delete_notin. exact Hfa.
Qed.

(* ------------------------------------------------------------------ extend / from_iter *)

(* the reference: one insert after the other (a duplicate key keeps the first key object) *)
Definition ext1 (m : gmap N elem) (x : N * N * N) : gmap N elem :=
  let '(k, kid, v) := x in
  <[k := Elem k (match m !! k with Some e => ekid e | None => kid end) v]> m.
Definition ext (m : gmap N elem) (items : list (N * N * N)) : gmap N elem := fold_left ext1 items m.

Definition XU : panic -> st -> Prop := fun p s' => Inv R ES (s_rt s') /\ (p = PUser \/ p = PCapOverflow).

Lemma insert_all_spec : forall (items : list (N * N * N)) s,
  Inv R ES (s_rt s) ->
  wp (iterM (fun x => let '(k, kid, v) := x in
                      o <- map_insert c k kid v ;;
                      match o with Some v' => drop_val v' | None => ret tt end) items)
     (fun _ s' => Inv R ES (s_rt s') /\ rt_abs (s_rt s') = ext (rt_abs (s_rt s)) items) XU s.
Proof.
  induction items as [|[[k kid] v] items IH]; intros s HI; cbn [iterM].
  - apply wp_ret. auto.
  - apply wp_bind. apply wp_bind.
    eapply wp_conseq; [apply (map_insert_spec k kid v s HI)| |].
    + intros res s1 (HI1 & Hres & _).
      assert (Habs1 : rt_abs (s_rt s1) = ext1 (rt_abs (s_rt s)) (k, kid, v)).
      { unfold ext1. destruct (rt_abs (s_rt s) !! k); destruct Hres as [_ ->]; reflexivity. }
      apply (wp_mono _ (fun _ s2 => s_rt s2 = s_rt s1)).
      { destruct res; [apply frame0_use; [apply frame0_tick|auto]|apply wp_ret; reflexivity]. }
      intros [] s2 Hs2. eapply wp_conseq; [apply (IH s2); rewrite Hs2; exact HI1| |].
      * intros [] s3 [HI3 Habs3]. split; [exact HI3|]. rewrite Habs3, Hs2, Habs1. reflexivity.
      * auto.
    + intros p s1 (HI1 & Hp & _). split; [exact HI1|]. destruct Hp as [->|[-> _]]; auto.
Qed.

Lemma map_extend_spec items hint s :
  Inv R ES (s_rt s) -> hint <= usize_max ->
  wp (map_extend c items hint)
     (fun _ s' => Inv R ES (s_rt s') /\ rt_abs (s_rt s') = ext (rt_abs (s_rt s)) items) XU s.
Proof.
  intros HI Hh. unfold map_extend. wp_steps.
  set (rsv := if rt_len (s_rt s) =? 0 then hint else hint / 2 + hint mod 2).
  assert (Hrsv : rsv <= usize_max).
  { unfold rsv. destruct (_ =? 0); [exact Hh|]. pose proof (N.div_mod hint 2 ltac:(lia)). pose proof (N.mod_lt hint 2 ltac:(lia)). lia. }
  apply wp_on_unwind. apply rt_reserve_spec; [exact HI|exact Hrsv| | |].
  - intros s1 (HI1 & Habs1 & _). eapply wp_conseq; [apply (insert_all_spec items s1 HI1)| |]; [|auto].
    intros [] s2 [HI2 Habs2]. split; [exact HI2|]. rewrite Habs2, Habs1. reflexivity.
  - discriminate.
  - intros p s1 (HI1 & Hp & _) _. apply frame0_use.
    { apply frameU_iterM. intros [[k kid] v]. apply frameU_bind; [apply frame0_tick|intros _; apply frame0_tick]. }
    intros [] s2 Hs2. split; [rewrite Hs2; exact HI1|exact Hp].
Qed.

Lemma ext_app m a b : ext m (a ++ b) = ext (ext m a) b.
Proof. unfold ext. apply fold_left_app. Qed.

Lemma extend_chunks_spec : forall (chunks : list (list (N * N * N))) s,
  Inv R ES (s_rt s) -> (forall ch, ch ∈ chunks -> N.of_nat (length ch) <= usize_max) ->
  wp (iterM (fun ch => map_extend c ch (N.of_nat (length ch))) chunks)
     (fun _ s' => Inv R ES (s_rt s') /\ rt_abs (s_rt s') = ext (rt_abs (s_rt s)) (concat chunks)) XU s.
Proof.
  induction chunks as [|ch chunks IH]; intros s HI Hlen; cbn [iterM concat].
  - apply wp_ret. auto.
  - apply wp_bind. eapply wp_conseq; [apply (map_extend_spec ch _ s HI); apply Hlen; left| |]; [|auto].
    intros [] s1 [HI1 Habs1]. eapply wp_conseq; [apply (IH s1 HI1)| |]; [intros ch' Hch'; apply Hlen; right; exact Hch'| |auto].
    intros [] s2 [HI2 Habs2]. split; [exact HI2|]. rewrite Habs2, Habs1, ext_app. reflexivity.
Qed.

(* rayon par_extend: whatever the pieces, the same collection as extending by all items in order *)
Lemma map_par_extend_spec chunks s :
  Inv R ES (s_rt s) -> N.of_nat (length (concat chunks)) < usize_max ->
  wp (map_par_extend c chunks)
     (fun _ s' => Inv R ES (s_rt s') /\ rt_abs (s_rt s') = ext (rt_abs (s_rt s)) (concat chunks)) XU s.
Proof.
  intros HI Hh. unfold map_par_extend. wp_steps.
  set (len := N.of_nat (length (concat chunks))) in *.
  set (rsv := if rt_len (s_rt s) =? 0 then len else (len + 1) / 2).
  assert (Hrsv : rsv <= usize_max).
  { unfold rsv. destruct (_ =? 0); [lia|]. apply N.div_le_upper_bound; lia. }
  assert (Hch : forall ch, ch ∈ chunks -> N.of_nat (length ch) <= usize_max).
  { intros ch Hin. assert ((length ch <= length (concat chunks))%nat); [|unfold len in Hh; lia].
    clear -Hin. induction chunks as [|x xs IH]; [inversion Hin|]. cbn [concat]. rewrite app_length.
    apply elem_of_cons in Hin as [->|Hin]; [lia|]. specialize (IH Hin). lia. }
  apply wp_on_unwind. apply rt_reserve_spec; [exact HI|exact Hrsv| | |].
  - intros s1 (HI1 & Habs1 & _). eapply wp_conseq; [apply (extend_chunks_spec chunks s1 HI1 Hch)| |]; [|auto].
    intros [] s2 [HI2 Habs2]. split; [exact HI2|]. rewrite Habs2, Habs1. reflexivity.
  - discriminate.
  - intros p s1 (HI1 & Hp & _) _. apply frame0_use.
    { apply frameU_iterM. intros [[k kid] v]. apply frameU_bind; [apply frame0_tick|intros _; apply frame0_tick]. }
    intros [] s2 Hs2. split; [rewrite Hs2; exact HI1|exact Hp].
Qed.

(* ------------------------------------------------------------------ serde *)

(* inserting the elements of an enumeration of a map one by one into an empty map rebuilds it *)
Lemma ext_rebuild : forall (l : list elem) (m0 : gmap N elem),
  NoDup (map ek l) -> (forall e, e ∈ l -> m0 !! ek e = None) ->
  ext m0 (map elem3 l) = list_to_emap l ∪ m0.
Proof.
  induction l as [|e l IH]; intros m0 Hnd Hdis.
  - cbn. change (list_to_emap []) with (∅ : gmap N elem). rewrite (left_id_L ∅ (∪)). reflexivity.
  - cbn [map] in *. apply NoDup_cons in Hnd as [Hne Hnd]. unfold ext. cbn [fold_left]. fold (ext (ext1 m0 (elem3 e)) (map elem3 l)).
    assert (H1 : ext1 m0 (elem3 e) = <[ek e := e]> m0).
    { unfold ext1, elem3. rewrite (Hdis e) by left. destruct e; reflexivity. }
    rewrite H1, IH; [|exact Hnd|].
    + rewrite list_to_emap_cons. rewrite <- insert_union_r, insert_union_l; [reflexivity|].
      destruct (list_to_emap l !! ek e) as [x|] eqn:E; [|reflexivity]. exfalso.
      apply list_to_emap_key in E as [Hk Hin]; [|exact Hnd]. apply Hne. rewrite <- Hk. apply elem_of_list_fmap. eauto.
    + intros x Hx. rewrite lookup_insert_ne; [apply Hdis; right; exact Hx|].
      intros Heq. apply Hne. rewrite Heq. apply elem_of_list_fmap. eauto.
Qed.

Lemma ext_roundtrip (l : list elem) : NoDup (map ek l) -> ext ∅ (map elem3 l) = list_to_emap l.
Proof. intros Hnd. rewrite ext_rebuild; [apply (right_id_L ∅ (∪))|exact Hnd|intros; apply lookup_empty]. Qed.

Lemma map_deser_in_place_spec items hint s :
  Inv R ES (s_rt s) ->
  wp (map_deser_in_place c items hint)
     (fun _ s' => Inv R ES (s_rt s') /\ rt_abs (s_rt s') = ext ∅ items) XU s.
Proof.
  intros HI. unfold map_deser_in_place. apply wp_bind. apply (rt_clear_spec c); [exact HI|].
  intros s1 HI1 Habs1 _ _. apply wp_bind.
  assert (Hc : cautious hint <= usize_max).
  { unfold cautious. pose proof cautious_fits. pose proof (N.le_min_r hint 4096). lia. }
  apply (rt_reserve_spec c); [exact HI1|exact Hc| | |].
  - intros s2 (HI2 & Habs2 & _). eapply wp_conseq; [apply (insert_all_spec items s2 HI2)| |]; [|auto].
    intros [] s3 [HI3 Habs3]. split; [exact HI3|]. rewrite Habs3, Habs2, Habs1. reflexivity.
  - discriminate.
  - intros p s2 (HI2 & Hp & _) _. split; [exact HI2|exact Hp].
Qed.

End MapProofs.
