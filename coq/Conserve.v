(* Conserve.v — conservation of key and value objects across calls that take objects in (C06):
   what a call was given, together with what was stored and what had been dropped before, is
   afterwards stored, dropped or handed back - each object exactly once.  Obtained by joining
   the drop-ledger calculus (Ledger.v: what is dropped) with the refinement specs (MapProofs.v:
   what is stored afterwards). *)
From stdpp Require Import gmap list.
From Coq Require Import NArith Lia.
From G Require Import Arith Monad Types Inv Raw RawProofs Map MapProofs IterProofs CloneProofs SetProofs Ledger.
Local Open Scope N_scope.

Lemma map_to_list_disj_union {A} (m1 m2 : gmap N A) :
  m1 ##ₘ m2 -> map_to_list (m1 ∪ m2) ≡ₚ map_to_list m1 ++ map_to_list m2.
Proof.
  intros Hd. apply NoDup_Permutation.
  - apply NoDup_map_to_list.
  - apply NoDup_app. split; [apply NoDup_map_to_list|]. split; [|apply NoDup_map_to_list].
    intros [k x] H1 H2. apply elem_of_map_to_list in H1, H2. eapply map_disjoint_spec; eauto.
  - intros [k x]. rewrite elem_of_app, !elem_of_map_to_list, lookup_union_Some by exact Hd. reflexivity.
Qed.

Section Conserve.
Context (c : cfg).
Notation R := (cR c).
Notation ES := (cesz c).

(* the elements stored in the two tables are the elements of the contents *)
Lemma elems_abs_perm r : Inv R ES r -> elems r ≡ₚ (map_to_list (rt_abs r)).*2.
Proof.
  intros (HR & Hok & Ho). unfold elems, rt_abs. destruct (lo r) as [o|].
  - destruct Ho as (_ & _ & Hnd & Hdis & _).
    rewrite map_to_list_disj_union.
    + rewrite fmap_app. apply Permutation_app_head. symmetry. apply (collect_perm (orem o) Hnd).
    + apply map_disjoint_spec. intros k e1 e2 H1 H2. apply list_to_emap_key in H2 as [Hk Hin]; [|exact Hnd].
      specialize (Hdis e2 Hin). rewrite Hk in Hdis. congruence.
  - rewrite (right_id_L ∅ (∪)), app_nil_r. reflexivity.
Qed.

Lemma abs_insert_new_perm (m : gmap N elem) k e :
  m !! k = None -> (map_to_list (<[k := e]> m)).*2 ≡ₚ e :: (map_to_list m).*2.
Proof. intros H. rewrite map_to_list_insert by exact H. reflexivity. Qed.
Lemma abs_overwrite_perm (m : gmap N elem) k e0 e :
  m !! k = Some e0 -> exists rest, (map_to_list m).*2 ≡ₚ e0 :: rest /\ (map_to_list (<[k := e]> m)).*2 ≡ₚ e :: rest.
Proof.
  intros H. exists (map_to_list (delete k m)).*2. split.
  - rewrite <- (map_to_list_delete m k e0 H). reflexivity.
  - rewrite <- (insert_delete_insert m). rewrite map_to_list_insert by apply lookup_delete. reflexivity.
Qed.

(* C06: HashMap::insert.  The key object given to the call is afterwards stored or dropped; the
   value object given is stored; the value it displaced (if any) is handed back - and nothing
   else changes hands: every object exactly once. *)
Theorem map_insert_conserves k kid v s o s' :
  Inv R ES (s_rt s) -> map_insert c k kid v s = Ok o s' ->
  Inv R ES (s_rt s') /\
  dks s' ++ map ekid (elems (s_rt s')) ≡ₚ kid :: dks s ++ map ekid (elems (s_rt s)) /\
  match o with Some v0 => [v0] | None => [] end ++ dvs s' ++ map ev (elems (s_rt s')) ≡ₚ v :: dvs s ++ map ev (elems (s_rt s)).
Proof.
  intros HI E. pose proof (map_insert_ledger c k kid v s (Inv_lite _ _ _ HI)) as HL. unfold wpp in HL. rewrite E in HL.
  pose proof (map_insert_spec c k kid v s HI) as HS. unfold wp in HS. rewrite E in HS.
  destruct HL as (_ & Hdv & Hcase). destruct HS as (HI' & Hres & _). split; [exact HI'|].
  rewrite (elems_abs_perm _ HI'), (elems_abs_perm _ HI).
  pose proof (rt_find_abs c (s_rt s) k HI) as Hfa.
  destruct (rt_find_pure (s_rt s) k) as [[im e]|] eqn:Ef; cbn [option_map snd] in Hfa; rewrite Hfa in Hres.
  - destruct Hcase as [Hdk ->]. destruct Hres as [_ Habs]. rewrite Habs, Hdk, Hdv.
    destruct (abs_overwrite_perm (rt_abs (s_rt s)) k e (Elem k (ekid e) v) Hfa) as (rest & H1 & H2).
    rewrite H1, H2. cbn [map ekid ev app]. split.
    + reflexivity.
    + rewrite <- !Permutation_middle. apply Permutation_swap.
  - destruct Hcase as [Hdk ->]. destruct Hres as [_ Habs]. rewrite Habs, Hdk, Hdv.
    rewrite (abs_insert_new_perm _ k _ Hfa). cbn [map ekid ev app]. split; rewrite <- Permutation_middle; reflexivity.
Qed.

Definition ins_drop (x : N * N * N) : M' unit :=
  let '(k, kid, v) := x in
  o <- map_insert c k kid v ;;
  match o with Some v' => drop_val v' | None => ret tt end.

Definition kids_of (items : list (N * N * N)) : list N := map (fun x => snd (fst x)) items.
Definition vals_of (items : list (N * N * N)) : list N := map snd items.

Lemma ins_drop_conserves x s u s' :
  Inv R ES (s_rt s) -> ins_drop x s = Ok u s' ->
  Inv R ES (s_rt s') /\
  dks s' ++ map ekid (elems (s_rt s')) ≡ₚ snd (fst x) :: dks s ++ map ekid (elems (s_rt s)) /\
  dvs s' ++ map ev (elems (s_rt s')) ≡ₚ snd x :: dvs s ++ map ev (elems (s_rt s)).
Proof.
  destruct x as [[k kid] v]. intros HI E. unfold ins_drop, bind in E.
  destruct (map_insert c k kid v s) as [o s1|p s1|f] eqn:Ei; [|discriminate|discriminate].
  destruct (map_insert_conserves k kid v s o s1 HI Ei) as (HI1 & Hk & Hv). cbn [fst snd].
  destruct o as [v0|].
  - unfold drop_val, tick, modify in E. injection E as _ <-. cbn [set_log s_rt]. split; [exact HI1|].
    unfold dks, dvs in *. cbn [set_log s_log log_dv l_dk l_dv]. split; [exact Hk|exact Hv].
  - unfold ret in E. injection E as _ <-. auto.
Qed.

Lemma insert_all_conserves : forall items s u s',
  Inv R ES (s_rt s) -> iterM ins_drop items s = Ok u s' ->
  Inv R ES (s_rt s') /\
  dks s' ++ map ekid (elems (s_rt s')) ≡ₚ kids_of items ++ dks s ++ map ekid (elems (s_rt s)) /\
  dvs s' ++ map ev (elems (s_rt s')) ≡ₚ vals_of items ++ dvs s ++ map ev (elems (s_rt s)).
Proof.
  induction items as [|x items IH]; intros s u s' HI E; cbn [iterM] in E.
  - unfold ret in E. injection E as _ <-. auto.
  - unfold bind in E. destruct (ins_drop x s) as [u1 s1|p s1|f] eqn:E1; [|discriminate|discriminate].
    destruct (ins_drop_conserves x s u1 s1 HI E1) as (HI1 & Hk1 & Hv1).
    destruct (IH s1 u s' HI1 E) as (HI' & Hk & Hv). split; [exact HI'|].
    unfold kids_of, vals_of in *. cbn [map]. split.
    + rewrite Hk, Hk1. cbn [app]. rewrite <- Permutation_middle. reflexivity.
    + rewrite Hv, Hv1. cbn [app]. rewrite <- Permutation_middle. reflexivity.
Qed.

(* C06: extend.  Every key and value object of the items is afterwards stored or dropped (the
   key of an item whose key was present, the value an item displaced), exactly once; nothing
   else is dropped, whatever resizing and moving the call performs *)
Theorem map_extend_conserves items hint s u s' :
  Inv R ES (s_rt s) -> hint <= usize_max -> map_extend c items hint s = Ok u s' ->
  Inv R ES (s_rt s') /\
  dks s' ++ map ekid (elems (s_rt s')) ≡ₚ kids_of items ++ dks s ++ map ekid (elems (s_rt s)) /\
  dvs s' ++ map ev (elems (s_rt s')) ≡ₚ vals_of items ++ dvs s ++ map ev (elems (s_rt s)).
Proof.
  intros HI Hh E. unfold map_extend, bind, get in E.
  set (rsv := if rt_len (s_rt s) =? 0 then hint else hint / 2 + hint mod 2) in E.
  assert (Hrsv : rsv <= usize_max).
  { unfold rsv. destruct (_ =? 0); [exact Hh|]. pose proof (N.div_mod hint 2 ltac:(lia)). pose proof (N.mod_lt hint 2 ltac:(lia)). lia. }
  unfold on_unwind in E. destruct (rt_reserve c false rsv s) as [b s1|p s1|f] eqn:Er.
  2:{ destruct (iterM _ items s1); discriminate. }
  2:{ discriminate. }
  (* the reservation: same contents, nothing dropped *)
  pose proof (rt_reserve_spec c false rsv (fun _ s1 => Inv R ES (s_rt s1) /\ rt_abs (s_rt s1) = rt_abs (s_rt s)) (fun _ _ => True) s HI Hrsv) as Hsp.
  unfold wp in Hsp. rewrite Er in Hsp. destruct Hsp as [HI1 Habs1]; [intros s0 (H1 & H2 & _); auto|discriminate|auto|].
  pose proof (nd_rt_reserve c false rsv s (Inv_lite _ _ _ HI)) as Hnd. unfold wpp in Hnd. rewrite Er in Hnd.
  destruct Hnd as [(Hk1 & Hv1 & _) _].
  destruct (insert_all_conserves items s1 u s' HI1 E) as (HI' & Hk & Hv). split; [exact HI'|].
  rewrite Hk, Hv, Hk1, Hv1, (elems_abs_perm _ HI1), Habs1, <- (elems_abs_perm _ HI). auto.
Qed.

(* ---------------------------------------------------------------- key objects, call by call
   (the ingredients of the history-level law of WorldLedger.v) *)
Definition kidsE (r : rt) : list N := map ekid (elems r).

Lemma kidsE_abs r : Inv R ES r -> kidsE r ≡ₚ map ekid (map_to_list (rt_abs r)).*2.
Proof. intros HI. unfold kidsE. rewrite (elems_abs_perm r HI). reflexivity. Qed.

Lemma kids_abs_same r r' : Inv R ES r -> Inv R ES r' -> rt_abs r' = rt_abs r -> kidsE r' ≡ₚ kidsE r.
Proof. intros H H' E. rewrite (kidsE_abs r H), (kidsE_abs r' H'), E. reflexivity. Qed.

Lemma kids_overwrite (m : gmap N elem) k e e' :
  m !! k = Some e -> ekid e' = ekid e ->
  map ekid (map_to_list (<[k := e']> m)).*2 ≡ₚ map ekid (map_to_list m).*2.
Proof.
  intros H He. destruct (abs_overwrite_perm m k e e' H) as (rest & H1 & H2). rewrite H1, H2. cbn [map]. rewrite He. reflexivity.
Qed.
Lemma kids_fmap (f : elem -> elem) (m : gmap N elem) :
  (forall e, ekid (f e) = ekid e) -> map ekid (map_to_list (f <$> m)).*2 ≡ₚ map ekid (map_to_list m).*2.
Proof.
  intros Hf. rewrite map_to_list_fmap. rewrite <- !list_fmap_compose.
  apply Permutation_refl'. apply list_fmap_ext. intros i [k e] _. cbn. apply Hf.
Qed.

(* lookups and in-place updates *)
Lemma map_get_star g k wv s o s' :
  Inv R ES (s_rt s) -> map_get g k wv s = Ok o s' -> dks s' ++ kidsE (s_rt s') ≡ₚ dks s ++ kidsE (s_rt s).
Proof.
  intros HI E. pose proof (nd_map_get g k wv s (Inv_lite _ _ _ HI)) as Hn. unfold wpp in Hn. rewrite E in Hn.
  destruct Hn as [(Hk & _ & _) _]. pose proof (map_get_spec c g k wv s HI) as Hs. unfold wp in Hs. rewrite E in Hs.
  destruct Hs as (HI' & _ & Habs & _). rewrite Hk. apply Permutation_app_head.
  rewrite (kidsE_abs _ HI'), (kidsE_abs _ HI), Habs.
  destruct (get_writes g); [|reflexivity]. destruct (rt_abs (s_rt s) !! k) as [e|] eqn:Ek; [|reflexivity].
  apply (kids_overwrite _ k e); [exact Ek|reflexivity].
Qed.

(* reserve / try_reserve, shrink_to, iteration (with or without value updates) *)
Lemma rt_reserve_star fallible n s b s' :
  Inv R ES (s_rt s) -> n <= usize_max -> rt_reserve c fallible n s = Ok b s' ->
  dks s' ++ kidsE (s_rt s') ≡ₚ dks s ++ kidsE (s_rt s).
Proof.
  intros HI Hn E. pose proof (nd_rt_reserve c fallible n s (Inv_lite _ _ _ HI)) as Hd. unfold wpp in Hd. rewrite E in Hd.
  destruct Hd as [(Hk & _ & _) _].
  pose proof (rt_reserve_spec c fallible n (fun _ s1 => Inv R ES (s_rt s1) /\ rt_abs (s_rt s1) = rt_abs (s_rt s)) (fun _ _ => True) s HI Hn) as Hs.
  unfold wp in Hs. rewrite E in Hs. destruct Hs as [HI' Habs]; [intros s0 (H1 & H2 & _); auto|auto|auto|].
  rewrite Hk. apply Permutation_app_head. apply kids_abs_same; assumption.
Qed.
Lemma rt_shrink_star n s u s' :
  Inv R ES (s_rt s) -> rt_shrink_to c n s = Ok u s' -> dks s' ++ kidsE (s_rt s') ≡ₚ dks s ++ kidsE (s_rt s).
Proof.
  intros HI E. pose proof (nd_rt_shrink_to c n s (Inv_lite _ _ _ HI)) as Hd. unfold wpp in Hd. rewrite E in Hd.
  destruct Hd as [(Hk & _ & _) _].
  pose proof (rt_shrink_to_spec c n (fun _ s1 => Inv R ES (s_rt s1) /\ rt_abs (s_rt s1) = rt_abs (s_rt s)) (fun _ _ => True) s HI) as Hs.
  unfold wp in Hs. rewrite E in Hs. destruct Hs as [HI' Habs]; [intros s0 (H1 & H2 & _); auto|auto|].
  rewrite Hk. apply Permutation_app_head. apply kids_abs_same; assumption.
Qed.
Lemma map_iter_star delta s l s' :
  Inv R ES (s_rt s) -> map_iter delta s = Ok l s' -> dks s' ++ kidsE (s_rt s') ≡ₚ dks s ++ kidsE (s_rt s).
Proof.
  intros HI E. pose proof (nd_map_iter delta s (Inv_lite _ _ _ HI)) as Hd. unfold wpp in Hd. rewrite E in Hd.
  destruct Hd as [(Hk & _ & _) _].
  pose proof (map_iter_spec c delta (fun _ s1 => Inv R ES (s_rt s1) /\
      rt_abs (s_rt s1) = (if delta =? 0 then rt_abs (s_rt s) else bumpv delta <$> rt_abs (s_rt s))) (fun _ _ => True) s HI) as Hs.
  unfold wp in Hs. rewrite E in Hs. destruct Hs as [HI' Habs]; [intros l0 s0 _ H1 H2; auto|].
  rewrite Hk. apply Permutation_app_head. rewrite (kidsE_abs _ HI'), (kidsE_abs _ HI), Habs.
  destruct (delta =? 0); [reflexivity|]. apply kids_fmap. reflexivity.
Qed.

(* remove_entry hands the element back *)
Lemma map_remove_entry_star k s o s' :
  Inv R ES (s_rt s) -> map_remove_entry c k s = Ok o s' ->
  Inv R ES (s_rt s') /\
  dks s' ++ kidsE (s_rt s') ++ match o with Some e => [ekid e] | None => [] end ≡ₚ dks s ++ kidsE (s_rt s).
Proof.
  intros HI E. pose proof (nd_map_remove_entry c k s (Inv_lite _ _ _ HI)) as Hd. unfold wpp in Hd. rewrite E in Hd.
  destruct Hd as [(Hk & _ & _) _].
  pose proof (map_remove_entry_spec c k s HI) as Hs. unfold wp in Hs. rewrite E in Hs. destruct Hs as (HI' & -> & Habs).
  split; [exact HI'|]. rewrite Hk. apply Permutation_app_head. rewrite (kidsE_abs _ HI'), (kidsE_abs _ HI), Habs.
  destruct (rt_abs (s_rt s) !! k) as [e|] eqn:Ek.
  - rewrite <- (map_to_list_delete _ k e Ek). cbn [fmap list_fmap map]. symmetry. apply Permutation_cons_append.
  - rewrite delete_notin by exact Ek. rewrite app_nil_r. reflexivity.
Qed.

(* clear / drop(map): everything stored goes to the ledger *)
Lemma rt_clear_star s u s' :
  Inv R ES (s_rt s) -> rt_clear s = Ok u s' -> dks s' ++ kidsE (s_rt s') ≡ₚ dks s ++ kidsE (s_rt s).
Proof.
  intros HI E. pose proof (rt_clear_ledger s (Inv_lite _ _ _ HI)) as H. unfold wpp in H. rewrite E in H.
  destruct H as (_ & Hel & Hk & _). unfold kidsE. rewrite Hel, Hk, app_nil_r. apply Permutation_app_comm.
Qed.
Lemma map_drop_star s u s' :
  Inv R ES (s_rt s) -> map_drop s = Ok u s' ->
  kidsE (s_rt s') = [] /\ dks s' ++ kidsE (s_rt s') ≡ₚ dks s ++ kidsE (s_rt s).
Proof.
  intros HI E. pose proof (map_drop_ledger s (Inv_lite _ _ _ HI)) as H. unfold wpp in H. rewrite E in H.
  destruct H as (_ & Hel & Hk & _). unfold kidsE. rewrite Hel, Hk, app_nil_r. split; [reflexivity|]. apply Permutation_app_comm.
Qed.

(* drain / into_iter: the yielded elements are handed out, the others dropped *)
Definition kids3 (l : list (N * N * N)) : list N := map (fun x => snd (fst x)) l.

Lemma drain_order_all s l s1 : Inv R ES (s_rt s) -> drain_order s = Ok l s1 -> l ≡ₚ elems (s_rt s).
Proof.
  intros HI E. pose proof (drain_order_spec c (fun l _ => drain_of (s_rt s) l) (fun _ _ => True) s HI (fun l H => H)) as H.
  unfold wp in H. rewrite E in H. destruct H as (lm & Hv & ->).
  apply valid_order_spec in Hv as (Hnd & Hem & _). unfold elems.
  rewrite Permutation_app_comm. apply Permutation_app_tail. rewrite <- Hem. symmetry. apply (collect_perm lm Hnd).
Qed.

Lemma kids3_elem3 (l : list elem) : kids3 (map elem3 l) = map ekid l.
Proof. unfold kids3. rewrite map_map. reflexivity. Qed.

Lemma drain_star_aux (l : list elem) j (d0 : list N) :
  (rev (map ekid (skipn j l)) ++ d0) ++ [] ++ map ekid (firstn j l) ≡ₚ d0 ++ map ekid l.
Proof.
  rewrite <- (firstn_skipn j l) at 3. rewrite map_app. cbn [app]. rewrite <- Permutation_rev.
  rewrite (Permutation_app_comm (map ekid (skipn j l)) d0). rewrite <- app_assoc.
  apply Permutation_app_head. apply Permutation_app_comm.
Qed.

Lemma map_drain_star j s out s' :
  Inv R ES (s_rt s) -> map_drain j false s = Ok out s' ->
  dks s' ++ kidsE (s_rt s') ++ kids3 out ≡ₚ dks s ++ kidsE (s_rt s).
Proof.
  intros HI E. pose proof (map_drain_ledger j s (Inv_lite _ _ _ HI)) as H. unfold wpp in H. rewrite E in H.
  destruct H as (l & s1 & Ed & -> & _ & Hel & Hk & _). pose proof (drain_order_all s l s1 HI Ed) as Hp.
  unfold kidsE. rewrite Hel, Hk, kids3_elem3. cbn [map]. rewrite <- Hp. apply drain_star_aux.
Qed.
Lemma map_into_iter_star j s out s' :
  Inv R ES (s_rt s) -> map_into_iter j s = Ok out s' ->
  kidsE (s_rt s') = [] /\ dks s' ++ kidsE (s_rt s') ++ kids3 out ≡ₚ dks s ++ kidsE (s_rt s).
Proof.
  intros HI E. pose proof (map_into_iter_ledger j s (Inv_lite _ _ _ HI)) as H. unfold wpp in H. rewrite E in H.
  destruct H as (l & s1 & Ed & -> & _ & Hel & Hk & _). pose proof (drain_order_all s l s1 HI Ed) as Hp.
  unfold kidsE. rewrite Hel, Hk, kids3_elem3. cbn [map]. split; [reflexivity|]. rewrite <- Hp. apply drain_star_aux.
Qed.

(* clone: the new map holds a copy of every key object of the source; nothing is dropped *)
Lemma rt_clone_star s r s' :
  Inv R ES (s_rt s) -> rt_clone c s = Ok r s' ->
  dks s' = dks s /\ Inv R ES r /\ kidsE r ≡ₚ kidsE (s_rt s).
Proof.
  intros HI E. pose proof (nd_rt_clone c s (Inv_lite _ _ _ HI)) as Hd. unfold wpp in Hd. rewrite E in Hd.
  destruct Hd as [(Hk & _ & _) _].
  pose proof (rt_clone_spec c (fun r' _ => Inv R ES r' /\ rt_abs r' = rt_abs (s_rt s)) (fun _ _ => True) s HI) as Hs.
  unfold wp in Hs. rewrite E in Hs. destruct Hs as [HI' Habs]; [intros r0 s0 _ H1 H2 _; auto|auto|].
  split; [exact Hk|]. split; [exact HI'|]. rewrite (kidsE_abs _ HI'), (kidsE_abs _ HI), Habs. reflexivity.
Qed.
(* clone_from: every key object the destination held is dropped, and it now holds a copy of every
   key object of the source *)
Lemma rt_clone_from_star src s u s' :
  Inv R ES (s_rt s) -> Inv R ES src -> rt_clone_from c src s = Ok u s' ->
  dks s' ++ kidsE (s_rt s') ≡ₚ kidsE src ++ dks s ++ kidsE (s_rt s).
Proof.
  intros HI HIs E.
  pose proof (rt_clone_from_ledger c src s (Inv_lite _ _ _ HI) (proj1 (Inv_lite R ES (set_rt src s) HIs))) as Hd.
  unfold wpp in Hd. rewrite E in Hd. destruct Hd as [Hk _].
  pose proof (rt_clone_from_spec c src (fun _ s1 => Inv R ES (s_rt s1) /\ rt_abs (s_rt s1) = rt_abs src) (fun _ _ => True) s HI HIs) as Hs.
  unfold wp in Hs. rewrite E in Hs. destruct Hs as [HI' Habs]; [intros s0 H1 H2 _; auto|auto|].
  rewrite Hk. fold (kidsE (s_rt s)). rewrite (kidsE_abs _ HI'), Habs, <- (kidsE_abs _ HIs).
  rewrite (Permutation_app_comm (kidsE (s_rt s)) (dks s)). apply Permutation_app_comm.
Qed.
(* read-only calls: ==, raw_entry().from_*(), Serialize *)
Lemma rp_star {A} (P : A -> Prop) (m : M' A) s a s' :
  rp P m -> m s = Ok a s' -> dks s' ++ kidsE (s_rt s') ≡ₚ dks s ++ kidsE (s_rt s).
Proof. intros H E. specialize (H s). rewrite E in H. destruct H as (-> & -> & _). reflexivity. Qed.
Lemma rp_get_st : rp (fun _ : st => True) get.
Proof. intros s. cbn. auto. Qed.
Lemma rp_rt_find k : rp (fun _ => True) (rt_find k).
Proof. intros s. unfold rt_find, bind, get, ret. cbn. auto. Qed.
Lemma rp_map_raw_get variant k : rp (fun _ => True) (map_raw_get variant k).
Proof.
  unfold map_raw_get. eapply rp_bind; [|intros _; eapply rp_bind; [apply rp_rt_find|intros x; apply rp_ret]].
  destruct (variant =? 0); cbn [when]; [apply rp_tick_hash|apply rp_ret].
Qed.
Lemma rp_map_serialize : rp (fun _ => True) map_serialize.
Proof. unfold map_serialize. eapply rp_bind; [apply rp_get_st|intros s0]. eapply rp_bind; [apply rp_rt_iter|intros l; apply rp_ret]. Qed.
Lemma rp_map_equal other : rp (fun _ => True) (map_equal other).
Proof.
  unfold map_equal. eapply rp_bind; [apply rp_get_st|intros s0]. destruct (negb _); [apply rp_ret|].
  eapply rp_bind; [apply rp_rt_iter|]. intros l.
  induction l as [|x l IH]; [apply rp_ret|]. eapply rp_bind; [apply rp_tick_hash|intros _].
  destruct (rt_find_pure other _) as [[im e']|]; [|apply rp_ret]. destruct (_ =? _); [exact IH|apply rp_ret].
Qed.
Lemma map_par_iter_star delta splits s l s' :
  Inv R ES (s_rt s) -> map_par_iter delta splits s = Ok l s' -> dks s' ++ kidsE (s_rt s') ≡ₚ dks s ++ kidsE (s_rt s).
Proof. intros HI E. rewrite map_par_iter_eq in E. exact (map_iter_star delta s l s' HI E). Qed.

(* par_extend and HashSet::deserialize_in_place *)
Lemma extend_chunks_conserves : forall chunks s u s',
  Inv R ES (s_rt s) -> Forall (fun ch => N.of_nat (length ch) <= usize_max) chunks ->
  iterM (fun ch => map_extend c ch (N.of_nat (length ch))) chunks s = Ok u s' ->
  Inv R ES (s_rt s') /\ dks s' ++ kidsE (s_rt s') ≡ₚ kids_of (concat chunks) ++ dks s ++ kidsE (s_rt s).
Proof.
  induction chunks as [|ch chunks IH]; intros s u s' HI Hall E; cbn [iterM] in E.
  - unfold ret in E. injection E as _ <-. auto.
  - unfold bind in E. destruct (map_extend c ch (N.of_nat (length ch)) s) as [u1 s1|p s1|f] eqn:E1; try discriminate.
    inversion Hall as [|? ? Hch Hrest]; subst.
    destruct (map_extend_conserves ch _ s u1 s1 HI Hch E1) as (HI1 & Hk1 & _).
    destruct (IH s1 u s' HI1 Hrest E) as (HI' & Hk). split; [exact HI'|].
    rewrite Hk. unfold kidsE in *. rewrite Hk1. cbn [concat]. unfold kids_of. rewrite map_app, <- !app_assoc.
    rewrite (app_assoc (map _ (concat chunks))), (Permutation_app_comm (map _ (concat chunks)) (map _ ch)), <- app_assoc. reflexivity.
Qed.
Lemma map_par_extend_star chunks s u s' :
  Inv R ES (s_rt s) -> N.of_nat (length (concat chunks)) < usize_max -> map_par_extend c chunks s = Ok u s' ->
  dks s' ++ kidsE (s_rt s') ≡ₚ kids_of (concat chunks) ++ dks s ++ kidsE (s_rt s).
Proof.
  intros HI Hlen E. unfold map_par_extend, bind, get in E.
  set (len := N.of_nat (length (concat chunks))) in *.
  set (rsv := if rt_len (s_rt s) =? 0 then len else (len + 1) / 2) in E.
  assert (Hrsv : rsv <= usize_max).
  { unfold rsv. destruct (_ =? 0); [apply N.lt_le_incl, Hlen|]. clearbody len. apply N.div_le_upper_bound; [discriminate|]. pose proof usize_max_big. lia. }
  unfold on_unwind in E. destruct (rt_reserve c false rsv s) as [b s1|p s1|f] eqn:Er.
  2:{ destruct (iterM _ _ s1); discriminate. }
  2:{ discriminate. }
  pose proof (rt_reserve_star false rsv s b s1 HI Hrsv Er) as H1.
  pose proof (rt_reserve_spec c false rsv (fun _ s2 => Inv R ES (s_rt s2)) (fun _ _ => True) s HI Hrsv) as Hs.
  unfold wp in Hs. rewrite Er in Hs. assert (HI1 : Inv R ES (s_rt s1)) by (apply Hs; [intros s0 (H & _); exact H|auto|auto]).
  assert (Hall : Forall (fun ch => N.of_nat (length ch) <= usize_max) chunks).
  { apply Forall_forall. intros ch Hin. apply elem_of_list_In in Hin. apply in_split in Hin as (l1 & l2 & ->).
    unfold len in Hlen. rewrite concat_app in Hlen. cbn [concat] in Hlen. rewrite !app_length in Hlen. lia. }
  destruct (extend_chunks_conserves chunks s1 u s' HI1 Hall E) as (_ & Hk). rewrite Hk, H1. reflexivity.
Qed.
(* HashSet::deserialize_in_place: what the set held is dropped, the items are stored or dropped *)
Lemma map_deser_in_place_star items hint s u s' :
  Inv R ES (s_rt s) -> map_deser_in_place c items hint s = Ok u s' ->
  dks s' ++ kidsE (s_rt s') ≡ₚ kids_of items ++ dks s ++ kidsE (s_rt s).
Proof.
  intros HI E. unfold map_deser_in_place, bind in E.
  destruct (rt_clear s) as [u1 s1|p s1|f] eqn:E1; try discriminate.
  pose proof (rt_clear_star s u1 s1 HI E1) as H1.
  pose proof (rt_clear_spec c (fun _ s2 => Inv R ES (s_rt s2)) (fun _ _ => True) s HI) as Hs1.
  unfold wp in Hs1. rewrite E1 in Hs1. assert (HI1 : Inv R ES (s_rt s1)) by (apply Hs1; intros s0 H _ _ _; exact H).
  assert (Hc : cautious hint <= usize_max).
  { unfold cautious. pose proof cautious_fits. lia. }
  destruct (rt_reserve c false (cautious hint) s1) as [b s2|p s2|f] eqn:E2; try discriminate.
  pose proof (rt_reserve_star false _ s1 b s2 HI1 Hc E2) as H2.
  pose proof (rt_reserve_spec c false (cautious hint) (fun _ s3 => Inv R ES (s_rt s3)) (fun _ _ => True) s1 HI1 Hc) as Hs2.
  unfold wp in Hs2. rewrite E2 in Hs2. assert (HI2 : Inv R ES (s_rt s2)) by (apply Hs2; [intros s0 (H & _); exact H|auto|auto]).
  destruct (insert_all_conserves items s2 u s' HI2 E) as (_ & Hk & _). unfold kidsE in *. rewrite Hk, H2, H1. reflexivity.
Qed.
End Conserve.
