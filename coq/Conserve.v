(* Conserve.v — conservation of key and value objects across calls that take objects in (C06):
   what a call was given, together with what was stored and what had been dropped before, is
   afterwards stored, dropped or handed back - each object exactly once.  Obtained by joining
   the drop-ledger calculus (Ledger.v: what is dropped) with the refinement specs (MapProofs.v:
   what is stored afterwards). *)
From stdpp Require Import gmap list.
From Coq Require Import NArith Lia.
From G Require Import Arith Monad Types Inv Raw RawProofs Map MapProofs IterProofs SetProofs Ledger.
Local Open Scope N_scope.

Lemma map_to_list_disj_union {A} (m1 m2 : gmap N A) :
  m1 ##ₘ m2 -> map_to_list (m1 ∪ m2) ≡ₚ map_to_list m1 ++ map_to_list m2.
Proof.
  intros Hd. apply NoDup_Permutation.
  - apply NoDup_map_to_list.
  - apply NoDup_app. split; [apply NoDup_map_to_list|]. split; [|apply NoDup_map_to_list].
    intros [k x] H1 H2. apply elem_of_map_to_list in H1, H2. eapply map_disjoint_spec; eauto.
  - intros [k x]. rewrite elem_of_app, !elem_of_map_to_list, lookup_union_Some by exact Hd. reflexivity.
Qed.

Section Conserve.
Context (c : cfg).
Notation R := (cR c).
Notation ES := (cesz c).

(* the elements stored in the two tables are the elements of the contents *)
Lemma elems_abs_perm r : Inv R ES r -> elems r ≡ₚ (map_to_list (rt_abs r)).*2.
Proof.
  intros (HR & Hok & Ho). unfold elems, rt_abs. destruct (lo r) as [o|].
  - destruct Ho as (_ & _ & Hnd & Hdis & _).
    rewrite map_to_list_disj_union.
    + rewrite fmap_app. apply Permutation_app_head. symmetry. apply (collect_perm (orem o) Hnd).
    + apply map_disjoint_spec. intros k e1 e2 H1 H2. apply list_to_emap_key in H2 as [Hk Hin]; [|exact Hnd].
      specialize (Hdis e2 Hin). rewrite Hk in Hdis. congruence.
  - rewrite (right_id_L ∅ (∪)), app_nil_r. reflexivity.
Qed.

Lemma abs_insert_new_perm (m : gmap N elem) k e :
  m !! k = None -> (map_to_list (<[k := e]> m)).*2 ≡ₚ e :: (map_to_list m).*2.
Proof. intros H. rewrite map_to_list_insert by exact H. reflexivity. Qed.
Lemma abs_overwrite_perm (m : gmap N elem) k e0 e :
  m !! k = Some e0 -> exists rest, (map_to_list m).*2 ≡ₚ e0 :: rest /\ (map_to_list (<[k := e]> m)).*2 ≡ₚ e :: rest.
Proof.
  intros H. exists (map_to_list (delete k m)).*2. split.
  - rewrite <- (map_to_list_delete m k e0 H). reflexivity.
  - rewrite <- (insert_delete_insert m). rewrite map_to_list_insert by apply lookup_delete. reflexivity.
Qed.

(* C06: HashMap::insert.  The key object given to the call is afterwards stored or dropped; the
   value object given is stored; the value it displaced (if any) is handed back - and nothing
   else changes hands: every object exactly once. *)
Theorem map_insert_conserves k kid v s o s' :
  Inv R ES (s_rt s) -> map_insert c k kid v s = Ok o s' ->
  Inv R ES (s_rt s') /\
  dks s' ++ map ekid (elems (s_rt s')) ≡ₚ kid :: dks s ++ map ekid (elems (s_rt s)) /\
  match o with Some v0 => [v0] | None => [] end ++ dvs s' ++ map ev (elems (s_rt s')) ≡ₚ v :: dvs s ++ map ev (elems (s_rt s)).
Proof.
  intros HI E. pose proof (map_insert_ledger c k kid v s (Inv_lite _ _ _ HI)) as HL. unfold wpp in HL. rewrite E in HL.
  pose proof (map_insert_spec c k kid v s HI) as HS. unfold wp in HS. rewrite E in HS.
  destruct HL as (_ & Hdv & Hcase). destruct HS as (HI' & Hres & _). split; [exact HI'|].
  rewrite (elems_abs_perm _ HI'), (elems_abs_perm _ HI).
  pose proof (rt_find_abs c (s_rt s) k HI) as Hfa.
  destruct (rt_find_pure (s_rt s) k) as [[im e]|] eqn:Ef; cbn [option_map snd] in Hfa; rewrite Hfa in Hres.
  - destruct Hcase as [Hdk ->]. destruct Hres as [_ Habs]. rewrite Habs, Hdk, Hdv.
    destruct (abs_overwrite_perm (rt_abs (s_rt s)) k e (Elem k (ekid e) v) Hfa) as (rest & H1 & H2).
    rewrite H1, H2. cbn [map ekid ev app]. split.
    + reflexivity.
    + rewrite <- !Permutation_middle. apply Permutation_swap.
  - destruct Hcase as [Hdk ->]. destruct Hres as [_ Habs]. rewrite Habs, Hdk, Hdv.
    rewrite (abs_insert_new_perm _ k _ Hfa). cbn [map ekid ev app]. split; rewrite <- Permutation_middle; reflexivity.
Qed.

Definition ins_drop (x : N * N * N) : M' unit :=
  let '(k, kid, v) := x in
  o <- map_insert c k kid v ;;
  match o with Some v' => drop_val v' | None => ret tt end.

Definition kids_of (items : list (N * N * N)) : list N := map (fun x => snd (fst x)) items.
Definition vals_of (items : list (N * N * N)) : list N := map snd items.

Lemma ins_drop_conserves x s u s' :
  Inv R ES (s_rt s) -> ins_drop x s = Ok u s' ->
  Inv R ES (s_rt s') /\
  dks s' ++ map ekid (elems (s_rt s')) ≡ₚ snd (fst x) :: dks s ++ map ekid (elems (s_rt s)) /\
  dvs s' ++ map ev (elems (s_rt s')) ≡ₚ snd x :: dvs s ++ map ev (elems (s_rt s)).
Proof.
  destruct x as [[k kid] v]. intros HI E. unfold ins_drop, bind in E.
  destruct (map_insert c k kid v s) as [o s1|p s1|f] eqn:Ei; [|discriminate|discriminate].
  destruct (map_insert_conserves k kid v s o s1 HI Ei) as (HI1 & Hk & Hv). cbn [fst snd].
  destruct o as [v0|].
  - unfold drop_val, tick, modify in E. injection E as _ <-. cbn [set_log s_rt]. split; [exact HI1|].
    unfold dks, dvs in *. cbn [set_log s_log log_dv l_dk l_dv]. split; [exact Hk|exact Hv].
  - unfold ret in E. injection E as _ <-. auto.
Qed.

Lemma insert_all_conserves : forall items s u s',
  Inv R ES (s_rt s) -> iterM ins_drop items s = Ok u s' ->
  Inv R ES (s_rt s') /\
  dks s' ++ map ekid (elems (s_rt s')) ≡ₚ kids_of items ++ dks s ++ map ekid (elems (s_rt s)) /\
  dvs s' ++ map ev (elems (s_rt s')) ≡ₚ vals_of items ++ dvs s ++ map ev (elems (s_rt s)).
Proof.
  induction items as [|x items IH]; intros s u s' HI E; cbn [iterM] in E.
  - unfold ret in E. injection E as _ <-. auto.
  - unfold bind in E. destruct (ins_drop x s) as [u1 s1|p s1|f] eqn:E1; [|discriminate|discriminate].
    destruct (ins_drop_conserves x s u1 s1 HI E1) as (HI1 & Hk1 & Hv1).
    destruct (IH s1 u s' HI1 E) as (HI' & Hk & Hv). split; [exact HI'|].
    unfold kids_of, vals_of in *. cbn [map]. split.
    + rewrite Hk, Hk1. cbn [app]. rewrite <- Permutation_middle. reflexivity.
    + rewrite Hv, Hv1. cbn [app]. rewrite <- Permutation_middle. reflexivity.
Qed.

(* C06: extend.  Every key and value object of the items is afterwards stored or dropped (the
   key of an item whose key was present, the value an item displaced), exactly once; nothing
   else is dropped, whatever resizing and moving the call performs *)
Theorem map_extend_conserves items hint s u s' :
  Inv R ES (s_rt s) -> hint <= usize_max -> map_extend c items hint s = Ok u s' ->
  Inv R ES (s_rt s') /\
  dks s' ++ map ekid (elems (s_rt s')) ≡ₚ kids_of items ++ dks s ++ map ekid (elems (s_rt s)) /\
  dvs s' ++ map ev (elems (s_rt s')) ≡ₚ vals_of items ++ dvs s ++ map ev (elems (s_rt s)).
Proof.
  intros HI Hh E. unfold map_extend, bind, get in E.
  set (rsv := if rt_len (s_rt s) =? 0 then hint else hint / 2 + hint mod 2) in E.
  assert (Hrsv : rsv <= usize_max).
  { unfold rsv. destruct (_ =? 0); [exact Hh|]. pose proof (N.div_mod hint 2 ltac:(lia)). pose proof (N.mod_lt hint 2 ltac:(lia)). lia. }
  unfold on_unwind in E. destruct (rt_reserve c false rsv s) as [b s1|p s1|f] eqn:Er.
  2:{ destruct (iterM _ items s1); discriminate. }
  2:{ discriminate. }
  (* the reservation: same contents, nothing dropped *)
  pose proof (rt_reserve_spec c false rsv (fun _ s1 => Inv R ES (s_rt s1) /\ rt_abs (s_rt s1) = rt_abs (s_rt s)) (fun _ _ => True) s HI Hrsv) as Hsp.
  unfold wp in Hsp. rewrite Er in Hsp. destruct Hsp as [HI1 Habs1]; [intros s0 (H1 & H2 & _); auto|discriminate|auto|].
  pose proof (nd_rt_reserve c false rsv s (Inv_lite _ _ _ HI)) as Hnd. unfold wpp in Hnd. rewrite Er in Hnd.
  destruct Hnd as [(Hk1 & Hv1 & _) _].
  destruct (insert_all_conserves items s1 u s' HI1 E) as (HI' & Hk & Hv). split; [exact HI'|].
  rewrite Hk, Hv, Hk1, Hv1, (elems_abs_perm _ HI1), Habs1, <- (elems_abs_perm _ HI). auto.
Qed.

End Conserve.
