(* RawProofs.v — every function of Raw.v preserves the two-table invariant, never reaches a
   Fault (other than an infeasible oracle), and refines the abstract contents. *)
From stdpp Require Import gmap list.
From Coq Require Import NArith Lia.
From G Require Import Arith Monad Types Inv Raw.
Local Open Scope N_scope.

Ltac wp_step :=
  lazymatch goal with
  | |- wp (bind _ _) _ _ _ => apply wp_bind
  | |- wp (ret _) _ _ _ => apply wp_ret
  | |- wp (gets _) _ _ _ => apply wp_gets
  | |- wp get _ _ _ => apply wp_get
  | |- wp (put _) _ _ _ => apply wp_put
  | |- wp (modify _) _ _ _ => apply wp_modify
  | |- wp (unwind _) _ _ _ => apply wp_unwind
  | |- wp (fault_ FOracle) _ _ _ => apply wp_oracle
  | |- wp (fault_ FBadOp) _ _ _ => apply wp_badop
  | |- wp getm _ _ _ => unfold getm; apply wp_gets
  | |- wp getlo _ _ _ => unfold getlo; apply wp_gets
  | |- wp (setm _) _ _ _ => unfold setm; apply wp_modify
  | |- wp (setlo _) _ _ _ => unfold setlo; apply wp_modify
  end.
Ltac wp_steps := repeat wp_step.
Ltac hl := unfold hlen, olen, hb_ins, hb_del, hb_upd, hb_rebuilt, hb_empty in *; cbn [hgl hB hn hel orem oit ocnt oB main lo] in *.

(* what a panic may be, and that it leaves a state satisfying I *)
Definition upost (I : rt -> Prop) : panic -> st -> Prop :=
  fun p s' => I (s_rt s') /\ (p = PUser \/ p = PCapOverflow).

(* an action that does not touch the tables and can only panic with a p satisfying P *)
Definition frameU (P : panic -> Prop) {A} (m : M' A) : Prop :=
  forall s, wp m (fun _ s' => s_rt s' = s_rt s) (fun p s' => s_rt s' = s_rt s /\ P p) s.
Notation frame0 := (frameU (fun _ => False)).
Notation frame := (frameU (fun p => p = PUser)).

Lemma frameU_use P {A} (m : M' A) (Q : A -> st -> Prop) (U : panic -> st -> Prop) s :
  frameU P m ->
  (forall a s', s_rt s' = s_rt s -> Q a s') ->
  (forall p s', s_rt s' = s_rt s -> P p -> U p s') ->
  wp m Q U s.
Proof.
  intros Hf HQ HU. eapply wp_conseq; [apply Hf| |].
  - intros a s' H. apply HQ. exact H.
  - intros p s' [H Hp]. apply HU; assumption.
Qed.
Lemma frame0_use {A} (m : M' A) (Q : A -> st -> Prop) (U : panic -> st -> Prop) s :
  frame0 m -> (forall a s', s_rt s' = s_rt s -> Q a s') -> wp m Q U s.
Proof. intros Hf HQ. eapply frameU_use; [exact Hf|exact HQ|]. intros ? ? ? []. Qed.
Lemma frame_use {A} (m : M' A) (Q : A -> st -> Prop) (U : panic -> st -> Prop) s :
  frame m -> (forall a s', s_rt s' = s_rt s -> Q a s') -> (forall s', s_rt s' = s_rt s -> U PUser s') ->
  wp m Q U s.
Proof. intros Hf HQ HU. eapply frameU_use; [exact Hf|exact HQ|]. intros ? ? ? ->. auto. Qed.

Lemma frameU_weaken (P P' : panic -> Prop) {A} (m : M' A) : (forall p, P p -> P' p) -> frameU P m -> frameU P' m.
Proof. intros HP Hf s. eapply wp_conseq; [apply Hf| |]; cbn; intros; intuition. Qed.
Lemma frame0_frame {A} (m : M' A) : frame0 m -> frame m.
Proof. apply frameU_weaken. intros ? []. Qed.

Lemma frameU_ret P {A} (a : A) : frameU P (ret a).
Proof. intros s. apply wp_ret. reflexivity. Qed.

Lemma frameU_bind P {A B} (m : M' A) (f : A -> M' B) : frameU P m -> (forall a, frameU P (f a)) -> frameU P (bind m f).
Proof.
  intros Hm Hf s. apply wp_bind. eapply frameU_use; [exact Hm| |].
  - intros a s' Hs. eapply wp_conseq; [apply Hf| |]; cbn; intros; intuition congruence.
  - intros p s' Hs Hp. split; assumption.
Qed.

Lemma frame0_tick f : frame0 (tick f).
Proof. intros s. unfold tick. apply wp_modify. reflexivity. Qed.

Lemma frame_cb : frame cb.
Proof.
  intros s. unfold cb. apply wp_bind. apply frame0_use; [apply frame0_tick|].
  intros [] s1 H1. apply wp_bind. apply wp_get.
  destruct (s_fuse s1) as [n|]; [|apply wp_ret; exact H1].
  destruct (n =? 0).
  - apply wp_bind. apply wp_put. apply wp_unwind. split; [exact H1|reflexivity].
  - apply wp_put. exact H1.
Qed.

Lemma frame_tick_hash : frame tick_hash.
Proof. apply frameU_bind; [apply frame0_frame, frame0_tick|intros _; apply frame_cb]. Qed.

Lemma frame0_drop_elem e : frame0 (drop_elem e).
Proof. apply frameU_bind; [apply frame0_tick|intros _; apply frame0_tick]. Qed.

Lemma frameU_iterM P {A} (f : A -> M' unit) l : (forall a, frameU P (f a)) -> frameU P (iterM f l).
Proof.
  intros Hf. induction l as [|a l IH]; cbn [iterM]; [apply frameU_ret|].
  apply frameU_bind; [apply Hf|intros _; exact IH].
Qed.

Lemma frame0_drop_elems l : frame0 (drop_elems l).
Proof. apply frameU_iterM. apply frame0_drop_elem. Qed.

Lemma frameU_when P b (m : M' unit) : frameU P m -> frameU P (when b m).
Proof. destruct b; cbn; [auto|intros _; apply frameU_ret]. Qed.

Lemma frameU_on_unwind P {A} (m : M' A) h : frameU P m -> frame0 h -> frameU P (on_unwind m h).
Proof.
  intros Hm Hh s. apply wp_on_unwind. eapply wp_conseq; [apply Hm| |]; cbn.
  - auto.
  - intros p s' [Hs Hp]. apply frame0_use; [exact Hh|]. intros [] s'' Hs''. split; [congruence|exact Hp].
Qed.

Lemma frame0_hb_free t : frame0 (hb_free t).
Proof. apply frameU_when. apply frame0_tick. Qed.

Lemma frame_rehash_all l : frame (rehash_all l).
Proof. apply frameU_iterM. intros _. apply frame_tick_hash. Qed.

Lemma take_bit_rt (Q : bool -> st -> Prop) (U : panic -> st -> Prop) s :
  (forall b s', s_rt s' = s_rt s -> Q b s') -> wp take_bit Q U s.
Proof.
  intros HQ. unfold take_bit. apply wp_bind, wp_get. destruct (s_on s =? 0); [apply wp_ret; auto|].
  apply wp_bind, wp_put. apply wp_ret. auto.
Qed.
Lemma take_tomb_rt (Q : bool -> st -> Prop) (U : panic -> st -> Prop) s :
  (forall b s', s_rt s' = s_rt s -> Q b s') -> wp take_tomb Q U s.
Proof.
  intros HQ. unfold take_tomb. apply wp_bind, wp_get. destruct (s_tomb s =? 0); [apply wp_ret; auto|].
  apply wp_bind, wp_put. apply wp_ret. auto.
Qed.

Section Proofs.
Context (c : cfg).
Notation R := (cR c).
Notation ES := (cesz c).

(* ---------------------------------------------------------------- hashbrown contract *)

Lemma hb_with_capacity_spec fallible cap (Q : option hb -> st -> Prop) (U : panic -> st -> Prop) s :
  (forall t s', s_rt s' = s_rt s -> hel t = ∅ -> hn t = 0 -> hb_ok ES t -> hgl t = bcap (hB t) -> cap <= hgl t ->
                cap < usize_max -> (cap = 0 /\ t = hb_new \/ cap_to_buckets cap = Some (hB t)) -> Q (Some t) s') ->
  (fallible = true -> Q None s) ->
  (fallible = false -> U PCapOverflow s) ->
  wp (hb_with_capacity c fallible cap) Q U s.
Proof.
  intros HS HN HU. unfold hb_with_capacity. destruct (N.eqb_spec cap 0) as [->|Hc].
  - apply wp_ret. apply HS; [reflexivity|reflexivity|reflexivity|apply hb_ok_new|reflexivity|cbn; lia|reflexivity|left; auto].
  - destruct (cap_to_buckets cap) as [B|] eqn:EB.
    + destruct (layout_ok (cesz c) B) eqn:EL.
      * apply wp_bind. apply frame0_use; [apply frame0_tick|].
        intros [] s' Hs. apply wp_ret. apply HS; [exact Hs|reflexivity|reflexivity| |reflexivity| | |right; reflexivity].
        -- pose proof (cap_to_buckets_ge4 _ _ EB). apply hb_ok_empty; [lia|right; exact EL].
        -- cbn [hb_empty hgl hB]. apply bcap_cap_to_buckets; [lia|exact EB].
        -- unfold cap_to_buckets in EB. pose proof usize_max_big; pose proof isize_lt_usize. destruct (N.ltb_spec cap 4); [lia|].
           destruct (N.ltb_spec cap 8); [lia|].
           destruct (N.ltb_spec usize_max (cap * 8)); [discriminate|]. lia.
      * destruct fallible; [apply wp_ret; auto|apply wp_unwind; auto].
    + destruct fallible; [apply wp_ret; auto|apply wp_unwind; auto].
Qed.


Lemma hb_ok_insert t e g :
  hb_ok ES t -> hel t !! ek e = None -> g + hn t + 1 <= bcap (hB t) ->
  hb_ok ES (hb_ins t e g).
Proof.
  intros (Hcap & Hn & Hkey & HB) Hnone Hg. split; [|split; [|split]].
  - hl. lia.
  - hl. rewrite size_insert_None by exact Hnone. lia.
  - intros k e'. hl. destruct (N.eq_dec k (ek e)) as [->|Hne].
    + rewrite lookup_insert. intros [= <-]. reflexivity.
    + rewrite lookup_insert_ne by congruence. apply Hkey.
  - exact HB.
Qed.

Lemma hb_put_spec t e reuse (Q : hb -> st -> Prop) (U : panic -> st -> Prop) s :
  hb_ok ES t -> hel t !! ek e = None -> (reuse = false -> 0 < hgl t) ->
  (forall t', hb_ok ES t' -> hel t' = <[ek e := e]> (hel t) -> hB t' = hB t -> hn t' = hn t + 1 ->
              hgl t' <= hgl t -> hgl t <= hgl t' + 1 -> Q t' s) ->
  wp (hb_put t e reuse) Q U s.
Proof.
  intros Hok Hnone Hgl HQ. unfold hb_put. destruct reuse.
  - destruct (N.eqb_spec (hb_tombs t) 0) as [Hz|Hz]; [apply wp_oracle|].
    apply wp_ret. apply HQ; try reflexivity; [|cbn; lia].
    apply hb_ok_insert; [exact Hok|exact Hnone|]. unfold hb_tombs, hlen in Hz. lia.
  - destruct (N.eqb_spec (hgl t) 0) as [Hz|Hz]; [specialize (Hgl eq_refl); lia|].
    apply wp_ret. apply HQ; try reflexivity; [|cbn; lia|cbn; lia].
    apply hb_ok_insert; [exact Hok|exact Hnone|]. destruct Hok as [Hcap _]. lia.
Qed.

Lemma hb_insert_no_grow_spec t e (Q : hb -> st -> Prop) (U : panic -> st -> Prop) s :
  hb_ok ES t -> hel t !! ek e = None -> 0 < hgl t ->
  (forall t' s', s_rt s' = s_rt s -> hb_ok ES t' -> hel t' = <[ek e := e]> (hel t) -> hB t' = hB t ->
                 hn t' = hn t + 1 -> hgl t' <= hgl t -> hgl t <= hgl t' + 1 -> Q t' s') ->
  wp (hb_insert_no_grow t e) Q U s.
Proof.
  intros Hok Hnone Hgl HQ. unfold hb_insert_no_grow. rewrite Hnone.
  apply wp_bind. apply take_bit_rt. intros b s' Hs.
  apply hb_put_spec; [exact Hok|exact Hnone|intros _; exact Hgl|].
  intros t' H1 H2 H3 H4 H5 H6. apply HQ; assumption.
Qed.

Lemma hb_reserve_rehash1_spec t (Q : hb -> st -> Prop) (U : panic -> st -> Prop) s :
  hb_ok ES t ->
  (forall t' s', s_rt s' = s_rt s -> hb_ok ES t' -> hel t' = hel t -> hn t' = hn t -> 0 < hgl t' -> Q t' s') ->
  (forall p s', s_rt s' = s_rt s -> p = PUser \/ p = PCapOverflow -> U p s') ->
  wp (hb_reserve_rehash1 c t) Q U s.
Proof.
  intros (Hcap & Hn & Hkey & HBb) HQ HU. unfold hb_reserve_rehash1.
  destruct (N.leb_spec (hlen t + 1) (bcap (hB t) / 2)) as [Hhalf|Hhalf].
  - apply wp_bind. apply frame_use; [apply frame_rehash_all| |].
    + intros [] s' Hs. apply wp_ret. apply HQ; [exact Hs| |reflexivity|reflexivity|].
      * split; [hl; lia|split; [exact Hn|split; [exact Hkey|exact HBb]]].
      * assert (bcap (hB t) / 2 <= bcap (hB t)) by (apply N.div_le_upper_bound; lia). hl. lia.
    + intros s' Hs. apply HU; auto.
  - apply wp_bind. apply hb_with_capacity_spec.
    + intros nt s1 Hs1 Hempty Hn0 Hnt Hntgl Hge _ _.
      apply wp_bind. apply wp_on_unwind.
      eapply frameU_use; [apply frame_rehash_all| |].
      * intros [] s2 Hs2. apply wp_bind. apply frame0_use; [apply frame0_hb_free|].
        intros [] s3 Hs3. apply wp_ret. apply HQ; [congruence| |reflexivity|reflexivity|].
        -- destruct Hnt as (_ & _ & _ & HBnt). split; [|split; [exact Hn|split; [exact Hkey|exact HBnt]]]. hl. lia.
        -- hl. lia.
      * intros p s2 Hs2 ->. apply frame0_use; [apply frame0_hb_free|].
        intros [] s3 Hs3. apply HU; [congruence|auto].
    + discriminate.
    + intros _. apply HU; auto.
Qed.

Lemma hb_insert_spec t e (Q : hb -> st -> Prop) (U : panic -> st -> Prop) s :
  hb_ok ES t -> hel t !! ek e = None ->
  (forall t' s', s_rt s' = s_rt s -> hb_ok ES t' -> hel t' = <[ek e := e]> (hel t) -> hn t' = hn t + 1 ->
                 (0 < hgl t -> hB t' = hB t /\ hgl t' <= hgl t /\ hgl t <= hgl t' + 1) -> Q t' s') ->
  (forall p s', s_rt s' = s_rt s -> p = PUser \/ p = PCapOverflow -> U p s') ->
  wp (hb_insert c t e) Q U s.
Proof.
  intros Hok Hnone HQ HU. unfold hb_insert. rewrite Hnone.
  apply wp_bind. apply take_bit_rt. intros b s1 Hs1.
  destruct (negb b && (hgl t =? 0)) eqn:Eg.
  - apply andb_prop in Eg as [Eb Ez]. apply N.eqb_eq in Ez.
    apply wp_bind. apply wp_on_unwind. apply hb_reserve_rehash1_spec; [exact Hok| |].
    + intros t1 s2 Hs2 Hok1 Hel1 Hn1 Hgl1.
      apply hb_put_spec; [exact Hok1|rewrite Hel1; exact Hnone|intros _; exact Hgl1|].
      intros t' H1 H2 H3 H4 H5 H6. apply HQ; [congruence|exact H1|rewrite H2, Hel1; reflexivity|lia|lia].
    + intros p s2 Hs2 Hp. apply frame0_use; [apply frame0_drop_elem|].
      intros [] s3 Hs3. apply HU; [congruence|exact Hp].
  - apply hb_put_spec; [exact Hok|exact Hnone| |].
    + intros ->. cbn in Eg. destruct (N.eqb_spec (hgl t) 0); [discriminate|lia].
    + intros t' H1 H2 H3 H4 H5 H6. apply HQ; [exact Hs1|exact H1|exact H2|exact H4|intros _; auto].
Qed.

(* with room left, hashbrown's growing insert does not grow (and so cannot call the hasher) *)
Lemma hb_insert_room_spec t e (Q : hb -> st -> Prop) (U : panic -> st -> Prop) s :
  hb_ok ES t -> hel t !! ek e = None -> 0 < hgl t ->
  (forall t' s', s_rt s' = s_rt s -> hb_ok ES t' -> hel t' = <[ek e := e]> (hel t) -> hn t' = hn t + 1 ->
                 hB t' = hB t -> hgl t' <= hgl t -> hgl t <= hgl t' + 1 -> Q t' s') ->
  wp (hb_insert c t e) Q U s.
Proof.
  intros Hok Hnone Hgl HQ. unfold hb_insert. rewrite Hnone.
  apply wp_bind. apply take_bit_rt. intros b s1 Hs1.
  destruct (N.eqb_spec (hgl t) 0) as [Hz|Hz]; [lia|]. rewrite Bool.andb_false_r.
  apply hb_put_spec; [exact Hok|exact Hnone|intros _; exact Hgl|].
  intros t' H1 H2 H3 H4 H5 H6. apply HQ; assumption.
Qed.

Lemma hb_remove_spec t k e (Q : elem * hb -> st -> Prop) (U : panic -> st -> Prop) s :
  hb_ok ES t -> hel t !! k = Some e ->
  (forall t' s', s_rt s' = s_rt s -> hb_ok ES t' -> hel t' = delete k (hel t) -> hB t' = hB t ->
                 hn t' + 1 = hn t -> hgl t <= hgl t' -> hgl t' <= hgl t + 1 -> Q (e, t') s') ->
  wp (hb_remove t k) Q U s.
Proof.
  intros (Hcap & Hn & Hkey & HBb) Hsome HQ. unfold hb_remove. rewrite Hsome.
  apply wp_bind. apply take_tomb_rt. intros b s' Hs. apply wp_ret.
  pose proof (size_delete_Some (hel t) k e Hsome) as Hlen.
  apply HQ; [exact Hs| |reflexivity|reflexivity|hl; lia|destruct b; cbn; lia|destruct b; cbn; lia].
  split; [|split; [|split]]; [| | |exact HBb].
  - hl. destruct b; lia.
  - hl. lia.
  - intros j e'. hl. intros H. apply lookup_delete_Some in H as [_ H]. apply Hkey. exact H.
Qed.


(* ---------------------------------------------------------------- the old table *)

(* old_ok without the headroom clause *)
Definition old_pre (t : hb) (o : old) : Prop :=
  oit o = ocnt o /\ ocnt o = N.of_nat (length (orem o)) /\
  NoDup (map ek (orem o)) /\ (forall e, e ∈ orem o -> hel t !! ek e = None).

Lemma old_ok_pre t o : old_ok R t o -> old_pre t o.
Proof. intros (H1 & H2 & H3 & H4 & _). repeat split; assumption. Qed.

Lemma old_pre_ok t o : old_pre t o -> need (ocnt o) R <= hgl t -> old_ok R t o.
Proof. intros (H1 & H2 & H3 & H4) H5. repeat split; assumption. Qed.

Notation with_lo r o := (RT (main r) o) (only parsing).
Notation with_main r t := (RT t (lo r)) (only parsing).

Lemma free_old_spec (Q : unit -> st -> Prop) (U : panic -> st -> Prop) s :
  (forall s', s_rt s' = with_lo (s_rt s) None -> Q tt s') -> wp free_old Q U s.
Proof.
  intros HQ. unfold free_old. wp_steps. destruct (lo (s_rt s)) as [o|] eqn:E.
  - wp_steps. apply frame0_use; [apply frame0_drop_elems|]. intros [] s1 Hs1.
    apply frame0_use; [apply frame0_tick|]. intros [] s2 Hs2. apply HQ. rewrite Hs2, Hs1. reflexivity.
  - wp_steps. apply HQ. rewrite <- E. destruct (s_rt s); reflexivity.
Qed.

Lemma abs_pop t B e r g n i1 c1 i2 c2 :
  hel t !! ek e = None ->
  rt_abs (RT (HB (hB t) g n (<[ek e := e]> (hel t))) (Some (Old B r i1 c1)))
  = rt_abs (RT t (Some (Old B (e :: r) i2 c2))).
Proof.
  intros Hnone. unfold rt_abs. cbn [main lo hel orem]. rewrite list_to_emap_cons.
  rewrite <- insert_union_l. rewrite <- insert_union_r by exact Hnone. reflexivity.
Qed.

(* budget for [fuel] more moves with n elements left *)
Definition budget (fuel n gl : N) : Prop :=
  N.min fuel n + (if fuel <? n then need (n - fuel) R else 0) <= gl.

Lemma budget_of_need n gl : 0 < R -> need n R <= gl + 1 -> 0 < n -> budget R n gl.
Proof.
  intros HR Hn Hpos. unfold budget. destruct (N.ltb_spec R n) as [Hlt|Hge].
  - rewrite (need_step n R) in Hn by lia. lia.
  - rewrite (need_small n R) in Hn by lia. lia.
Qed.

Lemma budget_of_need' n gl : 0 < R -> need n R <= gl -> budget R n gl.
Proof.
  intros HR Hn. destruct (N.eq_dec n 0) as [->|Hne].
  - unfold budget. rewrite N.min_0_r. destruct (N.ltb_spec R 0); lia.
  - apply budget_of_need; lia.
Qed.

Definition carry_Q (r : rt) (fuel : N) (r' : rt) : Prop :=
  Inv R ES r' /\ rt_abs r' = rt_abs r /\ hB (main r') = hB (main r) /\
  hel (main r) ⊆ hel (main r') /\
  hgl (main r') <= hgl (main r) /\
  match lo r with
  | Some o =>
      hgl (main r) <= hgl (main r') + N.min fuel (ocnt o) /\
      hn (main r') = hn (main r) + N.min fuel (ocnt o) /\
      match lo r' with
      | Some o' => ocnt o' + N.min fuel (ocnt o) = ocnt o /\ fuel < ocnt o /\ oB o' = oB o
      | None => ocnt o <= fuel
      end
  | None => False
  end.
Definition carry_U (r : rt) (p : panic) (s' : st) : Prop :=
  Inv R ES (s_rt s') /\ p = PUser /\ rt_abs (s_rt s') ⊆ rt_abs r.

Lemma carry_loop_spec fuel : forall s o,
  0 < R -> N.of_nat fuel <= R ->
  lo (s_rt s) = Some o -> hb_ok ES (main (s_rt s)) -> old_pre (main (s_rt s)) o ->
  budget (N.of_nat fuel) (ocnt o) (hgl (main (s_rt s))) ->
  wp (carry_loop fuel) (fun _ s' => carry_Q (s_rt s) (N.of_nat fuel) (s_rt s')) (carry_U (s_rt s)) s.
Proof.
  induction fuel as [|fuel IH]; intros s o HR HfR Hlo Hok Hpre Hbud.
  - (* after the loop *)
    cbn [carry_loop]. wp_steps. rewrite Hlo. unfold olen.
    destruct (N.eqb_spec (ocnt o) 0) as [Hz|Hz]; cbn [when].
    + apply free_old_spec. intros s' Hs'. unfold carry_Q. rewrite Hs', Hlo. cbn [main lo].
      destruct Hpre as (Hit & Hc & Hnd & Hdis).
      assert (Hnil : orem o = []) by (apply ocnt_0; assumption).
      split; [split; [exact HR|split; [exact Hok|exact I]]|].
      split. { destruct (s_rt s) as [t lo0]. cbn in *. subst lo0. destruct o as [B l i n]. cbn in Hnil. subst l. reflexivity. }
      split; [reflexivity|]. split; [reflexivity|]. repeat split; try lia.
    + apply wp_ret. unfold carry_Q. rewrite Hlo.
      split. { split; [exact HR|]. split; [exact Hok|]. rewrite Hlo. apply old_pre_ok; [exact Hpre|].
               unfold budget in Hbud. cbn [N.of_nat] in Hbud.
               destruct (N.ltb_spec 0 (ocnt o)); [|lia]. rewrite N.sub_0_r in Hbud. lia. }
      split; [reflexivity|]. split; [reflexivity|]. split; [reflexivity|]. repeat split; try lia.
  - cbn [carry_loop]. destruct (s_rt s) as [t lo0] eqn:Ert. cbn [lo main] in *. subst lo0.
    destruct o as [B l i n]. destruct Hpre as (Hit & Hc & Hnd & Hdis). cbn [oit orem ocnt] in *.
    apply wp_bind. unfold old_pop. wp_steps. rewrite Ert. cbn [lo oit orem oB ocnt].
    destruct (N.eqb_spec i 0) as [Hi|Hi].
    + (* iterator exhausted: release the old table *)
      apply wp_ret. apply free_old_spec. intros s' Hs'. rewrite Ert in Hs'. cbn [main] in Hs'.
      assert (Hnil : l = []) by (destruct l; [reflexivity|cbn [length] in Hc; lia]). subst l.
      unfold carry_Q. rewrite Hs'. cbn [main lo ocnt].
      split; [split; [exact HR|split; [exact Hok|exact I]]|].
      split; [reflexivity|]. split; [reflexivity|]. split; [reflexivity|]. repeat split; try lia.
    + destruct l as [|e l]; [cbn [length] in Hc; lia|].
      wp_steps. cbn [set_rt s_rt]. rewrite Ert. cbn [main].
      set (s1 := set_rt (RT t (Some (Old B l (i - 1) (n - 1)))) s).
      (* the element is now owned by the call *)
      apply frame0_use; [apply frame0_tick|]. intros [] s2 Hs2.
      assert (Hnd' : NoDup (map ek l)) by (cbn in Hnd; apply NoDup_cons in Hnd; tauto).
      assert (He : hel t !! ek e = None) by (apply Hdis; left).
      assert (Hel : forall x, x ∈ l -> ek x <> ek e).
      { intros x Hx Heq. cbn in Hnd. apply NoDup_cons in Hnd as [Hnin _]. apply Hnin.
        rewrite <- Heq. apply elem_of_list_fmap. exists x. auto. }
      assert (Hn1 : n = (n - 1) + 1 /\ n - 1 = N.of_nat (length l)) by (cbn [length] in Hc; lia).
      destruct Hn1 as [Hn1 Hc']. unfold budget in Hbud. rewrite Hn1 in Hbud.
      assert (Hgl1 : 0 < hgl t).
      { destruct (N.ltb_spec (N.of_nat (S fuel)) (n - 1 + 1)); lia. }
      apply wp_bind. apply wp_on_unwind. eapply frameU_use; [apply frame_tick_hash| |].
      * intros [] s3 Hs3. apply wp_bind. unfold main_insert_no_grow. wp_steps.
        rewrite Hs3, Hs2. cbn [s1 set_rt s_rt main].
        apply hb_insert_no_grow_spec; [exact Hok|exact He|exact Hgl1|].
        intros t' s4 Hs4 Hok' Hel' HB' Hn' Hle Hge. wp_steps. cbn [set_rt s_rt].
        rewrite Hs4, Hs3, Hs2. cbn [s1 set_rt s_rt main lo].
        set (s5 := set_rt _ s4).
        eapply wp_conseq; [apply (IH s5 (Old B l (i - 1) (n - 1))); [exact HR|lia| | | |]| |].
        -- reflexivity.
        -- exact Hok'.
        -- repeat split; [cbn [oit ocnt]; lia|exact Hc'|exact Hnd'|].
           intros x Hx. cbn [s5 set_rt s_rt main]. rewrite Hel'.
           rewrite lookup_insert_ne by (apply not_eq_sym, Hel; exact Hx). apply Hdis. right. exact Hx.
        -- cbn [s5 set_rt s_rt main ocnt]. unfold budget.
           destruct (N.ltb_spec (N.of_nat (S fuel)) (n - 1 + 1)) as [Hlt|Hge'];
           destruct (N.ltb_spec (N.of_nat fuel) (n - 1)) as [Hlt'|Hge'']; try lia.
           replace (n - 1 + 1 - N.of_nat (S fuel)) with (n - 1 - N.of_nat fuel) in Hbud by lia.
           lia.
        -- intros [] s6 HQ. unfold carry_Q in *. cbn [s5 set_rt s_rt main lo ocnt oB] in HQ.
           destruct HQ as (HI & Habs & HB6 & Hsub6 & Hgl6 & Hgl6' & Hlen6 & Hlo6).
           split; [exact HI|]. split.
           { rewrite Habs. destruct t' as [B' g' n' m']. cbn in Hel', HB'. subst m' B'.
             apply abs_pop. exact He. }
           cbn [main lo ocnt oB].
           split; [congruence|]. split; [etransitivity; [|exact Hsub6]; rewrite Hel'; apply insert_subseteq; exact He|].
           split; [lia|]. split; [lia|]. split; [lia|].
           destruct (lo (s_rt s6)) as [o6|]; [|lia].
           destruct Hlo6 as (H1 & H2 & H3). repeat split; lia.
        -- intros p s6 (HI & -> & Hsub). split; [exact HI|]. split; [reflexivity|].
           etransitivity; [exact Hsub|]. cbn [s5 set_rt s_rt].
           destruct t' as [B' g' n' m']. cbn in Hel', HB'. subst m' B'.
           rewrite (abs_pop t B e l g' n' (i - 1) (n - 1) i n) by exact He. reflexivity.
      * (* the hasher panicked: the element in flight is dropped, everything else is consistent *)
        intros p s3 Hs3 ->. apply frame0_use; [apply frame0_drop_elem|]. intros [] s4 Hs4.
        unfold carry_U. rewrite Hs4, Hs3, Hs2. cbn [s1 set_rt s_rt].
        split.
        { split; [exact HR|]. split; [exact Hok|]. cbn [lo main].
          repeat split; [cbn [oit ocnt olen]; unfold olen; cbn [ocnt]; lia|exact Hc'|exact Hnd'|intros x Hx; apply Hdis; right; exact Hx|].
          unfold olen. cbn [ocnt].
          apply (need_after_loss (N.of_nat (S fuel))); [exact HR|lia|exact HfR|exact Hbud]. }
        split; [reflexivity|].
        unfold rt_abs. cbn [main lo orem]. rewrite list_to_emap_cons.
        apply map_union_mono_l. apply insert_subseteq.
        rewrite list_to_emap_lookup by exact Hnd'.
        destruct (lookup_list (ek e) l) as [x|] eqn:Ex; [|reflexivity].
        apply lookup_list_Some in Ex as [Hx Hk]. exfalso. eapply Hel; eauto.
Qed.


Lemma rt_carry_spec s o :
  0 < R -> lo (s_rt s) = Some o -> hb_ok ES (main (s_rt s)) -> old_pre (main (s_rt s)) o ->
  budget R (ocnt o) (hgl (main (s_rt s))) ->
  wp (rt_carry c) (fun _ s' => carry_Q (s_rt s) R (s_rt s')) (carry_U (s_rt s)) s.
Proof.
  intros HR Hlo Hok Hpre Hbud. unfold rt_carry. wp_steps. rewrite Hlo.
  pose proof (carry_loop_spec (N.to_nat R) s o HR) as H. rewrite N2Nat.id in H.
  apply H; [lia|assumption..].
Qed.

(* ---------------------------------------------------------------- growth *)

Definition grow_post (r : rt) (extra : N) (r' : rt) : Prop :=
  let n := hn (main r) in
  Inv R ES r' /\ rt_abs r' = rt_abs r /\
  hel (main r') = ∅ /\ hn (main r') = 0 /\ hgl (main r') = bcap (hB (main r')) /\
  n + cdiv n R + N.max extra (cdiv n R) <= hgl (main r') /\
  (n = 0 -> lo r' = None) /\
  (0 < n -> exists o', lo r' = Some o' /\ ocnt o' = n /\ oB o' = hB (main r)).

Lemma rt_try_grow_spec fallible extra (Q : bool -> st -> Prop) (U : panic -> st -> Prop) s :
  Inv R ES (s_rt s) -> lo (s_rt s) = None ->
  (forall s', grow_post (s_rt s) extra (s_rt s') -> Q true s') ->
  (forall s', fallible = true -> s_rt s' = s_rt s -> Q false s') ->
  (forall s', fallible = false -> s_rt s' = s_rt s -> U PCapOverflow s') ->
  wp (rt_try_grow c fallible extra) Q U s.
Proof.
  intros (HR & Hok & _) Hlo HT HF HU. unfold rt_try_grow. wp_steps. rewrite Hlo.
  unfold debug_check. cbn [is_some_b negb]. wp_steps.
  set (t := main (s_rt s)). set (n := hlen t).
  apply hb_with_capacity_spec.
  - intros nt s1 Hs1 Hempty Hn0 Hnt Hgl Hcap Hlt _.
    assert (Hsum : n + cdiv n R + N.max extra (cdiv n R) <= hgl nt).
    { unfold sat_add in *. lia. }
    destruct Hok as (Hcap0 & Hn & Hkey & HBb).
    destruct (N.eqb_spec n 0) as [Hz|Hz].
    + wp_steps. apply frame0_use; [apply frame0_hb_free|]. intros [] s2 Hs2. wp_steps.
      apply HT. rewrite Hs2. cbn [set_rt s_rt]. rewrite Hs1, Hlo. unfold grow_post. cbn [main lo].
      assert (Hem : hel t = ∅).
      { apply map_size_empty_inv. fold t in Hn. unfold n, hlen in Hz. lia. }
      split; [split; [exact HR|split; [exact Hnt|exact I]]|].
      split. { unfold rt_abs. cbn [main lo]. rewrite Hlo, Hempty. change (hel (main (s_rt s))) with (hel t). rewrite Hem. reflexivity. }
      fold t. unfold n, hlen in *. repeat split; try assumption; try lia.
    + unfold take_order_grow. wp_steps.
      destruct (valid_order (hel t) (order_grow (hel t) (s_perm s1) (s_qperm s1))) eqn:Ev; [|apply wp_oracle].
      apply valid_order_spec in Ev as (Hnd & Hemap & Hlen & Hin).
      wp_steps. apply free_old_spec. intros s2 Hs2. wp_steps.
      apply HT. cbn [set_rt s_rt main lo]. unfold grow_post. cbn [main lo]. fold t.
      set (l := order_grow (hel t) (s_perm s1) (s_qperm s1)) in *.
      split.
      { split; [exact HR|]. split; [exact Hnt|]. cbn [lo main].
        repeat split; cbn [oit ocnt orem olen]; unfold olen; cbn [ocnt].
        - fold t in Hn. unfold n, hlen in *. lia.
        - exact Hnd.
        - intros e _. cbn [main]. rewrite Hempty. apply lookup_empty.
        - unfold n, hlen in *. rewrite need_pos by lia. lia. }
      split. { rewrite (rt_abs_new_old t nt l) by assumption. unfold rt_abs. cbn [main lo]. rewrite Hlo. reflexivity. }
      unfold n, hlen in *. repeat split; try assumption; try lia.
      intros _. eexists. split; [reflexivity|]. split; reflexivity.
  - intros ->. wp_steps. apply HF; reflexivity.
  - intros ->. apply HU; reflexivity.
Qed.

Lemma rt_grow_spec extra (Q : unit -> st -> Prop) (U : panic -> st -> Prop) s :
  Inv R ES (s_rt s) -> lo (s_rt s) = None ->
  (forall s', grow_post (s_rt s) extra (s_rt s') -> Q tt s') ->
  (forall s', s_rt s' = s_rt s -> U PCapOverflow s') ->
  wp (rt_grow c extra) Q U s.
Proof.
  intros HI Hlo HQ HU. unfold rt_grow. apply wp_bind. apply rt_try_grow_spec; [exact HI|exact Hlo| | |].
  - intros s' Hg. apply wp_ret. apply HQ. exact Hg.
  - discriminate.
  - intros s' _ Hs. apply HU. exact Hs.
Qed.


(* ---------------------------------------------------------------- insertion *)

Lemma abs_insert_main t t' o e :
  hel t' = <[ek e := e]> (hel t) ->
  rt_abs (RT t' o) = <[ek e := e]> (rt_abs (RT t o)).
Proof. intros H. unfold rt_abs. cbn [main lo]. rewrite H. symmetry. apply insert_union_l. Qed.

(* what an inserting call without growth does: the new element, at most R moves *)
Definition ins_post (r : rt) (e : elem) (r' : rt) : Prop :=
  Inv R ES r' /\ rt_abs r' = <[ek e := e]> (rt_abs r) /\
  hel (main r') !! ek e = Some e /\   (* the new element is in the main table: its bucket stays valid *)
  hB (main r') = hB (main r) /\ rt_capacity r <= rt_capacity r' /\
  match lo r with
  | None => lo r' = None /\ hn (main r') = hn (main r) + 1
  | Some o =>
      hn (main r') = hn (main r) + 1 + N.min R (ocnt o) /\
      match lo r' with
      | Some o' => ocnt o' + R = ocnt o /\ R < ocnt o /\ oB o' = oB o
      | None => ocnt o <= R
      end
  end.

Definition ins_U (r : rt) (e : elem) (p : panic) (s' : st) : Prop :=
  Inv R ES (s_rt s') /\ (p = PUser \/ (p = PCapOverflow /\ rt_abs (s_rt s') = rt_abs r)) /\
  rt_abs (s_rt s') ⊆ <[ek e := e]> (rt_abs r).

Lemma rt_insert_no_grow_spec e s :
  Inv R ES (s_rt s) -> rt_abs (s_rt s) !! ek e = None -> 0 < hgl (main (s_rt s)) ->
  wp (rt_insert_no_grow c e) (fun _ s' => ins_post (s_rt s) e (s_rt s'))
     (fun p s' => ins_U (s_rt s) e p s' /\ p = PUser) s.
Proof.
  intros HI Habs Hgl. pose proof HI as (HR & Hok & Ho).
  rewrite (rt_abs_lookup R ES) in Habs by exact HI.
  destruct (s_rt s) as [t lo0] eqn:Ert. cbn [main lo] in *.
  destruct (hel t !! ek e) as [x|] eqn:He; [discriminate|].
  unfold rt_insert_no_grow, main_insert_no_grow. wp_steps. rewrite Ert. cbn [main].
  apply hb_insert_no_grow_spec; [exact Hok|exact He|exact Hgl|].
  intros t' s1 Hs1 Hok' Hel' HB' Hn' Hle Hge. wp_steps. cbn [set_rt s_rt]. rewrite Hs1, Ert. cbn [lo].
  destruct lo0 as [o|]; cbn [is_some_b when].
  - (* a resize is pending: carry *)
    destruct Ho as (Hit & Hc & Hnd & Hdis & Hneed).
    set (s2 := set_rt (RT t' (Some o)) s1).
    assert (Hdis' : forall x, x ∈ orem o -> hel t' !! ek x = None).
    { intros x Hx. rewrite Hel'. rewrite lookup_insert_ne; [apply Hdis; exact Hx|].
      intros Heq. apply (lookup_list_None _ _ Habs x Hx). congruence. }
    eapply wp_conseq; [apply (rt_carry_spec s2 o HR)| |].
    + reflexivity.
    + exact Hok'.
    + repeat split; assumption.
    + cbn [s2 set_rt s_rt main]. unfold olen in Hneed. destruct (N.eq_dec (ocnt o) 0) as [Hz|Hz].
      * unfold budget. rewrite Hz, N.min_0_r. destruct (N.ltb_spec R 0); lia.
      * apply budget_of_need; [exact HR| |lia]. lia.
    + intros [] s3 HQ. unfold carry_Q in HQ. cbn [s2 set_rt s_rt main lo] in HQ.
      destruct HQ as (HI3 & Habs3 & HB3 & Hsub3 & Hgl3 & Hgl3' & Hn3 & Hlo3).
      unfold ins_post. cbn [main lo]. split; [exact HI3|]. split; [rewrite Habs3; apply abs_insert_main; exact Hel'|].
      split. { eapply lookup_weaken; [|exact Hsub3]. cbn [s2 set_rt s_rt main]. rewrite Hel'. apply lookup_insert. }
      split; [congruence|]. split; [unfold rt_capacity, hlen; cbn [main]; lia|].
      split; [lia|]. destruct (lo (s_rt s3)) as [o3|].
      * destruct Hlo3 as (H1 & H2 & H3). rewrite N.min_l in H1 by lia. repeat split; [lia|exact H2|exact H3].
      * exact Hlo3.
    + intros p s3 (HI3 & -> & Hsub). split; [|reflexivity]. split; [exact HI3|]. split; [left; reflexivity|].
      etransitivity; [exact Hsub|]. cbn [s2 set_rt s_rt]. rewrite (abs_insert_main t t' (Some o) e Hel'). reflexivity.
  - wp_steps. unfold ins_post. cbn [set_rt s_rt main lo].
    split; [split; [exact HR|split; [exact Hok'|exact I]]|].
    split; [apply abs_insert_main; exact Hel'|].
    split; [rewrite Hel'; apply lookup_insert|].
    split; [exact HB'|]. split; [unfold rt_capacity, hlen; cbn [main]; lia|]. split; [reflexivity|exact Hn'].
Qed.

(* an inserting call in general: with growth first when the main table is full *)
Definition insert_post (r : rt) (e : elem) (r' : rt) : Prop :=
  Inv R ES r' /\ rt_abs r' = <[ek e := e]> (rt_abs r) /\
  hel (main r') !! ek e = Some e /\
  (0 < hgl (main r) -> ins_post r e r') /\
  (hgl (main r) = 0 -> lo r = None /\
     (* the new table holds the new element and up to R moved ones; the rest waits in the old *)
     match lo r' with
     | Some o' => ocnt o' + R = hn (main r) /\ R < hn (main r) /\ oB o' = hB (main r) /\ hn (main r') = 1 + R
     | None => hn (main r) <= R /\ hn (main r') = 1 + hn (main r)
     end).

Lemma rt_insert_spec e s :
  Inv R ES (s_rt s) -> rt_abs (s_rt s) !! ek e = None ->
  wp (rt_insert c e) (fun _ s' => insert_post (s_rt s) e (s_rt s')) (ins_U (s_rt s) e) s.
Proof.
  intros HI Habs. pose proof HI as (HR & Hok & Ho). unfold rt_insert. wp_steps.
  destruct (N.eqb_spec (hgl (main (s_rt s))) 0) as [Hz|Hz].
  - (* main table full: Inv says no resize can be pending *)
    destruct (lo (s_rt s)) as [o|] eqn:Hlo.
    { exfalso. destruct Ho as (_ & _ & _ & _ & Hneed). pose proof (need_ge1 (olen o) R HR). lia. }
    wp_steps. rewrite Hlo. cbn [is_some_b negb assert_].
    apply wp_on_unwind. apply wp_bind. apply wp_ret.
    apply rt_grow_spec; [exact HI|exact Hlo| |].
    + intros s1 Hg. wp_steps.
      destruct Hg as (HI1 & Habs1 & Hem1 & Hn1 & Hgl1 & Hsum & Hlo0 & Hlo1).
      assert (Hgl1' : 0 < hgl (main (s_rt s1))) by lia.
      destruct (N.eqb_spec (hgl (main (s_rt s1))) 0) as [Hz1|Hz1]; [lia|].
      eapply wp_conseq; [apply rt_insert_no_grow_spec; [exact HI1|rewrite Habs1; exact Habs|exact Hgl1']| |].
      * intros [] s2 (HI2 & Habs2 & Hin2 & HB2 & Hcap2 & Hlo2). unfold insert_post.
        split; [exact HI2|]. split; [rewrite Habs2, Habs1; reflexivity|]. split; [exact Hin2|].
        split; [intros; lia|]. intros _. split; [exact Hlo|].
        destruct (N.eq_dec (hn (main (s_rt s))) 0) as [Hn0|Hn0].
        -- rewrite (Hlo0 Hn0) in Hlo2. destruct Hlo2 as [-> Hn2]. lia.
        -- destruct Hlo1 as (o1 & Ho1 & Hc1 & HB1); [lia|]. rewrite Ho1 in Hlo2.
           destruct Hlo2 as [Hn2 Hlo2]. destruct (lo (s_rt s2)) as [o2|].
           ++ destruct Hlo2 as (H1 & H2 & H3). rewrite N.min_l in Hn2 by lia. repeat split; [lia|lia|congruence|lia].
           ++ rewrite N.min_r in Hn2 by lia. split; lia.
      * intros p s2 ((HI2 & Hp & Hsub) & _). split; [exact HI2|]. split; [|rewrite <- Habs1; exact Hsub].
        destruct Hp as [->|[-> Hp]]; [left; reflexivity|right; split; [reflexivity|congruence]].
    + intros s1 Hs1. apply frame0_use; [apply frame0_drop_elem|]. intros [] s2 Hs2.
      split; [rewrite Hs2, Hs1; exact HI|]. split; [right; split; [reflexivity|rewrite Hs2, Hs1; reflexivity]|].
      rewrite Hs2, Hs1. apply insert_subseteq. exact Habs.
  - eapply wp_conseq; [apply rt_insert_no_grow_spec; [exact HI|exact Habs|lia]| |].
    + intros [] s1 Hp. unfold insert_post. pose proof Hp as (H1 & H2 & H3 & _).
      split; [exact H1|]. split; [exact H2|]. split; [exact H3|]. split; [intros _; exact Hp|intros; lia].
    + intros p s1 [H _]. exact H.
Qed.


(* ---------------------------------------------------------------- lookup and removal *)

Lemma rt_find_abs r k :
  Inv R ES r -> rt_abs r !! k = option_map snd (rt_find_pure r k).
Proof.
  intros HI. rewrite (rt_abs_lookup R ES) by exact HI. unfold rt_find_pure.
  destruct (hel (main r) !! k); [reflexivity|]. destruct (lo r) as [o|]; [|reflexivity].
  destruct (lookup_list k (orem o)); reflexivity.
Qed.

Lemma rt_find_main r k e : rt_find_pure r k = Some (true, e) -> hel (main r) !! k = Some e.
Proof.
  unfold rt_find_pure. destruct (hel (main r) !! k); [intros [= <-]; reflexivity|].
  destruct (lo r) as [o|]; [|discriminate]. destruct (lookup_list k (orem o)); discriminate.
Qed.
Lemma rt_find_old r k e :
  rt_find_pure r k = Some (false, e) ->
  hel (main r) !! k = None /\ exists o, lo r = Some o /\ lookup_list k (orem o) = Some e.
Proof.
  unfold rt_find_pure. destruct (hel (main r) !! k); [discriminate|].
  destruct (lo r) as [o|]; [|discriminate]. destruct (lookup_list k (orem o)) eqn:E; [|discriminate].
  intros [= <-]. split; [reflexivity|]. exists o. auto.
Qed.

Lemma abs_delete_main t t' o k :
  hel t' = delete k (hel t) ->
  (forall x oo, o = Some oo -> x ∈ orem oo -> ek x <> k) ->
  rt_abs (RT t' o) = delete k (rt_abs (RT t o)).
Proof.
  intros H Hno. unfold rt_abs. cbn [main lo]. rewrite H, delete_union. f_equal.
  destruct o as [oo|]; [|rewrite delete_empty; reflexivity].
  symmetry. apply delete_notin. apply list_to_emap_None. intros Hin.
  apply elem_of_list_fmap in Hin as (x & Hx & Hin). eapply Hno; eauto.
Qed.

Lemma abs_delete_old t B l i n i' n' k :
  NoDup (map ek l) -> hel t !! k = None ->
  rt_abs (RT t (Some (Old B (remove_list k l) i' n'))) = delete k (rt_abs (RT t (Some (Old B l i n)))).
Proof.
  intros Hnd Hnone. unfold rt_abs. cbn [main lo orem]. rewrite delete_union, list_to_emap_remove by exact Hnd.
  rewrite (delete_notin (hel t)) by exact Hnone. reflexivity.
Qed.

Lemma old_take_spec k e o (Q : elem -> st -> Prop) (U : panic -> st -> Prop) s :
  lo (s_rt s) = Some o -> oit o = ocnt o -> 0 < ocnt o -> lookup_list k (orem o) = Some e ->
  (forall s', s_rt s' = with_lo (s_rt s) (Some (Old (oB o) (remove_list k (orem o)) (ocnt o - 1) (ocnt o - 1))) -> Q e s') ->
  wp (old_take c k) Q U s.
Proof.
  intros Hlo Hit Hpos Hl HQ. unfold old_take. wp_steps. rewrite Hlo, Hl.
  destruct (czst c).
  - wp_steps. apply HQ. reflexivity.
  - destruct (N.eqb_spec (oit o) 0) as [Hz|Hz]; [lia|]. wp_steps. apply HQ. rewrite Hit. reflexivity.
Qed.

(* remove(bucket): the post-state *)
Definition remove_post (r : rt) (in_main : bool) (k : N) (r' : rt) : Prop :=
  Inv R ES r' /\ rt_abs r' = delete k (rt_abs r) /\ hB (main r') = hB (main r) /\
  (forall k', k' <> k -> rt_find_pure r' k' = rt_find_pure r k') /\
  if in_main then lo r' = lo r /\ hn (main r') + 1 = hn (main r) /\
                  hgl (main r) <= hgl (main r') /\ hgl (main r') <= hgl (main r) + 1
  else main r' = main r /\
       match lo r with
       | Some o => match lo r' with
                   | Some o' => ocnt o' + 1 = ocnt o /\ oB o' = oB o /\ oit o' = ocnt o' /\ 1 < ocnt o
                   | None => ocnt o = 1
                   end
       | None => False
       end.

Lemma old_ok_remove t o k e :
  old_ok R t o -> lookup_list k (orem o) = Some e -> 0 < R ->
  old_ok R t (Old (oB o) (remove_list k (orem o)) (ocnt o - 1) (ocnt o - 1)) /\ 0 < ocnt o.
Proof.
  intros (Hit & Hc & Hnd & Hdis & Hneed) Hl HR.
  apply lookup_list_Some in Hl as [Hin Hk].
  pose proof (remove_list_length k (orem o) e Hnd Hin Hk) as Hlen.
  split; [|lia]. unfold old_ok, olen in *. cbn [oit ocnt orem].
  split; [reflexivity|]. split; [lia|]. split; [apply remove_list_nodup; exact Hnd|].
  split.
  - intros x Hx. apply remove_list_elem in Hx as [Hx _]. apply Hdis. exact Hx.
  - pose proof (need_mono (ocnt o - 1) (ocnt o) R HR ltac:(lia)). lia.
Qed.

Lemma rt_remove_spec in_main k e (Q : elem -> st -> Prop) (U : panic -> st -> Prop) s :
  Inv R ES (s_rt s) -> rt_find_pure (s_rt s) k = Some (in_main, e) ->
  (forall s', remove_post (s_rt s) in_main k (s_rt s') -> Q e s') ->
  wp (rt_remove c in_main k) Q U s.
Proof.
  intros HI Hf HQ. pose proof HI as (HR & Hok & Ho). unfold rt_remove. destruct in_main.
  - apply rt_find_main in Hf. wp_steps. apply hb_remove_spec with (e := e); [exact Hok|exact Hf|].
    intros t' s1 Hs1 Hok' Hel' HB' Hn' Hge Hle. wp_steps.
    apply HQ. cbn [fst snd set_rt s_rt]. rewrite Hs1. unfold remove_post. cbn [main lo].
    destruct (s_rt s) as [t lo0] eqn:Ert. cbn [main lo] in *.
    assert (Hno : forall x oo, lo0 = Some oo -> x ∈ orem oo -> ek x <> k).
    { intros x oo -> Hx Hk. destruct Ho as (_ & _ & _ & Hdis & _). specialize (Hdis x Hx). congruence. }
    split.
    { split; [exact HR|]. split; [exact Hok'|]. cbn [lo main]. destruct lo0 as [o|]; [|exact I].
      destruct Ho as (Hit & Hc & Hnd & Hdis & Hneed).
      split; [exact Hit|]. split; [exact Hc|]. split; [exact Hnd|]. split; [|lia].
      intros x Hx. rewrite Hel'. rewrite lookup_delete_ne by (apply not_eq_sym; eapply Hno; eauto). apply Hdis. exact Hx. }
    split; [apply abs_delete_main; assumption|]. split; [exact HB'|].
    split. { intros k' Hk'. unfold rt_find_pure. cbn [main lo]. rewrite Hel', lookup_delete_ne by congruence. reflexivity. }
    repeat split; assumption.
  - apply rt_find_old in Hf as (Hnone & o & Hlo & Hl). wp_steps. rewrite Hlo.
    rewrite Hlo in Ho. destruct (old_ok_remove _ _ _ _ Ho Hl HR) as [Ho' Hpos].
    pose proof Ho as (Hit & Hc & Hnd & Hdis & Hneed).
    apply wp_bind. apply old_take_spec with (e := e) (o := o); [exact Hlo|exact Hit|exact Hpos|exact Hl|].
    intros s1 Hs1. wp_steps. rewrite Hs1. cbn [lo olen ocnt].
    destruct (s_rt s) as [t lo0] eqn:Ert. cbn [main lo] in *. subst lo0.
    destruct (N.eqb_spec (ocnt o - 1) 0) as [Hz|Hz]; cbn [when].
    + apply wp_bind. apply free_old_spec. intros s2 Hs2. apply wp_ret. apply HQ.
      rewrite Hs2, Hs1. cbn [main lo]. unfold remove_post. cbn [main lo].
      split; [split; [exact HR|split; [exact Hok|exact I]]|].
      assert (Hnil : remove_list k (orem o) = []).
      { destruct Ho' as (_ & Hc' & _). cbn [ocnt orem] in Hc'. destruct (remove_list k (orem o)); [reflexivity|cbn [length] in Hc'; lia]. }
      split.
      { destruct o as [B l i n]. cbn [oB orem oit ocnt] in *.
        rewrite <- (abs_delete_old t B l i n 0 0 k Hnd Hnone). rewrite Hnil. reflexivity. }
      split; [reflexivity|].
      split. { intros k' Hk'. unfold rt_find_pure. cbn [main lo]. destruct (hel t !! k'); [reflexivity|].
               rewrite <- (lookup_list_remove_ne k (orem o) k') by exact Hk'. rewrite Hnil. reflexivity. }
      repeat split; lia.
    + wp_steps. apply HQ. rewrite Hs1. unfold remove_post. cbn [main lo ocnt oB oit].
      split; [split; [exact HR|split; [exact Hok|exact Ho']]|].
      split; [destruct o as [B l i n]; apply abs_delete_old; assumption|]. split; [reflexivity|].
      split. { intros k' Hk'. unfold rt_find_pure. cbn [main lo orem]. destruct (hel t !! k'); [reflexivity|].
               f_equal. apply lookup_list_remove_ne. exact Hk'. }
      repeat split; lia.
Qed.


(* erase(bucket): like remove, but the element is dropped and an emptied old table stays *)
Definition erase_post (r : rt) (in_main : bool) (k : N) (r' : rt) : Prop :=
  Inv R ES r' /\ rt_abs r' = delete k (rt_abs r) /\ hB (main r') = hB (main r) /\
  (forall k', k' <> k -> rt_find_pure r' k' = rt_find_pure r k') /\
  if in_main then lo r' = lo r /\ hn (main r') + 1 = hn (main r) /\
                  hgl (main r) <= hgl (main r') /\ hgl (main r') <= hgl (main r) + 1
  else main r' = main r /\
       match lo r, lo r' with
       | Some o, Some o' => ocnt o' + 1 = ocnt o /\ oB o' = oB o /\ orem o' = remove_list k (orem o)
       | _, _ => False
       end.

Lemma rt_erase_spec in_main k e (Q : unit -> st -> Prop) (U : panic -> st -> Prop) s :
  Inv R ES (s_rt s) -> rt_find_pure (s_rt s) k = Some (in_main, e) ->
  (forall s', erase_post (s_rt s) in_main k (s_rt s') -> Q tt s') ->
  wp (rt_erase c in_main k) Q U s.
Proof.
  intros HI Hf HQ. pose proof HI as (HR & Hok & Ho). unfold rt_erase. destruct in_main.
  - apply rt_find_main in Hf. wp_steps. apply hb_remove_spec with (e := e); [exact Hok|exact Hf|].
    intros t' s1 Hs1 Hok' Hel' HB' Hn' Hge Hle. wp_steps.
    apply frame0_use; [apply frame0_drop_elem|]. intros [] s2 Hs2.
    apply HQ. rewrite Hs2. cbn [fst snd set_rt s_rt]. rewrite Hs1. unfold erase_post. cbn [main lo].
    destruct (s_rt s) as [t lo0] eqn:Ert. cbn [main lo] in *.
    assert (Hno : forall x oo, lo0 = Some oo -> x ∈ orem oo -> ek x <> k).
    { intros x oo -> Hx Hk. destruct Ho as (_ & _ & _ & Hdis & _). specialize (Hdis x Hx). congruence. }
    split.
    { split; [exact HR|]. split; [exact Hok'|]. cbn [lo main]. destruct lo0 as [o|]; [|exact I].
      destruct Ho as (Hit & Hc & Hnd & Hdis & Hneed).
      split; [exact Hit|]. split; [exact Hc|]. split; [exact Hnd|]. split; [|lia].
      intros x Hx. rewrite Hel'. rewrite lookup_delete_ne by (apply not_eq_sym; eapply Hno; eauto). apply Hdis. exact Hx. }
    split; [apply abs_delete_main; assumption|]. split; [exact HB'|].
    split. { intros k' Hk'. unfold rt_find_pure. cbn [main lo]. rewrite Hel', lookup_delete_ne by congruence. reflexivity. }
    repeat split; assumption.
  - apply rt_find_old in Hf as (Hnone & o & Hlo & Hl). wp_steps. rewrite Hlo.
    rewrite Hlo in Ho. destruct (old_ok_remove _ _ _ _ Ho Hl HR) as [Ho' Hpos].
    pose proof Ho as (Hit & Hc & Hnd & Hdis & Hneed).
    apply wp_bind. apply old_take_spec with (e := e) (o := o); [exact Hlo|exact Hit|exact Hpos|exact Hl|].
    intros s1 Hs1. apply frame0_use; [apply frame0_drop_elem|]. intros [] s2 Hs2.
    apply HQ. rewrite Hs2, Hs1. unfold erase_post. rewrite Hlo. cbn [main lo ocnt oB orem].
    destruct (s_rt s) as [t lo0] eqn:Ert. cbn [main lo] in *. subst lo0.
    split; [split; [exact HR|split; [exact Hok|exact Ho']]|].
    split; [destruct o as [B l i n]; apply abs_delete_old; assumption|].
    split; [reflexivity|].
    split. { intros k' Hk'. unfold rt_find_pure. cbn [main lo orem]. destruct (hel t !! k'); [reflexivity|].
             f_equal. apply lookup_list_remove_ne. exact Hk'. }
    split; [reflexivity|]. split; [lia|]. split; reflexivity.
Qed.

(* clear() *)
Lemma hb_clear_spec t (Q : hb -> st -> Prop) (U : panic -> st -> Prop) s :
  hb_ok ES t ->
  (forall t' s', s_rt s' = s_rt s -> hb_ok ES t' -> hel t' = ∅ -> hn t' = 0 -> hB t' = hB t -> hgl t <= hgl t' ->
                 (t' = t \/ hgl t' = bcap (hB t)) -> Q t' s') ->
  wp (hb_clear t) Q U s.
Proof.
  intros Hok HQ. pose proof Hok as (Hcap & Hn & Hkey & HBb). unfold hb_clear, hlen.
  destruct (N.eqb_spec (hn t) 0) as [Hz|Hz].
  - apply wp_ret. apply HQ; [reflexivity|exact Hok| |exact Hz|reflexivity|lia|left; reflexivity].
    apply map_size_empty_inv. lia.
  - apply wp_bind. apply frame0_use; [apply frame0_drop_elems|]. intros [] s1 Hs1. apply wp_ret.
    apply HQ; [exact Hs1|apply hb_ok_empty; tauto|reflexivity|reflexivity|reflexivity| |right; reflexivity]. cbn [hb_empty hgl]. lia.
Qed.

Lemma rt_clear_spec (Q : unit -> st -> Prop) (U : panic -> st -> Prop) s :
  Inv R ES (s_rt s) ->
  (forall s', Inv R ES (s_rt s') -> rt_abs (s_rt s') = ∅ -> lo (s_rt s') = None ->
              hB (main (s_rt s')) = hB (main (s_rt s)) -> Q tt s') ->
  wp rt_clear Q U s.
Proof.
  intros (HR & Hok & _) HQ. unfold rt_clear. apply wp_bind. apply free_old_spec. intros s1 Hs1.
  wp_steps. rewrite Hs1. cbn [main].
  apply hb_clear_spec; [exact Hok|]. intros t' s2 Hs2 Hok' Hel' Hn' HB' Hgl' _. wp_steps.
  apply HQ; cbn [set_rt s_rt]; rewrite Hs2, Hs1; cbn [main lo].
  - split; [exact HR|split; [exact Hok'|exact I]].
  - unfold rt_abs. cbn [main lo]. rewrite Hel'. apply (left_id_L ∅ (∪)).
  - reflexivity.
  - exact HB'.
Qed.



(* ---------------------------------------------------------------- replace_bucket_with *)

(* the closure: it owns the element while it runs, does not touch the tables, and either gives
   an element back for the same slot (same key) or keeps it *)
Definition closure_ok (f : elem -> M' (option elem)) (e : elem) (res : option elem) : Prop :=
  forall s, wp (f e) (fun r s' => s_rt s' = s_rt s /\ r = res) (fun p s' => s_rt s' = s_rt s /\ p = PUser) s.

Definition replace_post (r : rt) (im : bool) (k : N) (res : option elem) (b : bool) (r' : rt) : Prop :=
  Inv R ES r' /\ hB (main r') = hB (main r) /\
  (forall k', k' <> k -> rt_find_pure r' k' = rt_find_pure r k') /\
  match res with
  | Some e' => b = true /\ rt_abs r' = <[k := e']> (rt_abs r) /\ rt_find_pure r' k = Some (im, e') /\
               hn (main r') = hn (main r) /\ hgl (main r') = hgl (main r) /\
               match lo r, lo r' with
               | Some o, Some o' => ocnt o' = ocnt o /\ oit o' = oit o /\ oB o' = oB o
               | None, None => True
               | _, _ => False
               end
  | None => b = false /\ rt_abs r' = delete k (rt_abs r) /\ rt_find_pure r' k = None /\
            (* an old table emptied this way stays allocated until the next inserting call *)
            (im = false -> match lo r, lo r' with Some o, Some o' => ocnt o' + 1 = ocnt o | _, _ => False end)
  end.

Lemma rt_replace_bucket_with_spec im k e f res (Q : bool -> st -> Prop) (U : panic -> st -> Prop) s :
  Inv R ES (s_rt s) -> rt_find_pure (s_rt s) k = Some (im, e) ->
  closure_ok f e res -> (forall e', res = Some e' -> ek e' = k) ->
  (forall b s', replace_post (s_rt s) im k res b (s_rt s') -> Q b s') ->
  (* a panicking closure loses exactly the element it was handed; everything else is consistent *)
  (forall s', Inv R ES (s_rt s') -> rt_abs (s_rt s') = delete k (rt_abs (s_rt s)) -> U PUser s') ->
  wp (rt_replace_bucket_with c im k f) Q U s.
Proof.
  intros HI Hf Hcl Hres HQ HU. pose proof HI as (HR & Hok & Ho). unfold rt_replace_bucket_with. destruct im.
  - apply rt_find_main in Hf. wp_steps. apply hb_remove_spec with (e := e); [exact Hok|exact Hf|].
    intros t' s1 Hs1 Hok' Hel' HB' Hn' Hge Hle. wp_steps. cbn [fst snd].
    destruct (s_rt s) as [t lo0] eqn:Ert. cbn [main lo] in *.
    assert (Hno : forall x oo, lo0 = Some oo -> x ∈ orem oo -> ek x <> k).
    { intros x oo -> Hx Hk. destruct Ho as (_ & _ & _ & Hdis & _). specialize (Hdis x Hx). congruence. }
    assert (HI1 : Inv R ES (RT t' lo0)).
    { split; [exact HR|]. split; [exact Hok'|]. cbn [lo main]. destruct lo0 as [o|]; [|exact I].
      destruct Ho as (Hit & Hc & Hnd & Hdis & Hneed).
      split; [exact Hit|]. split; [exact Hc|]. split; [exact Hnd|]. split; [|lia].
      intros x Hx. rewrite Hel'. rewrite lookup_delete_ne by (apply not_eq_sym; eapply Hno; eauto). apply Hdis. exact Hx. }
    set (s2 := set_rt (RT t' (lo (s_rt s1))) s1).
    assert (Hs2 : s_rt s2 = RT t' lo0) by (unfold s2; cbn [set_rt s_rt]; rewrite Hs1; reflexivity).
    eapply wp_conseq; [apply (Hcl s2)| |].
    + intros r s3 [Hs3 ->]. destruct res as [e'|].
      * wp_steps. apply HQ. cbn [set_rt s_rt]. rewrite Hs3, Hs2. cbn [lo]. specialize (Hres e' eq_refl).
        pose proof Hok as (Hcap & Hn & Hkey & HBb).
        unfold replace_post. cbn [main lo].
        assert (Hid : <[k := e']> (delete k (hel t)) = <[k := e']> (hel t)) by apply insert_delete_insert.
        split.
        { split; [exact HR|]. split.
          - split; [hl; lia|]. split; [hl; rewrite Hid, size_insert_Some with (e' := e) by exact Hf; exact Hn|].
            split; [|exact HBb]. intros j x. hl. rewrite Hid. destruct (N.eq_dec j k) as [->|Hne].
            + rewrite lookup_insert. intros [= <-]. exact Hres.
            + rewrite lookup_insert_ne by congruence. apply Hkey.
          - cbn [lo main]. destruct lo0 as [o|]; [|exact I]. destruct Ho as (Hit & Hc & Hnd & Hdis & Hneed).
            split; [exact Hit|]. split; [exact Hc|]. split; [exact Hnd|]. split; [|exact Hneed].
            intros x Hx. hl. rewrite Hid, lookup_insert_ne; [apply Hdis; exact Hx|]. apply not_eq_sym. eapply Hno; eauto. }
        split; [reflexivity|].
        split. { intros k' Hk'. unfold rt_find_pure. cbn [main lo hel]. rewrite Hid, lookup_insert_ne by congruence. reflexivity. }
        split; [reflexivity|].
        split. { unfold rt_abs. cbn [main lo hel]. rewrite Hid. symmetry. apply insert_union_l. }
        split. { unfold rt_find_pure. cbn [main hel]. rewrite Hid, lookup_insert. reflexivity. }
        split; [reflexivity|]. split; [reflexivity|]. destruct lo0; auto.
      * wp_steps. apply HQ. rewrite Hs3, Hs2. unfold replace_post. cbn [main lo].
        split; [exact HI1|]. split; [exact HB'|].
        split. { intros k' Hk'. unfold rt_find_pure. cbn [main lo]. rewrite Hel', lookup_delete_ne by congruence. reflexivity. }
        split; [reflexivity|]. split; [apply abs_delete_main; assumption|].
        split; [|discriminate]. unfold rt_find_pure. cbn [main lo]. rewrite Hel', lookup_delete.
        destruct lo0 as [o|]; [|reflexivity]. destruct (lookup_list k (orem o)) as [x|] eqn:El; [|reflexivity].
        apply lookup_list_Some in El as [Hx Hk]. exfalso. eapply Hno; eauto.
    + intros p s3 [Hs3 ->]. apply HU; rewrite Hs3, Hs2; [exact HI1|]. apply abs_delete_main; assumption.
  - apply rt_find_old in Hf as (Hnone & o & Hlo & Hl). wp_steps. rewrite Hlo.
    rewrite Hlo in Ho. destruct (old_ok_remove _ _ _ _ Ho Hl HR) as [Ho' Hpos].
    pose proof Ho as (Hit & Hc & Hnd & Hdis & Hneed).
    apply wp_bind. apply old_take_spec with (e := e) (o := o); [exact Hlo|exact Hit|exact Hpos|exact Hl|].
    intros s1 Hs1.
    destruct (s_rt s) as [t lo0] eqn:Ert. cbn [main lo] in *. subst lo0.
    pose proof (lookup_list_Some _ _ _ Hl) as [Hin Hk].
    assert (HI1 : Inv R ES (s_rt s1)) by (rewrite Hs1; split; [exact HR|split; [exact Hok|exact Ho']]).
    assert (Habs1 : rt_abs (s_rt s1) = delete k (rt_abs (RT t (Some o)))).
    { rewrite Hs1. destruct o as [B l i n]. apply abs_delete_old; assumption. }
    apply wp_bind. eapply wp_conseq; [apply (Hcl s1)| |].
    + intros r s2 [Hs2 ->]. destruct res as [e'|].
      * wp_steps. apply HQ. cbn [set_rt s_rt]. rewrite Hs2, Hs1. cbn [main]. specialize (Hres e' eq_refl).
        assert (Hkin : ek e' ∈ map ek (orem o)).
        { rewrite Hres, <- Hk. apply elem_of_list_fmap. exists e. auto. }
        unfold replace_post. cbn [main lo ocnt oit oB].
        split.
        { split; [exact HR|]. split; [exact Hok|]. cbn [lo main].
          split; [exact Hit|]. split; [cbn [ocnt orem]; rewrite replace_list_length; exact Hc|].
          split; [cbn [orem]; rewrite replace_list_keys; exact Hnd|]. split; [|exact Hneed].
          intros x Hx. cbn [orem] in Hx. apply replace_list_elem in Hx.
          apply elem_of_list_fmap in Hx as (y & Hy & Hyin). rewrite Hy. apply Hdis. exact Hyin. }
        split; [reflexivity|].
        split. { intros k' Hk'. unfold rt_find_pure. cbn [main lo orem]. destruct (hel t !! k'); [reflexivity|].
                 f_equal. apply lookup_list_replace_ne. congruence. }
        split; [reflexivity|].
        split. { unfold rt_abs. cbn [main lo orem]. rewrite (list_to_emap_replace e') by exact Hkin. rewrite Hres.
                 symmetry. apply insert_union_r. exact Hnone. }
        split. { unfold rt_find_pure. cbn [main lo orem]. rewrite Hnone.
                 rewrite (lookup_list_nodup k _ e'); [reflexivity| | |exact Hres].
                 - rewrite replace_list_keys. exact Hnd.
                 - unfold replace_list. apply elem_of_list_In, List.in_map_iff. exists e. split; [|apply elem_of_list_In; exact Hin].
                   rewrite Hk, Hres, N.eqb_refl. reflexivity. }
        repeat split; reflexivity.
      * wp_steps. apply HQ. rewrite Hs2. unfold replace_post.
        split; [exact HI1|]. rewrite Hs1 in *. cbn [main lo ocnt]. split; [reflexivity|].
        split. { intros k' Hk'. unfold rt_find_pure. cbn [main lo orem]. destruct (hel t !! k'); [reflexivity|].
                 f_equal. apply lookup_list_remove_ne. exact Hk'. }
        split; [reflexivity|]. split; [exact Habs1|].
        split; [|intros _; lia].
        unfold rt_find_pure. cbn [main lo orem]. rewrite Hnone.
        destruct (lookup_list k (remove_list k (orem o))) as [x|] eqn:El; [|reflexivity].
        apply lookup_list_Some in El as [Hx Hkx]. apply remove_list_elem in Hx. tauto.
    + intros p s2 [Hs2 ->]. apply HU; rewrite Hs2; assumption.
Qed.

(* ---------------------------------------------------------------- shrink_to *)

(* with_capacity for a size whose bucket count is known to fit *)
Lemma hb_with_capacity_fits cap B (Q : option hb -> st -> Prop) (U : panic -> st -> Prop) s :
  0 < cap -> cap_to_buckets cap = Some B -> layout_ok ES B = true ->
  (forall t s', s_rt s' = s_rt s -> hel t = ∅ -> hn t = 0 -> hb_ok ES t -> hgl t = bcap B -> hB t = B -> Q (Some t) s') ->
  wp (hb_with_capacity c false cap) Q U s.
Proof.
  intros Hc EB EL HQ. unfold hb_with_capacity. destruct (N.eqb_spec cap 0); [lia|]. rewrite EB, EL.
  apply wp_bind. apply frame0_use; [apply frame0_tick|]. intros [] s' Hs. apply wp_ret.
  pose proof (cap_to_buckets_ge4 _ _ EB).
  apply HQ; [exact Hs|reflexivity|reflexivity|apply hb_ok_empty; [lia|right; exact EL]|reflexivity|reflexivity].
Qed.

Lemma hb_shrink_to_spec t m (Q : hb -> st -> Prop) (U : panic -> st -> Prop) s :
  hb_ok ES t ->
  (forall t' s', s_rt s' = s_rt s -> hb_ok ES t' -> hel t' = hel t -> hn t' = hn t -> hB t' <= hB t ->
                 (t' = t \/ N.max (hn t) m <= hgl t' + hn t) -> Q t' s') ->
  (forall s', s_rt s' = s_rt s -> U PUser s') ->
  wp (hb_shrink_to c t m) Q U s.
Proof.
  intros Hok HQ HU. pose proof Hok as (Hcap & Hn & Hkey & HB0 & HB1). unfold hb_shrink_to, hlen.
  destruct (N.eqb_spec (N.max (hn t) m) 0) as [Hz|Hz].
  - apply wp_bind. apply frame0_use; [apply frame0_hb_free|]. intros [] s1 Hs1. apply wp_ret.
    assert (Hem : hel t = ∅) by (apply map_size_empty_inv; lia).
    apply HQ; [exact Hs1|apply hb_ok_new|cbn; congruence|cbn; lia|cbn; lia|right; cbn; lia].
  - destruct (cap_to_buckets (N.max (hn t) m)) as [mb|] eqn:Emb.
    2:{ apply wp_ret. apply HQ; [reflexivity|exact Hok|reflexivity|reflexivity|lia|left; reflexivity]. }
    destruct (N.ltb_spec mb (hB t)) as [Hlt|Hge].
    2:{ apply wp_ret. apply HQ; [reflexivity|exact Hok|reflexivity|reflexivity|lia|left; reflexivity]. }
    assert (EL : layout_ok ES mb = true).
    { destruct HB1 as [H1|H1]; [pose proof (cap_to_buckets_ge4 _ _ Emb); lia|].
      apply (layout_ok_mono ES (hB t)); [lia|exact H1]. }
    apply wp_bind. apply (hb_with_capacity_fits _ mb); [lia|exact Emb|exact EL|].
    intros nt s1 Hs1 Hempty Hn0 Hnt Hgl HBnt.
    assert (Hbc : N.max (hn t) m <= bcap mb) by (apply bcap_cap_to_buckets; [lia|exact Emb]).
    apply wp_bind. apply wp_on_unwind. eapply frameU_use; [apply frame_rehash_all| |].
    + intros [] s2 Hs2. apply wp_bind. apply frame0_use; [apply frame0_hb_free|]. intros [] s3 Hs3.
      apply wp_ret. destruct Hnt as (_ & _ & _ & HBn0 & HBn1).
      apply HQ; [congruence| |reflexivity|reflexivity|cbn [hb_rebuilt hB]; lia|right; cbn [hb_rebuilt hgl]; rewrite HBnt; lia].
      split; [hl; rewrite HBnt; lia|]. split; [exact Hn|]. split; [exact Hkey|split; [exact HBn0|exact HBn1]].
    + intros p s2 Hs2 ->. apply frame0_use; [apply frame0_hb_free|]. intros [] s3 Hs3. apply HU. congruence.
Qed.

Definition shrink_post (r : rt) (m : N) (r' : rt) : Prop :=
  Inv R ES r' /\ rt_abs r' = rt_abs r /\ hB (main r') <= hB (main r) /\ hn (main r') = hn (main r) /\
  (* capacity() >= max(len(), min(m, previous capacity)) *)
  rt_len r' = rt_len r /\ rt_len r' <= rt_capacity r' /\ N.min m (rt_capacity r) <= rt_capacity r' /\
  (* an old table is kept unless it was already empty *)
  match lo r with
  | Some o => if ocnt o =? 0 then lo r' = None else lo r' = Some o
  | None => lo r' = None
  end.

Lemma Inv_cap_ge_len r : Inv R ES r -> rt_len r <= rt_capacity r.
Proof.
  intros (HR & _ & Ho). unfold rt_len, rt_capacity. destruct (lo r) as [o|]; [|lia].
  destruct Ho as (_ & _ & _ & _ & Hneed). pose proof (need_ge (olen o) R HR). lia.
Qed.

Lemma rt_shrink_to_spec m (Q : unit -> st -> Prop) (U : panic -> st -> Prop) s :
  Inv R ES (s_rt s) ->
  (forall s', shrink_post (s_rt s) m (s_rt s') -> Q tt s') ->
  (forall s', Inv R ES (s_rt s') -> rt_abs (s_rt s') = rt_abs (s_rt s) -> U PUser s') ->
  wp (rt_shrink_to c m) Q U s.
Proof.
  intros HI HQ HU. pose proof HI as (HR & Hok & Ho). unfold rt_shrink_to. wp_steps.
  destruct (s_rt s) as [t lo0] eqn:Ert. cbn [main lo] in *.
  (* an emptied old table is released first *)
  assert (Hpre : forall (Q' : unit -> st -> Prop), 
     (forall s1, (s_rt s1 = RT t (match lo0 with Some o => if ocnt o =? 0 then None else Some o | None => None end)) -> Q' tt s1) ->
     wp (when (match lo0 with Some o => olen o =? 0 | None => false end) free_old) Q' U s).
  { intros Q' HQ'. destruct lo0 as [o|]; cbn [when].
    - unfold olen. destruct (N.eqb_spec (ocnt o) 0); cbn [when].
      + apply free_old_spec. intros s1 Hs1. apply HQ'. rewrite Hs1, Ert. reflexivity.
      + apply wp_ret. apply HQ'. exact Ert.
    - apply wp_ret. apply HQ'. exact Ert. }
  apply Hpre. clear Hpre. intros s1 Hs1. wp_steps. rewrite Hs1. cbn [main lo].
  set (lo1 := match lo0 with Some o => if ocnt o =? 0 then None else Some o | None => None end) in *.
  assert (Ho1 : match lo1 with Some o => old_ok R t o /\ 0 < ocnt o /\ lo0 = Some o | None => True end).
  { unfold lo1. destruct lo0 as [o|]; [|exact I]. destruct (N.eqb_spec (ocnt o) 0); [exact I|]. repeat split; try apply Ho; lia. }
  assert (Habs1 : rt_abs (RT t lo1) = rt_abs (RT t lo0)).
  { unfold lo1. destruct lo0 as [o|]; [|reflexivity]. destruct (N.eqb_spec (ocnt o) 0) as [Hz|Hz]; [|reflexivity].
    destruct Ho as (_ & Hc & _). assert (orem o = []) by (apply ocnt_0; [exact Hc|exact Hz]).
    unfold rt_abs. cbn [main lo]. rewrite H. reflexivity. }
  assert (Hlen1 : rt_len (RT t lo1) = rt_len (RT t lo0)).
  { unfold lo1, rt_len. cbn [main lo]. destruct lo0 as [o|]; [|reflexivity]. unfold olen. destruct (N.eqb_spec (ocnt o) 0); lia. }
  apply hb_shrink_to_spec; [exact Hok| |].
  - intros t' s2 Hs2 Hok' Hel' Hn' HB' Hcase. wp_steps. apply HQ. cbn [set_rt s_rt]. rewrite Hs2, Hs1. cbn [lo].
    assert (HI' : Inv R ES (RT t' lo1)).
    { split; [exact HR|]. split; [exact Hok'|]. cbn [main lo]. destruct lo1 as [o|]; [|exact I].
      destruct Ho1 as ((Hit & Hc & Hnd & Hdis & Hneed) & Hpos & _).
      split; [exact Hit|]. split; [exact Hc|]. split; [exact Hnd|]. split; [intros x Hx; rewrite Hel'; apply Hdis; exact Hx|].
      destruct Hcase as [->|Hcase]; [exact Hneed|]. unfold olen in *. rewrite need_pos by lia. unfold hlen in Hcase. lia. }
    unfold shrink_post. cbn [main lo]. split; [exact HI'|].
    split. { rewrite <- Habs1. unfold rt_abs. cbn [main lo]. rewrite Hel'. reflexivity. }
    split; [exact HB'|]. split; [exact Hn'|].
    assert (Hlen' : rt_len (RT t' lo1) = rt_len (RT t lo0)).
    { rewrite <- Hlen1. unfold rt_len, hlen. cbn [main lo]. rewrite Hn'. reflexivity. }
    split; [exact Hlen'|]. split; [apply Inv_cap_ge_len; exact HI'|].
    split.
    { unfold rt_capacity, hlen. cbn [main]. destruct Hcase as [->|Hcase]; [lia|]. 
      unfold hlen in Hcase. lia. }
    unfold lo1. destruct lo0 as [o|]; [|reflexivity]. destruct (ocnt o =? 0); reflexivity.
  - intros s2 Hs2. apply HU; rewrite Hs2, Hs1.
    + split; [exact HR|]. split; [exact Hok|]. cbn [main lo]. destruct lo1 as [o|]; [|exact I]. apply Ho1.
    + exact Habs1.
Qed.


(* ---------------------------------------------------------------- carry_all and reserve *)

Definition carry_all_Q (r r' : rt) : Prop :=
  Inv R ES r' /\ rt_abs r' = rt_abs r /\ lo r' = None /\ hB (main r') = hB (main r) /\
  hgl (main r') <= hgl (main r) /\
  match lo r with
  | Some o => hn (main r') = hn (main r) + ocnt o /\ hgl (main r) <= hgl (main r') + ocnt o
  | None => False
  end.

Lemma carry_all_loop_spec fuel : forall s o,
  Inv R ES (s_rt s) -> lo (s_rt s) = Some o -> ocnt o < N.of_nat fuel ->
  wp (carry_all_loop c fuel) (fun _ s' => carry_all_Q (s_rt s) (s_rt s')) (carry_U (s_rt s)) s.
Proof.
  induction fuel as [|fuel IH]; intros s o HI Hlo Hfuel; [lia|].
  pose proof HI as (HR & Hok & Ho). rewrite Hlo in Ho.
  cbn [carry_all_loop]. destruct (s_rt s) as [t lo0] eqn:Ert. cbn [lo main] in *. subst lo0.
  destruct o as [B l i n]. destruct Ho as (Hit & Hc & Hnd & Hdis & Hneed). unfold olen in *. cbn [oit orem ocnt] in *.
  apply wp_bind. unfold old_pop. wp_steps. rewrite Ert. cbn [lo oit orem oB ocnt].
  destruct (N.eqb_spec i 0) as [Hi|Hi].
  - apply wp_ret. apply free_old_spec. intros s' Hs'. rewrite Ert in Hs'. cbn [main] in Hs'.
    assert (Hnil : l = []) by (destruct l; [reflexivity|cbn [length] in Hc; lia]). subst l.
    unfold carry_all_Q. rewrite Hs'. cbn [main lo ocnt].
    split; [split; [exact HR|split; [exact Hok|exact I]]|]. split; [reflexivity|]. repeat split; lia.
  - destruct l as [|e l]; [cbn [length] in Hc; lia|].
    wp_steps. cbn [set_rt s_rt]. rewrite Ert. cbn [main].
    set (s1 := set_rt (RT t (Some (Old B l (i - 1) (n - 1)))) s).
    apply frame0_use; [apply frame0_tick|]. intros [] s2 Hs2.
    assert (Hnd' : NoDup (map ek l)) by (cbn in Hnd; apply NoDup_cons in Hnd; tauto).
    assert (He : hel t !! ek e = None) by (apply Hdis; left).
    assert (Hel : forall x, x ∈ l -> ek x <> ek e).
    { intros x Hx Heq. cbn in Hnd. apply NoDup_cons in Hnd as [Hnin _]. apply Hnin.
      rewrite <- Heq. apply elem_of_list_fmap. exists x. auto. }
    assert (Hn1 : n = (n - 1) + 1 /\ n - 1 = N.of_nat (length l)) by (cbn [length] in Hc; lia).
    destruct Hn1 as [Hn1 Hc'].
    pose proof (need_pred n R HR ltac:(lia)) as Hpred.
    pose proof (need_ge1 (n - 1) R HR) as Hge1.
    assert (Hgl1 : 0 < hgl t) by lia.
    apply wp_bind. apply wp_on_unwind. eapply frameU_use; [apply frame_tick_hash| |].
    + intros [] s3 Hs3. apply wp_bind. unfold main_insert. wp_steps.
      rewrite Hs3, Hs2. cbn [s1 set_rt s_rt main].
      apply hb_insert_room_spec; [exact Hok|exact He|exact Hgl1|].
      intros t' s4 Hs4 Hok' Hel' Hn' HB' Hle Hge.
      wp_steps. cbn [set_rt s_rt]. rewrite Hs4, Hs3, Hs2. cbn [s1 set_rt s_rt main lo].
      set (s5 := set_rt _ s4).
      eapply wp_conseq; [apply (IH s5 (Old B l (i - 1) (n - 1)))| |].
      * cbn [s5 set_rt s_rt]. split; [exact HR|]. split; [exact Hok'|]. cbn [lo main].
        split; [cbn [oit ocnt olen]; unfold olen; cbn [ocnt]; lia|]. split; [exact Hc'|]. split; [exact Hnd'|].
        split; [|unfold olen; cbn [ocnt]; lia].
        intros x Hx. rewrite Hel'.
        rewrite lookup_insert_ne by (apply not_eq_sym, Hel; exact Hx). apply Hdis. right. exact Hx.
      * reflexivity.
      * cbn [ocnt]. lia.
      * intros [] s6 HQ. unfold carry_all_Q in *. cbn [s5 set_rt s_rt main lo ocnt] in HQ.
        destruct HQ as (HI6 & Habs6 & Hlo6 & HB6 & Hgl6 & Hn6 & Hgl6').
        split; [exact HI6|]. split.
        { rewrite Habs6. destruct t' as [B' g' n' m']. cbn in Hel', HB'. subst m' B'. apply abs_pop. exact He. }
        cbn [main lo ocnt]. repeat split; try assumption; try lia; congruence.
      * intros p s6 (HI6 & -> & Hsub). split; [exact HI6|]. split; [reflexivity|].
        etransitivity; [exact Hsub|]. cbn [s5 set_rt s_rt].
        destruct t' as [B' g' n' m']. cbn in Hel', HB'. subst m' B'.
        rewrite (abs_pop t B e l g' n' (i - 1) (n - 1) i n) by exact He. reflexivity.
    + intros p s3 Hs3 ->. apply frame0_use; [apply frame0_drop_elem|]. intros [] s4 Hs4.
      unfold carry_U. rewrite Hs4, Hs3, Hs2. cbn [s1 set_rt s_rt].
      split.
      { split; [exact HR|]. split; [exact Hok|]. cbn [lo main].
        split; [cbn [oit ocnt olen]; unfold olen; cbn [ocnt]; lia|]. split; [exact Hc'|]. split; [exact Hnd'|].
        split; [intros x Hx; apply Hdis; right; exact Hx|unfold olen; cbn [ocnt]; lia]. }
      split; [reflexivity|].
      unfold rt_abs. cbn [main lo orem]. rewrite list_to_emap_cons.
      apply map_union_mono_l. apply insert_subseteq.
      rewrite list_to_emap_lookup by exact Hnd'.
      destruct (lookup_list (ek e) l) as [x|] eqn:Ex; [|reflexivity].
      apply lookup_list_Some in Ex as [Hx Hk]. exfalso. eapply Hel; eauto.
Qed.


Lemma rt_carry_all_spec s o :
  Inv R ES (s_rt s) -> lo (s_rt s) = Some o ->
  wp (rt_carry_all c) (fun _ s' => carry_all_Q (s_rt s) (s_rt s')) (carry_U (s_rt s)) s.
Proof.
  intros HI Hlo. unfold rt_carry_all. wp_steps. rewrite Hlo.
  apply (carry_all_loop_spec _ s o); [exact HI|exact Hlo|].
  destruct HI as (_ & _ & Ho). rewrite Hlo in Ho. destruct Ho as (Hit & _). unfold olen in Hit. lia.
Qed.

(* reserve / try_reserve.  Ok(()) means: the next [additional] insertions of new keys fit *)
Definition reserve_post (r : rt) (additional : N) (r' : rt) : Prop :=
  Inv R ES r' /\ rt_abs r' = rt_abs r /\
  match lo r' with
  | Some o' => ocnt o' + additional < hgl (main r') \/ need (ocnt o') R + additional <= hgl (main r')
  | None => additional <= hgl (main r')
  end.

Definition reserve_U (r : rt) (p : panic) (s' : st) : Prop :=
  Inv R ES (s_rt s') /\ (p = PUser \/ p = PCapOverflow) /\ rt_abs (s_rt s') ⊆ rt_abs r /\
  (p = PCapOverflow -> rt_abs (s_rt s') = rt_abs r).

Lemma rt_reserve_spec fallible additional (Q : bool -> st -> Prop) (U : panic -> st -> Prop) s :
  Inv R ES (s_rt s) -> additional <= usize_max ->
  (forall s', reserve_post (s_rt s) additional (s_rt s') -> Q true s') ->
  (forall s', fallible = true -> Inv R ES (s_rt s') -> rt_abs (s_rt s') = rt_abs (s_rt s) -> Q false s') ->
  (forall p s', reserve_U (s_rt s) p s' -> (p = PCapOverflow -> fallible = false) -> U p s') ->
  wp (rt_reserve c fallible additional) Q U s.
Proof.
  intros HI Hadd HT HF HU. pose proof HI as (HR & Hok & Ho). unfold rt_reserve. wp_steps.
  pose proof (hb_ok_gl_bound _ _ Hok) as [Hglb Hnb].
  set (on := match lo (s_rt s) with Some o => olen o | None => 0 end).
  destruct (N.ltb_spec (sat_add on additional) (hgl (main (s_rt s)))) as [Hfit|Hnofit].
  - (* fits without resizing *)
    apply wp_ret. apply HT. unfold reserve_post. split; [exact HI|]. split; [reflexivity|].
    assert (Hns : sat_add on additional = on + additional).
    { pose proof isize_lt_usize. unfold sat_add in *. lia. }
    unfold on in *. destruct (lo (s_rt s)) as [o|]; unfold olen in *; [left|]; lia.
  - (* finish the pending move, then grow *)
    assert (Hgrow : forall s1, Inv R ES (s_rt s1) -> lo (s_rt s1) = None -> rt_abs (s_rt s1) = rt_abs (s_rt s) ->
              wp (if fallible then rt_try_grow c true additional else bind (rt_grow c additional) (fun _ => ret true)) Q U s1).
    { intros s1 HI1 Hlo1 Habs1. destruct fallible.
      - apply rt_try_grow_spec; [exact HI1|exact Hlo1| | |].
        + intros s2 (HI2 & Habs2 & _ & _ & _ & Hsum & Hl0 & Hl1). apply HT. split; [exact HI2|]. split; [congruence|].
          destruct (N.eq_dec (hn (main (s_rt s1))) 0) as [Hz|Hz].
          * rewrite (Hl0 Hz). lia.
          * destruct Hl1 as (o2 & -> & Hc2 & _); [lia|]. right. rewrite Hc2. rewrite need_pos by lia. lia.
        + intros s2 _ Hs2. apply HF; [reflexivity|rewrite Hs2; exact HI1|rewrite Hs2; exact Habs1].
        + discriminate.
      - apply wp_bind. apply rt_grow_spec; [exact HI1|exact Hlo1| |].
        + intros s2 (HI2 & Habs2 & _ & _ & _ & Hsum & Hl0 & Hl1). apply wp_ret. apply HT. split; [exact HI2|]. split; [congruence|].
          destruct (N.eq_dec (hn (main (s_rt s1))) 0) as [Hz|Hz].
          * rewrite (Hl0 Hz). lia.
          * destruct Hl1 as (o2 & -> & Hc2 & _); [lia|]. right. rewrite Hc2. rewrite need_pos by lia. lia.
        + intros s2 Hs2. apply HU; [|reflexivity]. split; [rewrite Hs2; exact HI1|]. split; [right; reflexivity|].
          split; [rewrite Hs2, Habs1; reflexivity|intros _; rewrite Hs2; exact Habs1]. }
    destruct (lo (s_rt s)) as [o|] eqn:Hlo; cbn [is_some_b when].
    + apply wp_bind. eapply wp_conseq; [apply (rt_carry_all_spec s o HI Hlo)| |].
      * intros [] s1 (HI1 & Habs1 & Hlo1 & _). apply Hgrow; assumption.
      * intros p s1 (HI1 & -> & Hsub). apply HU; [|discriminate]. split; [exact HI1|]. split; [left; reflexivity|].
        split; [exact Hsub|discriminate].
    + apply wp_bind. apply wp_ret. apply Hgrow; [exact HI|exact Hlo|reflexivity].
Qed.

End Proofs.
