(* RawProofs.v — every function of Raw.v preserves the two-table invariant, never reaches a
   Fault (other than an infeasible oracle), and refines the abstract contents. *)
From stdpp Require Import gmap list.
From Coq Require Import NArith Lia.
From G Require Import Arith Monad Types Inv Raw.
Local Open Scope N_scope.

Ltac wp_step :=
  lazymatch goal with
  | |- wp (bind _ _) _ _ _ => apply wp_bind
  | |- wp (ret _) _ _ _ => apply wp_ret
  | |- wp (gets _) _ _ _ => apply wp_gets
  | |- wp get _ _ _ => apply wp_get
  | |- wp (put _) _ _ _ => apply wp_put
  | |- wp (modify _) _ _ _ => apply wp_modify
  | |- wp (unwind _) _ _ _ => apply wp_unwind
  | |- wp (fault_ FOracle) _ _ _ => apply wp_oracle
  | |- wp (fault_ FBadOp) _ _ _ => apply wp_badop
  | |- wp getm _ _ _ => unfold getm; apply wp_gets
  | |- wp getlo _ _ _ => unfold getlo; apply wp_gets
  | |- wp (setm _) _ _ _ => unfold setm; apply wp_modify
  | |- wp (setlo _) _ _ _ => unfold setlo; apply wp_modify
  end.
Ltac wp_steps := repeat wp_step.
Ltac hl := unfold hlen, olen, hb_ins, hb_del, hb_upd, hb_rebuilt, hb_empty in *; cbn [hgl hB hn hel orem oit ocnt oB main lo] in *.

(* what a panic may be, and that it leaves a state satisfying I *)
Definition upost (I : rt -> Prop) : panic -> st -> Prop :=
  fun p s' => I (s_rt s') /\ (p = PUser \/ p = PCapOverflow).

(* an action that does not touch the tables and can only panic with a p satisfying P *)
Definition frameU (P : panic -> Prop) {A} (m : M' A) : Prop :=
  forall s, wp m (fun _ s' => s_rt s' = s_rt s) (fun p s' => s_rt s' = s_rt s /\ P p) s.
Notation frame0 := (frameU (fun _ => False)).
Notation frame := (frameU (fun p => p = PUser)).

Lemma frameU_use P {A} (m : M' A) (Q : A -> st -> Prop) (U : panic -> st -> Prop) s :
  frameU P m ->
  (forall a s', s_rt s' = s_rt s -> Q a s') ->
  (forall p s', s_rt s' = s_rt s -> P p -> U p s') ->
  wp m Q U s.
Proof.
  intros Hf HQ HU. eapply wp_conseq; [apply Hf| |].
  - intros a s' H. apply HQ. exact H.
  - intros p s' [H Hp]. apply HU; assumption.
Qed.
Lemma frame0_use {A} (m : M' A) (Q : A -> st -> Prop) (U : panic -> st -> Prop) s :
  frame0 m -> (forall a s', s_rt s' = s_rt s -> Q a s') -> wp m Q U s.
Proof. intros Hf HQ. eapply frameU_use; [exact Hf|exact HQ|]. intros ? ? ? []. Qed.
Lemma frame_use {A} (m : M' A) (Q : A -> st -> Prop) (U : panic -> st -> Prop) s :
  frame m -> (forall a s', s_rt s' = s_rt s -> Q a s') -> (forall s', s_rt s' = s_rt s -> U PUser s') ->
  wp m Q U s.
Proof. intros Hf HQ HU. eapply frameU_use; [exact Hf|exact HQ|]. intros ? ? ? ->. auto. Qed.

Lemma frameU_weaken (P P' : panic -> Prop) {A} (m : M' A) : (forall p, P p -> P' p) -> frameU P m -> frameU P' m.
Proof. intros HP Hf s. eapply wp_conseq; [apply Hf| |]; cbn; intros; intuition. Qed.
Lemma frame0_frame {A} (m : M' A) : frame0 m -> frame m.
Proof. apply frameU_weaken. intros ? []. Qed.

Lemma frameU_ret P {A} (a : A) : frameU P (ret a).
Proof. intros s. apply wp_ret. reflexivity. Qed.

Lemma frameU_bind P {A B} (m : M' A) (f : A -> M' B) : frameU P m -> (forall a, frameU P (f a)) -> frameU P (bind m f).
Proof.
  intros Hm Hf s. apply wp_bind. eapply frameU_use; [exact Hm| |].
  - intros a s' Hs. eapply wp_conseq; [apply Hf| |]; cbn; intros; intuition congruence.
  - intros p s' Hs Hp. split; assumption.
Qed.

Lemma frame0_tick f : frame0 (tick f).
Proof. intros s. unfold tick. apply wp_modify. reflexivity. Qed.

Lemma frame_cb : frame cb.
Proof.
  intros s. unfold cb. apply wp_bind. apply frame0_use; [apply frame0_tick|].
  intros [] s1 H1. apply wp_bind. apply wp_get.
  destruct (s_fuse s1) as [n|]; [|apply wp_ret; exact H1].
  destruct (n =? 0).
  - apply wp_bind. apply wp_put. apply wp_unwind. split; [exact H1|reflexivity].
  - apply wp_put. exact H1.
Qed.

Lemma frame_tick_hash : frame tick_hash.
Proof. apply frameU_bind; [apply frame0_frame, frame0_tick|intros _; apply frame_cb]. Qed.

Lemma frame0_drop_elem e : frame0 (drop_elem e).
Proof. apply frameU_bind; [apply frame0_tick|intros _; apply frame0_tick]. Qed.

Lemma frameU_iterM P {A} (f : A -> M' unit) l : (forall a, frameU P (f a)) -> frameU P (iterM f l).
Proof.
  intros Hf. induction l as [|a l IH]; cbn [iterM]; [apply frameU_ret|].
  apply frameU_bind; [apply Hf|intros _; exact IH].
Qed.

Lemma frame0_drop_elems l : frame0 (drop_elems l).
Proof. apply frameU_iterM. apply frame0_drop_elem. Qed.

Lemma frameU_when P b (m : M' unit) : frameU P m -> frameU P (when b m).
Proof. destruct b; cbn; [auto|intros _; apply frameU_ret]. Qed.

Lemma frameU_on_unwind P {A} (m : M' A) h : frameU P m -> frame0 h -> frameU P (on_unwind m h).
Proof.
  intros Hm Hh s. apply wp_on_unwind. eapply wp_conseq; [apply Hm| |]; cbn.
  - auto.
  - intros p s' [Hs Hp]. apply frame0_use; [exact Hh|]. intros [] s'' Hs''. split; [congruence|exact Hp].
Qed.

Lemma frame0_hb_free t : frame0 (hb_free t).
Proof. apply frameU_when. apply frame0_tick. Qed.

Lemma frame_rehash_all l : frame (rehash_all l).
Proof. apply frameU_iterM. intros _. apply frame_tick_hash. Qed.

Lemma take_bit_rt (Q : bool -> st -> Prop) (U : panic -> st -> Prop) s :
  (forall b s', s_rt s' = s_rt s -> Q b s') -> wp take_bit Q U s.
Proof.
  intros HQ. unfold take_bit. apply wp_bind, wp_get. destruct (s_on s =? 0); [apply wp_ret; auto|].
  apply wp_bind, wp_put. apply wp_ret. auto.
Qed.
Lemma take_tomb_rt (Q : bool -> st -> Prop) (U : panic -> st -> Prop) s :
  (forall b s', s_rt s' = s_rt s -> Q b s') -> wp take_tomb Q U s.
Proof.
  intros HQ. unfold take_tomb. apply wp_bind, wp_get. destruct (s_tomb s =? 0); [apply wp_ret; auto|].
  apply wp_bind, wp_put. apply wp_ret. auto.
Qed.

Section Proofs.
Context (c : cfg).
Notation R := (cR c).

(* ---------------------------------------------------------------- hashbrown contract *)

Lemma hb_with_capacity_spec fallible cap (Q : option hb -> st -> Prop) (U : panic -> st -> Prop) s :
  (forall t s', s_rt s' = s_rt s -> hel t = ∅ -> hb_ok t -> hgl t = bcap (hB t) -> cap <= hgl t -> Q (Some t) s') ->
  (fallible = true -> Q None s) ->
  (fallible = false -> U PCapOverflow s) ->
  wp (hb_with_capacity c fallible cap) Q U s.
Proof.
  intros HS HN HU. unfold hb_with_capacity. destruct (N.eqb_spec cap 0) as [->|Hc].
  - apply wp_ret. apply HS; [reflexivity|reflexivity|apply hb_ok_new|reflexivity|cbn; lia].
  - destruct (cap_to_buckets cap) as [B|] eqn:EB.
    + destruct (layout_ok (cesz c) B).
      * apply wp_bind. apply frame0_use; [apply frame0_tick|].
        intros [] s' Hs. apply wp_ret. apply HS; [exact Hs|reflexivity|apply hb_ok_empty|reflexivity|].
        cbn [hb_empty hgl hB]. apply bcap_cap_to_buckets; [lia|exact EB].
      * destruct fallible; [apply wp_ret; auto|apply wp_unwind; auto].
    + destruct fallible; [apply wp_ret; auto|apply wp_unwind; auto].
Qed.


Lemma hb_ok_insert t e g :
  hb_ok t -> hel t !! ek e = None -> g + hn t + 1 <= bcap (hB t) ->
  hb_ok (hb_ins t e g).
Proof.
  intros (Hcap & Hn & Hkey) Hnone Hg. split; [|split].
  - hl. lia.
  - hl. rewrite size_insert_None by exact Hnone. lia.
  - intros k e'. hl. destruct (N.eq_dec k (ek e)) as [->|Hne].
    + rewrite lookup_insert. intros [= <-]. reflexivity.
    + rewrite lookup_insert_ne by congruence. apply Hkey.
Qed.

Lemma hb_put_spec t e reuse (Q : hb -> st -> Prop) (U : panic -> st -> Prop) s :
  hb_ok t -> hel t !! ek e = None -> (reuse = false -> 0 < hgl t) ->
  (forall t', hb_ok t' -> hel t' = <[ek e := e]> (hel t) -> hB t' = hB t -> hn t' = hn t + 1 ->
              hgl t' <= hgl t -> hgl t <= hgl t' + 1 -> Q t' s) ->
  wp (hb_put t e reuse) Q U s.
Proof.
  intros Hok Hnone Hgl HQ. unfold hb_put. destruct reuse.
  - destruct (N.eqb_spec (hb_tombs t) 0) as [Hz|Hz]; [apply wp_oracle|].
    apply wp_ret. apply HQ; try reflexivity; [|cbn; lia].
    apply hb_ok_insert; [exact Hok|exact Hnone|]. unfold hb_tombs, hlen in Hz. lia.
  - destruct (N.eqb_spec (hgl t) 0) as [Hz|Hz]; [specialize (Hgl eq_refl); lia|].
    apply wp_ret. apply HQ; try reflexivity; [|cbn; lia|cbn; lia].
    apply hb_ok_insert; [exact Hok|exact Hnone|]. destruct Hok as [Hcap _]. lia.
Qed.

Lemma hb_insert_no_grow_spec t e (Q : hb -> st -> Prop) (U : panic -> st -> Prop) s :
  hb_ok t -> hel t !! ek e = None -> 0 < hgl t ->
  (forall t' s', s_rt s' = s_rt s -> hb_ok t' -> hel t' = <[ek e := e]> (hel t) -> hB t' = hB t ->
                 hn t' = hn t + 1 -> hgl t' <= hgl t -> hgl t <= hgl t' + 1 -> Q t' s') ->
  wp (hb_insert_no_grow t e) Q U s.
Proof.
  intros Hok Hnone Hgl HQ. unfold hb_insert_no_grow. rewrite Hnone.
  apply wp_bind. apply take_bit_rt. intros b s' Hs.
  apply hb_put_spec; [exact Hok|exact Hnone|intros _; exact Hgl|].
  intros t' H1 H2 H3 H4 H5 H6. apply HQ; assumption.
Qed.

Lemma hb_reserve_rehash1_spec t (Q : hb -> st -> Prop) (U : panic -> st -> Prop) s :
  hb_ok t ->
  (forall t' s', s_rt s' = s_rt s -> hb_ok t' -> hel t' = hel t -> hn t' = hn t -> 0 < hgl t' -> Q t' s') ->
  (forall p s', s_rt s' = s_rt s -> p = PUser \/ p = PCapOverflow -> U p s') ->
  wp (hb_reserve_rehash1 c t) Q U s.
Proof.
  intros (Hcap & Hn & Hkey) HQ HU. unfold hb_reserve_rehash1.
  destruct (N.leb_spec (hlen t + 1) (bcap (hB t) / 2)) as [Hhalf|Hhalf].
  - apply wp_bind. apply frame_use; [apply frame_rehash_all| |].
    + intros [] s' Hs. apply wp_ret. apply HQ; [exact Hs| |reflexivity|reflexivity|].
      * split; [hl; lia|split; [exact Hn|exact Hkey]].
      * assert (bcap (hB t) / 2 <= bcap (hB t)) by (apply N.div_le_upper_bound; lia). hl. lia.
    + intros s' Hs. apply HU; auto.
  - apply wp_bind. apply hb_with_capacity_spec.
    + intros nt s1 Hs1 Hempty Hnt Hntgl Hge.
      apply wp_bind. apply wp_on_unwind.
      eapply frameU_use; [apply frame_rehash_all| |].
      * intros [] s2 Hs2. apply wp_bind. apply frame0_use; [apply frame0_hb_free|].
        intros [] s3 Hs3. apply wp_ret. apply HQ; [congruence| |reflexivity|reflexivity|].
        -- split; [|split; [exact Hn|exact Hkey]]. hl. lia.
        -- hl. lia.
      * intros p s2 Hs2 ->. apply frame0_use; [apply frame0_hb_free|].
        intros [] s3 Hs3. apply HU; [congruence|auto].
    + discriminate.
    + intros _. apply HU; auto.
Qed.

Lemma hb_insert_spec t e (Q : hb -> st -> Prop) (U : panic -> st -> Prop) s :
  hb_ok t -> hel t !! ek e = None ->
  (forall t' s', s_rt s' = s_rt s -> hb_ok t' -> hel t' = <[ek e := e]> (hel t) -> hn t' = hn t + 1 ->
                 (0 < hgl t -> hB t' = hB t /\ hgl t' <= hgl t /\ hgl t <= hgl t' + 1) -> Q t' s') ->
  (forall p s', s_rt s' = s_rt s -> p = PUser \/ p = PCapOverflow -> U p s') ->
  wp (hb_insert c t e) Q U s.
Proof.
  intros Hok Hnone HQ HU. unfold hb_insert. rewrite Hnone.
  apply wp_bind. apply take_bit_rt. intros b s1 Hs1.
  destruct (negb b && (hgl t =? 0)) eqn:Eg.
  - apply andb_prop in Eg as [Eb Ez]. apply N.eqb_eq in Ez.
    apply wp_bind. apply wp_on_unwind. apply hb_reserve_rehash1_spec; [exact Hok| |].
    + intros t1 s2 Hs2 Hok1 Hel1 Hn1 Hgl1.
      apply hb_put_spec; [exact Hok1|rewrite Hel1; exact Hnone|intros _; exact Hgl1|].
      intros t' H1 H2 H3 H4 H5 H6. apply HQ; [congruence|exact H1|rewrite H2, Hel1; reflexivity|lia|lia].
    + intros p s2 Hs2 Hp. apply frame0_use; [apply frame0_drop_elem|].
      intros [] s3 Hs3. apply HU; [congruence|exact Hp].
  - apply hb_put_spec; [exact Hok|exact Hnone| |].
    + intros ->. cbn in Eg. destruct (N.eqb_spec (hgl t) 0); [discriminate|lia].
    + intros t' H1 H2 H3 H4 H5 H6. apply HQ; [exact Hs1|exact H1|exact H2|exact H4|intros _; auto].
Qed.

Lemma hb_remove_spec t k e (Q : elem * hb -> st -> Prop) (U : panic -> st -> Prop) s :
  hb_ok t -> hel t !! k = Some e ->
  (forall t' s', s_rt s' = s_rt s -> hb_ok t' -> hel t' = delete k (hel t) -> hB t' = hB t ->
                 hn t' + 1 = hn t -> hgl t <= hgl t' -> hgl t' <= hgl t + 1 -> Q (e, t') s') ->
  wp (hb_remove t k) Q U s.
Proof.
  intros (Hcap & Hn & Hkey) Hsome HQ. unfold hb_remove. rewrite Hsome.
  apply wp_bind. apply take_tomb_rt. intros b s' Hs. apply wp_ret.
  pose proof (size_delete_Some (hel t) k e Hsome) as Hlen.
  apply HQ; [exact Hs| |reflexivity|reflexivity|hl; lia|destruct b; cbn; lia|destruct b; cbn; lia].
  split; [|split].
  - hl. destruct b; lia.
  - hl. lia.
  - intros j e'. hl. intros H. apply lookup_delete_Some in H as [_ H]. apply Hkey. exact H.
Qed.


(* ---------------------------------------------------------------- the old table *)

(* old_ok without the headroom clause *)
Definition old_pre (t : hb) (o : old) : Prop :=
  oit o = ocnt o /\ ocnt o = N.of_nat (length (orem o)) /\
  NoDup (map ek (orem o)) /\ (forall e, e ∈ orem o -> hel t !! ek e = None).

Lemma old_ok_pre t o : old_ok R t o -> old_pre t o.
Proof. intros (H1 & H2 & H3 & H4 & _). repeat split; assumption. Qed.

Lemma old_pre_ok t o : old_pre t o -> need (ocnt o) R <= hgl t -> old_ok R t o.
Proof. intros (H1 & H2 & H3 & H4) H5. repeat split; assumption. Qed.

Notation with_lo r o := (RT (main r) o) (only parsing).
Notation with_main r t := (RT t (lo r)) (only parsing).

Lemma free_old_spec (Q : unit -> st -> Prop) (U : panic -> st -> Prop) s :
  (forall s', s_rt s' = with_lo (s_rt s) None -> Q tt s') -> wp free_old Q U s.
Proof.
  intros HQ. unfold free_old. wp_steps. destruct (lo (s_rt s)) as [o|] eqn:E.
  - wp_steps. apply frame0_use; [apply frame0_drop_elems|]. intros [] s1 Hs1.
    apply frame0_use; [apply frame0_tick|]. intros [] s2 Hs2. apply HQ. rewrite Hs2, Hs1. reflexivity.
  - wp_steps. apply HQ. rewrite <- E. destruct (s_rt s); reflexivity.
Qed.

Lemma abs_pop t B e r g n i1 c1 i2 c2 :
  hel t !! ek e = None ->
  rt_abs (RT (HB (hB t) g n (<[ek e := e]> (hel t))) (Some (Old B r i1 c1)))
  = rt_abs (RT t (Some (Old B (e :: r) i2 c2))).
Proof.
  intros Hnone. unfold rt_abs. cbn [main lo hel orem]. rewrite list_to_emap_cons.
  rewrite <- insert_union_l. rewrite <- insert_union_r by exact Hnone. reflexivity.
Qed.

(* budget for [fuel] more moves with n elements left *)
Definition budget (fuel n gl : N) : Prop :=
  N.min fuel n + (if fuel <? n then need (n - fuel) R else 0) <= gl.

Lemma budget_of_need n gl : 0 < R -> need n R <= gl + 1 -> 0 < n -> budget R n gl.
Proof.
  intros HR Hn Hpos. unfold budget. destruct (N.ltb_spec R n) as [Hlt|Hge].
  - rewrite (need_step n R) in Hn by lia. lia.
  - rewrite (need_small n R) in Hn by lia. lia.
Qed.

Lemma budget_of_need' n gl : 0 < R -> need n R <= gl -> budget R n gl.
Proof.
  intros HR Hn. destruct (N.eq_dec n 0) as [->|Hne].
  - unfold budget. rewrite N.min_0_r. destruct (N.ltb_spec R 0); lia.
  - apply budget_of_need; lia.
Qed.

Definition carry_Q (r : rt) (fuel : N) (r' : rt) : Prop :=
  Inv R r' /\ rt_abs r' = rt_abs r /\ hB (main r') = hB (main r) /\
  hgl (main r') <= hgl (main r) /\
  match lo r with
  | Some o =>
      hgl (main r) <= hgl (main r') + N.min fuel (ocnt o) /\
      hn (main r') = hn (main r) + N.min fuel (ocnt o) /\
      match lo r' with
      | Some o' => ocnt o' + N.min fuel (ocnt o) = ocnt o /\ fuel < ocnt o /\ oB o' = oB o
      | None => ocnt o <= fuel
      end
  | None => False
  end.
Definition carry_U (r : rt) (p : panic) (s' : st) : Prop :=
  Inv R (s_rt s') /\ p = PUser /\ rt_abs (s_rt s') ⊆ rt_abs r.

Lemma carry_loop_spec fuel : forall s o,
  0 < R -> N.of_nat fuel <= R ->
  lo (s_rt s) = Some o -> hb_ok (main (s_rt s)) -> old_pre (main (s_rt s)) o ->
  budget (N.of_nat fuel) (ocnt o) (hgl (main (s_rt s))) ->
  wp (carry_loop fuel) (fun _ s' => carry_Q (s_rt s) (N.of_nat fuel) (s_rt s')) (carry_U (s_rt s)) s.
Proof.
  induction fuel as [|fuel IH]; intros s o HR HfR Hlo Hok Hpre Hbud.
  - (* after the loop *)
    cbn [carry_loop]. wp_steps. rewrite Hlo. unfold olen.
    destruct (N.eqb_spec (ocnt o) 0) as [Hz|Hz]; cbn [when].
    + apply free_old_spec. intros s' Hs'. unfold carry_Q. rewrite Hs', Hlo. cbn [main lo].
      destruct Hpre as (Hit & Hc & Hnd & Hdis).
      assert (Hnil : orem o = []) by (apply ocnt_0; assumption).
      split; [split; [exact HR|split; [exact Hok|exact I]]|].
      split. { destruct (s_rt s) as [t lo0]. cbn in *. subst lo0. destruct o as [B l i n]. cbn in Hnil. subst l. reflexivity. }
      repeat split; try lia.
    + apply wp_ret. unfold carry_Q. rewrite Hlo.
      split. { split; [exact HR|]. split; [exact Hok|]. rewrite Hlo. apply old_pre_ok; [exact Hpre|].
               unfold budget in Hbud. cbn [N.of_nat] in Hbud.
               destruct (N.ltb_spec 0 (ocnt o)); [|lia]. rewrite N.sub_0_r in Hbud. lia. }
      repeat split; try lia.
  - cbn [carry_loop]. destruct (s_rt s) as [t lo0] eqn:Ert. cbn [lo main] in *. subst lo0.
    destruct o as [B l i n]. destruct Hpre as (Hit & Hc & Hnd & Hdis). cbn [oit orem ocnt] in *.
    apply wp_bind. unfold old_pop. wp_steps. rewrite Ert. cbn [lo oit orem oB ocnt].
    destruct (N.eqb_spec i 0) as [Hi|Hi].
    + (* iterator exhausted: release the old table *)
      apply wp_ret. apply free_old_spec. intros s' Hs'. rewrite Ert in Hs'. cbn [main] in Hs'.
      assert (Hnil : l = []) by (destruct l; [reflexivity|cbn [length] in Hc; lia]). subst l.
      unfold carry_Q. rewrite Hs'. cbn [main lo ocnt].
      split; [split; [exact HR|split; [exact Hok|exact I]]|].
      split; [reflexivity|]. repeat split; try lia.
    + destruct l as [|e l]; [cbn [length] in Hc; lia|].
      wp_steps. cbn [set_rt s_rt]. rewrite Ert. cbn [main].
      set (s1 := set_rt (RT t (Some (Old B l (i - 1) (n - 1)))) s).
      (* the element is now owned by the call *)
      apply frame0_use; [apply frame0_tick|]. intros [] s2 Hs2.
      assert (Hnd' : NoDup (map ek l)) by (cbn in Hnd; apply NoDup_cons in Hnd; tauto).
      assert (He : hel t !! ek e = None) by (apply Hdis; left).
      assert (Hel : forall x, x ∈ l -> ek x <> ek e).
      { intros x Hx Heq. cbn in Hnd. apply NoDup_cons in Hnd as [Hnin _]. apply Hnin.
        rewrite <- Heq. apply elem_of_list_fmap. exists x. auto. }
      assert (Hn1 : n = (n - 1) + 1 /\ n - 1 = N.of_nat (length l)) by (cbn [length] in Hc; lia).
      destruct Hn1 as [Hn1 Hc']. unfold budget in Hbud. rewrite Hn1 in Hbud.
      assert (Hgl1 : 0 < hgl t).
      { destruct (N.ltb_spec (N.of_nat (S fuel)) (n - 1 + 1)); lia. }
      apply wp_bind. apply wp_on_unwind. eapply frameU_use; [apply frame_tick_hash| |].
      * intros [] s3 Hs3. apply wp_bind. unfold main_insert_no_grow. wp_steps.
        rewrite Hs3, Hs2. cbn [s1 set_rt s_rt main].
        apply hb_insert_no_grow_spec; [exact Hok|exact He|exact Hgl1|].
        intros t' s4 Hs4 Hok' Hel' HB' Hn' Hle Hge. wp_steps. cbn [set_rt s_rt].
        rewrite Hs4, Hs3, Hs2. cbn [s1 set_rt s_rt main lo].
        set (s5 := set_rt _ s4).
        eapply wp_conseq; [apply (IH s5 (Old B l (i - 1) (n - 1))); [exact HR|lia| | | |]| |].
        -- reflexivity.
        -- exact Hok'.
        -- repeat split; [cbn [oit ocnt]; lia|exact Hc'|exact Hnd'|].
           intros x Hx. cbn [s5 set_rt s_rt main]. rewrite Hel'.
           rewrite lookup_insert_ne by (apply not_eq_sym, Hel; exact Hx). apply Hdis. right. exact Hx.
        -- cbn [s5 set_rt s_rt main ocnt]. unfold budget.
           destruct (N.ltb_spec (N.of_nat (S fuel)) (n - 1 + 1)) as [Hlt|Hge'];
           destruct (N.ltb_spec (N.of_nat fuel) (n - 1)) as [Hlt'|Hge'']; try lia.
           replace (n - 1 + 1 - N.of_nat (S fuel)) with (n - 1 - N.of_nat fuel) in Hbud by lia.
           lia.
        -- intros [] s6 HQ. unfold carry_Q in *. cbn [s5 set_rt s_rt main lo ocnt oB] in HQ.
           destruct HQ as (HI & Habs & HB6 & Hgl6 & Hgl6' & Hlen6 & Hlo6).
           split; [exact HI|]. split.
           { rewrite Habs. destruct t' as [B' g' n' m']. cbn in Hel', HB'. subst m' B'.
             apply abs_pop. exact He. }
           cbn [main lo ocnt oB].
           split; [congruence|]. split; [lia|]. split; [lia|]. split; [lia|].
           destruct (lo (s_rt s6)) as [o6|]; [|lia].
           destruct Hlo6 as (H1 & H2 & H3). repeat split; lia.
        -- intros p s6 (HI & -> & Hsub). split; [exact HI|]. split; [reflexivity|].
           etransitivity; [exact Hsub|]. cbn [s5 set_rt s_rt].
           destruct t' as [B' g' n' m']. cbn in Hel', HB'. subst m' B'.
           rewrite (abs_pop t B e l g' n' (i - 1) (n - 1) i n) by exact He. reflexivity.
      * (* the hasher panicked: the element in flight is dropped, everything else is consistent *)
        intros p s3 Hs3 ->. apply frame0_use; [apply frame0_drop_elem|]. intros [] s4 Hs4.
        unfold carry_U. rewrite Hs4, Hs3, Hs2. cbn [s1 set_rt s_rt].
        split.
        { split; [exact HR|]. split; [exact Hok|]. cbn [lo main].
          repeat split; [cbn [oit ocnt olen]; unfold olen; cbn [ocnt]; lia|exact Hc'|exact Hnd'|intros x Hx; apply Hdis; right; exact Hx|].
          unfold olen. cbn [ocnt].
          apply (need_after_loss (N.of_nat (S fuel))); [exact HR|lia|exact HfR|exact Hbud]. }
        split; [reflexivity|].
        unfold rt_abs. cbn [main lo orem]. rewrite list_to_emap_cons.
        apply map_union_mono_l. apply insert_subseteq.
        rewrite list_to_emap_lookup by exact Hnd'.
        destruct (lookup_list (ek e) l) as [x|] eqn:Ex; [|reflexivity].
        apply lookup_list_Some in Ex as [Hx Hk]. exfalso. eapply Hel; eauto.
Qed.

End Proofs.
