(* EntryProofs.v — entry() / raw_entry_mut() chains: every step acts on the element the handle
   designates, wherever it is stored, and the chain refines a reference on plain finite maps. *)
From stdpp Require Import gmap list.
From Coq Require Import NArith Lia.
From G Require Import Arith Monad Types Inv Raw RawProofs Map MapProofs.
Local Open Scope N_scope.

(* ------------------------------------------------------------------ the reference *)

Inductive aent := AOcc (k : N) (held : option N) | AVac (k : N) (held : option N) | ADone.
Definition strip (e : ent) : aent :=
  match e with EOcc _ k h => AOcc k h | EVac k h => AVac k h | EDone => ADone end.

Inductive rres :=
| RBad                                   (* a chain Rust's types forbid *)
| RPanic (p : panic) (m : gmap N elem)     (* the contents when the panic is raised *)
| ROk (m : gmap N elem) (a : aent) (o : out).

Definition setv (m : gmap N elem) (k v : N) : gmap N elem :=
  match m !! k with Some x => <[k := Elem k (ekid x) v]> m | None => m end.
Definition setk (m : gmap N elem) (k kid : N) : gmap N elem :=
  match m !! k with Some x => <[k := Elem k kid (ev x)]> m | None => m end.
Definition wopt (m : gmap N elem) (k : N) (w : option N) : gmap N elem :=
  match w with Some w => setv m k w | None => m end.
Definition put (m : gmap N elem) (k kid v : N) (w : option N) : gmap N elem :=
  <[k := Elem k kid (match w with Some w => w | None => v end)]> m.

Definition ref_replace (raw : bool) (m : gmap N elem) (k : N) (held : option N) (x : elem) (keep : bool) (d : N) : rres :=
  if keep then ROk (<[k := Elem k (ekid x) (ev x + d)]> m) (AOcc k held) OutU
  else ROk (delete k m) (if raw then AVac k None else AVac k (Some (ekid x))) OutU.

Definition ref_step (raw : bool) (m : gmap N elem) (a : aent) (s : estep) : rres :=
  match a with
  | AOcc k held =>
      match m !! k with
      | None => RBad
      | Some x =>
          match s with
          | SKey => ROk m a (OutN (ekid x))
          | SAndModify d => ROk (setv m k (ev x + d)) a OutU
          | SAndReplace keep d | SOccReplaceWith keep d => ref_replace raw m k held x keep d
          | SOrInsert v w | SOrInsertWith v w | SOrInsertWithKey v w => ROk (wopt m k w) ADone (OutN (ev x))
          | SInsertE v => ROk (setv m k v) a OutU
          | SOccGet => ROk m a (OutN (ev x))
          | SOccGetMut w => ROk (setv m k w) a (OutN (ev x))
          | SOccIntoMut w => ROk (setv m k w) ADone (OutN (ev x))
          | SOccInsert v => ROk (setv m k v) a (OutN (ev x))
          | SOccRemove => ROk (delete k m) ADone (OutN (ev x))
          | SOccRemoveEntry => ROk (delete k m) ADone (OutOKV (Some (ekid x, ev x)))
          | SOccReplaceEntry v =>
              match held with
              | Some h => ROk (<[k := Elem k h v]> m) ADone (OutOKV (Some (ekid x, ev x)))
              | None => RPanic PUnwrapNone m
              end
          | SOccReplaceKey =>
              match held with
              | Some h => ROk (<[k := Elem k h (ev x)]> m) ADone (OutN (ekid x))
              | None => RPanic PUnwrapNone m
              end
          | SRawInsert kid v => ROk (setv m k v) a OutU
          | SRawOrInsert kid v w | SRawOrInsertWith kid v w => ROk (wopt m k w) ADone (OutOKV (Some (ekid x, ev x)))
          | SRawOccInsertKey kid => ROk (setk m k kid) a (OutN (ekid x))
          | SRawOccKeyValue => ROk m a (OutOKV (Some (ekid x, ev x)))
          | _ => RBad
          end
      end
  | AVac k held =>
      match m !! k with
      | Some _ => RBad
      | None =>
          match s, held with
          | SKey, Some h => ROk m a (OutN h)
          | SAndModify _, _ | SAndReplace _ _, _ => ROk m a OutU
          | SOrInsert v w, Some h | SOrInsertWith v w, Some h | SOrInsertWithKey v w, Some h | SVacInsert v w, Some h =>
              ROk (put m k h v w) ADone (OutN v)
          | SInsertE v, Some h => ROk (put m k h v None) (AOcc k None) OutU
          | SVacIntoKey, Some h => ROk m ADone (OutN h)
          | SRawInsert kid v, None => ROk (put m k kid v None) (AOcc k None) OutU
          | SRawOrInsert kid v w, None | SRawOrInsertWith kid v w, None | SRawVacInsert _ kid v w, None =>
              ROk (put m k kid v w) ADone (OutOKV (Some (kid, v)))
          | _, _ => RBad
          end
      end
  | ADone => RBad
  end.

(* a chain: outcomes of the steps in order; stops at a panic *)
Fixpoint ref_chain (raw : bool) (m : gmap N elem) (a : aent) (ss : list estep) (acc : list out) : rres :=
  match ss with
  | [] => ROk m a (OutS acc)
  | s :: ss => match ref_step raw m a s with
               | ROk m' a' o => ref_chain raw m' a' ss (acc ++ [o])
               | r => r
               end
  end.

Section EntryProofs.
Context (c : cfg).
Notation R := (cR c).
Notation ES := (cesz c).

Definition ent_ok (r : rt) (e : ent) : Prop :=
  match e with
  | EOcc im k _ => exists x, rt_find_pure r k = Some (im, x)
  | EVac k _ => rt_abs r !! k = None
  | EDone => True
  end.

Definition EU : panic -> st -> Prop :=
  fun p s' => Inv R ES (s_rt s') /\ (p = PUser \/ p = PCapOverflow).

Lemma ent_elem_wp im k x (Q : elem -> st -> Prop) (U : panic -> st -> Prop) s :
  rt_find_pure (s_rt s) k = Some (im, x) -> Q x s -> wp (ent_elem im k) Q U s.
Proof.
  intros Hf HQ. unfold ent_elem, rt_find. wp_steps. rewrite Hf. rewrite Bool.eqb_reflx. apply wp_ret. exact HQ.
Qed.

Lemma find_abs r k im x : Inv R ES r -> rt_find_pure r k = Some (im, x) -> rt_abs r !! k = Some x.
Proof. intros HI Hf. rewrite (rt_find_abs c r k HI), Hf. reflexivity. Qed.

Lemma setv_wp im k v x (Q : unit -> st -> Prop) (U : panic -> st -> Prop) s :
  Inv R ES (s_rt s) -> rt_find_pure (s_rt s) k = Some (im, x) ->
  (forall s', Inv R ES (s_rt s') -> rt_abs (s_rt s') = setv (rt_abs (s_rt s)) k v ->
              rt_find_pure (s_rt s') k = Some (im, Elem k (ekid x) v) -> Q tt s') ->
  wp (set_value im k v) Q U s.
Proof.
  intros HI Hf HQ. apply (set_value_spec c im k v x); [exact HI|exact Hf|].
  intros s' HI' Habs' _ Hf' _. apply HQ; [exact HI'| |exact Hf'].
  unfold setv. rewrite (find_abs _ _ _ _ HI Hf). exact Habs'.
Qed.

Lemma set_key_spec im k kid x (Q : unit -> st -> Prop) (U : panic -> st -> Prop) s :
  Inv R ES (s_rt s) -> rt_find_pure (s_rt s) k = Some (im, x) ->
  (forall s', Inv R ES (s_rt s') -> rt_abs (s_rt s') = setk (rt_abs (s_rt s)) k kid ->
              rt_find_pure (s_rt s') k = Some (im, Elem k kid (ev x)) -> Q tt s') ->
  wp (set_key im k kid) Q U s.
Proof.
  intros HI Hf HQ. pose proof HI as (HR & Hok & Ho). pose proof (find_abs _ _ _ _ HI Hf) as Habs.
  unfold set_key. destruct im.
  - apply rt_find_main in Hf. wp_steps. rewrite Hf. wp_steps.
    destruct (s_rt s) as [t lo0] eqn:Ert. cbn [main lo] in *.
    pose proof Hok as (Hcap & Hn & Hkey & HB).
    apply HQ; cbn [set_rt s_rt main lo].
    + split; [exact HR|]. split.
      * split; [hl; lia|]. split; [hl; rewrite size_insert_Some with (e' := x) by exact Hf; exact Hn|].
        split; [|exact HB]. intros j y. hl. destruct (N.eq_dec j k) as [->|Hne].
        -- rewrite lookup_insert. intros [= <-]. reflexivity.
        -- rewrite lookup_insert_ne by congruence. apply Hkey.
      * cbn [lo main]. destruct lo0 as [o|]; [|exact I].
        destruct Ho as (Hit & Hc & Hnd & Hdis & Hneed).
        split; [exact Hit|]. split; [exact Hc|]. split; [exact Hnd|]. split; [|exact Hneed].
        intros y Hy. hl. rewrite lookup_insert_ne; [apply Hdis; exact Hy|].
        intros Heq. specialize (Hdis y Hy). rewrite <- Heq in Hdis. congruence.
    + unfold setk. rewrite Habs. unfold rt_abs. cbn [main lo hb_upd hel]. symmetry. apply insert_union_l.
    + unfold rt_find_pure. cbn [main hb_upd hel]. rewrite lookup_insert. reflexivity.
  - apply rt_find_old in Hf as (Hnone & o & Hlo & Hl). wp_steps. rewrite Hlo, Hl. wp_steps.
    destruct (s_rt s) as [t lo0] eqn:Ert. cbn [main lo] in *. subst lo0.
    destruct Ho as (Hit & Hc & Hnd & Hdis & Hneed).
    pose proof (lookup_list_Some _ _ _ Hl) as [Hin Hk].
    assert (Hkin : k ∈ map ek (orem o)).
    { rewrite <- Hk. apply elem_of_list_fmap. exists x. auto. }
    apply HQ; cbn [set_rt s_rt main lo].
    + split; [exact HR|]. split; [exact Hok|]. cbn [lo main].
      split; [exact Hit|]. split; [cbn [ocnt orem]; rewrite replace_list_length; exact Hc|].
      split; [cbn [orem]; rewrite replace_list_keys; exact Hnd|]. split; [|exact Hneed].
      intros y Hy. cbn [orem] in Hy. apply replace_list_elem in Hy.
      apply elem_of_list_fmap in Hy as (z & Hz & Hzin). rewrite Hz. apply Hdis. exact Hzin.
    + unfold setk. rewrite Habs. unfold rt_abs. cbn [main lo orem].
      rewrite (list_to_emap_replace (Elem k kid (ev x))) by exact Hkin. cbn [ek].
      symmetry. apply insert_union_r. exact Hnone.
    + unfold rt_find_pure. cbn [main lo orem]. rewrite Hnone.
      rewrite (lookup_list_nodup k _ (Elem k kid (ev x))); [reflexivity| | |reflexivity].
      * rewrite replace_list_keys. exact Hnd.
      * unfold replace_list. apply elem_of_list_In, List.in_map_iff. exists x. split; [|apply elem_of_list_In; exact Hin].
        rewrite Hk, N.eqb_refl. reflexivity.
Qed.

(* a vacant handle's insertion: the new element is in the main table *)
Lemma vac_insert_wp k kid v (Q : unit -> st -> Prop) (U : panic -> st -> Prop) s :
  Inv R ES (s_rt s) -> rt_abs (s_rt s) !! k = None ->
  (forall s', Inv R ES (s_rt s') -> rt_abs (s_rt s') = <[k := Elem k kid v]> (rt_abs (s_rt s)) ->
              rt_find_pure (s_rt s') k = Some (true, Elem k kid v) -> Q tt s') ->
  (forall p s', EU p s' -> U p s') ->
  wp (vac_insert c k kid v) Q U s.
Proof.
  intros HI Hnone HQ HU. unfold vac_insert.
  eapply wp_conseq; [apply (rt_insert_spec c (Elem k kid v) s HI Hnone)| |].
  - intros [] s' (HI' & Habs' & Hin' & _). apply HQ; [exact HI'|exact Habs'|].
    unfold rt_find_pure. cbn [ek] in Hin'. rewrite Hin'. reflexivity.
  - intros p s' (HI' & Hp & _). apply HU. split; [exact HI'|]. destruct Hp as [->|[-> _]]; auto.
Qed.


Lemma occ_replace_with_wp (raw im : bool) k held (keep : bool) d x (Q : ent -> st -> Prop) (U : panic -> st -> Prop) s :
  Inv R ES (s_rt s) -> rt_find_pure (s_rt s) k = Some (im, x) ->
  (forall s', Inv R ES (s_rt s') ->
     (if keep then rt_abs (s_rt s') = <[k := Elem k (ekid x) (ev x + d)]> (rt_abs (s_rt s)) /\
                   rt_find_pure (s_rt s') k = Some (im, Elem k (ekid x) (ev x + d))
      else rt_abs (s_rt s') = delete k (rt_abs (s_rt s))) ->
     Q (if keep then EOcc im k held else if raw then EVac k None else EVac k (Some (ekid x))) s') ->
  (forall p s', EU p s' -> U p s') ->
  wp (occ_replace_with c raw im k held keep d) Q U s.
Proof.
  intros HI Hf HQ HU. pose proof (find_abs _ _ _ _ HI Hf) as Habs.
  assert (Hkx : ek x = k).
  { destruct HI as (_ & (_ & _ & Hkey & _) & Ho). unfold rt_find_pure in Hf.
    destruct (hel (main (s_rt s)) !! k) eqn:E; [injection Hf as <- <-; eapply Hkey; eauto|].
    destruct (lo (s_rt s)) as [o|]; [|discriminate]. destruct (lookup_list k (orem o)) eqn:El; [|discriminate].
    injection Hf as <- <-. apply lookup_list_Some in El. tauto. }
  unfold occ_replace_with. apply wp_bind. apply (ent_elem_wp im k x); [exact Hf|].
  apply wp_bind. apply wp_on_unwind.
  apply (rt_replace_bucket_with_spec c im k x _ (if keep then Some (Elem (ek x) (ekid x) (ev x + d)) else None)); [exact HI|exact Hf| | | |].
  - (* the closure *)
    intros s0. apply wp_bind. apply wp_on_unwind. eapply frameU_use; [apply frame_cb| |].
    + intros [] s1 Hs1. destruct keep.
      * apply wp_ret. auto.
      * apply wp_bind. apply frame0_use; [apply frame0_tick|]. intros [] s2 Hs2.
        apply wp_bind. apply frame0_use; [apply frameU_when, frame0_tick|]. intros [] s3 Hs3.
        apply wp_ret. split; [congruence|reflexivity].
    + intros p s1 Hs1 ->. apply frame0_use; [apply frame0_drop_elem|]. intros [] s2 Hs2. split; [congruence|reflexivity].
  - intros e'. destruct keep; [intros [= <-]; exact Hkx|discriminate].
  - intros b s1 (HI1 & _ & _ & Hres). destruct keep.
    + destruct Hres as (-> & Habs1 & Hf1 & _). apply wp_ret. rewrite Hkx in *. apply HQ; [exact HI1|auto].
    + destruct Hres as (-> & Habs1 & _). destruct raw.
      * apply wp_ret. apply HQ; [exact HI1|exact Habs1].
      * apply wp_bind. apply frame0_use.
        { unfold drop_held. destruct held; [apply frame0_tick|apply frameU_ret]. }
        intros [] s2 Hs2. apply wp_ret. apply HQ; [rewrite Hs2; exact HI1|rewrite Hs2; exact Habs1].
  - intros s1 HI1 _. apply frame0_use.
    { unfold drop_held. destruct held; [apply frame0_tick|apply frameU_ret]. }
    intros [] s2 Hs2. apply HU. split; [rewrite Hs2; exact HI1|left; reflexivity].
Qed.

Lemma frame0_drop_held h : frame0 (drop_held h).
Proof. unfold drop_held. destruct h; [apply frame0_tick|apply frameU_ret]. Qed.

Lemma wopt_wp im k w x (Q : unit -> st -> Prop) (U : panic -> st -> Prop) s :
  Inv R ES (s_rt s) -> rt_find_pure (s_rt s) k = Some (im, x) ->
  (forall s', Inv R ES (s_rt s') -> rt_abs (s_rt s') = wopt (rt_abs (s_rt s)) k w -> Q tt s') ->
  wp (match w with Some w => set_value im k w | None => ret tt end) Q U s.
Proof.
  intros HI Hf HQ. destruct w as [w|].
  - apply (setv_wp im k w x); [exact HI|exact Hf|]. intros s' HI' Habs' _. apply HQ; assumption.
  - apply wp_ret. apply HQ; [exact HI|reflexivity].
Qed.

(* insertion through a vacant handle, then an optional write through the returned reference *)
Lemma vac_put_wp {A} k kid v w (f : unit -> M' A) (Q : A -> st -> Prop) (U : panic -> st -> Prop) s :
  Inv R ES (s_rt s) -> rt_abs (s_rt s) !! k = None ->
  (forall s', Inv R ES (s_rt s') -> rt_abs (s_rt s') = put (rt_abs (s_rt s)) k kid v w ->
              (exists x, rt_find_pure (s_rt s') k = Some (true, x)) -> wp (f tt) Q U s') ->
  (forall p s', EU p s' -> U p s') ->
  wp (bind (vac_insert c k kid v) (fun _ => bind (write_through k w) f)) Q U s.
Proof.
  intros HI Hnone HQ HU. apply wp_bind. apply vac_insert_wp; [exact HI|exact Hnone| |exact HU].
  intros s1 HI1 Habs1 Hf1. apply wp_bind. unfold write_through. destruct w as [w|].
  - apply (setv_wp true k w (Elem k kid v)); [exact HI1|exact Hf1|].
    intros s2 HI2 Habs2 Hf2. apply HQ; [exact HI2| |eauto].
    rewrite Habs2, Habs1. unfold setv, put. rewrite lookup_insert. cbn [ekid]. apply insert_insert.
  - apply wp_ret. apply HQ; [exact HI1|exact Habs1|eauto].
Qed.

Definition step_Q (raw : bool) (s : st) (e : ent) (st0 : estep) (r : ent * out) (s' : st) : Prop :=
  Inv R ES (s_rt s') /\ ent_ok (s_rt s') (fst r) /\
  ref_step raw (rt_abs (s_rt s)) (strip e) st0 = ROk (rt_abs (s_rt s')) (strip (fst r)) (snd r).

Definition step_U (raw : bool) (s : st) (e : ent) (st0 : estep) (p : panic) (s' : st) : Prop :=
  Inv R ES (s_rt s') /\
  (p = PUser \/ p = PCapOverflow \/
   (p = PUnwrapNone /\ ref_step raw (rt_abs (s_rt s)) (strip e) st0 = RPanic PUnwrapNone (rt_abs (s_rt s)) /\ s_rt s' = s_rt s)).

Lemma EU_step_U raw s e st0 p s' : EU p s' -> step_U raw s e st0 p s'.
Proof. intros [H1 [->| ->]]; split; auto. Qed.
Lemma EU_or (X : Prop) p s' : EU p s' -> Inv R ES (s_rt s') /\ (p = PUser \/ p = PCapOverflow \/ X).
Proof. intros [H1 [->| ->]]; split; auto. Qed.

Theorem entry_step_spec raw e st0 s :
  Inv R ES (s_rt s) -> ent_ok (s_rt s) e ->
  wp (entry_step c raw e st0) (step_Q raw s e st0) (step_U raw s e st0) s.
Proof.
  intros HI Hok. destruct e as [im k held|k held|].
  - (* occupied *)
    destruct Hok as [x Hf]. pose proof (find_abs _ _ _ _ HI Hf) as Habs.
    assert (Hdone : forall s', Inv R ES (s_rt s') -> ent_ok (s_rt s') EDone) by (intros; exact I).
    destruct st0; cbn [entry_step]; try apply wp_badop; unfold step_Q, step_U; cbn [strip ref_step fst snd]; rewrite Habs.
    + (* SKey *) apply wp_bind. apply (ent_elem_wp im k x); [exact Hf|]. apply wp_ret. cbn [fst snd strip]. split; [exact HI|]. split; [cbn [ent_ok]; eauto|reflexivity].
    + (* SAndModify *) apply wp_bind. apply (ent_elem_wp im k x); [exact Hf|].
      apply wp_bind. apply wp_on_unwind. eapply frameU_use; [apply frame_cb| |];
        [|intros p s1 Hs1 ->; apply frame0_use; [apply frame0_drop_held|]; intros [] s1' Hs1'; split; [rewrite Hs1', Hs1; exact HI|auto]].
      intros [] s1 Hs1. apply wp_bind. apply (setv_wp im k (ev x + d) x); [rewrite Hs1; exact HI|rewrite Hs1; exact Hf|].
      intros s2 HI2 Habs2 Hf2. apply wp_ret. cbn [fst snd strip]. split; [exact HI2|]. split; [cbn [ent_ok]; eauto|]. rewrite Habs2, Hs1. reflexivity.
    + (* SAndReplace *) apply wp_bind. apply (occ_replace_with_wp raw im k held keep d x); [exact HI|exact Hf| |].
      * intros s1 HI1 Hres. apply wp_ret. cbn [fst snd]. split; [exact HI1|]. unfold ref_replace. destruct keep.
        -- destruct Hres as [Habs1 Hf1]. split; [cbn [ent_ok]; eexists; exact Hf1|]. rewrite Habs1. reflexivity.
        -- split; [destruct raw; cbn [ent_ok]; rewrite Hres; apply lookup_delete|]. rewrite Hres. destruct raw; reflexivity.
      * intros p s1 Hp. destruct Hp as [H1 [->| ->]]; split; auto.
    + (* SOrInsert *) apply wp_bind. apply (ent_elem_wp im k x); [exact Hf|].
      apply wp_bind. apply frame0_use; [apply frame0_tick|]. intros [] s1 Hs1.
      apply wp_bind. apply frame0_use; [apply frame0_drop_held|]. intros [] s2 Hs2.
      apply wp_bind. apply (wopt_wp im k w x); [rewrite Hs2, Hs1; exact HI|rewrite Hs2, Hs1; exact Hf|].
      intros s3 HI3 Habs3. apply wp_ret. cbn [fst snd strip]. split; [exact HI3|]. split; [exact I|]. rewrite Habs3, Hs2, Hs1. reflexivity.
    + (* SOrInsertWith *) apply wp_bind. apply (ent_elem_wp im k x); [exact Hf|].
      apply wp_bind. apply frame0_use; [apply frame0_drop_held|]. intros [] s2 Hs2.
      apply wp_bind. apply (wopt_wp im k w x); [rewrite Hs2; exact HI|rewrite Hs2; exact Hf|].
      intros s3 HI3 Habs3. apply wp_ret. cbn [fst snd strip]. split; [exact HI3|]. split; [exact I|]. rewrite Habs3, Hs2. reflexivity.
    + (* SOrInsertWithKey *) apply wp_bind. apply (ent_elem_wp im k x); [exact Hf|].
      apply wp_bind. apply frame0_use; [apply frame0_drop_held|]. intros [] s2 Hs2.
      apply wp_bind. apply (wopt_wp im k w x); [rewrite Hs2; exact HI|rewrite Hs2; exact Hf|].
      intros s3 HI3 Habs3. apply wp_ret. cbn [fst snd strip]. split; [exact HI3|]. split; [exact I|]. rewrite Habs3, Hs2. reflexivity.
    + (* SInsertE *) apply wp_bind. apply (ent_elem_wp im k x); [exact Hf|].
      apply wp_bind. apply (setv_wp im k v x); [exact HI|exact Hf|]. intros s1 HI1 Habs1 Hf1.
      apply wp_bind. apply frame0_use; [apply frame0_tick|]. intros [] s2 Hs2. apply wp_ret.
      cbn [fst snd strip]. rewrite Hs2. split; [exact HI1|]. split; [cbn [ent_ok]; eauto|]. rewrite Habs1. reflexivity.
    + (* SOccGet *) apply wp_bind. apply (ent_elem_wp im k x); [exact Hf|]. apply wp_ret. cbn [fst snd strip]. split; [exact HI|]. split; [cbn [ent_ok]; eauto|reflexivity].
    + (* SOccGetMut *) apply wp_bind. apply (ent_elem_wp im k x); [exact Hf|].
      apply wp_bind. apply (setv_wp im k w x); [exact HI|exact Hf|]. intros s1 HI1 Habs1 Hf1. apply wp_ret.
      cbn [fst snd strip]. split; [exact HI1|]. split; [cbn [ent_ok]; eauto|]. rewrite Habs1. reflexivity.
    + (* SOccIntoMut *) apply wp_bind. apply (ent_elem_wp im k x); [exact Hf|].
      apply wp_bind. apply (setv_wp im k w x); [exact HI|exact Hf|]. intros s1 HI1 Habs1 Hf1.
      apply wp_bind. apply frame0_use; [apply frame0_drop_held|]. intros [] s2 Hs2. apply wp_ret.
      cbn [fst snd strip]. rewrite Hs2. split; [exact HI1|]. split; [exact I|]. rewrite Habs1. reflexivity.
    + (* SOccInsert *) apply wp_bind. apply (ent_elem_wp im k x); [exact Hf|].
      apply wp_bind. apply (setv_wp im k v x); [exact HI|exact Hf|]. intros s1 HI1 Habs1 Hf1. apply wp_ret.
      cbn [fst snd strip]. split; [exact HI1|]. split; [cbn [ent_ok]; eauto|]. rewrite Habs1. reflexivity.
    + (* SOccRemove *) apply wp_bind. apply (rt_remove_spec c im k x); [exact HI|exact Hf|]. intros s1 (HI1 & Habs1 & _).
      apply wp_bind. apply frame0_use; [apply frame0_tick|]. intros [] s2 Hs2.
      apply wp_bind. apply frame0_use; [apply frame0_drop_held|]. intros [] s3 Hs3. apply wp_ret.
      cbn [fst snd strip]. rewrite Hs3, Hs2. split; [exact HI1|]. split; [exact I|]. rewrite Habs1. reflexivity.
    + (* SOccRemoveEntry *) apply wp_bind. apply (rt_remove_spec c im k x); [exact HI|exact Hf|]. intros s1 (HI1 & Habs1 & _).
      apply wp_bind. apply frame0_use; [apply frame0_drop_held|]. intros [] s3 Hs3. apply wp_ret.
      cbn [fst snd strip]. rewrite Hs3. split; [exact HI1|]. split; [exact I|]. rewrite Habs1. reflexivity.
    + (* SOccReplaceEntry *) destruct held as [h|].
      * apply wp_bind. apply (ent_elem_wp im k x); [exact Hf|].
        apply wp_bind. apply (set_key_spec im k h x); [exact HI|exact Hf|]. intros s1 HI1 Habs1 Hf1.
        apply wp_bind. apply (setv_wp im k v (Elem k h (ev x))); [exact HI1|exact Hf1|]. intros s2 HI2 Habs2 Hf2. apply wp_ret.
        cbn [fst snd strip]. split; [exact HI2|]. split; [exact I|]. rewrite Habs2, Habs1. unfold setv, setk. rewrite Habs, lookup_insert. cbn [ekid].
        rewrite insert_insert. reflexivity.
      * apply wp_bind. apply frame0_use; [apply frame0_tick|]. intros [] s1 Hs1. apply wp_unwind.
        split; [rewrite Hs1; exact HI|]. right. right. auto.
    + (* SOccReplaceKey *) destruct held as [h|].
      * apply wp_bind. apply (ent_elem_wp im k x); [exact Hf|].
        apply wp_bind. apply (set_key_spec im k h x); [exact HI|exact Hf|]. intros s1 HI1 Habs1 Hf1. apply wp_ret.
        cbn [fst snd strip]. split; [exact HI1|]. split; [exact I|]. rewrite Habs1. unfold setk. rewrite Habs. reflexivity.
      * apply wp_unwind. split; [exact HI|]. right. right. auto.
    + (* SOccReplaceWith *) apply wp_bind. apply (occ_replace_with_wp raw im k held keep d x); [exact HI|exact Hf| |].
      * intros s1 HI1 Hres. apply wp_ret. cbn [fst snd]. split; [exact HI1|]. unfold ref_replace. destruct keep.
        -- destruct Hres as [Habs1 Hf1]. split; [cbn [ent_ok]; eexists; exact Hf1|]. rewrite Habs1. reflexivity.
        -- split; [destruct raw; cbn [ent_ok]; rewrite Hres; apply lookup_delete|]. rewrite Hres. destruct raw; reflexivity.
      * intros p s1 Hp. destruct Hp as [H1 [->| ->]]; split; auto.
    + (* SRawInsert *) apply wp_bind. apply (ent_elem_wp im k x); [exact Hf|].
      apply wp_bind. apply (setv_wp im k v x); [exact HI|exact Hf|]. intros s1 HI1 Habs1 Hf1.
      apply wp_bind. apply frame0_use; [apply frame0_tick|]. intros [] s2 Hs2.
      apply wp_bind. apply frame0_use; [apply frame0_tick|]. intros [] s3 Hs3. apply wp_ret.
      cbn [fst snd strip]. rewrite Hs3, Hs2. split; [exact HI1|]. split; [cbn [ent_ok]; eauto|]. rewrite Habs1. reflexivity.
    + (* SRawOrInsert *) apply wp_bind. apply (ent_elem_wp im k x); [exact Hf|].
      apply wp_bind. apply frame0_use; [apply frame0_tick|]. intros [] s1 Hs1.
      apply wp_bind. apply frame0_use; [apply frame0_tick|]. intros [] s2 Hs2.
      apply wp_bind. apply (wopt_wp im k w x); [rewrite Hs2, Hs1; exact HI|rewrite Hs2, Hs1; exact Hf|].
      intros s3 HI3 Habs3. apply wp_ret. cbn [fst snd strip]. split; [exact HI3|]. split; [exact I|]. rewrite Habs3, Hs2, Hs1. reflexivity.
    + (* SRawOrInsertWith *) apply wp_bind. apply (ent_elem_wp im k x); [exact Hf|].
      apply wp_bind. apply (wopt_wp im k w x); [exact HI|exact Hf|].
      intros s3 HI3 Habs3. apply wp_ret. cbn [fst snd strip]. split; [exact HI3|]. split; [exact I|]. rewrite Habs3. reflexivity.
    + (* SRawOccInsertKey *) apply wp_bind. apply (ent_elem_wp im k x); [exact Hf|].
      apply wp_bind. apply (set_key_spec im k kid x); [exact HI|exact Hf|]. intros s1 HI1 Habs1 Hf1. apply wp_ret.
      cbn [fst snd strip]. split; [exact HI1|]. split; [cbn [ent_ok]; eauto|]. rewrite Habs1. reflexivity.
    + (* SRawOccKeyValue *) apply wp_bind. apply (ent_elem_wp im k x); [exact Hf|]. apply wp_ret. cbn [fst snd strip]. split; [exact HI|]. split; [cbn [ent_ok]; eauto|reflexivity].
  - (* vacant *)
    cbn [ent_ok] in Hok.
    destruct st0.
    + (* SKey *) cbn [entry_step]; destruct held as [h|]; [|apply wp_badop]; unfold step_Q, step_U; cbn [strip ref_step fst snd]; rewrite Hok; apply wp_ret; cbn [fst snd strip]; (split; [exact HI|]); (split; [exact Hok|reflexivity]).
    + (* SAndModify *) cbn [entry_step]; unfold step_Q, step_U; cbn [strip ref_step fst snd]; rewrite Hok; destruct held as [h|]; apply wp_ret; cbn [fst snd strip]; (split; [exact HI|]); (split; [exact Hok|reflexivity]).
    + (* SAndReplace *) cbn [entry_step]; unfold step_Q, step_U; cbn [strip ref_step fst snd]; rewrite Hok; destruct held as [h|]; apply wp_ret; cbn [fst snd strip]; (split; [exact HI|]); (split; [exact Hok|reflexivity]).
    + (* SOrInsert *) cbn [entry_step]; destruct held as [h|]; [|apply wp_badop]; unfold step_Q, step_U; cbn [strip ref_step fst snd]; rewrite Hok; pose proof HI as HIx; pose proof Hok as Hokx; apply (vac_put_wp k h v w); [exact HIx|exact Hokx| |intros pp ss [HH1 [->| ->]]; split; auto]; intros s9 HI9 Habs9 _; apply wp_ret; cbn [fst snd strip]; (split; [exact HI9|]); (split; [exact I|]); rewrite Habs9; rewrite ?Hsx; reflexivity.
    + (* SOrInsertWith *) cbn [entry_step]; destruct held as [h|]; [|apply wp_badop]; unfold step_Q, step_U; cbn [strip ref_step fst snd]; rewrite Hok; apply wp_bind; apply wp_on_unwind; (eapply frameU_use; [apply frame_cb| |]); [intros [] sx Hsx; assert (HIx : Inv R ES (s_rt sx)) by (rewrite Hsx; exact HI); assert (Hokx : rt_abs (s_rt sx) !! k = None) by (rewrite Hsx; exact Hok); apply (vac_put_wp k h v w); [exact HIx|exact Hokx| |intros pp ss [HH1 [->| ->]]; split; auto]; intros s9 HI9 Habs9 _; apply wp_ret; cbn [fst snd strip]; (split; [exact HI9|]); (split; [exact I|]); rewrite Habs9; rewrite ?Hsx; reflexivity|intros p sx Hsx ->; apply frame0_use; [apply frame0_tick|]; intros [] sy Hsy; split; [rewrite Hsy, Hsx; exact HI|auto]].
    + (* SOrInsertWithKey *) cbn [entry_step]; destruct held as [h|]; [|apply wp_badop]; unfold step_Q, step_U; cbn [strip ref_step fst snd]; rewrite Hok; apply wp_bind; apply wp_on_unwind; (eapply frameU_use; [apply frame_cb| |]); [intros [] sx Hsx; assert (HIx : Inv R ES (s_rt sx)) by (rewrite Hsx; exact HI); assert (Hokx : rt_abs (s_rt sx) !! k = None) by (rewrite Hsx; exact Hok); apply (vac_put_wp k h v w); [exact HIx|exact Hokx| |intros pp ss [HH1 [->| ->]]; split; auto]; intros s9 HI9 Habs9 _; apply wp_ret; cbn [fst snd strip]; (split; [exact HI9|]); (split; [exact I|]); rewrite Habs9; rewrite ?Hsx; reflexivity|intros p sx Hsx ->; apply frame0_use; [apply frame0_tick|]; intros [] sy Hsy; split; [rewrite Hsy, Hsx; exact HI|auto]].
    + (* SInsertE *) cbn [entry_step]; destruct held as [h|]; [|apply wp_badop]; unfold step_Q, step_U; cbn [strip ref_step fst snd]; rewrite Hok; apply wp_bind; apply (vac_insert_wp k h v); [exact HI|exact Hok| |intros pp ss [HH1 [->| ->]]; split; auto]; intros s9 HI9 Habs9 Hf9; apply wp_ret; cbn [fst snd strip]; (split; [exact HI9|]); (split; [cbn [ent_ok]; eauto|]); rewrite Habs9; reflexivity.
    + (* SOccGet *) cbn [entry_step]; destruct held; apply wp_badop.
    + (* SOccGetMut *) cbn [entry_step]; destruct held; apply wp_badop.
    + (* SOccIntoMut *) cbn [entry_step]; destruct held; apply wp_badop.
    + (* SOccInsert *) cbn [entry_step]; destruct held; apply wp_badop.
    + (* SOccRemove *) cbn [entry_step]; destruct held; apply wp_badop.
    + (* SOccRemoveEntry *) cbn [entry_step]; destruct held; apply wp_badop.
    + (* SOccReplaceEntry *) cbn [entry_step]; destruct held; apply wp_badop.
    + (* SOccReplaceKey *) cbn [entry_step]; destruct held; apply wp_badop.
    + (* SOccReplaceWith *) cbn [entry_step]; destruct held; apply wp_badop.
    + (* SVacInsert *) cbn [entry_step]; destruct held as [h|]; [|apply wp_badop]; unfold step_Q, step_U; cbn [strip ref_step fst snd]; rewrite Hok; pose proof HI as HIx; pose proof Hok as Hokx; apply (vac_put_wp k h v w); [exact HIx|exact Hokx| |intros pp ss [HH1 [->| ->]]; split; auto]; intros s9 HI9 Habs9 _; apply wp_ret; cbn [fst snd strip]; (split; [exact HI9|]); (split; [exact I|]); rewrite Habs9; rewrite ?Hsx; reflexivity.
    + (* SVacIntoKey *) cbn [entry_step]; destruct held as [h|]; [|apply wp_badop]; unfold step_Q, step_U; cbn [strip ref_step fst snd]; rewrite Hok; apply wp_ret; cbn [fst snd strip]; (split; [exact HI|]); (split; [exact I|reflexivity]).
    + (* SRawInsert *) cbn [entry_step]; destruct held as [h|]; [apply wp_badop|]; unfold step_Q, step_U; cbn [strip ref_step fst snd]; rewrite Hok; apply wp_bind; apply wp_on_unwind; (eapply frameU_use; [apply frame_tick_hash| |]); [intros [] sx Hsx; apply wp_bind; apply (vac_insert_wp k kid v); [rewrite Hsx; exact HI|rewrite Hsx; exact Hok| |intros pp ss [HH1 [->| ->]]; split; auto]; intros s9 HI9 Habs9 Hf9; apply wp_ret; cbn [fst snd strip]; (split; [exact HI9|]); (split; [cbn [ent_ok]; eauto|]); rewrite Habs9, Hsx; reflexivity|intros p sx Hsx ->; apply wp_bind; apply frame0_use; [apply frame0_tick|]; intros [] sy Hsy; apply frame0_use; [apply frame0_tick|]; intros [] sz Hsz; split; [rewrite Hsz, Hsy, Hsx; exact HI|auto]].
    + (* SRawOrInsert *) cbn [entry_step]; destruct held as [h|]; [apply wp_badop|]; unfold step_Q, step_U; cbn [strip ref_step fst snd]; rewrite Hok; apply wp_bind; apply wp_on_unwind; (eapply frameU_use; [apply frame_tick_hash| |]); [intros [] sx Hsx; assert (HIx : Inv R ES (s_rt sx)) by (rewrite Hsx; exact HI); assert (Hokx : rt_abs (s_rt sx) !! k = None) by (rewrite Hsx; exact Hok); apply (vac_put_wp k kid v w); [exact HIx|exact Hokx| |intros pp ss [HH1 [->| ->]]; split; auto]; intros s9 HI9 Habs9 _; apply wp_ret; cbn [fst snd strip]; (split; [exact HI9|]); (split; [exact I|]); rewrite Habs9; rewrite ?Hsx; reflexivity|intros p sx Hsx ->; apply wp_bind; apply frame0_use; [apply frame0_tick|]; intros [] sy Hsy; apply frame0_use; [apply frame0_tick|]; intros [] sz Hsz; split; [rewrite Hsz, Hsy, Hsx; exact HI|auto]].
    + (* SRawOrInsertWith *) cbn [entry_step]; destruct held as [h|]; [apply wp_badop|]; unfold step_Q, step_U; cbn [strip ref_step fst snd]; rewrite Hok; apply wp_bind; (eapply frameU_use; [apply frame_cb| |]); [intros [] s0 Hs0; apply wp_bind; apply wp_on_unwind; (eapply frameU_use; [apply frame_tick_hash| |]); [intros [] sx0 Hsx0; assert (Hsx : s_rt sx0 = s_rt s) by congruence; assert (HIx : Inv R ES (s_rt sx0)) by (rewrite Hsx; exact HI); assert (Hokx : rt_abs (s_rt sx0) !! k = None) by (rewrite Hsx; exact Hok); apply (vac_put_wp k kid v w); [exact HIx|exact Hokx| |intros pp ss [HH1 [->| ->]]; split; auto]; intros s9 HI9 Habs9 _; apply wp_ret; cbn [fst snd strip]; (split; [exact HI9|]); (split; [exact I|]); rewrite Habs9; rewrite ?Hsx; reflexivity|intros p sx Hsx ->; apply wp_bind; apply frame0_use; [apply frame0_tick|]; intros [] sy Hsy; apply frame0_use; [apply frame0_tick|]; intros [] sz Hsz; split; [rewrite Hsz, Hsy, Hsx, Hs0; exact HI|auto]]|intros p s0 Hs0 ->; split; [rewrite Hs0; exact HI|auto]].
    + (* SRawOccInsertKey *) cbn [entry_step]; destruct held; apply wp_badop.
    + (* SRawOccKeyValue *) cbn [entry_step]; destruct held; apply wp_badop.
    + (* SRawVacInsert *)
      cbn [entry_step]. destruct held as [h|]; [apply wp_badop|]. unfold step_Q, step_U. cbn [strip ref_step fst snd]. rewrite Hok.
      apply wp_bind. destruct (variant =? 0); cbn [when].
      * apply wp_on_unwind. eapply frameU_use; [apply frame_tick_hash| |].
        -- intros [] sx Hsx. apply (vac_put_wp k kid v w); [rewrite Hsx; exact HI|rewrite Hsx; exact Hok| |intros pp ss [HH1 [->| ->]]; split; auto].
           intros s9 HI9 Habs9 _. apply wp_ret. cbn [fst snd strip]. split; [exact HI9|]. split; [exact I|]. rewrite Habs9, Hsx. reflexivity.
        -- intros p sx Hsx ->. apply wp_bind. apply frame0_use; [apply frame0_tick|]. intros [] sy Hsy.
           apply frame0_use; [apply frame0_tick|]. intros [] sz Hsz. split; [rewrite Hsz, Hsy, Hsx; exact HI|auto].
      * apply wp_ret. apply (vac_put_wp k kid v w); [exact HI|exact Hok| |intros pp ss [HH1 [->| ->]]; split; auto].
        intros s9 HI9 Habs9 _. apply wp_ret. cbn [fst snd strip]. split; [exact HI9|]. split; [exact I|]. rewrite Habs9. reflexivity.
  - cbn [entry_step]. destruct st0; apply wp_badop.
Qed.


Definition chain_Q (raw : bool) (s : st) (e : ent) (ss : list estep) (acc : list out) (outs : list out) (s' : st) : Prop :=
  Inv R ES (s_rt s') /\ exists a', ref_chain raw (rt_abs (s_rt s)) (strip e) ss acc = ROk (rt_abs (s_rt s')) a' (OutS outs).
Definition chain_U (raw : bool) (s : st) (e : ent) (ss : list estep) (acc : list out) (p : panic) (s' : st) : Prop :=
  Inv R ES (s_rt s') /\
  (p = PUser \/ p = PCapOverflow \/
   (p = PUnwrapNone /\ ref_chain raw (rt_abs (s_rt s)) (strip e) ss acc = RPanic PUnwrapNone (rt_abs (s_rt s')))).

Lemma frame0_drop_ent e : frame0 (match e with EOcc _ _ held => drop_held held | EVac _ held => drop_held held | EDone => ret tt end).
Proof. destruct e; try apply frame0_drop_held. apply frameU_ret. Qed.

Theorem entry_steps_spec raw : forall ss e acc s,
  Inv R ES (s_rt s) -> ent_ok (s_rt s) e ->
  wp (entry_steps c raw e ss acc) (chain_Q raw s e ss acc) (chain_U raw s e ss acc) s.
Proof.
  induction ss as [|st0 ss IH]; intros e acc s HI Hok; cbn [entry_steps].
  - apply wp_bind. apply frame0_use; [apply frame0_drop_ent|]. intros [] s1 Hs1. apply wp_ret.
    unfold chain_Q. rewrite Hs1. split; [exact HI|]. cbn [ref_chain]. eauto.
  - apply wp_bind.
    eapply wp_conseq; [apply (entry_step_spec raw e st0 s HI Hok)| |].
    + intros [e1 o1] s1 (HI1 & Hok1 & Href). cbn [fst snd] in *.
      eapply wp_conseq; [apply (IH e1 (acc ++ [o1]) s1 HI1 Hok1)| |].
      * intros outs s2 (HI2 & a' & Hch). split; [exact HI2|]. exists a'. cbn [ref_chain]. rewrite Href. exact Hch.
      * intros p s2 (HI2 & Hp). split; [exact HI2|]. destruct Hp as [->|[->|[-> Hch]]]; auto.
        right. right. split; [reflexivity|]. cbn [ref_chain]. rewrite Href. exact Hch.
    + intros p s1 (HI1 & Hp).
      split; [exact HI1|]. destruct Hp as [->|[->|(-> & Href & Hsame)]]; auto.
      right. right. split; [reflexivity|]. cbn [ref_chain]. rewrite Href, Hsame. reflexivity.
Qed.

(* entry(key).chain *)
Definition start_ent (m : gmap N elem) (k : N) (held : option N) : aent :=
  match m !! k with Some _ => AOcc k held | None => AVac k held end.

Theorem map_entry_spec k kid ss s :
  Inv R ES (s_rt s) ->
  wp (map_entry c k kid ss)
     (fun outs s' => Inv R ES (s_rt s') /\ exists a',
        ref_chain false (rt_abs (s_rt s)) (start_ent (rt_abs (s_rt s)) k (Some kid)) ss [] = ROk (rt_abs (s_rt s')) a' (OutS outs))
     (fun p s' => Inv R ES (s_rt s') /\
        (p = PUser \/ p = PCapOverflow \/
         (p = PUnwrapNone /\ ref_chain false (rt_abs (s_rt s)) (start_ent (rt_abs (s_rt s)) k (Some kid)) ss [] = RPanic PUnwrapNone (rt_abs (s_rt s'))))) s.
Proof.
  intros HI. unfold map_entry. apply wp_bind. apply wp_on_unwind. eapply frameU_use; [apply frame_tick_hash| |].
  2:{ intros p s1 Hs1 ->. apply frame0_use; [apply frame0_tick|]. intros [] s2 Hs2. split; [rewrite Hs2, Hs1; exact HI|auto]. }
  intros [] s1 Hs1. unfold rt_find. wp_steps. rewrite Hs1.
  pose proof (rt_find_abs c (s_rt s) k HI) as Hfa. unfold start_ent. rewrite Hfa.
  destruct (rt_find_pure (s_rt s) k) as [[im x]|] eqn:Hf; cbn [option_map snd].
  - eapply wp_conseq; [apply (entry_steps_spec false ss (EOcc im k (Some kid)) [] s1); [rewrite Hs1; exact HI|cbn [ent_ok]; rewrite Hs1; eauto]| |];
      unfold chain_Q, chain_U; cbn [strip]; rewrite Hs1; auto.
  - eapply wp_conseq; [apply (entry_steps_spec false ss (EVac k (Some kid)) [] s1); [rewrite Hs1; exact HI|cbn [ent_ok]; rewrite Hs1; exact Hfa]| |];
      unfold chain_Q, chain_U; cbn [strip]; rewrite Hs1; auto.
Qed.

Theorem map_raw_entry_spec variant k ss s :
  Inv R ES (s_rt s) ->
  wp (map_raw_entry c variant k ss)
     (fun outs s' => Inv R ES (s_rt s') /\ exists a',
        ref_chain true (rt_abs (s_rt s)) (start_ent (rt_abs (s_rt s)) k None) ss [] = ROk (rt_abs (s_rt s')) a' (OutS outs))
     (fun p s' => Inv R ES (s_rt s') /\
        (p = PUser \/ p = PCapOverflow \/
         (p = PUnwrapNone /\ ref_chain true (rt_abs (s_rt s)) (start_ent (rt_abs (s_rt s)) k None) ss [] = RPanic PUnwrapNone (rt_abs (s_rt s'))))) s.
Proof.
  intros HI. unfold map_raw_entry. apply wp_bind.
  apply (wp_mono _ (fun _ s1 => s_rt s1 = s_rt s)).
  { destruct (variant =? 0); cbn [when]; [|apply wp_ret; reflexivity].
    apply frame_use; [apply frame_tick_hash|auto|]. intros s1 Hs1. split; [rewrite Hs1; exact HI|auto]. }
  intros [] s1 Hs1. unfold rt_find. wp_steps. rewrite Hs1.
  pose proof (rt_find_abs c (s_rt s) k HI) as Hfa. unfold start_ent. rewrite Hfa.
  destruct (rt_find_pure (s_rt s) k) as [[im x]|] eqn:Hf; cbn [option_map snd].
  - eapply wp_conseq; [apply (entry_steps_spec true ss (EOcc im k None) [] s1); [rewrite Hs1; exact HI|cbn [ent_ok]; rewrite Hs1; eauto]| |];
      unfold chain_Q, chain_U; cbn [strip]; rewrite Hs1; auto.
  - eapply wp_conseq; [apply (entry_steps_spec true ss (EVac k None) [] s1); [rewrite Hs1; exact HI|cbn [ent_ok]; rewrite Hs1; exact Hfa]| |];
      unfold chain_Q, chain_U; cbn [strip]; rewrite Hs1; auto.
Qed.

Lemma map_raw_get_spec variant k s :
  Inv R ES (s_rt s) ->
  wp (map_raw_get variant k)
     (fun o s' => s_rt s' = s_rt s /\ o = OutOKV ((fun e => (ekid e, ev e)) <$> rt_abs (s_rt s) !! k))
     (fun p s' => s_rt s' = s_rt s /\ p = PUser) s.
Proof.
  intros HI. unfold map_raw_get. apply wp_bind.
  apply (wp_mono _ (fun _ s1 => s_rt s1 = s_rt s)).
  { destruct (variant =? 0); cbn [when]; [|apply wp_ret; reflexivity].
    apply frame_use; [apply frame_tick_hash|auto|auto]. }
  intros [] s1 Hs1. unfold rt_find. wp_steps. rewrite Hs1. split; [reflexivity|].
  rewrite (rt_find_abs c (s_rt s) k HI). destruct (rt_find_pure (s_rt s) k) as [[im x]|]; reflexivity.
Qed.

End EntryProofs.
