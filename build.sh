#!/bin/bash
# Builds everything the checks need from files on disk: Coq development, extracted model + OCaml
# comparator, Rust harness (both profiles) against /repo's current working tree.  Offline.
set -e
cd /verif
export CARGO_NET_OFFLINE=true
mkdir -p .cache
( cd coq && { [ -f Makefile ] && [ Makefile -nt _CoqProject ]; } || ( cd /verif/coq && coq_makefile -f _CoqProject -o Makefile >/dev/null ); cd /verif/coq && timeout 3000 make -j16 2>&1 | grep -v "^COQ\|^make" | tail -20; test ${PIPESTATUS[0]} -eq 0 )
( cd ocaml && if [ ! -f driver ] || [ ../coq/Map.vo -nt driver ] || [ driver.ml -nt driver ] || [ Extract.v -nt driver ]; then
    timeout 600 coqc -Q ../coq G Extract.v 2>&1 | grep -i "^error" -A5 || true
    ocamlfind ocamlopt -w -a model.mli model.ml driver.ml -o driver; fi )
( cd harness && cp /repo/Cargo.lock Cargo.lock 2>/dev/null || true
  export CARGO_TARGET_DIR=/verif/.cache/target RUSTFLAGS="--cfg griddle_verif"
  timeout 1200 cargo build --offline --features par,ser 2>&1 | grep -E "^(error|warning: unused)" -A8 | head -40; test ${PIPESTATUS[0]} -eq 0
  timeout 1200 cargo build --offline --release --features par,ser 2>&1 | grep -E "^error" -A8 | head -40; test ${PIPESTATUS[0]} -eq 0 )
echo BUILD-OK
