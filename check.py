#!/usr/bin/env python3
"""check.py <property> [--tier quick|thorough] [--replay FILE]

Decides one property of jonhoo/griddle (see DESIGN.md §4.4):
  1. builds the Coq development and audits it (no Admitted/Axiom..., Print Assumptions of the
     property's theorems closed, their statements pinned by `Check name : stmt`);
  2. rebuilds the harness against /repo's working tree (hooks on) in the profiles the property needs;
  3. runs seeded, phase-directed histories on the real crate, recording traces and running the
     property's monitors;
  4. runs the extracted Coq model over the same traces (correspondence);
  5. reports: exit 0, or `VIOLATION property=<id> replay=<path>` (+ ` no-failing-input-found` when the
     proof/correspondence broke but no monitor exhibited a failing input), honouring known_findings.txt;
  6. writes evidence/<id>.json.
"""
import json, os, re, subprocess, sys, time, shutil, glob

ROOT = os.path.dirname(os.path.abspath(__file__))
CACHE = os.path.join(ROOT, '.cache')
TARGET = os.path.join(CACHE, 'target')
ENV = dict(os.environ, CARGO_NET_OFFLINE='true', CARGO_TARGET_DIR=TARGET, RUSTFLAGS='--cfg griddle_verif')

# property -> configuration
#  families: (family, histories_quick, histories_thorough, maxops)
#  aspects: which parts of each trace record the comparator compares (Result State Hashes
#           Allocs/frees Kept-ledger Dumps)
#  profiles: harness build profiles the property needs
P = {
 'C01': dict(families=[('core', 120, 2500, 120), ('mixed', 120, 2500, 120), ('entry', 60, 1200, 120), ('entryd6', 20, 200, 120)], aspects='RSD', profiles=['debug'],
             theorems=['C01_step_refines', 'C01_run_refines', 'C01_run_refines_no_fuse', 'C01_len', 'C01_every_operation_is_covered']),
 'C02': dict(families=[('core', 120, 2000, 120), ('entry', 60, 1000, 120), ('churn', 6, 60, 6000), ('big', 1, 2, 20000)], big_thorough=120000, aspects='SHA', profiles=['release'],
             theorems=['C02_insert_bounded', 'C02_lookup_constant', 'C02_removal_constant', 'C02_entry_step_bounded', 'C02_entry_chain_bounded', 'C02_extend_is_reserve_then_loop', 'C02_extend_loop_bounded']),
 'C03': dict(families=[('core', 150, 2500, 120), ('iter', 60, 1000, 120), ('entry', 60, 1000, 120), ('big', 1, 2, 12000)], big_thorough=120000, aspects='SA', profiles=['release'],
             theorems=['C03_step', 'C03_entry_insert_step', 'C03_two_tables', 'C03_finishes_within_ceil_L_over_R']),
 'C04': dict(families=[('capacity', 150, 2500, 120), ('core', 100, 1500, 120), ('clone', 40, 600, 120), ('entry', 40, 600, 120)], aspects='RSA', profiles=['debug', 'release'],
             theorems=['C04_capacity_ge_len', 'C04_headroom_invariant', 'C04_full_implies_no_resize', 'C04_sizing_keeps_headroom', 'C04_fill']),
 'C08': dict(families=[('iter', 150, 2500, 120), ('mixed', 80, 1200, 120), ('set', 40, 600, 120)], aspects='RSD', profiles=['debug', 'release'],
             theorems=['C08_iter_each_once', 'C08_exact_len', 'C08_keys_values_same_order', 'C08_drain', 'C08_into_iter']),
 'C09': dict(families=[('iter', 200, 3000, 120), ('mixed', 60, 1000, 120), ('set', 40, 600, 120)], aspects='RSDK', profiles=['debug'],
             theorems=['C09_retain', 'C09_drain_filter', 'C09_panicking_predicate_keeps_invariant']),
 'C11': dict(families=[('clone', 200, 3000, 120), ('mixed', 60, 1000, 120), ('set', 40, 600, 120)], aspects='RSDK', profiles=['debug', 'release'],
             theorems=['C11_clone', 'C11_clone_from', 'C11_independent']),
 'C14': dict(families=[('clone', 150, 2500, 120), ('mixed', 80, 1200, 120), ('iter', 50, 800, 120), ('set', 60, 800, 120)], aspects='RD', profiles=['debug'],
             theorems=['C14_eq_iff', 'C14_eq_is_equivalence', 'C14_eq_false_when_differing', 'C14_lookup_by_contents', 'C14_iteration_by_contents']),
 'C10': dict(families=[('capacity', 200, 3000, 120), ('mixed', 60, 1000, 120)], aspects='RSA', profiles=['debug', 'release'],
             theorems=['C10_with_capacity', 'C10_reserve', 'C10_reserved_inserts', 'C10_try_reserve_err', 'C10_reserve_panic', 'C10_never_silent', 'C10_shrink']),
 'C12': dict(families=[('entry', 200, 3000, 120), ('mixed', 60, 1000, 120), ('entryd6', 60, 600, 120)], aspects='RSD', profiles=['debug', 'release'],
             asan=[('entry', 200, 3000, 120)],
             theorems=['C12_occupied_iff_present', 'C12_step_acts_on_designated_element', 'C12_inserting_call_handle_in_main', 'C12_entry_chain_refines',
                       'C12_raw_entry_chain_refines', 'C12_raw_entry_readonly', 'C12_replace_none_then_insert_one_element', 'C12_no_panic_outside_D6', 'C12_D6_refuted_witness']),
 'C17': dict(families=[('capacity', 200, 3000, 120), ('mixed', 150, 2500, 120), ('entry', 60, 1000, 120), ('iter', 60, 1000, 120)], aspects='RSDA', profiles=['debug', 'release'],
             cross_profile=True,
             theorems=['C17_profile_independent', 'C17_run_profile_independent', 'C17_no_assertion_fires', 'C17_sizes_fit']),
 'C06': dict(families=[('mixed', 150, 2500, 120), ('iter', 100, 1500, 120), ('entry', 60, 1000, 120), ('clone', 80, 1200, 120), ('core', 60, 1000, 120)], aspects='RSDK', profiles=['debug', 'release'],
             theorems=['C06_history_conserves_keys', 'C06_all_released_once_maps_are_gone', 'C06_never_dropped_twice_nor_dropped_and_handed_back', 'C06_keys_in_static', 'C06_law_covers_every_operation', 'C06_entry_step_conserves', 'C06_entry_chain_conserves', 'C06_raw_entry_chain_conserves', 'C06_moves_drop_nothing', 'C06_insert_drops_duplicate_key_only', 'C06_insert_conserves', 'C06_extend_conserves', 'C06_remove_hands_back', 'C06_lookup_drops_nothing', 'C06_reserve_drops_nothing',
                       'C06_shrink_drops_nothing', 'C06_iter_drops_nothing', 'C06_clone_drops_nothing', 'C06_clone_from_drops_destination_once', 'C06_eq_drops_nothing', 'C06_clear_drops_each_once', 'C06_drop_map_drops_each_once',
                       'C06_drain_drops_the_rest_once', 'C06_into_iter_drops_the_rest_once', 'C06_retain_conserves_keys', 'C06_drain_filter_conserves_keys', 'C06_lite_reachable']),
 'C13': dict(families=[('set', 120, 1500, 120), ('zst', 40, 400, 150)], aspects='RSD', profiles=['debug', 'release'],
             theorems=['C13_element_ops_refine', 'C13_algebra', 'C13_predicates', 'C13_iter_each_once']),
 'C07': dict(families=[('fuse', 300, 4000, 120)], aspects='RSDKA', profiles=['debug', 'release'],
             asan=[('fuse', 200, 3000, 120)],
             theorems=['C07_invariant_survives', 'C07_later_calls_behave_normally', 'C07_self_consistent', 'C07_insert_loses_nothing_else', 'C07_reserve_only_loses',
                       'C07_clone_source_untouched', 'C07_clone_from_interrupted', 'C07_entry_step_keeps_invariant']),
 'C15': dict(families=[('par', 150, 2000, 120), ('parset', 80, 1000, 120)], aspects='RSD', profiles=['debug', 'release'],
             theorems=['C15_pieces_partition', 'C15_schedule_independent', 'C15_par_iter_each_once', 'C15_par_is_sequential_up_to_order', 'C15_par_extend_same_collection',
                       'C15_extend_is_reference', 'C15_par_set_operations', 'C15_par_set_predicates']),
 'C16': dict(families=[('ser', 120, 500, 120), ('serset', 120, 800, 120)], aspects='RSD', profiles=['debug', 'release'],
             theorems=['C16_serialize_exact_len_each_once', 'C16_deserialize_collects', 'C16_roundtrip', 'C16_roundtrip_any_phase', 'C16_in_place_replaces_entirely']),
 'C05': dict(families=[('mixed', 120, 2000, 120), ('entry', 80, 1500, 120), ('iter', 80, 1500, 120), ('zst', 40, 400, 150), ('fuse', 300, 4000, 120)], aspects='RS', profiles=['debug', 'release'],
             asan=[('mixed', 100, 1500, 120), ('entry', 100, 1500, 120), ('iter', 60, 800, 120), ('zst', 30, 300, 150), ('fuse', 80, 1200, 120)],
             theorems=['C05_no_fault', 'C05_cursor_agrees']),
}

def sh(cmd, timeout=3000, env=None, cwd=ROOT, capture=True):
    r = subprocess.run(cmd, shell=isinstance(cmd, str), cwd=cwd, env=env or ENV, timeout=timeout,
                       stdout=subprocess.PIPE if capture else None, stderr=subprocess.STDOUT if capture else None, text=True)
    return r.returncode, (r.stdout or '')

def known_findings():
    out = []
    for line in open(os.path.join(ROOT, 'known_findings.txt')):
        line = line.strip()
        if line.startswith('finding:'):
            m = re.match(r'finding:\s+property=(\S+)\s+class=(\S+)\s+(.*)', line)
            if m: out.append(dict(property=m.group(1), cls=m.group(2), what=m.group(3), raw=line))
    return out

def coq_build():
    """full .vo build of the development; returns (ok, log)"""
    code, out = sh('cd coq && ([ -f Makefile ] && [ Makefile -nt _CoqProject ] || coq_makefile -f _CoqProject -o Makefile >/dev/null) && timeout 3000 make -j16 2>&1', timeout=3100)
    return code == 0, out

FORBIDDEN = re.compile(r'\b(Admitted|admit|Axiom|Axioms|Parameter|Parameters|Conjecture|Hypothesis|Variable|Variables|Hypotheses)\b|Unset Guard|bypass_check|Admit Obligations|-type-in-type|impredicative-set')

def audit(prop, theorems):
    """greps the development, recompiles the property file to read Print Assumptions."""
    problems = []
    nlemmas = 0
    for f in sorted(glob.glob(os.path.join(ROOT, 'coq', '*.v'))):
        src = open(f).read()
        src_nc = re.sub(r'\(\*.*?\*\)', '', src, flags=re.S)
        nlemmas += len(re.findall(r'^\s*(Lemma|Theorem|Example|Corollary|Fact|Remark|Proposition)\b', src_nc, flags=re.M))
        for i, line in enumerate(src_nc.split('\n')):
            m = FORBIDDEN.search(line)
            if m:
                # Context/Variable inside a Section are fine: we only allow `Context`
                problems.append(f'{os.path.basename(f)}: forbidden token {m.group(0)!r}: {line.strip()[:80]}')
    # every source file of the development is part of the project (a file compiled by hand would
    # make the build depend on a stale .vo)
    listed = set(open(os.path.join(ROOT, 'coq', '_CoqProject')).read().split())
    for f in sorted(glob.glob(os.path.join(ROOT, 'coq', '*.v'))):
        if os.path.basename(f) not in listed:
            problems.append(f'{os.path.basename(f)} is not listed in _CoqProject')
    pf = os.path.join(ROOT, 'coq', f'Prop_{prop}.v')
    assumptions = {}
    if not os.path.exists(pf):
        problems.append(f'Prop_{prop}.v missing')
        return problems, assumptions, nlemmas
    code, out = sh(f'cd coq && timeout 900 coqc -Q . G Prop_{prop}.v', timeout=1000)
    if code != 0:
        problems.append(f'Prop_{prop}.v does not compile: ' + out[-600:])
        return problems, assumptions, nlemmas
    src = open(pf).read()
    # every theorem must be stated, pinned and followed by Print Assumptions
    blocks = re.split(r'Print Assumptions\s+', src)
    printed = re.findall(r'Print Assumptions\s+(\w+)\.', src)
    chunks = re.split(r'(?=Closed under the global context|Axioms:)', out)
    closed = out.count('Closed under the global context')
    axioms_sections = re.findall(r'Axioms:\n((?:.+\n)+?)(?=\n|\Z)', out)
    for t in theorems:
        if not re.search(r'(Theorem|Lemma)\s+' + t + r'\b', src):
            problems.append(f'theorem {t} is not stated in Prop_{prop}.v')
        if t not in printed:
            problems.append(f'no Print Assumptions for {t}')
        m = re.search(r'Theorem\s+' + t + r'\b(.*?)Proof\.\s*exact\s+(\w+)\.\s*Qed\.', src, flags=re.S)
        if not m:
            problems.append(f'{t} is not closed by a bare `exact`')
    if closed < len(printed):
        problems.append('Print Assumptions reports axioms: ' + ' | '.join(a.strip().replace('\n', ' ')[:300] for a in axioms_sections))
    for t in printed:
        assumptions[t] = 'Closed under the global context' if closed >= len(printed) else 'see log'
    return problems, assumptions, nlemmas

def build_tools(profiles):
    code, out = sh('cd ocaml && if [ ! -f driver ] || [ ../coq/Map.vo -nt driver ] || [ driver.ml -nt driver ] || [ Extract.v -nt driver ]; then '
                   'timeout 900 coqc -Q ../coq G Extract.v >/dev/null 2>&1; ocamlfind ocamlopt -w -a model.mli model.ml driver.ml -o driver; fi', timeout=1200)
    if code != 0:
        return False, 'comparator build failed: ' + out[-800:]
    shutil.copyfile('/repo/Cargo.lock', os.path.join(ROOT, 'harness', 'Cargo.lock'))
    for p in profiles:
        flag = '--release' if p == 'release' else ''
        code, out = sh(f'cd harness && timeout 1500 cargo build --offline --features par,ser {flag} 2>&1', timeout=1600)
        if code != 0:
            return False, f'harness build ({p}) against /repo failed:\n' + out[-1500:]
    return True, ''

ASAN_TARGET = os.path.join(CACHE, 'target-asan')
ASAN_EXE = os.path.join(ASAN_TARGET, 'x86_64-unknown-linux-gnu', 'debug', 'gharness')

def build_asan():
    """the harness and the crate under AddressSanitizer (nightly toolchain, offline): supporting
    evidence for the memory-safety side of C05/C07/C12 - a use after free or an out-of-bounds access
    of the real crate aborts the run with a report even where it would not crash by itself"""
    env = dict(ENV, CARGO_TARGET_DIR=ASAN_TARGET, RUSTFLAGS='--cfg griddle_verif -Zsanitizer=address')
    code, out = sh('cd harness && timeout 1500 cargo +nightly build --offline --features par,ser --target x86_64-unknown-linux-gnu 2>&1', timeout=1600, env=env)
    return code == 0, out[-1200:]

def run_asan(prop, fam, nh, maxops, seed, rundir):
    base = os.path.join(rundir, f'{fam}.asan')
    res = dict(family=fam, profile='asan', histories=nh, seed=seed, trace=base + '.trace', maxops=maxops, diffs=[], viol=[], ops=0, stats={})
    env = dict(ENV, ASAN_OPTIONS='detect_leaks=0:abort_on_error=0:halt_on_error=1')
    try:
        code, out = sh([ASAN_EXE, '--seed', str(seed), '--histories', str(nh), '--family', fam, '--maxops', str(maxops),
                        '--out', base + '.trace', '--stats', base + '.json', '--progress', base + '.progress'], timeout=600, env=env)
    except subprocess.TimeoutExpired:
        code, out = -9, 'no result after 600s (hang)'
    res['harness_exit'] = code
    if code != 0:
        m = re.search(r'ERROR: AddressSanitizer: [^\n]*', out)
        res['harness_out'] = (m.group(0) + ' ... ' if m else '') + out[-300:]
        res['crashed'] = True
        try:
            res['crashed_in'] = open(base + '.progress').read().strip()
        except Exception:
            res['crashed_in'] = None
        return res
    try:
        res['stats'] = json.load(open(base + '.json'))
        res['ops'] = sum(v for k, v in res['stats'].get('stats', {}).items() if k.startswith('op:'))
        res['viol'] = [v for v in res['stats'].get('violations', []) if v['property'] == prop]
    except Exception as e:
        res.update(crashed=True, crashed_in=None, harness_out='unreadable statistics file under ASan: %s' % e)
    return res

# properties for which 'a read-only view of some map disagrees with the reference or with another
# view' is a failing input of the property itself (used only while searching for a failing input)
PROBE_PROPS = ('C01', 'C08', 'C12', 'C14')

def run_family(prop, fam, nh, maxops, seed, profile, aspects, rundir, tag='', budget_s=None, probe=False):
    exe = os.path.join(TARGET, 'release' if profile == 'release' else 'debug', 'gharness')
    base = os.path.join(rundir, f'{fam}{tag}.{profile}')
    # a hang (e.g. hashbrown probing a table that has no empty slot left) must not stall the check
    if budget_s is None:
        budget_s = 60 + (nh * maxops) // (1500 if fam != 'big' else 800)
    res = dict(family=fam, profile=profile, histories=nh, seed=seed, trace=base + '.trace', maxops=maxops)
    try:
        code, out = sh([exe, '--seed', str(seed), '--histories', str(nh), '--family', fam, '--maxops', str(maxops),
                        '--out', base + '.trace', '--stats', base + '.json', '--progress', base + '.progress']
                       + (['--probe', prop] if probe and prop in PROBE_PROPS and fam not in ('set', 'parset', 'serset', 'zst') else []), timeout=budget_s * (3 if probe else 1))
    except subprocess.TimeoutExpired:
        code, out = -9, f'no result after {budget_s}s (hang)'
    res['harness_exit'] = code
    res['harness_out'] = out[-400:]
    if code != 0:
        res['crashed'] = True
        try:
            res['crashed_in'] = open(base + '.progress').read().strip()
        except Exception:
            res['crashed_in'] = None
        res['stats'] = {}
        res['diffs'] = []
        res['viol'] = []
        res['ops'] = 0
        return res
    try:
        res['stats'] = json.load(open(base + '.json'))
    except Exception as e:
        res.update(crashed=True, crashed_in=None, stats={}, diffs=[], viol=[], ops=0,
                   harness_out='the harness wrote an unreadable statistics file (memory corruption?): %s' % e)
        return res
    if fam in ('set', 'parset', 'serset', 'zst'):
        aspects = aspects.replace('K', '')   # the set harness does not record the drop ledger (elements have no value object)
    code, out = sh([os.path.join(ROOT, 'ocaml', 'driver'), f'--aspects={aspects}', base + '.trace'], timeout=3000)
    res['diffs'] = [l for l in out.split('\n') if l.startswith('DIFF')]
    m = re.search(r'TOTAL histories=(\d+) ops=(\d+) diffs=(\d+)', out)
    res['ops'] = int(m.group(2)) if m else 0
    res['compared_histories'] = int(m.group(1)) if m else 0
    res['viol'] = [v for v in res['stats'].get('violations', []) if v['property'] == prop]
    res['viol_count_all'] = res['stats'].get('violation_count', 0)
    return res

def cross_profile_diff(ta, tb):
    """first difference between the transcripts of the same seeded histories from two build profiles
    (the header's profile flag aside): (history id, line number, line a, line b) or None"""
    cur = None
    with open(ta) as fa, open(tb) as fb:
        n = 0
        while True:
            la, lb = fa.readline(), fb.readline()
            n += 1
            if not la and not lb:
                return None
            if la.startswith('H ') and lb.startswith('H '):
                xa, xb = la.split(), lb.split()
                cur = xa[-1]
                xa[2] = xb[2] = '_'
                if xa != xb:
                    return (cur, n, la.strip(), lb.strip())
                continue
            if la != lb:
                return (cur, n, la.strip()[:300], lb.strip()[:300])

def hist_of(text):
    m = re.search(r'history=(\S+?)(?::|\s)op#', text + ' ')
    m2 = re.search(r'history=([a-z]+:\d+:\d+)', text)
    return m2.group(1) if m2 else None

def write_replay(prop, rundir, kind, hid, profile, detail, trace):
    os.makedirs(os.path.join(ROOT, 'replays'), exist_ok=True)
    path = os.path.join(ROOT, 'replays', f'{prop}-{int(time.time())}-{(hid or "none").replace(":", "_")}.json')
    rec = dict(property=prop, kind=kind, history=hid, profile=profile, detail=detail,
               how_to_replay='python3 check.py %s --replay <this file>  (regenerates history family:seed:index on the current /repo and prints model vs implementation)' % prop)
    if hid and trace and os.path.exists(trace):
        code, out = sh([os.path.join(ROOT, 'tools', 'hist.py'), trace, hid])
        rec['trace'] = out.split('\n')[:4000]
    json.dump(rec, open(path, 'w'), indent=1)
    return path

def replay(prop, path):
    rec = json.load(open(path))
    print(json.dumps({k: v for k, v in rec.items() if k != 'trace'}, indent=1))
    hid = rec.get('history')
    if not hid:
        print('no concrete history recorded: the replay names the broken obligation above')
        return 0
    fam, seed, idx = hid.split(':')
    profile = rec.get('profile') or 'debug'
    ok, msg = build_tools([profile])
    if not ok:
        print(msg); return 2
    rundir = os.path.join(CACHE, 'replay'); os.makedirs(rundir, exist_ok=True)
    exe = os.path.join(TARGET, 'release' if profile == 'release' else 'debug', 'gharness')
    maxops = rec.get('maxops', 120)
    base = os.path.join(rundir, 'replay')
    sh([exe, '--seed', seed, '--histories', str(int(idx) + 1), '--only', idx, '--family', fam, '--maxops', str(maxops), '--out', base + '.trace', '--stats', base + '.json'])
    st = json.load(open(base + '.json'))
    print('--- implementation (monitors):')
    for v in st.get('violations', []):
        print('  ', v['property'], v['what'])
    print('--- model vs implementation:')
    code, out = sh([os.path.join(ROOT, 'ocaml', 'driver'), '-v', base + '.trace'])
    print('\n'.join(out.split('\n')[-40:]))
    return 0

def main():
    args = sys.argv[1:]
    prop = args[0]
    tier = os.environ.get('VERIF_TIER', 'quick')
    if '--tier' in args:
        tier = args[args.index('--tier') + 1]
    if '--replay' in args:
        sys.exit(replay(prop, args[args.index('--replay') + 1]))
    seed = int(os.environ.get('VERIF_SEED', '1'))
    cfg = P[prop]
    t0 = time.time()
    rundir = os.path.join(CACHE, 'run', prop)
    shutil.rmtree(rundir, ignore_errors=True)
    os.makedirs(rundir, exist_ok=True)
    evidence_path = os.path.join(ROOT, 'evidence', f'{prop}.json')
    os.makedirs(os.path.dirname(evidence_path), exist_ok=True)
    problems = []           # broken proof obligations
    violations = []         # (kind, hid, profile, detail, trace)
    known_lines = []
    kf = [k for k in known_findings() if k['property'] == prop]

    def is_known(text):
        for k in kf:
            if k['cls'] in text:
                return k
        return None

    def alarming(r):
        return bool(r.get('crashed')) or any(not is_known(v['what']) for v in r['viol'])

    # 1. proofs
    okb, log = coq_build()
    if not okb:
        problems.append('Coq development does not build: ' + log[-1200:])
    aud, assumptions, nlemmas = audit(prop, cfg['theorems']) if okb else ([], {}, 0)
    problems += aud
    coqchk_note = 'not run (quick tier)'
    if okb and not aud and tier != 'quick':
        # the independent checker re-checks the property file and everything it depends on
        code, out = sh(f'cd coq && timeout 1500 coqchk -o -silent -Q . G G.Prop_{prop} 2>&1', timeout=1600)
        m = re.search(r'\* Axioms:\s*(.*?)\n\s*\n', out, flags=re.S)
        axioms = m.group(1).strip() if m else '?'
        coqchk_note = f'coqchk -o exit {code}; Axioms: {axioms}'
        if code != 0 or axioms != '<none>':
            problems.append('coqchk does not accept Prop_%s.vo axiom-free: %s' % (prop, out[-600:]))

    # 2-4. correspondence + monitors on the real crate
    okt, msg = build_tools(cfg['profiles'])
    runs = []
    if not okt:
        problems.append(msg)
    else:
        for (fam, nq, nt, maxops) in cfg['families']:
            nh = nq if tier == 'quick' else nt
            if fam == 'big' and tier != 'quick':
                maxops = cfg.get('big_thorough', maxops)
            for profile in cfg['profiles']:
                runs.append(run_family(prop, fam, nh, maxops, seed, profile, cfg['aspects'], rundir))
                if alarming(runs[-1]):
                    break
            if runs and alarming(runs[-1]):
                break
    if cfg.get('asan') and okt and not (runs and alarming(runs[-1])):
        oka, msga = build_asan()
        if not oka:
            problems.append('AddressSanitizer build of the harness failed: ' + msga)
        else:
            for (fam, nq, nt, maxops) in cfg['asan']:
                runs.append(run_asan(prop, fam, nq if tier == 'quick' else nt, maxops, seed, rundir))
                if alarming(runs[-1]):
                    break
    if cfg.get('cross_profile') and okt:
        # C17: the same seeded histories, run by the two binaries, must give the same transcript
        for ra in runs:
            for rb in runs:
                if ra['family'] == rb['family'] and ra['profile'] == 'debug' and rb['profile'] == 'release' \
                        and not ra.get('crashed') and not rb.get('crashed'):
                    d = cross_profile_diff(ra['trace'], rb['trace'])
                    ra['cross_profile_lines'] = sum(1 for _ in open(ra['trace']))
                    if d:
                        ra['viol'].append(dict(property=prop, what=f'history={d[0]} op#? debug and release builds disagree at transcript line {d[1]}: debug [{d[2]}] release [{d[3]}]'))
    diffs = [(r, d) for r in runs for d in r['diffs']]
    viols = [(r, v) for r in runs for v in r['viol']]
    crashed = [r for r in runs if r.get('crashed')]
    for r in crashed:
        violations.append(('harness-crash', r.get('crashed_in'), r['profile'],
                           f"the real crate hung, aborted or crashed while running history {r.get('crashed_in')} ({r['profile']} build): {r['harness_out']}", None))

    # extended search when the proof or the correspondence is broken but no monitor fired
    if (problems or diffs) and not [v for (_, v) in viols if not is_known(v['what'])] and not crashed and okt:
        # first the histories on which the correspondence broke, every map looked at through every
        # read-only view after every call
        if diffs and prop in PROBE_PROPS:
            r0 = diffs[0][0]
            r = run_family(prop, r0['family'], r0['histories'], r0['maxops'], r0['seed'], r0['profile'], cfg['aspects'], rundir, tag='.probe', probe=True)
            runs.append(r)
            viols += [(r, v) for v in r['viol']]
        for (fam, nq, nt, maxops) in ([] if [v for (_, v) in viols if not is_known(v['what'])] else cfg['families']):
            if fam == 'big':
                continue
            for profile in cfg['profiles']:
                r = run_family(prop, fam, (nq if tier == 'quick' else nt) * 6, maxops, seed + 7919, profile, cfg['aspects'], rundir, tag='.ext', probe=True)
                runs.append(r)
                viols += [(r, v) for v in r['viol']]
                if [v for (_, v) in viols if not is_known(v['what'])]:
                    break
            if [v for (_, v) in viols if not is_known(v['what'])]:
                break

    for (r, v) in viols:
        k = is_known(v['what'])
        if k:
            known_lines.append(f"KNOWN-FINDING: property={prop} {k['what']}")
            continue
        hid = hist_of(v['what'])
        violations.append(('monitor', hid, r['profile'], v['what'], r['trace']))
    if not violations and (problems or diffs):
        if diffs:
            r, d = diffs[0]
            violations.append(('correspondence', hist_of(d), r['profile'], 'model and implementation disagree (no monitor exhibited a failing input): ' + d[:600], r['trace']))
        else:
            violations.append(('proof', None, None, 'proof obligation no longer checks: ' + ' ;; '.join(problems)[:1500], None))

    # 6. evidence
    ops = sum(r['ops'] for r in runs)
    classes = sum(r['stats'].get('distinct_classes', 0) for r in runs)
    opstats = {}
    for r in runs:
        for k, v in r['stats'].get('stats', {}).items():
            opstats[k] = opstats.get(k, 0) + v
    samples = []
    for r in runs[:2]:
        try:
            with open(r['trace']) as f:
                lines = [next(f).rstrip() for _ in range(40)]
            samples.append(dict(family=r['family'], profile=r['profile'], first_records=[l for l in lines if l[:1] in 'HOPQRSL'][:24]))
        except Exception:
            pass
    samples.append(dict(theorems=cfg['theorems'], assumptions=assumptions))
    ev = dict(
        property_id=prop, tier=tier, seed=seed, level='proof',
        coverage=dict(
            obligations=nlemmas, discharged=(nlemmas if okb and not aud else 0),
            checker_cmd='make -C coq (coqc 8.16.1, full .vo build) && coqc -Q coq G coq/Prop_%s.v (Print Assumptions)' % prop,
            trusted_base=['Coq 8.16.1 kernel (coqc; no native_compute; vm_compute only in Examples)',
                          'std++ 1.8.0 (gmap, list), Coq stdlib (NArith, Lia)',
                          'Print Assumptions of every theorem in Prop_%s.v: %s' % (prop, ', '.join(f'{k}: {v}' for k, v in assumptions.items()) or 'n/a'),
                          'coqchk: ' + coqchk_note,
                          'extraction (ExtrOcamlBasic only, no Extract Constant of our own) + OCaml 4.13 comparator ocaml/driver.ml',
                          'Rust harness (generators, hook readers, counting allocator/hasher, ledger) and the cfg(griddle_verif) hook in griddle',
                          'hashbrown 0.14.5 modelled by contract (DESIGN.md section 3.3), its layout-dependent choices read from the implementation as oracle values'],
            traces_validated_against_impl=sum(r.get('compared_histories', 0) for r in runs),
            evaluations=ops,
            distinct_nontrivial=classes,
            rule='seeded phase-directed histories (harness/src/gen.rs); a case is one API call on the real crate compared with the Coq model; distinct_nontrivial counts distinct (resize phase x operation kind x key location x main-table-full) classes reached, summed over families',
            samples=samples,
            families=[dict(family=r['family'], profile=r['profile'], histories=r['histories'], ops=r['ops'], diffs=len(r['diffs']), monitor_violations=len(r['viol']), **({'transcript_lines_identical_in_debug_and_release': r['cross_profile_lines']} if r.get('cross_profile_lines') else {})) for r in runs],
            operation_histogram=opstats,
            model_impl_disagreements=len(diffs),
            proof_problems=problems,
            aspects_compared=cfg['aspects'],
        ),
        assumptions=['lawful Eq/Hash on keys; callbacks do not re-enter the map; Drop does not panic (one exception is exercised: a key destructor panicking while a drain_filter iterator is being dropped)',
                     'hashbrown behaves as one of the resolutions of the contract in coq/Raw.v (checked per trace, not proved)'],
        wall_s=round(time.time() - t0, 1),
        violations=len(violations),
    )
    json.dump(ev, open(evidence_path, 'w'), indent=1)
    for l in sorted(set(known_lines)):
        print(l)
    if violations:
        kind, hid, profile, detail, trace = violations[0]
        path = write_replay(prop, rundir, kind, hid, profile, detail, trace)
        suffix = '' if kind in ('monitor', 'harness-crash') else ' no-failing-input-found'
        print(detail[:800])
        print(f'VIOLATION property={prop} replay={path}{suffix}')
        sys.exit(1)
    print(f'{prop}: held on {ops} calls in {sum(r["histories"] for r in runs)} histories; {nlemmas} Coq obligations checked; {ev["wall_s"]}s')
    sys.exit(0)

if __name__ == '__main__':
    main()
