//! HashSet histories (C13): element operations are recorded in the vocabulary of the map model
//! (a set is a map to ()), the set algebra as `setalg` / `setpred` records; every result is also
//! checked against a BTreeSet reference on the spot.
use crate::rt::*;
use crate::{nlist, out_str, vio, Out, PEND, WHERE};
use griddle::HashSet;
use std::collections::{BTreeMap, BTreeSet};
use std::fmt::Write as _;
use std::panic::{catch_unwind, AssertUnwindSafe};
use std::sync::atomic::Ordering::SeqCst;

type Set = HashSet<K, HB>;
const NS: usize = 3;

/// in the parset family every algebra operation and predicate runs as its rayon variant, on a
/// thread pool of 1..16 workers
fn par_choice(cx: &mut SCtx) -> Option<usize> {
    if cx.par {
        Some(cx.rng.below(6) as usize)
    } else {
        None
    }
}

pub struct SCtx {
    pub sets: Vec<Option<Set>>,
    pub refs: Vec<BTreeMap<u64, u64>>, // class -> key object id
    pub out: String,
    pub rng: Rng,
    pub next_kid: u64,
    pub hist_id: String,
    pub opi: usize,
    pub stats: BTreeMap<String, u64>,
    pub classes: BTreeSet<String>,
    pub monitors: bool,
    pub tab_allocs: u64,
    pub tab_frees: u64,
    pub abort: bool,
    pub par: bool,
    pub ser: bool,
}

impl SCtx {
    fn kid(&mut self) -> u64 {
        self.next_kid += 1;
        self.next_kid
    }
    fn bump(&mut self, k: &str) {
        *self.stats.entry(k.to_string()).or_insert(0) += 1;
    }
}

fn state_str(m: Option<&Set>) -> String {
    match m {
        None => "gone".into(),
        Some(m) => {
            let s = m.verif_state();
            match s.old {
                None => format!("{} {} {} -", s.main_len, s.main_cap, s.main_buckets),
                Some((l, b, c)) => format!("{} {} {} {} {} {}", s.main_len, s.main_cap, s.main_buckets, l, b, c),
            }
        }
    }
}
fn order(m: &Set, main: bool) -> Vec<u64> {
    let mut v = Vec::new();
    m.verif_for_each(|in_main, k| {
        if in_main == main {
            v.push(k.class)
        }
    });
    v
}
fn dump_str(m: &Set) -> String {
    let mut a: Vec<(u64, u64)> = Vec::new();
    let mut b: Vec<(u64, u64)> = Vec::new();
    m.verif_for_each(|in_main, k| if in_main { a.push((k.class, k.id)) } else { b.push((k.class, k.id)) });
    a.sort();
    let mut s = format!("{}", a.len());
    for (k, kid) in &a {
        write!(s, " {} {} 0", k, kid).unwrap();
    }
    write!(s, " {}", b.len()).unwrap();
    for (k, kid) in &b {
        write!(s, " {} {} 0", k, kid).unwrap();
    }
    s
}
fn phase(m: &Set) -> &'static str {
    match m.verif_state().old {
        None => "none",
        Some((0, _, _)) => "emptied",
        Some(_) => "split",
    }
}

/// one recorded call; `slots` are the sets whose state is shown afterwards, `pslot` the one whose
/// iteration order the model needs
fn run(cx: &mut SCtx, toks: String, kind: &str, slots: &[usize], pslot: Option<usize>, body: impl FnOnce(&mut SCtx) -> Out) -> Out {
    check_len(cx);
    cx.opi += 1;
    WHERE.with(|w| *w.borrow_mut() = format!("history={} op#{}", cx.hist_id, cx.opi));
    cx.bump(&format!("op:{}", kind));
    let s0 = slots[0];
    let before = cx.sets[s0].as_ref().map(|m| m.verif_state());
    let ph: Vec<&str> = slots.iter().map(|s| cx.sets[*s].as_ref().map_or("gone", phase)).collect();
    cx.classes.insert(format!("{}|{}", kind, ph.join("+")));
    writeln!(cx.out, "O {}", toks).unwrap();
    if let Some(ps) = pslot {
        if let Some(m) = cx.sets[ps].as_ref() {
            writeln!(cx.out, "P {}", nlist(&order(m, true))).unwrap();
        }
    }
    arm(None);
    let r = catch_unwind(AssertUnwindSafe(|| body(cx)));
    let c = disarm();
    cx.tab_allocs += c.allocs;
    cx.tab_frees += c.frees;
    let out = match r {
        Ok(o) => o,
        Err(p) => Out::P(classify_panic(&*p)),
    };
    writeln!(cx.out, "R {}", out_str(&out)).unwrap();
    for &s in slots {
        writeln!(cx.out, "S {} {}", s, state_str(cx.sets[s].as_ref())).unwrap();
    }
    if let Some(a) = cx.sets[s0].as_ref().map(|m| m.verif_state()) {
        if let Some((ol, ob, _)) = a.old {
            let newold = match before.and_then(|b| b.old) {
                None => true,
                Some((bl, bb, _)) => ol > bl || ob != bb || matches!(kind, "reserve" | "try_reserve" | "extend" | "extend_ref" | "deserialize_in_place" | "clone_from"),
            };
            if newold {
                writeln!(cx.out, "Q {}", nlist(&order(cx.sets[s0].as_ref().unwrap(), false))).unwrap();
            }
        }
    }
    writeln!(cx.out, "L {} {} {} 0 0", c.hashes, c.allocs, c.frees).unwrap();
    if cx.rng.below(10) == 0 {
        for &s in slots {
            if let Some(m) = cx.sets[s].as_ref() {
                writeln!(cx.out, "D {} {}", s, dump_str(m)).unwrap();
            }
        }
    }
    if cx.monitors {
        if let Out::P(ref cl) = out {
            cx.abort = true;
            vio("C13", format!("set operation panicked ({}) in [{}]", cl, toks));
        }
    }
    writeln!(cx.out, "E").unwrap();
    out
}

/// the state the previous call left (the reference is updated by then)
fn check_len(cx: &mut SCtx) {
    if !cx.monitors || cx.abort {
        return;
    }
    for s in 0..NS {
        if let Some(m) = cx.sets[s].as_ref() {
            let st = m.verif_state();
            if m.is_empty() != (m.len() == 0) {
                vio("C13", format!("set {}: is_empty() is {} but len() is {}", s, m.is_empty(), m.len()));
            }
            if m.len() != cx.refs[s].len() || m.len() != st.main_len + st.old.map_or(0, |o| o.0) {
                vio("C13", format!("set {}: len() {} but the reference set holds {}", s, m.len(), cx.refs[s].len()));
            }
        }
    }
}

fn expect(cx: &SCtx, what: &str, got: &Out, want: &Out, toks: &str) {
    if cx.monitors && got != want && !matches!(got, Out::P(_)) {
        vio("C13", format!("{}: returned [{}], a reference set gives [{}] in [{}]", what, out_str(got), out_str(want), toks));
    }
}

fn op_new(cx: &mut SCtx, s: usize, hb: HB, cap: usize) {
    let toks = format!("new {} {} {}", s, hb.id, cap);
    cx.sets[s] = None;
    cx.refs[s].clear();
    run(cx, toks, "new", &[s], None, move |cx| {
        cx.sets[s] = Some(Set::with_capacity_and_hasher(cap, hb));
        Out::U
    });
}
fn op_insert(cx: &mut SCtx, s: usize, k: u64) {
    let kid = cx.kid();
    let toks = format!("ins {} {} {} 0", s, k, kid);
    let key = K::new(k, kid);
    let out = run(cx, toks.clone(), "insert", &[s], None, move |cx| {
        let b = cx.sets[s].as_mut().unwrap().insert(key);
        Out::OV(if b { None } else { Some(0) })
    });
    let want = if cx.refs[s].contains_key(&k) { Out::OV(Some(0)) } else { Out::OV(None) };
    cx.refs[s].entry(k).or_insert(kid);
    expect(cx, "insert", &out, &want, &toks);
}
fn op_replace(cx: &mut SCtx, s: usize, k: u64) {
    let kid = cx.kid();
    let present = cx.refs[s].get(&k).cloned();
    let toks = match present {
        Some(_) => format!("entry {} {} {} 1 orepk", s, k, kid),
        None => format!("entry {} {} {} 1 vins 0 -", s, k, kid),
    };
    let key = K::new(k, kid);
    let out = run(cx, toks.clone(), "replace", &[s], None, move |cx| {
        let r = cx.sets[s].as_mut().unwrap().replace(key);
        Out::S(vec![Out::N(r.map_or(0, |o| o.id))])
    });
    let want = Out::S(vec![Out::N(present.unwrap_or(0))]);
    cx.refs[s].insert(k, kid);
    expect(cx, "replace", &out, &want, &toks);
}
fn op_remove(cx: &mut SCtx, s: usize, k: u64, take: bool) {
    let toks = format!("rem {} {} {}", s, take as u8, k);
    let probe = K::new(k, 0);
    let out = run(cx, toks.clone(), if take { "take" } else { "remove" }, &[s], None, |cx| {
        let m = cx.sets[s].as_mut().unwrap();
        if take {
            Out::OKV(m.take(&probe).map(|o| (o.id, 0)))
        } else {
            Out::OV(if m.remove(&probe) { Some(0) } else { None })
        }
    });
    let cur = cx.refs[s].remove(&k);
    let want = if take { Out::OKV(cur.map(|c| (c, 0))) } else { Out::OV(cur.map(|_| 0)) };
    expect(cx, "remove/take", &out, &want, &toks);
}
fn op_get(cx: &mut SCtx, s: usize, k: u64, contains: bool) {
    let toks = format!("get {} {} {} 0", s, if contains { 2 } else { 1 }, k);
    let probe = K::new(k, 0);
    let out = run(cx, toks.clone(), if contains { "contains" } else { "get" }, &[s], None, |cx| {
        let m = cx.sets[s].as_ref().unwrap();
        if contains {
            Out::B(m.contains(&probe))
        } else {
            Out::OKV(m.get(&probe).map(|o| (o.id, 0)))
        }
    });
    let cur = cx.refs[s].get(&k).cloned();
    let want = if contains { Out::B(cur.is_some()) } else { Out::OKV(cur.map(|c| (c, 0))) };
    expect(cx, "get/contains", &out, &want, &toks);
}
/// get_or_insert (0), get_or_insert_owned (1), get_or_insert_with (2)
fn op_get_or_insert(cx: &mut SCtx, s: usize, k: u64, variant: u64) {
    let kid = cx.kid();
    let toks = if variant == 0 {
        format!("rawentry {} 0 {} 1 rorins {} 0 -", s, k, kid)
    } else {
        format!("rawentry {} 0 {} 1 rorinsw {} 0 -", s, k, kid)
    };
    let key = K::new(k, kid);
    let out = run(cx, toks.clone(), "get_or_insert", &[s], None, move |cx| {
        let m = cx.sets[s].as_mut().unwrap();
        let r: &K = match variant {
            0 => m.get_or_insert(key),
            1 => m.get_or_insert_owned(&key),
            _ => m.get_or_insert_with(&key, |q| K::new(q.class, q.id)),
        };
        Out::S(vec![Out::OKV(Some((r.id, 0)))])
    });
    let cur = *cx.refs[s].entry(k).or_insert(kid);
    expect(cx, "get_or_insert*", &out, &Out::S(vec![Out::OKV(Some((cur, 0)))]), &toks);
}
fn op_clear(cx: &mut SCtx, s: usize) {
    run(cx, format!("clear {}", s), "clear", &[s], None, |cx| {
        cx.sets[s].as_mut().unwrap().clear();
        Out::U
    });
    cx.refs[s].clear();
}
fn op_reserve(cx: &mut SCtx, s: usize, n: usize) {
    run(cx, format!("reserve {} {}", s, n), "reserve", &[s], None, |cx| {
        cx.sets[s].as_mut().unwrap().reserve(n);
        Out::U
    });
}
fn op_shrink(cx: &mut SCtx, s: usize, n: usize) {
    run(cx, format!("shrink {} {}", s, n), "shrink", &[s], None, |cx| {
        let m = cx.sets[s].as_mut().unwrap();
        if n == 0 {
            m.shrink_to_fit()
        } else {
            m.shrink_to(n)
        }
        Out::U
    });
}
fn op_iter(cx: &mut SCtx, s: usize) {
    let toks = format!("iter {} 0 0", s);
    let out = run(cx, toks.clone(), "iter", &[s], Some(s), |cx| {
        let m = cx.sets[s].as_ref().unwrap();
        let n = m.len();
        // IntoIterator for &HashSet is iter(); exact length at every step, None for good, clones
        let mut it = if n % 2 == 0 { m.iter() } else { m.into_iter() };
        let mut l: Vec<(u64, u64, u64)> = Vec::new();
        let mut i = 0usize;
        loop {
            if it.len() != n - i.min(n) || it.size_hint() != (n - i.min(n), Some(n - i.min(n))) {
                vio("C08", format!("HashSet::iter(): len() {} / size_hint {:?} after {} of {} elements", it.len(), it.size_hint(), i, n));
                vio("C13", format!("HashSet::iter(): len() {} after {} of {} elements", it.len(), i, n));
            }
            if i == n / 2 {
                let a: Vec<u64> = it.clone().map(|k| k.class).collect();
                let b: Vec<u64> = it.clone().map(|k| k.class).collect();
                if a != b || a.len() != n - i {
                    vio("C08", format!("a cloned HashSet::iter() yields {} / {} elements where {} are left", a.len(), b.len(), n - i));
                }
            }
            match it.next() {
                Some(k) => {
                    l.push((k.class, k.id, 0));
                    i += 1;
                }
                None => break,
            }
            if i > n + 2 {
                break;
            }
        }
        if it.next().is_some() || it.next().is_some() {
            vio("C08", "HashSet::iter() yielded an element after None".into());
        }
        // Debug shows the same elements as iteration
        let t = format!("{:?}", m);
        let mut d: Vec<u64> = t.trim().trim_start_matches('{').trim_end_matches('}').split(", ").filter_map(|x| x.trim().parse().ok()).collect();
        d.sort();
        let mut e: Vec<u64> = l.iter().map(|x| x.0).collect();
        e.sort();
        if d != e {
            vio("C14", format!("Debug of a set shows {} elements, iter() yields {}", d.len(), e.len()));
            vio("C13", format!("Debug of a set shows {} elements, iter() yields {}", d.len(), e.len()));
        }
        Out::L(l)
    });
    if let Out::L(mut l) = out {
        l.sort();
        let want: Vec<(u64, u64, u64)> = cx.refs[s].iter().map(|(k, kid)| (*k, *kid, 0)).collect();
        if cx.monitors && l != want {
            vio("C13", format!("iter() yielded {} elements, the reference set holds {} (each exactly once) in [{}]", l.len(), want.len(), toks));
        }
    }
}
fn op_retain(cx: &mut SCtx, s: usize, keep: Vec<u64>) {
    let toks = format!("retain {} 0 {}", s, nlist(&keep));
    let ks: BTreeSet<u64> = keep.iter().cloned().collect();
    let ks2 = ks.clone();
    let out = run(cx, toks.clone(), "retain", &[s], Some(s), move |cx| {
        let mut log = Vec::new();
        cx.sets[s].as_mut().unwrap().retain(|k| {
            cb();
            log.push((k.class, k.id, 0));
            ks2.contains(&k.class)
        });
        Out::L(log)
    });
    let want: Vec<(u64, u64, u64)> = cx.refs[s].iter().map(|(k, kid)| (*k, *kid, 0)).collect();
    cx.refs[s].retain(|k, _| ks.contains(k));
    if let Out::L(mut l) = out {
        l.sort();
        if cx.monitors && l != want {
            vio("C13", format!("retain visited {} elements, the set held {} in [{}]", l.len(), want.len(), toks));
        }
    }
}
fn op_drain(cx: &mut SCtx, s: usize, j: u64) {
    let toks = format!("drain {} {} 0", s, j);
    let out = run(cx, toks.clone(), "drain", &[s], Some(s), move |cx| {
        let m = cx.sets[s].as_mut().unwrap();
        let n = m.len();
        let mut it = m.drain();
        let mut l = Vec::new();
        for i in 0..j as usize {
            if it.len() != n - i.min(n) || it.size_hint() != (n - i.min(n), Some(n - i.min(n))) {
                vio("C08", format!("HashSet::drain(): len() {} / size_hint {:?} after {} of {} elements", it.len(), it.size_hint(), i, n));
            }
            match it.next() {
                Some(k) => l.push((k.class, k.id, 0)),
                None => {
                    if it.next().is_some() {
                        vio("C08", "HashSet::drain() yielded an element after None".into());
                    }
                    break;
                }
            }
        }
        drop(it);
        Out::L(l)
    });
    if let Out::L(l) = out {
        if cx.monitors {
            let mut seen = BTreeSet::new();
            for (k, kid, _) in &l {
                if cx.refs[s].get(k) != Some(kid) || !seen.insert(*k) {
                    vio("C13", format!("drain yielded {} which the set did not hold (or twice) in [{}]", k, toks));
                }
            }
            if l.len() as u64 != j.min(cx.refs[s].len() as u64) {
                vio("C13", format!("drain yielded {} of {} elements when asked for {} in [{}]", l.len(), cx.refs[s].len(), j, toks));
            }
        }
    }
    cx.refs[s].clear();
}
fn op_extend(cx: &mut SCtx, s: usize, keys: Vec<u64>) {
    // order-independent only when the keys are distinct and absent or the set is watched key by key
    for k in keys {
        op_insert(cx, s, k);
    }
}

fn sorted_kids<'a>(it: impl Iterator<Item = &'a K>) -> Vec<(u64, u64, u64)> {
    let mut v: Vec<(u64, u64, u64)> = it.map(|k| (k.class, k.id, 0)).collect();
    v.sort();
    v
}
/// difference (0), symmetric_difference (1), intersection (2), union (3); 4..7 the operator forms
fn op_alg(cx: &mut SCtx, kind: u64, a: usize, b: usize, par: Option<usize>) {
    // the rayon variants are kinds 8-11 of the model (they choose their operands differently)
    let par = if kind < 4 { par } else { None };
    let toks = format!("setalg {} {} {}", if par.is_some() { kind + 8 } else { kind }, a, b);
    let slots: Vec<usize> = if a == b { vec![a] } else { vec![a, b] };
    let out = run(cx, toks.clone(), ["difference", "symmetric_difference", "intersection", "union", "sub", "bitxor", "bitand", "bitor"][kind as usize], &slots, None, |cx| {
        let sa = cx.sets[a].as_ref().unwrap();
        let sb = cx.sets[b].as_ref().unwrap();
        #[cfg(feature = "par")]
        if let (Some(p), true) = (par, kind < 4) {
            use rayon::prelude::*;
            let mut v: Vec<(u64, u64, u64)> = crate::par::pool(p).install(|| match kind {
                0 => sa.par_difference(sb).map(|k| (k.class, k.id, 0)).collect(),
                1 => sa.par_symmetric_difference(sb).map(|k| (k.class, k.id, 0)).collect(),
                2 => sa.par_intersection(sb).map(|k| (k.class, k.id, 0)).collect(),
                _ => sa.par_union(sb).map(|k| (k.class, k.id, 0)).collect(),
            });
            v.sort();
            return Out::L(v);
        }
        let _ = par;
        // the lazy iterators: size_hint must bracket what comes, a clone must yield the same
        macro_rules! lazy {
            ($it:expr, $name:expr) => {{
                let it = $it;
                let (lo, hi) = it.size_hint();
                let c = sorted_kids(it.clone());
                let v = sorted_kids(it);
                if lo > v.len() || hi.map_or(false, |h| h < v.len()) {
                    vio("C13", format!("{}: size_hint ({}, {:?}) but {} elements came", $name, lo, hi, v.len()));
                }
                if c != v {
                    vio("C13", format!("{}: a clone of the iterator yields {} elements, the iterator {}", $name, c.len(), v.len()));
                }
                v
            }};
        }
        let l = match kind {
            0 => lazy!(sa.difference(sb), "difference"),
            1 => lazy!(sa.symmetric_difference(sb), "symmetric_difference"),
            2 => lazy!(sa.intersection(sb), "intersection"),
            3 => lazy!(sa.union(sb), "union"),
            _ => {
                let r: Set = match kind {
                    4 => sa - sb,
                    5 => sa ^ sb,
                    6 => sa & sb,
                    _ => sa | sb,
                };
                let v = sorted_kids(r.iter());
                if r.len() != v.len() {
                    vio("C13", format!("operator result has len() {} but iterates {} elements", r.len(), v.len()));
                }
                v
            }
        };
        Out::L(l)
    });
    if !cx.monitors {
        return;
    }
    if let Out::L(l) = out {
        let ra: BTreeSet<u64> = cx.refs[a].keys().cloned().collect();
        let rb: BTreeSet<u64> = cx.refs[b].keys().cloned().collect();
        let want: Vec<u64> = match kind % 4 {
            0 => ra.difference(&rb).cloned().collect(),
            1 => ra.symmetric_difference(&rb).cloned().collect(),
            2 => ra.intersection(&rb).cloned().collect(),
            _ => ra.union(&rb).cloned().collect(),
        };
        let got: Vec<u64> = l.iter().map(|x| x.0).collect();
        if got != want {
            let dup = got.windows(2).any(|w| w[0] == w[1]);
            vio("C13", format!("{} yields {} elements{}, the mathematical result has {} (|a|={} |b|={}) in [{}]",
                ["difference", "symmetric_difference", "intersection", "union"][(kind % 4) as usize], got.len(), if dup { " with a duplicate" } else { "" }, want.len(), ra.len(), rb.len(), toks));
            if par.is_some() {
                vio("C15", format!("parallel {} visits {} elements{}, the sequential one {} in [{}]",
                    ["difference", "symmetric_difference", "intersection", "union"][(kind % 4) as usize], got.len(), if dup { " (one of them twice)" } else { "" }, want.len(), toks));
            }
        }
        // every yielded object is the one stored in the operand it came from
        for (k, kid, _) in &l {
            if cx.refs[a].get(k) != Some(kid) && cx.refs[b].get(k) != Some(kid) {
                vio("C13", format!("yielded element {} is not an element object of either operand in [{}]", k, toks));
            }
        }
    }
}
/// is_disjoint (0), is_subset (1), is_superset (2), == (3)
fn op_pred(cx: &mut SCtx, kind: u64, a: usize, b: usize, par: Option<usize>) {
    let toks = format!("setpred {} {} {}", if par.is_some() { kind + 4 } else { kind }, a, b);
    let slots: Vec<usize> = if a == b { vec![a] } else { vec![a, b] };
    let out = run(cx, toks.clone(), ["is_disjoint", "is_subset", "is_superset", "eq"][kind as usize], &slots, None, |cx| {
        let sa = cx.sets[a].as_ref().unwrap();
        let sb = cx.sets[b].as_ref().unwrap();
        #[cfg(feature = "par")]
        if let Some(p) = par {
            return Out::B(crate::par::pool(p).install(|| match kind {
                0 => sa.par_is_disjoint(sb),
                1 => sa.par_is_subset(sb),
                2 => sa.par_is_superset(sb),
                _ => sa.par_eq(sb),
            }));
        }
        let _ = par;
        Out::B(match kind {
            0 => sa.is_disjoint(sb),
            1 => sa.is_subset(sb),
            2 => sa.is_superset(sb),
            _ => sa == sb,
        })
    });
    let ra: BTreeSet<u64> = cx.refs[a].keys().cloned().collect();
    let rb: BTreeSet<u64> = cx.refs[b].keys().cloned().collect();
    let want = Out::B(match kind {
        0 => ra.is_disjoint(&rb),
        1 => ra.is_subset(&rb),
        2 => ra.is_superset(&rb),
        _ => ra == rb,
    });
    expect(cx, "set predicate", &out, &want, &toks);
    if par.is_some() && cx.monitors && out != want && !matches!(out, Out::P(_)) {
        vio("C15", format!("parallel set predicate returned [{}], the sequential definition gives [{}] in [{}]", out_str(&out), out_str(&want), toks));
    }
    if kind == 3 && cx.monitors && out != want && !matches!(out, Out::P(_)) {
        vio("C14", format!("set == returned [{}] for contents whose equality is [{}] (hashers {} and {}) in [{}]", out_str(&out), out_str(&want), cx.sets[a].as_ref().unwrap().hasher().id, cx.sets[b].as_ref().unwrap().hasher().id, toks));
    }
}
/// serde on sets: Serialize (declared length + each element in order), Deserialize into another
/// slot, deserialize_in_place over whatever the destination holds
#[cfg(feature = "ser")]
fn op_serialize(cx: &mut SCtx, s: usize) -> Vec<(u64, u64, u64)> {
    let mut items: Vec<(u64, u64, u64)> = Vec::new();
    let mut problem: Option<String> = None;
    let out = run(cx, format!("serialize {}", s), "serialize", &[s], Some(s), |cx| {
        let m = cx.sets[s].as_ref().unwrap();
        match crate::ser::emit(m) {
            Ok(e) => {
                if e.kind != "seq" || !e.ended || !e.vals.is_empty() {
                    problem = Some(format!("not a well-formed sequence: kind {} ended {}", e.kind, e.ended));
                }
                for k in &e.keys {
                    let (c, i) = crate::ser::dec(*k);
                    items.push((c, i, 0));
                }
                Out::S(vec![Out::N(e.declared.map_or(u64::MAX, |n| n as u64)), Out::L(items.clone())])
            }
            Err(m) => {
                problem = Some(m);
                Out::U
            }
        }
    });
    if cx.monitors {
        if let Some(p) = problem {
            vio("C16", format!("Serialize of set {}: {}", s, p));
        }
        let m = cx.sets[s].as_ref().unwrap();
        let seq: Vec<(u64, u64, u64)> = m.iter().map(|k| (k.class, k.id, 0)).collect();
        if let Out::S(ref l) = out {
            if l[0] != Out::N(m.len() as u64) {
                vio("C16", format!("Serialize declared length {:?} for a set of {} elements", l[0], m.len()));
            }
            if l[1] != Out::L(seq.clone()) {
                vio("C16", format!("Serialize emitted {} elements, iter() yields {} (each once, in iteration order)", items.len(), seq.len()));
            }
        }
    }
    items
}
#[cfg(feature = "ser")]
fn op_deserialize(cx: &mut SCtx, d: usize, items: Vec<(u64, u64, u64)>, hint: Option<usize>, in_place: bool) {
    let mut toks = if in_place {
        format!("deserinplace {} {} {}", d, hint.unwrap_or(0), items.len())
    } else {
        format!("fromiter {} 0 {} {}", d, crate::ser::cautious(hint), items.len())
    };
    for (k, kid, v) in &items {
        write!(toks, " {} {} {}", k, kid, v).unwrap();
    }
    if !in_place && cx.sets[d].is_some() {
        // an unrecorded drop of the set that was there: its deallocations still count
        arm(None);
        cx.sets[d] = None;
        let c = disarm();
        cx.tab_allocs += c.allocs;
        cx.tab_frees += c.frees;
    }
    let xs: Vec<u64> = items.iter().map(|(k, kid, _)| crate::ser::enc(*k, *kid)).collect();
    let mut err: Option<String> = None;
    run(cx, toks.clone(), if in_place { "deserialize_in_place" } else { "deserialize" }, &[d], None, |cx| {
        if in_place {
            if let Err(e) = crate::ser::seq_in_place::<Set>(cx.sets[d].as_mut().unwrap(), xs, hint) {
                err = Some(e);
            }
        } else {
            match crate::ser::seq_from::<Set>(xs, hint) {
                Ok(m) => cx.sets[d] = Some(m),
                Err(e) => {
                    err = Some(e);
                    cx.sets[d] = Some(Set::default());
                }
            }
        }
        Out::U
    });
    cx.refs[d].clear();
    for (k, kid, _) in &items {
        cx.refs[d].entry(*k).or_insert(*kid);
    }
    if cx.monitors {
        if let Some(e) = err {
            vio("C16", format!("deserialisation failed: {} in [{}]", e, toks));
        }
        let m = cx.sets[d].as_ref().unwrap();
        let got: Vec<(u64, u64)> = { let mut v: Vec<(u64, u64)> = m.iter().map(|k| (k.class, k.id)).collect(); v.sort(); v };
        let want: Vec<(u64, u64)> = cx.refs[d].iter().map(|(k, kid)| (*k, *kid)).collect();
        if got != want {
            vio("C16", format!("after {} the set holds {} elements, the elements read are {} (the previous contents must be replaced entirely)", if in_place { "deserialize_in_place" } else { "deserialize" }, got.len(), want.len()));
        }
    }
}
#[cfg(feature = "ser")]
fn ser_op(cx: &mut SCtx, s: usize, universe: u64) {
    let d = (s + 1 + cx.rng.below(NS as u64 - 1) as usize) % NS;
    match cx.rng.below(10) {
        0..=3 => {
            // round trip into another slot
            let items = op_serialize(cx, s);
            let hint = crate::ser::pick_hint(&mut cx.rng, items.len());
            op_deserialize(cx, d, items, hint, false);
            if cx.monitors && cx.sets[d].as_ref().unwrap() != cx.sets[s].as_ref().unwrap() {
                vio("C16", format!("the round trip of set {} through serde is not equal to it", s));
            }
        }
        4..=6 => {
            // in place over whatever d holds (any resize phase), from what s serialises to
            let items = op_serialize(cx, s);
            let hint = crate::ser::pick_hint(&mut cx.rng, items.len());
            op_deserialize(cx, d, items, hint, true);
            if cx.monitors && cx.sets[d].as_ref().unwrap() != cx.sets[s].as_ref().unwrap() {
                vio("C16", format!("deserialize_in_place of what set {} serialises to does not equal it", s));
            }
        }
        7 => {
            // in place from an empty sequence
            let hint = crate::ser::pick_hint(&mut cx.rng, 0);
            op_deserialize(cx, s, Vec::new(), hint, true);
        }
        _ => {
            // arbitrary input with repeats
            // (a repeated element directly follows its first occurrence: which table a later
            // repeat would be found in depends on the order a resize started by this very call
            // moves elements in, which the trace cannot tell the model)
            let n = cx.rng.below(25);
            let mut seen = BTreeSet::new();
            let mut items: Vec<(u64, u64, u64)> = Vec::new();
            for _ in 0..n {
                let k = cx.rng.below(universe.min(60));
                if seen.insert(k) {
                    items.push((k, cx.kid(), 0));
                    if cx.rng.below(3) == 0 {
                        items.push((k, cx.kid(), 0));
                    }
                }
            }
            let hint = crate::ser::pick_hint(&mut cx.rng, items.len());
            let ip = cx.rng.below(2) == 0;
            op_deserialize(cx, s, items, hint, ip);
        }
    }
}

/// an iterator of keys with a chosen lower size hint
struct KIt(std::vec::IntoIter<K>, usize);
impl Iterator for KIt {
    type Item = K;
    fn next(&mut self) -> Option<K> {
        self.0.next()
    }
    fn size_hint(&self) -> (usize, Option<usize>) {
        (self.1, None)
    }
}
/// HashSet::drain_filter, consumed for j items (all if None), then dropped or forgotten; `bomb`:
/// an element whose destructor panics if the iterator's own Drop is what drops it
fn op_drain_filter(cx: &mut SCtx, s: usize, take: Vec<u64>, j: Option<u64>, forget: bool, bomb: Option<u64>) {
    let toks = format!("drainfilter {} 0 {} {} {}", s, j.map_or("-".to_string(), |x| x.to_string()), forget as u8, nlist(&take));
    let ts: BTreeSet<u64> = take.iter().cloned().collect();
    let ts2 = ts.clone();
    let bomb_kid = if forget { None } else { bomb.and_then(|b| cx.refs[s].get(&b).cloned()) };
    if bomb_kid.is_some() {
        cx.bump("drainfilter_bomb");
    }
    let mut seen_v: Vec<u64> = Vec::new();
    let seen = AssertUnwindSafe(&mut seen_v);
    let out = run(cx, toks.clone(), "drain_filter", &[s], Some(s), move |cx| {
        let mut seen = seen;
        let m = cx.sets[s].as_mut().unwrap();
        let mut got: Vec<(u64, u64, u64)> = Vec::new();
        let mut it = m.drain_filter(|k| {
            cb();
            seen.push(k.class);
            ts2.contains(&k.class)
        });
        let mut n = 0u64;
        while j.map_or(true, |j| n < j) {
            match it.next() {
                Some(k) => {
                    got.push((k.class, k.id, 0));
                    bury(k);
                    n += 1;
                }
                None => {
                    if it.next().is_some() {
                        vio("C09", "HashSet::drain_filter yielded an item after None".into());
                    }
                    break;
                }
            }
        }
        if forget {
            std::mem::forget(it);
        } else {
            match bomb_kid {
                Some(b) if !got.iter().any(|g| g.1 == b) => {
                    BOMB.store(b, SeqCst);
                    let r = catch_unwind(AssertUnwindSafe(move || drop(it)));
                    BOMB.store(0, SeqCst);
                    if let Err(p) = r {
                        if !p.is::<FusePanic>() {
                            std::panic::resume_unwind(p);
                        }
                    }
                }
                _ => drop(it),
            }
        }
        Out::L(got)
    });
    exhume();
    if let Out::L(ref got) = out {
        let mut want_y: Vec<(u64, u64, u64)> = Vec::new();
        for (k, _, _) in got {
            if let Some(kid) = cx.refs[s].remove(k) {
                want_y.push((*k, kid, 0));
            }
        }
        if !forget {
            cx.refs[s].retain(|k, _| !ts.contains(k));
        }
        if cx.monitors {
            let mut g = got.clone();
            g.sort();
            want_y.sort();
            if g != want_y || got.iter().any(|(k, _, _)| !ts.contains(k)) {
                vio("C13", format!("HashSet::drain_filter yielded something that was not in the set, twice, or that the predicate rejected in [{}]", toks));
                vio("C09", format!("HashSet::drain_filter yielded something that was not in the set, twice, or that the predicate rejected in [{}]", toks));
            }
            let mut sv = seen_v.clone();
            sv.sort();
            let n0 = sv.len();
            sv.dedup();
            if sv.len() != n0 {
                vio("C09", format!("HashSet::drain_filter called the predicate twice on one element in [{}]", toks));
            }
            let m = cx.sets[s].as_ref().unwrap();
            let mut have: Vec<u64> = m.iter().map(|k| k.class).collect();
            have.sort();
            let want: Vec<u64> = cx.refs[s].keys().cloned().collect();
            if have != want {
                vio("C13", format!("after HashSet::drain_filter the set holds {} elements, the reference {} in [{}]", have.len(), want.len(), toks));
                vio("C09", format!("after HashSet::drain_filter the set holds {} elements, the reference {} (matching elements must go, the others stay) in [{}]", have.len(), want.len(), toks));
            }
        }
    }
}
/// HashSet::into_iter, consumed for j items, then dropped; the slot is empty afterwards
fn op_into_iter(cx: &mut SCtx, s: usize, j: u64) {
    let toks = format!("intoiter {} {}", s, j);
    let out = run(cx, toks.clone(), "into_iter", &[s], Some(s), move |cx| {
        let m = cx.sets[s].take().unwrap();
        let n = m.len();
        let mut it = m.into_iter();
        let mut l = Vec::new();
        for i in 0..j as usize {
            if it.len() != n - i.min(n) || it.size_hint() != (n - i.min(n), Some(n - i.min(n))) {
                vio("C08", format!("HashSet::into_iter: len() {} / size_hint {:?} after {} of {} items", it.len(), it.size_hint(), i, n));
            }
            match it.next() {
                Some(k) => {
                    l.push((k.class, k.id, 0));
                    bury(k);
                }
                None => {
                    if it.next().is_some() {
                        vio("C08", "HashSet::into_iter yielded an item after None".into());
                    }
                    break;
                }
            }
        }
        drop(it);
        Out::L(l)
    });
    exhume();
    if let Out::L(l) = out {
        if cx.monitors {
            let mut seen = BTreeSet::new();
            for (k, kid, _) in &l {
                if cx.refs[s].get(k) != Some(kid) || !seen.insert(*k) {
                    vio("C13", format!("into_iter yielded {} which the set did not hold (or twice) in [{}]", k, toks));
                    vio("C08", format!("HashSet::into_iter yielded {} which the set did not hold (or twice)", k));
                }
            }
            if l.len() as u64 != j.min(cx.refs[s].len() as u64) {
                vio("C08", format!("HashSet::into_iter yielded {} of {} elements when asked for {}", l.len(), cx.refs[s].len(), j));
            }
        }
    }
    cx.refs[s].clear();
}
fn op_clone(cx: &mut SCtx, s: usize, d: usize) {
    let toks = format!("clone {} {}", s, d);
    cx.sets[d] = None;
    let before = cx.sets[s].as_ref().map(dump_str);
    let out = run(cx, toks.clone(), "clone", &[s, d], None, move |cx| {
        let c = cx.sets[s].as_ref().unwrap().clone();
        let id = c.hasher().id;
        cx.sets[d] = Some(c);
        Out::N(id)
    });
    cx.refs[d] = cx.refs[s].clone();
    if cx.monitors && !matches!(out, Out::P(_)) {
        let (a, b) = (cx.sets[s].as_ref().unwrap(), cx.sets[d].as_ref().unwrap());
        if cx.sets[s].as_ref().map(dump_str) != before {
            vio("C11", format!("HashSet::clone changed its source in [{}]", toks));
        }
        if a != b || b != a || sorted_kids(a.iter()) != sorted_kids(b.iter()) {
            vio("C11", format!("HashSet::clone is not equal to its source in [{}]", toks));
        }
    }
}
fn op_clone_from(cx: &mut SCtx, d: usize, s: usize) {
    let toks = format!("clonefrom {} {}", d, s);
    let before = cx.sets[s].as_ref().map(dump_str);
    let out = run(cx, toks.clone(), "clone_from", &[d, s], None, move |cx| {
        let (a, b) = if d < s {
            let (x, y) = cx.sets.split_at_mut(s);
            (x[d].as_mut().unwrap(), y[0].as_ref().unwrap())
        } else {
            let (x, y) = cx.sets.split_at_mut(d);
            (y[0].as_mut().unwrap(), x[s].as_ref().unwrap())
        };
        a.clone_from(b);
        Out::N(a.hasher().id)
    });
    cx.refs[d] = cx.refs[s].clone();
    if cx.monitors && !matches!(out, Out::P(_)) {
        let (a, b) = (cx.sets[s].as_ref().unwrap(), cx.sets[d].as_ref().unwrap());
        if cx.sets[s].as_ref().map(dump_str) != before {
            vio("C11", format!("HashSet::clone_from changed its source in [{}]", toks));
        }
        if a != b || sorted_kids(a.iter()) != sorted_kids(b.iter()) || a.hasher() != b.hasher() {
            vio("C11", format!("HashSet::clone_from: result differs from the source (or kept its own hasher) in [{}]", toks));
        }
    }
}
/// Extend<T> / Extend<&T> with a chosen size hint (all keys new to the set or the call small
/// enough not to grow: see the map harness)
fn op_extend_real(cx: &mut SCtx, s: usize, keys: Vec<u64>, hint: usize, by_ref: bool) {
    let items: Vec<(u64, u64)> = keys.iter().map(|k| (*k, cx.kid())).collect();
    let mut toks = format!("extend {} {} {}", s, hint, items.len());
    for (k, kid) in &items {
        write!(toks, " {} {} 0", k, kid).unwrap();
    }
    let objs: Vec<K> = items.iter().map(|(k, kid)| K::new(*k, *kid)).collect();
    run(cx, toks.clone(), if by_ref { "extend_ref" } else { "extend" }, &[s], None, move |cx| {
        cx.sets[s].as_mut().unwrap().extend(KIt(objs.into_iter(), hint));
        Out::U
    });
    for (k, kid) in items {
        cx.refs[s].entry(k).or_insert(kid);
    }
}
/// FromIterator (the hasher is S::default())
fn op_from_iter(cx: &mut SCtx, s: usize, keys: Vec<u64>, hint: usize) {
    let items: Vec<(u64, u64)> = keys.iter().map(|k| (*k, cx.kid())).collect();
    let mut toks = format!("fromiter {} {} {} {}", s, HB::default().id, hint, items.len());
    for (k, kid) in &items {
        write!(toks, " {} {} 0", k, kid).unwrap();
    }
    let objs: Vec<K> = items.iter().map(|(k, kid)| K::new(*k, *kid)).collect();
    cx.sets[s] = None;
    cx.refs[s].clear();
    run(cx, toks.clone(), "from_iter", &[s], None, move |cx| {
        cx.sets[s] = Some(KIt(objs.into_iter(), hint).collect::<Set>());
        Out::U
    });
    for (k, kid) in items {
        cx.refs[s].entry(k).or_insert(kid);
    }
}
fn op_try_reserve(cx: &mut SCtx, s: usize, n: usize) {
    let toks = format!("tryreserve {} {}", s, n);
    let out = run(cx, toks.clone(), "try_reserve", &[s], None, |cx| Out::B(cx.sets[s].as_mut().unwrap().try_reserve(n).is_ok()));
    if cx.monitors {
        let m = cx.sets[s].as_ref().unwrap();
        if out == Out::B(true) && m.capacity() < m.len() + n {
            vio("C10", format!("HashSet::try_reserve({}) returned Ok with capacity {} < len {} + n", n, m.capacity(), m.len()));
        }
    }
}
/// rayon on sets, outside the recorded history (on a clone, so that the model's state is not
/// involved): par_extend and from_par_iter (the by-reference flavour needs T: Copy, which the tracked element type is not) build the same set as the
/// sequential extend / from_iter - for equal elements the one already there, else the first in
/// input order, stays
#[cfg(feature = "par")]
fn par_extend_monitor(cx: &mut SCtx, s: usize, keys: Vec<u64>, pool_ix: usize) {
    use rayon::prelude::*;
    if !cx.monitors {
        return;
    }
    cx.bump("op:set_par_extend");
    let items: Vec<(u64, u64)> = keys.iter().map(|k| (*k, cx.kid())).collect();
    let mut want: BTreeMap<u64, u64> = cx.refs[s].clone();
    let mut fresh: BTreeMap<u64, u64> = BTreeMap::new();
    for (k, kid) in &items {
        want.entry(*k).or_insert(*kid);
        fresh.entry(*k).or_insert(*kid);
    }
    let want: Vec<(u64, u64, u64)> = want.iter().map(|(k, kid)| (*k, *kid, 0)).collect();
    let fresh: Vec<(u64, u64, u64)> = fresh.iter().map(|(k, kid)| (*k, *kid, 0)).collect();
    let mk = |items: &Vec<(u64, u64)>| -> Vec<K> { items.iter().map(|(k, kid)| K::new(*k, *kid)).collect() };
    let pool = crate::par::pool(pool_ix);
    let src = cx.sets[s].as_ref().unwrap();
    // owned elements
    let mut a: Set = src.clone();
    let objs = mk(&items);
    pool.install(|| a.par_extend(objs));
    if sorted_kids(a.iter()) != want || a.len() != want.len() {
        vio("C15", format!("HashSet::par_extend of {} items into a set of {}: {} elements, sequential extend gives {} (or another element object was kept)", items.len(), src.len(), a.len(), want.len()));
    }
    // from_par_iter
    let objs = mk(&items);
    let c: Set = pool.install(|| objs.into_par_iter().collect());
    if sorted_kids(c.iter()) != fresh || c.len() != fresh.len() {
        vio("C15", format!("HashSet::from_par_iter of {} items: {} elements, sequential from_iter gives {} (or another element object was kept)", items.len(), c.len(), fresh.len()));
    }
}
fn op_drop(cx: &mut SCtx, s: usize) {
    run(cx, format!("drop {}", s), "drop", &[s], None, |cx| {
        cx.sets[s] = None;
        Out::U
    });
    cx.refs[s].clear();
}

/// bring set s to a chosen resize phase by inserting fresh keys
fn drive(cx: &mut SCtx, s: usize, fresh: &mut u64) {
    let want = cx.rng.below(4);
    for _ in 0..200 {
        let st = cx.sets[s].as_ref().unwrap().verif_state();
        let done = match (want, st.old) {
            (0, None) => true,
            (1, Some((l, _, _))) => l > 0,                    // resize in flight
            (2, Some((l, _, _))) => l > 0 && l <= 8,          // nearly done
            (3, None) => st.main_cap == st.main_len,          // full: the next insert starts a resize
            _ => false,
        };
        if done {
            break;
        }
        *fresh += 1;
        op_insert(cx, s, 1000 + *fresh);
    }
}

pub fn history(cx: &mut SCtx, maxops: u64) {
    let universe = 8 + cx.rng.below(90);
    let mut fresh = 0u64;
    for s in 0..NS {
        let hb = HB { kind: [0u8, 0, 3, 4][cx.rng.below(4) as usize], id: 1 + cx.rng.below(5) };
        let cap = [0usize, 0, 3, 14, 28][cx.rng.below(5) as usize];
        op_new(cx, s, hb, cap);
        // every overlap pattern: each set takes its own random share of a common universe
        let share = cx.rng.below(5);
        for k in 0..universe {
            if cx.rng.below(4) < share {
                op_insert(cx, s, k);
            }
        }
    }
    let mut n = 0;
    while (cx.opi as u64) < maxops.max(60) + 200 && n < maxops && !cx.abort {
        n += 1;
        let s = cx.rng.below(NS as u64) as usize;
        let k = if cx.rng.below(8) == 0 { 1000 + cx.rng.below(fresh + 1) } else { cx.rng.below(universe + 4) };
        #[cfg(feature = "ser")]
        if cx.ser && cx.rng.below(4) == 0 {
            ser_op(cx, s, universe);
            continue;
        }
        #[cfg(feature = "par")]
        if cx.par && cx.rng.below(12) == 0 {
            let n = cx.rng.below(40);
            let ks: Vec<u64> = (0..n).map(|_| cx.rng.below(universe + 4)).collect();
            let p = cx.rng.below(6) as usize;
            par_extend_monitor(cx, s, ks, p);
            continue;
        }
        match cx.rng.below(100) {
            0..=13 => op_insert(cx, s, k),
            14..=19 => op_replace(cx, s, k),
            20..=27 => op_remove(cx, s, k, false),
            28..=32 => op_remove(cx, s, k, true),
            33..=36 => op_get(cx, s, k, false),
            37..=40 => op_get(cx, s, k, true),
            41..=46 => {
                let v = cx.rng.below(3);
                op_get_or_insert(cx, s, k, v)
            }
            47 => op_clear(cx, s),
            48..=49 => {
                let n = cx.rng.below(40) as usize;
                op_reserve(cx, s, n)
            }
            50..=51 => {
                let n = cx.rng.below(30) as usize;
                op_shrink(cx, s, n)
            }
            52..=53 => op_iter(cx, s),
            54..=56 => {
                let p = 1 + cx.rng.below(4);
                let keep: Vec<u64> = cx.refs[s].keys().cloned().filter(|_| cx.rng.below(5) < p).collect();
                op_retain(cx, s, keep)
            }
            57 => {
                let j = cx.rng.below(cx.refs[s].len() as u64 + 2);
                op_drain(cx, s, j)
            }
            58 => {
                let ks: Vec<u64> = (0..cx.rng.below(12)).map(|_| cx.rng.below(universe + 4)).collect();
                op_extend(cx, s, ks)
            }
            59 => {
                // a real extend(): keys all new to the set (growth inside the call is then order-independent;
                // with tombstones the call stays within the free capacity, as in the map harness)
                let st0 = cx.sets[s].as_ref().unwrap().verif_state();
                let bc = if st0.main_buckets <= 8 { st0.main_buckets.saturating_sub(1) } else { st0.main_buckets / 8 * 7 };
                let tombs = bc.saturating_sub(st0.main_cap);
                let free0 = (st0.main_cap - st0.main_len) as u64;
                let n = if tombs > 0 { cx.rng.below(free0.min(24) + 1) } else { cx.rng.below(24) };
                let mut ks: Vec<u64> = Vec::new();
                for _ in 0..n {
                    fresh += 1;
                    ks.push(1000 + fresh);
                }
                let hint = match cx.rng.below(5) {
                    0 => 0,
                    1 => ks.len(),
                    2 => ks.len() / 2,
                    3 => ks.len() * 2 + 1,
                    _ => cx.rng.below(40) as usize,
                };
                op_extend_real(cx, s, ks, hint, false)
            }
            60..=61 => {
                let p = 1 + cx.rng.below(4);
                let take: Vec<u64> = cx.refs[s].keys().cloned().filter(|_| cx.rng.below(5) < p).collect();
                let j = if cx.rng.chance(1, 2) { None } else { Some(cx.rng.below(take.len() as u64 + 2)) };
                let forget = j.is_some() && cx.rng.chance(1, 4);
                if forget {
                    cx.bump("forgotten");
                }
                let bomb = if j.is_some() && !forget && !take.is_empty() && cx.rng.chance(1, 2) { Some(take[cx.rng.below(take.len() as u64) as usize]) } else { None };
                op_drain_filter(cx, s, take, j, forget, bomb)
            }
            62 => {
                let n = cx.refs[s].len() as u64;
                let j = if cx.rng.chance(1, 2) { n + 3 } else { cx.rng.below(n + 1) };
                op_into_iter(cx, s, j);
                // the slot is rebuilt at once: FromIterator, or a fresh empty set
                if cx.rng.chance(1, 2) {
                    let mut ks: Vec<u64> = Vec::new();
                    for _ in 0..cx.rng.below(30) {
                        let k = cx.rng.below(universe + 4);
                        if !ks.contains(&k) {
                            ks.push(k);
                        }
                    }
                    let hint = cx.rng.below(20) as usize;
                    op_from_iter(cx, s, ks, hint);
                } else {
                    let hb = HB { kind: [0u8, 0, 3, 4][cx.rng.below(4) as usize], id: 1 + cx.rng.below(5) };
                    let cap = [0usize, 0, 3, 14, 28][cx.rng.below(5) as usize];
                    op_new(cx, s, hb, cap);
                }
            }
            63 => {
                let d = (s + 1 + cx.rng.below(NS as u64 - 1) as usize) % NS;
                op_drop(cx, d);
                op_clone(cx, s, d)
            }
            64 => {
                let d = (s + 1 + cx.rng.below(NS as u64 - 1) as usize) % NS;
                op_clone_from(cx, d, s)
            }
            65 => {
                let n = cx.rng.below(40) as usize;
                op_try_reserve(cx, s, n)
            }
            66..=69 => drive(cx, s, &mut fresh),
            70..=89 => {
                let kind = cx.rng.below(8);
                let b = cx.rng.below(NS as u64) as usize;
                let p = par_choice(cx);
                op_alg(cx, kind, s, b, p)
            }
            _ => {
                let kind = cx.rng.below(4);
                let b = cx.rng.below(NS as u64) as usize;
                let p = par_choice(cx);
                op_pred(cx, kind, s, b, p)
            }
        }
    }
    // a full sweep of the algebra on the final states, both operand orders
    if !cx.abort {
        for a in 0..NS {
            for b in 0..NS {
                for kind in 0..8 {
                    let p = par_choice(cx);
                    op_alg(cx, kind, a, b, p);
                }
                for kind in 0..4 {
                    let p = par_choice(cx);
                    op_pred(cx, kind, a, b, p);
                }
            }
        }
    }
    check_len(cx);
    if cx.abort {
        for s in 0..NS {
            std::mem::forget(cx.sets[s].take());
        }
        cx.bump("forgotten");
    }
    for s in 0..NS {
        if cx.sets[s].is_some() {
            op_drop(cx, s);
        }
    }
    let live = LIVE.with(|l| l.borrow().len());
    if cx.monitors && !cx.abort && live != 0 {
        vio("C06", format!("{} objects still alive after every set was dropped", live));
    }
    if cx.monitors && !cx.abort && cx.tab_allocs != cx.tab_frees {
        vio("C06", format!("{} table allocations but {} deallocations by the end of the set history", cx.tab_allocs, cx.tab_frees));
    }
    LIVE.with(|l| l.borrow_mut().clear());
    let _ = &PEND;
}

/// Zero-sized elements (HashSet<()>): at most one element, but every structural path exists
/// (the old table's cached iterator cannot be told about a removal for a ZST: defect D2).
pub fn zst_history(cx: &mut SCtx, maxops: u64) {
    type Z = HashSet<(), HB>;
    let mut sets: Vec<Option<Z>> = vec![None, None];
    let state = |m: Option<&Z>| -> String {
        match m {
            None => "gone".into(),
            Some(m) => {
                let s = m.verif_state();
                match s.old {
                    None => format!("{} {} {} -", s.main_len, s.main_cap, s.main_buckets),
                    Some((l, b, c)) => format!("{} {} {} {} {} {}", s.main_len, s.main_cap, s.main_buckets, l, b, c),
                }
            }
        }
    };
    let mut refs = [false, false];
    let mut n = 0u64;
    while n < maxops {
        n += 1;
        let s = cx.rng.below(2) as usize;
        if sets[s].is_none() {
            let cap = [0usize, 0, 1, 3, 14][cx.rng.below(5) as usize];
            let id = 1 + cx.rng.below(3);
            cx.opi += 1;
            WHERE.with(|w| *w.borrow_mut() = format!("history={} op#{}", cx.hist_id, cx.opi));
            writeln!(cx.out, "O new {} {} {}", s, id, cap).unwrap();
            arm(None);
            sets[s] = Some(Z::with_capacity_and_hasher(cap, HB { kind: 0, id }));
            let c = disarm();
            cx.tab_allocs += c.allocs;
            cx.tab_frees += c.frees;
            writeln!(cx.out, "R U\nS {} {}\nL {} {} {} 0 0\nE", s, state(sets[s].as_ref()), c.hashes, c.allocs, c.frees).unwrap();
            refs[s] = false;
            continue;
        }
        let (toks, kind): (String, u64) = match cx.rng.below(12) {
            0..=2 => (format!("ins {} 0 0 0", s), 0),
            3..=4 => (format!("rem {} 0 0", s), 1),
            5 => (format!("rem {} 1 0", s), 2),
            6 => (format!("get {} 2 0 0", s), 3),
            7 => { let a = cx.rng.below(40); (format!("reserve {} {}", s, a), 4 + (a << 8)) }
            8 => { let a = cx.rng.below(20); (format!("shrink {} {}", s, a), 5 + (a << 8)) }
            9 => (format!("clear {}", s), 6),
            10 => (format!("iter {} 0 0", s), 7),
            _ => (format!("drop {}", s), 8),
        };
        cx.opi += 1;
        WHERE.with(|w| *w.borrow_mut() = format!("history={} op#{}", cx.hist_id, cx.opi));
        cx.bump(&format!("op:zst{}", kind & 0xff));
        let had_old = sets[s].as_ref().unwrap().verif_state().old;
        writeln!(cx.out, "O {}", toks).unwrap();
        if kind & 0xff == 7 {
            let inmain = { let mut v = Vec::new(); sets[s].as_ref().unwrap().verif_for_each(|im, _| if im { v.push(0u64) }); v };
            writeln!(cx.out, "P {}", nlist(&inmain)).unwrap();
        }
        arm(None);
        let arg = (kind >> 8) as usize;
        let r = catch_unwind(AssertUnwindSafe(|| {
            let m = sets[s].as_mut().unwrap();
            match kind & 0xff {
                0 => Out::OV(if m.insert(()) { None } else { Some(0) }),
                1 => Out::OV(if m.remove(&()) { Some(0) } else { None }),
                2 => Out::OKV(m.take(&()).map(|_| (0, 0))),
                3 => Out::B(m.contains(&())),
                4 => { m.reserve(arg); Out::U }
                5 => { if arg == 0 { m.shrink_to_fit() } else { m.shrink_to(arg) }; Out::U }
                6 => { m.clear(); Out::U }
                7 => Out::L(m.iter().map(|_| (0, 0, 0)).collect()),
                _ => Out::U,
            }
        }));
        if kind & 0xff == 8 {
            sets[s] = None;
        }
        let c = disarm();
        cx.tab_allocs += c.allocs;
        cx.tab_frees += c.frees;
        let out = match r { Ok(o) => o, Err(p) => Out::P(classify_panic(&*p)) };
        writeln!(cx.out, "R {}", out_str(&out)).unwrap();
        writeln!(cx.out, "S {} {}", s, state(sets[s].as_ref())).unwrap();
        if let Some(m) = sets[s].as_ref() {
            if let Some((ol, ob, _)) = m.verif_state().old {
                let newold = match had_old { None => true, Some((bl, bb, _)) => ol > bl || ob != bb || kind & 0xff == 4 };
                if newold {
                    let q: Vec<u64> = (0..ol).map(|_| 0).collect();
                    writeln!(cx.out, "Q {}", nlist(&q)).unwrap();
                }
            }
        }
        writeln!(cx.out, "L {} {} {} 0 0\nE", c.hashes, c.allocs, c.frees).unwrap();
        // reference: a set of units
        let want = match kind & 0xff {
            0 => { let w = Out::OV(if refs[s] { Some(0) } else { None }); refs[s] = true; w }
            1 => { let w = Out::OV(if refs[s] { Some(0) } else { None }); refs[s] = false; w }
            2 => { let w = Out::OKV(if refs[s] { Some((0, 0)) } else { None }); refs[s] = false; w }
            3 => Out::B(refs[s]),
            6 => { refs[s] = false; Out::U }
            7 => Out::L(if refs[s] { vec![(0, 0, 0)] } else { vec![] }),
            8 => { refs[s] = false; Out::U }
            _ => Out::U,
        };
        if cx.monitors {
            if let Out::P(ref cl) = out {
                vio("C05", format!("a set of zero-sized elements panicked ({}) in [{}]", cl, toks));
                vio("C13", format!("a set of zero-sized elements panicked ({}) in [{}]", cl, toks));
                cx.abort = true;
                break;
            } else if out != want {
                vio("C13", format!("HashSet<()>: [{}] returned [{}], a reference set gives [{}]", toks, out_str(&out), out_str(&want)));
            }
            if let Some(m) = sets[s].as_ref() {
                let st = m.verif_state();
                if m.len() != refs[s] as usize || m.len() != st.main_len + st.old.map_or(0, |o| o.0) {
                    vio("C13", format!("HashSet<()>: len() {} after [{}], the reference holds {}", m.len(), toks, refs[s] as usize));
                }
                if let Some((ol, _, cur)) = st.old {
                    if ol != cur {
                        vio("C05", format!("HashSet<()>: cached iterator believes {} left, old table holds {} after [{}]", cur, ol, toks));
                    }
                }
            }
        }
    }
    if cx.abort {
        for s in sets.iter_mut() {
            std::mem::forget(s.take());
        }
    }
}
