//! Phase-directed history generation.  Every choice comes from cx.rng.
use super::*;

#[derive(Clone, Copy, PartialEq, Debug)]
enum EK {
    Occ(bool), // occupied; bool: the handle still holds its own key (replace_key is defined)
    Vac,
    Done,
}

fn hb_for(cx: &mut Ctx, kinds: &[u8]) -> HB {
    let kind = *cx.rng.pick(kinds);
    HB { kind, id: 1 + cx.rng.below(1000) * 8 + kind as u64 }
}

const CAPS: [usize; 11] = [0, 0, 1, 3, 4, 7, 8, 14, 28, 29, 56];

pub struct Hist {
    pub universe: u64,
    pub fuse_p: u64, // one in fuse_p operations gets a fuse (0 = never)
}

fn keys_where(cx: &Ctx, s: usize, want_main: bool) -> Vec<u64> {
    let mut v = Vec::new();
    if let Some(m) = cx.maps[s].as_ref() {
        m.verif_for_each(|im, k, _| {
            if im == want_main {
                v.push(k.class)
            }
        });
    }
    v
}

pub fn pick_key(cx: &mut Ctx, s: usize, h: &Hist) -> u64 {
    let big = cx.maps[s].as_ref().map_or(0, |m| m.len()) > 2000;
    let c = cx.rng.below(8);
    if !big && c < 2 {
        let o = keys_where(cx, s, false);
        if !o.is_empty() {
            return *cx.rng.pick(&o);
        }
    }
    if !big && c < 4 {
        let o = keys_where(cx, s, true);
        if !o.is_empty() {
            return *cx.rng.pick(&o);
        }
    }
    cx.rng.below(h.universe)
}

fn fresh_key(cx: &mut Ctx, s: usize, h: &Hist) -> u64 {
    let rf = cx.refs[s].as_ref().unwrap();
    for _ in 0..64 {
        let k = cx.rng.below(h.universe.max(2 * rf.len() as u64 + 8));
        if !cx.refs[s].as_ref().unwrap().contains_key(&k) {
            return k;
        }
    }
    let mut k = h.universe + cx.rng.below(1 << 40);
    while cx.refs[s].as_ref().unwrap().contains_key(&k) {
        k += 1;
    }
    k
}

fn fuse_for(cx: &mut Ctx, h: &Hist) -> Option<u64> {
    if h.fuse_p > 0 && cx.rng.below(h.fuse_p) == 0 {
        Some(cx.rng.below(12))
    } else {
        None
    }
}

/// Drives slot s into a resize phase.
fn drive(cx: &mut Ctx, s: usize, h: &Hist, phase: u64) {
    match phase {
        0 => {}
        _ => {
            // insert fresh keys until a resize is pending (at most a few doublings)
            let mut guard = 0;
            while cx.maps[s].as_ref().unwrap().verif_state().old.is_none() && guard < 400 && !cx.abort {
                let k = fresh_key(cx, s, h);
                op_insert(cx, s, k, None);
                guard += 1;
            }
            if phase == 2 {
                let n = cx.rng.below(4);
                for _ in 0..n {
                    if cx.maps[s].as_ref().unwrap().verif_state().old.map_or(0, |o| o.0) > cx.r_const {
                        let k = fresh_key(cx, s, h);
                        op_insert(cx, s, k, None);
                    }
                }
            }
            if phase == 3 {
                // empty the old table by retain (it stays allocated)
                let keep = keys_where(cx, s, true);
                op_retain(cx, s, keep, 0, None);
            }
            if phase == 4 {
                // empty it by removals (the last one releases it) but leave one
                let o = keys_where(cx, s, false);
                for k in o.iter().skip(1) {
                    { let e = cx.rng.chance(1, 2); op_remove(cx, s, e, *k); }
                }
            }
            if phase == 5 {
                // tombstones in the main table
                let m = keys_where(cx, s, true);
                for k in m.iter().take(6) {
                    op_remove(cx, s, false, *k);
                }
            }
        }
    }
}

fn subset(cx: &mut Ctx, s: usize) -> Vec<u64> {
    let mainks = keys_where(cx, s, true);
    let oldks = keys_where(cx, s, false);
    match cx.rng.below(6) {
        0 => vec![],
        1 => mainks.iter().chain(oldks.iter()).cloned().collect(),
        2 => oldks,
        3 => mainks,
        _ => {
            let p = 1 + cx.rng.below(3);
            mainks.iter().chain(oldks.iter()).cloned().filter(|_| cx.rng.below(4) < p).collect()
        }
    }
}

fn entry_chain(cx: &mut Ctx, present: bool, raw: bool, allow_d6: bool) -> Vec<Step> {
    let mut st = if present { EK::Occ(!raw) } else { EK::Vac };
    let mut steps = Vec::new();
    let depth = 1 + cx.rng.below(3);
    for i in 0..depth {
        let last = i + 1 == depth;
        match st {
            EK::Done => break,
            EK::Occ(has_key) => {
                let c = cx.rng.below(if last { 16 } else { 9 });
                let d = 1 + cx.rng.below(9);
                let step = match c {
                    0 => if raw { Step::RawOccKeyValue } else { Step::Key },
                    1 => Step::AndModify(d),
                    2 => Step::OccGet,
                    3 => Step::OccGetMut(cx.val()),
                    4 => Step::OccInsert(cx.val()),
                    5 => { let keep = cx.rng.chance(1, 2); if !keep { st = EK::Vac } Step::AndReplace(keep, d) }
                    6 => { let keep = cx.rng.chance(1, 2); if !keep { st = EK::Vac } Step::OccReplaceWith(keep, d) }
                    7 => if raw { Step::RawOccInsertKey(cx.kid()) } else { Step::InsertE(cx.val()) },
                    8 => if raw { Step::RawInsert(cx.kid(), cx.val()) } else { Step::Key },
                    9 => { st = EK::Done; if raw { Step::RawOrInsert(cx.kid(), cx.val(), Some(cx.val())) } else { Step::OrInsert(cx.val(), Some(cx.val())) } }
                    10 => { st = EK::Done; if raw { Step::RawOrInsertWith(cx.kid(), cx.val(), None) } else if cx.rng.chance(1, 2) { Step::OrInsertWith(0, Some(cx.val())) } else { Step::OrInsertWith(cx.val(), None) } }
                    11 => { st = EK::Done; Step::OccIntoMut(cx.val()) }
                    12 => { st = EK::Done; Step::OccRemove }
                    13 => { st = EK::Done; Step::OccRemoveEntry }
                    14 => { if raw { Step::OccGet } else if has_key || allow_d6 { st = EK::Done; Step::OccReplaceEntry(cx.val()) } else { Step::OccGet } }
                    _ => { if raw { Step::Key } else if has_key || allow_d6 { st = EK::Done; Step::OccReplaceKey } else { Step::OccGet } }
                };
                steps.push(step);
            }
            EK::Vac => {
                let c = cx.rng.below(8);
                let d = 1 + cx.rng.below(9);
                let w = if cx.rng.chance(1, 2) { Some(cx.val()) } else { None };
                let step = match c {
                    0 => if raw { Step::AndModify(d) } else { Step::Key },
                    1 => Step::AndModify(d),
                    2 => Step::AndReplace(cx.rng.chance(1, 2), d),
                    3 => { st = EK::Done; if raw { Step::RawOrInsert(cx.kid(), cx.val(), w) } else { Step::OrInsert(cx.val(), w) } }
                    4 => { st = EK::Done; if raw { Step::RawOrInsertWith(cx.kid(), cx.val(), w) } else if cx.rng.chance(1, 2) { Step::OrInsertWith(0, w) } else { Step::OrInsertWith(cx.val(), w) } }
                    5 => { if raw { st = EK::Occ(false); Step::RawInsert(cx.kid(), cx.val()) } else { st = EK::Occ(false); Step::InsertE(cx.val()) } }
                    6 => { st = EK::Done; if raw { Step::RawVacInsert(cx.rng.below(3), cx.kid(), cx.val(), w) } else { Step::VacInsert(cx.val(), w) } }
                    _ => { st = EK::Done; if raw { Step::RawVacInsert(cx.rng.below(3), cx.kid(), cx.val(), w) } else if cx.rng.chance(1, 2) { Step::OrInsertWithKey(cx.val(), w) } else { Step::VacIntoKey } }
                };
                steps.push(step);
            }
        }
    }
    steps
}

fn live_slots(cx: &Ctx) -> Vec<usize> {
    (0..NSLOTS).filter(|s| cx.maps[*s].is_some()).collect()
}

fn boundary_arg(cx: &mut Ctx, s: usize) -> usize {
    let m = cx.maps[s].as_ref().unwrap();
    let free = m.capacity() - m.len();
    let len = m.len();
    let j = cx.rng.below(2 * (len as u64 / 8 + 2) + len as u64 + 3) as usize;
    match cx.rng.below(10) {
        0 => 0,
        1 => free,
        2 => free + 1,
        3 => free.saturating_sub(1),
        4 => usize::MAX - j,
        5 => (isize::MAX as usize) - j,
        6 => (isize::MAX as usize) + j,
        7 => usize::MAX / 8 - j,
        8 => cx.rng.below(3 * (len as u64 + 8)) as usize,
        _ => cx.rng.below(64) as usize,
    }
}

pub fn history(cx: &mut Ctx, family: &str, maxops: u64) {
    let universe = *cx.rng.pick(&[8u64, 24, 64, 64, 200, 200, 1000]);
    let mut h = Hist { universe, fuse_p: 0 };
    let kinds: &[u8] = &[0, 0, 1, 2, 3, 3, 4];
    let hb = hb_for(cx, kinds);
    let cap = *cx.rng.pick(&CAPS);
    match family {
        "big" => {
            // insert-dominated growth over many doublings (C02/C03/C04 at scale)
            h.universe = 1 << 40;
            cx.dump_every = 0;
            op_new(cx, 0, HB { kind: 3, id: 3 }, 0);
            let target = maxops;
            let mut next = 0u64;
            while (cx.maps[0].as_ref().unwrap().len() as u64) < target && !cx.abort {
                match cx.rng.below(40) {
                    0 => { let k = cx.rng.below(next + 1); op_remove(cx, 0, false, k); }
                    1 => { let k = cx.rng.below(next + 1); let v = cx.rng.below(3); op_get(cx, 0, v, k); }
                    2 => { let k = cx.rng.below(next + 1); op_insert(cx, 0, k, None); }
                    _ => { op_insert(cx, 0, next, None); next += 1; }
                }
            }
            return;
        }
        "churn" => {
            // sliding window: grow, drain the oldest, then remove-oldest / insert-new at constant
            // size: tables full of tombstones, main table "full" with few live elements
            h.universe = 1 << 40;
            cx.dump_every = 0;
            let hbk = hb_for(cx, &[3, 4, 0]);
            { let c0 = *cx.rng.pick(&[0usize, 0, 7, 28]); op_new(cx, 0, hbk, c0); }
            let peak = 40 + cx.rng.below(maxops / 8 + 1);
            let keep = 4 + cx.rng.below(peak / 2);
            let mut lo_k = 0u64;
            let mut hi_k = 0u64;
            while hi_k < peak && !cx.abort { op_insert(cx, 0, hi_k, None); hi_k += 1; }
            while hi_k - lo_k > keep && !cx.abort { op_remove(cx, 0, false, lo_k); lo_k += 1; }
            let mut n = 0;
            while n < maxops && !cx.abort {
                { let e = cx.rng.chance(1, 2); op_remove(cx, 0, e, lo_k); } lo_k += 1;
                match cx.rng.below(8) {
                    0 => { let steps = entry_chain(cx, false, false, false); op_entry(cx, 0, hi_k, steps, None); if !cx.refs[0].as_ref().unwrap().contains_key(&hi_k) { op_insert(cx, 0, hi_k, None); } }
                    1 => { let k = lo_k + cx.rng.below(hi_k - lo_k + 1); let v = cx.rng.below(3); op_get(cx, 0, v, k); op_insert(cx, 0, hi_k, None); }
                    _ => { op_insert(cx, 0, hi_k, None); }
                }
                hi_k += 1;
                n += 2;
            }
            return;
        }
        "fuse" => h.fuse_p = 3,
        _ => {}
    }
    op_new(cx, 0, hb.clone(), cap);
    let phase = cx.rng.below(6);
    drive(cx, 0, &h, phase);
    cx.bump(&format!("phase:{}", phase));
    let nops = maxops / 2 + cx.rng.below(maxops / 2 + 1);
    for _ in 0..nops {
        if cx.abort {
            return;
        }
        let live = live_slots(cx);
        if live.is_empty() {
            let hb2 = hb_for(cx, kinds);
            { let c = *cx.rng.pick(&CAPS); op_new(cx, 0, hb2, c); }
            continue;
        }
        let s = *cx.rng.pick(&live);
        let poisoned = cx.poisoned[s];
        if poisoned {
            // only len/iteration/clear/drain/drop are meaningful on an interrupted clone_from
            match cx.rng.below(4) {
                0 => { op_iter(cx, s, 0); }
                1 => op_clear(cx, s),
                2 => { op_drain(cx, s, 1000000, false); }
                _ => op_drop(cx, s),
            }
            if cx.maps[s].is_some() && cx.maps[s].as_ref().unwrap().is_empty() {
                // an emptied map is usable again only if its hasher state is known: replace it
                op_drop(cx, s);
            }
            continue;
        }
        let weights: &[(&str, u64)] = match family {
            "core" => &[("ins", 40), ("get", 14), ("rem", 14), ("clear", 1), ("reserve", 3), ("shrink", 3), ("extend", 2), ("iter", 2), ("drive", 3)],
            "iter" => &[("ins", 20), ("rem", 6), ("iter", 16), ("retain", 10), ("drainfilter", 12), ("drain", 5), ("intoiter", 3), ("clear", 1), ("drive", 4), ("new", 2)],
            "entry" | "entryd6" => &[("ins", 14), ("rem", 4), ("entry", 40), ("rawentry", 26), ("rawget", 6), ("drive", 4), ("retain", 2), ("shrink", 1)],
            "clone" => &[("ins", 24), ("rem", 8), ("clone", 10), ("clonefrom", 14), ("eq", 10), ("new", 6), ("drive", 5), ("retain", 2), ("get", 4), ("drop", 2), ("clear", 1), ("reserve", 2)],
            "capacity" => &[("ins", 24), ("rem", 8), ("reserve", 14), ("tryreserve", 16), ("shrink", 14), ("retain", 4), ("drive", 5), ("new", 4), ("entry", 3), ("clear", 1), ("extend", 3)],
            "ser" => &[("ins", 30), ("rem", 10), ("roundtrip", 22), ("deser", 6), ("drive", 10), ("new", 3), ("retain", 3), ("clear", 1), ("shrink", 2), ("reserve", 2)],
            "par" => &[("ins", 26), ("rem", 8), ("pariter", 30), ("pareq", 6), ("parextend", 3), ("drive", 8), ("new", 3), ("clone", 5), ("retain", 3), ("reserve", 2), ("shrink", 2)],
            "fuse" => &[("ins", 30), ("rem", 6), ("entry", 14), ("rawentry", 8), ("retain", 8), ("drainfilter", 8), ("reserve", 4), ("shrink", 2), ("clone", 5), ("clonefrom", 6), ("iter", 3), ("drive", 3), ("new", 2), ("get", 3)],
            _ => &[("ins", 30), ("get", 8), ("rem", 8), ("clear", 1), ("reserve", 3), ("tryreserve", 2), ("shrink", 3), ("iter", 4), ("retain", 3), ("drainfilter", 3), ("drain", 1), ("intoiter", 1), ("extend", 2), ("fromiter", 1), ("clone", 2), ("clonefrom", 2), ("eq", 2), ("drop", 1), ("entry", 8), ("rawentry", 5), ("rawget", 2), ("new", 2), ("drive", 3)],
        };
        let total: u64 = weights.iter().map(|w| w.1).sum();
        let mut r = cx.rng.below(total);
        let mut choice = weights[0].0;
        for (n, w) in weights {
            if r < *w {
                choice = n;
                break;
            }
            r -= w;
        }
        match choice {
            "ins" => {
                let k = pick_key(cx, s, &h);
                let f = fuse_for(cx, &h);
                op_insert(cx, s, k, f);
            }
            "get" => {
                let k = pick_key(cx, s, &h);
                let v = cx.rng.below(6);
                op_get(cx, s, v, k);
            }
            "rem" => {
                let k = pick_key(cx, s, &h);
                let e = cx.rng.chance(1, 2);
                op_remove(cx, s, e, k);
            }
            "clear" => op_clear(cx, s),
            "reserve" => {
                // infallible reserve must not be asked for terabytes: an allocation failure aborts
                let m = cx.maps[s].as_ref().unwrap();
                let free = m.capacity() - m.len();
                let n = match cx.rng.below(8) {
                    0 => 0,
                    1 => free,
                    2 => free + 1,
                    3 => free.saturating_sub(1),
                    4 => usize::MAX - cx.rng.below(40) as usize,
                    5 => usize::MAX / 4 + cx.rng.below(1000) as usize,
                    _ => cx.rng.below(3 * (m.len() as u64 + 8)) as usize,
                };
                let f = fuse_for(cx, &h);
                op_reserve(cx, s, n, false, f);
            }
            "tryreserve" => {
                let mut n = boundary_arg(cx, s);
                // mid-range requests would really try to allocate: keep to small or overflowing ones
                if n > (1 << 20) && n < usize::MAX / 64 {
                    n = usize::MAX - (n & 0xffff);
                }
                op_reserve(cx, s, n, true, None);
            }
            "shrink" => {
                let m = cx.maps[s].as_ref().unwrap();
                let n = match cx.rng.below(6) {
                    0 | 1 => 0,
                    2 => m.len(),
                    3 => m.len() + cx.rng.below(8) as usize,
                    4 => m.capacity(),
                    _ => cx.rng.below(2 * m.capacity() as u64 + 4) as usize,
                };
                op_shrink(cx, s, n);
            }
            "iter" => {
                let v = cx.rng.below(5);
                op_iter(cx, s, v);
            }
            "retain" => {
                let keep = subset(cx, s);
                let d = if cx.rng.chance(1, 3) { 1 + cx.rng.below(9) } else { 0 };
                let f = fuse_for(cx, &h);
                op_retain(cx, s, keep, d, f);
            }
            "drainfilter" => {
                let take = subset(cx, s);
                let d = if cx.rng.chance(1, 3) { 1 + cx.rng.below(9) } else { 0 };
                let j = if cx.rng.chance(1, 2) { None } else { Some(cx.rng.below(take.len() as u64 + 2)) };
                let forget = j.is_some() && cx.rng.chance(1, 4);
                if forget {
                    cx.bump("forgotten");
                }
                let f = fuse_for(cx, &h);
                // an element whose destructor panics while DrainFilter's Drop is consuming the rest
                let bomb = if j.is_some() && !forget && f.is_none() && !take.is_empty() && cx.rng.chance(1, 2) { Some(take[cx.rng.below(take.len() as u64) as usize]) } else { None };
                crate::op_drain_filter_bomb(cx, s, take, d, j, forget, f, bomb);
            }
            "drain" => {
                let n = cx.maps[s].as_ref().unwrap().len() as u64;
                let j = if cx.rng.chance(1, 2) { n + 3 } else { cx.rng.below(n + 1) };
                let forget = cx.rng.chance(1, 4);
                if forget {
                    cx.bump("forgotten");
                }
                op_drain(cx, s, j, forget);
            }
            "intoiter" => {
                let n = cx.maps[s].as_ref().unwrap().len() as u64;
                let j = if cx.rng.chance(1, 2) { n + 3 } else { cx.rng.below(n + 1) };
                op_into_iter(cx, s, j);
            }
            "extend" => {
                // Which old-table elements a carry inside extend moves depends on an order the
                // harness cannot observe mid-call, so: either all keys are new to the map (any
                // growth inside the call is then order-independent), or existing keys are mixed
                // in but the call is kept small enough not to start a resize.
                let (keys, hint) = if cx.rng.chance(1, 2) {
                    // (with tombstones in the main table, which of the call's inserts reuse one -
                    // and so when the table fills up - is not observable either: then the call
                    // stays within the free capacity)
                    let st0 = cx.maps[s].as_ref().unwrap().verif_state();
                    let bc = if st0.main_buckets <= 8 { st0.main_buckets.saturating_sub(1) } else { st0.main_buckets / 8 * 7 };
                    let tombs = bc.saturating_sub(st0.main_cap);
                    let free0 = (st0.main_cap - st0.main_len) as u64;
                    let n = if tombs > 0 { cx.rng.below(free0.min(24) + 1) } else { cx.rng.below(24) };
                    let mut keys: Vec<u64> = Vec::new();
                    for _ in 0..n {
                        let k = fresh_key(cx, s, &h);
                        if !keys.contains(&k) {
                            keys.push(k);
                        }
                    }
                    let hint = match cx.rng.below(6) {
                        0 => 0,
                        1 => keys.len(),
                        2 => keys.len() / 2,
                        3 => keys.len() * 2 + 1,
                        // a lower size hint at the top of the usize range (iter::repeat, a
                        // saturated Chain): the documented capacity-overflow panic in both
                        // profiles, before any item is pulled (D7)
                        4 if cx.rng.chance(1, 3) => usize::MAX - cx.rng.below(3) as usize,
                        _ => cx.rng.below(40) as usize,
                    };
                    (keys, hint)
                } else {
                    let m = cx.maps[s].as_ref().unwrap();
                    let st = m.verif_state();
                    let free = st.main_cap - st.main_len;
                    let pending = st.old.map_or(0, |o| o.0);
                    let room = free.saturating_sub(pending + 1) as u64;
                    let n = cx.rng.below(room.min(16) + 1);
                    let keys: Vec<u64> = (0..n).map(|_| pick_key(cx, s, &h)).collect();
                    let hint = cx.rng.below(room + 1) as usize;
                    (keys, hint)
                };
                op_extend(cx, s, keys, hint);
            }
            "fromiter" => {
                let d = cx.rng.below(NSLOTS as u64) as usize;
                // duplicates only when the hint covers every item (no growth inside the call)
                let n = cx.rng.below(40);
                let dups = cx.rng.chance(1, 2);
                let mut keys: Vec<u64> = Vec::new();
                for _ in 0..n {
                    let k = cx.rng.below(h.universe);
                    if dups || !keys.contains(&k) {
                        keys.push(k);
                    }
                }
                let hint = if dups { keys.len() } else { cx.rng.below(20) as usize };
                if cx.maps[d].is_some() {
                    op_drop(cx, d);
                }
                let hb2 = if cx.rng.chance(1, 2) { HB::default() } else { hb_for(cx, kinds) };
                op_from_iter(cx, d, hb2, keys, hint);
            }
            "clone" => {
                let d = (s + 1 + cx.rng.below(NSLOTS as u64 - 1) as usize) % NSLOTS;
                if cx.maps[d].is_some() {
                    op_drop(cx, d);
                }
                let f = fuse_for(cx, &h);
                op_clone(cx, s, d, f);
            }
            "clonefrom" => {
                let others: Vec<usize> = live.iter().cloned().filter(|x| *x != s && !cx.poisoned[*x]).collect();
                if others.is_empty() {
                    let d = (s + 1) % NSLOTS;
                    let hb2 = hb_for(cx, kinds);
                    { let c = *cx.rng.pick(&CAPS); op_new(cx, d, hb2, c); }
                    let ph = cx.rng.below(6);
                    drive(cx, d, &h, ph);
                } else {
                    let src = *cx.rng.pick(&others);
                    let f = fuse_for(cx, &h);
                    if f.is_none() && cx.rng.chance(1, 5) {
                        // a destination mid-resize whose main table holds nothing but tombstones
                        if cx.maps[s].as_ref().unwrap().verif_state().old.is_none() {
                            drive(cx, s, &h, 1);
                        }
                        if !cx.abort && cx.maps[s].as_ref().unwrap().verif_state().old.map_or(0, |o| o.0) > 0 {
                            for k in keys_where(cx, s, true) {
                                op_remove(cx, s, false, k);
                            }
                        }
                    }
                    op_clone_from(cx, s, src, f);
                }
            }
            "eq" => {
                let b = *cx.rng.pick(&live);
                if !cx.poisoned[b] {
                    op_eq(cx, s, b);
                }
            }
            "drop" => op_drop(cx, s),
            #[cfg(feature = "ser")]
            "roundtrip" => {
                // serialise s, deserialise what was emitted into another slot: equal collections
                let items = op_serialize(cx, s);
                let d = (s + 1 + cx.rng.below(NSLOTS as u64 - 1) as usize) % NSLOTS;
                let hint = crate::ser::pick_hint(&mut cx.rng, items.len());
                op_deserialize(cx, d, items, hint);
                if cx.monitors && cx.maps[d].as_ref().unwrap() != cx.maps[s].as_ref().unwrap() {
                    vio("C16", format!("the round trip of slot {} through serde is not equal to it", s));
                }
            }
            #[cfg(feature = "ser")]
            "deser" => {
                // arbitrary input: repeated keys, any hint
                // (repeats directly follow their first occurrence, see set.rs)
                let n = cx.rng.below(30);
                let mut seen = std::collections::BTreeSet::new();
                let mut items: Vec<(u64, u64, u64)> = Vec::new();
                for _ in 0..n {
                    let k = cx.rng.below(h.universe.min(80));
                    if seen.insert(k) {
                        items.push((k, cx.kid(), cx.val()));
                        if cx.rng.below(3) == 0 {
                            items.push((k, cx.kid(), cx.val()));
                        }
                    }
                }
                let hint = crate::ser::pick_hint(&mut cx.rng, items.len());
                op_deserialize(cx, s, items, hint);
            }
            #[cfg(feature = "par")]
            "pariter" => {
                let v = cx.rng.below(5);
                let p = cx.rng.below(6) as usize;
                crate::par::op_par_iter(cx, s, v, p);
            }
            #[cfg(feature = "par")]
            "pareq" => {
                let b = *cx.rng.pick(&live);
                let p = cx.rng.below(6) as usize;
                if !cx.poisoned[b] {
                    op_eq_with(cx, s, b, Some(p));
                }
            }
            #[cfg(feature = "par")]
            "parextend" => {
                let n = cx.rng.below(40);
                let ks: Vec<u64> = (0..n).map(|_| cx.rng.below(h.universe)).collect();
                let p = cx.rng.below(6) as usize;
                crate::par::op_par_extend(cx, s, ks, p);
            }
            "entry" => {
                let k = pick_key(cx, s, &h);
                let present = cx.refs[s].as_ref().unwrap().contains_key(&k);
                let steps = entry_chain(cx, present, false, family == "entryd6");
                let f = fuse_for(cx, &h);
                op_entry(cx, s, k, steps, f);
            }
            "rawentry" => {
                let k = pick_key(cx, s, &h);
                let present = cx.refs[s].as_ref().unwrap().contains_key(&k);
                let steps = entry_chain(cx, present, true, false);
                let f = fuse_for(cx, &h);
                let var = cx.rng.below(3);
                op_raw_entry(cx, s, var, k, steps, f);
            }
            "rawget" => {
                let k = pick_key(cx, s, &h);
                let var = cx.rng.below(3);
                op_raw_get(cx, s, var, k);
            }
            "new" => {
                let d = cx.rng.below(NSLOTS as u64) as usize;
                if cx.maps[d].is_some() {
                    op_drop(cx, d);
                }
                let hb2 = hb_for(cx, kinds);
                { let c = *cx.rng.pick(&CAPS); op_new(cx, d, hb2, c); }
            }
            _ => {
                let ph = 1 + cx.rng.below(5);
                drive(cx, s, &h, ph);
            }
        }
    }
}
