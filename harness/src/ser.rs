//! serde operations (C16): a recording Serializer shows what griddle's Serialize impls emit (the
//! declared length, every key and value in order); deserialisation goes through serde's value
//! deserialisers with a chosen size hint (exact, absent, too large, too small).
use crate::rt::*;
use serde::de::value::{Error as DeError, MapDeserializer, SeqDeserializer};
use serde::ser::{Impossible, SerializeMap, SerializeSeq};
use serde::{Deserialize, Deserializer, Serialize, Serializer};

const IDBITS: u64 = 24;
pub fn enc(class: u64, id: u64) -> u64 {
    (class << IDBITS) | id
}
pub fn dec(x: u64) -> (u64, u64) {
    (x >> IDBITS, x & ((1 << IDBITS) - 1))
}
impl Serialize for K {
    fn serialize<S: Serializer>(&self, s: S) -> Result<S::Ok, S::Error> {
        s.serialize_u64(enc(self.class, self.id))
    }
}
impl Serialize for V {
    fn serialize<S: Serializer>(&self, s: S) -> Result<S::Ok, S::Error> {
        s.serialize_u64(self.get())
    }
}
impl<'de> Deserialize<'de> for K {
    fn deserialize<D: Deserializer<'de>>(d: D) -> Result<K, D::Error> {
        let x = u64::deserialize(d)?;
        let (c, i) = dec(x);
        Ok(K::new(c, i))
    }
}
impl<'de> Deserialize<'de> for V {
    fn deserialize<D: Deserializer<'de>>(d: D) -> Result<V, D::Error> {
        Ok(V::new(u64::deserialize(d)?))
    }
}

/// what a Serialize impl emitted
#[derive(Default, Debug)]
pub struct Emitted {
    pub kind: &'static str,
    pub declared: Option<usize>,
    pub keys: Vec<u64>,
    pub vals: Vec<u64>,
    pub ended: bool,
}
#[derive(Debug)]
pub struct RecErr(String);
impl std::fmt::Display for RecErr {
    fn fmt(&self, f: &mut std::fmt::Formatter<'_>) -> std::fmt::Result {
        write!(f, "{}", self.0)
    }
}
impl std::error::Error for RecErr {}
impl serde::ser::Error for RecErr {
    fn custom<T: std::fmt::Display>(m: T) -> Self {
        RecErr(m.to_string())
    }
}
/// serialises a single u64 (keys, values)
struct U64Ser;
macro_rules! unsupported {
    ($($m:ident($t:ty)),*) => { $(fn $m(self, _v: $t) -> Result<Self::Ok, RecErr> { Err(RecErr("unsupported".into())) })* };
}
impl Serializer for U64Ser {
    type Ok = u64;
    type Error = RecErr;
    type SerializeSeq = Impossible<u64, RecErr>;
    type SerializeTuple = Impossible<u64, RecErr>;
    type SerializeTupleStruct = Impossible<u64, RecErr>;
    type SerializeTupleVariant = Impossible<u64, RecErr>;
    type SerializeMap = Impossible<u64, RecErr>;
    type SerializeStruct = Impossible<u64, RecErr>;
    type SerializeStructVariant = Impossible<u64, RecErr>;
    fn serialize_u64(self, v: u64) -> Result<u64, RecErr> {
        Ok(v)
    }
    unsupported!(serialize_bool(bool), serialize_i8(i8), serialize_i16(i16), serialize_i32(i32), serialize_i64(i64), serialize_u8(u8), serialize_u16(u16), serialize_u32(u32), serialize_f32(f32), serialize_f64(f64), serialize_char(char), serialize_str(&str), serialize_bytes(&[u8]));
    fn serialize_none(self) -> Result<u64, RecErr> { Err(RecErr("unsupported".into())) }
    fn serialize_some<T: ?Sized + Serialize>(self, _: &T) -> Result<u64, RecErr> { Err(RecErr("unsupported".into())) }
    fn serialize_unit(self) -> Result<u64, RecErr> { Ok(0) }
    fn serialize_unit_struct(self, _: &'static str) -> Result<u64, RecErr> { Err(RecErr("unsupported".into())) }
    fn serialize_unit_variant(self, _: &'static str, _: u32, _: &'static str) -> Result<u64, RecErr> { Err(RecErr("unsupported".into())) }
    fn serialize_newtype_struct<T: ?Sized + Serialize>(self, _: &'static str, _: &T) -> Result<u64, RecErr> { Err(RecErr("unsupported".into())) }
    fn serialize_newtype_variant<T: ?Sized + Serialize>(self, _: &'static str, _: u32, _: &'static str, _: &T) -> Result<u64, RecErr> { Err(RecErr("unsupported".into())) }
    fn serialize_seq(self, _: Option<usize>) -> Result<Self::SerializeSeq, RecErr> { Err(RecErr("unsupported".into())) }
    fn serialize_tuple(self, _: usize) -> Result<Self::SerializeTuple, RecErr> { Err(RecErr("unsupported".into())) }
    fn serialize_tuple_struct(self, _: &'static str, _: usize) -> Result<Self::SerializeTupleStruct, RecErr> { Err(RecErr("unsupported".into())) }
    fn serialize_tuple_variant(self, _: &'static str, _: u32, _: &'static str, _: usize) -> Result<Self::SerializeTupleVariant, RecErr> { Err(RecErr("unsupported".into())) }
    fn serialize_map(self, _: Option<usize>) -> Result<Self::SerializeMap, RecErr> { Err(RecErr("unsupported".into())) }
    fn serialize_struct(self, _: &'static str, _: usize) -> Result<Self::SerializeStruct, RecErr> { Err(RecErr("unsupported".into())) }
    fn serialize_struct_variant(self, _: &'static str, _: u32, _: &'static str, _: usize) -> Result<Self::SerializeStructVariant, RecErr> { Err(RecErr("unsupported".into())) }
}
/// the top-level recording serializer: a map or a sequence of u64s
pub struct Rec<'a>(pub &'a mut Emitted);
pub struct RecColl<'a>(&'a mut Emitted);
impl<'a> SerializeMap for RecColl<'a> {
    type Ok = ();
    type Error = RecErr;
    fn serialize_key<T: ?Sized + Serialize>(&mut self, k: &T) -> Result<(), RecErr> {
        self.0.keys.push(k.serialize(U64Ser)?);
        Ok(())
    }
    fn serialize_value<T: ?Sized + Serialize>(&mut self, v: &T) -> Result<(), RecErr> {
        self.0.vals.push(v.serialize(U64Ser)?);
        Ok(())
    }
    fn end(self) -> Result<(), RecErr> {
        self.0.ended = true;
        Ok(())
    }
}
impl<'a> SerializeSeq for RecColl<'a> {
    type Ok = ();
    type Error = RecErr;
    fn serialize_element<T: ?Sized + Serialize>(&mut self, k: &T) -> Result<(), RecErr> {
        self.0.keys.push(k.serialize(U64Ser)?);
        Ok(())
    }
    fn end(self) -> Result<(), RecErr> {
        self.0.ended = true;
        Ok(())
    }
}
macro_rules! unsupported_top {
    ($($m:ident($t:ty)),*) => { $(fn $m(self, _v: $t) -> Result<(), RecErr> { Err(RecErr("not a collection".into())) })* };
}
impl<'a> Serializer for Rec<'a> {
    type Ok = ();
    type Error = RecErr;
    type SerializeSeq = RecColl<'a>;
    type SerializeTuple = Impossible<(), RecErr>;
    type SerializeTupleStruct = Impossible<(), RecErr>;
    type SerializeTupleVariant = Impossible<(), RecErr>;
    type SerializeMap = RecColl<'a>;
    type SerializeStruct = Impossible<(), RecErr>;
    type SerializeStructVariant = Impossible<(), RecErr>;
    unsupported_top!(serialize_bool(bool), serialize_i8(i8), serialize_i16(i16), serialize_i32(i32), serialize_i64(i64), serialize_u8(u8), serialize_u16(u16), serialize_u32(u32), serialize_u64(u64), serialize_f32(f32), serialize_f64(f64), serialize_char(char), serialize_str(&str), serialize_bytes(&[u8]));
    fn serialize_none(self) -> Result<(), RecErr> { Err(RecErr("not a collection".into())) }
    fn serialize_some<T: ?Sized + Serialize>(self, _: &T) -> Result<(), RecErr> { Err(RecErr("not a collection".into())) }
    fn serialize_unit(self) -> Result<(), RecErr> { Err(RecErr("not a collection".into())) }
    fn serialize_unit_struct(self, _: &'static str) -> Result<(), RecErr> { Err(RecErr("not a collection".into())) }
    fn serialize_unit_variant(self, _: &'static str, _: u32, _: &'static str) -> Result<(), RecErr> { Err(RecErr("not a collection".into())) }
    fn serialize_newtype_struct<T: ?Sized + Serialize>(self, _: &'static str, _: &T) -> Result<(), RecErr> { Err(RecErr("not a collection".into())) }
    fn serialize_newtype_variant<T: ?Sized + Serialize>(self, _: &'static str, _: u32, _: &'static str, _: &T) -> Result<(), RecErr> { Err(RecErr("not a collection".into())) }
    fn serialize_seq(self, len: Option<usize>) -> Result<RecColl<'a>, RecErr> {
        self.0.kind = "seq";
        self.0.declared = len;
        Ok(RecColl(self.0))
    }
    fn serialize_tuple(self, _: usize) -> Result<Self::SerializeTuple, RecErr> { Err(RecErr("not a collection".into())) }
    fn serialize_tuple_struct(self, _: &'static str, _: usize) -> Result<Self::SerializeTupleStruct, RecErr> { Err(RecErr("not a collection".into())) }
    fn serialize_tuple_variant(self, _: &'static str, _: u32, _: &'static str, _: usize) -> Result<Self::SerializeTupleVariant, RecErr> { Err(RecErr("not a collection".into())) }
    fn serialize_map(self, len: Option<usize>) -> Result<RecColl<'a>, RecErr> {
        self.0.kind = "map";
        self.0.declared = len;
        Ok(RecColl(self.0))
    }
    fn serialize_struct(self, _: &'static str, _: usize) -> Result<Self::SerializeStruct, RecErr> { Err(RecErr("not a collection".into())) }
    fn serialize_struct_variant(self, _: &'static str, _: u32, _: &'static str, _: usize) -> Result<Self::SerializeStructVariant, RecErr> { Err(RecErr("not a collection".into())) }
}

pub fn emit<T: Serialize>(x: &T) -> Result<Emitted, String> {
    let mut e = Emitted::default();
    x.serialize(Rec(&mut e)).map_err(|e| e.0)?;
    Ok(e)
}

/// an iterator whose size_hint says what we want the deserialiser to believe
pub struct Hinted<I>(pub I, pub Option<usize>);
impl<I: Iterator> Iterator for Hinted<I> {
    type Item = I::Item;
    fn next(&mut self) -> Option<I::Item> {
        self.0.next()
    }
    fn size_hint(&self) -> (usize, Option<usize>) {
        match self.1 {
            Some(n) => (n, Some(n)),
            None => (0, None),
        }
    }
}
pub fn map_from<T: for<'de> Deserialize<'de>>(pairs: Vec<(u64, u64)>, hint: Option<usize>) -> Result<T, String> {
    let d: MapDeserializer<'_, _, DeError> = MapDeserializer::new(Hinted(pairs.into_iter(), hint));
    T::deserialize(d).map_err(|e| e.to_string())
}
pub fn seq_from<T: for<'de> Deserialize<'de>>(xs: Vec<u64>, hint: Option<usize>) -> Result<T, String> {
    let d: SeqDeserializer<_, DeError> = SeqDeserializer::new(Hinted(xs.into_iter(), hint));
    T::deserialize(d).map_err(|e| e.to_string())
}
pub fn seq_in_place<T: for<'de> Deserialize<'de>>(place: &mut T, xs: Vec<u64>, hint: Option<usize>) -> Result<(), String> {
    let d: SeqDeserializer<_, DeError> = SeqDeserializer::new(Hinted(xs.into_iter(), hint));
    T::deserialize_in_place(d, place).map_err(|e| e.to_string())
}
/// the hint the code will use (size_hint::cautious)
pub fn cautious(h: Option<usize>) -> usize {
    h.unwrap_or(0).min(4096)
}
pub fn pick_hint(rng: &mut Rng, n: usize) -> Option<usize> {
    match rng.below(6) {
        0 => None,
        1 => Some(n + 1 + rng.below(40) as usize),
        2 => Some(n / 2),
        3 => Some(1_000_000),
        _ => Some(n),
    }
}
