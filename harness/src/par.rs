//! rayon operations (C15): every parallel traversal is run on one of several thread pools
//! (1, 2, 3, 4, 8, 16 workers; work stealing makes the split schedule vary from run to run),
//! recorded for the model comparison with its results sorted, and checked on the spot against
//! the sequential traversal and the reference: each element visited exactly once.
use crate::rt::*;
use crate::{check_contents, nlist, op_drop, run_op, vio, Ctx, Map, OpSpec, Out};
use rayon::prelude::*;
use std::collections::BTreeMap;
use std::fmt::Write as _;
use std::sync::atomic::{AtomicU32, Ordering::SeqCst};
use std::sync::OnceLock;

pub const POOL_SIZES: [usize; 6] = [1, 2, 3, 4, 8, 16];
pub fn pool(ix: usize) -> &'static rayon::ThreadPool {
    static POOLS: OnceLock<Vec<rayon::ThreadPool>> = OnceLock::new();
    let ps = POOLS.get_or_init(|| POOL_SIZES.iter().map(|n| rayon::ThreadPoolBuilder::new().num_threads(*n).build().unwrap()).collect());
    &ps[ix % ps.len()]
}

/// par_iter (0), par_keys (1), par_values (2), par_iter_mut (3), par_values_mut (4)
pub fn op_par_iter(cx: &mut Ctx, s: usize, variant: u64, pool_ix: usize) -> Out {
    let delta = if variant >= 3 { 1 + cx.rng.below(9) } else { 0 };
    let spec = OpSpec { toks: format!("pariter {} {} {} 0", s, variant, delta), kind: ["par_iter", "par_keys", "par_values", "par_iter_mut", "par_values_mut"][variant as usize], slots: vec![s], pslot: Some(s), fuse: None, key_adding: false, readonly: delta == 0, key: None };
    cx.bump(&format!("pool:{}", POOL_SIZES[pool_ix % POOL_SIZES.len()]));
    // index of every element by key and by value (values are unique)
    let rf = cx.refs[s].as_ref().unwrap().clone();
    let by_key: BTreeMap<u64, usize> = rf.keys().enumerate().map(|(i, k)| (*k, i)).collect();
    let by_val: BTreeMap<u64, (u64, u64, usize)> = rf.iter().enumerate().map(|(i, (k, e))| (e.1, (*k, e.0, i))).collect();
    let visits: Vec<AtomicU32> = (0..rf.len()).map(|_| AtomicU32::new(0)).collect();
    let strays = AtomicU32::new(0);
    let out = run_op(cx, spec, |cx| {
        let m = cx.maps[s].as_mut().unwrap();
        let hit = |i: Option<usize>| match i {
            Some(i) => {
                visits[i].fetch_add(1, SeqCst);
            }
            None => {
                strays.fetch_add(1, SeqCst);
            }
        };
        let mut l: Vec<(u64, u64, u64)> = pool(pool_ix).install(|| match variant {
            0 => m.par_iter().map(|(k, v)| { hit(by_key.get(&k.class).cloned()); (k.class, k.id, v.get()) }).collect(),
            1 => m.par_keys().map(|k| { hit(by_key.get(&k.class).cloned()); (k.class, k.id, rf.get(&k.class).map_or(0, |e| e.1)) }).collect(),
            2 => m.par_values().map(|v| { let e = by_val.get(&v.get()).cloned(); hit(e.map(|e| e.2)); e.map_or((0, 0, v.get()), |e| (e.0, e.1, v.get())) }).collect(),
            3 => m.par_iter_mut().map(|(k, v)| { hit(by_key.get(&k.class).cloned()); let old = v.get(); v.add(delta); (k.class, k.id, old) }).collect(),
            _ => m.par_values_mut().map(|v| { let old = v.get(); let e = by_val.get(&old).cloned(); hit(e.map(|e| e.2)); v.add(delta); e.map_or((0, 0, old), |e| (e.0, e.1, old)) }).collect(),
        });
        l.sort();
        Out::L(l)
    });
    if cx.monitors {
        let twice = visits.iter().filter(|v| v.load(SeqCst) > 1).count();
        let never = visits.iter().filter(|v| v.load(SeqCst) == 0).count();
        if twice > 0 || never > 0 || strays.load(SeqCst) > 0 {
            vio("C15", format!("parallel traversal (variant {}, {} workers): {} elements visited more than once, {} never, {} visits of something the map does not hold", variant, POOL_SIZES[pool_ix % POOL_SIZES.len()], twice, never, strays.load(SeqCst)));
        }
        if let Out::L(ref l) = out {
            let want: Vec<(u64, u64, u64)> = rf.iter().map(|(k, e)| (*k, e.0, e.1)).collect();
            if *l != want {
                vio("C15", format!("parallel traversal (variant {}) yielded {} items, sequential iteration of the reference gives {}", variant, l.len(), want.len()));
            }
        }
    }
    if delta > 0 {
        for e in cx.refs[s].as_mut().unwrap().values_mut() {
            e.1 += delta;
        }
    }
    if cx.monitors {
        check_contents(cx, s, "C15", "a parallel traversal");
    }
    out
}

/// par_extend on slot s (recorded with its items as one piece: how rayon cut them is not
/// observable, and only the resulting collection is specified), then the slot is dropped.
pub fn op_par_extend(cx: &mut Ctx, s: usize, keys: Vec<u64>, pool_ix: usize) {
    let items: Vec<(u64, u64, u64)> = keys.iter().map(|k| (*k, cx.kid(), cx.val())).collect();
    let mut toks = format!("parextend {} 1 {}", s, items.len());
    for (k, kid, v) in &items {
        write!(toks, " {} {} {}", k, kid, v).unwrap();
    }
    let spec = OpSpec { toks, kind: "par_extend", slots: vec![s], pslot: None, fuse: None, key_adding: false, readonly: false, key: None };
    let objs: Vec<(K, V)> = items.iter().map(|(k, kid, v)| (K::new(*k, *kid), V::new(*v))).collect();
    cx.skip_state_once = true;
    cx.dump_once = true;
    let out = run_op(cx, spec, move |cx| {
        let m = cx.maps[s].as_mut().unwrap();
        pool(pool_ix).install(|| m.par_extend(objs));
        Out::U
    });
    if matches!(out, Out::P(_)) {
        vio("C15", "par_extend panicked".into());
    }
    let rf = cx.refs[s].as_mut().unwrap();
    for (k, kid, v) in &items {
        match rf.get_mut(k) {
            Some(e) => e.1 = *v,
            None => {
                rf.insert(*k, (*kid, *v));
            }
        }
    }
    if cx.monitors {
        check_contents(cx, s, "C15", "par_extend");
        // from_par_iter of the same items: the same collection as the sequential from_iter
        let objs2: Vec<(K, V)> = items.iter().map(|(k, kid, v)| (K::new(*k, *kid), V::new(*v))).collect();
        let objs3: Vec<(K, V)> = items.iter().map(|(k, kid, v)| (K::new(*k, *kid), V::new(*v))).collect();
        let a: Map = pool(pool_ix).install(|| objs2.into_par_iter().collect());
        let mut b: Map = Map::default();
        b.extend(objs3);
        if a != b || a.len() != b.len() || a.iter().any(|(k, _)| b.get_key_value(k).map(|x| x.0.id) != Some(k.id)) {
            vio("C15", format!("from_par_iter built {} elements, sequential from_iter {}", a.len(), b.len()));
        }
    }
    // the capacity after par_extend depends on the schedule: the slot is not used further
    op_drop(cx, s);
}

pub fn par_eq(a: &Map, b: &Map, pool_ix: usize) -> bool {
    pool(pool_ix).install(|| a.par_eq(b))
}
