//! tracegen: drives the real griddle crate through seeded, phase-directed histories, records one
//! trace record per operation (for the Coq model comparator) and runs the property monitors.
mod copymon;
mod rt;
mod set;
#[cfg(feature = "par")]
mod par;
#[cfg(feature = "ser")]
mod ser;
use griddle::hash_map::{Entry, RawEntryMut};
use griddle::HashMap;
use rt::*;
use std::collections::BTreeMap;
use std::fmt::Write as _;
use std::panic::{catch_unwind, AssertUnwindSafe};
use std::sync::atomic::Ordering::SeqCst;

#[global_allocator]
static A: CountingAlloc = CountingAlloc;

type Map = HashMap<K, V, HB>;
type VS = griddle::verif::VerifState;

#[derive(Clone, Debug, PartialEq)]
enum Out {
    U,
    B(bool),
    N(u64),
    OV(Option<u64>),
    OKV(Option<(u64, u64)>),
    L(Vec<(u64, u64, u64)>),
    P(String),
    S(Vec<Out>),
}
fn out_str(o: &Out) -> String {
    match o {
        Out::U => "U".into(),
        Out::B(b) => format!("B {}", *b as u8),
        Out::N(n) => format!("N {}", n),
        Out::OV(None) => "OV -".into(),
        Out::OV(Some(v)) => format!("OV {}", v),
        Out::OKV(None) => "OKV -".into(),
        Out::OKV(Some((a, b))) => format!("OKV {} {}", a, b),
        Out::L(l) => {
            let mut s = format!("L {}", l.len());
            for (k, kid, v) in l {
                write!(s, " {} {} {}", k, kid, v).unwrap();
            }
            s
        }
        Out::P(c) => format!("P {}", c),
        Out::S(l) => {
            let mut s = format!("S {}", l.len());
            for o in l {
                s.push(' ');
                s.push_str(&out_str(o));
            }
            s
        }
    }
}

#[derive(Clone, Debug)]
enum Step {
    Key,
    AndModify(u64),
    AndReplace(bool, u64),
    OrInsert(u64, Option<u64>),
    OrInsertWith(u64, Option<u64>),
    OrInsertWithKey(u64, Option<u64>),
    InsertE(u64),
    OccGet,
    OccGetMut(u64),
    OccIntoMut(u64),
    OccInsert(u64),
    OccRemove,
    OccRemoveEntry,
    OccReplaceEntry(u64),
    OccReplaceKey,
    OccReplaceWith(bool, u64),
    VacInsert(u64, Option<u64>),
    VacIntoKey,
    RawInsert(u64, u64),
    RawOrInsert(u64, u64, Option<u64>),
    RawOrInsertWith(u64, u64, Option<u64>),
    RawOccInsertKey(u64),
    RawOccKeyValue,
    RawVacInsert(u64, u64, u64, Option<u64>),
}
fn ostr(o: &Option<u64>) -> String {
    o.map_or("-".into(), |x| x.to_string())
}
fn step_str(s: &Step) -> String {
    match s {
        Step::Key => "key".into(),
        Step::AndModify(d) => format!("andmod {}", d),
        Step::AndReplace(k, d) => format!("andrep {} {}", *k as u8, d),
        Step::OrInsert(v, w) => format!("orins {} {}", v, ostr(w)),
        Step::OrInsertWith(v, w) => format!("orinsw {} {}", v, ostr(w)),
        Step::OrInsertWithKey(v, w) => format!("orinswk {} {}", v, ostr(w)),
        Step::InsertE(v) => format!("inse {}", v),
        Step::OccGet => "oget".into(),
        Step::OccGetMut(w) => format!("ogetmut {}", w),
        Step::OccIntoMut(w) => format!("ointomut {}", w),
        Step::OccInsert(v) => format!("oins {}", v),
        Step::OccRemove => "orem".into(),
        Step::OccRemoveEntry => "oreme".into(),
        Step::OccReplaceEntry(v) => format!("orepe {}", v),
        Step::OccReplaceKey => "orepk".into(),
        Step::OccReplaceWith(k, d) => format!("orepw {} {}", *k as u8, d),
        Step::VacInsert(v, w) => format!("vins {} {}", v, ostr(w)),
        Step::VacIntoKey => "vintokey".into(),
        Step::RawInsert(kid, v) => format!("rins {} {}", kid, v),
        Step::RawOrInsert(kid, v, w) => format!("rorins {} {} {}", kid, v, ostr(w)),
        Step::RawOrInsertWith(kid, v, w) => format!("rorinsw {} {} {}", kid, v, ostr(w)),
        Step::RawOccInsertKey(kid) => format!("roinskey {}", kid),
        Step::RawOccKeyValue => "rokv".into(),
        Step::RawVacInsert(var, kid, v, w) => format!("rvins {} {} {} {}", var, kid, v, ostr(w)),
    }
}

/// Reference contents of one slot: class -> (key object id, value)
type Ref = BTreeMap<u64, (u64, u64)>;

struct Ctx {
    maps: Vec<Option<Map>>,
    refs: Vec<Option<Ref>>,
    poisoned: Vec<bool>,
    out: String,
    rng: Rng,
    next_kid: u64,
    next_val: u64,
    grave: Vec<Box<dyn std::any::Any>>,
    hist_id: String,
    opi: usize,
    dump_every: u64,
    // statistics
    stats: BTreeMap<String, u64>,
    classes: std::collections::BTreeSet<String>,
    viol: Vec<(String, String)>,
    r_const: usize,
    monitors: bool,
    /// when searching for a failing input: after every call, compare every read-only view of
    /// every map with the reference and with one another, under this property's name
    probe: Option<String>,
    // an undocumented panic happened: the map may be corrupt, the history is abandoned
    abort: bool,
    tab_allocs: u64,
    tab_frees: u64,
    /// per slot: how many further NEW keys with_capacity / reserve / try_reserve have promised to
    /// take without reallocating (C10)
    promise: Vec<u64>,
    // the next call's state is not compared with the model (Y) / its contents are dumped
    skip_state_once: bool,
    dump_once: bool,
}

const NSLOTS: usize = 4;

thread_local! {
    static PEND: std::cell::RefCell<Vec<(String, String)>> = std::cell::RefCell::new(Vec::new());
    static WHERE: std::cell::RefCell<String> = std::cell::RefCell::new(String::new());
}
/// A monitor found the property violated on the real crate.
fn vio(prop: &str, msg: String) {
    let w = WHERE.with(|w| w.borrow().clone());
    PEND.with(|p| p.borrow_mut().push((prop.to_string(), format!("{}: {}", w, msg))));
}

impl Ctx {
    fn kid(&mut self) -> u64 {
        self.next_kid += 1;
        self.next_kid
    }
    fn val(&mut self) -> u64 {
        self.next_val += 1000;
        self.next_val
    }
    fn bump(&mut self, k: &str) {
        *self.stats.entry(k.to_string()).or_insert(0) += 1;
    }
}

fn state_str(m: Option<&Map>) -> String {
    match m {
        None => "gone".into(),
        Some(m) => {
            let s = m.verif_state();
            match s.old {
                None => format!("{} {} {} -", s.main_len, s.main_cap, s.main_buckets),
                Some((l, b, c)) => format!("{} {} {} {} {} {}", s.main_len, s.main_cap, s.main_buckets, l, b, c),
            }
        }
    }
}

fn main_order(m: &Map) -> Vec<u64> {
    let mut v = Vec::new();
    m.verif_for_each(|in_main, k, _| {
        if in_main {
            v.push(k.class)
        }
    });
    v
}
fn old_order(m: &Map) -> Vec<u64> {
    let mut v = Vec::new();
    m.verif_for_each(|in_main, k, _| {
        if !in_main {
            v.push(k.class)
        }
    });
    v
}
fn dump_str(m: &Map) -> String {
    let mut a: Vec<(u64, u64, u64)> = Vec::new();
    let mut b: Vec<(u64, u64, u64)> = Vec::new();
    m.verif_for_each(|in_main, k, v| {
        if in_main {
            a.push((k.class, k.id, v.get()))
        } else {
            b.push((k.class, k.id, v.get()))
        }
    });
    a.sort();
    let mut s = format!("{}", a.len());
    for (k, kid, v) in &a {
        write!(s, " {} {} {}", k, kid, v).unwrap();
    }
    write!(s, " {}", b.len()).unwrap();
    for (k, kid, v) in &b {
        write!(s, " {} {} {}", k, kid, v).unwrap();
    }
    s
}

fn nlist(v: &[u64]) -> String {
    let mut s = format!("{}", v.len());
    for x in v {
        write!(s, " {}", x).unwrap();
    }
    s
}

struct OpSpec {
    toks: String,
    kind: &'static str,
    slots: Vec<usize>,
    pslot: Option<usize>,   // emit P (main order before) for this slot
    fuse: Option<u64>,
    key_adding: bool,       // a call that adds one key (C02/C03 monitors)
    readonly: bool,         // lookup/removal/in-place update (C02)
    key: Option<u64>,
}

/// Executes one operation on the real crate, records it, runs the per-call monitors.
/// the entries a map's Debug output shows, sorted ("{k: v, k: v}" with K and V printing numbers)
fn debug_pairs(m: &Map) -> Vec<(u64, u64)> {
    let t = format!("{:?}", m);
    let inner = t.trim().trim_start_matches('{').trim_end_matches('}');
    let mut v: Vec<(u64, u64)> = inner
        .split(", ")
        .filter(|x| !x.is_empty())
        .filter_map(|e| {
            let mut p = e.split(": ");
            Some((p.next()?.trim().parse().ok()?, p.next()?.trim().parse().ok()?))
        })
        .collect();
    v.sort();
    v
}

/// the state the previous call left (the reference is up to date by now), seen through every
/// read-only view: used when a proof or the correspondence broke and a failing input is sought
fn probe_views(cx: &mut Ctx) {
    let prop = match (&cx.probe, cx.monitors) {
        (Some(p), true) => p.clone(),
        _ => return,
    };
    for s in 0..cx.maps.len() {
        if cx.maps[s].is_none() || cx.refs[s].is_none() || cx.poisoned[s] {
            continue;
        }
        check_contents(cx, s, &prop, "the previous call");
        let m = cx.maps[s].as_ref().unwrap();
        if m.len() > 4096 {
            continue;
        }
        let mut it: Vec<(u64, u64)> = m.iter().map(|(k, v)| (k.class, v.get())).collect();
        it.sort();
        let mut ks: Vec<u64> = m.keys().map(|k| k.class).collect();
        ks.sort();
        let mut vs: Vec<u64> = m.values().map(|v| v.get()).collect();
        vs.sort();
        let mut vs2: Vec<u64> = it.iter().map(|x| x.1).collect();
        vs2.sort();
        let dbgp = debug_pairs(m);
        let dbg = dbgp.len();
        if it.len() != m.len() || m.iter().len() != m.len() || ks != it.iter().map(|x| x.0).collect::<Vec<_>>() || vs != vs2 || dbgp != it || (m == m) != true {
            vio(&prop, format!("slot {} after the previous call: len() {}, iter() yields {}, keys() {}, values() {}, Debug shows {} entries", s, m.len(), it.len(), ks.len(), vs.len(), dbg));
        }
    }
}

fn run_op(cx: &mut Ctx, spec: OpSpec, body: impl FnOnce(&mut Ctx) -> Out) -> Out {
    if cx.probe.is_some() {
        let w = WHERE.with(|w| w.borrow().clone());
        probe_views(cx);
        let _ = w;
    }
    cx.opi += 1;
    WHERE.with(|w| *w.borrow_mut() = format!("history={} op#{}", cx.hist_id, cx.opi));
    cx.bump(&format!("op:{}", spec.kind));
    let s0 = spec.slots[0];
    let before: Option<VS> = cx.maps[s0].as_ref().map(|m| m.verif_state());
    let loc: u8 = match (spec.key, cx.maps[s0].as_ref()) {
        (Some(k), Some(m)) => {
            let mut l = 0u8;
            if m.len() <= 4096 {
                m.verif_for_each(|im, kk, _| {
                    if kk.class == k {
                        l = if im { 1 } else { 2 }
                    }
                });
            }
            l
        }
        _ => 0,
    };
    writeln!(cx.out, "O {}", spec.toks).unwrap();
    if let Some(ps) = spec.pslot {
        if let Some(m) = cx.maps[ps].as_ref() {
            let p = main_order(m);
            writeln!(cx.out, "P {}", nlist(&p)).unwrap();
        }
    }
    if let Some(f) = spec.fuse {
        writeln!(cx.out, "F {}", f).unwrap();
    }
    if cx.skip_state_once {
        cx.skip_state_once = false;
        writeln!(cx.out, "Y").unwrap();
    }
    if spec.slots.iter().any(|s| cx.poisoned[*s]) {
        // the destination of an interrupted clone_from: which of the leaked clones are dropped
        // when is unspecified
        writeln!(cx.out, "X").unwrap();
    }
    arm(spec.fuse);
    let r = catch_unwind(AssertUnwindSafe(|| body(cx)));
    let c = disarm();
    cx.grave.clear();
    exhume();
    cx.tab_allocs += c.allocs;
    cx.tab_frees += c.frees;
    let out = match r {
        Ok(o) => o,
        Err(p) => Out::P(classify_panic(&*p)),
    };
    writeln!(cx.out, "R {}", out_str(&out)).unwrap();
    for &s in &spec.slots {
        let st = state_str(cx.maps[s].as_ref());
        writeln!(cx.out, "S {} {}", s, st).unwrap();
    }
    let after: Option<VS> = cx.maps[s0].as_ref().map(|m| m.verif_state());
    // C10: the insertions that with_capacity(n) / reserve(n) / a successful try_reserve(n) promised
    {
        let len_of = |v: &VS| (v.main_len + v.old.map_or(0, |o| o.0)) as u64;
        let arg: u64 = spec.toks.split(' ').last().and_then(|x| x.parse().ok()).unwrap_or(0);
        let ok = !matches!(out, Out::P(_)) && spec.fuse.is_none() && !spec.slots.iter().any(|s| cx.poisoned[*s]);
        let mut keep = false;
        match (spec.kind, before, after) {
            ("new", _, Some(_)) if ok => {
                cx.promise[s0] = arg;
                keep = true;
            }
            ("reserve", _, Some(_)) if ok => {
                cx.promise[s0] = arg;
                keep = true;
            }
            ("tryreserve", _, Some(_)) if ok && out == Out::B(true) => {
                cx.promise[s0] = arg;
                keep = true;
            }
            ("ins", Some(b), Some(a)) | ("entry", Some(b), Some(a)) | ("rawentry", Some(b), Some(a)) if ok => {
                let (lb, la) = (len_of(&b), len_of(&a));
                if la > lb && cx.promise[s0] >= la - lb {
                    if c.allocs > 0 && cx.monitors {
                        vio("C10", format!("[{}] reallocated although {} more new keys were promised room by with_capacity/reserve/try_reserve", spec.toks, cx.promise[s0]));
                    }
                    cx.promise[s0] -= la - lb;
                    keep = true;
                } else if la <= lb {
                    keep = true; // an overwrite, a lookup or a removal through the handle uses up no room
                }
            }
            ("get", _, _) | ("get_key_value", _, _) | ("contains_key", _, _) | ("get_mut", _, _) | ("index", _, _) | ("get_key_value_mut", _, _) | ("rem", _, _) | ("remove", _, _) | ("remove_entry", _, _) | ("rawget", _, _) | ("iter", _, _) | ("keys", _, _) | ("values", _, _) | ("eq", _, _) if ok => keep = true,
            _ => {}
        }
        if !keep {
            for &s in &spec.slots {
                cx.promise[s] = 0;
            }
        }
    }
    // Q: a new old table appeared during the call: what its cached iterator still holds
    if let Some(a) = after {
        if let Some((ol, ob, _)) = a.old {
            let newold = match before.and_then(|b| b.old) {
                None => true,
                Some((bl, bb, _)) => ol > bl || ob != bb || matches!(spec.kind, "reserve" | "tryreserve" | "extend"),
            };
            if newold {
                let q = old_order(cx.maps[s0].as_ref().unwrap());
                writeln!(cx.out, "Q {}", nlist(&q)).unwrap();
            }
        }
    }
    writeln!(cx.out, "L {} {} {} {} {}", c.hashes, c.allocs, c.frees, nlist(&c.dk), nlist(&c.dv)).unwrap();
    let dump_now = std::mem::replace(&mut cx.dump_once, false);
    if dump_now || (cx.dump_every > 0 && cx.rng.below(cx.dump_every) == 0) {
        for &s in &spec.slots {
            if let Some(m) = cx.maps[s].as_ref() {
                if m.len() <= 2048 {
                    let d = dump_str(m);
                    writeln!(cx.out, "D {} {}", s, d).unwrap();
                }
            }
        }
    }
    // ---- coverage classes: phase x op x key location x tombstones
    if let Some(b) = before {
        let phase = match b.old {
            None => "none",
            Some((0, _, _)) => "emptied",
            Some((l, _, _)) if l + b.main_len > 0 && b.main_len <= cx.r_const + 1 => "just-started",
            Some(_) => "partly",
        };
        let tight = b.main_cap == b.main_len;
        cx.classes.insert(format!("{}|{}|loc{}|full{}", phase, spec.kind, loc, tight as u8));
    }
    // ---- C07: the state a caught user panic leaves behind
    if cx.monitors && out == Out::P("user".into()) {
        for &s in &spec.slots {
            let dest_of_clone_from = spec.kind == "clonefrom" && s == spec.slots[0];
            if let (Some(m), Some(rf)) = (cx.maps[s].as_ref(), cx.refs[s].as_ref()) {
                let st = m.verif_state();
                let mut seen: Vec<(u64, u64, u64)> = Vec::new();
                let mut n_iter = 0usize;
                for (k, v) in m.iter() {
                    n_iter += 1;
                    seen.push((k.class, k.id, v.get()));
                }
                if m.len() != n_iter || m.len() != st.main_len + st.old.map_or(0, |o| o.0) {
                    vio("C07", format!("after a caught panic in [{}]: len() {} but {} entries are iterated ({} + {} stored)", spec.toks, m.len(), n_iter, st.main_len, st.old.map_or(0, |o| o.0)));
                }
                if let Some((ol, _, cur)) = st.old {
                    if ol != cur {
                        vio("C07", format!("after a caught panic in [{}]: the cached iterator believes {} left, the old table holds {}", spec.toks, cur, ol));
                    }
                }
                let mut keys = std::collections::BTreeSet::new();
                for (k, _, _) in &seen {
                    if !keys.insert(*k) {
                        vio("C07", format!("after a caught panic in [{}]: key {} is iterated twice", spec.toks, k));
                    }
                }
                if dest_of_clone_from || cx.poisoned[s] {
                    continue; // contents unspecified (documented)
                }
                for (k, kid, v) in &seen {
                    let probe = K::new(*k, 0);
                    match m.get_key_value(&probe) {
                        Some((kk, vv)) if kk.id == *kid && vv.get() == *v => {}
                        _ => vio("C07", format!("after a caught panic in [{}]: iterated element {} is not found by get", spec.toks, k)),
                    }
                    let own = spec.key == Some(*k);
                    match rf.get(k) {
                        None if own => {}
                        None => vio("C07", format!("after a caught panic in [{}]: element {} appeared from nowhere", spec.toks, k)),
                        Some((okid, ov)) => {
                            let values_fixed = matches!(spec.kind, "ins" | "reserve" | "tryreserve" | "clone" | "shrink") || (matches!(spec.kind, "entry" | "rawentry") && !own);
                            if !own && okid != kid {
                                vio("C07", format!("after a caught panic in [{}]: element {} holds a key object it never had", spec.toks, k));
                            }
                            if values_fixed && !own && ov != v {
                                vio("C07", format!("after a caught panic in [{}]: element {} holds value {} it never had (was {})", spec.toks, k, v, ov));
                            }
                        }
                    }
                }
                // elements are lost only where documented: one element being relocated (Hash),
                // or the element handed to the panicking closure
                if matches!(spec.kind, "ins" | "entry" | "rawentry" | "reserve" | "tryreserve" | "clone") {
                    let lost: Vec<u64> = rf.keys().cloned().filter(|k| !keys.contains(k) && spec.key != Some(*k)).collect();
                    if lost.len() > 1 {
                        vio("C07", format!("after a caught panic in [{}]: {} elements were lost ({:?}...), at most the one being relocated may be", spec.toks, lost.len(), &lost[..2]));
                    }
                }
            }
        }
    }
    // ---- monitors (the property statements, checked on the real crate)
    if cx.monitors {
        let faulted = matches!(out, Out::P(_));
        let viol: Vec<String> = VIOL.with(|v| std::mem::take(&mut *v.borrow_mut()));
        for v in viol {
            vio("C06", v);
        }
        if let Out::P(ref cl) = out {
            if cl == "unwrap" {
                // Option::unwrap on None inside the crate: nothing documents such a panic
                let t: Vec<&str> = spec.toks.split(' ').collect();
                let ie = t.iter().position(|x| *x == "inse");
                let rp = t.iter().position(|x| *x == "orepk" || *x == "orepe");
                let d6 = spec.kind == "entry" && matches!((ie, rp), (Some(a), Some(b)) if a < b);
                let what = if d6 {
                    format!("class=entry-insert-vacant-then-replace undocumented panic (unwrap on None) in [{}]", spec.toks)
                } else {
                    format!("undocumented panic (unwrap on None) in [{}]", spec.toks)
                };
                vio("C01", what.clone());
                if matches!(spec.kind, "entry" | "rawentry" | "rawget") {
                    vio("C12", what);
                }
            }
            if cl.starts_with("other") {
                cx.abort = true;
                vio("C01", format!("undocumented panic {} in [{}]", cl, spec.toks));
                let arith = cl.contains("attempt_to") || cl.contains("overflow");
                let hb_assert = cl.contains("assertion") && !cl.contains("leftovers");
                if arith || cl.contains("assert") {
                    vio("C17", format!("panic that only a debug build raises, or a wrapped size: {} in [{}]", cl, spec.toks));
                }
                if cl.contains("leftovers.is_none") || (arith && matches!(spec.kind, "ins" | "entry" | "rawentry" | "extend" | "fromiter")) {
                    vio("C04", format!("no room left in the main table while a resize is pending: {} in [{}]", cl, spec.toks));
                }
                if hb_assert || cl.contains("unreachable") {
                    vio("C05", format!("hashbrown consistency assertion failed: {} in [{}]", cl, spec.toks));
                }
                if matches!(spec.kind, "reserve" | "tryreserve" | "shrink") {
                    vio("C10", format!("capacity call panicked: {} in [{}]", cl, spec.toks));
                }
                if matches!(spec.kind, "entry" | "rawentry" | "rawget") {
                    vio("C12", format!("entry call panicked: {} in [{}]", cl, spec.toks));
                }
                if matches!(spec.kind, "clone" | "clonefrom" | "eq") {
                    vio("C11", format!("clone/eq panicked: {} in [{}]", cl, spec.toks));
                }
                if matches!(spec.kind, "retain" | "drainfilter") {
                    vio("C09", format!("retain/drain_filter panicked: {} in [{}]", cl, spec.toks));
                }
                if matches!(spec.kind, "iter" | "keys" | "values" | "iter_mut" | "values_mut" | "drain" | "intoiter") {
                    vio("C08", format!("iterator panicked: {} in [{}]", cl, spec.toks));
                }
            }
        }
        for &s in &spec.slots {
            if let Some(m) = cx.maps[s].as_ref() {
                let st = m.verif_state();
                if let Some((ol, _, cur)) = st.old {
                    if ol != cur {
                        vio("C05", format!("cached iterator believes {} left, old table holds {} after [{}]", cur, ol, spec.toks));
                    }
                }
                if m.capacity() < m.len() {
                    vio("C04", format!("capacity {} < len {} after [{}]", m.capacity(), m.len(), spec.toks));
                }
                // everything ends up in the main table: a capacity() beyond what that table can hold
                // promises insertions that need another allocation
                if m.capacity() > st.main_cap {
                    vio("C04", format!("capacity() {} but the main table can hold {} (len {}, {} still in the old table) after [{}]", m.capacity(), st.main_cap, m.len(), st.old.map_or(0, |o| o.0), spec.toks));
                }
                if m.is_empty() != (m.len() == 0) {
                    vio("C01", format!("is_empty() is {} but len() is {} after [{}]", m.is_empty(), m.len(), spec.toks));
                }
                if m.len() != st.main_len + st.old.map_or(0, |o| o.0) {
                    vio("C01", format!("len() {} != {} + {}", m.len(), st.main_len, st.old.map_or(0, |o| o.0)));
                }
                // I-head: room for everything still to be moved plus the insertions that move it
                if let Some((ol, _, _)) = st.old {
                    let r = st.r;
                    let need = if ol == 0 { 1 } else { ol + (ol + r - 1) / r };
                    if st.main_cap - st.main_len < need {
                        vio("C04", format!("headroom {} < need {} (old {}) after [{}]", st.main_cap - st.main_len, need, ol, spec.toks));
                    }
                }
            }
        }
        if let (Some(b), Some(a)) = (before, after) {
            if !faulted && spec.fuse.is_none() {
                let r = b.r as u64;
                // a call adds a key when the key was absent (entry chains) or, for insert, also
                // when it overwrites an element still in the old table
                let adds = spec.key_adding && before.map_or(false, |b| b.main_len + b.old.map_or(0, |o| o.0) <= 4096)
                    && if spec.kind == "ins" { loc != 1 } else { loc == 0 };
                if adds {
                    // C02: bounded work
                    if c.hashes > r + 2 {
                        vio("C02", format!("{} hash computations in one key-adding call [{}]", c.hashes, spec.toks));
                    }
                    if c.allocs > 1 {
                        vio("C02", format!("{} table allocations in one key-adding call [{}]", c.allocs, spec.toks));
                    }
                    // C03: progress
                    if let Some((bl, _, _)) = b.old {
                        let al = a.old.map_or(0, |o| o.0);
                        if a.old.map_or(true, |o| o.1 == b.old.unwrap().1) && bl > al && bl - al > b.r {
                            vio("C02", format!("{} existing elements moved by one key-adding call (R={}) [{}]", bl - al, b.r, spec.toks));
                        }
                        let expect = bl - bl.min(b.r);
                        let carried = true;
                        if carried && al != expect && a.old.map_or(true, |o| o.1 == b.old.unwrap().1) {
                            vio("C03", format!("old table went {} -> {} (R={}) in [{}]", bl, al, b.r, spec.toks));
                        }
                        if carried && expect == 0 && a.old.is_some() && a.old.unwrap().1 == b.old.unwrap().1 {
                            vio("C03", format!("old table not released when emptied by [{}]", spec.toks));
                        }
                    }
                }
                // C03: removal paths that must release an old table they empty
                let must_free = matches!(spec.kind, "remove" | "remove_entry" | "drainfilter")
                    || (matches!(spec.kind, "entry" | "rawentry") && (spec.toks.contains(" orem") ) && !spec.toks.contains("orepw") && !spec.toks.contains("andrep"));
                // clear() and drain() (not forgotten) leave no old table behind, emptied or not
                if matches!(spec.kind, "clear" | "drain") && a.old.is_some() {
                    vio("C03", format!("an old table is still allocated after [{}]", spec.toks));
                }
                if must_free {
                    if let (Some((bl, _, _)), Some((0, _, _))) = (b.old, a.old) {
                        if bl > 0 {
                            vio("C03", format!("the old table was emptied by [{}] but is still allocated", spec.toks));
                        }
                    }
                }
                if spec.readonly {
                    if c.hashes > 1 {
                        vio("C02", format!("{} hash computations in lookup/removal [{}]", c.hashes, spec.toks));
                    }
                    if c.allocs > 0 {
                        vio("C02", format!("allocation in lookup/removal [{}]", spec.toks));
                    }
                    if a.main_len > b.main_len {
                        vio("C02", format!("elements moved by lookup/removal [{}]", spec.toks));
                    }
                }
            }
        }
    }
    writeln!(cx.out, "E").unwrap();
    out
}

// ------------------------------------------------------------------ operations

fn op_new(cx: &mut Ctx, s: usize, hb: HB, cap: usize) {
    let spec = OpSpec { toks: format!("new {} {} {}", s, hb.id, cap), kind: "new", slots: vec![s], pslot: None, fuse: None, key_adding: false, readonly: false, key: None };
    if cx.maps[s].is_some() {
        // an unrecorded drop of the map that was there: its deallocations still count
        arm(None);
        cx.maps[s] = None;
        let c = disarm();
        cx.tab_allocs += c.allocs;
        cx.tab_frees += c.frees;
    }
    cx.refs[s] = Some(Ref::new());
    cx.poisoned[s] = false;
    run_op(cx, spec, move |cx| {
        cx.maps[s] = Some(Map::with_capacity_and_hasher(cap, hb));
        Out::U
    });
    if cx.monitors {
        if let Some(m) = cx.maps[s].as_ref() {
            if m.capacity() < cap {
                vio("C10", format!("with_capacity({}) gave capacity {}", cap, m.capacity()));
            }
            // the default-hasher constructors follow the same allocation policy
            let d: griddle::HashMap<K, V> = griddle::HashMap::with_capacity(cap);
            let ds: griddle::HashSet<K> = griddle::HashSet::with_capacity(cap);
            // new() / with_hasher(): empty, nothing allocated
            let n1: griddle::HashMap<K, V> = griddle::HashMap::new();
            let n2: griddle::HashSet<K> = griddle::HashSet::new();
            let n3: Map = Map::with_hasher(HB { kind: 0, id: 7 });
            let n4: griddle::HashSet<K, HB> = griddle::HashSet::with_hasher(HB { kind: 0, id: 7 });
            let n5: Map = Map::default();
            if n1.capacity() != 0 || n2.capacity() != 0 || n3.capacity() != 0 || n4.capacity() != 0 || n5.capacity() != 0
                || !n1.is_empty() || !n2.is_empty() || !n3.is_empty() || !n4.is_empty() || n1.len() + n2.len() + n3.len() + n4.len() + n5.len() != 0
                || n3.hasher().id != 7 || n4.hasher().id != 7
            {
                vio("C10", "new() / with_hasher() / default() did not give an empty, unallocated collection with the given hasher".into());
            }
            if d.capacity() != m.capacity() || ds.capacity() != m.capacity() || !d.is_empty() || !ds.is_empty() {
                vio("C10", format!("with_capacity({}): capacity {} with a hasher, {} (map) / {} (set) with the default one", cap, m.capacity(), d.capacity(), ds.capacity()));
            }
        }
    }
}

fn op_insert(cx: &mut Ctx, s: usize, k: u64, fuse: Option<u64>) -> Out {
    let kid = cx.kid();
    let v = cx.val();
    let spec = OpSpec { toks: format!("ins {} {} {} {}", s, k, kid, v), kind: "ins", slots: vec![s], pslot: if fuse.is_some() { Some(s) } else { None }, fuse, key_adding: true, readonly: false, key: Some(k) };
    let key = K::new(k, kid);
    let val = V::new(v);
    let out = run_op(cx, spec, move |cx| {
        let r = cx.maps[s].as_mut().unwrap().insert(key, val);
        let o = Out::OV(r.as_ref().map(|v| v.get()));
        if let Some(v) = r {
            cx.grave.push(Box::new(v));
        }
        o
    });
    // reference
    if !matches!(out, Out::P(_)) {
        let rf = cx.refs[s].as_mut().unwrap();
        let exp = match rf.get_mut(&k) {
            Some(e) => {
                let old = e.1;
                e.1 = v;
                Some(old)
            }
            None => {
                rf.insert(k, (kid, v));
                None
            }
        };
        if cx.monitors && out != Out::OV(exp) {
            vio("C01", format!("insert({}) returned {:?}, reference map says {:?}", k, out, exp));
        }
    } else if fuse.is_some() {
        resync_ref(cx, s);
    }
    out
}

/// After a caught panic the reference is rebuilt from the map itself (the loss rules are checked
/// by the model comparison); later operations are again checked against it.
fn resync_ref(cx: &mut Ctx, s: usize) {
    let mut r = Ref::new();
    if let Some(m) = cx.maps[s].as_ref() {
        m.verif_for_each(|_, k, v| {
            r.insert(k.class, (k.id, v.get()));
        });
    }
    cx.refs[s] = Some(r);
}

fn op_get(cx: &mut Ctx, s: usize, variant: u64, k: u64) -> Out {
    let w = if variant == 3 || variant == 5 { cx.val() } else { 0 };
    let spec = OpSpec { toks: format!("get {} {} {} {}", s, variant, k, w), kind: match variant { 0 => "get", 1 => "get_key_value", 2 => "contains_key", 3 => "get_mut", 4 => "index", _ => "get_key_value_mut" }, slots: vec![s], pslot: None, fuse: None, key_adding: false, readonly: true, key: Some(k) };
    let probe = K::new(k, 0);
    let out = run_op(cx, spec, |cx| {
        let m = cx.maps[s].as_mut().unwrap();
        let o = match variant {
            0 => Out::OV(m.get(&probe).map(|v| v.get())),
            1 => Out::OKV(m.get_key_value(&probe).map(|(k, v)| (k.id, v.get()))),
            2 => Out::B(m.contains_key(&probe)),
            3 => match m.get_mut(&probe) {
                Some(r) => {
                    let old = std::mem::replace(r, V::new(w));
                    let o = Out::OV(Some(old.get()));
                    cx.grave.push(Box::new(old));
                    o
                }
                None => Out::OV(None),
            },
            4 => Out::OV(Some(m[&probe].get())),
            _ => match m.get_key_value_mut(&probe) {
                Some((k, r)) => {
                    let old = std::mem::replace(r, V::new(w));
                    let o = Out::OKV(Some((k.id, old.get())));
                    cx.grave.push(Box::new(old));
                    o
                }
                None => Out::OKV(None),
            },
        };
        o
    });
    drop(probe);
    // get_mut cannot see the key object: patch the id from the reference for the record
    let rf = cx.refs[s].as_mut().unwrap();
    let cur = rf.get(&k).cloned();
    let exp = match variant {
        0 => Out::OV(cur.map(|e| e.1)),
        1 | 5 => Out::OKV(cur),
        2 => Out::B(cur.is_some()),
        3 => Out::OV(cur.map(|e| e.1)),
        _ => match cur {
            Some(e) => Out::OV(Some(e.1)),
            None => Out::P("index".into()),
        },
    };
    if (variant == 3 || variant == 5) && cur.is_some() {
        rf.get_mut(&k).unwrap().1 = w;
    }
    if cx.monitors && out != exp {
        vio("C01", format!("lookup variant {} of {} returned {:?}, reference says {:?}", variant, k, out, exp));
    }
    out
}

fn op_remove(cx: &mut Ctx, s: usize, entry: bool, k: u64) -> Out {
    let spec = OpSpec { toks: format!("rem {} {} {}", s, entry as u8, k), kind: if entry { "remove_entry" } else { "remove" }, slots: vec![s], pslot: None, fuse: None, key_adding: false, readonly: true, key: Some(k) };
    let probe = K::new(k, 0);
    let out = run_op(cx, spec, |cx| {
        let m = cx.maps[s].as_mut().unwrap();
        if entry {
            let r = m.remove_entry(&probe);
            let o = Out::OKV(r.as_ref().map(|(k, v)| (k.id, v.get())));
            if let Some(x) = r {
                cx.grave.push(Box::new(x));
            }
            o
        } else {
            let r = m.remove(&probe);
            let o = Out::OV(r.as_ref().map(|v| v.get()));
            if let Some(x) = r {
                cx.grave.push(Box::new(x));
            }
            o
        }
    });
    drop(probe);
    let cur = cx.refs[s].as_mut().unwrap().remove(&k);
    let exp = if entry { Out::OKV(cur) } else { Out::OV(cur.map(|e| e.1)) };
    if cx.monitors && out != exp {
        vio("C01", format!("remove({}) returned {:?}, reference says {:?}", k, out, exp));
    }
    out
}

fn op_clear(cx: &mut Ctx, s: usize) {
    let spec = OpSpec { toks: format!("clear {}", s), kind: "clear", slots: vec![s], pslot: None, fuse: None, key_adding: false, readonly: false, key: None };
    run_op(cx, spec, |cx| {
        cx.maps[s].as_mut().unwrap().clear();
        Out::U
    });
    cx.refs[s].as_mut().unwrap().clear();
    if cx.monitors && cx.maps[s].as_ref().unwrap().verif_state().old.is_some() {
        vio("C03", "old table survives clear()".into());
    }
}

fn op_reserve(cx: &mut Ctx, s: usize, n: usize, fallible: bool, fuse: Option<u64>) -> Out {
    let spec = OpSpec { toks: format!("{} {} {}", if fallible { "tryreserve" } else { "reserve" }, s, n), kind: if fallible { "tryreserve" } else { "reserve" }, slots: vec![s], pslot: None, fuse, key_adding: false, readonly: false, key: None };
    let len0 = cx.maps[s].as_ref().unwrap().len();
    let out = run_op(cx, spec, |cx| {
        let m = cx.maps[s].as_mut().unwrap();
        if fallible {
            Out::B(m.try_reserve(n).is_ok())
        } else {
            m.reserve(n);
            Out::U
        }
    });
    if cx.monitors && fuse.is_none() {
        let m = cx.maps[s].as_ref().unwrap();
        let ok = matches!(out, Out::U | Out::B(true));
        if ok && (m.capacity() as u128) < (m.len() as u128 + n as u128) {
            vio("C10", format!("reserve({}) returned normally with capacity {} < len {} + n", n, m.capacity(), m.len()));
        }
        if m.len() != len0 {
            vio("C10", format!("reserve changed len {} -> {}", len0, m.len()));
        }
        if let Out::P(ref c) = out {
            if fallible {
                vio("C10", format!("try_reserve({}) panicked ({}) instead of returning Err", n, c));
            } else if c != "capov" {
                vio("C10", format!("reserve({}) panicked with {}", n, c));
            }
        }
        if out == Out::B(false) {
            check_contents(cx, s, "C10", "a failed try_reserve");
        }
    }
    if fuse.is_some() {
        resync_ref(cx, s);
    }
    out
}

fn op_shrink(cx: &mut Ctx, s: usize, n: usize) {
    let spec = OpSpec { toks: format!("shrink {} {}", s, n), kind: "shrink", slots: vec![s], pslot: None, fuse: None, key_adding: false, readonly: false, key: None };
    let (cap0, b0, len0) = {
        let m = cx.maps[s].as_ref().unwrap();
        (m.capacity(), m.verif_state().main_buckets, m.len())
    };
    let out = run_op(cx, spec, |cx| {
        let m = cx.maps[s].as_mut().unwrap();
        if n == 0 {
            m.shrink_to_fit()
        } else {
            m.shrink_to(n)
        }
        Out::U
    });
    if cx.monitors {
        let m = cx.maps[s].as_ref().unwrap();
        if matches!(out, Out::P(_)) {
            vio("C10", format!("shrink_to({}) panicked", n));
        }
        if m.verif_state().main_buckets > b0 {
            vio("C10", format!("shrink_to({}) enlarged the table {} -> {} buckets", n, b0, m.verif_state().main_buckets));
        }
        if m.capacity() < m.len().max(n.min(cap0)) {
            vio("C10", format!("shrink_to({}): capacity {} < max(len {}, min(m, previous capacity {}))", n, m.capacity(), m.len(), cap0));
        }
        if m.len() != len0 {
            vio("C10", format!("shrink_to changed len {} -> {}", len0, m.len()));
        }
    }
}

fn triples(m: &Map, it: impl Iterator<Item = (u64, u64, u64)>) -> Vec<(u64, u64, u64)> {
    let _ = m;
    it.collect()
}

/// iter (0), keys (1), values (2), iter_mut (3), values_mut (4); checks exact length at every step,
/// fusedness and clone independence (C08), and compares with the reference (C01/C14).
fn op_iter(cx: &mut Ctx, s: usize, variant: u64) -> Out {
    let delta = if variant >= 3 { 1 + cx.rng.below(9) } else { 0 };
    let spec = OpSpec { toks: format!("iter {} {} {}", s, variant, delta), kind: match variant { 0 => "iter", 1 => "keys", 2 => "values", 3 => "iter_mut", _ => "values_mut" }, slots: vec![s], pslot: Some(s), fuse: None, key_adding: false, readonly: false, key: None };
    let mut problems: Vec<String> = Vec::new();
    let clone_at = cx.rng.below(8) as usize;
    let alt = cx.opi % 2 == 1;
    let out = run_op(cx, spec, |cx| {
        let m = cx.maps[s].as_mut().unwrap();
        let n = m.len();
        // order of the elements as iter() sees them (keys()/values() must agree with it)
        let order: Vec<(u64, u64, u64)> = triples(m, m.iter().map(|(k, v)| (k.class, k.id, v.get())));
        let mut got: Vec<(u64, u64, u64)> = Vec::new();
        macro_rules! walk {
            ($it:expr, $f:expr) => {{
                let mut it = $it;
                let mut i = 0usize;
                loop {
                    let (lo, hi) = it.size_hint();
                    if lo != n - i || hi != Some(n - i) || it.len() != n - i {
                        problems.push(format!("after {} of {} items size_hint=({},{:?}) len={}", i, n, lo, hi, it.len()));
                    }
                    match it.next() {
                        Some(x) => {
                            $f(&mut got, x, i);
                            i += 1;
                        }
                        None => break,
                    }
                    if i > n + 2 {
                        problems.push("iterator yields more than len() items".into());
                        break;
                    }
                }
                for _ in 0..3 {
                    if it.next().is_some() {
                        problems.push("item after None".into());
                    }
                }
            }};
        }
        match variant {
            0 => {
                if alt {
                    // IntoIterator for &HashMap is iter()
                    walk!((&*m).into_iter(), |g: &mut Vec<(u64, u64, u64)>, (k, v): (&K, &V), _| g.push((k.class, k.id, v.get())));
                } else {
                    walk!(m.iter(), |g: &mut Vec<(u64, u64, u64)>, (k, v): (&K, &V), _| g.push((k.class, k.id, v.get())));
                }
                // clone independence
                let mut a = m.iter();
                for _ in 0..clone_at.min(n) {
                    a.next();
                }
                let b = a.clone();
                let ra: Vec<u64> = a.map(|(k, _)| k.class).collect();
                let rb: Vec<u64> = b.map(|(k, _)| k.class).collect();
                if ra != rb || ra.len() != n - clone_at.min(n) {
                    problems.push("cloned iterator diverges".into());
                }
            }
            1 => {
                walk!(m.keys(), |g: &mut Vec<(u64, u64, u64)>, k: &K, i: usize| {
                    let v = order.get(i).map_or(0, |x| x.2);
                    g.push((k.class, k.id, v))
                });
                let mut a = m.keys();
                for _ in 0..clone_at.min(n) {
                    a.next();
                }
                let b = a.clone();
                let ra: Vec<u64> = a.map(|k| k.class).collect();
                let rb: Vec<u64> = b.map(|k| k.class).collect();
                if ra != rb || ra.len() != n - clone_at.min(n) {
                    problems.push("cloned keys() iterator diverges".into());
                }
            }
            2 => {
                walk!(m.values(), |g: &mut Vec<(u64, u64, u64)>, v: &V, i: usize| {
                    let (k, kid) = order.get(i).map_or((0, 0), |x| (x.0, x.1));
                    g.push((k, kid, v.get()))
                });
                let mut a = m.values();
                for _ in 0..clone_at.min(n) {
                    a.next();
                }
                let b = a.clone();
                let ra: Vec<u64> = a.map(|v| v.get()).collect();
                let rb: Vec<u64> = b.map(|v| v.get()).collect();
                if ra != rb || ra.len() != n - clone_at.min(n) {
                    problems.push("cloned values() iterator diverges".into());
                }
            }
            3 => {
                if alt {
                    // IntoIterator for &mut HashMap is iter_mut()
                    walk!((&mut *m).into_iter(), |g: &mut Vec<(u64, u64, u64)>, (k, v): (&K, &mut V), _| {
                        g.push((k.class, k.id, v.get()));
                        v.add(delta)
                    });
                } else {
                    walk!(m.iter_mut(), |g: &mut Vec<(u64, u64, u64)>, (k, v): (&K, &mut V), _| {
                        g.push((k.class, k.id, v.get()));
                        v.add(delta)
                    });
                }
            }
            _ => {
                walk!(m.values_mut(), |g: &mut Vec<(u64, u64, u64)>, v: &mut V, i: usize| {
                    let (k, kid) = order.get(i).map_or((0, 0), |x| (x.0, x.1));
                    g.push((k, kid, v.get()));
                    v.add(delta)
                });
            }
        }
        if (variant == 1 || variant == 2) && got != order {
            problems.push("keys()/values() order differs from iter()".into());
        }
        Out::L(got)
    });
    if cx.monitors {
        for p in problems {
            vio("C08", format!("{} (iterator variant {})", p, variant));
        }
        if let Out::L(ref got) = out {
            let mut g = got.clone();
            g.sort();
            let exp: Vec<(u64, u64, u64)> = cx.refs[s].as_ref().unwrap().iter().map(|(k, e)| (*k, e.0, e.1)).collect();
            if g != exp && !cx.poisoned[s] {
                vio("C08", format!("iterator variant {} yielded {} items, not the {} elements of the reference exactly once each", variant, g.len(), exp.len()));
            }
        }
    }
    if delta > 0 {
        for e in cx.refs[s].as_mut().unwrap().values_mut() {
            e.1 += delta;
        }
    }
    out
}

fn op_retain(cx: &mut Ctx, s: usize, keep: Vec<u64>, delta: u64, fuse: Option<u64>) -> Out {
    let spec = OpSpec { toks: format!("retain {} {} {}", s, delta, nlist(&keep)), kind: "retain", slots: vec![s], pslot: Some(s), fuse, key_adding: false, readonly: false, key: None };
    let keepset: std::collections::BTreeSet<u64> = keep.iter().cloned().collect();
    let ks = keepset.clone();
    let out = run_op(cx, spec, move |cx| {
        let m = cx.maps[s].as_mut().unwrap();
        let mut log: Vec<(u64, u64, u64)> = Vec::new();
        let lg = AssertUnwindSafe(&mut log);
        let mut lg = lg;
        m.retain(|k, v| {
            cb();
            lg.push((k.class, k.id, v.get()));
            if delta > 0 {
                v.add(delta);
            }
            ks.contains(&k.class)
        });
        Out::L(log)
    });
    if fuse.is_some() {
        resync_ref(cx, s);
        return out;
    }
    let rf = cx.refs[s].as_mut().unwrap();
    let exp_calls: Vec<(u64, u64, u64)> = rf.iter().map(|(k, e)| (*k, e.0, e.1)).collect();
    rf.retain(|k, e| {
        e.1 += delta;
        keepset.contains(k)
    });
    if cx.monitors {
        if let Out::L(ref log) = out {
            let mut l = log.clone();
            l.sort();
            if l != exp_calls {
                vio("C09", format!("retain called the predicate on {} elements, the map held {} (each must be visited exactly once)", l.len(), exp_calls.len()));
            }
        }
        check_contents(cx, s, "C09", "retain");
    }
    out
}

fn contents(m: &Map) -> Vec<(u64, u64, u64)> {
    let mut v: Vec<(u64, u64, u64)> = m.iter().map(|(k, v)| (k.class, k.id, v.get())).collect();
    v.sort();
    v
}

fn check_contents(cx: &mut Ctx, s: usize, prop: &str, what: &str) {
    if cx.poisoned[s] {
        return;
    }
    let m = cx.maps[s].as_ref().unwrap();
    if m.len() > 4096 {
        return;
    }
    let got = contents(m);
    let exp: Vec<(u64, u64, u64)> = cx.refs[s].as_ref().unwrap().iter().map(|(k, e)| (*k, e.0, e.1)).collect();
    if got != exp {
        let extra: Vec<_> = got.iter().filter(|x| !exp.contains(x)).take(3).collect();
        let missing: Vec<_> = exp.iter().filter(|x| !got.contains(x)).take(3).collect();
        vio(prop, format!("contents after {} differ from the reference map: {} vs {} elements, unexpected {:?}, missing {:?}", what, got.len(), exp.len(), extra, missing));
    }
    // every element is found by get
    let m = cx.maps[s].as_ref().unwrap();
    let mut notfound = None;
    for (k, _, v) in &got {
        let p = K::new(*k, 0);
        if m.get(&p).map(|x| x.get()) != Some(*v) {
            notfound = Some(*k);
        }
    }
    if let Some(k) = notfound {
        vio(prop, format!("element {} is iterated but not found by get after {}", k, what));
    }
}

/// `bomb`: the class of a key whose key object's destructor panics if DrainFilter's own Drop is
/// what drops it; the Drop impl must then still remove every remaining matching element (its
/// ConsumeAllOnDrop guard) before the panic goes on - caught here, so that the call compares with
/// the model's early-dropped drain_filter like any other.
fn op_drain_filter(cx: &mut Ctx, s: usize, take: Vec<u64>, delta: u64, j: Option<u64>, forget: bool, fuse: Option<u64>) -> Out {
    op_drain_filter_bomb(cx, s, take, delta, j, forget, fuse, None)
}
fn op_drain_filter_bomb(cx: &mut Ctx, s: usize, take: Vec<u64>, delta: u64, j: Option<u64>, forget: bool, fuse: Option<u64>, bomb: Option<u64>) -> Out {
    let bomb_kid: Option<u64> = if forget || fuse.is_some() { None } else { bomb.and_then(|b| cx.refs[s].as_ref().and_then(|r| r.get(&b).map(|e| e.0))) };
    if bomb_kid.is_some() {
        cx.bump("drainfilter_bomb");
    }
    let spec = OpSpec { toks: format!("drainfilter {} {} {} {} {}", s, delta, ostr(&j), forget as u8, nlist(&take)), kind: "drainfilter", slots: vec![s], pslot: Some(s), fuse, key_adding: false, readonly: false, key: None };
    let takeset: std::collections::BTreeSet<u64> = take.iter().cloned().collect();
    let ts = takeset.clone();
    let mut seen_v: Vec<u64> = Vec::new();
    let seen = AssertUnwindSafe(&mut seen_v);
    let out = run_op(cx, spec, move |cx| {
        let mut seen = seen;
        let m = cx.maps[s].as_mut().unwrap();
        let mut got: Vec<(u64, u64, u64)> = Vec::new();
        let mut it = m.drain_filter(|k, v| {
            cb();
            seen.push(k.class);
            if delta > 0 {
                v.add(delta);
            }
            ts.contains(&k.class)
        });
        let mut n = 0u64;
        while j.map_or(true, |j| n < j) {
            match it.next() {
                Some((k, v)) => {
                    got.push((k.class, k.id, v.get()));
                    bury((k, v));
                    n += 1;
                }
                None => break,
            }
        }
        if forget {
            std::mem::forget(it);
        } else {
            match bomb_kid {
                Some(b) if !got.iter().any(|g| g.1 == b) => {
                    BOMB.store(b, SeqCst);
                    let r = catch_unwind(AssertUnwindSafe(move || drop(it)));
                    BOMB.store(0, SeqCst);
                    if let Err(p) = r {
                        if !p.is::<FusePanic>() {
                            std::panic::resume_unwind(p);
                        }
                    }
                }
                _ => drop(it),
            }
        }
        Out::L(got)
    });
    if fuse.is_some() {
        resync_ref(cx, s);
        return out;
    }
    // reference: elements visited get +delta; visited-and-taken are removed
    let rf = cx.refs[s].as_mut().unwrap();
    let visited: std::collections::BTreeSet<u64> = seen_v.iter().cloned().collect();
    let mut exp_yield: Vec<(u64, u64, u64)> = Vec::new();
    if let Out::L(ref got) = out {
        for k in &visited {
            if let Some(e) = rf.get_mut(k) {
                e.1 += delta;
            }
        }
        for (k, _, _) in got {
            if let Some(e) = rf.remove(k) {
                exp_yield.push((*k, e.0, e.1));
            }
        }
        if !forget {
            // everything matching that was not yielded is removed by Drop
            let rest: Vec<u64> = rf.keys().cloned().filter(|k| takeset.contains(k)).collect();
            for k in rest {
                rf.remove(&k);
            }
        }
        if cx.monitors {
            let mut g = got.clone();
            g.sort();
            exp_yield.sort();
            if g != exp_yield {
                vio("C09", "drain_filter yielded something that was not in the map (or twice)".into());
            }
            if got.iter().any(|(k, _, _)| !takeset.contains(k)) {
                vio("C09", "drain_filter yielded an element the predicate rejected".into());
            }
            let mut sv = seen_v.clone();
            sv.sort();
            let n0 = sv.len();
            sv.dedup();
            if sv.len() != n0 {
                vio("C09", "drain_filter called the predicate twice on one element".into());
            }
            if j.is_none() && !forget {
                // fully consumed: nothing matching may remain
            }
        }
    }
    if cx.monitors {
        // when not forgotten no matching element may remain; untouched ones stay
        if !forget {
            let m = cx.maps[s].as_ref().unwrap();
            if m.len() <= 4096 && m.iter().any(|(k, _)| takeset.contains(&k.class)) {
                vio("C09", "a matching element survived drain_filter".into());
            }
        }
        check_contents(cx, s, "C09", "drain_filter");
    }
    out
}

fn op_drain(cx: &mut Ctx, s: usize, j: u64, forget: bool) -> Out {
    let spec = OpSpec { toks: format!("drain {} {} {}", s, j, forget as u8), kind: "drain", slots: vec![s], pslot: Some(s), fuse: None, key_adding: false, readonly: false, key: None };
    let mut problems: Vec<String> = Vec::new();
    let out = run_op(cx, spec, |cx| {
        let m = cx.maps[s].as_mut().unwrap();
        let n = m.len();
        let mut it = m.drain();
        let mut got = Vec::new();
        for i in 0..j as usize {
            if it.len() != n - i.min(n) {
                problems.push(format!("drain len {} after {} of {}", it.len(), i, n));
            }
            match it.next() {
                Some((k, v)) => {
                    got.push((k.class, k.id, v.get()));
                    bury((k, v));
                }
                None => break,
            }
        }
        if forget {
            std::mem::forget(it);
        } else {
            drop(it);
        }
        Out::L(got)
    });
    if cx.monitors {
        for p in problems {
            vio("C08", p);
        }
        if let Out::L(ref got) = out {
            let rf = cx.refs[s].as_ref().unwrap();
            let mut g = got.clone();
            g.sort();
            g.dedup();
            if g.len() != got.len() || got.iter().any(|(k, kid, v)| rf.get(k) != Some(&(*kid, *v))) {
                vio("C08", "drain yielded an element twice or one that was not in the map".into());
            }
        }
        let m = cx.maps[s].as_ref().unwrap();
        if m.len() != 0 || m.iter().count() != 0 || m.verif_state().old.is_some() {
            vio("C08", format!("map not empty after drain (len {})", m.len()));
        }
    }
    cx.refs[s].as_mut().unwrap().clear();
    out
}

fn op_into_iter(cx: &mut Ctx, s: usize, j: u64) -> Out {
    let spec = OpSpec { toks: format!("intoiter {} {}", s, j), kind: "intoiter", slots: vec![s], pslot: Some(s), fuse: None, key_adding: false, readonly: false, key: None };
    let mut problems: Vec<String> = Vec::new();
    let out = run_op(cx, spec, |cx| {
        let m = cx.maps[s].take().unwrap();
        let n = m.len();
        let mut it = m.into_iter();
        let mut got = Vec::new();
        for i in 0..j as usize {
            if it.len() != n - i.min(n) {
                problems.push(format!("into_iter len {} after {} of {}", it.len(), i, n));
            }
            match it.next() {
                Some((k, v)) => {
                    got.push((k.class, k.id, v.get()));
                    bury((k, v));
                }
                None => {
                    if it.next().is_some() {
                        problems.push("into_iter item after None".into());
                    }
                    break;
                }
            }
        }
        drop(it);
        Out::L(got)
    });
    if cx.monitors {
        for p in problems {
            vio("C08", p);
        }
        if let Out::L(ref got) = out {
            let rf = cx.refs[s].as_ref().unwrap();
            let mut g = got.clone();
            g.sort();
            g.dedup();
            if g.len() != got.len() || got.iter().any(|(k, kid, v)| rf.get(k) != Some(&(*kid, *v))) {
                vio("C08", "into_iter yielded an element twice or one that was not in the map".into());
            }
            if j as usize >= rf.len() && got.len() != rf.len() {
                vio("C08", format!("into_iter yielded {} of {} elements", got.len(), rf.len()));
            }
        }
    }
    cx.refs[s] = None;
    out
}

/// an iterator with a chosen lower size hint
struct It(std::vec::IntoIter<(K, V)>, usize);
impl Iterator for It {
    type Item = (K, V);
    fn next(&mut self) -> Option<(K, V)> {
        self.0.next()
    }
    fn size_hint(&self) -> (usize, Option<usize>) {
        (self.1, None)
    }
}
fn op_extend(cx: &mut Ctx, s: usize, keys: Vec<u64>, hint: usize) -> Out {
    let items: Vec<(u64, u64, u64)> = keys.iter().map(|k| (*k, cx.kid(), cx.val())).collect();
    let mut toks = format!("extend {} {} {}", s, hint, items.len());
    for (k, kid, v) in &items {
        write!(toks, " {} {} {}", k, kid, v).unwrap();
    }
    let spec = OpSpec { toks, kind: "extend", slots: vec![s], pslot: None, fuse: None, key_adding: false, readonly: false, key: None };
    let objs: Vec<(K, V)> = items.iter().map(|(k, kid, v)| (K::new(*k, *kid), V::new(*v))).collect();
    let out = run_op(cx, spec, move |cx| {
        cx.maps[s].as_mut().unwrap().extend(It(objs.into_iter(), hint));
        Out::U
    });
    if let Out::P(ref c) = out {
        if cx.monitors && c != "capov" {
            vio("C01", format!("extend panicked with {}", c));
        }
        return out;
    }
    let rf = cx.refs[s].as_mut().unwrap();
    for (k, kid, v) in items {
        match rf.get_mut(&k) {
            Some(e) => e.1 = v,
            None => {
                rf.insert(k, (kid, v));
            }
        }
    }
    if cx.monitors {
        check_contents(cx, s, "C01", "extend");
    }
    out
}

fn op_from_iter(cx: &mut Ctx, s: usize, hb: HB, keys: Vec<u64>, hint: usize) {
    let items: Vec<(u64, u64, u64)> = keys.iter().map(|k| (*k, cx.kid(), cx.val())).collect();
    let mut toks = format!("fromiter {} {} {} {}", s, hb.id, hint, items.len());
    for (k, kid, v) in &items {
        write!(toks, " {} {} {}", k, kid, v).unwrap();
    }
    let spec = OpSpec { toks, kind: "fromiter", slots: vec![s], pslot: None, fuse: None, key_adding: false, readonly: false, key: None };
    let objs: Vec<(K, V)> = items.iter().map(|(k, kid, v)| (K::new(*k, *kid), V::new(*v))).collect();
    if cx.maps[s].is_some() {
        // an unrecorded drop of the map that was there: its deallocations still count
        arm(None);
        cx.maps[s] = None;
        let c = disarm();
        cx.tab_allocs += c.allocs;
        cx.tab_frees += c.frees;
    }
    cx.poisoned[s] = false;
    run_op(cx, spec, move |cx| {
        // FromIterator needs S: Default: the real from_iter when the hasher is the default one,
        // otherwise what from_iter does, by hand
        if hb == HB::default() {
            cx.maps[s] = Some(It(objs.into_iter(), hint).collect::<Map>());
        } else {
            let mut m = Map::with_capacity_and_hasher(hint, hb);
            for (k, v) in objs {
                m.insert(k, v);
            }
            cx.maps[s] = Some(m);
        }
        Out::U
    });
    let mut rf = Ref::new();
    for (k, kid, v) in items {
        match rf.get_mut(&k) {
            Some(e) => {
                let e: &mut (u64, u64) = e;
                e.1 = v
            }
            None => {
                rf.insert(k, (kid, v));
            }
        }
    }
    cx.refs[s] = Some(rf);
    if cx.monitors {
        check_contents(cx, s, "C01", "from_iter");
    }
}

/// Serialize slot s with the recording serializer: the declared length, then every entry in order.
#[cfg(feature = "ser")]
fn op_serialize(cx: &mut Ctx, s: usize) -> Vec<(u64, u64, u64)> {
    let spec = OpSpec { toks: format!("serialize {}", s), kind: "serialize", slots: vec![s], pslot: Some(s), fuse: None, key_adding: false, readonly: true, key: None };
    let mut items: Vec<(u64, u64, u64)> = Vec::new();
    let mut problem: Option<String> = None;
    let out = run_op(cx, spec, |cx| {
        let m = cx.maps[s].as_ref().unwrap();
        match ser::emit(m) {
            Ok(e) => {
                if e.kind != "map" || !e.ended || e.keys.len() != e.vals.len() {
                    problem = Some(format!("not a well-formed map: kind {} ended {} {} keys {} values", e.kind, e.ended, e.keys.len(), e.vals.len()));
                }
                for (k, v) in e.keys.iter().zip(e.vals.iter()) {
                    let (c, i) = ser::dec(*k);
                    items.push((c, i, *v));
                }
                Out::S(vec![Out::N(e.declared.map_or(u64::MAX, |n| n as u64)), Out::L(items.clone())])
            }
            Err(m) => {
                problem = Some(m);
                Out::U
            }
        }
    });
    if cx.monitors {
        if let Some(p) = problem {
            vio("C16", format!("Serialize of slot {}: {}", s, p));
        }
        let m = cx.maps[s].as_ref().unwrap();
        let seq: Vec<(u64, u64, u64)> = m.iter().map(|(k, v)| (k.class, k.id, v.get())).collect();
        if let Out::S(ref l) = out {
            if l[0] != Out::N(m.len() as u64) {
                vio("C16", format!("Serialize declared length {:?} for a map of {} elements", l[0], m.len()));
            }
            if l[1] != Out::L(seq.clone()) {
                vio("C16", format!("Serialize emitted {} entries, iter() yields {} (each once, in iteration order)", items.len(), seq.len()));
            }
        }
        check_contents(cx, s, "C16", "Serialize");
    }
    items
}

/// Deserialize a map from `items` into slot d (the size hint as chosen); recorded as from_iter
/// with the cautious hint, which is what the visitor does.
#[cfg(feature = "ser")]
fn op_deserialize(cx: &mut Ctx, d: usize, items: Vec<(u64, u64, u64)>, hint: Option<usize>) {
    let mut toks = format!("fromiter {} 0 {} {}", d, ser::cautious(hint), items.len());
    for (k, kid, v) in &items {
        write!(toks, " {} {} {}", k, kid, v).unwrap();
    }
    let spec = OpSpec { toks, kind: "deserialize", slots: vec![d], pslot: None, fuse: None, key_adding: false, readonly: false, key: None };
    if cx.maps[d].is_some() {
        arm(None);
        cx.maps[d] = None;
        let c = disarm();
        cx.tab_allocs += c.allocs;
        cx.tab_frees += c.frees;
    }
    cx.poisoned[d] = false;
    let pairs: Vec<(u64, u64)> = items.iter().map(|(k, kid, v)| (ser::enc(*k, *kid), *v)).collect();
    let mut err: Option<String> = None;
    run_op(cx, spec, |cx| {
        match ser::map_from::<Map>(pairs, hint) {
            Ok(m) => cx.maps[d] = Some(m),
            Err(e) => {
                err = Some(e);
                cx.maps[d] = Some(Map::default());
            }
        }
        Out::U
    });
    let mut rf = Ref::new();
    for (k, kid, v) in items {
        match rf.get_mut(&k) {
            Some(e) => {
                let e: &mut (u64, u64) = e;
                e.1 = v
            }
            None => {
                rf.insert(k, (kid, v));
            }
        }
    }
    cx.refs[d] = Some(rf);
    if cx.monitors {
        if let Some(e) = err {
            vio("C16", format!("Deserialize failed: {}", e));
        }
        check_contents(cx, d, "C16", "Deserialize");
    }
}

fn op_clone(cx: &mut Ctx, s: usize, d: usize, fuse: Option<u64>) -> Out {
    let spec = OpSpec { toks: format!("clone {} {}", s, d), kind: "clone", slots: vec![s, d], pslot: if fuse.is_some() { Some(s) } else { None }, fuse, key_adding: false, readonly: false, key: None };
    cx.maps[d] = None;
    let src_before = cx.maps[s].as_ref().map(dump_str);
    let out = run_op(cx, spec, |cx| {
        let c = cx.maps[s].as_ref().unwrap().clone();
        let id = c.hasher().id;
        cx.maps[d] = Some(c);
        Out::N(id)
    });
    if matches!(out, Out::P(_)) {
        cx.refs[d] = None;
        return out;
    }
    cx.refs[d] = cx.refs[s].clone();
    cx.poisoned[d] = cx.poisoned[s];
    if cx.monitors {
        if cx.maps[s].as_ref().map(dump_str) != src_before {
            vio("C11", "clone() changed its source".into());
        }
        if cx.maps[d].as_ref().unwrap() != cx.maps[s].as_ref().unwrap() || cx.maps[s].as_ref().unwrap() != cx.maps[d].as_ref().unwrap() {
            vio("C11", "clone() != source".into());
        }
        check_contents(cx, d, "C11", "clone");
    }
    out
}

fn op_clone_from(cx: &mut Ctx, d: usize, s: usize, fuse: Option<u64>) -> Out {
    let spec = OpSpec { toks: format!("clonefrom {} {}", d, s), kind: "clonefrom", slots: vec![d, s], pslot: if fuse.is_some() { Some(s) } else { None }, fuse, key_adding: false, readonly: false, key: None };
    let src_before = cx.maps[s].as_ref().map(dump_str);
    let out = run_op(cx, spec, |cx| {
        let (a, b) = if d < s {
            let (x, y) = cx.maps.split_at_mut(s);
            (x[d].as_mut().unwrap(), y[0].as_ref().unwrap())
        } else {
            let (x, y) = cx.maps.split_at_mut(d);
            (y[0].as_mut().unwrap(), x[s].as_ref().unwrap())
        };
        a.clone_from(b);
        Out::N(a.hasher().id)
    });
    if matches!(out, Out::P(_)) {
        // interrupted: contents unspecified, possibly filed under the other hasher
        cx.poisoned[d] = true;
        cx.bump("clonefrom_interrupted");
        resync_ref(cx, d);
        return out;
    }
    cx.refs[d] = cx.refs[s].clone();
    cx.poisoned[d] = cx.poisoned[s];
    if cx.monitors {
        if cx.maps[s].as_ref().map(dump_str) != src_before {
            vio("C11", "clone_from() changed its source".into());
        }
        if cx.maps[d].as_ref().unwrap() != cx.maps[s].as_ref().unwrap() {
            vio("C11", "clone_from() result != source".into());
        }
        if cx.maps[d].as_ref().unwrap().hasher() != cx.maps[s].as_ref().unwrap().hasher() {
            vio("C11", "clone_from() did not adopt the source's hasher".into());
        }
        check_contents(cx, d, "C11", "clone_from");
    }
    out
}

fn op_eq(cx: &mut Ctx, a: usize, b: usize) -> Out {
    op_eq_with(cx, a, b, None)
}
/// == or (with a pool) rayon's par_eq: the same record, the same answer
fn op_eq_with(cx: &mut Ctx, a: usize, b: usize, pool: Option<usize>) -> Out {
    let spec = OpSpec { toks: format!("eq {} {}", a, b), kind: if pool.is_some() { "par_eq" } else { "eq" }, slots: vec![a], pslot: Some(a), fuse: None, key_adding: false, readonly: false, key: None };
    let out = run_op(cx, spec, |cx| {
        let (ma, mb) = (cx.maps[a].as_ref().unwrap(), cx.maps[b].as_ref().unwrap());
        match pool {
            #[cfg(feature = "par")]
            Some(p) => Out::B(par::par_eq(ma, mb, p)),
            _ => Out::B(ma == mb),
        }
    });
    if cx.monitors && !cx.poisoned[a] && !cx.poisoned[b] {
        let ra: Vec<(u64, u64)> = cx.refs[a].as_ref().unwrap().iter().map(|(k, e)| (*k, e.1)).collect();
        let rb: Vec<(u64, u64)> = cx.refs[b].as_ref().unwrap().iter().map(|(k, e)| (*k, e.1)).collect();
        if out != Out::B(ra == rb) {
            vio("C14", format!("== returned {:?} but contents equal is {}", out, ra == rb));
        }
        // symmetry, and agreement of the read-only views of each operand with one another
        let (ma, mb) = (cx.maps[a].as_ref().unwrap(), cx.maps[b].as_ref().unwrap());
        if pool.is_none() && (ma == mb) != (mb == ma) {
            vio("C14", format!("== is not symmetric between slots {} and {}", a, b));
        }
        for (s, m) in [(a, ma), (b, mb)] {
            if m.len() <= 4096 {
                let mut it: Vec<(u64, u64)> = m.iter().map(|(k, v)| (k.class, v.get())).collect();
                it.sort();
                let by_get: Vec<(u64, u64)> = it.iter().filter_map(|(k, _)| m.get(&K::new(*k, 0)).map(|v| (*k, v.get()))).collect();
                let dbg = debug_pairs(m);
                if it.len() != m.len() || by_get != it || dbg != it {
                    vio("C14", format!("slot {}: len() {}, iter() yields {} entries, {} of them found by get, Debug shows {} entries (or other ones)", s, m.len(), it.len(), by_get.len(), dbg.len()));
                }
            }
        }
    }
    out
}

fn op_drop(cx: &mut Ctx, s: usize) {
    let spec = OpSpec { toks: format!("drop {}", s), kind: "drop", slots: vec![s], pslot: None, fuse: None, key_adding: false, readonly: false, key: None };
    run_op(cx, spec, |cx| {
        cx.maps[s] = None;
        Out::U
    });
    cx.refs[s] = None;
}

fn write_v(cx: &mut Ctx, r: &mut V, w: Option<u64>) {
    if let Some(w) = w {
        let old = std::mem::replace(r, V::new(w));
        cx.grave.push(Box::new(old));
    }
}

/// entry(k) followed by a chain of steps; the observations of the steps are the result.
fn op_entry(cx: &mut Ctx, s: usize, k: u64, steps: Vec<Step>, fuse: Option<u64>) -> Out {
    let kid = cx.kid();
    let mut toks = format!("entry {} {} {} {}", s, k, kid, steps.len());
    for st in &steps {
        toks.push(' ');
        toks.push_str(&step_str(st));
    }
    let adding = steps.iter().any(|s| matches!(s, Step::OrInsert(..) | Step::OrInsertWith(..) | Step::OrInsertWithKey(..) | Step::InsertE(..) | Step::VacInsert(..)));
    let removing = steps.iter().any(|s| matches!(s, Step::AndReplace(..) | Step::OccReplaceWith(..) | Step::OccRemove | Step::OccRemoveEntry));
    let spec = OpSpec { toks, kind: "entry", slots: vec![s], pslot: if fuse.is_some() { Some(s) } else { None }, fuse, key_adding: adding && !removing, readonly: !adding, key: Some(k) };
    let key = K::new(k, kid);
    let steps_copy = steps.clone();
    let stored_kid: Option<u64> = cx.refs[s].as_ref().and_then(|r| r.get(&k).map(|e| e.0));
    let out = run_op(cx, spec, move |cx| {
        // the map is borrowed by the entry: take it out of the context while the chain runs
        let mut map = cx.maps[s].take().unwrap();
        let r = catch_unwind(AssertUnwindSafe(|| {
            let mut obs: Vec<Out> = Vec::new();
            let mut e: Option<Entry<'_, K, V, HB>> = Some(map.entry(key));
            for st in &steps {
                let cur = e.take().expect("chain continues after a terminal step");
                match st {
                    Step::Key => {
                        obs.push(Out::N(cur.key().id));
                        e = Some(cur);
                    }
                    Step::AndModify(d) => {
                        e = Some(cur.and_modify(|v| {
                            cb();
                            v.add(*d)
                        }));
                        obs.push(Out::U);
                    }
                    Step::AndReplace(keep, d) => {
                        e = Some(cur.and_replace_entry_with(|_, mut v| {
                            cb();
                            if *keep {
                                v.add(*d);
                                Some(v)
                            } else {
                                None
                            }
                        }));
                        obs.push(Out::U);
                    }
                    Step::OrInsert(v, w) => {
                        let r = cur.or_insert(V::new(*v));
                        obs.push(Out::N(r.get()));
                        write_v(cx, r, *w);
                    }
                    Step::OrInsertWith(v, w) => {
                        // or_default() is or_insert_with(Default::default); V::default() is the value 0
                        let r = if *v == 0 {
                            cur.or_default()
                        } else {
                            cur.or_insert_with(|| {
                                cb();
                                V::new(*v)
                            })
                        };
                        obs.push(Out::N(r.get()));
                        write_v(cx, r, *w);
                    }
                    Step::OrInsertWithKey(v, w) => {
                        let r = cur.or_insert_with_key(|_| {
                            cb();
                            V::new(*v)
                        });
                        obs.push(Out::N(r.get()));
                        write_v(cx, r, *w);
                    }
                    Step::InsertE(v) => {
                        let o = cur.insert(V::new(*v));
                        obs.push(Out::U);
                        e = Some(Entry::Occupied(o));
                    }
                    Step::VacInsert(v, w) => match cur {
                        Entry::Vacant(ve) => {
                            let r = ve.insert(V::new(*v));
                            obs.push(Out::N(r.get()));
                            write_v(cx, r, *w);
                        }
                        _ => panic!("harness: vacant step on occupied entry"),
                    },
                    Step::VacIntoKey => match cur {
                        Entry::Vacant(ve) => {
                            let k = ve.into_key();
                            obs.push(Out::N(k.id));
                            cx.grave.push(Box::new(k));
                        }
                        _ => panic!("harness: vacant step on occupied entry"),
                    },
                    other => match cur {
                        Entry::Occupied(mut oe) => match other {
                            Step::OccGet => {
                                obs.push(Out::N(oe.get().get()));
                                e = Some(Entry::Occupied(oe));
                            }
                            Step::OccGetMut(w) => {
                                let r = oe.get_mut();
                                obs.push(Out::N(r.get()));
                                write_v(cx, r, Some(*w));
                                e = Some(Entry::Occupied(oe));
                            }
                            Step::OccIntoMut(w) => {
                                let r = oe.into_mut();
                                obs.push(Out::N(r.get()));
                                write_v(cx, r, Some(*w));
                            }
                            Step::OccInsert(v) => {
                                let old = oe.insert(V::new(*v));
                                obs.push(Out::N(old.get()));
                                cx.grave.push(Box::new(old));
                                e = Some(Entry::Occupied(oe));
                            }
                            Step::OccRemove => {
                                let v = oe.remove();
                                obs.push(Out::N(v.get()));
                                cx.grave.push(Box::new(v));
                            }
                            Step::OccRemoveEntry => {
                                let (k, v) = oe.remove_entry();
                                obs.push(Out::OKV(Some((k.id, v.get()))));
                                cx.grave.push(Box::new((k, v)));
                            }
                            Step::OccReplaceEntry(v) => {
                                let (k, old) = oe.replace_entry(V::new(*v));
                                obs.push(Out::OKV(Some((k.id, old.get()))));
                                cx.grave.push(Box::new((k, old)));
                            }
                            Step::OccReplaceKey => {
                                let k = oe.replace_key();
                                obs.push(Out::N(k.id));
                                cx.grave.push(Box::new(k));
                            }
                            Step::OccReplaceWith(keep, d) => {
                                e = Some(oe.replace_entry_with(|_, mut v| {
                                    cb();
                                    if *keep {
                                        v.add(*d);
                                        Some(v)
                                    } else {
                                        None
                                    }
                                }));
                                obs.push(Out::U);
                            }
                            _ => panic!("harness: bad step"),
                        },
                        _ => panic!("harness: occupied step on vacant entry"),
                    },
                }
            }
            drop(e);
            Out::S(obs)
        }));
        cx.maps[s] = Some(map);
        match r {
            Ok(o) => o,
            Err(p) => std::panic::resume_unwind(p),
        }
    });
    // key() of an occupied handle names the key object stored in the map, not the one looked up with
    if cx.monitors && fuse.is_none() && !cx.poisoned[s] && matches!(steps_copy.first(), Some(Step::Key)) {
        if let (Some(want), Out::S(obs)) = (stored_kid, &out) {
            if let Some(Out::N(got)) = obs.first() {
                if *got != want {
                    vio("C12", format!("OccupiedEntry::key() names key object {} but the map stores key object {} for key {}", got, want, k));
                }
            }
        }
    }
    resync_ref_checked(cx, s, k, &out, &steps_copy);
    out
}

/// What the value under the chain's key must be after the chain (None: absent), given what it was:
/// the reference semantics of the entry API (the `ref_step` of coq/EntryProofs.v, values only).
fn chain_value(steps: &[Step], before: Option<u64>) -> Option<u64> {
    let mut cur = before;
    for st in steps {
        cur = match (st, cur) {
            (Step::AndModify(d), Some(v)) => Some(v + d),
            (Step::AndReplace(keep, d), Some(v)) | (Step::OccReplaceWith(keep, d), Some(v)) => if *keep { Some(v + d) } else { None },
            (Step::OrInsert(_, w), Some(x)) | (Step::OrInsertWith(_, w), Some(x)) | (Step::OrInsertWithKey(_, w), Some(x)) => Some(w.unwrap_or(x)),
            (Step::OrInsert(v, w), None) | (Step::OrInsertWith(v, w), None) | (Step::OrInsertWithKey(v, w), None) | (Step::VacInsert(v, w), None) => Some(w.unwrap_or(*v)),
            (Step::InsertE(v), _) | (Step::OccInsert(v), Some(_)) | (Step::OccReplaceEntry(v), Some(_)) | (Step::RawInsert(_, v), _) => Some(*v),
            (Step::OccGetMut(w), Some(_)) | (Step::OccIntoMut(w), Some(_)) => Some(*w),
            (Step::OccRemove, _) | (Step::OccRemoveEntry, _) => None,
            (Step::RawOrInsert(_, _, w), Some(x)) | (Step::RawOrInsertWith(_, _, w), Some(x)) => Some(w.unwrap_or(x)),
            (Step::RawOrInsert(_, v, w), None) | (Step::RawOrInsertWith(_, v, w), None) | (Step::RawVacInsert(_, _, v, w), None) => Some(w.unwrap_or(*v)),
            (_, c) => c,
        };
    }
    cur
}

/// Entry chains are checked against the model; the reference map is re-read from the map and,
/// for the key touched, every other element must be unchanged; the chain's own key must hold what
/// the handle's operations wrote (writes through a handle are seen by later lookups).
fn resync_ref_checked(cx: &mut Ctx, s: usize, k: u64, out: &Out, steps: &[Step]) {
    let old = cx.refs[s].take().unwrap_or_default();
    resync_ref(cx, s);
    if cx.monitors && !matches!(out, Out::P(_)) {
        let want = chain_value(steps, old.get(&k).map(|e| e.1));
        let probe = K::new(k, 0);
        let got = cx.maps[s].as_ref().unwrap().get(&probe).map(|v| v.get());
        if got != want {
            vio("C12", format!("after the entry chain on key {} a lookup finds {:?}, the handle's operations leave {:?} (a write through the handle is not seen, or acted on another element)", k, got, want));
        }
        let new = cx.refs[s].as_ref().unwrap();
        let mut bad = None;
        for (kk, e) in &old {
            if *kk != k && new.get(kk) != Some(e) {
                bad = Some(*kk);
            }
        }
        for kk in new.keys() {
            if *kk != k && !old.contains_key(kk) {
                bad = Some(*kk);
            }
        }
        if let Some(b) = bad {
            vio("C12", format!("entry chain on key {} changed another element ({})", k, b));
        }
        let m = cx.maps[s].as_ref().unwrap();
        if m.len() != new.len() {
            vio("C12", format!("after an entry chain len() is {} but {} distinct keys are iterated", m.len(), new.len()));
        }
    }
}

fn op_raw_entry(cx: &mut Ctx, s: usize, variant: u64, k: u64, steps: Vec<Step>, fuse: Option<u64>) -> Out {
    let mut toks = format!("rawentry {} {} {} {}", s, variant, k, steps.len());
    for st in &steps {
        toks.push(' ');
        toks.push_str(&step_str(st));
    }
    let adding = steps.iter().any(|s| matches!(s, Step::RawInsert(..) | Step::RawOrInsert(..) | Step::RawOrInsertWith(..) | Step::RawVacInsert(..)));
    let removing = steps.iter().any(|s| matches!(s, Step::AndReplace(..) | Step::OccReplaceWith(..) | Step::OccRemove | Step::OccRemoveEntry));
    let spec = OpSpec { toks, kind: "rawentry", slots: vec![s], pslot: if fuse.is_some() { Some(s) } else { None }, fuse, key_adding: adding && !removing, readonly: !adding, key: Some(k) };
    let probe = K::new(k, 0);
    let probe = &probe;
    let steps_copy = steps.clone();
    let out = run_op(cx, spec, move |cx| {
        let mut map = cx.maps[s].take().unwrap();
        let hb = map.hasher().clone();
        let hash = hb.hash_class(k);
        let r = catch_unwind(AssertUnwindSafe(|| {
            let mut obs: Vec<Out> = Vec::new();
            let b = map.raw_entry_mut();
            let mut e: Option<RawEntryMut<'_, K, V, HB>> = Some(match variant {
                0 => b.from_key(probe),
                1 => b.from_key_hashed_nocheck(hash, probe),
                _ => b.from_hash(hash, |q| q.class == k),
            });
            let nsteps = steps.len();
            for (sti, st) in steps.iter().enumerate() {
                let cur = e.take().expect("chain continues after a terminal step");
                match st {
                    Step::AndModify(d) => {
                        e = Some(cur.and_modify(|_, v| {
                            cb();
                            v.add(*d)
                        }));
                        obs.push(Out::U);
                    }
                    Step::AndReplace(keep, d) => {
                        e = Some(cur.and_replace_entry_with(|_, mut v| {
                            cb();
                            if *keep {
                                v.add(*d);
                                Some(v)
                            } else {
                                None
                            }
                        }));
                        obs.push(Out::U);
                    }
                    Step::RawInsert(kid, v) => {
                        let o = cur.insert(K::new(k, *kid), V::new(*v));
                        obs.push(Out::U);
                        e = Some(RawEntryMut::Occupied(o));
                    }
                    Step::RawOrInsert(kid, v, w) => {
                        let (kk, vv) = cur.or_insert(K::new(k, *kid), V::new(*v));
                        obs.push(Out::OKV(Some((kk.id, vv.get()))));
                        write_v(cx, vv, *w);
                    }
                    Step::RawOrInsertWith(kid, v, w) => {
                        let (kk, vv) = cur.or_insert_with(|| {
                            cb();
                            (K::new(k, *kid), V::new(*v))
                        });
                        obs.push(Out::OKV(Some((kk.id, vv.get()))));
                        write_v(cx, vv, *w);
                    }
                    Step::RawVacInsert(var, kid, v, w) => match cur {
                        RawEntryMut::Vacant(ve) => {
                            let (kk, vv) = match var {
                                0 => ve.insert(K::new(k, *kid), V::new(*v)),
                                1 => ve.insert_hashed_nocheck(hash, K::new(k, *kid), V::new(*v)),
                                _ => {
                                    let hb2 = hb.clone();
                                    ve.insert_with_hasher(hash, K::new(k, *kid), V::new(*v), move |q| {
                                        use std::hash::BuildHasher;
                                        hb2.hash_one(q)
                                    })
                                }
                            };
                            obs.push(Out::OKV(Some((kk.id, vv.get()))));
                            write_v(cx, vv, *w);
                        }
                        _ => panic!("harness: vacant step on occupied raw entry"),
                    },
                    other => match cur {
                        RawEntryMut::Occupied(mut oe) => match other {
                            Step::Key => {
                                obs.push(Out::N(oe.key().id));
                                e = Some(RawEntryMut::Occupied(oe));
                            }
                            Step::OccGet => {
                                obs.push(Out::N(oe.get().get()));
                                e = Some(RawEntryMut::Occupied(oe));
                            }
                            Step::OccGetMut(w) => {
                                let r = oe.get_mut();
                                obs.push(Out::N(r.get()));
                                write_v(cx, r, Some(*w));
                                e = Some(RawEntryMut::Occupied(oe));
                            }
                            Step::OccIntoMut(w) => {
                                let r = oe.into_mut();
                                obs.push(Out::N(r.get()));
                                write_v(cx, r, Some(*w));
                            }
                            Step::OccInsert(v) => {
                                let old = oe.insert(V::new(*v));
                                obs.push(Out::N(old.get()));
                                cx.grave.push(Box::new(old));
                                e = Some(RawEntryMut::Occupied(oe));
                            }
                            Step::RawOccInsertKey(kid) => {
                                let old = oe.insert_key(K::new(k, *kid));
                                obs.push(Out::N(old.id));
                                cx.grave.push(Box::new(old));
                                e = Some(RawEntryMut::Occupied(oe));
                            }
                            Step::RawOccKeyValue => {
                                // the same observation through each accessor of the handle
                                let last = sti + 1 == nsteps;
                                match (cx.opi + sti) % 5 {
                                    0 => {
                                        let (kk, vv) = oe.get_key_value();
                                        obs.push(Out::OKV(Some((kk.id, vv.get()))));
                                    }
                                    1 => {
                                        let (kk, vv) = oe.get_key_value_mut();
                                        obs.push(Out::OKV(Some((kk.id, vv.get()))));
                                    }
                                    2 => {
                                        let id = oe.key().id;
                                        obs.push(Out::OKV(Some((id, oe.get().get()))));
                                    }
                                    3 => {
                                        let id = oe.key_mut().id;
                                        obs.push(Out::OKV(Some((id, oe.get_mut().get()))));
                                    }
                                    _ if last => {
                                        let (kk, vv) = oe.into_key_value();
                                        obs.push(Out::OKV(Some((kk.id, vv.get()))));
                                        continue;
                                    }
                                    _ => {
                                        let (kk, vv) = oe.get_key_value();
                                        obs.push(Out::OKV(Some((kk.id, vv.get()))));
                                    }
                                }
                                e = Some(RawEntryMut::Occupied(oe));
                            }
                            Step::OccRemove => {
                                let v = oe.remove();
                                obs.push(Out::N(v.get()));
                                cx.grave.push(Box::new(v));
                            }
                            Step::OccRemoveEntry => {
                                let (kk, v) = oe.remove_entry();
                                obs.push(Out::OKV(Some((kk.id, v.get()))));
                                cx.grave.push(Box::new((kk, v)));
                            }
                            Step::OccReplaceWith(keep, d) => {
                                e = Some(oe.replace_entry_with(|_, mut v| {
                                    cb();
                                    if *keep {
                                        v.add(*d);
                                        Some(v)
                                    } else {
                                        None
                                    }
                                }));
                                obs.push(Out::U);
                            }
                            _ => panic!("harness: bad raw step"),
                        },
                        _ => panic!("harness: occupied step on vacant raw entry"),
                    },
                }
            }
            drop(e);
            Out::S(obs)
        }));
        cx.maps[s] = Some(map);
        match r {
            Ok(o) => o,
            Err(p) => std::panic::resume_unwind(p),
        }
    });
    resync_ref_checked(cx, s, k, &out, &steps_copy);
    out
}

fn op_raw_get(cx: &mut Ctx, s: usize, variant: u64, k: u64) -> Out {
    let spec = OpSpec { toks: format!("rawget {} {} {}", s, variant, k), kind: "rawget", slots: vec![s], pslot: None, fuse: None, key_adding: false, readonly: true, key: Some(k) };
    let probe = K::new(k, 0);
    let out = run_op(cx, spec, |cx| {
        let m = cx.maps[s].as_ref().unwrap();
        let hash = m.hasher().hash_class(k);
        let b = m.raw_entry();
        let r = match variant {
            0 => b.from_key(&probe),
            1 => b.from_key_hashed_nocheck(hash, &probe),
            _ => b.from_hash(hash, |q| q.class == k),
        };
        Out::OKV(r.map(|(k, v)| (k.id, v.get())))
    });
    drop(probe);
    if cx.monitors {
        let exp = Out::OKV(cx.refs[s].as_ref().unwrap().get(&k).cloned());
        if out != exp {
            vio("C12", format!("raw_entry lookup of {} returned {:?}, reference says {:?}", k, out, exp));
        }
    }
    out
}

// ------------------------------------------------------------------ generation

mod gen;

fn main() {
    let args: Vec<String> = std::env::args().collect();
    let mut seed = 1u64;
    let mut histories = 100u64;
    let mut family = "mixed".to_string();
    let mut outp = "-".to_string();
    let mut maxops = 120u64;
    let mut monitors = true;
    let mut probe: Option<String> = None;
    let mut statsp: Option<String> = None;
    let mut only: Option<u64> = None;
    let mut progressp: Option<String> = None;
    let mut i = 1;
    while i < args.len() {
        match args[i].as_str() {
            "--seed" => { seed = args[i + 1].parse().unwrap(); i += 1 }
            "--histories" => { histories = args[i + 1].parse().unwrap(); i += 1 }
            "--family" => { family = args[i + 1].clone(); i += 1 }
            "--out" => { outp = args[i + 1].clone(); i += 1 }
            "--stats" => { statsp = Some(args[i + 1].clone()); i += 1 }
            "--maxops" => { maxops = args[i + 1].parse().unwrap(); i += 1 }
            "--progress" => { progressp = Some(args[i + 1].clone()); i += 1 }
            "--only" => { only = Some(args[i + 1].parse().unwrap()); i += 1 }
            "--no-monitors" => monitors = false,
            "--probe" => { probe = Some(args[i + 1].clone()); i += 1 }
            x => panic!("unknown argument {}", x),
        }
        i += 1;
    }
    std::panic::set_hook(Box::new(|_| {}));
    let mut file: Box<dyn std::io::Write> = if outp == "-" { Box::new(std::io::stdout()) } else { Box::new(std::io::BufWriter::new(std::fs::File::create(&outp).unwrap())) };
    let mut all_stats: BTreeMap<String, u64> = BTreeMap::new();
    let mut all_classes = std::collections::BTreeSet::new();
    let mut all_viol: Vec<(String, String)> = Vec::new();
    let debug = cfg!(debug_assertions);
    for h in 0..histories {
        if only.map_or(false, |o| o != h) {
            continue;
        }
        let hseed = seed.wrapping_mul(1_000_003).wrapping_add(h);
        if family == "set" || family == "parset" || family == "serset" || family == "zst" {
            // HashSet histories have their own driver (set.rs); same trace format
            let mut sx = set::SCtx {
                sets: (0..3).map(|_| None).collect(),
                refs: (0..3).map(|_| BTreeMap::new()).collect(),
                out: String::new(),
                rng: Rng::new(hseed),
                next_kid: 0,
                hist_id: format!("{}:{}:{}", family, seed, h),
                opi: 0,
                stats: BTreeMap::new(),
                classes: Default::default(),
                monitors,
                tab_allocs: 0,
                tab_frees: 0,
                abort: false,
                par: family == "parset",
                ser: family == "serset",
            };
            let probe: griddle::HashSet<K, HB> = griddle::HashSet::with_hasher(HB { kind: 0, id: 0 });
            let r = probe.verif_state().r;
            drop(probe);
            if family == "zst" {
                writeln!(sx.out, "H {} {} 1 0 {}", r, debug as u8, sx.hist_id).unwrap();
            } else {
                writeln!(sx.out, "H {} {} 0 {} {}", r, debug as u8, std::mem::size_of::<(K, ())>(), sx.hist_id).unwrap();
            }
            if let Some(ref p) = progressp {
                let _ = std::fs::write(p, format!("{}\n", sx.hist_id));
            }
            if family == "zst" {
                set::zst_history(&mut sx, maxops);
            } else {
                if monitors {
                    let mut r2 = Rng::new(hseed ^ 0xC0FF_EE00);
                    copymon::run(&mut r2, &sx.hist_id, family == "parset");
                    *sx.stats.entry("op:copy_type_extend".to_string()).or_insert(0) += 1;
                }
                set::history(&mut sx, maxops);
            }
            for (p, m) in PEND.with(|p| std::mem::take(&mut *p.borrow_mut())) {
                writeln!(sx.out, "V {} {}", p, m).unwrap();
                all_viol.push((p, m));
            }
            file.write_all(sx.out.as_bytes()).unwrap();
            for (k, v) in sx.stats {
                *all_stats.entry(k).or_insert(0) += v;
            }
            all_classes.extend(sx.classes);
            continue;
        }
        let mut cx = Ctx {
            maps: (0..NSLOTS).map(|_| None).collect(),
            refs: (0..NSLOTS).map(|_| None).collect(),
            poisoned: vec![false; NSLOTS],
            out: String::new(),
            rng: Rng::new(hseed),
            next_kid: 0,
            next_val: 0,
            grave: Vec::new(),
            hist_id: format!("{}:{}:{}", family, seed, h),
            opi: 0,
            dump_every: 12,
            stats: BTreeMap::new(),
            classes: Default::default(),
            viol: Vec::new(),
            r_const: 8,
            monitors,
            probe: probe.clone(),
            abort: false,
            tab_allocs: 0,
            tab_frees: 0,
            promise: vec![0; NSLOTS],
            skip_state_once: false,
            dump_once: false,
        };
        // R is read from the implementation
        let probe: Map = Map::with_hasher(HB { kind: 0, id: 0 });
        let r = probe.verif_state().r;
        drop(probe);
        cx.r_const = r;
        writeln!(cx.out, "H {} {} 0 {} {}", r, debug as u8, std::mem::size_of::<(K, V)>(), cx.hist_id).unwrap();
        // progress marker, flushed before the history runs: a hang or a crash is then attributable
        if let Some(ref p) = progressp {
            let _ = std::fs::write(p, format!("{}\n", cx.hist_id));
        }
        if monitors && matches!(family.as_str(), "core" | "mixed" | "par" | "set") {
            let mut r2 = Rng::new(hseed ^ 0xC0FF_EE00);
            copymon::run(&mut r2, &cx.hist_id, family == "par");
            cx.bump("op:copy_type_extend");
        }
        gen::history(&mut cx, &family, maxops);
        // end of history: drop everything; nothing may stay alive
        if cx.abort {
            // possibly corrupt maps are leaked, not dropped
            for s in 0..NSLOTS {
                std::mem::forget(cx.maps[s].take());
            }
            cx.bump("forgotten");
            cx.bump("abandoned");
        }
        for s in 0..NSLOTS {
            if cx.maps[s].is_some() {
                op_drop(&mut cx, s);
            }
        }
        cx.grave.clear();
        let live = LIVE.with(|l| l.borrow().len());
        let leak_ok = cx.stats.get("forgotten").is_some() || cx.stats.get("clonefrom_interrupted").is_some();
        if cx.monitors && !leak_ok && live != 0 {
            vio("C06", format!("{} objects still alive after every map and iterator was dropped", live));
        }
        if cx.monitors && cx.stats.get("forgotten").is_none() && cx.tab_allocs != cx.tab_frees {
            // (table memory is released even after an interrupted clone_from)
            vio("C06", format!("{} table allocations but {} deallocations by the end of the history (every map and iterator dropped)", cx.tab_allocs, cx.tab_frees));
        }
        LIVE.with(|l| l.borrow_mut().clear());
        for (p, m) in PEND.with(|p| std::mem::take(&mut *p.borrow_mut())) {
            writeln!(cx.out, "V {} {}", p, m).unwrap();
            cx.viol.push((p, m));
        }
        file.write_all(cx.out.as_bytes()).unwrap();
        for (k, v) in cx.stats {
            *all_stats.entry(k).or_insert(0) += v;
        }
        all_classes.extend(cx.classes);
        all_viol.extend(cx.viol);
    }
    file.flush().unwrap();
    // statistics as JSON (hand-written, no serde)
    let mut js = String::from("{");
    write!(js, "\"histories\":{},\"seed\":{},\"family\":\"{}\",\"debug\":{},", histories, seed, family, debug).unwrap();
    write!(js, "\"distinct_classes\":{},", all_classes.len()).unwrap();
    js.push_str("\"stats\":{");
    js.push_str(&all_stats.iter().map(|(k, v)| format!("\"{}\":{}", k, v)).collect::<Vec<_>>().join(","));
    js.push_str("},\"classes_sample\":[");
    js.push_str(&all_classes.iter().take(40).map(|c| format!("\"{}\"", c)).collect::<Vec<_>>().join(","));
    js.push_str("],\"violations\":[");
    js.push_str(&all_viol.iter().take(50).map(|(p, m)| format!("{{\"property\":\"{}\",\"what\":\"{}\"}}", p, m.replace('\\', "/").replace('"', "'"))).collect::<Vec<_>>().join(","));
    write!(js, "],\"violation_count\":{}}}", all_viol.len()).unwrap();
    match statsp {
        Some(p) => std::fs::write(p, js).unwrap(),
        None => eprintln!("{}", js),
    }
}
