//! Runtime instrumentation shared by all harness binaries: counting allocator, callback fuse,
//! drop ledger, tracked key/value types, hashers, PRNG.
use std::alloc::{GlobalAlloc, Layout, System};
use std::cell::RefCell;
use std::collections::BTreeSet;
use std::hash::{BuildHasher, Hash, Hasher};
use std::sync::atomic::{AtomicBool, AtomicI64, AtomicU64, Ordering::SeqCst};

pub struct CountingAlloc;
pub static ARMED: AtomicBool = AtomicBool::new(false);
pub static ALLOCS: AtomicU64 = AtomicU64::new(0);
pub static FREES: AtomicU64 = AtomicU64::new(0);
pub static HASHES: AtomicU64 = AtomicU64::new(0);
pub static CBS: AtomicU64 = AtomicU64::new(0);
pub static FUSE: AtomicI64 = AtomicI64::new(-1);
pub static SERIAL: AtomicU64 = AtomicU64::new(1);

// hashbrown allocates its tables with alignment max(align_of::<T>(), Group::WIDTH) = 16; nothing
// else in the harness does.
unsafe impl GlobalAlloc for CountingAlloc {
    unsafe fn alloc(&self, l: Layout) -> *mut u8 {
        if l.align() == 16 && ARMED.load(SeqCst) {
            ALLOCS.fetch_add(1, SeqCst);
        }
        System.alloc(l)
    }
    unsafe fn dealloc(&self, p: *mut u8, l: Layout) {
        if l.align() == 16 && ARMED.load(SeqCst) {
            FREES.fetch_add(1, SeqCst);
        }
        System.dealloc(p, l)
    }
}

pub struct FusePanic;

/// The ledger is process-wide (rayon workers create and drop objects too); same access pattern
/// as a thread-local RefCell.
pub struct Glob<T>(std::sync::Mutex<RefCell<T>>);
impl<T> Glob<T> {
    pub fn with<R>(&self, f: impl FnOnce(&RefCell<T>) -> R) -> R {
        let g = self.0.lock().unwrap_or_else(|e| e.into_inner());
        f(&g)
    }
}
pub static DK: Glob<Vec<u64>> = Glob(std::sync::Mutex::new(RefCell::new(Vec::new())));
pub static DV: Glob<Vec<u64>> = Glob(std::sync::Mutex::new(RefCell::new(Vec::new())));
pub static LIVE: Glob<BTreeSet<u64>> = Glob(std::sync::Mutex::new(RefCell::new(BTreeSet::new())));
pub static VIOL: Glob<Vec<String>> = Glob(std::sync::Mutex::new(RefCell::new(Vec::new())));
thread_local! {
    pub static GRAVE: RefCell<Vec<Box<dyn std::any::Any>>> = RefCell::new(Vec::new());
}

/// A call into user code that may panic (Hash, Clone, predicate, closure).
pub fn cb() {
    if !ARMED.load(SeqCst) {
        return;
    }
    CBS.fetch_add(1, SeqCst);
    let f = FUSE.load(SeqCst);
    if f == 0 {
        FUSE.store(-1, SeqCst);
        std::panic::panic_any(FusePanic);
    } else if f > 0 {
        FUSE.store(f - 1, SeqCst);
    }
}

/// What a call hands back to its caller is kept until the call's counters have been read: the
/// caller's own drops (also while unwinding) are not the map's.
pub fn bury<T: 'static>(x: T) {
    GRAVE.with(|g| g.borrow_mut().push(Box::new(x)));
}
pub fn exhume() {
    let v = GRAVE.with(|g| std::mem::take(&mut *g.borrow_mut()));
    drop(v);
}

pub fn violation(s: String) {
    VIOL.with(|v| v.borrow_mut().push(s));
}

fn born() -> u64 {
    let s = SERIAL.fetch_add(1, SeqCst);
    LIVE.with(|l| l.borrow_mut().insert(s));
    s
}
fn died(serial: u64, what: &str, payload: u64) {
    let ok = LIVE.with(|l| l.borrow_mut().remove(&serial));
    if !ok {
        violation(format!("double drop of {} {}", what, payload));
    }
}

/// Key: Eq/Hash on `class`; `id` identifies the key object (clones share it).
pub struct K {
    pub class: u64,
    pub id: u64,
    serial: u64,
}
impl K {
    pub fn new(class: u64, id: u64) -> K {
        K { class, id, serial: born() }
    }
}
impl PartialEq for K {
    fn eq(&self, o: &K) -> bool {
        self.class == o.class
    }
}
impl Eq for K {}
impl Hash for K {
    fn hash<H: Hasher>(&self, h: &mut H) {
        if ARMED.load(SeqCst) {
            HASHES.fetch_add(1, SeqCst);
        }
        cb();
        h.write_u64(self.class);
    }
}
impl Clone for K {
    fn clone(&self) -> K {
        cb();
        K::new(self.class, self.id)
    }
}
/// The key object (by id) whose destructor panics, once, the next time it runs (0: none). Armed
/// only around the drop of a drain_filter iterator: the one place where griddle has code for
/// a panicking element destructor (the ConsumeAllOnDrop guard).
pub static BOMB: std::sync::atomic::AtomicU64 = std::sync::atomic::AtomicU64::new(0);
impl Drop for K {
    fn drop(&mut self) {
        died(self.serial, "key", self.id);
        if ARMED.load(SeqCst) {
            DK.with(|d| d.borrow_mut().push(self.id));
        }
        if self.id != 0 && BOMB.load(SeqCst) == self.id {
            BOMB.store(0, SeqCst);
            std::panic::panic_any(FusePanic);
        }
    }
}
impl std::fmt::Debug for K {
    fn fmt(&self, f: &mut std::fmt::Formatter<'_>) -> std::fmt::Result {
        write!(f, "{}", self.class)
    }
}

/// Value: heap-owning, payload doubles as identity.
pub struct V {
    pub val: Box<u64>,
    serial: u64,
}
impl V {
    pub fn new(v: u64) -> V {
        V { val: Box::new(v), serial: born() }
    }
    pub fn get(&self) -> u64 {
        *self.val
    }
    pub fn add(&mut self, d: u64) {
        *self.val += d;
    }
}
impl Default for V {
    fn default() -> V {
        cb();
        V::new(0)
    }
}
impl PartialEq for V {
    fn eq(&self, o: &V) -> bool {
        *self.val == *o.val
    }
}
impl Eq for V {}
impl Clone for V {
    fn clone(&self) -> V {
        cb();
        V::new(*self.val)
    }
}
impl Drop for V {
    fn drop(&mut self) {
        died(self.serial, "value", *self.val);
        if ARMED.load(SeqCst) {
            DV.with(|d| d.borrow_mut().push(*self.val));
        }
    }
}
impl std::fmt::Debug for V {
    fn fmt(&self, f: &mut std::fmt::Formatter<'_>) -> std::fmt::Result {
        write!(f, "{}", *self.val)
    }
}

/// Hash builders: 0 identity, 1 class mod 4, 2 constant, 3 multiplicative, 4 seeded.
#[derive(Clone, Debug, PartialEq, Eq)]
pub struct HB {
    pub kind: u8,
    pub id: u64,
}
pub struct HS {
    kind: u8,
    seed: u64,
    state: u64,
}
const GOLD: u64 = 0x9E37_79B9_7F4A_7C15;
impl Default for HB {
    fn default() -> HB {
        HB { kind: 0, id: 0 }
    }
}
impl BuildHasher for HB {
    type Hasher = HS;
    fn build_hasher(&self) -> HS {
        HS { kind: self.kind, seed: self.id, state: 0 }
    }
}
impl Hasher for HS {
    fn finish(&self) -> u64 {
        self.state
    }
    fn write(&mut self, b: &[u8]) {
        for x in b {
            self.write_u64(*x as u64);
        }
    }
    fn write_u64(&mut self, x: u64) {
        self.state = match self.kind {
            0 => x,
            1 => x % 4,
            2 => 7,
            3 => x.wrapping_mul(GOLD),
            _ => (x ^ self.seed.wrapping_mul(0xD6E8_FEB8_6659_FD93)).wrapping_mul(GOLD).rotate_left(23),
        };
    }
}
impl HB {
    /// hash of a key class, without touching the counters
    pub fn hash_class(&self, class: u64) -> u64 {
        let mut h = self.build_hasher();
        h.write_u64(class);
        h.finish()
    }
}

pub struct Rng(pub u64);
impl Rng {
    pub fn new(seed: u64) -> Rng {
        let mut r = Rng(seed.wrapping_mul(GOLD) ^ 0x1234_5678_9ABC_DEF1);
        if r.0 == 0 {
            r.0 = 1;
        }
        for _ in 0..4 {
            r.next();
        }
        r
    }
    pub fn next(&mut self) -> u64 {
        let mut x = self.0;
        x ^= x >> 12;
        x ^= x << 25;
        x ^= x >> 27;
        self.0 = x;
        x.wrapping_mul(0x2545_F491_4F6C_DD1D)
    }
    pub fn below(&mut self, n: u64) -> u64 {
        if n == 0 {
            0
        } else {
            self.next() % n
        }
    }
    pub fn chance(&mut self, num: u64, den: u64) -> bool {
        self.below(den) < num
    }
    pub fn pick<'a, T>(&mut self, xs: &'a [T]) -> &'a T {
        &xs[self.below(xs.len() as u64) as usize]
    }
}

pub struct Counters {
    pub hashes: u64,
    pub allocs: u64,
    pub frees: u64,
    pub cbs: u64,
    pub dk: Vec<u64>,
    pub dv: Vec<u64>,
}

pub fn arm(fuse: Option<u64>) {
    HASHES.store(0, SeqCst);
    ALLOCS.store(0, SeqCst);
    FREES.store(0, SeqCst);
    CBS.store(0, SeqCst);
    DK.with(|d| d.borrow_mut().clear());
    DV.with(|d| d.borrow_mut().clear());
    FUSE.store(fuse.map_or(-1, |f| f as i64), SeqCst);
    ARMED.store(true, SeqCst);
}
pub fn disarm() -> Counters {
    ARMED.store(false, SeqCst);
    FUSE.store(-1, SeqCst);
    let mut dk = DK.with(|d| std::mem::take(&mut *d.borrow_mut()));
    let mut dv = DV.with(|d| std::mem::take(&mut *d.borrow_mut()));
    dk.sort();
    dv.sort();
    Counters {
        hashes: HASHES.load(SeqCst),
        allocs: ALLOCS.load(SeqCst),
        frees: FREES.load(SeqCst),
        cbs: CBS.load(SeqCst),
        dk,
        dv,
    }
}

pub fn classify_panic(p: &(dyn std::any::Any + Send)) -> String {
    if p.is::<FusePanic>() {
        return "user".into();
    }
    let msg: String = if let Some(s) = p.downcast_ref::<&str>() {
        (*s).to_string()
    } else if let Some(s) = p.downcast_ref::<String>() {
        s.clone()
    } else {
        "?".into()
    };
    if msg.contains("no entry found for key") {
        "index".into()
    } else if msg.contains("capacity overflow") {
        "capov".into()
    } else if msg.contains("called `Option::unwrap()` on a `None` value") {
        "unwrap".into()
    } else {
        format!("other:{}", msg.replace(' ', "_").replace('\n', "_"))
    }
}
