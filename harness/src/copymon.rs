//! Monitor only (nothing is recorded for the model): the by-reference `Extend` and
//! `ParallelExtend` impls of HashMap and HashSet need `Copy` elements, which the tracked key and
//! value types are not.  Once per history a small u64 map and set are brought to a random state
//! (removals, some resize phase) and extended by reference; the result must be what a BTreeMap /
//! BTreeSet fed the same items holds (for a repeated key the last value wins).
use crate::rt::*;
use crate::{vio, WHERE};
use griddle::{HashMap, HashSet};
use std::collections::{BTreeMap, BTreeSet};

pub fn run(rng: &mut Rng, hist_id: &str, par: bool) {
    WHERE.with(|w| *w.borrow_mut() = format!("history={} op#0", hist_id));
    let hb = HB { kind: [0u8, 3, 4][rng.below(3) as usize], id: 1 + rng.below(50) };
    let cap = [0usize, 3, 14, 28][rng.below(4) as usize];
    let mut m: HashMap<u64, u64, HB> = HashMap::with_capacity_and_hasher(cap, hb.clone());
    let mut s: HashSet<u64, HB> = HashSet::with_capacity_and_hasher(cap, hb.clone());
    let mut rm: BTreeMap<u64, u64> = BTreeMap::new();
    let mut rs: BTreeSet<u64> = BTreeSet::new();
    let universe = 8 + rng.below(60);
    for i in 0..rng.below(70) {
        let k = rng.below(universe);
        if rng.below(5) == 0 {
            m.remove(&k);
            s.remove(&k);
            rm.remove(&k);
            rs.remove(&k);
        } else {
            m.insert(k, i);
            s.insert(k);
            rm.insert(k, i);
            rs.insert(k);
        }
    }
    let same_map = |m: &HashMap<u64, u64, HB>, r: &BTreeMap<u64, u64>| -> bool {
        let mut v: Vec<(u64, u64)> = m.iter().map(|(k, v)| (*k, *v)).collect();
        v.sort();
        v == r.iter().map(|(k, v)| (*k, *v)).collect::<Vec<_>>() && m.len() == r.len() && r.iter().all(|(k, v)| m.get(k) == Some(v))
    };
    let same_set = |s: &HashSet<u64, HB>, r: &BTreeSet<u64>| -> bool {
        let mut v: Vec<u64> = s.iter().cloned().collect();
        v.sort();
        v == r.iter().cloned().collect::<Vec<_>>() && s.len() == r.len() && r.iter().all(|k| s.contains(k))
    };
    // Extend<(&K, &V)> / Extend<&T>, with repeated keys
    let items: Vec<(u64, u64)> = (0..rng.below(40)).map(|i| (rng.below(universe + 20), 1000 + i)).collect();
    let keys: Vec<u64> = items.iter().map(|x| x.0).collect();
    m.extend(items.iter().map(|(k, v)| (k, v)));
    s.extend(keys.iter());
    for (k, v) in &items {
        rm.insert(*k, *v);
        rs.insert(*k);
    }
    if !same_map(&m, &rm) {
        vio("C01", format!("extend by reference of {} items: the map holds {} entries, the reference {} (or a value differs)", items.len(), m.len(), rm.len()));
    }
    if !same_set(&s, &rs) {
        vio("C13", format!("HashSet::extend by reference of {} items: the set holds {} elements, the reference {}", keys.len(), s.len(), rs.len()));
    }
    #[cfg(feature = "par")]
    if par {
        use rayon::prelude::*;
        let pool = crate::par::pool(rng.below(6) as usize);
        let items: Vec<(u64, u64)> = (0..rng.below(60)).map(|i| (rng.below(universe + 40), 5000 + i)).collect();
        let keys: Vec<u64> = items.iter().map(|x| x.0).collect();
        pool.install(|| m.par_extend(items.par_iter().map(|(k, v)| (k, v))));
        pool.install(|| s.par_extend(keys.par_iter()));
        for (k, v) in &items {
            rm.insert(*k, *v);
            rs.insert(*k);
        }
        if !same_map(&m, &rm) {
            vio("C15", format!("par_extend by reference of {} items: the map holds {} entries, sequential extend gives {} (or a value differs)", items.len(), m.len(), rm.len()));
        }
        if !same_set(&s, &rs) {
            vio("C15", format!("HashSet::par_extend by reference of {} items: {} elements, sequential extend gives {}", keys.len(), s.len(), rs.len()));
        }
        // from_par_iter of copies
        let a: HashMap<u64, u64, HB> = pool.install(|| items.par_iter().map(|(k, v)| (*k, *v)).collect());
        let b: BTreeMap<u64, u64> = items.iter().cloned().collect();
        if !same_map(&a, &b) {
            vio("C15", format!("from_par_iter of {} items: {} entries, sequential from_iter gives {}", items.len(), a.len(), b.len()));
        }
    }
    let _ = par;
}
